#!/bin/bash
# tools/try_mutant.sh <patch.diff> <Cnn> [tier] [worktree]
# Applies a seeded change to a scratch worktree of /repo (never to /repo itself), runs the check of <Cnn>
# against that worktree (VERIF_REPO), and removes the change again. Evidence of such runs goes to .work/evidence-alt.
set -u
P=$(readlink -f "$1"); ID=$2; TIER=${3:-quick}; WT=${4:-/tmp/wt/try-$ID-$$}
made=0
if [ ! -d "$WT" ]; then git -C /repo worktree add -q --detach "$WT" HEAD || exit 2; made=1; fi
cd "$WT" || exit 2
git checkout -q -- . ; git clean -fdq -e _seeded; git checkout -q --detach $(git -C /repo rev-parse HEAD)
if ! git apply "$P" 2>/dev/null; then echo "patch does not apply: $P"; [ $made = 1 ] && git -C /repo worktree remove --force "$WT"; exit 2; fi
cd /verif && VERIF_REPO="$WT" ./check "$ID" "$TIER" > .work/mutant.$$.log 2>&1; rc=$?
grep -E "^(VIOLATION|KNOWN|INCONCLUSIVE|BUILD|C[0-9]+ )" .work/mutant.$$.log | cut -c1-220 | head -6
rm -f .work/mutant.$$.log
git -C "$WT" checkout -q -- . ; git -C "$WT" clean -fdq -e _seeded
[ $made = 1 ] && git -C /repo worktree remove --force "$WT"
echo "mutant $P on $ID $TIER -> exit $rc"
