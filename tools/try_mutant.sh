#!/bin/bash
# tools/try_mutant.sh <patch.diff> <Cnn> [tier]  — apply a seeded change to /repo, run the check, undo it.
set -u
P=$1; ID=$2; TIER=${3:-quick}
cd /repo || exit 2
if ! git diff --quiet; then echo "/repo has uncommitted changes; refusing"; exit 2; fi
if ! git apply --3way "$P" 2>/dev/null && ! git apply "$P"; then echo "patch does not apply"; git checkout -- .; exit 2; fi
git reset -q
cd /verif && ./check "$ID" "$TIER" > .work/mutant.$$.log 2>&1; rc=$?
grep -E "^(VIOLATION|KNOWN|INCONCLUSIVE|C[0-9]+ )" .work/mutant.$$.log | head -8
rm -f .work/mutant.$$.log
git -C /repo checkout -- . ; git -C /repo clean -fdq -e _seeded
echo "mutant $(basename $(dirname $P)) of $ID -> exit $rc"
exit 0
