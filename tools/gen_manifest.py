#!/usr/bin/env python3
"""Regenerates /verif/MANIFEST.json from the table below. A property is claimed only if it is listed in CHECKS;
every other property of properties.jsonl is put under not_applicable with the reason given in PENDING (or a default)."""
import json, subprocess, sys

CHECKS = {
 "C01": dict(cat="exploration",
   text="Real StreamClient <-> real StreamServer over a re-segmenting transport; boundary-biased payload/write/read sizes, all copy paths incl. tunnel-to-tunnel re-encryption, 0-3 identity headers (reference relay hops), prefixes; oracle = concatenation model with EOF position.",
   note="Sampled configurations and schedules; crypto assumed; TCP segmentation emulated by the harness transport.",
   tech="runtime monitoring: boundary recording + reference stream model (plain/checkptr and race-detector builds)"),
 "C02": dict(cat="fault_enumeration",
   text="Every tamper operator at every structural position (every byte of handshake/length units, every cut offset, every unit/chunk drop/dup/swap, splices, response swap, foreign key, replay) of recorded genuine sessions, delivered to the real endpoint bound to the session; oracle = prefix-then-error over AEAD units, fallback sees untouched bytes.",
   note="Sessions are small so positions are exhaustive per session; payload bytes sampled; AES-GCM assumed unforgeable.",
   tech="runtime monitoring: fault injection on recorded wire transcripts + prefix/err oracle"),
 "C03": dict(cat="exploration",
   text="Bounded-exhaustive and random presentation histories (advance clock, fresh/forged skews, replays, damaged copies, idle connections) against the real StreamServer on a virtual clock; concurrent copies under the race detector; porcupine linearizability of SaltPool histories.",
   note="Integer-second timestamp rule; synctest clock trusted; known finding F1 (60..61 s replay hole) is reported as KNOWN-FINDING.",
   tech="runtime monitoring: history oracle (remember-forever set) on synctest virtual time + porcupine + race detector"),
 "C04": dict(cat="exploration",
   text="Real SlidingWindowFilter and real UDP unpackers driven by bounded-exhaustive/random id sequences and forged packets (bad tag, stale, wrong type, foreign session) and server-session changes on a virtual clock; compared with a set model with explicit don't-cares.",
   note="12-symbol alphabet enumerated completely to depth 4 (quick) / 6 (thorough); beyond that sampled.",
   tech="runtime monitoring: reference-model oracle over accept/reject histories (synctest virtual clock)"),
 "C05": dict(cat="exploration",
   text="Every packer/unpacker pair (SS2022 0-3 identity headers, none, SOCKS5, direct) on canary buffers with payload lengths around both ends, all address kinds, MTUs and padding policies; relay part re-packs in place with the service's own headroom formulas for every server x client protocol pair, both directions.",
   note="Bounds enforced by Go (panic = violation) plus canaries inside the buffer; sampled inputs.",
   tech="runtime monitoring: round-trip/MTU/canary oracle on the real codecs (checkptr build)"),
 "C06": dict(cat="exploration",
   text="(a) In-process: structure-aware and mutated hostile inputs at every network entry point (SOCKS5/HTTP/SS-none/SS2022 stream servers and clients incl. keyed-but-malformed plaintext, the HTTP forwarder fed hostile origin replies, all UDP unpackers, address/text parsers); everything that parses is routed through routers using every criterion representation and replied to / relayed one step; oracle = no panic / fatal error / checkptr fault / hang in any goroutine. (b) Live: the real service manager with every server kind behind port-set / domain-set / reject routes is blasted with the hostile corpus over real TCP and UDP sockets; afterwards a genuine exchange through every server must still be served. (c) Fuzz: Go's coverage-guided engine (child binary built with -fuzz) mutates [entry selector][flags][bytes] inputs for 24 entries incl. SS2022 requests / responses / datagrams whose plaintext is the input sealed under a valid key; budget in executions; crasher file = witness.",
   note="Sampled and coverage-guided inputs; tproxy/redirect and kernel faults not driven; a crash in any goroutine ends the child and is attributed through the case log.",
   tech="runtime monitoring: hostile-input workloads (sampled + coverage-guided fuzzing engine) under checkptr / instrumented builds with crash/hang oracle"),
 "C08": dict(cat="exploration",
   text="Real cred.Manager over the CredStores of a real SS2022 TCP and UDP server: sequential histories (add/update/delete incl. duplicate keys and same-key updates, reloads of operator-edited / restored / corrupt files, debounced saves on a virtual clock) and concurrent operations; after every step the API listing, real TCP+UDP handshakes for every key of the universe and the store file are compared; concurrent API histories are checked with porcupine against a user-map model; a hook-directed part holds the saver at its verif hook points while further operations land inside the save window, then compares file, listing and handshakes; an opwindow part parks one operation at its before-publish hook while a conflicting one runs and compares listing and handshakes afterwards; a signal part edits the store file of a running service (delete / rotate / add / swap users, or an unloadable file), sends the process a real SIGUSR1 and tries every key of the universe for a new TCP connection and a new UDP session over real sockets.",
   note="Small universe (4 names x 4 keys; 6 keys in the signal part); the sequential/concurrent parts call the manager's public methods, the api part goes through the real REST API over loopback; a key that must no longer work is given 2 s (TCP) / 0.4 s (UDP) of real time to be served before it counts as refused.",
   tech="runtime monitoring: three-view consistency oracle + reference map model + porcupine + race detector (synctest virtual clock)"),
 "C14": dict(cat="exploration",
   text="Concurrent Collect* calls for many users (anonymous, named, first seen mid-run) racing with Snapshot/SnapshotAndReset under the race detector, with a conservation / total==anonymous+users / monotonicity oracle over all snapshots; real management API server over the collector compared per server and per user with the collector's own figures; live part: a running service (multi-user SS2022 server + userless server) carries concurrent TCP sessions (clean close / RST after acknowledged traffic) and UDP sessions (ended by NAT timeout on the fake clock) of three users and anonymous clients while stats?clear=true snapshots are taken; cleared snapshots + last answer must equal the byte and datagram counts of the harness's own sockets per server and per user.",
   note="Sampled schedules (distinct outcome vectors counted); the live part counts on closed-loop loopback delivery.",
   tech="runtime monitoring: conservation oracle over recorded snapshot histories + API projection comparison (race detector) + socket-level conservation on a running service (faketime)"),
 "C20": dict(cat="fault_enumeration",
   text="Child processes run the real credential manager and are cut off by RLIMIT_FSIZE=k (write error EFBIG, or death by SIGXFSZ) for EVERY k in 0..len(document)+1 of the save, for several store sizes and operations; the parent reloads the file with a fresh manager (must be the old or the new set; after a failed save memory keeps the new set and a later save repairs the file; after a kill the server is restarted on what the crash left behind, a further change is acknowledged and must be on disk after a clean stop). Shutdown phases of the save debounce (queued, picked up, cooling down, at hook points before/after the save with late changes) are walked on a virtual clock: after Stop the file holds the acknowledged set. An instants part reads the kernel's own log of the store's directory (inotify) while the real manager saves, next to a goroutine that keeps loading the store like a restarting server: the only event allowed on the store's name is a complete file being moved onto it. A diskfull part meets a real ENOSPC on a small tmpfs for stores of 0..280 users (block-boundary growth) and reloads the store.",
   note="Crash = process death / write error; kernel page-cache loss (power failure) is not modelled. Hook-directed phases need the verif build tag; the diskfull part is skipped (with a note) where mounting a tmpfs is not permitted.",
   tech="runtime monitoring: exhaustive crash-point injection in child processes + hook-directed shutdown schedules (synctest) + inotify event-log / concurrent-reader monitor of the store's directory entry + real disk-full fault"),
 "C07": dict(cat="exploration",
   text="Real client <-> real server of SOCKS5 / HTTP CONNECT / Shadowsocks-none over a re-segmenting transport: every address kind and length, credentials over all byte values, method lists 1..255 with the acceptable method at every position, every dial-result code, negative authentication scripts, handshake bytes cut at every single/double position, data coalesced with the handshake in both directions; address/username re-read after Proceed/Abort.",
   note="Sampled beyond the enumerated cut points and list positions; TLS and the non-CONNECT HTTP path are covered by C16, not here.",
   tech="runtime monitoring: request/reply equality and transparent-stream oracle over recorded handshakes"),
 "C09": dict(cat="exploration",
   text="Random router configurations (every criterion kind absent/present/inverted, three port representations, domain sets incl. nested suffix rules, prefix sets, expected-IP rules, named resolvers) built with the real router.Config.Router and queried with random and boundary requests under scripted resolver behaviour; answers compared with an independent ~150-line model written from the RouteConfig documentation.",
   note="GeoIP criteria excluded (no MaxMind DB offline); documented don't-cares counted in the evidence.",
   tech="runtime monitoring: differential testing of the real router against an independent reference model"),
 "C10": dict(cat="exploration",
   text="Random rule sets across matcher thresholds compared over every representation (text, gob, conversions, every explicit builder, the real converter binary as a child, every insertion order of small suffix sets) against a naive matcher on vocabulary-derived probes; port sets: all 65535 ports vs a boolean-array model for bit set / range list / single port; prefix sets: write/reload vs linear Prefix.Contains.",
   note="Ports are exhaustive per set; domain/prefix inputs sampled.",
   tech="runtime monitoring: cross-representation agreement with a naive reference matcher"),
 "C11": dict(cat="exploration",
   text="The real service manager on loopback sockets for every (server protocol x client protocol incl. direct) pair and both batch modes: concurrent sessions send tagged datagrams to IP and domain targets (scripted resolver incl. a failing resolution), SS2022 client address change, unparsable garbage interleaved; observed at target and client sockets: no misdelivery / duplication / corruption, replies only to the owner with the true source, garbage starts nothing; a harness-played upstream interleaves valid replies with datagrams the relay must discard (stranger source, unparsable) inside the same receive batches; a client that moves from IPv4 to IPv6 mid-session; bursts in which datagrams for destinations the kernel refuses (limited broadcast, port 0) sit between deliverable ones, so that sendmmsg batches stop part-way; plus a race-detector stress part.",
   note="Closed-loop delivery on loopback assumed loss-free; virtual clock frozen while traffic flows (GC disabled in ft children).",
   tech="runtime monitoring: exactly-once / right-destination oracle over tagged datagrams on real sockets (faketime + race detector)"),
 "C15": dict(cat="exploration",
   text="Seeded concurrent scripts of Write/Read/WriteTo/CloseWrite/CloseRead/Close/Set*Deadline from 2-4 goroutines per end on the real pipe inside synctest bubbles; byte j of write w identifies its write; call/return stamped from one logical counter; a history oracle decides only happens-before pairs (runs per write, no interleaving, close and deadline rules in virtual time, deadlock detection); plus a lock-step sequential part with an exact model.",
   note="Concurrent writers combined with starving readers are not explored (mutex waiters are not durably blocked for synctest).",
   tech="runtime monitoring: history checker over recorded call/return events on a virtual clock (race detector)"),
 "C16": dict(cat="exploration",
   text="Scripted raw-byte client <-> real httpproxy server and its non-CONNECT forwarder <-> scripted origin, in memory on a virtual clock: pipelined request sequences with header casing/repetition, Connection nominations, Upgrade, proxy credentials, Content-Length and chunked bodies with trailers, interim 1xx, bodiless and close-delimited responses, redirects with/without Location, host changes, later CONNECT, early closes, Basic-auth retries; an own strict HTTP/1.1 parser compares messages semantically minus hop-by-hop fields; a third of the cases reach the origin the way the service does (netio.BidirectionalCopy between the proxy's pipe end and a transport whose Write consumes the caller's slice late).",
   note="Four genuine deviations are open known findings (F19-F22); a request pipelined behind the client's own Connection: close is a documented don't-care.",
   tech="runtime monitoring: semantic message-equality oracle over captured origin/client byte streams (plain + race detector)"),
 "C12": dict(cat="fault_enumeration",
   text="Lifecycle schedules of the real UDP relays (NAT and session relay, recvmmsg and generic paths) on a virtual clock: idle eviction at natTimeout-/+eps with restart, Stop when idle / established / with bursts in flight / right after timeouts / while initialisation is held in name resolution / with a goroutine held at the re-arm or state-swap hook, failing initialisation (router reject, upstream refused), eviction of a session whose client address has become unsendable, a later server failing to start while sessions are live (Run stops the relay by itself, nothing cancels its context), listeners on 127.0.0.1 and on the dual-stack wildcard address; after Run returns the process is audited: goroutines and sockets back to baseline, listener port reusable, virtual time consumed by Stop < natTimeout/2.",
   note="Multi-user SS2022 servers run with the SIGUSR1 reload registration left out through a verif hook (os/signal would make the fake clock unadvanceable); kernel fault injection (EMFILE, ICMP) not in this tier; leak audit by process-wide goroutine/socket counts.",
   tech="runtime monitoring: lifecycle-phase enumeration with hook-directed schedules on the runtime's fake clock + leak/virtual-time audit"),
 "C13": dict(cat="exploration",
   text="The real service manager over real loopback TCP for server x client protocol pairs incl. chained proxies and a dead upstream: initial payload sizes around 1440 handed to the dial, first data at virtual t in {0, 249 ms, 251 ms, never} around the 250 ms wait, further writes, target behaviours (echo, banner after EOF, speak first, half-close first, sink, answer then RST), wait disabled or not, IP/domain targets, dial failures (refused, router reject, resolver failure); HTTPS proxies (TLS, optionally with client certificate) as server and as chained client; plain non-CONNECT requests on a kept-alive proxy connection with idle gaps around and far beyond the wait; oracle: exactly one onward connection to the requested target, both byte streams exact, half-closes mirrored while the other direction keeps flowing, failure reported by the protocol's reply unless success had to be signalled first (then a clean close without stray bytes), API statistics equal to the bytes seen at the sockets.",
   note="Exact SOCKS5 failure codes judged for a direct upstream only.",
   tech="runtime monitoring: stream-equality / half-close / reply oracle on real TCP sockets (faketime + race detector) with conservation check against the statistics API"),
 "C18": dict(cat="exploration",
   text="JSON documents = a valid template with every server/client family, client group, resolver and routed sets, plus one labelled mutation (or several compatible ones) per documented invariant (key lengths incl. iPSKs and store entries, SS2022 NAT timeout vs replay window incl. legacy field, MTU 1279/1280, batch sizes, channel capacity, unknown protocol/mode/policy/field, dangling and duplicate names, tunnel address forms, client server-address forms); loaded by the real Config.Manager after strict decoding and compared with a reference validator; accepted documents (incl. legacy single-listener forms) are started and driven with a UDP and a TCP exchange through each kind of server; omitted / empty / explicit-default forms of the policy fields must select the same function.",
   note="tproxy/redirect/TLS not generated; default NAT timeout and initial-payload wait values are exercised by C12/C13 rather than here.",
   tech="runtime monitoring: mutation-labelled configuration generation with a reference validator + smoke traffic through accepted configurations (checkptr + faketime builds)"),
 "C19": dict(cat="exploration",
   text="Real ClientGroupConfig.AddClientGroup and its probe service over 1-5 fake clients (plus non-member decoys) answering scripted probe outcomes on a virtual clock for 100-150 rounds (longer than the 64/32-round retention, with profiles that flip exactly one retention later, ties, dead members, sub-millisecond latency differences); an independent model (retained history, failure = timeout, first client in configuration order with the strictly best score) is compared with the client actually handed out right after each round, at random instants and DURING rounds; round-robin under the race detector: exact cyclic order single-threaded, ticket multiset and porcupine fetch-and-increment model concurrently; random: members only; UDP groups probe a scripted DNS responder over loopback on the fake clock.",
   note="Rounds never overrun the interval; instants at which a probe completes are not observed; counter wrap at 2^63 out of scope.",
   tech="runtime monitoring: reference policy model + porcupine over recorded selections (synctest virtual clock, race detector, faketime for UDP probes)"),
 "C17": dict(cat="fault_enumeration",
   text="The real dns.Resolver (real direct UDP/TCP clients) against a scripted UDP+TCP upstream on loopback with decoy sockets (other IP, same IP other port) on the runtime's fake clock: every pair of scripted reactions per query for UDP (19) and TCP (15) incl. truncation, wrong ID, wrong source, RA=0, failure rcodes, NXDOMAIN with SOA, garbage, silence, TCP closes at every framing point; lookup histories of 1-4 names straddling each TTL, the negative TTL and the 30 s failure time with cache capacities 1-4/unbounded, serve-stale and recovery; mutated replies followed by genuine lookups; storms of concurrent lookups on one resolver under the race detector (own addresses only, cached names never re-fetched, cache never beyond its capacity). Oracle: unique addresses per script make provenance visible; the fake upstream counts queries so both bounds of a cache lifetime are enforced.",
   note="Mixed-nature results use the [min,max] interval of the candidate lifetimes (don't-care inside); caller-context cancellation not exercised; a violation is reported only if it reproduces in a re-execution.",
   tech="runtime monitoring: scripted-upstream fault enumeration with provenance/expiry oracle on real sockets under the faketime clock"),
}

PENDING_DEFAULT = "check under construction in this session (design in DESIGN.md §4); not claimed until its monitor runs clean on the unchanged tree"

def main():
    props = [json.loads(l) for l in open('/verif/properties.jsonl')]
    hooks_commits = []
    try:
        out = subprocess.check_output(['git', '-C', '/repo', 'log', '--format=%h %s'], text=True)
        hooks_commits = [l.split()[0] for l in out.splitlines() if l.split(' ', 1)[1].startswith('verif:')]
    except Exception:
        pass
    checks, na = [], []
    for p in props:
        pid = p['id']
        if pid in CHECKS:
            c = CHECKS[pid]
            checks.append({
                "property_id": pid,
                "quick_cmd": f"./check {pid} quick",
                "thorough_cmd": f"./check {pid} thorough",
                "evidence_file": f"evidence/{pid}.json",
                "replay_cmd_template": f"./check {pid} --replay {{path}}",
                "engine": "drive",
                "level_claimed": {"category": c['cat'], "text": c['text'], "design_ref": f"DESIGN.md §4 {pid}"},
                "level_note": c['note'],
                "technique": c['tech'],
            })
        else:
            na.append({"property_id": pid, "reason": PENDING_DEFAULT})
    m = {
        "version": 1,
        "setup_cmd": "./check --setup",
        "hooks": {
            "guard": "verif",
            "enable": "go1.26 test -c -tags verif of /verif/harness/cmd/verif with replace => /repo (race: -race; ft: CGO_ENABLED=0 -tags 'verif faketime'; plain: -gcflags=all=-d=checkptr)",
            "baseline_off_cmd": "cd /repo && GOFLAGS=-mod=mod GOPROXY=off GOSUMDB=off GOTOOLCHAIN=local go1.26 test -vet=off -count=1 -timeout 25m ./...",
            "source_commits": hooks_commits,
            "add_only": True,
        },
        "engines": [
            {"name": "drive", "path": "harness/cmd/drive", "serves_properties": sorted(CHECKS), "kind_free_text": "parent process: rebuilds child test binaries from /repo's working tree, runs parts under a watchdog, scans sanitizer output, merges verdicts, matches known findings, writes evidence"},
            {"name": "verif", "path": "harness/cmd/verif", "serves_properties": sorted(CHECKS), "kind_free_text": "child test binary (race / faketime / checkptr flavours) containing the monitors of every property"},
        ],
        "checks": checks,
        "not_applicable": na,
        "notes": "All checks are runtime monitors over executions of the real code; see DESIGN.md. known_findings.json lists genuine defects (open = reported as KNOWN-FINDING, fixed = repaired by a fix: commit in /repo).",
    }
    json.dump(m, open('/verif/MANIFEST.json', 'w'), indent=1)
    print("claimed:", [c['property_id'] for c in checks], "pending:", len(na))

if __name__ == '__main__':
    main()
