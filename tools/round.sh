#!/bin/bash
# tools/round.sh <round-suffix> <Cnn> [worktree]  — confirm both seeded changes of an agent's worktree, store them under
# seeded/<Cnn>-<suffix><A|B>/, run the property's quick check against each, then remove the worktree.
SUF=$1; ID=$2; WT=${3:-/tmp/wt/$SUF-$ID}
cd /verif
for M in A B; do
  [ -d $WT/_seeded/$M ] || { echo "$ID-$SUF$M: no _seeded/$M"; continue; }
  SUFFIX=$SUF tools/confirm_mutant.sh $WT $M $ID 2>&1 | tail -1
  D=seeded/$ID-$SUF$M
  if [ -f $D/patch.diff ]; then
    tools/try_mutant.sh $D/patch.diff $ID quick 2>&1 | tail -4
  fi
done
git -C /repo worktree remove --force $WT 2>/dev/null
echo "round $SUF $ID done"
