#!/usr/bin/env python3
# tools/mk_mutant_prompt.py <Cnn> <worktree> : prints the prompt for a seeded-defect agent (property text only, plus
# one-line summaries of changes already tried so that the agent looks for a different mechanism).
import json, sys, glob
pid, wt = sys.argv[1], sys.argv[2]
p = [json.loads(l) for l in open('/verif/properties.jsonl') if json.loads(l)['id'] == pid][0]
prop = f"{pid} — {p['title']}\n\nSTATEMENT: {p['statement']}\n\nQUANTIFIED OVER: {p['quantifier']['text']}\n\nANCHOR FILES: {', '.join(p['anchors']['files'])}\n"
tried = []
for m in sorted(glob.glob(f'/verif/seeded/{pid}-*/meta.json')):
    try:
        tried.append('  - ' + json.load(open(m))['summary'][:300].replace('\n', ' '))
    except Exception:
        pass
t = open('/verif/tools/MUTANT_PROMPT.tmpl').read()
t = t.replace('@WT@', wt).replace('@ID@', pid).replace('@PROP@', prop)
t = t.replace('@TRIED@', ('CHANGES ALREADY TRIED BY OTHERS (find different mechanisms and code sites):\n' + '\n'.join(tried) + '\n') if tried else '')
print(t)
