#!/bin/bash
# tools/sweep_mutants.sh [tier] [jobs]  — runs every seeded change against the check of its property (and of the
# other properties named in EXTRA) in scratch worktrees (never /repo) and writes seeded/RESULTS.md.
TIER=${1:-quick}; JOBS=${2:-3}
cd /verif
declare -A EXTRA=( [C16-A]="C15" [C05-B]="C11" [C14-B]="C13" [C06-r4A]="C17" [C06-r4B]="C05" [C05-r4B]="C11" )
TMP=$(mktemp -d /tmp/wt/sweep.XXXXXX)
one() {
  d=$1; n=$(basename $d); id=${n%%-*}
  p=$d/patch.diff; [ -f $d/patch.rebased.diff ] && p=$d/patch.rebased.diff
  r=$(tools/try_mutant.sh $p $id $TIER 2>&1 | tail -1)
  case "$r" in *"exit 1") res="caught";; *"exit 0") res="MISSED";; *) res="n/a ($r)";; esac
  other=""
  for x in ${EXTRA[$n]:-}; do
    r2=$(tools/try_mutant.sh $p $x $TIER 2>&1 | tail -1)
    case "$r2" in *"exit 1") other="$other $x: caught";; *"exit 0") other="$other $x: missed";; *) other="$other $x: n/a";; esac
  done
  need=$(python3 -c "import json;print(json.load(open('$d/meta.json')).get('needs_to_manifest','')[:220].replace('|','/').replace('\n',' '))")
  echo "| $n | $id | $res | $other | $need |" > $TMP/$n.row
  echo "$n $res $other"
}
export -f one; export TIER TMP; export -A EXTRA 2>/dev/null
# (associative arrays cannot be exported: re-declare inside the subshells)
ls -d seeded/C*-*[AB] | xargs -P $JOBS -I{} bash -c 'declare -A EXTRA=( [C16-A]="C15" [C05-B]="C11" [C14-B]="C13" [C06-r4A]="C17" [C06-r4B]="C05" [C05-r4B]="C11" ); one {}'
out=seeded/RESULTS.md
{
echo "# Seeded changes versus the checks ($(date -u +%F), tier $TIER, /repo $(git -C /repo rev-parse --short HEAD))"
echo
echo "Each change is applied to a scratch worktree of /repo and the check of its property is run against it (tools/try_mutant.sh)."
echo "caught = the check exits 1 with a VIOLATION line; MISSED = it exits 0."
echo
echo "| change | property | check result | other checks | what it needs to manifest |"
echo "|---|---|---|---|---|"
cat $(ls $TMP/*.row | sort)
echo
echo "caught: $(cat $TMP/*.row | grep -c '| caught |')  missed: $(cat $TMP/*.row | grep -c '| MISSED |')  n/a: $(cat $TMP/*.row | grep -c 'n/a (')"
} > $out
rm -rf $TMP
tail -1 $out
