#!/bin/bash
# tools/sweep_mutants.sh [tier]  — runs every seeded change against the quick check of its property (and of the
# other properties named in EXTRA) in a scratch worktree and writes seeded/RESULTS.md.
TIER=${1:-quick}
cd /verif
WT=/tmp/wt/sweep-$$
git -C /repo worktree add -q --detach $WT HEAD || exit 2
declare -A EXTRA=( [C16-A]="C15" [C05-B]="C11" [C14-B]="C13" [C09-B]="C10" [C06-B]="C04" )
out=seeded/RESULTS.md
{
echo "# Seeded changes versus the checks ($(date -u +%F), tier $TIER, /repo $(git -C /repo rev-parse --short HEAD))"
echo
echo "| change | property | check result | other checks | what it needs to manifest |"
echo "|---|---|---|---|---|"
} > $out
for d in seeded/C*-*[AB]; do
  n=$(basename $d); id=${n%-*}
  p=$d/patch.diff; [ -f $d/patch.rebased.diff ] && p=$d/patch.rebased.diff
  r=$(tools/try_mutant.sh $p $id $TIER $WT 2>&1 | tail -1)
  case "$r" in *"exit 1") res="caught";; *"exit 0") res="MISSED";; *) res="n/a ($r)";; esac
  other=""
  for x in ${EXTRA[$n]:-}; do
    r2=$(tools/try_mutant.sh $p $x $TIER $WT 2>&1 | tail -1)
    case "$r2" in *"exit 1") other="$other $x: caught";; *"exit 0") other="$other $x: missed";; *) other="$other $x: n/a";; esac
  done
  need=$(python3 -c "import json;print(json.load(open('$d/meta.json')).get('needs_to_manifest','')[:220].replace('|','/').replace('\n',' '))")
  echo "| $n | $id | $res | $other | $need |" >> $out
  echo "$n $res $other"
done
git -C /repo worktree remove --force $WT
