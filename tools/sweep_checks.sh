#!/bin/bash
# tools/sweep_checks.sh <tier> <seed>...   — runs every claimed check at the given seeds and prints one line per run.
# A line that does not end in "exit 0" needs attention (the unchanged tree must be silent).
TIER=${1:-quick}; shift
SEEDS=${@:-1}
cd /verif
ids=$(python3 -c "import json;print(' '.join(c['property_id'] for c in json.load(open('MANIFEST.json'))['checks']))")
for s in $SEEDS; do
  for c in $ids; do
    t0=$(date +%s)
    out=$(VERIF_SEED=$s ./check $c $TIER 2>&1); rc=$?
    t1=$(date +%s)
    echo "$c $TIER seed=$s wall=$((t1-t0))s exit $rc :: $(echo "$out" | grep -E '^(VIOLATION|INCONCLUSIVE)' | head -2 | tr '\n' ' ' | cut -c1-200)"
  done
done
