#!/usr/bin/env python3
"""Strips the faketime playback framing (\\0\\0PB + 8-byte time + 4-byte length) from a captured stderr/stdout file."""
import sys,struct
b=open(sys.argv[1],'rb').read()
out=bytearray(); i=0
while i < len(b):
    if b[i:i+4]==b'\x00\x00PB' and i+16<=len(b):
        n=struct.unpack('>I',b[i+12:i+16])[0]
        out+=b[i+16:i+16+n]; i+=16+n
    else:
        out.append(b[i]); i+=1
sys.stdout.buffer.write(bytes(out))
