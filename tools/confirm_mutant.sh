#!/bin/bash
# tools/confirm_mutant.sh <worktree> <A|B> <Cnn>
# Confirms a seeded change independently in its scratch worktree and, if confirmed, stores it under /verif/seeded/<Cnn>-<A|B>/.
set -u
export GOFLAGS=-mod=mod GOPROXY=off GOSUMDB=off GOTOOLCHAIN=local
WT=$1; M=$2; ID=$3; S=$WT/_seeded/$M
cd $WT || exit 2
git checkout -q -- . ; git clean -fdq -e _seeded
demo=$(ls $S | grep -E 'demo.*\.go$' | head -1)
[ -z "$demo" ] && [ -d $S/demo ] && demo=demo
cmd=$(python3 -c "import json;print(json.load(open('$S/meta.json'))['demo_cmd'])")
# demo placement: header comment names the package directory; fall back to the first ./pkg/ in demo_cmd
pkg=$(echo "$cmd" | grep -oE '\./[a-z0-9/]+/?' | head -1 | sed 's|^\./||; s|/$||')
res() { echo "$ID-$M: $1"; }
place() { case "$cmd" in *"cp "*) return;; esac; if [ "$demo" = demo ]; then mkdir -p $WT/_demo_$M && cp -r $S/demo/* $WT/_demo_$M/; else cp $S/$demo $WT/$pkg/zz_seeded_demo_test.go; fi; }
unplace() { rm -rf $WT/_demo_$M; git -C $WT clean -fdq -e _seeded; }
run_demo() { (cd $WT && eval "$(echo "$cmd" | sed "s|cd [^ ]* *&& *||")" ) > $WT/_seeded/$M.demo.$1.log 2>&1; rc=$?
  # some demo commands end with a cleanup step, so the verdict is read from the go test output
  if grep -qE '^(FAIL|--- FAIL|panic:|fatal error:)' $WT/_seeded/$M.demo.$1.log; then return 1; fi
  if grep -qE '^ok[[:space:]]' $WT/_seeded/$M.demo.$1.log; then return 0; fi
  return $rc; }
# 1. clean tree: demo passes
place; run_demo clean; rc_clean=$?; unplace
# 2. with patch: builds, demo fails, suite passes
git apply $S/patch.diff || { res "patch does not apply"; unplace; exit 1; }
git add -A -- . ':(exclude)_seeded'
go1.26 build ./... > $WT/_seeded/$M.build.log 2>&1; rc_build=$?
place; run_demo mut; rc_mut=$?
unplace
go1.26 test -vet=off -count=1 -timeout 25m ./... > $WT/_seeded/$M.suite.log 2>&1
fails=$(grep -E '^(--- FAIL|FAIL)' $WT/_seeded/$M.suite.log | grep -vE 'TestAddrResolveIP|TestResolver|shadowsocks-go/(conn|dns)[[:space:]]|^FAIL$' | wc -l)
git reset -q --hard; git clean -fdq -e _seeded
ok=no
if [ $rc_clean -eq 0 ] && [ $rc_build -eq 0 ] && [ $rc_mut -ne 0 ] && [ $fails -eq 0 ]; then ok=yes; fi
res "demo_clean_rc=$rc_clean build_rc=$rc_build demo_mutant_rc=$rc_mut unexpected_suite_failures=$fails confirmed=$ok pkg=$pkg cmd=[$cmd]"
if [ $ok = yes ]; then
  D=/verif/seeded/$ID-${SUFFIX:-}$M; mkdir -p $D
  cp $S/patch.diff $D/patch.diff; if [ "$demo" = demo ]; then cp -r $S/demo $D/demo; else cp $S/$demo $D/$demo; fi
  python3 - "$S/meta.json" "$D/meta.json" "$rc_clean" "$rc_mut" "$fails" <<'PY'
import json,sys
m=json.load(open(sys.argv[1]))
m['confirmed_by_framework_author']={'demo_rc_on_clean_tree':int(sys.argv[3]),'demo_rc_with_change':int(sys.argv[4]),'unexpected_suite_failures_with_change':int(sys.argv[5]),
  'ran':'tools/confirm_mutant.sh: demo on clean worktree; git apply patch; go1.26 build ./...; demo; go1.26 test -vet=off -count=1 ./... (only the 5 offline conn/dns failures allowed); git checkout'}
json.dump(m,open(sys.argv[2],'w'),indent=1)
PY
fi
