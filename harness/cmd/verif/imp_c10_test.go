package verifrun

import _ "verif/c10"
