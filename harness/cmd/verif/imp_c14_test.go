package verifrun

import _ "verif/c14"
