package verifrun

import _ "verif/c13"
