package verifrun

import (
	"testing"

	"verif/c06"
)

// FuzzC06 is the coverage-guided target of C06's fuzz part (run by the part's supervisor, never by TestVerif).
func FuzzC06(f *testing.F) {
	for _, s := range c06.FuzzSeeds() {
		f.Add(s)
	}
	f.Fuzz(func(t *testing.T, b []byte) { c06.FuzzBody(b) })
}
