package verifrun

import _ "verif/c17"
