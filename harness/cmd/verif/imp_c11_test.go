package verifrun

import _ "verif/c11"
