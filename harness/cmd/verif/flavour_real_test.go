//go:build !faketime

package verifrun

const flavour = "real"
