package verifrun

import _ "verif/c09"
