package verifrun

import _ "verif/c07"
