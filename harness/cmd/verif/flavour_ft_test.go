//go:build faketime

package verifrun

const flavour = "ft"
