package verifrun

import _ "verif/c15"
