package verifrun

import _ "verif/c20"
