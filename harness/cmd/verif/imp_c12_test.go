package verifrun

import _ "verif/c12"
