package verifrun

import (
	_ "verif/c01"
	_ "verif/c02"
	_ "verif/c03"
	_ "verif/c04"
)
