package verifrun

import (
	_ "verif/c04"
)
