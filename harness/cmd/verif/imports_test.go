package verifrun

import (
	_ "verif/c01"
	_ "verif/c04"
)
