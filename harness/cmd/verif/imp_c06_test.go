package verifrun

import _ "verif/c06"
