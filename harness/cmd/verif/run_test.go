// Package verifrun is compiled with `go test -c` into the child binary that
// runs one part of one property check. It is a test binary (not a plain main)
// so that parts can use testing/synctest bubbles, which need a *testing.T.
package verifrun

import (
	"flag"
	"fmt"
	"testing"

	"verif/core"
)

var (
	fProp   = flag.String("prop", "", "property id")
	fPart   = flag.String("part", "", "part name")
	fTier   = flag.String("tier", "quick", "quick|thorough")
	fSeed   = flag.Int64("seed", 1, "seed")
	fOnly   = flag.Int("only", -1, "run only this case")
	fShard  = flag.Int("shard", 0, "shard index")
	fShards = flag.Int("shards", 1, "shard count")
	fOut    = flag.String("out", "", "result file")
	fLog    = flag.String("log", "", "case log file")
	fWork   = flag.String("work", "", "scratch dir")
	fList   = flag.Bool("list", false, "list parts")
)

func TestVerif(t *testing.T) {
	if *fList {
		for _, k := range core.SortedKeys(core.Parts) {
			fmt.Println(k)
		}
		return
	}
	e := core.Env{Property: *fProp, Part: *fPart, Tier: *fTier, Seed: *fSeed, Only: *fOnly,
		Shard: *fShard, Shards: *fShards, OutPath: *fOut, LogPath: *fLog, WorkDir: *fWork, T: t}
	f := core.Parts[e.Property+"/"+e.Part]
	if f == nil {
		core.Fatalf("unknown part %s/%s (flavour %s)", e.Property, e.Part, flavour)
	}
	if e.OutPath == "" {
		core.Fatalf("-out required")
	}
	e.Rec = core.NewRec(&e)
	f(&e)
	if err := e.Rec.Finish(e.OutPath); err != nil {
		core.Fatalf("write result: %v", err)
	}
}
