package verifrun

import _ "verif/c18"
