package verifrun

import _ "verif/c08"
