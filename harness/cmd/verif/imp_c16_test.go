package verifrun

import _ "verif/c16"
