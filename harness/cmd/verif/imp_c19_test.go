package verifrun

import _ "verif/c19"
