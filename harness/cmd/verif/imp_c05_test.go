package verifrun

import _ "verif/c05"
