package main

func init() {
	table["C11"] = propSpec{
		Level: "exploration",
		Rule:  "distinct_nontrivial = distinct (server protocol, client protocol, batch mode, features: domain targets / garbage / client address change, loss bucket) classes in which tagged datagrams were observed at the target sockets and replies at the client sockets",
		Assumptions: append([]string{
			"loopback delivery is loss-free when one datagram is in flight per session (closed loop); under stress only safety is judged",
			"ft parts freeze the runtime's virtual clock while traffic flows, so no timer (NAT timeout, resolver timeout) can fire spuriously",
		}, commonAssume...),
		Parts: []partSpec{
			{Name: "relay", Flavour: "ft", TimeoutQ: m10, TimeoutT: m60, Weight: 8},
			{Name: "stress", Flavour: "race", TimeoutQ: m10, TimeoutT: m60, Weight: 8},
		},
	}
}
