package main

func init() {
	table["C20"] = propSpec{
		Level: "fault_enumeration",
		Rule:  "evaluations = child processes / shutdown histories executed; distinct_nontrivial = distinct (store size, operation, fault mode, faulted?, file state old/new) and (shutdown phase, changes, hook reached) classes; the crash-point space 0..len(document)+1 is enumerated completely for every listed (N, op, mode)",
		Assumptions: append([]string{
			"a write error / crash after k bytes is produced with RLIMIT_FSIZE=k (EFBIG with SIGXFSZ ignored, or death by SIGXFSZ): it cuts every file write of the process at that size, which covers a direct rewrite as well as a temporary file",
			"power loss without fsync ordering (kernel page cache loss) is not modelled; process crashes and write errors are",
		}, commonAssume...),
		Parts: []partSpec{
			{Name: "crashpoints", Flavour: "plain", TimeoutQ: m10, TimeoutT: m60, Weight: 10},
			{Name: "shutdown", Flavour: "race", TimeoutQ: m10, TimeoutT: m60, Weight: 6},
			{Name: "instants", Flavour: "plain", TimeoutQ: m10, TimeoutT: m60, Weight: 4},
			{Name: "diskfull", Flavour: "plain", TimeoutQ: m10, TimeoutT: m60, Weight: 1},
		},
	}
}
