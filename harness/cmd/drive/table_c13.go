package main

func init() {
	table["C13"] = propSpec{
		Level: "exploration",
		Rule:  "distinct_nontrivial = distinct (server protocol, client protocol, target behaviour, payload class, first-data timing, extra writes, close order, wait mode, domain/IP target | failure kind and how it was reported) classes observed on real loopback TCP connections through the real service manager",
		Assumptions: append([]string{
			"in wait mode (server without native initial payload, routed client with it, wait not disabled) success is signalled before the onward dial, so a failed onward connection may only show as a closed connection without stray bytes",
			"exact SOCKS5 failure codes are judged for a direct upstream only; a chained proxy reports what it was told",
			"ft part: the 250 ms initial-payload wait runs on the frozen/advanced fake clock; multi-user SS2022 is exercised in the race part only (signal.Notify makes the fake clock unadvanceable)",
		}, commonAssume...),
		Parts: []partSpec{
			{Name: "relay", Flavour: "ft", TimeoutQ: m10, TimeoutT: m60, Weight: 8},
			{Name: "relay-race", Flavour: "race", TimeoutQ: m10, TimeoutT: m60, Weight: 8},
		},
	}
}
