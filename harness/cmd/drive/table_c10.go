package main

func init() {
	table["C10"] = propSpec{
		Level: "exploration",
		Rule: "evaluations = rule sets / port strings / prefix lists checked; distinct_nontrivial = distinct classes per part (domain: kind x count bucket x builder x matcher type selected, " +
			"text rendering, insertion-order sweeps, converter child; port: outcome x run-count bucket x router form; prefix: size x families x writer-buffer crossing); " +
			"a class is counted only when every comparison of the case ran",
		Assumptions: append([]string{
			"the reference for regular-expression rules is Go's regexp package (the statement says 'regular expression' without fixing a dialect)",
			"a set without any rule may be refused by a loader (the code has a deliberate 'empty domain set' error); the statement is about matching",
			"rules the text format cannot express (empty rule, embedded LF, trailing CR) are outside the generator",
			"port 0 is not probed (PortSet.Contains(0) panics by design, pinned by the repository's tests); whether '7-7', empty list items, blanks, '+' or leading zeros are accepted is left open, accepted forms must mean the obvious set",
			"the linear model for prefixes is net/netip Prefix.Contains (an IPv4-mapped IPv6 address is an IPv6 address)",
		}, commonAssume...),
		Parts: []partSpec{
			{Name: "domain", Flavour: "plain", TimeoutQ: m10, TimeoutT: 3 * m60, Weight: 12, Procs: 12},
			{Name: "port", Flavour: "plain", TimeoutQ: m10, TimeoutT: m60, Weight: 2, Procs: 2},
			{Name: "prefix", Flavour: "plain", TimeoutQ: m10, TimeoutT: m60, Weight: 2, Procs: 2},
		},
	}
}
