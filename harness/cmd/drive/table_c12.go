package main

func init() {
	table["C12"] = propSpec{
		Level: "fault_enumeration",
		Rule:  "distinct_nontrivial = distinct (server protocol, client protocol, batch mode, lifecycle phase, hook reached) classes whose Stop was audited (goroutines, sockets, listener port, virtual time consumed)",
		Assumptions: append([]string{
			"'prompt' is judged in virtual time: in-flight work costs none, waiting for a NAT timeout shows up as >= natTimeout/2 of consumed virtual time; wall-clock only bounds the watchdog",
			"goroutine leaks are judged by the process-wide goroutine count returning to the pre-start baseline (no stop-the-world profiling under the fake clock)",
			"kernel-level faults (EMFILE at socket creation, ICMP errors) are not injected in this tier",
		}, commonAssume...),
		Parts: []partSpec{
			{Name: "lifecycle", Flavour: "ft", TimeoutQ: m10, TimeoutT: m60, Weight: 8},
		},
	}
}
