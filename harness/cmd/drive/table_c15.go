package main

func init() {
	table["C15"] = propSpec{
		Level: "exploration",
		Rule:  "distinct_nontrivial = distinct classes observed on the real netio pipe: shape:* (goroutines per end x per-direction writer/reader structure of a history that ran to completion), ev:* (behaviours found in the recorded history: partial writes, releases by close / half-close / deadline, re-armed deadlines, split writes ...), order:* (distinct orders of return events of the same script, sampled), seq:* (lock-step moves whose exact predicted outcome was observed)",
		Assumptions: append([]string{
			"two calls are ordered only when one returned before the other was called (one atomic logical counter); calls overlapping a Close/CloseRead/CloseWrite or a Set*Deadline in real time are don't-care",
			"time rules use the synctest fake clock: it advances only when every goroutine of the history is blocked, so 'returned at a later virtual instant' means 'was still blocked when all others had come to rest'; events at exactly the deadline's instant are don't-care",
			"a Write queued on the pipe's write mutex is not 'durably blocked' for synctest, so histories with concurrently writing goroutines give the reading end a never-sleeping drainer; starving readers are explored with one writing goroutine per end (see harness/c15/c15.go)",
			"which error a call on a locally read-closed direction or a write on a closed direction fails with, and what Set*Deadline returns, are not decided (the statement does not say)",
		}, commonAssume...),
		Parts: []partSpec{
			{Name: "schedules", Flavour: "race", TimeoutQ: m10, TimeoutT: m60, Weight: 12},
			{Name: "sequential", Flavour: "race", TimeoutQ: m10, TimeoutT: m60, Weight: 4},
		},
	}
}
