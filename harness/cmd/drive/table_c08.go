package main

func init() {
	table["C08"] = propSpec{
		Level: "exploration",
		Rule:  "distinct_nontrivial = distinct (store mode, key size, operation kinds, result vector) classes in which all three views (API listing, real TCP/UDP handshakes for every key of the universe, store file) were compared",
		Assumptions: append([]string{
			"a key already owned by another user must be refused by add/update: the only reading under which a connection can be 'attributed to that user and to no other', and what file loading already enforces",
			"the 5 s save debounce runs on the synctest virtual clock; file I/O is real (scratch directory under /verif/.work)",
		}, commonAssume...),
		Parts: []partSpec{
			{Name: "sequential", Flavour: "plain", TimeoutQ: m10, TimeoutT: m60, Weight: 6},
			{Name: "concurrent", Flavour: "race", TimeoutQ: m10, TimeoutT: m60, Weight: 6},
			{Name: "api", Flavour: "plain", TimeoutQ: m10, TimeoutT: m60, Weight: 4},
			{Name: "savewindow", Flavour: "plain", TimeoutQ: m10, TimeoutT: m60, Weight: 2},
			{Name: "signal", Flavour: "plain", TimeoutQ: m10, TimeoutT: m60, Weight: 2},
			{Name: "opwindow", Flavour: "plain", TimeoutQ: m10, TimeoutT: m60, Weight: 2},
		},
	}
}
