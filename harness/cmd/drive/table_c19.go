package main

func init() {
	table["C19"] = propSpec{
		Level: "exploration",
		Rule:  "distinct_nontrivial = distinct classes observed on groups built by the real ClientGroupConfig.AddClientGroup: probe part policy/n/event (switch, tie-first, wrap-matters, held-during-round, failure kinds ... really observed in a >=100-round history of the real probe service on a synctest clock), select part policy/transport/n/phase (sequential cyclic order, concurrent G x K with observed overlap, random membership), udp part udp/policy/n/event (as probe, plus kinds of junk datagrams the DNS probe had to ignore)",
		Assumptions: append([]string{
			"the served client is observed at quiescent virtual instants (x.5 ms; every scripted event and tick is at a whole millisecond), so 'during a round' means 'some member's probe of that round has not returned yet'; instants at which a probe completes are not observed",
			"probe latency is the time from the start of a client's probe (its dial) to the complete 204 response; time a probe job spends queued behind the concurrency limit is not latency; scripted latencies are multiples of 1 ms and never equal to the timeout",
			"with no completed round, and whenever several members share the best score, the first of them in configuration order is expected; every member has the same number of samples, so averaging over the samples so far or over a zero-padded window orders members identically",
			"rounds never overrun the probe interval (interval > ceil(n/concurrency) x timeout)",
			"round-robin: single-threaded selection j (from 0) is member j mod n, i.e. the cycle starts at the first configured client; wrap of the counter at 2^63 is out of scope",
			"udp part (ft flavour): probe/udp.go opens a real *net.UDPConn, so UDP probing groups run over real loopback sockets on the process-wide virtual clock, which the driver moves only from one scripted event instant to the next; a harness context with an AfterFunc method (the documented hook of package context) brackets every probe job's start-time and latency measurement, so the clock never moves during a measurement; 'after the round' is judged by polling at a frozen virtual instant (the group must come to serve the model's client within 3 s of real time), 'during the round' is strict; loss of synchronisation is inconclusive; UDP concurrency is >= members; the wall_s recorded for the udp part is virtual seconds",
		}, commonAssume...),
		Parts: []partSpec{
			{Name: "probe", Flavour: "race", TimeoutQ: m10, TimeoutT: m60, Weight: 12},
			{Name: "select", Flavour: "race", TimeoutQ: m10, TimeoutT: m60, Weight: 4},
			{Name: "udp", Flavour: "ft", TimeoutQ: m10, TimeoutT: m60, Weight: 4},
		},
	}
}
