package main

func init() {
	table["C19"] = propSpec{
		Level: "exploration",
		Rule:  "distinct_nontrivial = distinct classes observed on groups built by the real ClientGroupConfig.AddClientGroup: probe part policy/n/event (switch, tie-first, wrap-matters, held-during-round, failure kinds ... really observed in a >=100-round history of the real probe service on a synctest clock), select part policy/transport/n/phase (sequential cyclic order, concurrent G x K with observed overlap, random membership)",
		Assumptions: append([]string{
			"the served client is observed at quiescent virtual instants (x.5 ms; every scripted event and tick is at a whole millisecond), so 'during a round' means 'some member's probe of that round has not returned yet'; instants at which a probe completes are not observed",
			"probe latency is the time from the start of a client's probe (its dial) to the complete 204 response; time a probe job spends queued behind the concurrency limit is not latency; scripted latencies are multiples of 1 ms and never equal to the timeout",
			"with no completed round, and whenever several members share the best score, the first of them in configuration order is expected; every member has the same number of samples, so averaging over the samples so far or over a zero-padded window orders members identically",
			"rounds never overrun the probe interval (interval > ceil(n/concurrency) x timeout)",
			"round-robin: single-threaded selection j (from 0) is member j mod n, i.e. the cycle starts at the first configured client; wrap of the counter at 2^63 is out of scope",
			"UDP groups with a probing policy are not exercised: probe/udp.go opens a real *net.UDPConn (conn.ListenConfig), which cannot be faked in memory; UDP round-robin/random groups are covered, and the probing selection loops are the same generic code as for TCP",
		}, commonAssume...),
		Parts: []partSpec{
			{Name: "probe", Flavour: "race", TimeoutQ: m10, TimeoutT: m60, Weight: 12},
			{Name: "select", Flavour: "race", TimeoutQ: m10, TimeoutT: m60, Weight: 4},
			{Name: "udp", Flavour: "ft", TimeoutQ: m10, TimeoutT: m60, Weight: 4},
		},
	}
}
