package main

func init() {
	table["C14"] = propSpec{
		Level: "exploration",
		Rule:  "distinct_nontrivial = collector: distinct (writers, observers, resets, answers showing a strict part of the traffic, where a late user was first seen) classes among runs in which a snapshot demonstrably ran between Collect calls; api: distinct (endpoint, query spelling, state, user/total relation) classes of judged GET answers; live: distinct (userless protocol, batch mode, session kinds, non-empty mid-run cleared snapshot seen) classes of running-service cases whose API figures were compared with the sockets' own byte and datagram counts",
		Assumptions: append([]string{
			"a snapshot does not list the anonymous user: its share is read as total minus the listed users (must be non-negative, never above the anonymous traffic recorded, zero when there is none)",
			"conservation and monotonicity are per counter; the statement does not demand that the counters of one session appear together",
			"a UDP session is one downlink report plus one uplink report for the same user (as the service produces them); which of the two counts the session is not prescribed",
			"amounts are kept small enough that no sum reaches 2^64",
			"what GET users/{u} answers for a name without a credential (or on a server without user management) is don't-care unless it carries figures",
		}, commonAssume...),
		Parts: []partSpec{
			{Name: "collector", Flavour: "race", TimeoutQ: m10, TimeoutT: m60, Weight: 8},
			{Name: "api", Flavour: "race", TimeoutQ: m10, TimeoutT: m60, Weight: 8},
			{Name: "live", Flavour: "ft", TimeoutQ: m10, TimeoutT: m60, Weight: 2},
		},
	}
}
