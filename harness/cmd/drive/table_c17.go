package main

func init() {
	table["C17"] = propSpec{
		Level: "fault_enumeration",
		Rule:  "evaluations = scripted lookups (lookup), histories (history) and hostile exchanges (parser) executed on the real dns.Resolver over loopback sockets under the virtual clock, and storms of concurrent lookups on one resolver under the race detector (concurrent); distinct_nontrivial = distinct (mode, upstream reactions per query and transport, order, outcome) classes, (cache capacity, model expectation, time offset to the lifetime's end, upstream state) classes (mutation operator, transport, outcome) classes and (cache capacity, goroutines, check) classes",
		Assumptions: append([]string{
			"failure rcodes and negative answers count as answers; their caching time is 30 s resp. the SOA TTL; when answers of different nature meet in one result (F15) any expiry between the smallest and the largest candidate is accepted, a lookup exactly at the expiry instant is don't-care",
			"an acceptable answer that is sent behind an unusable message of the same transport phase may or may not be used (don't-care); a truncated or damaged message with the lookup's ID may shorten, never lengthen, the cached lifetime",
			"every lookup of a cached name (hit, refresh, stale) makes it the most recently used entry",
			"loopback delivery is in order per receiving socket; the harness sends the next datagram only after the resolver has emptied its receive queue (/proc/net/udp*)",
			"ft parts: the runtime's virtual clock stands still while socket I/O completes; the driver lets it move only to instants on the resolver's own timer grid (2 s resends, 20 s per transport) and only when no answer, handshake or unread data is under way (flush markers, TIOCOUTQ, /proc/net/tcp)",
			"a violation is reported when it shows up again in a re-execution of the same case (scripted upstream behaviour is deterministic; a late loopback delivery under extreme machine load is not); candidates that do not reproduce are counted in events.violation_candidates_not_reproduced",
		}, commonAssume...),
		Parts: []partSpec{
			{Name: "lookup", Flavour: "ft", ShardsQ: 3, ShardsT: 8, TimeoutQ: m10, TimeoutT: m60, Weight: 2},
			{Name: "history", Flavour: "ft", ShardsQ: 2, ShardsT: 8, TimeoutQ: m10, TimeoutT: m60, Weight: 2},
			{Name: "parser", Flavour: "ft", ShardsQ: 2, ShardsT: 16, TimeoutQ: m10, TimeoutT: m60, Weight: 2},
			{Name: "concurrent", Flavour: "race", ShardsQ: 1, ShardsT: 4, TimeoutQ: m10, TimeoutT: m60, Weight: 1},
		},
	}
}
