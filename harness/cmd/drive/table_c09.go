package main

func init() {
	table["C09"] = propSpec{
		Level: "exploration",
		Rule: "evaluations = requests whose answer from the real router (client identity | rejected | error class) was compared with the reference model; " +
			"distinct_nontrivial = distinct (criterion kind, invert flag, target kind, truth value) conditions evaluated on agreeing requests, resolver paths " +
			"(named / all resolvers, number of ErrLookup answers skipped, result), outcome kinds per deciding position, and configuration shapes " +
			"(port representations, domain-set rule counts, nested suffix order, defaults); a class is counted only for requests the real router answered",
		Assumptions: append([]string{
			"GeoIP criteria (fromGeoIPCountries, toGeoIPCountries, toMatchedDomainExpectedGeoIPCountries) are excluded: they need a MaxMind database that does not exist offline; the source-address OR group therefore has a single member",
			"a resolver failure matters only where the answer depends on it: a route with another false condition does not match (AND is order-free); a satisfied destination member next to a member whose resolver fails is accepted either way (match or that error)",
			"don't-care (not judged): invertToDomains combined with toMatchedDomainExpected* rules; resolver answers whose addresses disagree on membership (LookupIP returns 'one of' them); an IPv4-mapped address versus an IPv6 prefix covering ::ffff:0:0/96",
			"an IPv4-mapped IPv6 address is the IPv4 address; an inverted rule holds wherever its un-inverted condition is false (inverted domain rule on an IP target, inverted IP rule with resolution disabled on a domain target)",
			"an empty default client name means the only client of that protocol, or no client (rejection) when there are several",
			"error classes compared: no-address (dns.ErrDomainNoAssociatedIPs), other (the scripted error of the resolver that had to be consulted), unresolved (any other error: every consulted resolver answered ErrLookup)",
		}, commonAssume...),
		Parts: []partSpec{
			{Name: "routes", Flavour: "plain", TimeoutQ: m10, TimeoutT: m60},
		},
	}
}
