package main

func init() {
	table["C07"] = propSpec{
		Level: "exploration",
		Rule:  "evaluations = handshake runs against the real servers; distinct_nontrivial = distinct (case kind, protocol, target kind, auth mode, credential mutation / header form, expected outcome), (protocol, segmentation pair, outcome), (protocol, dial code) and (method-list length class, position, auth) classes of runs that were executed and decided",
		Assumptions: append([]string{
			"TCP segmentation is emulated by a harness transport that re-segments reads (netsim.Pair); 'same segment' means the bytes were handed to the transport in one write and the segment plan did not cut between them",
			"IP targets compare after unmapping IPv4-mapped IPv6 addresses (SOCKS5 puts them on the wire as IPv4); over HTTP, where the target is text, ASCII case of a domain is not significant and a domain that is an IP literal may be reported as that IP address",
			"a credential pair matches when username and password equal a configured pair byte for byte; configured usernames are distinct; over HTTP only 'Proxy-Authorization: Basic <token>' (field name and scheme case-insensitive, single space) must be understood, any other shape of the header is 'no Basic credentials presented'",
			"a SOCKS5 server with authentication enabled accepts only method 2, without it only method 0; a command that is not enabled is answered with reply 7; the UDP ASSOCIATE reply names the control connection's local address",
			"Abort(code) over HTTP CONNECT is 502 for every code; Shadowsocks 'none' has no reply, Abort must write nothing",
			"scripted clients send the whole script in one transport write and then close their write side; the real clients are driven through DialStream / ClientUDPAssociate*",
		}, commonAssume...),
		Parts: []partSpec{
			{Name: "socks5", Flavour: "plain", TimeoutQ: m10, TimeoutT: m60, Weight: 6},
			{Name: "http", Flavour: "plain", TimeoutQ: m10, TimeoutT: m60, Weight: 6},
			{Name: "ssnone", Flavour: "plain", TimeoutQ: m10, TimeoutT: m60, Weight: 4},
			{Name: "race", Flavour: "race", TimeoutQ: m10, TimeoutT: m60, Weight: 8},
		},
	}
}
