package main

func init() {
	table["C16"] = propSpec{
		Level: "exploration",
		Rule:  "distinct_nontrivial = distinct seq:(scenario, auth, pipelining depth class, sequence length class, origin lag) classes of cases that ran to their end, plus req:(method, target form, feature set) classes of requests that reached the origin and were compared, plus resp:(status, feature set) classes of final responses that reached the client and were compared",
		Assumptions: append([]string{
			"messages are compared on the form produced by the harness's own HTTP/1.1 parser: field names case-insensitively, values after trimming optional whitespace, the lines of one field name in order (combining lines into one comma list is allowed), order across different field names ignored",
			"framing fields (Content-Length, Transfer-Encoding, Trailer) may be re-derived by the proxy and are compared through body bytes and trailer fields; an absolute-form target with an empty path equals \"/\"; the Host field of the forwarded request is the authority of an absolute-form target, else the Host field sent",
			"a Connection field at the origin that holds only close/keep-alive is the proxy's own; hop-by-hop and nominated fields of responses are don't-care (the statement only constrains requests); a trailer field that was not announced by Trailer may be discarded",
			"the proxy's own 407 carries no framing field; the oracle reads it as an empty body (counter bare_407) because its framing is outside the statement",
			"with early close by either side only prefix properties are checked (what arrived is a prefix of what was owed, nothing forbidden arrived); a closing 502/400 of the proxy is accepted there",
			"a case in which every goroutine of the synctest bubble is blocked for good counts as a violation (kind=deadlock): every wait of the harness ends with its connection, the client's writes never block and both ends are always read",
		}, commonAssume...),
		Parts: []partSpec{
			{Name: "proxy", Flavour: "plain", TimeoutQ: m10, TimeoutT: m60, Weight: 12},
			{Name: "proxy-race", Flavour: "race", TimeoutQ: m10, TimeoutT: m60, Weight: 4},
		},
	}
}
