package main

func init() {
	table["C06"] = propSpec{
		Level: "exploration",
		Rule:  "distinct_nontrivial = distinct (entry point, input kind, outcome) classes; evaluations = hostile inputs executed against the real parsers, routers and reply paths",
		Assumptions: append([]string{
			"the oracle is the absence of a Go panic / runtime fatal error / checkptr fault / hang; a panic in any goroutine ends the child process and is attributed through the case log",
			"tproxy/redirect listeners and kernel-level faults are not driven (no netfilter in the sandbox)",
		}, commonAssume...),
		Parts: []partSpec{
			{Name: "streams", Flavour: "plain", TimeoutQ: m10, TimeoutT: m60, Weight: 6},
			{Name: "packets", Flavour: "plain", TimeoutQ: m10, TimeoutT: m60, Weight: 4},
			{Name: "text", Flavour: "plain", TimeoutQ: m10, TimeoutT: m60, Weight: 2},
			{Name: "live", Flavour: "ft", TimeoutQ: m10, TimeoutT: m60, Weight: 4},
			{Name: "fuzz", Flavour: "fuzz", TimeoutQ: m10, TimeoutT: m60 * 2, Weight: 16},
		},
	}
}
