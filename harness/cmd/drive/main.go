// Command drive is the parent process of every check: it rebuilds the needed
// flavours of cmd/verif from /repo's working tree, runs the parts of a
// property as child processes under a wall-clock watchdog, scans their output
// for sanitizer reports and crashes, merges their verdicts, matches violations
// against known_findings.json and writes evidence/<id>.json.
//
// Exit status: 0 = held on everything observed (known findings are printed),
// 1 = violation (a VIOLATION line was printed), 2 = inconclusive / harness
// failure (no VIOLATION line).
package main

import (
	"bytes"
	"context"
	"encoding/json"
	"fmt"
	"os"
	"os/exec"
	"path/filepath"
	"regexp"
	"sort"
	"strconv"
	"strings"
	"sync"
	"syscall"
	"time"

	"verif/core"
)

// verifRoot is the directory that holds check, harness/, evidence/ (VERIF_ROOT is set by ./check).
var verifRoot = func() string {
	if r := os.Getenv("VERIF_ROOT"); r != "" {
		return r
	}
	return "/verif"
}()

var goEnv = []string{"GOFLAGS=-mod=mod", "GOPROXY=off", "GOSUMDB=off", "GOTOOLCHAIN=local"}

type runCtx struct {
	buildDur   time.Duration
	prop, tier string
	seed       int64
	work       string
	bins       map[string]string
	start      time.Time
}

func main() {
	if len(os.Args) < 3 && !(len(os.Args) == 2 && os.Args[1] == "--build-all") {
		fmt.Fprintln(os.Stderr, "usage: drive <Cnn> <quick|thorough> | drive <Cnn> --replay <file> | drive --build-all")
		os.Exit(2)
	}
	if os.Args[1] == "--build-all" {
		rc := &runCtx{work: filepath.Join(verifRoot, ".work", "setup"), bins: map[string]string{}}
		os.MkdirAll(rc.work, 0o755)
		for _, fl := range []string{"race", "ft", "plain", "fuzz"} {
			if err := rc.build(fl); err != nil {
				fmt.Fprintln(os.Stderr, err)
				os.Exit(2)
			}
		}
		os.RemoveAll(rc.work)
		return
	}
	prop := os.Args[1]
	spec, ok := table[prop]
	if !ok {
		fmt.Fprintf(os.Stderr, "unknown property %s\n", prop)
		os.Exit(2)
	}
	seed := int64(1)
	if s := os.Getenv("VERIF_SEED"); s != "" {
		if v, err := strconv.ParseInt(s, 10, 64); err == nil {
			seed = v
		}
	}
	rc := &runCtx{prop: prop, seed: seed, bins: map[string]string{}, start: time.Now()}
	rc.work = filepath.Join(verifRoot, ".work", fmt.Sprintf("%s-%d", prop, os.Getpid()))
	os.RemoveAll(rc.work)
	if err := os.MkdirAll(rc.work, 0o755); err != nil {
		fmt.Fprintln(os.Stderr, err)
		os.Exit(2)
	}
	keep := os.Getenv("VERIF_KEEP_WORK") != ""
	code := 2
	func() {
		if os.Args[2] == "--replay" {
			if len(os.Args) < 4 {
				fmt.Fprintln(os.Stderr, "missing replay file")
				return
			}
			code = rc.replay(spec, os.Args[3])
			return
		}
		rc.tier = os.Args[2]
		if t := os.Getenv("VERIF_TIER"); t != "" && (os.Args[2] != "quick" && os.Args[2] != "thorough") {
			rc.tier = t
		}
		if rc.tier != "quick" && rc.tier != "thorough" {
			fmt.Fprintf(os.Stderr, "bad tier %q\n", rc.tier)
			return
		}
		code = rc.run(spec)
	}()
	if !keep && code != 2 {
		os.RemoveAll(rc.work)
	} else if !keep {
		// keep logs of broken runs, but not the binaries
		os.RemoveAll(filepath.Join(rc.work, "bin"))
	}
	os.Exit(code)
}

func (rc *runCtx) build(flavour string) error {
	if rc.bins[flavour] != "" {
		return nil
	}
	out := filepath.Join(rc.work, "bin", "verif-"+flavour)
	os.MkdirAll(filepath.Dir(out), 0o755)
	args := []string{"test", "-c", "-vet=off"}
	env := append(os.Environ(), goEnv...)
	switch flavour {
	case "race":
		args = append(args, "-race", "-tags", "verif")
	case "ft":
		args = append(args, "-tags", "verif faketime")
		env = append(env, "CGO_ENABLED=0")
	case "plain":
		args = append(args, "-tags", "verif", "-gcflags=all=-d=checkptr")
	case "fuzz":
		// edge instrumentation for Go's coverage-guided fuzzing engine
		args = append(args, "-tags", "verif", "-fuzz=Fuzz")
	default:
		return fmt.Errorf("unknown flavour %s", flavour)
	}
	if alt := os.Getenv("VERIF_REPO"); alt != "" {
		// build against another checkout of the repository (scratch worktrees with seeded changes)
		gm, err := os.ReadFile(filepath.Join(verifRoot, "harness", "go.mod"))
		if err != nil {
			return err
		}
		gm = bytes.ReplaceAll(gm, []byte("=> /repo"), []byte("=> "+alt))
		mf := filepath.Join(rc.work, "alt.go.mod")
		os.WriteFile(mf, gm, 0o644)
		gs, _ := os.ReadFile(filepath.Join(verifRoot, "harness", "go.sum"))
		os.WriteFile(filepath.Join(rc.work, "alt.go.sum"), gs, 0o644)
		args = append(args, "-modfile="+mf)
	}
	args = append(args, "-o", out, "./cmd/verif")
	cmd := exec.Command("go1.26", args...)
	cmd.Dir = filepath.Join(verifRoot, "harness")
	cmd.Env = env
	var buf bytes.Buffer
	cmd.Stdout, cmd.Stderr = &buf, &buf
	if err := cmd.Run(); err != nil {
		return fmt.Errorf("BUILD-FAILED flavour=%s: %v\n%s", flavour, err, buf.String())
	}
	rc.bins[flavour] = out
	return nil
}

type childOut struct {
	spec     partSpec
	shard    int
	res      *core.Result
	timedOut bool
	exitErr  string
	stderr   string
	raceLogs []string
	dur      time.Duration
}

func (rc *runCtx) runChild(ps partSpec, shard, shards, only int, tier string) *childOut {
	co := &childOut{spec: ps, shard: shard}
	tag := fmt.Sprintf("%s-%d", ps.Name, shard)
	out := filepath.Join(rc.work, tag+".result.json")
	clog := filepath.Join(rc.work, tag+".cases.log")
	serr := filepath.Join(rc.work, tag+".stderr")
	sout := filepath.Join(rc.work, tag+".stdout")
	wdir := filepath.Join(rc.work, tag+".d")
	os.MkdirAll(wdir, 0o755)
	to := ps.TimeoutQ
	if tier == "thorough" {
		to = ps.TimeoutT
	}
	if to == 0 {
		to = 10 * time.Minute
	}
	ctx, cancel := context.WithTimeout(context.Background(), to)
	defer cancel()
	args := []string{"-test.run=^TestVerif$", "-test.timeout=0", "-prop", rc.prop, "-part", ps.Name, "-tier", tier, "-seed", strconv.FormatInt(rc.seed, 10),
		"-shard", strconv.Itoa(shard), "-shards", strconv.Itoa(shards), "-only", strconv.Itoa(only),
		"-out", out, "-log", clog, "-work", wdir}
	cmd := exec.CommandContext(ctx, rc.bins[ps.Flavour], args...)
	cmd.Cancel = func() error { return cmd.Process.Signal(syscall.SIGQUIT) }
	cmd.WaitDelay = 20 * time.Second
	cmd.Dir = wdir
	env := append(os.Environ(), goEnv...)
	if ps.Flavour == "race" {
		env = append(env, "GORACE=halt_on_error=0 history_size=3 log_path="+filepath.Join(rc.work, tag+".race"))
	}
	if ps.Flavour == "ft" {
		// Under the frozen fake clock the runtime's stop-the-world / forEachP retry timeouts never expire
		// (nanotime stands still), so a lost race in a GC cycle would hang forever: run ft children without GC.
		env = append(env, "GOGC=off")
	}
	env = append(env, "GOTRACEBACK=all")
	if ps.Procs > 0 {
		env = append(env, "GOMAXPROCS="+strconv.Itoa(ps.Procs))
	}
	cmd.Env = env
	fe, _ := os.Create(serr)
	fo, _ := os.Create(sout)
	cmd.Stdout, cmd.Stderr = fo, fe
	t0 := time.Now()
	err := cmd.Run()
	co.dur = time.Since(t0)
	fe.Close()
	fo.Close()
	if ctx.Err() != nil {
		co.timedOut = true
	}
	if err != nil {
		co.exitErr = err.Error()
	}
	if b, e := os.ReadFile(serr); e == nil {
		if ps.Flavour == "ft" {
			b = deframe(b)
		}
		co.stderr = string(b)
	}
	if b, e := os.ReadFile(out); e == nil {
		var r core.Result
		if json.Unmarshal(b, &r) == nil && r.Complete {
			co.res = &r
		}
	}
	if m, _ := filepath.Glob(filepath.Join(rc.work, tag+".race*")); len(m) > 0 {
		for _, f := range m {
			if b, e := os.ReadFile(f); e == nil {
				co.raceLogs = append(co.raceLogs, string(b))
			}
		}
	}
	if co.res == nil {
		// name the last begun cases
		if b, e := os.ReadFile(clog); e == nil {
			lines := strings.Split(strings.TrimSpace(string(b)), "\n")
			if len(lines) > 20 {
				lines = lines[len(lines)-20:]
			}
			co.stderr += "\n--- last begun cases ---\n" + strings.Join(lines, "\n")
		}
	}
	os.RemoveAll(wdir)
	return co
}

var reFrame = regexp.MustCompile(`(?m)^\s*(github\.com/database64128/shadowsocks-go/\S+)\(`)
var reAnyFrame = regexp.MustCompile(`(?m)^  ([A-Za-z0-9_./\-]+\.[^\s(]+)\(`)

type sanReport struct {
	kind  string
	where string
	text  string
}

func scanSanitizers(co *childOut) (reps []sanReport, harnessOnly []string) {
	var texts []string
	texts = append(texts, co.raceLogs...)
	texts = append(texts, co.stderr)
	seen := map[string]bool{}
	for _, t := range texts {
		for _, blk := range strings.Split(t, "==================") {
			if !strings.Contains(blk, "WARNING: DATA RACE") {
				continue
			}
			fr := reFrame.FindAllStringSubmatch(blk, -1)
			var fns []string
			for _, m := range fr {
				fn := strings.TrimPrefix(m[1], "github.com/database64128/shadowsocks-go/")
				fns = append(fns, fn)
			}
			if len(fns) == 0 {
				harnessOnly = append(harnessOnly, blk)
				continue
			}
			// dedupe: set of repo functions in the report (line numbers stripped)
			set := map[string]bool{}
			for _, f := range fns {
				set[f] = true
			}
			key := strings.Join(core.SortedKeys(set), "|")
			if seen[key] {
				continue
			}
			seen[key] = true
			reps = append(reps, sanReport{kind: "race", where: fns[0], text: strings.TrimSpace(blk)})
		}
	}
	// crashes: only when the child did not complete
	if co.res == nil && !co.timedOut {
		s := co.stderr
		kind := ""
		switch {
		case strings.Contains(s, "fatal error: checkptr"):
			kind = "checkptr"
		case strings.Contains(s, "fatal error:"):
			kind = "fatal"
		case strings.Contains(s, "panic:"):
			kind = "panic"
		case strings.Contains(s, "HARNESS-ERROR"):
			kind = ""
		}
		if kind != "" {
			where := "harness"
			if m := reFrame.FindStringSubmatch(s); m != nil {
				where = strings.TrimPrefix(m[1], "github.com/database64128/shadowsocks-go/")
			}
			// the witness starts at the runtime's message, not at the end of the goroutine dump
			at := len(s)
			for _, mark := range []string{"unexpected fault address", "fatal error:", "panic:"} {
				if i := strings.Index(s, mark); i >= 0 && i < at {
					at = i
				}
			}
			txt := s[at:]
			if len(txt) > 6000 {
				txt = txt[:6000]
			}
			reps = append(reps, sanReport{kind: kind, where: where, text: txt + "\n...\n" + tail(s, 1500)})
		}
	}
	return
}

// deframe strips the playback framing ("\x00\x00PB" + 8-byte time + 4-byte length) that the faketime runtime
// puts around every write to stdout/stderr.
func deframe(b []byte) []byte {
	var out []byte
	for i := 0; i < len(b); {
		if i+16 <= len(b) && b[i] == 0 && b[i+1] == 0 && b[i+2] == 'P' && b[i+3] == 'B' {
			n := int(b[i+12])<<24 | int(b[i+13])<<16 | int(b[i+14])<<8 | int(b[i+15])
			end := min(i+16+n, len(b))
			out = append(out, b[i+16:end]...)
			i = end
			continue
		}
		out = append(out, b[i])
		i++
	}
	return out
}

func tail(s string, n int) string {
	if len(s) <= n {
		return s
	}
	return s[len(s)-n:]
}

type finding struct {
	Property  string            `json:"property"`
	ID        string            `json:"id"`
	Status    string            `json:"status"`
	Signature map[string]string `json:"signature"`
	Commit    string            `json:"commit,omitempty"`
	Text      string            `json:"text"`
}

func loadFindings() []finding {
	var doc struct {
		Findings []finding `json:"findings"`
	}
	b, err := os.ReadFile(filepath.Join(verifRoot, "known_findings.json"))
	if err != nil {
		return nil
	}
	if err := json.Unmarshal(b, &doc); err != nil {
		fmt.Fprintf(os.Stderr, "known_findings.json: %v\n", err)
		os.Exit(2)
	}
	return doc.Findings
}

func matchFinding(fs []finding, prop string, sig map[string]string) *finding {
	for i := range fs {
		f := &fs[i]
		if f.Property != prop || f.Status != "open" || len(f.Signature) == 0 {
			continue
		}
		ok := true
		for k, v := range f.Signature {
			if sig[k] != v {
				ok = false
				break
			}
		}
		if ok {
			return f
		}
	}
	return nil
}

func (rc *runCtx) run(spec propSpec) int {
	need := map[string]bool{}
	for _, p := range spec.Parts {
		need[p.Flavour] = true
	}
	tb := time.Now()
	defer func() {}()
	for fl := range need {
		if err := rc.build(fl); err != nil {
			fmt.Println(err)
			fmt.Printf("INCONCLUSIVE property=%s reason=build-failed\n", rc.prop)
			return 2
		}
	}
	rc.buildDur = time.Since(tb)
	var outs []*childOut
	var mu sync.Mutex
	sem := newWSem(16)
	var wg sync.WaitGroup
	for _, ps := range spec.Parts {
		shards := ps.ShardsQ
		if rc.tier == "thorough" {
			shards = ps.ShardsT
		}
		if ps.QuickOnly && rc.tier != "quick" {
			continue
		}
		if ps.ThoroughOnly && rc.tier != "thorough" {
			continue
		}
		if shards < 1 {
			shards = 1
		}
		weight := ps.Weight
		if weight < 1 {
			weight = 16
		}
		if weight > 16 {
			weight = 16
		}
		for s := 0; s < shards; s++ {
			wg.Add(1)
			go func(ps partSpec, s int) {
				defer wg.Done()
				sem.acquire(weight)
				co := rc.runChild(ps, s, shards, -1, rc.tier)
				sem.release(weight)
				mu.Lock()
				outs = append(outs, co)
				mu.Unlock()
			}(ps, s)
		}
	}
	wg.Wait()
	sort.Slice(outs, func(i, j int) bool {
		if outs[i].spec.Name != outs[j].spec.Name {
			return outs[i].spec.Name < outs[j].spec.Name
		}
		return outs[i].shard < outs[j].shard
	})
	return rc.conclude(spec, outs, true)
}

func (rc *runCtx) conclude(spec propSpec, outs []*childOut, writeEvidence bool) int {
	findings := loadFindings()
	var (
		evals        int64
		classes      = map[string]int64{}
		samples      []any
		counters     = map[string]int64{}
		inconcl      = map[string]int64{}
		notes        []string
		rules        []string
		viols        []core.Violation
		broken       []string
		exhaustive   = true
		anyExh       bool
		sanCount     int
		perPart      = map[string]any{}
		knownMatched = map[string]int{}
	)
	for _, co := range outs {
		pname := co.spec.Name
		reps, harnessOnly := scanSanitizers(co)
		if len(harnessOnly) > 0 {
			broken = append(broken, fmt.Sprintf("part %s: %d race report(s) wholly inside harness code", pname, len(harnessOnly)))
			os.WriteFile(filepath.Join(rc.work, pname+".harness-race.txt"), []byte(strings.Join(harnessOnly, "\n=====\n")), 0o644)
		}
		for _, r := range reps {
			sanCount++
			viols = append(viols, core.Violation{
				Sig:  core.Sig("kind", r.kind, "where", r.where, "part", pname),
				Text: fmt.Sprintf("%s report in %s (part %s)", r.kind, r.where, pname), Part: pname, Case: -1, Detail: r.text,
			})
		}
		if co.timedOut {
			inconcl["watchdog:"+pname]++
			broken = append(broken, fmt.Sprintf("part %s shard %d: wall-clock watchdog fired (inconclusive)", pname, co.shard))
		}
		if co.res == nil {
			if !co.timedOut && len(reps) == 0 {
				broken = append(broken, fmt.Sprintf("part %s shard %d: child failed without result: %s\n%s", pname, co.shard, co.exitErr, tail(co.stderr, 3000)))
			}
			continue
		}
		r := co.res
		evals += r.Evaluations
		for k, v := range r.Classes {
			classes[pname+":"+k] += v
		}
		for _, s := range r.Samples {
			if len(samples) < 12 {
				samples = append(samples, map[string]any{"part": pname, "case": s})
			}
		}
		for k, v := range r.Counters {
			counters[pname+"."+k] += v
		}
		for k, v := range r.Inconclusive {
			inconcl[pname+":"+k] += v
		}
		for _, n := range r.Notes {
			notes = append(notes, pname+": "+n)
		}
		if r.Rule != "" && co.shard == 0 {
			rules = append(rules, pname+": "+r.Rule)
		}
		if r.Exhaustive {
			anyExh = true
		} else {
			exhaustive = false
		}
		viols = append(viols, r.Violations...)
		perPart[fmt.Sprintf("%s#%d", pname, co.shard)] = map[string]any{"evaluations": r.Evaluations, "classes": len(r.Classes), "wall_s": r.WallS, "violations": len(r.Violations)}
	}
	// triage violations
	var fresh []core.Violation
	printed := map[string]bool{}
	for _, v := range viols {
		if f := matchFinding(findings, rc.prop, v.Sig); f != nil {
			knownMatched[f.ID]++
			if !printed[f.ID] {
				printed[f.ID] = true
				fmt.Printf("KNOWN-FINDING: property=%s %s: %s\n", rc.prop, f.ID, f.Text)
			}
			continue
		}
		fresh = append(fresh, v)
	}
	code := 0
	var replayPaths []string
	if len(fresh) > 0 {
		code = 1
		replayDir := filepath.Join(verifRoot, "replay")
		if os.Getenv("VERIF_REPO") != "" {
			replayDir = filepath.Join(verifRoot, ".work", "replay-alt")
		}
		os.MkdirAll(replayDir, 0o755)
		seenSig := map[string]bool{}
		for _, v := range fresh {
			k := sigKey(v.Sig)
			if seenSig[k] {
				continue
			}
			seenSig[k] = true
			if len(replayPaths) >= 10 {
				break
			}
			p := filepath.Join(replayDir, fmt.Sprintf("%s-%s-s%d-%d.json", rc.prop, rc.tier, rc.seed, len(replayPaths)))
			doc := map[string]any{"property": rc.prop, "tier": rc.tier, "seed": rc.seed, "violation": v,
				"replay_cmd": fmt.Sprintf("./check %s --replay %s", rc.prop, p)}
			b, _ := json.MarshalIndent(doc, "", " ")
			os.WriteFile(p, b, 0o644)
			replayPaths = append(replayPaths, p)
			fmt.Printf("VIOLATION property=%s replay=%s\n", rc.prop, p)
			fmt.Printf("  %s sig=%s\n", v.Text, k)
		}
	}
	for _, b := range broken {
		fmt.Printf("INCONCLUSIVE property=%s %s\n", rc.prop, b)
	}
	if len(broken) > 0 && code == 0 {
		code = 2
	}
	if !writeEvidence {
		return code
	}
	// conclusive floor
	var inconclTotal int64
	for _, v := range inconcl {
		inconclTotal += v
	}
	if evals > 0 && inconclTotal*5 > evals && code == 0 {
		fmt.Printf("INCONCLUSIVE property=%s %d of %d cases inconclusive (floor 20%%)\n", rc.prop, inconclTotal, evals)
		code = 2
	}
	distinct := len(classes)
	if (evals < 1 || distinct < 2) && code == 0 {
		fmt.Printf("INCONCLUSIVE property=%s observed too little (evaluations=%d distinct=%d)\n", rc.prop, evals, distinct)
		code = 2
	}
	if samples == nil {
		samples = []any{}
	}
	// class histogram abbreviated
	hist := map[string]int64{}
	ks := core.SortedKeys(classes)
	for i, k := range ks {
		if i < 60 {
			hist[k] = classes[k]
		}
	}
	cov := map[string]any{
		"evaluations":             evals,
		"distinct_nontrivial":     distinct,
		"rule":                    spec.Rule + " || " + strings.Join(rules, " | "),
		"samples":                 samples,
		"exhaustive":              anyExh && exhaustive,
		"events":                  counters,
		"class_histogram_first60": hist,
		"inconclusive":            inconcl,
		"sanitizer_reports":       sanCount,
		"known_findings_matched":  knownMatched,
		"per_part":                perPart,
		"notes":                   notes,
		"verdict":                 map[int]string{0: "held on what was observed", 1: "violated", 2: "inconclusive"}[code],
	}
	ev := map[string]any{
		"property_id": rc.prop,
		"tier":        rc.tier,
		"seed":        rc.seed,
		"level":       spec.Level,
		"coverage":    cov,
		"assumptions": spec.Assumptions,
		"wall_s":      time.Since(rc.start).Seconds(),
		"violations":  len(fresh),
	}
	b, _ := json.MarshalIndent(ev, "", " ")
	os.MkdirAll(filepath.Join(verifRoot, "evidence"), 0o755)
	evDir := filepath.Join(verifRoot, "evidence")
	if os.Getenv("VERIF_REPO") != "" {
		evDir = filepath.Join(verifRoot, ".work", "evidence-alt")
	}
	os.MkdirAll(evDir, 0o755)
	if err := os.WriteFile(filepath.Join(evDir, rc.prop+".json"), b, 0o644); err != nil {
		fmt.Println(err)
		return 2
	}
	var pt []string
	for _, co := range outs {
		pt = append(pt, fmt.Sprintf("%s/%d=%.0fs", co.spec.Name, co.shard, co.dur.Seconds()))
	}
	fmt.Printf("parts: %s build=%.0fs\n", strings.Join(pt, " "), rc.buildDur.Seconds())
	fmt.Printf("%s %s seed=%d: evaluations=%d distinct=%d violations=%d known=%d inconclusive=%d wall=%.1fs -> exit %d\n",
		rc.prop, rc.tier, rc.seed, evals, distinct, len(fresh), len(knownMatched), inconclTotal, time.Since(rc.start).Seconds(), code)
	return code
}

type wsem struct {
	mu   sync.Mutex
	cond *sync.Cond
	free int
}

func newWSem(n int) *wsem {
	w := &wsem{free: n}
	w.cond = sync.NewCond(&w.mu)
	return w
}

func (w *wsem) acquire(n int) {
	w.mu.Lock()
	for w.free < n {
		w.cond.Wait()
	}
	w.free -= n
	w.mu.Unlock()
}

func (w *wsem) release(n int) {
	w.mu.Lock()
	w.free += n
	w.mu.Unlock()
	w.cond.Broadcast()
}

func sigKey(m map[string]string) string {
	var parts []string
	for _, k := range core.SortedKeys(m) {
		parts = append(parts, k+"="+m[k])
	}
	return strings.Join(parts, ",")
}

func (rc *runCtx) replay(spec propSpec, path string) int {
	b, err := os.ReadFile(path)
	if err != nil {
		fmt.Println(err)
		return 2
	}
	var doc struct {
		Tier      string         `json:"tier"`
		Seed      int64          `json:"seed"`
		Violation core.Violation `json:"violation"`
	}
	if err := json.Unmarshal(b, &doc); err != nil {
		fmt.Println(err)
		return 2
	}
	rc.tier, rc.seed = doc.Tier, doc.Seed
	if abs, err := filepath.Abs(path); err == nil {
		os.Setenv("VERIF_REPLAY", abs) // parts whose witness is an input rather than a case number read it from the file
	}
	var ps *partSpec
	for i := range spec.Parts {
		if spec.Parts[i].Name == doc.Violation.Part {
			ps = &spec.Parts[i]
		}
	}
	if ps == nil {
		fmt.Printf("replay: unknown part %q\n", doc.Violation.Part)
		return 2
	}
	if err := rc.build(ps.Flavour); err != nil {
		fmt.Println(err)
		return 2
	}
	// schedule-dependent cases are re-run several times
	n := 1
	if ps.ReplayRuns > 1 {
		n = ps.ReplayRuns
	}
	var outs []*childOut
	for k := 0; k < n; k++ {
		co := rc.runChild(*ps, 0, 1, doc.Violation.Case, rc.tier)
		outs = append(outs, co)
		if co.res != nil && len(co.res.Violations) > 0 {
			break
		}
	}
	return rc.conclude(spec, outs, false)
}
