package main

import "time"

type partSpec struct {
	Name         string
	Flavour      string // race | ft | plain
	ShardsQ      int
	ShardsT      int
	TimeoutQ     time.Duration
	TimeoutT     time.Duration
	Weight       int // CPU slots (of 16) the child occupies; default 16
	Procs        int // GOMAXPROCS for the child; 0 = default
	QuickOnly    bool
	ThoroughOnly bool
	ReplayRuns   int
}

type propSpec struct {
	Level       string
	Rule        string
	Assumptions []string
	Parts       []partSpec
}

const (
	m5  = 5 * time.Minute
	m10 = 10 * time.Minute
	m30 = 30 * time.Minute
	m60 = 60 * time.Minute
)

var commonAssume = []string{
	"verdicts are about the executions produced by this run only (sampled, not exhaustive, unless coverage.exhaustive is true)",
	"AES-GCM / BLAKE3 are assumed unforgeable; Go runtime, race detector and (for ft parts) the runtime's faketime clock are trusted",
}

var table = map[string]propSpec{}

func init() {
	table["C04"] = propSpec{
		Level: "exploration",
		Rule:  "distinct_nontrivial = number of distinct case classes observed (see per-part rules); a class is counted only if the case ran to completion against the real filter/unpacker",
		Assumptions: append([]string{
			"ids that are >= window-size behind the newest accepted one are don't-care unless delivered twice (the statement does not decide them)",
			"a first server-session change within a minute of the very first packet is don't-care",
		}, commonAssume...),
		Parts: []partSpec{
			{Name: "filter", Flavour: "plain", TimeoutQ: m5, TimeoutT: m30},
			{Name: "packet", Flavour: "race", TimeoutQ: m5, TimeoutT: m30},
			{Name: "sessions", Flavour: "race", TimeoutQ: m5, TimeoutT: m30},
		},
	}
}

func init() {
	table["C01"] = propSpec{
		Level: "exploration",
		Rule:  "distinct_nontrivial = distinct (configuration, payload class, copy paths, segmentation kinds) classes in which the real client and server exchanged data and both EOFs were observed",
		Assumptions: append([]string{
			"TCP segmentation is emulated by a harness transport that re-segments reads; when a side does not allow a segmented fixed-length header the first segment covers that header (a shorter first read is a legitimate ErrFirstRead)",
			"identity-header depths above one are terminated by reference relay hops that implement only the SIP022 header-stripping step",
		}, commonAssume...),
		Parts: []partSpec{
			{Name: "tunnel", Flavour: "plain", TimeoutQ: m10, TimeoutT: m60},
			{Name: "tunnel-race", Flavour: "race", TimeoutQ: m10, TimeoutT: m60},
		},
	}
}

func init() {
	table["C03"] = propSpec{
		Level: "exploration",
		Rule:  "distinct_nontrivial = distinct (client skew, outcome), (gap since first acceptance, outcome), (k, interleaving) and (goroutines, salts, adds) classes observed on the real StreamServer / SaltPool",
		Assumptions: append([]string{
			"the timestamp rule is the integer-second comparison |ts - floor(now)| <= 30 (protocol and statement wording)",
			"inside a synctest bubble the clock is constant while HandleStream computes, so the harness's time.Now() before a presentation is the server's now",
		}, commonAssume...),
		Parts: []partSpec{
			{Name: "history", Flavour: "plain", TimeoutQ: m10, TimeoutT: m60},
			{Name: "concurrent", Flavour: "race", TimeoutQ: m10, TimeoutT: m60},
			{Name: "saltpool", Flavour: "race", TimeoutQ: m10, TimeoutT: m60},
			{Name: "saltpool-time", Flavour: "plain", TimeoutQ: m10, TimeoutT: m60, Weight: 4},
		},
	}
}

func init() {
	table["C02"] = propSpec{
		Level: "fault_enumeration",
		Rule:  "evaluations = tamper trials; distinct_nontrivial = distinct (direction, operator, kind of the first altered AEAD unit, fallback, outcome) classes",
		Assumptions: append([]string{
			"pure truncation at an AEAD unit boundary (or right after a length unit) may surface as EOF or unexpected-EOF: it is indistinguishable from a genuine close",
			"a cut after the fixed-length header chunk is an authentic incomplete request, not a failed authentication",
		}, commonAssume...),
		Parts: []partSpec{
			{Name: "tamper", Flavour: "plain", TimeoutQ: m10, TimeoutT: m60},
		},
	}
}
