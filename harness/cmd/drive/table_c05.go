package main

func init() {
	table["C05"] = propSpec{
		Level: "exploration",
		Rule:  "distinct_nontrivial = distinct (protocol(s), MTU, address kind, payload boundary class, headroom class, outcome) classes in which the real packers/unpackers ran on canary buffers",
		Assumptions: append([]string{
			"memory safety outside the Go slice is enforced by Go bounds checks (a panic is a violation); canaries watch the bytes of the buffer outside the packet",
			"payloadStart below what the packer needs for its own header is a caller error for the address-prefix protocols and is not generated",
			"identity-header depths above one are verified through reference relay hops implementing only the SIP022 UDP header-stripping step",
		}, commonAssume...),
		Parts: []partSpec{
			{Name: "codec", Flavour: "plain", TimeoutQ: m10, TimeoutT: m60, Weight: 7},
			{Name: "relay", Flavour: "plain", TimeoutQ: m10, TimeoutT: m60, Weight: 7},
			{Name: "live-roam", Flavour: "ft", TimeoutQ: m10, TimeoutT: m60, Weight: 2},
		},
	}
}
