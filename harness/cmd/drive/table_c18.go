package main

func init() {
	table["C18"] = propSpec{
		Level: "exploration",
		Rule:  "distinct_nontrivial = distinct (mutation set, outcome) classes for loading, (field, form) classes for default equivalence and (mutation, servers exercised) classes for accepted configurations driven with traffic",
		Assumptions: append([]string{
			"the reference validator knows only the invariants named in the statement and the README; combinations it cannot decide are not generated",
			"tproxy/redirect servers and TLS listeners are not generated (no netfilter / certificates in the sandbox)",
		}, commonAssume...),
		Parts: []partSpec{
			{Name: "load", Flavour: "plain", TimeoutQ: m10, TimeoutT: m60, Weight: 6},
			{Name: "defaults", Flavour: "plain", TimeoutQ: m10, TimeoutT: m60, Weight: 2},
			{Name: "run", Flavour: "ft", TimeoutQ: m10, TimeoutT: m60, Weight: 8},
		},
	}
}
