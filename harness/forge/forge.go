// Package forge builds Shadowsocks 2022 wire messages with attacker-chosen
// fields (timestamp, salt, session id, packet id, type) out of the repository's
// own exported helpers. A keyed forger models an authenticated but
// misbehaving peer; it never re-implements the key schedule.
package forge

import (
	"crypto/cipher"
	"crypto/subtle"
	"encoding/binary"
	"time"

	"github.com/database64128/shadowsocks-go/conn"
	"github.com/database64128/shadowsocks-go/socks5"
	"github.com/database64128/shadowsocks-go/ss2022"
)

// Key derives a deterministic PSK of n bytes from a tag.
func Key(n int, tag string) []byte {
	b := make([]byte, n)
	x := uint64(0xcbf29ce484222325)
	for i := 0; i < len(tag); i++ {
		x = (x ^ uint64(tag[i])) * 0x100000001b3
	}
	for i := range b {
		x = x*6364136223846793005 + 1442695040888963407
		b[i] = byte(x >> 33)
	}
	return b
}

// TCPRequest describes a request to forge.
type TCPRequest struct {
	Client    *ss2022.ClientCipherConfig
	Prefix    []byte
	Salt      []byte // len == len(PSK)
	Timestamp time.Time
	Target    conn.Addr
	Payload   []byte
	Padding   int
	Type      int // -1: correct type
}

// Bytes returns the request stream bytes: prefix | salt | EIH* | fixed header chunk | variable header chunk,
// together with the stream cipher positioned after the two header chunks.
func (r *TCPRequest) Bytes() ([]byte, *ss2022.ShadowStreamCipher, error) {
	c := r.Client
	addrLen := socks5.LengthOfAddrFromConnAddr(r.Target)
	vlen := addrLen + 2 + r.Padding + len(r.Payload)
	out := append([]byte{}, r.Prefix...)
	out = append(out, r.Salt...)
	hashes := c.EIHPSKHashes()
	blocks, err := c.TCPIdentityHeaderCiphers(r.Salt)
	if err != nil {
		return nil, nil, err
	}
	for i := range hashes {
		eih := make([]byte, ss2022.IdentityHeaderLength)
		blocks[i].Encrypt(eih, hashes[i][:])
		out = append(out, eih...)
	}
	sc, err := c.ShadowStreamCipher(r.Salt)
	if err != nil {
		return nil, nil, err
	}
	fixed := make([]byte, ss2022.TCPRequestFixedLengthHeaderLength, ss2022.TCPRequestFixedLengthHeaderLength+16)
	ss2022.PutTCPRequestFixedLengthHeader(fixed, r.Timestamp, vlen)
	if r.Type >= 0 {
		fixed[0] = byte(r.Type)
	}
	out = append(out, sc.EncryptInPlace(fixed)...)
	vh := make([]byte, vlen, vlen+16)
	// PutTCPRequestVariableLengthHeader uses the excess as padding
	ss2022.PutTCPRequestVariableLengthHeader(vh, r.Target, r.Payload)
	out = append(out, sc.EncryptInPlace(vh)...)
	return out, sc, nil
}

// Chunk seals one length+payload chunk pair with the stream cipher.
func Chunk(sc *ss2022.ShadowStreamCipher, payload []byte) []byte {
	l := make([]byte, 2, 2+16)
	binary.BigEndian.PutUint16(l, uint16(len(payload)))
	out := sc.EncryptInPlace(l)
	p := make([]byte, len(payload), len(payload)+16)
	copy(p, payload)
	return append(append([]byte{}, out...), sc.EncryptInPlace(p)...)
}

// UDPClientPacket describes a client→server UDP packet to forge.
type UDPClientPacket struct {
	Client    *ss2022.ClientCipherConfig
	SessionID uint64
	PacketID  uint64
	Timestamp time.Time
	Target    conn.Addr
	Payload   []byte
	Padding   int
	Type      int // -1: correct
	BadTag    bool
}

// Bytes returns the datagram.
func (p *UDPClientPacket) Bytes() ([]byte, error) {
	c := p.Client
	hashes := c.EIHPSKHashes()
	eihc := c.UDPIdentityHeaderCiphers()
	addrLen := socks5.LengthOfAddrFromConnAddr(p.Target)
	hdrLen := ss2022.UDPClientMessageHeaderFixedLength + p.Padding + addrLen
	b := make([]byte, 16+16*len(hashes)+hdrLen+len(p.Payload)+16)
	sep := b[:16]
	ss2022.PutSessionIDAndPacketID(sep, p.SessionID, p.PacketID)
	for i := range hashes {
		ih := b[16+16*i : 32+16*i]
		subtle.XORBytes(ih, hashes[i][:], sep)
		eihc[i].Encrypt(ih, ih)
	}
	ms := 16 + 16*len(hashes)
	ss2022.PutUDPClientMessageHeader(b[ms:ms+hdrLen], p.Timestamp, p.Padding, p.Target)
	if p.Type >= 0 {
		b[ms] = byte(p.Type)
	}
	copy(b[ms+hdrLen:], p.Payload)
	var sid [8]byte
	binary.BigEndian.PutUint64(sid[:], p.SessionID)
	aead, err := c.AEAD(sid[:])
	if err != nil {
		return nil, err
	}
	pt := b[ms : ms+hdrLen+len(p.Payload)]
	aead.Seal(pt[:0], sep[4:16], pt, nil)
	if p.BadTag {
		b[len(b)-1] ^= 0x40
	}
	c.UDPSeparateHeaderPackerCipher().Encrypt(sep, sep)
	return b, nil
}

// UDPServerPacket describes a server→client UDP packet to forge.
type UDPServerPacket struct {
	User            ss2022.UserCipherConfig // needs UDP enabled
	ServerSessionID uint64
	PacketID        uint64
	ClientSessionID uint64
	Timestamp       time.Time
	Source          conn.Addr // must be IP
	Payload         []byte
	Padding         int
	Type            int
	BadTag          bool
}

// Bytes returns the datagram.
func (p *UDPServerPacket) Bytes() ([]byte, error) {
	src := p.Source.IPPort()
	addrLen := socks5.LengthOfAddrFromAddrPort(src)
	hdrLen := ss2022.UDPServerMessageHeaderFixedLength + p.Padding + addrLen
	b := make([]byte, 16+hdrLen+len(p.Payload)+16)
	sep := b[:16]
	ss2022.PutSessionIDAndPacketID(sep, p.ServerSessionID, p.PacketID)
	ss2022.PutUDPServerMessageHeader(b[16:16+hdrLen], p.Timestamp, p.ClientSessionID, p.Padding, src)
	if p.Type >= 0 {
		b[16] = byte(p.Type)
	}
	copy(b[16+hdrLen:], p.Payload)
	var sid [8]byte
	binary.BigEndian.PutUint64(sid[:], p.ServerSessionID)
	aead, err := p.User.AEAD(sid[:])
	if err != nil {
		return nil, err
	}
	pt := b[16 : 16+hdrLen+len(p.Payload)]
	aead.Seal(pt[:0], sep[4:16], pt, nil)
	if p.BadTag {
		b[len(b)-1] ^= 0x40
	}
	var blk cipher.Block = p.User.Block()
	blk.Encrypt(sep, sep)
	return b, nil
}
