package c13

// Plain (non-CONNECT) HTTP requests through the live TCP relay. With an `http` server the connection handed to
// service/tcp.go is not the client's socket but the in-memory pipe the HTTP forwarder writes requests into; the
// initial-payload wait, the deadline it arms and the bidirectional copy all act on that pipe. A client that keeps its
// proxy connection alive sends further requests (and late request bodies) long after the 250 ms wait: "copies both
// directions until each side finishes" must hold for them too.

import (
	"bufio"
	"bytes"
	"crypto/sha256"
	"crypto/tls"
	"encoding/base64"
	"fmt"
	"io"
	"net"
	"net/http"
	"strconv"
	"strings"
	"sync"
	"time"

	"verif/core"
	"verif/svx"
	"verif/vtime"
)

type originReq struct {
	Method, Target string
	Body           []byte
}

type httpOrigin struct {
	ln    net.Listener
	mu    sync.Mutex
	reqs  []originReq
	conns int
}

func respBody(method, target string, body []byte, n int) []byte {
	h := sha256.Sum256(body)
	out := []byte(fmt.Sprintf("R|%s|%s|%x|", method, target, h[:6]))
	return append(out, core.Pattern(uint64(len(target))<<8|uint64(n&0xff), 0, n)...)
}

func newHTTPOrigin(ip string, port int) (*httpOrigin, error) {
	ln, err := net.Listen("tcp", fmt.Sprintf("%s:%d", ip, port))
	if err != nil {
		return nil, err
	}
	o := &httpOrigin{ln: ln}
	go func() {
		for {
			c, err := ln.Accept()
			if err != nil {
				return
			}
			o.mu.Lock()
			o.conns++
			o.mu.Unlock()
			go o.serve(c)
		}
	}()
	return o, nil
}

func (o *httpOrigin) serve(c net.Conn) {
	defer c.Close()
	br := bufio.NewReader(c)
	for {
		req, err := http.ReadRequest(br)
		if err != nil {
			return
		}
		body, err := io.ReadAll(req.Body)
		if err != nil {
			return
		}
		target := req.URL.RequestURI()
		o.mu.Lock()
		o.reqs = append(o.reqs, originReq{req.Method, target, body})
		o.mu.Unlock()
		// the wanted response size is the last path element: /k<i>/<size>
		n := 0
		if i := strings.LastIndexByte(req.URL.Path, '/'); i >= 0 {
			n, _ = strconv.Atoi(req.URL.Path[i+1:])
		}
		rb := respBody(req.Method, target, body, n)
		if _, err := fmt.Fprintf(c, "HTTP/1.1 200 OK\r\nContent-Type: application/octet-stream\r\nContent-Length: %d\r\n\r\n", len(rb)); err != nil {
			return
		}
		if _, err := c.Write(rb); err != nil {
			return
		}
	}
}

func (o *httpOrigin) snapshot() ([]originReq, int) {
	o.mu.Lock()
	defer o.mu.Unlock()
	return append([]originReq{}, o.reqs...), o.conns
}

// plainHTTP runs one keep-alive proxy connection with 2-4 plain requests spaced around and far beyond the 250 ms wait.
func plainHTTP(e *core.Env, ci int, r *core.RNG, inst *svx.Instance, t *svx.Topo, S, C string, portA, tport int, race, noWait bool) {
	rec := e.Rec
	viol := func(kind, format string, a ...any) {
		rec.Violate("relay", ci, core.Sig("kind", kind, "part", e.Part, "S", S, "C", C, "mode", "plain-http-keepalive", "fail", ""), map[string]any{"logs": inst.LogLines(14)}, format, a...)
	}
	rec.Eval()
	org, err := newHTTPOrigin("127.0.0.2", tport)
	if err != nil {
		rec.Inconclusive("plain-http origin: " + err.Error())
		return
	}
	defer org.ln.Close()
	host := fmt.Sprintf("127.0.0.2:%d", tport)
	if r.Bool() {
		name := fmt.Sprintf("c13-plain-%d.test", ci)
		fakeDNS.Set(name, "127.0.0.2")
		host = fmt.Sprintf("%s:%d", name, tport)
	}
	var c net.Conn
	c, err = net.Dial("tcp", fmt.Sprintf("127.0.0.1:%d", portA))
	if err != nil {
		rec.Inconclusive("plain-http dial: " + err.Error())
		return
	}
	defer c.Close()
	if svx.UsesTLS(S) {
		tc, err := t.TLSClientConfig(S == "httpmtls")
		if err != nil {
			rec.Inconclusive("plain-http tls config: " + err.Error())
			return
		}
		c = tls.Client(c, tc)
	}
	adv := func(d time.Duration) {
		if d == 0 {
			return
		}
		if race {
			time.Sleep(min(d/8, 300*time.Millisecond)) // real clock, 30 ms wait configured: only the order matters
		} else {
			vtime.Advance(d)
		}
	}
	// reader: responses are parsed as they arrive
	type got struct {
		status int
		body   []byte
	}
	var mu sync.Mutex
	var resps []got
	var rerr string
	rdone := false
	go func() {
		br := bufio.NewReader(c)
		for {
			resp, err := http.ReadResponse(br, nil)
			if err != nil {
				mu.Lock()
				if err != io.EOF && err != io.ErrUnexpectedEOF {
					rerr = err.Error()
				}
				rdone = true
				mu.Unlock()
				return
			}
			b, err := io.ReadAll(resp.Body)
			mu.Lock()
			if err != nil {
				rerr = "body: " + err.Error()
				rdone = true
				mu.Unlock()
				return
			}
			resps = append(resps, got{resp.StatusCode, b})
			mu.Unlock()
		}
	}()
	nresp := func() int { mu.Lock(); defer mu.Unlock(); return len(resps) }
	auth := ""
	if S == "httpauth" {
		auth = "Proxy-Authorization: Basic " + base64.StdEncoding.EncodeToString([]byte("hu:hp")) + "\r\n"
	}
	gaps := []time.Duration{0, 249 * time.Millisecond, 251 * time.Millisecond, 300 * time.Millisecond, 2 * time.Second, 40 * time.Second}
	nreq := r.Pick(2, 3, 4)
	type sentReq struct {
		method, target string
		body           []byte
		size           int
	}
	var sent []sentReq
	var gapLog []string
	for i := 0; i < nreq; i++ {
		method := r.PickStr("GET", "POST", "PUT")
		size := r.Pick(0, 10, 5000, 70000)
		target := fmt.Sprintf("/k%d-%d/%d", ci, i, size)
		var body []byte
		if method != "GET" {
			body = core.Pattern(uint64(ci*10+i), 0, r.Pick(1, 100, 70000))
		}
		head := fmt.Sprintf("%s http://%s%s HTTP/1.1\r\nHost: %s\r\n%sX-Seq: %d\r\n", method, host, target, host, auth, i)
		if method != "GET" {
			head += fmt.Sprintf("Content-Length: %d\r\n", len(body))
		}
		head += "\r\n"
		// the gap before this request: the first request is sent at once, later ones after the connection sat idle
		gap := time.Duration(0)
		if i > 0 {
			gap = gaps[1+r.Intn(len(gaps)-1)]
		}
		adv(gap)
		if _, err := c.Write([]byte(head)); err != nil {
			viol("client_write_failed", "request %d: writing the request head failed: %v", i, err)
			return
		}
		bodyGap := time.Duration(0)
		if len(body) > 0 {
			// a late request body: the head is under way, the body follows after a pause
			if r.Chance(1, 2) {
				bodyGap = gaps[r.Intn(len(gaps)-1)]
				vtime.RealSleep(3 * time.Millisecond)
				adv(bodyGap)
			}
			if _, err := c.Write(body); err != nil {
				viol("client_write_failed", "request %d: writing the request body failed %v after the head: %v", i, bodyGap, err)
				return
			}
		}
		gapLog = append(gapLog, fmt.Sprintf("%v/%v", gap, bodyGap))
		sent = append(sent, sentReq{method, target, body, size})
		// the response: the relay may first sit out its initial-payload wait (virtual time)
		if !svx.Poll(400*time.Millisecond, func() bool { return nresp() > i }) {
			adv(300 * time.Millisecond)
			if !svx.Poll(30*time.Second, func() bool { return nresp() > i }) {
				rq, nc := org.snapshot()
				mu.Lock()
				re, rd := rerr, rdone
				mu.Unlock()
				viol("plain_http_exchange_stalled", "request %d (%s %s, body %d bytes) on a kept-alive proxy connection (idle for %v before it, body %v after the head) got no response; the origin has seen %d requests on %d connections; client reader done=%v err=%q", i, method, target, len(body), gap, bodyGap, len(rq), nc, rd, re)
				return
			}
		}
	}
	// verdict: every request reached the origin intact and in order, every response came back intact and in order
	rq, _ := org.snapshot()
	if len(rq) != len(sent) {
		viol("plain_http_request_count", "the client sent %d requests, the origin received %d", len(sent), len(rq))
		return
	}
	mu.Lock()
	rs := append([]got{}, resps...)
	mu.Unlock()
	for i, s := range sent {
		if rq[i].Method != s.method || rq[i].Target != s.target || !bytes.Equal(rq[i].Body, s.body) {
			viol("plain_http_request_altered", "request %d: sent %s %s with %d body bytes, the origin received %s %s with %d body bytes (first difference at %d)", i, s.method, s.target, len(s.body), rq[i].Method, rq[i].Target, len(rq[i].Body), core.FirstDiff(rq[i].Body, s.body))
			return
		}
		want := respBody(s.method, s.target, s.body, s.size)
		if rs[i].status != 200 || !bytes.Equal(rs[i].body, want) {
			viol("plain_http_response_altered", "response %d: status %d with %d body bytes, the origin sent 200 with %d (first difference at %d)", i, rs[i].status, len(rs[i].body), len(want), core.FirstDiff(rs[i].body, want))
			return
		}
	}
	// the client finishes: the proxy connection must end
	if tc, ok := c.(interface{ CloseWrite() error }); ok {
		tc.CloseWrite()
	}
	if !svx.Poll(2*time.Second, func() bool { mu.Lock(); defer mu.Unlock(); return rdone }) {
		adv(300 * time.Millisecond)
		if !svx.Poll(30*time.Second, func() bool { mu.Lock(); defer mu.Unlock(); return rdone }) {
			viol("plain_http_not_closed", "the client shut down its side after %d answered requests; the proxy connection stayed open", len(sent))
			return
		}
	}
	rec.Count("plain_http_requests", int64(len(sent)))
	late := false
	for _, g := range gapLog {
		if !strings.HasPrefix(g, "0s/0s") && !strings.HasPrefix(g, "249ms/0s") {
			late = true
		}
	}
	rec.Class("%s>%s/plain-http-keepalive/n=%d/after-wait=%v/nowait=%v", S, C, len(sent), late, noWait)
	if ci%7 == 0 {
		rec.Sample(4, map[string]any{"S": S, "C": C, "plain_http_gaps_before_request/before_body": gapLog})
	}
}
