// Package c13 monitors "the TCP relay connects clients to the routed
// destination and mirrors half-closes" on the real service manager over real
// loopback TCP, for server x client protocol pairs incl. chained proxies,
// initial-payload timings around the 250 ms wait (virtual clock), close orders
// and dial failures.
package c13

import (
	"bytes"
	"context"
	"encoding/json"
	"errors"
	"fmt"
	"io"
	"net"
	"net/http"
	"path/filepath"
	"strings"
	"sync"
	"time"

	"github.com/database64128/shadowsocks-go/conn"
	"github.com/database64128/shadowsocks-go/httpproxy"
	"github.com/database64128/shadowsocks-go/netio"
	"github.com/database64128/shadowsocks-go/socks5"

	"verif/core"
	"verif/svx"
	"verif/vtime"
)

func init() {
	core.Register("C13", "relay", runRelay)
	core.Register("C13", "relay-race", runRelay)
}

type scen struct {
	S, C      string
	Mode      string // target behaviour
	P0        int    // initial payload handed to DialStream
	FirstAt   string // when the first post-dial data is written: t0 | t249 | t251 | never
	Extra     []int  // further writes
	Fail      string // "" | refused | reject | nxdomain
	NoWait    bool   // disableInitialPayloadWait on the listener
	CloseLate bool   // keep the client's write side open until the target's data has arrived
	Domain    bool
}

var nativeClient = map[string]bool{"ss128": true, "ss256": true, "ssmulti": true, "none": true}
var nativeServer = map[string]bool{"ss128": true, "ss256": true, "ssmulti": true}

func (s *scen) waitMode() bool {
	return !nativeServer[s.S] && nativeClient[s.C] && !s.NoWait
}

// mustReport says whether the failure has to reach the client as the protocol's failure reply.
//   - the downstream protocol needs a reply channel (SOCKS5, HTTP CONNECT);
//   - a router rejection happens before any waiting or dialling: always reported;
//   - a chained upstream without a reply channel (SS2022, none) cannot tell the relay that ITS onward
//     connection failed: the relay's own dial succeeded, so the client is told success and then sees a close;
//   - in wait mode success was signalled before the onward dial.
func (s *scen) mustReport() bool {
	if !(strings.HasPrefix(s.S, "socks5") || strings.HasPrefix(s.S, "http")) {
		return false
	}
	if s.Fail == "reject" {
		return true
	}
	if s.Fail == "upstream-down" {
		return !s.waitMode() // the relay's own dial fails
	}
	if nativeClient[s.C] {
		return false
	}
	return !s.waitMode()
}

var (
	dnsOnce sync.Once
	fakeDNS *svx.FakeDNS
)

type clientSide struct {
	mu   sync.Mutex
	got  []byte
	eof  bool
	err  string
	done bool
}

func (c *clientSide) snap() ([]byte, bool, string, bool) {
	c.mu.Lock()
	defer c.mu.Unlock()
	return append([]byte{}, c.got...), c.eof, c.err, c.done
}

func runRelay(e *core.Env) {
	rec := e.Rec
	race := e.Part == "relay-race"
	rec.Rule("relay: one case = (server protocol S, routed client protocol C incl. direct and chained proxies, HTTP proxies also over TLS (HTTPS proxy with and without client certificate; certificate generated per case), target behaviour echo / banner-on-eof / speak-first / close-first / sink, initial payload 0/1/1440/1441/65536 handed to the dial, first data at virtual t in {0, 249 ms, 251 ms, never} relative to the 250 ms initial-payload wait, further writes, who half-closes first, dial failure refused / router reject / name-resolution failure, wait disabled or not, IP or domain target); for http servers additionally plain (non-CONNECT) requests on a kept-alive proxy connection: 2-4 GET/POST/PUT requests with bodies up to 70000 bytes, idle gaps of 0 / 249 ms / 251 ms / 300 ms / 2 s / 40 s before a request and between a request head and its body; class = (S, C, mode, payload class, timing, failure, wait mode)")
	dnsOnce.Do(func() { fakeDNS = svx.InstallFakeDNS() })
	protosS := []string{"socks5", "http", "ss128", "none", "socks5auth", "httpauth", "ss256", "ssmulti", "httptls", "httpmtls"}
	protosC := []string{"direct", "ss128", "none", "socks5", "http", "ss256", "ssmulti", "httptls"}
	type job struct{ S, C string }
	var jobs []job
	for _, s := range protosS {
		for _, c := range protosC {
			jobs = append(jobs, job{s, c})
		}
	}
	per := e.N(6, 60)
	if race {
		per = e.N(1, 8)
	}
	vtime.Freeze()
	stream := "c13." + e.Part
	core.Parallel(e, "relay", len(jobs), 1, func(i int) {
		j := jobs[i]
		r := core.NewRNG(e.Seed, stream, i)
		rec.Begin("relay", i, fmt.Sprintf("%+v", j))
		pairCase(e, i, r, j.S, j.C, per, race)
	})
}

// pairCase starts one topology for (S, C) and runs several scenarios through it.
func pairCase(e *core.Env, ci int, r *core.RNG, S, C string, per int, race bool) {
	rec := e.Rec
	ports := svx.FreePorts(5)
	t := &svx.Topo{Dir: filepath.Join(e.WorkDir, fmt.Sprintf("c13-%d", ci))}
	wait := ""
	if race {
		wait = "30ms" // real clock: keep the wait short
	}
	mk := func(noWait bool) (map[string]any, int) {
		so := svx.ServerOpts{TCP: true, DisableWait: noWait, WaitTimeout: wait}
		cfg := map[string]any{}
		if C == "direct" {
			cfg["servers"] = []any{t.Server("A", S, ports[0], so)}
			cfg["clients"] = []any{svx.Direct("direct")}
			cfg["router"] = map[string]any{"routes": []any{map[string]any{"name": "deny", "toDomains": []any{"rejected.test"}, "client": "reject"}}}
			return cfg, 1
		}
		cfg["servers"] = []any{t.Server("A", S, ports[0], so), t.Server("B", C, ports[1], svx.ServerOpts{TCP: true, WaitTimeout: wait})}
		cfg["clients"] = []any{t.ClientFor("up", "B", C, ports[1], 1, true, false), svx.Direct("direct")}
		cfg["router"] = map[string]any{"defaultTCPClientName": "direct", "defaultUDPClientName": "direct",
			"routes": []any{
				map[string]any{"name": "deny", "toDomains": []any{"rejected.test"}, "client": "reject"},
				map[string]any{"name": "a-up", "network": "tcp", "fromServers": []any{"A"}, "client": "up"}}}
		return cfg, 2
	}
	noWait := r.Chance(1, 4)
	cfg, nsrv := mk(noWait)
	var tlsTopo *svx.Topo
	if svx.UsesTLS(S) || svx.UsesTLS(C) {
		cfg["certs"] = t.Certs()
		tlsTopo = t
	}
	// sometimes the upstream proxy itself is down: the relay's own onward dial fails (also in wait mode)
	upDown := C != "direct" && r.Chance(1, 4)
	if upDown {
		cfg["servers"] = cfg["servers"].([]any)[:1]
		nsrv = 1
	}
	cfg["api"] = map[string]any{"enabled": true, "listeners": []any{map[string]any{"network": "tcp", "address": fmt.Sprintf("127.0.0.1:%d", ports[4])}}}
	inst, err := svx.Start(svx.JSON(cfg))
	if err != nil {
		rec.Inconclusive("setup: " + err.Error())
		rec.Note("setup %s>%s: %v", S, C, err)
		return
	}
	defer inst.Stop(20 * time.Second)
	if !inst.WaitLogs("Started TCP relay service listener", nsrv, 40*time.Second) {
		rec.Inconclusive("listeners")
		return
	}
	down, err := svx.NewClientTLS(svx.JSON(t.ClientFor("down", "A", S, ports[0], 0, true, false)), tlsTopo)
	if err != nil {
		rec.Inconclusive("client: " + err.Error())
		return
	}
	modes := []string{"echo", "banner-on-eof", "speak-first", "close-first", "sink", "banner-then-rst"}
	var expectUp, expectDown uint64
	var sessions uint64
	// failed onward connections of a chained proxy legitimately count the bytes handed to the upstream client, which
	// the harness cannot see: the statistics comparison is made on instances that ran success scenarios only
	withFailures := r.Bool() || (strings.HasPrefix(S, "socks5") && C == "direct" && !race)
	// (a direct upstream has no such hidden bytes: a refused, rejected or unresolvable onward connection relays nothing)
	statsOK := (!withFailures || C == "direct") && !upDown
	for k := 0; k < per; k++ {
		sc := &scen{S: S, C: C, NoWait: noWait}
		sc.Mode = modes[r.Intn(len(modes))]
		sc.P0 = r.Pick(0, 0, 1, 1440, 1441, 65536)
		if race {
			sc.P0 = r.Pick(0, 1, 1441)
		}
		sc.FirstAt = r.PickStr("t0", "t249", "t251", "never")
		for x := r.Intn(3); x > 0; x-- {
			sc.Extra = append(sc.Extra, r.Pick(1, 100, 4096, 70000))
		}
		sc.Fail = r.PickStr("", "", "", "", "refused", "reject", "nxdomain")
		if !withFailures {
			sc.Fail = ""
		}
		if strings.HasPrefix(S, "socks5") && C == "direct" && withFailures && k < 3 {
			// the one pairing whose reply codes are judged exactly: every failure kind is exercised on every run
			sc.Fail = []string{"refused", "reject", "nxdomain"}[k]
		}
		if upDown {
			sc.Fail = "upstream-down"
		}
		sc.Domain = r.Bool()
		sc.CloseLate = r.Bool()
		rec.Eval()
		up, dn, ok := scenario(e, ci, k, r, inst, down, sc, ports[3], race)
		if !ok {
			statsOK = false
		}
		if ok && sc.Fail == "" {
			expectUp += up
			expectDown += dn
			sessions++
		}
	}
	// ---- statistics: what the API reports equals what crossed the sockets ----
	if statsOK && sessions > 0 {
		var got struct {
			DownlinkBytes uint64 `json:"downlinkBytes"`
			UplinkBytes   uint64 `json:"uplinkBytes"`
			TCPSessions   uint64 `json:"tcpSessions"`
		}
		okStats := svx.Poll(20*time.Second, func() bool {
			resp, err := http.Get(fmt.Sprintf("http://127.0.0.1:%d/api/ssm/v1/servers/A/stats", ports[4]))
			if err != nil {
				return false
			}
			defer resp.Body.Close()
			b, _ := io.ReadAll(resp.Body)
			if json.Unmarshal(b, &got) != nil {
				return false
			}
			return got.UplinkBytes == expectUp && got.DownlinkBytes == expectDown && got.TCPSessions == sessions
		})
		if !okStats {
			rec.Violate("relay", ci, core.Sig("kind", "stats_mismatch", "part", e.Part, "S", S, "C", C), map[string]any{"want_up": expectUp, "want_down": expectDown, "want_sessions_at_least": sessions, "got": got, "logs": inst.LogLines(10)},
				"server A reports uplink %d / downlink %d bytes, %d sessions; the sockets carried uplink %d / downlink %d in %d successful sessions", got.UplinkBytes, got.DownlinkBytes, got.TCPSessions, expectUp, expectDown, sessions)
		} else {
			rec.Count("stats_compared", 1)
		}
	}
	// ---- plain (non-CONNECT) requests on a kept-alive proxy connection (after the statistics were compared) ----
	if strings.HasPrefix(S, "http") && !upDown {
		for k := 0; k < e.N(2, 6); k++ {
			plainHTTP(e, ci, r, inst, t, S, C, ports[0], ports[3], race, noWait)
		}
	}
}

func payloadClass(n int) string {
	switch {
	case n == 0:
		return "0"
	case n <= 1440:
		return "<=1440"
	case n == 1441:
		return "1441"
	default:
		return "64K"
	}
}

func scenario(e *core.Env, ci, k int, r *core.RNG, inst *svx.Instance, down *svx.Client, sc *scen, tport int, race bool) (up, dn uint64, ok bool) {
	rec := e.Rec
	viol := func(kind, format string, a ...any) {
		rec.Violate("relay", ci, core.Sig("kind", kind, "part", e.Part, "S", sc.S, "C", sc.C, "mode", sc.Mode, "fail", sc.Fail), map[string]any{"scenario": sc, "logs": inst.LogLines(14)}, format, a...)
	}
	banner := []byte(fmt.Sprintf("BANNER-%d-%d|", ci, k))
	banner = append(banner, core.Pattern(uint64(ci*1000+k), 0, r.Pick(1, 3000, 70000))...)
	var tg *svx.TCPTarget
	ip := "127.0.0.2"
	name := fmt.Sprintf("c13-%d-%d.test", ci, k)
	var target conn.Addr
	switch sc.Fail {
	case "upstream-down":
		target, _ = conn.ParseAddr(fmt.Sprintf("127.0.0.2:%d", tport))
	case "":
		var err error
		tg, err = svx.NewTCPTarget("T", ip, tport, sc.Mode, banner)
		if err == nil && sc.Mode == "banner-then-rst" {
			tg.Release = make(chan struct{})
		}
		if err != nil {
			rec.Inconclusive("target: " + err.Error())
			return 0, 0, false
		}
		defer tg.Close()
		fakeDNS.Set(name, ip)
		if sc.Domain {
			target = conn.MustAddrFromDomainPort(name, uint16(tport))
		} else {
			target = conn.AddrFromIPPort(tg.Addr)
		}
	case "refused":
		target = conn.MustAddrFromDomainPort("127.0.0.3", uint16(tport)) // nothing listens there
		target, _ = conn.ParseAddr(fmt.Sprintf("127.0.0.3:%d", tport))
	case "reject":
		target = conn.MustAddrFromDomainPort("rejected.test", 80)
	case "nxdomain":
		target = conn.MustAddrFromDomainPort(fmt.Sprintf("nx-%d-%d.test", ci, k), 80)
	}
	// ---- client ----
	sent := core.Pattern(uint64(ci)<<16|uint64(k), 0, sc.P0)
	cc, derr := down.TCP.DialStream(context.Background(), target, sent)
	cs := &clientSide{}
	wm := sc.waitMode()
	if derr != nil {
		// a failure reply
		if sc.Fail == "" {
			viol("dial_failed", "dial through the relay failed although the target listens: %v", derr)
			return 0, 0, false
		}
		if nativeServer[sc.S] || sc.S == "none" {
			// these protocols have no reply channel: the dial itself cannot fail this way
			viol("unexpected_dial_error", "dial error from a protocol without a failure reply: %v", derr)
			return 0, 0, false
		}
		if wm && sc.Fail != "reject" {
			// only a protocol failure REPLY contradicts "success had to be signalled first". A transport error while
			// the dial was still writing its initial payload (the relay, told success, found the onward connection
			// failing and closed; with TLS a 64 KiB payload is several records) is the close the statement expects.
			var re socks5.ReplyError
			var he httpproxy.ConnectNonSuccessfulResponseError
			if errors.As(derr, &re) || errors.As(derr, &he) {
				viol("failure_reply_after_wait", "a failure reply arrived although success had to be signalled first to collect the initial payload: %v", derr)
				return 0, 0, false
			}
			rec.Class("%s>%s/fail=%s/closed-during-dial/wait=%v", sc.S, sc.C, sc.Fail, wm)
			return 0, 0, true
		}
		// reply code (exact mapping is judged for direct upstream only; a chained proxy reports what it was told)
		if strings.HasPrefix(sc.S, "socks5") && sc.C == "direct" {
			var re socks5.ReplyError
			want := map[string]byte{"refused": socks5.ReplyConnectionRefused, "reject": socks5.ReplyConnectionNotAllowedByRuleset, "nxdomain": socks5.ReplyGeneralSocksServerFailure}[sc.Fail]
			if errors.As(derr, &re) {
				if sc.Fail != "nxdomain" && byte(re) != want {
					viol("wrong_failure_reply", "SOCKS5 reply %d for a %s failure, want %d", byte(re), sc.Fail, want)
					return 0, 0, false
				}
			} else {
				viol("wrong_failure_reply", "SOCKS5 client error is not a reply error: %v", derr)
				return 0, 0, false
			}
		}
		rec.Class("%s>%s/fail=%s/reply/wait=%v", sc.S, sc.C, sc.Fail, wm)
		return 0, 0, true
	}
	defer cc.Close()
	go func() {
		b := make([]byte, 65536)
		for {
			n, err := cc.Read(b)
			cs.mu.Lock()
			cs.got = append(cs.got, b[:n]...)
			if err != nil {
				if err == io.EOF {
					cs.eof = true
				} else {
					cs.err = err.Error()
				}
				cs.done = true
				cs.mu.Unlock()
				return
			}
			cs.mu.Unlock()
		}
	}()
	adv := func(d time.Duration) {
		if race {
			time.Sleep(d / 8) // 30 ms wait configured: 249 ms -> ~31 ms etc. (only ordering matters under the real clock)
		} else {
			vtime.Advance(d)
		}
	}
	if sc.Fail != "" {
		// no failure reply was received: legitimate only for protocols without a reply channel or in wait mode.
		if sc.mustReport() {
			viol("failure_not_reported", "the onward connection must fail (%s) but the client was told success", sc.Fail)
			return 0, 0, false
		}
		// the relay may be waiting for the initial payload: let the wait elapse / send something
		if r.Bool() {
			cc.Write([]byte("x"))
		}
		adv(300 * time.Millisecond)
		if !svx.Poll(30*time.Second, func() bool { _, _, _, d := cs.snap(); return d }) {
			viol("failed_connection_left_open", "the onward connection failed (%s) but the client connection was not closed", sc.Fail)
			return 0, 0, false
		}
		got, _, _, _ := cs.snap()
		if len(got) != 0 {
			viol("stray_bytes_after_failure", "after a failed onward connection (%s) the client received %d unexpected bytes: %s", sc.Fail, len(got), core.Hex(got, 24))
			return 0, 0, false
		}
		rec.Class("%s>%s/fail=%s/closed/wait=%v", sc.S, sc.C, sc.Fail, wm)
		return 0, 0, true
	}
	// ---- success path: timing of the first data ----
	off := sc.P0
	write := func(n int) bool {
		b := core.Pattern(uint64(ci)<<16|uint64(k), off, n)
		off += n
		sent = append(sent, b...)
		if _, err := cc.Write(b); err != nil {
			viol("client_write_failed", "client write failed: %v", err)
			return false
		}
		return true
	}
	switch sc.FirstAt {
	case "t0":
		if !write(r.Pick(1, 100, 1441)) {
			return 0, 0, false
		}
	case "t249":
		adv(249 * time.Millisecond)
		if !write(r.Pick(1, 100, 1441)) {
			return 0, 0, false
		}
	case "t251":
		adv(251 * time.Millisecond)
		if !write(r.Pick(1, 100, 1441)) {
			return 0, 0, false
		}
	case "never":
		if r.Bool() {
			adv(300 * time.Millisecond)
		}
	}
	for _, n := range sc.Extra {
		if !write(n) {
			return 0, 0, false
		}
	}
	// what the client must receive
	var want []byte
	switch sc.Mode {
	case "echo":
		want = sent
	case "banner-on-eof", "close-first", "banner-then-rst":
		want = banner
	case "speak-first":
		want = append(append([]byte{}, banner...), sent...)
	}
	if sc.CloseLate && (sc.Mode == "speak-first" || sc.Mode == "close-first" || sc.Mode == "echo") {
		// the target's data must flow while the client's write side is still open
		pre := want
		if !svx.Poll(30*time.Second, func() bool { g, _, _, _ := cs.snap(); return len(g) >= len(pre) }) {
			g, _, _, _ := cs.snap()
			if sc.FirstAt == "never" && len(sent) == 0 && !race {
				// nothing was ever sent: the relay is still inside the initial-payload wait; let it elapse
				adv(300 * time.Millisecond)
			}
			if !svx.Poll(30*time.Second, func() bool { g, _, _, _ := cs.snap(); return len(g) >= len(pre) }) {
				viol("downstream_stalled", "target -> client data did not arrive while the client's write side was open (%d of %d bytes)", len(g), len(pre))
				return 0, 0, false
			}
		}
	}
	cc.(netio.Conn).CloseWrite()
	if sc.FirstAt == "never" && len(sent) == 0 && !race {
		adv(300 * time.Millisecond) // the wait may still be pending when the client half-closes without data
	}
	if sc.Mode == "banner-then-rst" {
		// the target answers after the client's EOF; once the client holds the whole answer the target aborts (RST)
		svx.Poll(30*time.Second, func() bool { g, _, _, _ := cs.snap(); return len(g) >= len(want) })
		close(tg.Release)
	}
	// ---- wait for both ends to finish ----
	fin := svx.Poll(40*time.Second, func() bool {
		_, _, _, d := cs.snap()
		if !d {
			return false
		}
		ss := tg.Sessions()
		if len(ss) == 0 {
			return false
		}
		_, _, _, td := ss[len(ss)-1].Snapshot()
		return td
	})
	got, ceof, cerr, cdone := cs.snap()
	ss := tg.Sessions()
	if !fin {
		if len(ss) == 0 {
			viol("target_never_connected", "the relay never connected to the target (client received %d bytes, done=%v)", len(got), cdone)
		} else {
			trecv, teof, terr, tdone := ss[len(ss)-1].Snapshot()
			viol("exchange_did_not_finish", "exchange did not finish: client done=%v (got %d bytes, err %q), target done=%v eof=%v err=%q received %d of %d bytes", cdone, len(got), cerr, tdone, teof, terr, len(trecv), len(sent))
		}
		return 0, 0, false
	}
	if len(ss) != 1 {
		viol("connection_count", "the target accepted %d connections for one client connection", len(ss))
		return 0, 0, false
	}
	trecv, teof, terr, _ := ss[0].Snapshot()
	if x := core.FirstDiff(trecv, sent); x >= 0 {
		viol("c2t_stream_mismatch", "target received %d bytes, client sent %d (first difference at %d; initial payload %d bytes)", len(trecv), len(sent), x, sc.P0)
		return 0, 0, false
	}
	if !teof || terr != "" {
		viol("half_close_not_mirrored", "the client's write shutdown reached the target as eof=%v err=%q", teof, terr)
		return 0, 0, false
	}
	if x := core.FirstDiff(got, want); x >= 0 {
		viol("t2c_stream_mismatch", "client received %d bytes, target sent %d (first difference at %d)", len(got), len(want), x)
		return 0, 0, false
	}
	if (!ceof || cerr != "") && sc.Mode != "banner-then-rst" {
		viol("half_close_not_mirrored", "the target's write shutdown reached the client as eof=%v err=%q", ceof, cerr)
		return 0, 0, false
	}
	rec.Count("bytes_c2t", int64(len(sent)))
	rec.Count("bytes_t2c", int64(len(want)))
	rec.Class("%s>%s/%s/p0=%s/%s/extra=%d/late=%v/wait=%v/domain=%v", sc.S, sc.C, sc.Mode, payloadClass(sc.P0), sc.FirstAt, len(sc.Extra), sc.CloseLate, wm, sc.Domain)
	if (ci+k)%40 == 0 {
		rec.Sample(8, sc)
	}
	_ = bytes.Equal
	_ = net.IPv4len
	return uint64(len(sent)), uint64(len(want)), true
}
