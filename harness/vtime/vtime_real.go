//go:build !faketime

// Package vtime: in non-faketime builds time is real; Advance sleeps.
package vtime

import "time"

// Virtual reports that time is virtual.
const Virtual = false

func Freeze()                   {}
func Advance(d time.Duration)   { time.Sleep(d) }
func RealSleep(d time.Duration) { time.Sleep(d) }
func Now() time.Time            { return time.Now() }
