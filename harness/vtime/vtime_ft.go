//go:build faketime

// Package vtime controls the process-wide virtual clock of the faketime build.
// The runtime advances the fake clock only when every goroutine is idle. A
// guard goroutine spinning in user code keeps the process "busy",
// which freezes the clock while real socket I/O completes; Advance opens the
// gate for a bounded jump.
package vtime

import (
	"runtime"
	"sync"
	"sync/atomic"
	"syscall"
	"time"
)

// Virtual reports that time is virtual.
const Virtual = true

var (
	mu      sync.Mutex
	running atomic.Bool
	stopped chan struct{}
)

// guard keeps one M busy in user code (yielding at every iteration), so that the runtime never finds the
// process idle and never jumps the fake clock. It must not sit in a raw syscall: with a frozen fake clock
// sysmon never retakes a P from a syscall and a GC cycle (forEachP) would wait for it forever.
func guard(done chan struct{}) {
	for running.Load() {
		runtime.Gosched()
	}
	close(done)
}

// Freeze stops the virtual clock (idempotent). It is the default state while traffic flows.
func Freeze() {
	mu.Lock()
	defer mu.Unlock()
	if running.Load() {
		return
	}
	running.Store(true)
	stopped = make(chan struct{})
	go guard(stopped)
}

func thaw() {
	if !running.Load() {
		return
	}
	running.Store(false)
	<-stopped
}

// Advance lets exactly d of virtual time pass (timers due within d fire in order), then freezes again.
func Advance(d time.Duration) {
	mu.Lock()
	thaw()
	mu.Unlock()
	time.Sleep(d)
	Freeze()
}

// RealSleep waits d of REAL time without touching the virtual clock (the caller sits in a raw syscall).
func RealSleep(d time.Duration) {
	ts := syscall.NsecToTimespec(int64(d))
	syscall.Nanosleep(&ts, nil)
}

// Now is the virtual time.
func Now() time.Time { return time.Now() }
