// Package c01 monitors "the Shadowsocks 2022 TCP tunnel delivers the exact
// byte stream both ways" by driving the real StreamClient against the real
// StreamServer over a re-segmenting transport and comparing what each side
// read with the concatenation of what the other side wrote.
package c01

import (
	"bytes"
	"context"
	"errors"
	"fmt"
	"io"
	"net/netip"
	"strings"
	"sync"
	"time"

	"github.com/database64128/shadowsocks-go/conn"
	"github.com/database64128/shadowsocks-go/netio"
	"github.com/database64128/shadowsocks-go/socks5"

	"verif/core"
	"verif/forge"
	"verif/netsim"
	"verif/ssx"
)

func init() {
	core.Register("C01", "tunnel", runTunnel)
	core.Register("C01", "tunnel-race", runTunnel)
}

type caseDesc struct {
	KeySize    int    `json:"keysize"`
	Users      int    `json:"users"`
	Hops       int    `json:"relay_hops"`
	ReqPrefix  int    `json:"req_prefix"`
	RespPrefix int    `json:"resp_prefix"`
	SegSrv     bool   `json:"server_allows_segmented"`
	SegCli     bool   `json:"client_allows_segmented"`
	Target     string `json:"target"`
	PayloadLen int    `json:"initial_payload"`
	CWrites    []int  `json:"client_writes"`
	SWrites    []int  `json:"server_writes"`
	CPath      string `json:"client_write_path"`
	SPath      string `json:"server_write_path"`
	CRead      string `json:"client_read_path"`
	SRead      string `json:"server_read_path"`
	CBuf       []int  `json:"client_read_bufs"`
	SBuf       []int  `json:"server_read_bufs"`
	SegC2S     string `json:"seg_c2s"`
	SegS2C     string `json:"seg_s2c"`
	Chain      bool   `json:"tunnel_to_tunnel"`
	// Window: read buffers are short windows of a much larger slice (len << cap), as a parser reusing one big
	// buffer passes them; the bytes behind the window are a canary.
	Window bool `json:"read_bufs_are_windows,omitempty"`
	// PeekUp / PeekDown: the tunnel-to-tunnel relay first reads that many bytes itself (and forwards them) before it
	// hands both directions to BidirectionalCopy.
	PeekUp   int `json:"relay_peeks_uplink,omitempty"`
	PeekDown int `json:"relay_peeks_downlink,omitempty"`
	// PeekDownConsume: the relay keeps the peeked downlink bytes for itself (a preamble it strips) instead of
	// forwarding them; the client must then receive the stream without them.
	PeekDownConsume bool `json:"relay_consumes_downlink_peek,omitempty"`
	// RelayBanner: before it starts copying, the relay itself writes that many bytes to the client (a greeting, a
	// "connection established" line): the downstream server conn has already written when the typed copy begins.
	RelayBanner int `json:"relay_banner,omitempty"`
}

var writeSizes = []int{1, 2, 15, 16, 17, 4095, 4096, 65534, 65535, 65536, 65537, 131071}
var readSizes = []int{1, 2, 17, 18, 19, 4096, 65535 + 15, 65535 + 16, 65535 + 17, 128 << 10}

func pickTarget(r *core.RNG) conn.Addr {
	switch r.Intn(6) {
	case 0:
		return conn.AddrFromIPAndPort(netip.AddrFrom4([4]byte{203, 0, 113, byte(r.Intn(256))}), uint16(r.Pick(0, 1, 80, 443, 65535)))
	case 1:
		return conn.AddrFromIPAndPort(netip.AddrFrom16(netip.AddrFrom4([4]byte{198, 51, 100, 7}).As16()), 443) // IPv4-mapped
	case 2:
		a := [16]byte{0x20, 1, 0xd, 0xb8}
		a[15] = byte(r.Intn(256))
		return conn.AddrFromIPAndPort(netip.AddrFrom16(a), uint16(r.Intn(65536)))
	default:
		n := r.Pick(1, 64, 255, r.Range(1, 255))
		return conn.MustAddrFromDomainPort(strings.Repeat("a", n-1)+string(rune('a'+r.Intn(26))), uint16(r.Pick(0, 53, 443, 65535)))
	}
}

func sameTarget(got, want conn.Addr) bool {
	if want.IsIP() {
		if !got.IsIP() {
			return false
		}
		g, w := got.IPPort(), want.IPPort()
		return g.Port() == w.Port() && g.Addr().Unmap() == w.Addr().Unmap()
	}
	return got.Equals(want)
}

func segPlan(r *core.RNG, first int) (func() netsim.SegPlan, string) {
	kind := r.Intn(7)
	var sizes []int
	name := ""
	loop := true
	switch kind {
	case 0:
		name, sizes = "1-byte", []int{1}
	case 1:
		name, sizes = "2-byte", []int{2}
	case 2:
		name, sizes = "17..19", []int{17, 18, 19}
	case 3:
		name = "<=1500 random"
		for k := 0; k < 64; k++ {
			sizes = append(sizes, r.Range(1, 1500))
		}
	case 4:
		name = "<=64KiB random"
		for k := 0; k < 64; k++ {
			sizes = append(sizes, r.Range(1, 65536))
		}
	case 5:
		name, sizes = "whole", nil
	default:
		name = "mixed"
		for k := 0; k < 64; k++ {
			sizes = append(sizes, r.Pick(1, 2, 16, 17, 18, 19, 34, 35, 1448, 65535+16, 65535+34))
		}
	}
	if first > 0 && sizes != nil {
		// the first segment carries at least the fixed-length header when the reader insists on one read
		sizes = append([]int{max(first, sizes[0])}, sizes...)
		loop = false
		// after the prefix continue cycling the tail: emulate by repeating the tail many times
		tail := sizes[1:]
		for k := 0; k < 40 && len(sizes) < 4096; k++ {
			sizes = append(sizes, tail...)
		}
		name += "(first>=hdr)"
	}
	ss := sizes
	return func() netsim.SegPlan { return netsim.FixedPlan(loop, ss...) }, name
}

func genCase(e *core.Env, r *core.RNG) caseDesc {
	d := caseDesc{}
	d.KeySize = r.Pick(16, 32)
	d.Users = r.Pick(0, 0, 2, 3)
	d.Hops = r.Pick(0, 0, 0, 1, 2)
	if d.Users > 0 && d.Hops > 2 {
		d.Hops = 2
	}
	big := 70 << 10
	d.ReqPrefix = r.Pick(0, 0, 0, r.Range(1, 32), r.Range(1, 32))
	d.RespPrefix = r.Pick(0, 0, 0, r.Range(1, 32), r.Range(1, 32))
	if r.Chance(1, 25) {
		d.ReqPrefix = big
	}
	if r.Chance(1, 25) {
		d.RespPrefix = big
	}
	d.SegSrv, d.SegCli = r.Bool(), r.Bool()
	d.Chain = r.Chance(1, 6)
	huge := !e.Quick() || r.Chance(1, 40)
	plens := []int{0, 1, 2, 899, 900, 901, -3, -2, -1, 65534, 65535, 65536, 2*65535 - 1, 2 * 65535, 2*65535 + 1}
	d.PayloadLen = plens[r.Intn(len(plens))]
	if r.Chance(1, 4) {
		d.PayloadLen = r.Range(0, 3000)
	}
	if huge && r.Chance(1, 10) {
		d.PayloadLen = 1 << 20
	}
	nw := r.Range(0, 5)
	for k := 0; k < nw; k++ {
		s := writeSizes[r.Intn(len(writeSizes))]
		if r.Bool() {
			s = r.Range(1, 5000)
		}
		d.CWrites = append(d.CWrites, s)
	}
	nw = r.Range(0, 5)
	for k := 0; k < nw; k++ {
		s := writeSizes[r.Intn(len(writeSizes))]
		if r.Bool() {
			s = r.Range(1, 5000)
		}
		d.SWrites = append(d.SWrites, s)
	}
	d.CPath = r.PickStr("write", "write", "readfrom", "mixed")
	d.SPath = r.PickStr("write", "write", "readfrom", "mixed")
	d.CRead = r.PickStr("read", "read", "writeto", "read+writeto")
	d.SRead = r.PickStr("read", "read", "writeto", "read+writeto")
	nb := r.Range(1, 4)
	for k := 0; k < nb; k++ {
		d.CBuf = append(d.CBuf, readSizes[r.Intn(len(readSizes))])
		d.SBuf = append(d.SBuf, readSizes[r.Intn(len(readSizes))])
	}
	if r.Chance(1, 5) {
		d.CBuf = []int{r.Range(1, 70000)}
		d.SBuf = []int{r.Range(1, 70000)}
	}
	// (drawn from a separate stream so that the cases above stay what they were)
	x := core.NewRNG(int64(r.Uint64()>>1), "c01.extra", 0)
	d.Window = x.Bool()
	if d.Chain {
		if len(d.CWrites) > 0 && x.Bool() {
			d.PeekUp = x.Pick(1, 10, 100, 5000)
		}
		if len(d.SWrites) > 0 && x.Bool() {
			d.PeekDown = x.Pick(1, 10, 100, 5000)
			if x.Bool() && d.SWrites[0] <= 65535 {
				d.PeekDown = d.SWrites[0] // exactly the first chunk
			}
			d.PeekDownConsume = x.Chance(1, 3)
		}
		if x.Chance(1, 3) {
			d.RelayBanner = x.Pick(1, 39, 1000, 70000)
		}
	}
	return d
}

type side struct {
	got    []byte
	eof    bool
	err    error
	wErr   error
	nReads int
	nZero  int
	window bool
	back   []byte
}

// mkBuf returns a read buffer of n bytes; in window mode it is the front of one reused slice whose capacity exceeds
// every threshold of the implementation, and check reports whether anything was written just behind the window.
func (sd *side) mkBuf(n int) (b []byte, check func() bool) {
	if !sd.window {
		return make([]byte, n), func() bool { return true }
	}
	if cap(sd.back) < n+70000 {
		sd.back = make([]byte, n+70000)
	}
	back := sd.back[:cap(sd.back)]
	guard := back[n : n+64]
	for i := range guard {
		guard[i] = 0xC7
	}
	return back[:n], func() bool {
		for _, x := range guard {
			if x != 0xC7 {
				return false
			}
		}
		return true
	}
}

// readAll drains c along the given path.
func readAll(c netio.Conn, path string, bufs []int, sd *side) {
	switch path {
	case "writeto", "read+writeto":
		if path == "read+writeto" {
			b, intact := sd.mkBuf(min(bufs[0], 4096))
			n, err := c.Read(b)
			sd.nReads++
			if n > len(b) || n < 0 || !intact() {
				sd.err = fmt.Errorf("Read returned n=%d for a buffer of %d (bytes behind the buffer intact: %v)", n, len(b), intact())
				return
			}
			sd.got = append(sd.got, b[:n]...)
			if err != nil {
				if err == io.EOF {
					sd.eof = true
				} else {
					sd.err = err
				}
				return
			}
		}
		w := &netsim.RecWriter{}
		_, err := c.(io.WriterTo).WriteTo(w)
		sd.got = append(sd.got, w.Data...)
		sd.nReads += w.N
		if err != nil {
			sd.err = err
		} else {
			sd.eof = true // WriteTo returns nil at EOF
		}
	default:
		k := 0
		for {
			b, intact := sd.mkBuf(bufs[k%len(bufs)])
			k++
			n, err := c.Read(b)
			sd.nReads++
			if n > len(b) || n < 0 || !intact() {
				sd.err = fmt.Errorf("Read returned n=%d for a buffer of %d (bytes behind the buffer intact: %v)", n, len(b), intact())
				return
			}
			if n == 0 && err == nil {
				sd.nZero++
				if sd.nZero > 8 {
					sd.err = errors.New("Read keeps returning (0, nil)")
					return
				}
			}
			sd.got = append(sd.got, b[:n]...)
			if err != nil {
				if err == io.EOF {
					sd.eof = true
					// end-of-stream is final: whoever reads again (small or large buffer) gets nothing more
					for _, size := range []int{17, 70000, 1} {
						lb := make([]byte, size)
						if ln, lerr := c.Read(lb); ln != 0 || lerr == nil {
							sd.err = fmt.Errorf("after end-of-stream had been reported a further Read returned n=%d err=%v", ln, lerr)
							sd.eof = false
							return
						}
					}
				} else {
					sd.err = err
				}
				return
			}
		}
	}
}

// writeAll writes the chunks along the given path and then closes the write side.
func writeAll(c netio.Conn, path string, tag uint64, off int, sizes []int, r *core.RNG) error {
	total := 0
	for _, s := range sizes {
		total += s
	}
	data := core.Pattern(tag, off, total)
	switch path {
	case "readfrom":
		if total > 0 || r.Bool() {
			sr := &netsim.ScriptReader{Data: data, Sizes: sizes, EOFWith: r.Bool()}
			if _, err := c.(io.ReaderFrom).ReadFrom(sr); err != nil {
				return err
			}
		}
	case "mixed":
		o := 0
		for k, s := range sizes {
			if k%2 == 0 {
				if _, err := c.Write(data[o : o+s]); err != nil {
					return err
				}
			} else {
				sr := &netsim.ScriptReader{Data: data[o : o+s], Sizes: []int{max(1, s/3)}, EOFWith: k%4 == 1}
				if _, err := c.(io.ReaderFrom).ReadFrom(sr); err != nil {
					return err
				}
			}
			o += s
		}
	default:
		o := 0
		for _, s := range sizes {
			n, err := c.Write(data[o : o+s])
			if err != nil {
				return err
			}
			if n != s {
				return fmt.Errorf("Write(%d) returned %d without error", s, n)
			}
			o += s
		}
	}
	return c.CloseWrite()
}

func sum(xs []int) int {
	t := 0
	for _, x := range xs {
		t += x
	}
	return t
}

func runTunnel(e *core.Env) {
	rec := e.Rec
	rec.Rule("tunnel: one case = (key size, users, relay hops, prefixes, segmented-header flags, target kind, initial payload length from the boundary set, per-direction write sizes, read-buffer sizes, copy path per side, transport segmentation per direction, optional second tunnel for tunnel-to-tunnel re-encryption); class = (eih depth, prefix class, payload class, copy paths, segmentation kinds, chain); counted only if both directions carried >=1 byte or a boundary payload and both EOFs were observed")
	n := e.N(3000, 150000)
	stream := "c01.tunnel"
	if e.Part == "tunnel-race" {
		// same generator, different stream, fewer cases: the race detector costs ~10x on bulk copies
		n = e.N(120, 4000)
		stream = "c01.tunnel.race"
	}
	core.Parallel(e, "tunnel", n, 16, func(i int) {
		r := core.NewRNG(e.Seed, stream, i)
		d := genCase(e, r)
		rec.Begin("tunnel", i, fmt.Sprintf("%+v", d))
		// Each case runs in a synctest bubble: the 30 s timestamp windows of the protocol are measured on the bubble's
		// clock, which stands still while the case runs, so a loaded machine cannot age a request or response; and a
		// case whose goroutines all end up blocked for good is a decidable outcome instead of a wall-clock timeout.
		dead := ""
		done := core.Watchdog(10*time.Minute, func() {
			dead = core.Bubble(e, func() { tunnelCase(e, i, r, &d) })
		})
		if !done {
			rec.Inconclusive("watchdog")
		}
		if dead != "" {
			rec.Violate("tunnel", i, core.Sig("kind", "transfer_blocked_for_good", "part", e.Part), d, "case %d: every goroutine of the transfer is blocked for good (a side waits for bytes that were written, or for an end-of-stream that was sent): %s", i, dead)
		}
		rec.Eval()
	})
}

func payloadClass(n, room int) string {
	switch {
	case n == 0:
		return "0"
	case n < 899:
		return "<899"
	case n <= 901:
		return "~900"
	case n < room-1:
		return "<room"
	case n <= room+1:
		return "~room"
	case n <= 65536:
		return "~65535"
	case n < 1<<20:
		return "multi"
	default:
		return "1MiB"
	}
}

func prefixClass(n int) string {
	switch {
	case n == 0:
		return "none"
	case n < 1024:
		return "short"
	default:
		return ">64K"
	}
}

type tunnelEnd struct {
	cfg   *ssx.Cfg
	inner *ssx.Inner
	hops  [][]byte
	ui    int
}

func mkTunnel(r *core.RNG, d *caseDesc, tag string, firstC2S, firstS2C *int) (*tunnelEnd, string, string) {
	cfg := ssx.NewCfg(d.KeySize, d.Users, tag)
	cfg.UDP = false
	cfg.AllowSegmented = d.SegSrv
	if d.ReqPrefix > 0 {
		cfg.ReqPrefix = core.Pattern(77, 0, d.ReqPrefix)
	}
	if d.RespPrefix > 0 {
		cfg.RespPrefix = core.Pattern(78, 0, d.RespPrefix)
	}
	t := &tunnelEnd{cfg: cfg}
	for h := 0; h < d.Hops; h++ {
		t.hops = append(t.hops, forge.Key(d.KeySize, fmt.Sprintf("%s/hop%d", tag, h)))
	}
	if d.Users > 0 {
		t.ui = r.Intn(d.Users)
	}
	// header sizes the first segment must cover when a side insists on a single read
	eih := 0
	if d.Users > 0 {
		eih = 16
	}
	reqHdr := d.ReqPrefix + d.KeySize + eih + 11 + 16
	respHdr := d.RespPrefix + d.KeySize + 1 + 8 + d.KeySize + 2 + 16
	f1, f2 := 0, 0
	if !d.SegSrv {
		f1 = reqHdr
	}
	if !d.SegCli {
		f2 = respHdr
	}
	*firstC2S, *firstS2C = f1, f2
	p1, n1 := segPlan(r, f1)
	p2, n2 := segPlan(r, f2)
	t.inner = &ssx.Inner{PlanC2S: p1, PlanS2C: p2}
	return t, n1, n2
}

func tunnelCase(e *core.Env, ci int, r *core.RNG, d *caseDesc) {
	rec := e.Rec
	var f1, f2 int
	t1, n1, n2 := mkTunnel(r, d, fmt.Sprintf("c01/%d", ci%5), &f1, &f2)
	d.SegC2S, d.SegS2C = n1, n2
	target := pickTarget(r)
	d.Target = target.String()
	addrLen := socks5.LengthOfAddrFromConnAddr(target)
	room := 65535 - addrLen - 2
	if d.PayloadLen < 0 {
		d.PayloadLen = room + 2 + d.PayloadLen // -3,-2,-1 => room-1, room, room+1
	}
	const tagC, tagS = 0xC11E, 0x5E44
	P := core.Pattern(tagC, 0, d.PayloadLen)
	viol := func(kind string, format string, a ...any) {
		rec.Violate("tunnel", ci, core.Sig("kind", kind, "part", "tunnel", "cpath", d.CRead, "spath", d.SRead, "chain", fmt.Sprint(d.Chain)), d, format, a...)
	}

	var (
		wg           sync.WaitGroup
		srv, cli     side
		consumedDown int
		reqAddr      conn.Addr
		reqUser      string
		reqPay       []byte
		handleErr    error
		srvWErr      error
	)
	srv.window, cli.window = d.Window, d.Window
	server1 := t1.cfg.StreamServer()
	rS, rC := r2(r, 1), r2(r, 2)
	var emu sync.Mutex
	setErr := func(err error) {
		emu.Lock()
		if handleErr == nil {
			handleErr = err
		}
		emu.Unlock()
	}

	// optional second tunnel: server1's handler relays into client2 -> server2 whose handler is the final endpoint
	var t2 *tunnelEnd
	if d.Chain {
		var g1, g2 int
		d2 := *d
		d2.SegSrv, d2.SegCli = true, true
		d2.ReqPrefix, d2.RespPrefix = 0, 0
		d2.Hops = 0
		t2, _, _ = mkTunnel(r, &d2, fmt.Sprintf("c01b/%d", ci%5), &g1, &g2)
		t2.cfg.AllowSegmented = true
	}

	finalHandler := func(req netio.ConnRequest, label string) {
		reqAddr, reqUser = req.Addr, req.Username
		reqPay = append([]byte{}, req.Payload...) // aliases the server's write buffer: copy before the first write
		sc, err := req.Proceed()
		if err != nil {
			setErr(err)
			return
		}
		var w2 sync.WaitGroup
		w2.Add(1)
		go func() {
			defer w2.Done()
			srvWErr = writeAll(sc, d.SPath, tagS, 0, d.SWrites, rS)
			if srvWErr != nil {
				sc.Close()
			}
		}()
		readAll(sc, d.SRead, d.SBuf, &srv)
		if srv.err != nil {
			sc.Close()
		}
		w2.Wait()
	}

	t1.inner.OnAccept = func(sEnd *netsim.BufConn) {
		wg.Add(1)
		go func() {
			defer wg.Done()
			req, err := server1.HandleStream(sEnd, ssx.Nop)
			if err != nil {
				setErr(err)
				sEnd.Close()
				return
			}
			if !d.Chain {
				finalHandler(req, "s1")
				return
			}
			// relay: dial the second tunnel with the same target and payload, then copy both ways
			relayAddr, relayPay := req.Addr, append([]byte{}, req.Payload...)
			sc1, err := req.Proceed()
			if err != nil {
				setErr(err)
				return
			}
			server2 := t2.cfg.StreamServer()
			t2.inner.OnAccept = func(sEnd2 *netsim.BufConn) {
				wg.Add(1)
				go func() {
					defer wg.Done()
					req2, err := server2.HandleStream(sEnd2, ssx.Nop)
					if err != nil {
						setErr(fmt.Errorf("second tunnel: %w", err))
						sEnd2.Close()
						return
					}
					finalHandler(req2, "s2")
				}()
			}
			client2 := t2.cfg.StreamClient(t2.ui, t2.inner, true)
			cc2, err := client2.DialStream(context.Background(), relayAddr, relayPay)
			if err != nil {
				setErr(fmt.Errorf("second tunnel dial: %w", err))
				sc1.Close()
				return
			}
			// a relay that looks at the first bytes itself before it starts copying
			peek := func(from, to netio.Conn, n int, what string) bool {
				if n == 0 {
					return true
				}
				b := make([]byte, n)
				k, err := from.Read(b)
				if what == "downlink" && d.PeekDownConsume {
					consumedDown = k
					k = 0
				}
				if k > 0 {
					if _, werr := to.Write(b[:k]); werr != nil {
						setErr(fmt.Errorf("relay %s peek forward: %w", what, werr))
						return false
					}
				}
				if err != nil && err != io.EOF {
					setErr(fmt.Errorf("relay %s peek: %w", what, err))
					return false
				}
				return true
			}
			if d.RelayBanner > 0 {
				if _, werr := sc1.Write(core.Pattern(tagS+7, 0, d.RelayBanner)); werr != nil {
					setErr(fmt.Errorf("relay banner: %w", werr))
					sc1.Close()
					cc2.Close()
					return
				}
			}
			if !peek(sc1, cc2, d.PeekUp, "uplink") || !peek(cc2, sc1, d.PeekDown, "downlink") {
				sc1.Close()
				cc2.Close()
				return
			}
			_, _, cerr := netio.BidirectionalCopy(sc1, cc2)
			if cerr != nil {
				setErr(fmt.Errorf("relay copy: %w", cerr))
				sc1.Close()
				cc2.Close()
			}
		}()
	}

	client1 := t1.cfg.StreamClient(t1.ui, t1.inner, d.SegCli, t1.hops...)
	cc, err := client1.DialStream(context.Background(), target, P)
	if err != nil {
		viol("dial_failed", "DialStream failed: %v", err)
		return
	}
	wg.Add(1)
	go func() {
		defer wg.Done()
		cli.wErr = writeAll(cc, d.CPath, tagC, d.PayloadLen, d.CWrites, rC)
		if cli.wErr != nil {
			cc.Close()
		}
	}()
	readAll(cc, d.CRead, d.CBuf, &cli)
	if cli.err != nil {
		cc.Close()
	}
	wg.Wait()

	// ---- oracle ----
	if t1.inner.HopErr != nil {
		viol("relay_hop_rejected", "reference relay hop could not follow the client's identity headers: %v", t1.inner.HopErr)
		return
	}
	if handleErr != nil {
		viol("server_error", "server side failed on a genuine session: %v", handleErr)
		return
	}
	if !sameTarget(reqAddr, target) {
		viol("wrong_target", "server observed target %s, client dialled %s", reqAddr, target)
		return
	}
	wantUser := t1.cfg.UserName(t1.ui)
	if d.Chain {
		wantUser = t2.cfg.UserName(t2.ui)
	}
	if reqUser != wantUser {
		viol("wrong_user", "server observed user %q, want %q", reqUser, wantUser)
		return
	}
	wantInReq := min(len(P), room)
	if !d.Chain && len(reqPay) != wantInReq {
		viol("request_payload_len", "request carried %d payload bytes, want min(%d, room %d)", len(reqPay), len(P), room)
		return
	}
	c2s := append(append([]byte{}, P...), core.Pattern(tagC, d.PayloadLen, sum(d.CWrites))...)
	gotS := append(append([]byte{}, reqPay...), srv.got...)
	if cli.wErr != nil {
		viol("client_write_error", "client write failed: %v", cli.wErr)
		return
	}
	if srvWErr != nil {
		viol("server_write_error", "server write failed: %v", srvWErr)
		return
	}
	if srv.err != nil {
		viol("server_read_error", "server read failed after %d of %d bytes: %v", len(gotS), len(c2s), srv.err)
		return
	}
	if cli.err != nil {
		viol("client_read_error", "client read failed after %d bytes: %v", len(cli.got), cli.err)
		return
	}
	if x := core.FirstDiff(gotS, c2s); x >= 0 {
		viol("c2s_stream_mismatch", "client->server stream differs at offset %d (got %d bytes, want %d; %d in request)", x, len(gotS), len(c2s), len(reqPay))
		return
	}
	s2c := core.Pattern(tagS, 0, sum(d.SWrites))[consumedDown:]
	if d.Chain && d.RelayBanner > 0 {
		s2c = append(core.Pattern(tagS+7, 0, d.RelayBanner), s2c...)
	}
	if x := core.FirstDiff(cli.got, s2c); x >= 0 {
		viol("s2c_stream_mismatch", "server->client stream differs at offset %d (got %d bytes, want %d)", x, len(cli.got), len(s2c))
		return
	}
	if !srv.eof || !cli.eof {
		viol("missing_eof", "EOF not reported (server %v client %v)", srv.eof, cli.eof)
		return
	}
	if !bytes.Equal(reqPay, P[:len(reqPay)]) {
		viol("request_payload_bytes", "request payload is not a prefix of the initial payload")
		return
	}
	rec.Count("bytes_c2s", int64(len(c2s)))
	rec.Count("bytes_s2c", int64(len(s2c)))
	rec.Count("reads", int64(srv.nReads+cli.nReads))
	rec.Count("eofs", 2)
	eih := d.Hops
	if d.Users > 0 {
		eih++
	}
	if len(c2s) > 0 || len(s2c) > 0 {
		rec.Class("eih=%d/key=%d/pfx=%s,%s/seg=%v,%v/pay=%s/w=%s,%s/r=%s,%s/tr=%s|%s/chain=%v", eih, d.KeySize, prefixClass(d.ReqPrefix), prefixClass(d.RespPrefix),
			d.SegSrv, d.SegCli, payloadClass(d.PayloadLen, room), d.CPath, d.SPath, d.CRead, d.SRead, d.SegC2S, d.SegS2C, d.Chain)
	}
	if ci%300 == 0 {
		rec.Sample(6, d)
	}
}

func r2(r *core.RNG, k int) *core.RNG {
	return core.NewRNG(int64(r.Uint64()), "sub", k)
}
