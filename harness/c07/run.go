package c07

import (
	"bytes"
	"context"
	"errors"
	"fmt"
	"io"
	"net"
	"net/netip"
	"strings"
	"sync"

	"github.com/database64128/shadowsocks-go/conn"
	"github.com/database64128/shadowsocks-go/httpproxy"
	"github.com/database64128/shadowsocks-go/netio"
	"github.com/database64128/shadowsocks-go/socks5"
	"github.com/database64128/shadowsocks-go/ssnone"
	"go.uber.org/zap"

	"verif/core"
	"verif/netsim"
)

var nopLogger = zap.NewNop()

// segSpec describes how one direction of the transport is re-segmented.
type segSpec struct {
	Name string `json:"name"`
	Cuts []int  `json:"cuts,omitempty"` // stream offsets at which a segment ends; one segment after the last cut
	Loop []int  `json:"loop,omitempty"` // cyclic segment sizes
}

func (s segSpec) plan() netsim.SegPlan {
	switch {
	case len(s.Loop) > 0:
		return netsim.FixedPlan(true, s.Loop...)
	case len(s.Cuts) > 0:
		sizes := make([]int, 0, len(s.Cuts)+1)
		prev := 0
		for _, c := range s.Cuts {
			if c > prev {
				sizes = append(sizes, c-prev)
				prev = c
			}
		}
		sizes = append(sizes, 1<<30)
		return netsim.FixedPlan(false, sizes...)
	}
	return nil
}

func cutsSeg(cuts ...int) segSpec {
	return segSpec{Name: fmt.Sprintf("%d-cut", len(cuts)), Cuts: cuts}
}

// genSeg picks a segmentation for a stream whose interesting prefix is about n bytes long.
func genSeg(r *core.RNG, n int) segSpec {
	n = max(n, 2)
	switch r.Intn(8) {
	case 0:
		return segSpec{Name: "whole"}
	case 1:
		return segSpec{Name: "1-byte", Loop: []int{1}}
	case 2:
		return segSpec{Name: "2-byte", Loop: []int{2}}
	case 3:
		return segSpec{Name: "small-loop", Loop: []int{r.Range(1, 7), r.Range(1, 7), r.Range(1, 7)}}
	default:
		k := r.Pick(1, 2, 3, 4, 8)
		set := map[int]bool{}
		for j := 0; j < k; j++ {
			set[r.Range(1, n+3)] = true
		}
		var cuts []int
		for c := 1; c <= n+3; c++ {
			if set[c] {
				cuts = append(cuts, c)
			}
		}
		return segSpec{Name: "k-cuts", Cuts: cuts}
	}
}

// scen is one fully determined scenario: configuration, what the client does,
// what the server-side application decides, the data sent afterwards.
type scen struct {
	Proto string
	Mode  string // e2e (real client) | raw (scripted client bytes)
	T     target

	AuthOn   bool
	Users    []cred
	TCP, UDP bool
	Local    *net.TCPAddr

	Methods   []byte // SOCKS5: methods offered (the real client offers exactly one)
	Presents  bool   // the client presents credentials
	Cred      cred
	CredMut   string
	HdrForm   string // HTTP raw: shape of the Proxy-Authorization line
	Retry     int    // HTTP raw: failed attempts (wrong credentials) before the request proper
	RetryBody int    // HTTP raw: every failed attempt carries a body of this many bytes (Content-Length)
	Cmd       byte   // SOCKS5 command
	Hostile   bool   // raw: the script keeps talking after a step that must have failed

	Abort bool
	Code  conn.DialResultCode

	Payload int   // initial payload handed to DialStream (e2e)
	CData   []int // client writes after the handshake (e2e)
	Early   int   // raw: client bytes sent right behind the handshake in the same write
	SFirst  int   // server bytes written together with the success reply (one transport write)
	SData   []int // further server writes
	CRead   string

	SegC2S, SegS2C segSpec
}

const tagC, tagS = 0xC07C, 0xC075

func sum(xs []int) int {
	t := 0
	for _, x := range xs {
		t += x
	}
	return t
}

func (sc *scen) c2sData() []byte {
	if sc.Mode == "raw" {
		return core.Pattern(tagC, 0, sc.Early)
	}
	return core.Pattern(tagC, 0, sc.Payload+sum(sc.CData))
}

func (sc *scen) s2cData() []byte { return core.Pattern(tagS, 0, sc.SFirst+sum(sc.SData)) }

func (sc *scen) desc() map[string]any {
	us := make([]string, 0, len(sc.Users))
	for _, u := range sc.Users {
		us = append(us, u.String())
	}
	m := map[string]any{
		"proto": sc.Proto, "mode": sc.Mode, "target": sc.T.String(), "auth_enabled": sc.AuthOn, "users": us,
		"presents_credentials": sc.Presents, "credentials": sc.Cred.String(), "credential_mutation": sc.CredMut,
		"abort": sc.Abort, "dial_code": int(sc.Code), "seg_c2s": sc.SegC2S, "seg_s2c": sc.SegS2C,
		"server_first": sc.SFirst, "server_writes": sc.SData,
	}
	if sc.Proto == pSocks {
		m["enable_tcp"], m["enable_udp"], m["cmd"] = sc.TCP, sc.UDP, sc.Cmd
		m["methods"] = core.Hex(sc.Methods, 16)
		if sc.Local != nil {
			m["local"] = sc.Local.String()
		}
	}
	if sc.Mode == "raw" {
		m["early_bytes"], m["hostile"] = sc.Early, sc.Hostile
		if sc.Proto == pHTTP {
			m["header_form"], m["failed_attempts_first"] = sc.HdrForm, sc.Retry
			if sc.RetryBody > 0 {
				m["failed_attempt_body"] = sc.RetryBody
			}
		}
	} else {
		m["initial_payload"], m["client_writes"], m["client_read_path"] = sc.Payload, sc.CData, sc.CRead
	}
	return m
}

// addrSnap is a deep copy of what a conn.Addr shows at one instant.
type addrSnap struct {
	Valid  bool
	IsIP   bool
	IP     netip.Addr
	Domain string
	Port   uint16
}

func snapAddr(a conn.Addr) addrSnap {
	s := addrSnap{Valid: a.IsValid()}
	if !s.Valid {
		return s
	}
	s.Port = a.Port()
	if a.IsIP() {
		s.IsIP, s.IP = true, a.IP()
	} else {
		s.Domain = strings.Clone(a.Domain())
	}
	return s
}

func (s addrSnap) String() string {
	switch {
	case !s.Valid:
		return "<zero>"
	case s.IsIP:
		return fmt.Sprintf("ip %s port %d", s.IP, s.Port)
	}
	return fmt.Sprintf("domain(%d)%s:%d", len(s.Domain), core.Hex([]byte(s.Domain), 24), s.Port)
}

type rd struct {
	got   []byte
	eof   bool
	err   error
	reads int
}

func readAll(c io.Reader, bufSize int) (x rd) {
	b := make([]byte, bufSize)
	zero := 0
	for {
		n, err := c.Read(b)
		x.reads++
		x.got = append(x.got, b[:n]...)
		if err != nil {
			if err == io.EOF {
				x.eof = true
			} else {
				x.err = err
			}
			return
		}
		if n == 0 {
			if zero++; zero > 8 {
				x.err = errors.New("Read keeps returning (0, nil)")
				return
			}
		}
	}
}

// obs is everything the monitor saw in one run.
type obs struct {
	// server side
	hsErr    error
	hasPC    bool
	addr     [3]addrSnap // at HandleStream return, right after Proceed/Abort, after the stream ended
	user     [3]string
	snaps    int
	procErr  error
	abortErr error
	srv      rd
	srvWErr  error
	// client side (e2e)
	dialErr error
	bound   conn.Addr
	cli     rd
	cliWErr error
	// transport
	cSent, sSent []byte
	rawS2C       rd // raw mode: every byte the server sent
	rawBad       bool
	cliPath      string
	harness      string
}

func (o *obs) snap(k int, req *netio.ConnRequest) {
	o.addr[k] = snapAddr(req.Addr)
	o.user[k] = strings.Clone(req.Username)
	o.snaps = k + 1
}

// corkConn lets the harness make several server writes reach the transport as
// ONE write (reply + server-first data travel in one segment).
type corkConn struct {
	*netsim.BufConn
	mu     sync.Mutex
	corked bool
	held   []byte
}

func (c *corkConn) Write(b []byte) (int, error) {
	c.mu.Lock()
	if c.corked {
		c.held = append(c.held, b...)
		c.mu.Unlock()
		return len(b), nil
	}
	c.mu.Unlock()
	return c.BufConn.Write(b)
}

func (c *corkConn) cork() {
	c.mu.Lock()
	c.corked = true
	c.mu.Unlock()
}

func (c *corkConn) uncork() error {
	c.mu.Lock()
	h := c.held
	c.held, c.corked = nil, false
	c.mu.Unlock()
	if len(h) == 0 {
		return nil
	}
	_, err := c.BufConn.Write(h)
	return err
}

// innerClient hands a prepared transport end to the real clients.
type innerClient struct{ c netio.Conn }

func (in innerClient) NewStreamDialer() (netio.StreamDialer, netio.StreamDialerInfo) {
	return in, netio.StreamDialerInfo{Name: "inner", NativeInitialPayload: true}
}

func (in innerClient) DialStream(_ context.Context, _ conn.Addr, payload []byte) (netio.Conn, error) {
	if len(payload) > 0 {
		if _, err := in.c.Write(payload); err != nil {
			return nil, err
		}
	}
	return in.c, nil
}

var proxyAddr = conn.MustAddrFromDomainPort("proxy.test", 1080)

func buildServer(sc *scen) (netio.StreamServer, error) {
	switch sc.Proto {
	case pSocks:
		cfg := socks5.StreamServerConfig{EnableUserPassAuth: sc.AuthOn, EnableTCP: sc.TCP, EnableUDP: sc.UDP}
		for _, u := range sc.Users {
			cfg.Users = append(cfg.Users, socks5.UserInfo{Username: u.U, Password: u.P})
		}
		return cfg.NewStreamServer()
	case pHTTP:
		cfg := httpproxy.ServerConfig{EnableBasicAuth: sc.AuthOn}
		for _, u := range sc.Users {
			cfg.Users = append(cfg.Users, httpproxy.ServerUserCredentials{Username: u.U, Password: u.P})
		}
		return cfg.NewProxyServer()
	default:
		return ssnone.StreamServer{}, nil
	}
}

func buildClient(sc *scen, c netio.Conn) (netio.StreamClient, error) {
	in := innerClient{c: c}
	switch sc.Proto {
	case pSocks:
		cfg := socks5.StreamClientConfig{Name: "c", InnerClient: in, Addr: proxyAddr}
		if sc.Presents {
			cfg.AuthMsg = socks5.UserInfo{Username: sc.Cred.U, Password: sc.Cred.P}.AppendAuthMsg(nil)
		}
		return cfg.NewStreamClient(), nil
	case pHTTP:
		cfg := httpproxy.ClientConfig{Name: "c", InnerClient: in, Addr: proxyAddr, UseBasicAuth: sc.Presents, Username: sc.Cred.U, Password: sc.Cred.P}
		return cfg.NewProxyClient()
	default:
		cfg := ssnone.StreamClientConfig{Name: "c", InnerClient: in, Addr: proxyAddr}
		return cfg.NewStreamClient(), nil
	}
}

// serverSide plays the application behind the real server: it accepts one
// connection, looks at the request, proceeds or aborts, and then reads to EOF
// while (or, when sequential, before) writing its own data.
func serverSide(sc *scen, srv netio.StreamServer, end *netsim.BufConn, o *obs, sequential bool) {
	cc := &corkConn{BufConn: end}
	defer end.Close()
	req, err := srv.HandleStream(cc, nopLogger)
	o.hsErr = err
	o.hasPC = req.PendingConn != nil
	o.snap(0, &req)
	if err != nil || req.PendingConn == nil {
		return
	}
	if sc.Abort {
		o.abortErr = req.Abort(conn.DialResult{Code: sc.Code, Err: errors.New("c07: dial outcome")})
		o.snap(1, &req)
		end.CloseWrite()
		io.Copy(io.Discard, end)
		o.snap(2, &req)
		return
	}
	data := sc.s2cData()
	cc.cork()
	c2, err := req.Proceed()
	if err != nil {
		o.procErr = err
		cc.uncork()
		return
	}
	if sc.SFirst > 0 {
		if _, err := c2.Write(data[:sc.SFirst]); err != nil {
			o.srvWErr = err
		}
	}
	if err := cc.uncork(); err != nil && o.srvWErr == nil {
		o.srvWErr = err
	}
	o.snap(1, &req)
	writer := func() {
		off := sc.SFirst
		for _, n := range sc.SData {
			if _, err := c2.Write(data[off : off+n]); err != nil {
				if o.srvWErr == nil {
					o.srvWErr = err
				}
				break
			}
			off += n
		}
		c2.CloseWrite()
	}
	if sequential {
		o.srv = readAll(c2, 4096)
		writer()
	} else {
		var wg sync.WaitGroup
		wg.Add(1)
		go func() { defer wg.Done(); writer() }()
		o.srv = readAll(c2, 4096)
		wg.Wait()
	}
	o.snap(2, &req)
}

// runE2E drives the real client against the real server.
func runE2E(sc *scen) *obs {
	o := &obs{}
	srv, err := buildServer(sc)
	if err != nil {
		o.harness = "server config refused: " + err.Error()
		return o
	}
	cEnd, sEnd := netsim.Pair(sc.SegC2S.plan(), sc.SegS2C.plan(), true)
	if sc.Local != nil {
		sEnd.Local = sc.Local
	}
	defer cEnd.Close()
	done := make(chan struct{})
	go func() {
		defer close(done)
		serverSide(sc, srv, sEnd, o, false)
	}()
	finish := func() *obs {
		<-done
		o.cSent, o.sSent = cEnd.Sent(), sEnd.Sent()
		return o
	}
	ta := sc.T.connAddr()
	if sc.Proto == pSocks && sc.Cmd == socks5.CmdUDPAssociate {
		if sc.Presents {
			am := socks5.UserInfo{Username: sc.Cred.U, Password: sc.Cred.P}.AppendAuthMsg(nil)
			o.bound, o.dialErr = socks5.ClientUDPAssociateUsernamePassword(cEnd, am, ta)
		} else {
			o.bound, o.dialErr = socks5.ClientUDPAssociate(cEnd, ta)
		}
		cEnd.Close() // the association lasts as long as the control connection
		return finish()
	}
	cl, err := buildClient(sc, cEnd)
	if err != nil {
		o.harness = "client config refused: " + err.Error()
		cEnd.Close()
		return finish()
	}
	data := sc.c2sData()
	c, err := cl.DialStream(context.Background(), ta, data[:sc.Payload])
	o.dialErr = err
	if err != nil {
		cEnd.Close()
		return finish()
	}
	if sc.Abort {
		// no failure was visible to the client (SS-none has no reply; SOCKS5 abort with the success code)
		c.Close()
		return finish()
	}
	var wg sync.WaitGroup
	wg.Add(1)
	go func() {
		defer wg.Done()
		off := sc.Payload
		for _, n := range sc.CData {
			if _, err := c.Write(data[off : off+n]); err != nil {
				o.cliWErr = err
				break
			}
			off += n
		}
		c.CloseWrite()
	}()
	if wt, ok := c.(io.WriterTo); ok && sc.CRead == "writeto" {
		w := &netsim.RecWriter{}
		_, err := wt.WriteTo(w)
		o.cli, o.cliPath = rd{got: w.Data, eof: err == nil, err: err, reads: w.N}, "writeto"
	} else {
		o.cli, o.cliPath = readAll(c, 4096), "read"
	}
	wg.Wait()
	c.Close()
	return finish()
}

// runRaw feeds a complete client script (handshake bytes and whatever follows)
// in ONE transport write, closes the client's write side, and lets the real
// server work through it. Everything is sequential and deterministic.
func runRaw(sc *scen, script []byte) *obs {
	o := &obs{}
	srv, err := buildServer(sc)
	if err != nil {
		o.harness = "server config refused: " + err.Error()
		return o
	}
	cEnd, sEnd := netsim.Pair(sc.SegC2S.plan(), nil, true)
	if sc.Local != nil {
		sEnd.Local = sc.Local
	}
	cEnd.Write(script)
	cEnd.CloseWrite()
	serverSide(sc, srv, sEnd, o, true)
	o.rawS2C = readAll(cEnd, 4096)
	o.cSent, o.sSent = script, sEnd.Sent()
	cEnd.Close()
	return o
}

// rawScript builds the byte script of a scripted client from the reference encoders.
func rawScript(sc *scen) []byte {
	var b []byte
	ex := sc.expect()
	switch sc.Proto {
	case pSocks:
		b = append(b, s5MethodMsg(sc.Methods)...)
		if ex.Outcome == "no_method" && !sc.Hostile {
			return b
		}
		if sc.Presents {
			b = append(b, s5AuthMsg(sc.Cred)...)
		}
		if ex.Outcome == "auth_fail" && !sc.Hostile {
			return b
		}
		b = append(b, s5RequestMsg(sc.Cmd, sc.T)...)
	case pHTTP:
		// failed attempts first: same target, credentials that match nobody
		for k := 0; k < sc.Retry; k++ {
			bad := cred{U: "nobody" + fmt.Sprint(k), P: "nothing\x00"}
			for matches(sc.Users, bad) {
				bad.P += "x"
			}
			line, _ := authLineForm("canonical", bad)
			head := httpConnectHead(sc.T, line, false)
			if sc.RetryBody > 0 && bytes.HasSuffix(head, []byte("\r\n\r\n")) {
				// the refused request carries a body; the retry follows it on the same connection
				head = append(head[:len(head)-2], fmt.Sprintf("Content-Length: %d\r\n\r\n", sc.RetryBody)...)
				head = append(head, bytes.Repeat([]byte{'x'}, sc.RetryBody)...)
			}
			b = append(b, head...)
		}
		line := ""
		if sc.Presents {
			line, _ = authLineForm(sc.HdrForm, sc.Cred)
		}
		b = append(b, httpConnectHead(sc.T, line, false)...)
		if ex.Outcome == "auth_fail" && !sc.Hostile {
			return b
		}
	default:
		b = append(b, sc.T.socksWire()...)
	}
	return append(b, core.Pattern(tagC, 0, sc.Early)...)
}
