package c07

import (
	"encoding/base64"
	"encoding/binary"
	"fmt"
	"net"
	"net/netip"
	"strconv"
	"strings"

	"github.com/database64128/shadowsocks-go/conn"

	"verif/core"
)

// Protocol names as they appear in signatures and classes.
const (
	pSocks  = "socks5"
	pHTTP   = "http-connect"
	pSSNone = "ss-none"
)

// target is the address a client asks for, kept in raw components so that the
// reference encoders below and the oracle never go through the code under test.
type target struct {
	Kind   string // ip4 | ip6 | ip4in6 | domain
	IP     netip.Addr
	Domain string
	Port   uint16
}

func (t target) connAddr() conn.Addr {
	if t.Kind == "domain" {
		return conn.MustAddrFromDomainPort(t.Domain, t.Port)
	}
	return conn.AddrFromIPAndPort(t.IP, t.Port)
}

// socksWire is the RFC 1928 section 5 address encoding written by hand.
// An IPv4-mapped IPv6 address is put on the wire as ATYP 4 (the raw scripts
// are allowed to do that); the oracle compares IPs after unmapping.
func (t target) socksWire() []byte {
	var b []byte
	switch t.Kind {
	case "domain":
		b = append(b, 3, byte(len(t.Domain)))
		b = append(b, t.Domain...)
	case "ip4":
		a := t.IP.As4()
		b = append(b, 1)
		b = append(b, a[:]...)
	default:
		a := t.IP.As16()
		b = append(b, 4)
		b = append(b, a[:]...)
	}
	return binary.BigEndian.AppendUint16(b, t.Port)
}

// authority is the RFC 9110 CONNECT request-target (host ":" port).
func (t target) authority() string {
	p := strconv.Itoa(int(t.Port))
	switch t.Kind {
	case "domain":
		return t.Domain + ":" + p
	case "ip4":
		return t.IP.String() + ":" + p
	default:
		return "[" + t.IP.String() + "]:" + p
	}
}

func (t target) String() string {
	if t.Kind == "domain" {
		return fmt.Sprintf("domain(%d)%s:%d", len(t.Domain), core.Hex([]byte(t.Domain), 24), t.Port)
	}
	return fmt.Sprintf("%s %s port %d", t.Kind, t.IP, t.Port)
}

// hostChars are the bytes used for HTTP targets ("host-syntax bytes": unreserved characters of RFC 3986).
const hostChars = "abcdefghijklmnopqrstuvwxyzABCDEFGHIJKLMNOPQRSTUVWXYZ0123456789-._~"

func genPort(r *core.RNG) uint16 {
	return uint16(r.Pick(0, 1, 80, 65535, r.Intn(65536)))
}

// genLen yields lengths 1..255: three times out of four the length is a pure
// function of the case index (so that every length occurs), else a boundary.
func genLen(r *core.RNG, i, mul, add int) int {
	if r.Chance(1, 4) {
		return r.Pick(1, 2, 3, 63, 64, 127, 128, 253, 254, 255)
	}
	return 1 + (i*mul+add)%255
}

func genDomain(r *core.RNG, n int, hostSyntax bool) string {
	b := r.Bytes(n)
	if hostSyntax {
		for k := range b {
			b[k] = hostChars[int(b[k])%len(hostChars)]
		}
	} else if r.Chance(1, 10) {
		// text that other layers would treat specially must travel untouched as well
		s := r.PickStr("1.2.3.4", "::1", "[::1]", "a:80", "a\r\n", "\x00", "A.b", "xn--", " ")
		if len(s) <= n {
			copy(b, s)
		}
	}
	return string(b)
}

func genTarget(r *core.RNG, i int, proto string, short bool) target {
	t := target{Port: genPort(r)}
	switch r.Intn(10) {
	case 0, 1:
		t.Kind = "ip4"
		a := [4]byte(r.Bytes(4))
		switch r.Intn(6) {
		case 0:
			a = [4]byte{}
		case 1:
			a = [4]byte{255, 255, 255, 255}
		case 2:
			a = [4]byte{127, 0, 0, 1}
		}
		t.IP = netip.AddrFrom4(a)
	case 2, 3:
		t.Kind = "ip6"
		a := [16]byte(r.Bytes(16))
		switch r.Intn(6) {
		case 0:
			a = [16]byte{}
		case 1:
			a = [16]byte{15: 1}
		case 2:
			for k := range a {
				a[k] = 0xff
			}
		case 3:
			a = [16]byte{0x20, 1, 0xd, 0xb8, 15: byte(r.Intn(256))}
		}
		if netip.AddrFrom16(a).Is4In6() {
			a[0] = 0x20 // keep this class free of mapped addresses
		}
		t.IP = netip.AddrFrom16(a)
	case 4:
		t.Kind = "ip4in6"
		a := [16]byte{10: 0xff, 11: 0xff}
		copy(a[12:], r.Bytes(4))
		t.IP = netip.AddrFrom16(a)
	default:
		t.Kind = "domain"
		n := genLen(r, i, 1, 0)
		if short {
			n = r.Range(1, 6)
		}
		t.Domain = genDomain(r, n, proto == pHTTP)
		if proto == pHTTP && !short && r.Chance(1, 15) {
			// host syntax that is (or nearly is) an IP literal: the proxy may report it as an IP address
			t.Domain = r.PickStr("1.2.3.4", "255.255.255.255", "0", "1.2.3", "0x7f.1", "1.2.3.4.5", "127.1", "1.2.3.4x")
		}
	}
	return t
}

// cred is a username/password pair.
type cred struct{ U, P string }

func (c cred) String() string {
	return fmt.Sprintf("u(%d)=%s p(%d)=%s", len(c.U), core.Hex([]byte(c.U), 12), len(c.P), core.Hex([]byte(c.P), 12))
}

// matches is the authentication rule of the statement: the presented pair equals a configured one.
func matches(users []cred, c cred) bool {
	for _, u := range users {
		if u.U == c.U && u.P == c.P {
			return true
		}
	}
	return false
}

func genCredBytes(r *core.RNG, n int, text, noColon bool) string {
	b := r.Bytes(n)
	if text {
		const al = "abcdefghijklmnopqrstuvwxyzABCDEFGHIJKLMNOPQRSTUVWXYZ0123456789"
		for k := range b {
			b[k] = al[int(b[k])%len(al)]
		}
	}
	if noColon {
		for k := range b {
			if b[k] == ':' {
				b[k] = ';'
			}
		}
	}
	return string(b)
}

// genUsers builds the configured user list: distinct usernames, lengths 1..255
// (the first user's lengths sweep with the case index), bytes over all values
// (HTTP usernames cannot contain ':' -- the configuration refuses them).
func genUsers(r *core.RNG, i int, proto string, short bool) []cred {
	n := r.Pick(0, 1, 1, 1, 2, 3, 6)
	var us []cred
	seen := map[string]bool{}
	for k := 0; k < n; k++ {
		ul, pl := genLen(r, i, 1, 0), genLen(r, i, 7, 3)
		if k > 0 {
			ul, pl = r.Pick(1, 2, 254, 255, r.Range(1, 255)), r.Pick(1, 2, 254, 255, r.Range(1, 255))
		}
		if short {
			ul, pl = r.Range(1, 3), r.Range(1, 3)
		}
		text := r.Chance(1, 3)
		c := cred{U: genCredBytes(r, ul, text, proto == pHTTP), P: genCredBytes(r, pl, text, false)}
		if k > 0 && r.Chance(1, 4) {
			// password of one user is the username of another, or shared passwords
			c.P = r.PickStr(us[0].U, us[0].P)
		}
		if seen[c.U] {
			continue
		}
		seen[c.U] = true
		us = append(us, c)
	}
	return us
}

func flipByte(r *core.RNG, s string, noColon bool) string {
	b := []byte(s)
	k := r.Intn(len(b))
	x := byte(1 + r.Intn(255))
	b[k] ^= x
	if noColon && b[k] == ':' {
		b[k] ^= x ^ (x%254 + 1) // any other non-zero mask
		if b[k] == ':' || string(b) == s {
			b[k] = '#'
		}
	}
	return string(b)
}

func toggleCase(s string) (string, bool) {
	b := []byte(s)
	for k, c := range b {
		if (c >= 'a' && c <= 'z') || (c >= 'A' && c <= 'Z') {
			b[k] = c ^ 0x20
			return string(b), true
		}
	}
	return s, false
}

// mutateCred derives a presented pair that should NOT be accepted. The caller
// re-evaluates matches(): a mutation that happens to hit another configured
// pair is simply a valid pair.
func mutateCred(r *core.RNG, users []cred, proto string) (cred, string) {
	noColon := proto == pHTTP
	fresh := func() cred {
		return cred{U: genCredBytes(r, r.Range(1, 255), r.Bool(), noColon), P: genCredBytes(r, r.Range(1, 255), r.Bool(), false)}
	}
	if len(users) == 0 {
		return fresh(), "empty_user_list"
	}
	base := users[r.Intn(len(users))]
	c := base
	name := ""
	switch r.Intn(9) {
	case 0:
		name, c.P = "wrong_password", flipByte(r, base.P, false)
	case 1:
		name, c.U = "wrong_user", flipByte(r, base.U, noColon)
	case 2:
		name = "swapped"
		c.U, c.P = base.P, base.U
		if noColon && strings.IndexByte(c.U, ':') >= 0 {
			name, c = "wrong_password", cred{U: base.U, P: flipByte(r, base.P, false)}
		}
	case 3:
		name = "password_prefix"
		if len(base.P) > 1 && r.Bool() {
			c.P = base.P[:len(base.P)-1]
		} else if len(base.P) < 255 {
			name, c.P = "password_extended", base.P+string(rune(r.Intn(128)))
		} else {
			c.P = base.P[:254]
		}
	case 4:
		name = "user_prefix"
		if len(base.U) > 1 && r.Bool() {
			c.U = base.U[:len(base.U)-1]
		} else if len(base.U) < 255 {
			name, c.U = "user_extended", base.U+"x"
		} else {
			c.U = base.U[:254]
		}
	case 5:
		name = "case_change"
		var ok bool
		if r.Bool() {
			c.P, ok = toggleCase(base.P)
		} else {
			c.U, ok = toggleCase(base.U)
		}
		if !ok {
			name, c.P = "wrong_password", flipByte(r, base.P, false)
		}
	case 6:
		name = "cross_user"
		if len(users) < 2 {
			name, c = "unknown_user", fresh()
			break
		}
		other := users[(r.Intn(len(users)-1)+1+indexOf(users, base))%len(users)]
		c.P = other.P
	case 7:
		name, c = "unknown_user", fresh()
	default:
		// the password occupies the bytes where the username was read (shared scratch buffer): equal user and password
		name = "user_as_password"
		c.P = base.U
	}
	return c, name
}

func indexOf(us []cred, c cred) int {
	for k := range us {
		if us[k].U == c.U {
			return k
		}
	}
	return 0
}

// ---- reference wire encoders (RFC 1928 / RFC 1929 / RFC 9110), written from the RFCs ----

func s5MethodMsg(methods []byte) []byte {
	return append([]byte{5, byte(len(methods))}, methods...)
}

func s5AuthMsg(c cred) []byte {
	b := []byte{1, byte(len(c.U))}
	b = append(b, c.U...)
	b = append(b, byte(len(c.P)))
	return append(b, c.P...)
}

func s5RequestMsg(cmd byte, t target) []byte {
	return append([]byte{5, cmd, 0}, t.socksWire()...)
}

func basicToken(c cred) string {
	return base64.StdEncoding.EncodeToString([]byte(c.U + ":" + c.P))
}

// httpConnectHead is a CONNECT request head; authLine is either empty or a complete header line.
func httpConnectHead(t target, authLine string, closeConn bool) []byte {
	a := t.authority()
	s := "CONNECT " + a + " HTTP/1.1\r\nHost: " + a + "\r\n" + authLine
	if closeConn {
		s += "Connection: close\r\n"
	}
	return []byte(s + "\r\n")
}

// authLineForm renders a Proxy-Authorization line. positive reports whether the
// form presents the Basic credentials of c in a way every HTTP proxy must
// understand (field names and the scheme are case-insensitive, RFC 9110 5.1 / 11.1).
func authLineForm(form string, c cred) (line string, positive bool) {
	tok := basicToken(c)
	switch form {
	case "canonical":
		return "Proxy-Authorization: Basic " + tok + "\r\n", true
	case "lower_name":
		return "proxy-authorization: Basic " + tok + "\r\n", true
	case "scheme_lower":
		return "Proxy-Authorization: basic " + tok + "\r\n", true
	case "scheme_upper":
		return "Proxy-Authorization: BASIC " + tok + "\r\n", true
	case "absent":
		return "", false
	case "bearer":
		return "Proxy-Authorization: Bearer " + tok + "\r\n", false
	case "digest":
		return "Proxy-Authorization: Digest " + tok + "\r\n", false
	case "no_token":
		return "Proxy-Authorization: Basic\r\n", false
	case "no_space":
		return "Proxy-Authorization: Basic" + tok + "\r\n", false
	case "empty":
		return "Proxy-Authorization:\r\n", false
	case "other_header":
		return "Authorization: Basic " + tok + "\r\n", false
	default:
		panic("unknown header form " + form)
	}
}

var negForms = []string{"absent", "bearer", "digest", "no_token", "no_space", "empty", "other_header"}
var posForms = []string{"canonical", "canonical", "lower_name", "scheme_lower", "scheme_upper"}

// ---- reference outcome tables ----

// dialCodes are the named result codes plus a few unnamed values of the uint8 space.
var dialCodes = []conn.DialResultCode{
	conn.DialResultCodeSuccess,
	conn.DialResultCodeEACCES,
	conn.DialResultCodeENETDOWN, conn.DialResultCodeENETUNREACH, conn.DialResultCodeENETRESET,
	conn.DialResultCodeECONNABORTED, conn.DialResultCodeECONNRESET, conn.DialResultCodeETIMEDOUT,
	conn.DialResultCodeECONNREFUSED,
	conn.DialResultCodeEHOSTDOWN, conn.DialResultCodeEHOSTUNREACH,
	conn.DialResultCodeErrDomainNameLookup, conn.DialResultCodeErrOther,
}

// socksReplyFor is the reply RFC 1928 section 6 assigns to a dial outcome, as
// the property states it: success 0, not allowed by ruleset 2, network
// unreachable 3 (network down / unreachable / reset), host unreachable 4,
// connection refused 5, anything else general failure 1.
func socksReplyFor(c conn.DialResultCode) byte {
	switch c {
	case conn.DialResultCodeSuccess:
		return 0
	case conn.DialResultCodeEACCES:
		return 2
	case conn.DialResultCodeENETDOWN, conn.DialResultCodeENETUNREACH, conn.DialResultCodeENETRESET:
		return 3
	case conn.DialResultCodeEHOSTDOWN, conn.DialResultCodeEHOSTUNREACH:
		return 4
	case conn.DialResultCodeECONNREFUSED:
		return 5
	}
	return 1
}

func genLocal(r *core.RNG) *net.TCPAddr {
	port := r.Pick(1, 1080, 65535, r.Range(1, 65535))
	switch r.Intn(3) {
	case 0:
		return &net.TCPAddr{IP: net.IPv4(192, 0, 2, byte(r.Intn(256))), Port: port} // 16-byte form of an IPv4 address
	case 1:
		return &net.TCPAddr{IP: net.IP{10, 0, 0, byte(r.Intn(256))}, Port: port}
	default:
		ip := net.IP(r.Bytes(16))
		ip[0] = 0x20
		return &net.TCPAddr{IP: ip, Port: port}
	}
}
