// Package c07 monitors "SOCKS5, HTTP CONNECT and Shadowsocks-none handshakes
// carry requests faithfully": the real client implementation of each protocol
// talks to the real server implementation over a buffered transport that
// re-segments every read (netsim.Pair), scripted raw-byte clients cover what
// the real clients never send (long method lists, wrong credentials in every
// shape, data glued to the handshake), and a small reference model decides
// what the server must extract, whom it must admit, which reply the client
// must be shown and which bytes each side must read afterwards.
//
// Parts: socks5, http, ssnone (flavour plain; a connection's handshake is
// sequential) and race (the same end-to-end generator under the race detector).
package c07

import (
	"fmt"
	"sync"
	"time"

	"github.com/database64128/shadowsocks-go/conn"

	"verif/core"
)

func init() {
	core.Register("C07", "socks5", func(e *core.Env) { runPart(e, pSocks, "c07.socks5", e.N(9000, 450000)) })
	core.Register("C07", "http", func(e *core.Env) { runPart(e, pHTTP, "c07.http", e.N(7000, 350000)) })
	core.Register("C07", "ssnone", func(e *core.Env) { runPart(e, pSSNone, "c07.ssnone", e.N(4000, 200000)) })
	core.Register("C07", "race", func(e *core.Env) {
		// same generators, separate streams, end-to-end kinds only (that is where goroutines meet)
		runPart(e, pSocks, "c07.race.socks5", e.N(500, 12000))
		runPart(e, pHTTP, "c07.race.http", e.N(400, 10000))
		runPart(e, pSSNone, "c07.race.ssnone", e.N(200, 5000))
	})
}

// schedules: the kind of case i is schedule[i % len]. Kinds:
//
//	e2e      real client <-> real server, random segmentation both ways
//	methods  SOCKS5 scripted client: method list of length 1..255, acceptable method at a chosen position or absent
//	authneg  scripted client presenting credentials that match nobody (every mutation and header shape)
//	early    scripted client: valid handshake and client data behind it in ONE transport write
//	cuts     one short scenario, run at every single and double cut point of both handshake streams (real client) and of the script (raw)
var schedules = map[string][]string{
	pSocks: {
		"e2e", "methods", "e2e", "authneg", "e2e", "early", "e2e", "methods", "e2e", "authneg",
		"e2e", "early", "e2e", "methods", "e2e", "authneg", "e2e", "early", "e2e", "methods",
		"e2e", "methods", "e2e", "authneg", "e2e", "early", "e2e", "methods", "e2e", "authneg",
		"e2e", "early", "e2e", "methods", "e2e", "authneg", "e2e", "methods", "e2e", "cuts",
	},
	pHTTP: {
		"e2e", "early", "e2e", "authneg", "e2e", "early", "e2e", "authneg", "e2e", "authneg",
		"e2e", "early", "e2e", "authneg", "e2e", "early", "e2e", "authneg", "e2e", "e2e",
		"e2e", "early", "e2e", "authneg", "e2e", "early", "e2e", "authneg", "e2e", "authneg",
		"e2e", "early", "e2e", "authneg", "e2e", "early", "e2e", "authneg", "e2e", "cuts",
	},
	pSSNone: {"e2e", "early", "e2e", "early", "e2e", "e2e", "early", "e2e", "e2e", "e2e",
		"e2e", "early", "e2e", "early", "e2e", "e2e", "early", "e2e", "e2e", "cuts"},
}

// kindSeq returns the kind of case i and how many cases of that kind precede it.
func kindSeq(proto string, i int) (string, int) {
	s := schedules[proto]
	kind := s[i%len(s)]
	per, before := 0, 0
	for j, k := range s {
		if k == kind {
			per++
			if j < i%len(s) {
				before++
			}
		}
	}
	return kind, (i/len(s))*per + before
}

// ---- SOCKS5 method-list enumeration: (list length n, position of the acceptable method or absent, auth mode) ----

const methodCombos = 255*256/2 + 255 // sum over n of (n positions + absent)

var methodPrefix = func() (p [257]int) {
	for n := 1; n <= 255; n++ {
		p[n+1] = p[n] + n + 1
	}
	return
}()

// methodCombo decodes q in [0, 2*methodCombos): pos == n means absent.
func methodCombo(q int) (n, pos int, authOn bool) {
	authOn = q >= methodCombos
	q %= methodCombos
	for n = 1; n < 255 && methodPrefix[n+1] <= q; n++ {
	}
	return n, q - methodPrefix[n], authOn
}

// ---- coverage of the quantifier's ranges, counted only over runs that passed ----

type coverage struct {
	mu                     sync.Mutex
	domLen, uLen, pLen, nM [256]bool
	domByte, uByte, pByte  [256]bool
	codes                  [256]bool
	combos                 map[int]struct{}
}

// noteCombo records a decided (method-list length, position of the acceptable method | absent, auth mode) combination.
func (c *coverage) noteCombo(sc *scen) {
	n := len(sc.Methods)
	pos := indexByte(sc.Methods, map[bool]byte{false: 0, true: 2}[sc.AuthOn])
	if pos < 0 {
		pos = n
	}
	id := methodPrefix[n] + pos
	if sc.AuthOn {
		id += methodCombos
	}
	c.mu.Lock()
	if c.combos == nil {
		c.combos = map[int]struct{}{}
	}
	c.combos[id] = struct{}{}
	c.mu.Unlock()
}

func (c *coverage) note(sc *scen) {
	c.mu.Lock()
	defer c.mu.Unlock()
	if sc.T.Kind == "domain" {
		c.domLen[len(sc.T.Domain)] = true
		for k := 0; k < len(sc.T.Domain); k++ {
			c.domByte[sc.T.Domain[k]] = true
		}
	}
	if sc.AuthOn && sc.Presents {
		c.uLen[min(len(sc.Cred.U), 255)], c.pLen[min(len(sc.Cred.P), 255)] = true, true
		for k := 0; k < len(sc.Cred.U); k++ {
			c.uByte[sc.Cred.U[k]] = true
		}
		for k := 0; k < len(sc.Cred.P); k++ {
			c.pByte[sc.Cred.P[k]] = true
		}
	}
	if sc.Proto == pSocks {
		c.nM[len(sc.Methods)] = true
	}
	if sc.Abort {
		c.codes[sc.Code] = true
	}
}

func count(b *[256]bool) (n int64) {
	for _, x := range b {
		if x {
			n++
		}
	}
	return
}

func (c *coverage) report(rec *core.Rec, stream string) {
	c.mu.Lock()
	defer c.mu.Unlock()
	rec.Max(stream+".domain_lengths_seen(of 255)", count(&c.domLen))
	rec.Max(stream+".domain_byte_values_seen", count(&c.domByte))
	rec.Max(stream+".username_lengths_seen(of 255)", count(&c.uLen))
	rec.Max(stream+".password_lengths_seen(of 255)", count(&c.pLen))
	rec.Max(stream+".username_byte_values_seen", count(&c.uByte))
	rec.Max(stream+".password_byte_values_seen", count(&c.pByte))
	rec.Max(stream+".method_list_lengths_seen(of 255)", count(&c.nM))
	rec.Max(stream+".dial_codes_seen", count(&c.codes))
	if len(c.combos) > 0 {
		rec.Max(fmt.Sprintf("%s.method_list_combinations_seen(of %d)", stream, 2*methodCombos), int64(len(c.combos)))
	}
}

// ---- scenario generators ----

func genServerSide(r *core.RNG, i int, sc *scen, short bool) {
	sc.AuthOn = r.Bool()
	if sc.AuthOn || r.Chance(1, 8) {
		sc.Users = genUsers(r, i, sc.Proto, short) // a user list without authentication enabled is ignored
	}
	if sc.Proto == pSocks {
		switch x := r.Intn(20); {
		case x < 10:
			sc.TCP, sc.UDP = true, false
		case x < 15:
			sc.TCP, sc.UDP = true, true
		case x < 18:
			sc.TCP, sc.UDP = false, true
		}
		sc.Local = genLocal(r)
		sc.Cmd = 1
	}
}

func genDecision(r *core.RNG, sc *scen) {
	sc.Abort = r.Chance(2, 5)
	if sc.Abort {
		if r.Chance(1, 8) {
			sc.Code = conn.DialResultCode(r.Intn(256))
		} else {
			sc.Code = dialCodes[r.Intn(len(dialCodes))]
		}
	}
}

func genData(r *core.RNG, sc *scen, short bool) {
	big := 5000
	if short {
		big = 6
	}
	sc.Payload = r.Pick(0, 0, 1, 2, r.Range(1, big))
	for k := r.Range(0, 3); k > 0; k-- {
		sc.CData = append(sc.CData, r.Pick(1, 2, r.Range(1, big)))
	}
	sc.SFirst = r.Pick(0, 1, 2, 3, r.Range(1, 600), r.Range(1, big)) // beyond 4096 it overflows a bufio.Reader on the client
	for k := r.Range(0, 3); k > 0; k-- {
		sc.SData = append(sc.SData, r.Pick(1, 2, r.Range(1, big)))
	}
	sc.CRead = r.PickStr("read", "read", "writeto")
	sc.Early = r.Pick(1, 2, 3, r.Range(1, 64), r.Range(1, big))
}

// genPresented decides what the client presents: the matching mode with valid
// credentials most of the time, else a mutation or the wrong mode.
func genPresented(r *core.RNG, sc *scen) {
	sc.Presents = sc.AuthOn
	if r.Chance(1, 12) {
		sc.Presents = !sc.Presents
	}
	sc.CredMut = "none"
	if sc.Presents {
		if sc.AuthOn && len(sc.Users) > 0 && r.Chance(2, 3) {
			sc.Cred, sc.CredMut = sc.Users[r.Intn(len(sc.Users))], "ok"
		} else {
			sc.Cred, sc.CredMut = mutateCred(r, sc.Users, sc.Proto)
			if matches(sc.Users, sc.Cred) {
				sc.CredMut = "ok(by mutation)"
			}
		}
	}
	if sc.Proto == pSocks {
		sc.Methods = []byte{0}
		if sc.Presents {
			sc.Methods = []byte{2}
		}
	}
}

func hsLens(sc *scen) (c2s, s2c int) {
	switch sc.Proto {
	case pSocks:
		c2s = 2 + len(sc.Methods) + 4 + len(sc.T.socksWire())
		s2c = 2 + 10
		if sc.Presents {
			c2s += 3 + len(sc.Cred.U) + len(sc.Cred.P)
			s2c += 2
		}
	case pHTTP:
		c2s = len(httpConnectHead(sc.T, "", false)) + 40
		if sc.Presents {
			c2s += 40 + (len(sc.Cred.U)+len(sc.Cred.P))*4/3
		}
		s2c = 19
	default:
		c2s = len(sc.T.socksWire())
	}
	return
}

func genE2E(r *core.RNG, i int, proto string, short bool) *scen {
	sc := &scen{Proto: proto, Mode: "e2e"}
	sc.T = genTarget(r, i, proto, short)
	if proto != pSSNone {
		genServerSide(r, i, sc, short)
		genPresented(r, sc)
		if proto == pSocks && r.Chance(1, 4) {
			sc.Cmd = 3
		}
	}
	genDecision(r, sc)
	genData(r, sc, short)
	a, b := hsLens(sc)
	sc.SegC2S, sc.SegS2C = genSeg(r, a+min(sc.Payload, 4)), genSeg(r, b+min(sc.SFirst, 8))
	return sc
}

func genMethods(r *core.RNG, i, seq int) *scen {
	sc := &scen{Proto: pSocks, Mode: "raw"}
	sc.T = genTarget(r, i, pSocks, false)
	genServerSide(r, i, sc, false)
	// three cases out of four walk the enumeration of (n, position|absent, auth mode) with a stride
	// coprime to its size, so that thorough visits every combination; the fourth is boundary-biased
	n, pos, authOn := methodCombo((((seq/4)*3 + seq%4) * 7919) % (2 * methodCombos))
	if seq%4 == 3 {
		n, authOn = 1+(seq/4)%255, r.Bool() // every list length within 1020 method cases
		pos = min(max(r.Pick(0, 0, 1, n-2, n-1, n-1, n, r.Intn(n)), 0), n)
	}
	sc.AuthOn = authOn
	if authOn && len(sc.Users) == 0 {
		sc.Users = []cred{{U: genCredBytes(r, r.Range(1, 255), false, false), P: genCredBytes(r, r.Range(1, 255), false, false)}}
	}
	acceptable, other := byte(0), byte(2)
	if authOn {
		acceptable, other = 2, 0
	}
	sc.Methods = r.Bytes(n)
	for k := range sc.Methods {
		for sc.Methods[k] == acceptable {
			sc.Methods[k] = byte(r.Intn(256))
		}
		if r.Chance(1, 6) {
			sc.Methods[k] = other // the method of the other mode is on offer, possibly alone: it must not open the gate
		}
	}
	if pos < n {
		sc.Methods[pos] = acceptable
	}
	sc.Presents = authOn
	sc.CredMut = "none"
	if authOn {
		sc.Cred, sc.CredMut = sc.Users[r.Intn(len(sc.Users))], "ok"
	} else if pos == n && r.Chance(1, 3) {
		sc.Presents, sc.Cred = true, cred{U: "u", P: "p"} // keeps talking RFC 1929 to a server that selected nothing
	}
	sc.Hostile = r.Bool()
	genDecision(r, sc)
	genData(r, sc, false)
	sc.SegC2S = genSeg(r, 2+n+8)
	return sc
}

func genAuthNeg(r *core.RNG, i int, proto string) *scen {
	sc := &scen{Proto: proto, Mode: "raw"}
	sc.T = genTarget(r, i, proto, false)
	genServerSide(r, i, sc, false)
	sc.AuthOn = true
	if r.Chance(1, 6) {
		sc.Users = nil // authentication enabled, nobody configured: nobody may pass
	} else if len(sc.Users) == 0 {
		sc.Users = genUsers(r, i+1, proto, false)
	}
	sc.Presents = true
	sc.Methods = []byte{2}
	if proto == pSocks && r.Chance(1, 3) {
		sc.Methods = []byte{0, 2, 1}
	}
	sc.HdrForm = posForms[r.Intn(len(posForms))]
	if proto == pHTTP && len(sc.Users) > 0 && r.Chance(2, 5) {
		// the right token under the wrong scheme, in the wrong place, or not at all
		sc.Cred, sc.CredMut = sc.Users[r.Intn(len(sc.Users))], "ok"
		sc.HdrForm = negForms[r.Intn(len(negForms))]
		sc.Presents = sc.HdrForm != "absent"
	} else {
		sc.Cred, sc.CredMut = mutateCred(r, sc.Users, proto)
		if matches(sc.Users, sc.Cred) {
			sc.CredMut = "ok(by mutation)"
		}
	}
	if proto == pHTTP {
		sc.Retry = r.Pick(0, 0, 1, 2)
		if sc.Retry > 0 && r.Chance(1, 3) {
			sc.RetryBody = r.Pick(1, 4096, 65535, 65536, 65537, 100000, 1<<20)
		}
	}
	sc.Hostile = r.Bool()
	genDecision(r, sc)
	genData(r, sc, false)
	a, _ := hsLens(sc)
	sc.SegC2S = genSeg(r, a)
	return sc
}

func genEarly(r *core.RNG, i int, proto string) *scen {
	sc := &scen{Proto: proto, Mode: "raw"}
	sc.T = genTarget(r, i, proto, false)
	if proto != pSSNone {
		genServerSide(r, i, sc, false)
		if sc.AuthOn && len(sc.Users) == 0 {
			sc.Users = genUsers(r, i+1, proto, false)
			if len(sc.Users) == 0 {
				sc.AuthOn = false
			}
		}
		sc.Presents, sc.CredMut = sc.AuthOn, "none"
		if sc.AuthOn {
			sc.Cred, sc.CredMut = sc.Users[r.Intn(len(sc.Users))], "ok"
		}
		sc.HdrForm = posForms[r.Intn(len(posForms))]
		if proto == pHTTP {
			if !sc.AuthOn && r.Chance(1, 3) {
				sc.Presents, sc.Cred = true, cred{U: "ignored", P: "ignored"} // without authentication the header is not looked at
			}
			if sc.AuthOn {
				sc.Retry = r.Pick(0, 0, 0, 1, 2)
			}
		}
		if proto == pSocks {
			sc.Methods = []byte{0}
			if sc.AuthOn {
				sc.Methods = []byte{2}
			}
			if r.Chance(1, 4) {
				sc.Methods = append([]byte{1, 3, 0x80}, sc.Methods...)
			}
			switch x := r.Intn(20); {
			case x < 3:
				sc.Cmd = 3
			case x < 6:
				sc.Cmd = byte(r.Pick(0, 2, 4, 0x80, 0xff, r.Intn(256))) // BIND and unassigned commands must not be taken for CONNECT
			}
		}
	}
	genDecision(r, sc)
	genData(r, sc, false)
	a, _ := hsLens(sc)
	sc.SegC2S = genSeg(r, a+min(sc.Early, 6))
	return sc
}

// enumCuts lists cut sets over a stream of n bytes: none, every single cut,
// every pair when n <= 64 (else a sample), and a few random k-cuts.
func enumCuts(r *core.RNG, n int) [][]int {
	out := [][]int{nil}
	if n < 2 {
		return out
	}
	for a := 1; a < n; a++ {
		out = append(out, []int{a})
	}
	if n <= 64 {
		for a := 1; a < n; a++ {
			for b := a + 1; b < n; b++ {
				out = append(out, []int{a, b})
			}
		}
	} else {
		for k := 0; k < 150; k++ {
			a, b := r.Range(1, n-1), r.Range(1, n-1)
			if a > b {
				a, b = b, a
			}
			out = append(out, []int{a, b})
		}
	}
	for k := 0; k < 20 && n > 4; k++ {
		m := r.Range(3, 6)
		set := map[int]bool{}
		for j := 0; j < m; j++ {
			set[r.Range(1, n-1)] = true
		}
		var c []int
		for a := 1; a < n; a++ {
			if set[a] {
				c = append(c, a)
			}
		}
		out = append(out, c)
	}
	return out
}

// ---- part runner ----

func runPart(e *core.Env, proto, stream string, n int) {
	rec := e.Rec
	race := e.Part == "race"
	if !race || proto == pSocks {
		rec.Rule("one case = one scenario (protocol; target kind/length/port; auth mode and user list; credentials presented and their mutation; SOCKS5 method list, command, TCP/UDP enablement; Proceed or Abort(code); data sizes incl. server-first bytes written with the reply and client bytes written with the handshake; segmentation of both directions), kind by case index: e2e = real client vs real server, methods/authneg/early = scripted raw client, cuts = one short scenario replayed at every single (and, up to 64 bytes, double) cut point. evaluations = runs; a class = (kind, target kind, auth, credential mutation / header form, expected outcome), (protocol, segmentation pair, outcome) or (protocol, dial code -> reply); counted only for runs that were executed against the real server and decided by the oracle. thorough enumerates every (method-list length 1..255, position|absent, auth mode)")
	}
	cov := &coverage{}
	core.Parallel(e, proto, n, 16, func(i int) {
		r := core.NewRNG(e.Seed, stream, i)
		kind, seq := kindSeq(proto, i)
		if race && kind != "e2e" {
			kind = "e2e"
		}
		if kind == "cuts" && !e.Quick() && (i/len(schedules[proto]))%2 != 0 {
			kind = "e2e" // thorough scales the random kinds 50x, the (expensive, enumerating) cut cases 25x
		}
		rec.Begin(proto, i, kind)
		// Each case runs in its own synctest bubble: nothing in the harness waits on real time, the transports never
		// block a writer and every connection is closed by its owner, so if all goroutines of the exchange end up
		// blocked for good, a side is waiting for bytes the other one has already sent or will never send.
		dead := ""
		ok := core.Watchdog(90*time.Second, func() {
			dead = core.Bubble(e, func() { runCase(e, proto, kind, i, seq, r, cov) })
		})
		if !ok {
			rec.Inconclusive("watchdog")
			rec.Eval()
		}
		if dead != "" {
			rec.Eval()
			rec.Violate(proto, i, core.Sig("kind", "exchange_blocked_for_good", "proto", proto, "case_kind", kind), map[string]any{"runtime": dead},
				"%s case %d (%s): every goroutine of the handshake/relay exchange is blocked for good: %s", proto, i, kind, dead)
		}
	})
	cov.report(rec, stream)
}

func runCase(e *core.Env, proto, kind string, i, seq int, r *core.RNG, cov *coverage) {
	rec := e.Rec
	k := &checker{rec: rec, sub: proto, i: i, cov: cov}
	one := func(sc *scen, o *obs, label string) {
		out := k.check(sc, o)
		rec.Eval()
		rec.Count("runs."+label, 1)
		if out == "harness" {
			return
		}
		auth := fmt.Sprintf("auth=%t/%s", sc.AuthOn, sc.CredMut)
		if sc.Proto == pHTTP && sc.Mode == "raw" {
			auth += "/" + sc.HdrForm
		}
		rec.Class("%s/%s/%s/%s/%s", label, sc.Proto, sc.T.Kind, auth, out)
		rec.Class("seg/%s/%s/c2s=%s/s2c=%s/%s", sc.Proto, sc.Mode, sc.SegC2S.Name, sc.SegS2C.Name, out)
		if out == "abort" {
			rec.Class("abort/%s/code=%d", sc.Proto, sc.Code)
		}
		if out == "proceed" {
			rec.Count("stream_bytes_compared", int64(len(o.srv.got)+len(o.cli.got)))
			if sc.SFirst > 0 {
				rec.Count("runs_with_server_first_data_in_reply_segment", 1)
			}
			if sc.Mode == "raw" && sc.Early > 0 {
				rec.Count("runs_with_client_data_in_handshake_write", 1)
			}
			if o.cliPath == "writeto" {
				rec.Count("client_reads_via_WriterTo", 1)
			}
		}
	}
	switch kind {
	case "e2e":
		sc := genE2E(r, i, proto, false)
		o := runE2E(sc)
		one(sc, o, "e2e")
		rec.Sample(4, sc.desc())
	case "methods":
		sc := genMethods(r, i, seq)
		o := runRaw(sc, rawScript(sc))
		before := k.nvio
		one(sc, o, "methods")
		if k.nvio == before {
			cov.noteCombo(sc)
		}
		pos := "absent"
		if p := indexByte(sc.Methods, map[bool]byte{false: 0, true: 2}[sc.AuthOn]); p >= 0 {
			pos = map[bool]string{true: "first", false: "inner"}[p == 0]
			if p == len(sc.Methods)-1 && p > 0 {
				pos = "last"
			}
		}
		rec.Class("methods/auth=%t/n=%s/pos=%s/hostile=%t", sc.AuthOn, lenClass(len(sc.Methods)), pos, sc.Hostile)
	case "authneg":
		sc := genAuthNeg(r, i, proto)
		o := runRaw(sc, rawScript(sc))
		one(sc, o, "authneg")
		rec.Sample(6, sc.desc())
	case "early":
		sc := genEarly(r, i, proto)
		o := runRaw(sc, rawScript(sc))
		one(sc, o, "early")
		rec.Sample(8, sc.desc())
	case "cuts":
		base := genE2E(r, i, proto, true)
		// the dry run measures both handshake streams as the real implementations produce them
		base.SegC2S, base.SegS2C = segSpec{Name: "whole"}, segSpec{Name: "whole"}
		o := runE2E(base)
		one(base, o, "cuts-e2e")
		ex := base.expect()
		lc, ls := len(o.cSent), len(o.sSent)
		if ex.Outcome == "proceed" {
			// cut a few bytes into the data as well: the boundary handshake/data is the interesting one
			lc -= max(0, len(base.c2sData())-3)
			ls -= max(0, len(base.s2cData())-4)
		}
		C, S := enumCuts(r, lc), enumCuts(r, ls)
		for j := 0; j < max(len(C), len(S)); j++ {
			sc := *base
			sc.SegC2S, sc.SegS2C = cutsSeg(C[j%len(C)]...), cutsSeg(S[j%len(S)]...)
			one(&sc, runE2E(&sc), "cuts-e2e")
		}
		rs := *base
		rs.Mode, rs.HdrForm, rs.SegS2C = "raw", "canonical", segSpec{Name: "whole"}
		rs.Early = r.Range(1, 6)
		script := rawScript(&rs)
		for _, c := range enumCuts(r, len(script)) {
			sc := rs
			sc.SegC2S = cutsSeg(c...)
			one(&sc, runRaw(&sc, script), "cuts-raw")
		}
		rec.Count("cut_enumerations", 1)
		rec.Max("longest_exhaustively_cut_stream", int64(min(64, max(min(lc, 64), min(len(script), 64)))))
	}
}

func indexByte(b []byte, c byte) int {
	for k := range b {
		if b[k] == c {
			return k
		}
	}
	return -1
}

func lenClass(n int) string {
	switch {
	case n <= 2:
		return fmt.Sprint(n)
	case n < 254:
		return "3..253"
	}
	return fmt.Sprint(n)
}
