package c07

import (
	"bufio"
	"bytes"
	"encoding/binary"
	"errors"
	"fmt"
	"io"
	"net/http"
	"net/netip"
	"strings"

	"github.com/database64128/shadowsocks-go/httpproxy"
	"github.com/database64128/shadowsocks-go/netio"
	"github.com/database64128/shadowsocks-go/socks5"

	"verif/core"
)

// expect is what the statement demands for a scenario, derived from the
// scenario alone (never from what the code did).
type expect struct {
	// Outcome: no_method | auth_fail | cmd_unsupported | udp | abort | proceed
	Outcome string
	// User is the identity the server must report with the request.
	User string
	// Reply is the SOCKS5 REP value the client must be shown (abort / cmd_unsupported).
	Reply byte
}

func (ex expect) requestExpected() bool {
	return ex.Outcome == "udp" || ex.Outcome == "abort" || ex.Outcome == "proceed"
}

func (sc *scen) expect() expect {
	var ex expect
	connect := true
	switch sc.Proto {
	case pSocks:
		// The server accepts exactly one method: username/password when
		// authentication is enabled, "no authentication required" otherwise.
		acceptable := byte(0)
		if sc.AuthOn {
			acceptable = 2
		}
		if bytes.IndexByte(sc.Methods, acceptable) < 0 {
			return expect{Outcome: "no_method"}
		}
		if sc.AuthOn {
			if !sc.Presents || !matches(sc.Users, sc.Cred) {
				return expect{Outcome: "auth_fail"}
			}
			ex.User = sc.Cred.U
		}
		switch {
		case sc.Cmd == 1 && sc.TCP:
		case sc.Cmd == 3 && sc.UDP:
			connect = false
			ex.Outcome = "udp"
		default:
			return expect{Outcome: "cmd_unsupported", User: ex.User, Reply: 7}
		}
	case pHTTP:
		if sc.AuthOn {
			ok := sc.Presents && matches(sc.Users, sc.Cred)
			if ok && sc.Mode == "raw" {
				_, ok = authLineForm(sc.HdrForm, sc.Cred)
			}
			if !ok {
				return expect{Outcome: "auth_fail"}
			}
			ex.User = sc.Cred.U
		}
	}
	if connect {
		if sc.Abort {
			ex.Outcome, ex.Reply = "abort", socksReplyFor(sc.Code)
		} else {
			ex.Outcome = "proceed"
		}
	}
	return ex
}

// sameTarget decides whether the address the server reported is the address asked for.
//   - IP addresses compare after unmapping (an IPv4-mapped IPv6 address and
//     the IPv4 address are the same endpoint; SOCKS5 clients send the latter).
//   - Domain names compare byte for byte; over HTTP, where the target is text,
//     ASCII case is not significant and a name that is an IP literal may be
//     reported as that IP address.
func sameTarget(s addrSnap, t target, proto string) bool {
	if !s.Valid || s.Port != t.Port {
		return false
	}
	if t.Kind == "domain" {
		if proto == pHTTP {
			if ip, err := netip.ParseAddr(t.Domain); err == nil {
				return s.IsIP && s.IP.Unmap() == ip.Unmap()
			}
			return !s.IsIP && strings.EqualFold(s.Domain, t.Domain)
		}
		return !s.IsIP && s.Domain == t.Domain
	}
	return s.IsIP && s.IP.Unmap() == t.IP.Unmap()
}

// s5Replies is the server-to-client byte stream of a SOCKS5 exchange split by the RFC formats.
type s5Replies struct {
	Method  int // -1: absent
	AuthVer int
	AuthSt  int
	Rep     int
	Bnd     addrSnap
	Rest    []byte
	Bad     string
}

func parseS5(b []byte) (p s5Replies) {
	p.Method, p.AuthVer, p.AuthSt, p.Rep = -1, -1, -1, -1
	if len(b) == 0 {
		return
	}
	if len(b) < 2 || b[0] != 5 {
		p.Bad = "malformed method selection reply"
		return
	}
	p.Method = int(b[1])
	b = b[2:]
	if p.Method == 0xff {
		p.Rest = b
		return
	}
	if p.Method == 2 {
		if len(b) == 0 {
			return
		}
		if len(b) < 2 {
			p.Bad = "truncated authentication reply"
			return
		}
		p.AuthVer, p.AuthSt = int(b[0]), int(b[1])
		b = b[2:]
		if p.AuthSt != 0 {
			p.Rest = b
			return
		}
	}
	if len(b) == 0 {
		return
	}
	if len(b) < 4 || b[0] != 5 || b[2] != 0 {
		p.Bad = "malformed reply head"
		return
	}
	p.Rep = int(b[1])
	var n int
	switch b[3] {
	case 1:
		n = 4
	case 4:
		n = 16
	case 3:
		if len(b) < 5 {
			p.Bad = "truncated reply"
			return
		}
		n = 1 + int(b[4])
	default:
		p.Bad = "reply with unknown ATYP"
		return
	}
	if len(b) < 4+n+2 {
		p.Bad = "truncated reply"
		return
	}
	a := b[4 : 4+n]
	p.Bnd = addrSnap{Valid: true, Port: binary.BigEndian.Uint16(b[4+n:])}
	switch b[3] {
	case 1:
		p.Bnd.IsIP, p.Bnd.IP = true, netip.AddrFrom4([4]byte(a))
	case 4:
		p.Bnd.IsIP, p.Bnd.IP = true, netip.AddrFrom16([16]byte(a))
	default:
		p.Bnd.Domain = string(a[1:])
	}
	p.Rest = b[4+n+2:]
	return
}

// httpReplies: the status codes of the response heads in the server's byte stream and what follows the final one.
type httpReplies struct {
	Codes []int
	Rest  []byte
	Bad   string
}

func parseHTTP(b []byte) (p httpReplies) {
	br := bufio.NewReader(bytes.NewReader(b))
	for {
		if _, err := br.Peek(1); err != nil {
			return
		}
		resp, err := http.ReadResponse(br, &http.Request{Method: http.MethodConnect})
		if err != nil {
			p.Bad = "unparsable response: " + err.Error()
			return
		}
		p.Codes = append(p.Codes, resp.StatusCode)
		if resp.StatusCode != 407 {
			p.Rest, _ = io.ReadAll(br)
			return
		}
	}
}

type checker struct {
	rec  *core.Rec
	sub  string
	i    int
	cov  *coverage
	nvio int
}

func errStr(err error) string {
	if err == nil {
		return "<nil>"
	}
	return err.Error()
}

func (k *checker) viol(sc *scen, o *obs, kind, dir, format string, a ...any) {
	k.nvio++
	d := sc.desc()
	d["observed"] = map[string]any{
		"handle_stream_err": errStr(o.hsErr), "pending_conn": o.hasPC, "dial_err": errStr(o.dialErr),
		"addr_at_return": o.addr[0].String(), "addr_after_decision": o.addr[1].String(), "addr_at_end": o.addr[2].String(),
		"user_at_return": core.Hex([]byte(o.user[0]), 32),
		"client_sent":    core.Hex(o.cSent, 400), "server_sent": core.Hex(o.sSent, 200),
		"server_read": core.Hex(o.srv.got, 64), "server_read_len": len(o.srv.got), "server_read_err": errStr(o.srv.err),
		"client_read_len": max(len(o.cli.got), len(o.rawS2C.got)), "client_read_err": errStr(o.cli.err),
	}
	kv := []string{"kind", kind, "proto", sc.Proto}
	if dir != "" {
		kv = append(kv, "dir", dir)
	}
	k.rec.Violate(k.sub, k.i, core.Sig(kv...), d, "%s %s: "+format, append([]any{sc.Proto, sc.Mode}, a...)...)
}

// check applies the oracle to one run. It returns the outcome label for classes.
func (k *checker) check(sc *scen, o *obs) string {
	ex := sc.expect()
	if o.harness != "" {
		k.rec.Inconclusive("harness:" + o.harness)
		return "harness"
	}
	before := k.nvio

	// ---- 1. the gate: a request reaches the application iff the statement allows one ----
	udpDone := errors.Is(o.hsErr, netio.ErrHandleStreamDone)
	gotReq := (o.hsErr == nil && o.hasPC) || udpDone
	switch {
	case gotReq && !ex.requestExpected():
		kind := map[string]string{"auth_fail": "auth_bypass", "no_method": "method_gate_bypass", "cmd_unsupported": "command_gate_bypass"}[ex.Outcome]
		k.viol(sc, o, kind, "", "the server produced a request (addr %s user %q) although the expected outcome is %s (mutation %s)", o.addr[0], o.user[0], ex.Outcome, sc.CredMut)
		return ex.Outcome
	case !gotReq && ex.requestExpected():
		k.viol(sc, o, "valid_request_refused", "", "expected outcome %s but HandleStream returned err=%v pendingConn=%v", ex.Outcome, o.hsErr, o.hasPC)
		return ex.Outcome
	case o.hsErr == nil && !o.hasPC:
		k.viol(sc, o, "nil_pending_conn", "", "HandleStream returned neither an error nor a pending connection")
		return ex.Outcome
	}
	if (ex.Outcome == "udp") != udpDone {
		k.viol(sc, o, "command_confused", "", "expected outcome %s, HandleStream err=%v", ex.Outcome, o.hsErr)
		return ex.Outcome
	}

	// ---- 2. what the server extracted: address, identity; both stay intact afterwards ----
	{
		// (for an unsupported command the server still reports the address it parsed; the statement only constrains it when a request is produced)
		if gotReq {
			if !sameTarget(o.addr[0], sc.T, sc.Proto) {
				k.viol(sc, o, "addr_mismatch", "", "client asked for %s, server reported %s", sc.T, o.addr[0])
			} else {
				for s := 1; s < o.snaps; s++ {
					if o.addr[s] != o.addr[0] {
						k.viol(sc, o, "addr_changed_after_decision", "", "request address read %s at HandleStream return but %s later (snapshot %d)", o.addr[0], o.addr[s], s)
						break
					}
				}
			}
			if o.user[0] != ex.User {
				k.viol(sc, o, "username_mismatch", "", "expected identity %q, server reported %q", ex.User, o.user[0])
			} else {
				for s := 1; s < o.snaps; s++ {
					if o.user[s] != o.user[0] {
						k.viol(sc, o, "username_changed_after_decision", "", "identity read %q at HandleStream return but %q later", o.user[0], o.user[s])
						break
					}
				}
			}
		}
	}
	if o.procErr != nil || o.abortErr != nil {
		k.viol(sc, o, "decision_failed", "", "Proceed err=%v Abort err=%v on a healthy transport", o.procErr, o.abortErr)
	}

	// ---- 3. what the client is shown ----
	if sc.Mode == "raw" {
		k.checkRawReplies(sc, o, ex)
	} else {
		k.checkClientView(sc, o, ex)
	}

	// ---- 4. the byte streams after the handshake ----
	if ex.Outcome == "proceed" && o.procErr == nil {
		k.checkStreams(sc, o)
	}
	if k.nvio == before && ex.requestExpected() {
		k.cov.note(sc)
	}
	return ex.Outcome
}

func (k *checker) checkClientView(sc *scen, o *obs, ex expect) {
	var rep socks5.ReplyError
	var meth socks5.UnsupportedAuthMethodError
	var st httpproxy.ConnectNonSuccessfulResponseError
	wrong := func(want string) {
		k.viol(sc, o, "reply_mismatch", "", "outcome %s: the client should see %s, DialStream/request returned %v", ex.Outcome, want, o.dialErr)
	}
	switch ex.Outcome {
	case "proceed":
		if o.dialErr != nil {
			wrong("success")
		}
	case "udp":
		if o.dialErr != nil {
			wrong("success")
			return
		}
		// BND.ADDR/BND.PORT is where the client must send its datagrams: the address the control connection was accepted on
		want := sc.Local.AddrPort()
		b := snapAddr(o.bound)
		if !b.Valid || !b.IsIP || b.Port != want.Port() || b.IP.Unmap() != want.Addr().Unmap().WithZone("") {
			k.viol(sc, o, "udp_bound_addr_mismatch", "", "UDP ASSOCIATE reply carried %s, the control connection's local address is %s", b, want)
		}
	case "abort":
		switch sc.Proto {
		case pSocks:
			if ex.Reply == 0 {
				if o.dialErr != nil {
					wrong("reply 0")
				}
			} else if !errors.As(o.dialErr, &rep) || byte(rep) != ex.Reply {
				wrong(fmt.Sprintf("reply %d for dial code %d", ex.Reply, sc.Code))
			}
		case pHTTP:
			if !errors.As(o.dialErr, &st) || st.StatusCode != 502 {
				wrong("status 502")
			}
		default:
			// Shadowsocks "none" has no reply: nothing may be written towards the client
			if len(o.sSent) != 0 {
				k.viol(sc, o, "bytes_after_abort", "s2c", "Abort put %d bytes on a protocol without replies", len(o.sSent))
			}
		}
	case "no_method":
		if !errors.As(o.dialErr, &meth) || byte(meth) != 0xff {
			wrong("method 0xFF (no acceptable methods)")
		}
	case "auth_fail":
		if sc.Proto == pSocks {
			if !errors.Is(o.dialErr, socks5.ErrIncorrectUsernamePassword) {
				wrong("a failure status of the username/password sub-negotiation")
			}
		} else if !errors.As(o.dialErr, &st) || st.StatusCode != 407 {
			wrong("status 407")
		}
	case "cmd_unsupported":
		if !errors.As(o.dialErr, &rep) || byte(rep) != 7 {
			wrong("reply 7 (command not supported)")
		}
	}
}

func (k *checker) checkRawReplies(sc *scen, o *obs, ex expect) {
	if o.rawS2C.err != nil || !o.rawS2C.eof {
		k.viol(sc, o, "server_stream_not_closed", "s2c", "reading the server's bytes ended with err=%v eof=%v", o.rawS2C.err, o.rawS2C.eof)
		return
	}
	all := o.rawS2C.got
	wrong := func(format string, a ...any) {
		k.viol(sc, o, "reply_mismatch", "", "outcome %s, server bytes %s: %s", ex.Outcome, core.Hex(all, 48), fmt.Sprintf(format, a...))
	}
	var rest []byte
	o.rawBad = true
	switch sc.Proto {
	case pSocks:
		p := parseS5(all)
		if p.Bad != "" {
			wrong("%s", p.Bad)
			return
		}
		acceptable := 0
		if sc.AuthOn {
			acceptable = 2
		}
		if ex.Outcome == "no_method" {
			if p.Method != 0xff || len(p.Rest) != 0 {
				wrong("expected exactly 05 FF")
			}
			return
		}
		if p.Method != acceptable {
			wrong("expected method %d to be selected, got %d", acceptable, p.Method)
			return
		}
		if sc.AuthOn {
			if p.AuthVer != 1 {
				wrong("authentication reply version %d", p.AuthVer)
				return
			}
			if ex.Outcome == "auth_fail" {
				if p.AuthSt <= 0 || len(p.Rest) != 0 {
					wrong("expected a non-zero authentication status and nothing after it")
				}
				return
			}
			if p.AuthSt != 0 {
				wrong("expected authentication status 0, got %d", p.AuthSt)
				return
			}
		}
		wantRep := int(ex.Reply)
		if ex.Outcome == "udp" || ex.Outcome == "proceed" {
			wantRep = 0
		}
		if p.Rep != wantRep {
			wrong("expected reply %d, got %d", wantRep, p.Rep)
			return
		}
		if ex.Outcome == "udp" {
			want := sc.Local.AddrPort()
			if !p.Bnd.IsIP || p.Bnd.Port != want.Port() || p.Bnd.IP.Unmap() != want.Addr().Unmap().WithZone("") {
				k.viol(sc, o, "udp_bound_addr_mismatch", "", "UDP ASSOCIATE reply carried %s, the control connection's local address is %s", p.Bnd, want)
			}
		}
		rest = p.Rest
	case pHTTP:
		p := parseHTTP(all)
		if p.Bad != "" {
			wrong("%s", p.Bad)
			return
		}
		n407 := sc.Retry
		final := map[string]int{"proceed": 200, "abort": 502}[ex.Outcome]
		if ex.Outcome == "auth_fail" {
			// every request without valid credentials is answered 407; a hostile tail may add a 400 for what is no HTTP at all
			if len(p.Codes) < 1+n407 {
				wrong("expected %d responses with status 407, got %v", 1+n407, p.Codes)
				return
			}
			for _, c := range p.Codes {
				if c != 407 && c != 400 {
					wrong("expected only 407 (and 400 for garbage), got %v", p.Codes)
					return
				}
			}
			return
		}
		if len(p.Codes) != n407+1 || p.Codes[n407] != final {
			wrong("expected %d x 407 then %d, got %v", n407, final, p.Codes)
			return
		}
		for _, c := range p.Codes[:n407] {
			if c != 407 {
				wrong("expected %d x 407 then %d, got %v", n407, final, p.Codes)
				return
			}
		}
		rest = p.Rest
	default:
		rest = all
	}
	if ex.Outcome != "proceed" {
		if len(rest) != 0 {
			k.viol(sc, o, "bytes_after_final_reply", "s2c", "outcome %s but %d bytes follow the reply", ex.Outcome, len(rest))
		}
		return
	}
	// in raw mode the client's view of the server's data is what follows the success reply
	o.cli = rd{got: rest, eof: true}
	o.rawBad = false
}

// checkStreams: after the handshake each side reads exactly what the other
// wrote -- once, in order, then EOF.
func (k *checker) checkStreams(sc *scen, o *obs) {
	wantC, wantS := sc.c2sData(), sc.s2cData()
	if d := core.FirstDiff(o.srv.got, wantC); d >= 0 || o.srv.err != nil || !o.srv.eof {
		kind := "stream_mismatch"
		if sc.Mode == "raw" {
			// these bytes travelled right behind the handshake, in the same transport write
			switch {
			case len(o.srv.got) < len(wantC):
				kind = "early_data_lost"
			case len(o.srv.got) > len(wantC):
				kind = "early_data_duplicated"
			default:
				kind = "early_data_corrupted"
			}
		}
		k.viol(sc, o, kind, "c2s", "client wrote %d bytes after the handshake (%s), the server read %d (first difference at %d, err=%v eof=%v): want %s got %s",
			len(wantC), sc.Mode, len(o.srv.got), d, o.srv.err, o.srv.eof, core.Hex(wantC, 16), core.Hex(o.srv.got, 16))
	}
	if o.rawBad {
		// the replies were already reported; what follows them cannot be told apart
	} else if d := core.FirstDiff(o.cli.got, wantS); d >= 0 || o.cli.err != nil || !o.cli.eof {
		kind := "stream_mismatch"
		if d >= 0 && d < sc.SFirst {
			kind = "server_first_data_lost"
		}
		k.viol(sc, o, kind, "s2c", "server wrote %d bytes after the reply (%d of them in the reply's segment), the client read %d (first difference at %d, err=%v eof=%v): want %s got %s",
			len(wantS), sc.SFirst, len(o.cli.got), d, o.cli.err, o.cli.eof, core.Hex(wantS, 16), core.Hex(o.cli.got, 16))
	}
	if o.srvWErr != nil || o.cliWErr != nil {
		k.viol(sc, o, "write_failed", "", "writes on the established stream failed: server %v client %v", o.srvWErr, o.cliWErr)
	}
}
