package c14

import (
	"fmt"
	"hash/fnv"
	"runtime"
	"strings"
	"sync"
	"sync/atomic"
	"time"

	"github.com/database64128/shadowsocks-go/stats"

	"verif/core"
)

// repeats is how many consecutive cases share one plan (same scripts) and differ only in the
// placement of yields: the number of distinct observation vectors among them measures how many
// different interleavings of the same workload the scheduler really produced.
const repeats = 8

type snapOp struct {
	reset  bool
	yields int
}

type colPlan struct {
	W, S     int
	Base     []string
	Late     []string
	Anon     bool
	ResetPr  int // of 8
	scripts  [][]call
	phase2At []int // per writer: index of the first phase-2 call
	obs      [][]snapOp
	expect   tally
	sessions int
	calls    int
}

var hostileNames = []string{"ü ser", "a b", "\x00", strings.Repeat("n", 300), "U1", "u1 "}

func genPlan(r *core.RNG) *colPlan {
	p := &colPlan{expect: tally{}}
	if r.Chance(3, 4) {
		p.W = r.Range(8, 32)
	} else {
		p.W = r.Range(2, 7)
	}
	p.S = r.Range(1, 4)
	p.ResetPr = r.Pick(0, 1, 4, 4, 8)
	for _, k := range r.Perm(5)[:r.Range(0, 5)] {
		p.Base = append(p.Base, fmt.Sprintf("u%d", k+1))
	}
	if r.Chance(1, 4) {
		p.Base = append(p.Base, hostileNames[r.Intn(len(hostileNames))])
	}
	p.Anon = r.Chance(2, 3) || len(p.Base) == 0
	if r.Chance(3, 4) {
		for k := range r.Range(1, 3) {
			p.Late = append(p.Late, fmt.Sprintf("late%d", k+1))
		}
	}
	ids := append([]string{}, p.Base...)
	if p.Anon {
		// the anonymous user is drawn as often as all named ones together at times
		ids = append(ids, "")
		if r.Bool() {
			ids = append(ids, "", "")
		}
	}
	p.scripts = make([][]call, p.W)
	place := func(s session) {
		p.expect.add(s.User, s.fig())
		p.sessions++
		for _, c := range s.calls() {
			// the two reports of a UDP session usually come from two different goroutines
			w := r.Intn(p.W)
			p.scripts[w] = append(p.scripts[w], c)
			p.calls++
		}
	}
	perW := r.Pick(0, 1, 3, 8, 20)
	for range perW * p.W {
		place(genSession(r, ids[r.Intn(len(ids))], 44))
	}
	p.phase2At = make([]int, p.W)
	for w := range p.scripts {
		p.phase2At[w] = len(p.scripts[w])
	}
	// phase 2: the late users join the population; first a burst so that several goroutines
	// meet the not-yet-existing user at about the same time
	for _, u := range p.Late {
		for range r.Range(1, p.W) {
			place(genSession(r, u, 44))
		}
	}
	ids2 := append(ids, p.Late...)
	perW2 := r.Pick(1, 3, 8, 20)
	for range perW2 * p.W {
		place(genSession(r, ids2[r.Intn(len(ids2))], 44))
	}
	p.obs = make([][]snapOp, p.S)
	for k := range p.obs {
		for range r.Range(2, 30) {
			p.obs[k] = append(p.obs[k], snapOp{reset: r.Chance(p.ResetPr, 8)})
		}
	}
	return p
}

// snapRec is one observation. finBefore / startAfter bracket the call with the number of
// SnapshotAndReset calls finished before it was invoked / started before it returned.
type snapRec struct {
	reset      bool
	v          view
	finBefore  int64
	startAfter int64
}

type colViol struct {
	sig    map[string]string
	text   string
	detail any
}

func userClass(p *colPlan, u string) string {
	if u == "" {
		return "anonymous"
	}
	for _, l := range p.Late {
		if l == u {
			return "late"
		}
	}
	return "named"
}

// judge is the oracle of one run. Everything it uses was observed at the Collector interface.
func judge(p *colPlan, obs [][]snapRec, final view) (vs []colViol, partial int, lateSeen string) {
	add := func(sig map[string]string, detail any, format string, a ...any) {
		if len(vs) < 6 {
			vs = append(vs, colViol{sig, fmt.Sprintf(format, a...), detail})
		}
	}
	expTotal := p.expect.total()
	expAnon := p.expect.get("")
	nResets := 0
	sum := tally{} // what all SnapshotAndReset results together handed out
	lateRank := 0  // 0 none, 1 final, 2 plain, 3 reset

	perView := func(where string, v view, isReset bool) {
		if v.dup != "" {
			add(core.Sig("kind", "snapshot_duplicate_user", "where", where), v.dup, "%s lists user %q twice", where, v.dup)
		}
		for u, f := range v.users {
			if u == "" {
				continue // how the anonymous share is presented is not decided by the statement
			}
			if p.expect[u] == nil {
				add(core.Sig("kind", "snapshot_unknown_user", "where", where), u, "%s lists user %q for whom nothing was ever recorded", where, u)
				continue
			}
			exp := p.expect.get(u)
			for c := range f {
				// no single answer may show more than was recorded for that user in the whole run
				if f[c] > exp[c] {
					add(core.Sig("kind", "snapshot_exceeds_recorded", "user", userClass(p, u), "counter", figNames[c], "where", where),
						map[string]any{"user": u, "seen": f.String(), "recorded_in_whole_run": exp.String()},
						"%s shows %s=%d for user %q but only %d was recorded in the whole run", where, figNames[c], f[c], u, exp[c])
					break
				}
			}
			if userClass(p, u) == "late" && !f.zero() {
				rank := 2
				if isReset {
					rank = 3
				}
				if where == "final" {
					rank = 1
				}
				lateRank = max(lateRank, rank)
			}
		}
		// server total == anonymous + sum of users. The anonymous share is not listed, so the
		// observable content is: total >= sum of users per counter, the remainder never exceeds
		// the anonymous traffic recorded, and it is exactly zero when no anonymous session exists.
		an, ok := v.anon()
		if !ok {
			add(core.Sig("kind", "total_ne_anon_plus_users", "how", "total_below_sum_of_users", "where", where),
				map[string]any{"total": v.total.String(), "sum_users": v.named.String()},
				"%s: server total %s is smaller than the sum of its users %s", where, v.total, v.named)
			return
		}
		for c := range an {
			if an[c] > expAnon[c] {
				how := "remainder_exceeds_anonymous_recorded"
				if !p.Anon {
					how = "total_above_sum_of_users_without_anonymous_traffic"
				}
				add(core.Sig("kind", "total_ne_anon_plus_users", "how", how, "counter", figNames[c], "where", where),
					map[string]any{"total": v.total.String(), "sum_users": v.named.String(), "anonymous_recorded": expAnon.String()},
					"%s: total-sum(users) %s=%d but only %d anonymous was recorded", where, figNames[c], an[c], expAnon[c])
				break
			}
		}
		if where != "final" && v.total != expTotal && !v.total.zero() {
			partial++
		}
	}

	for k, recs := range obs {
		var prev *snapRec
		for j := range recs {
			rc := &recs[j]
			where := "snapshot"
			if rc.reset {
				where = "snapshot_and_reset"
				nResets++
			}
			perView(where, rc.v, rc.reset)
			if rc.reset {
				for u, f := range rc.v.users {
					if u != "" {
						sum.add(u, f)
					}
				}
				an, _ := rc.v.anon()
				sum.add("", an)
				sum.add("\x00total", rc.v.total)
				continue
			}
			// monotonicity: two plain snapshots of one observer, the second invoked after the
			// first returned, with no SnapshotAndReset overlapping the span from the first
			// call's start to the second call's end (every reset started by then had already
			// finished before the first call began).
			if prev != nil && prev.finBefore == rc.startAfter {
				bad := ""
				for c := range rc.v.total {
					if rc.v.total[c] < prev.v.total[c] {
						bad = fmt.Sprintf("total %s %d -> %d", figNames[c], prev.v.total[c], rc.v.total[c])
					}
				}
				for u, pf := range prev.v.users {
					nf, ok := rc.v.users[u]
					if !ok && !pf.zero() {
						bad = fmt.Sprintf("user %q vanished (had %s)", u, pf)
						continue
					}
					for c := range pf {
						if nf[c] < pf[c] {
							bad = fmt.Sprintf("user %q %s %d -> %d", u, figNames[c], pf[c], nf[c])
						}
					}
				}
				if bad != "" {
					add(core.Sig("kind", "snapshot_not_monotone"), map[string]any{"observer": k, "op": j, "what": bad},
						"observer %d: plain snapshots %d..%d with no reset in between went backwards: %s", k, j-1, j, bad)
				}
			}
			prev = rc
		}
	}
	perView("final", final, false)

	// conservation: per user and per counter, all SnapshotAndReset results + final == recorded
	check := func(u string, got, exp fig, cls string) {
		for c := range got {
			if got[c] != exp[c] {
				how := "lost"
				if got[c] > exp[c] {
					how = "invented"
				}
				add(core.Sig("kind", "conservation", "user", cls, "counter", figNames[c], "how", how),
					map[string]any{"user": u, "resets_plus_final": got.String(), "recorded": exp.String(), "resets": nResets},
					"user %q (%s) %s: sum of %d SnapshotAndReset results + final = %d, recorded %d (%s %d)",
					u, cls, figNames[c], nResets, got[c], exp[c], how, diff(got[c], exp[c]))
				return
			}
		}
	}
	for u := range p.expect {
		if u == "" {
			continue
		}
		g := sum.get(u)
		g.add(final.users[u])
		check(u, g, p.expect.get(u), userClass(p, u))
	}
	if fa, ok := final.anon(); ok {
		g := sum.get("")
		g.add(fa)
		check("", g, expAnon, "anonymous")
	}
	g := sum.get("\x00total")
	g.add(final.total)
	check("(server total)", g, expTotal, "server")

	lateSeen = [...]string{"none", "final-only", "plain", "reset"}[lateRank]
	return
}

func diff(a, b uint64) uint64 {
	if a > b {
		return a - b
	}
	return b - a
}

func bucket(n int, edges ...int) string {
	lo := 0
	for _, e := range edges {
		if n < e {
			if lo == e-1 {
				return fmt.Sprint(lo)
			}
			return fmt.Sprintf("%d-%d", lo, e-1)
		}
		lo = e
	}
	return fmt.Sprintf("%d+", lo)
}

func runCollector(e *core.Env) {
	rec := e.Rec
	rec.Rule("collector: one case = one short run of W (2..32) goroutines executing Collect* scripts (sessions with boundary-biased amounts for the anonymous user, up to 6 named users and up to 3 users that first appear in the second phase of the scripts; the two reports of a UDP session go to independent goroutines) against S (1..4) goroutines executing Snapshot/SnapshotAndReset scripts on one real collector; " +
		fmt.Sprint(repeats) + " consecutive cases share the scripts and differ in yield placement. class = (writers, observers, resets, number of answers that showed a strict part of the traffic, where a late user was first seen); only runs in which at least one answer showed a strict part of the traffic (a snapshot really ran between Collect calls) are counted as a class. distinct_interleaving_outcomes = distinct (scripts, vector of per-answer session counts) pairs")
	n := e.N(4000, 40000)
	var mu sync.Mutex
	outcomes := map[int]map[uint64]bool{}
	core.Parallel(e, "collector", n, 4, func(i int) {
		p := genPlan(core.NewRNG(e.Seed, "c14.collector.plan", i/repeats))
		sr := core.NewRNG(e.Seed, "c14.collector.sched", i)
		// yield placement is per case
		for w := range p.scripts {
			for k := range p.scripts[w] {
				p.scripts[w][k].yield = sr.Chance(1, 4)
			}
		}
		for k := range p.obs {
			for j := range p.obs[k] {
				p.obs[k][j].yields = sr.Intn(4)
			}
		}
		rec.Begin("collector", i, fmt.Sprintf("W=%d S=%d calls=%d resetPr=%d/8 base=%d late=%d anon=%v", p.W, p.S, p.calls, p.ResetPr, len(p.Base), len(p.Late), p.Anon))

		var col stats.Collector
		if i%2 == 0 {
			col = stats.NewServerCollector()
		} else {
			col = stats.Config{Enabled: true}.Collector()
		}
		obs := make([][]snapRec, p.S)
		var final view
		ok := core.Watchdog(2*time.Minute, func() {
			start := make(chan struct{})
			var wg sync.WaitGroup
			var started, finished atomic.Int64
			for w := range p.scripts {
				wg.Add(1)
				go func(script []call) {
					defer wg.Done()
					<-start
					for _, c := range script {
						if c.yield {
							runtime.Gosched()
						}
						c.do(col)
					}
				}(p.scripts[w])
			}
			for k := range p.obs {
				wg.Add(1)
				go func(k int) {
					defer wg.Done()
					<-start
					out := make([]snapRec, 0, len(p.obs[k]))
					for _, op := range p.obs[k] {
						for range op.yields {
							runtime.Gosched()
						}
						var r snapRec
						r.reset = op.reset
						if op.reset {
							started.Add(1)
							r.v = viewOf(col.SnapshotAndReset())
							finished.Add(1)
						} else {
							r.finBefore = finished.Load()
							r.v = viewOf(col.Snapshot())
							r.startAfter = started.Load()
						}
						out = append(out, r)
					}
					obs[k] = out
				}(k)
			}
			close(start)
			wg.Wait()
			final = viewOf(col.Snapshot())
		})
		if !ok {
			rec.Inconclusive("watchdog")
			return
		}
		rec.Eval()

		vs, partial, lateSeen := judge(p, obs, final)
		for _, v := range vs {
			rec.Violate("collector", i, v.sig, map[string]any{"plan": p, "witness": v.detail}, "%s", v.text)
		}

		nSnap, nReset, nResetNonEmpty := 0, 0, 0
		h := fnv.New64a()
		for k := range obs {
			for _, r := range obs[k] {
				nSnap++
				if r.reset {
					nReset++
					if !r.v.total.zero() {
						nResetNonEmpty++
					}
				}
				fmt.Fprintf(h, "%d/%v/%d/%d;", k, r.reset, r.v.total[cTCP]+r.v.total[cUDP], len(r.v.users))
			}
		}
		rec.Count("collect_calls", int64(p.calls))
		rec.Count("sessions_recorded", int64(p.sessions))
		rec.Count("snapshot_calls", int64(nSnap))
		rec.Count("snapshot_and_reset_calls", int64(nReset))
		rec.Count("snapshot_and_reset_nonempty", int64(nResetNonEmpty))
		rec.Count("answers_showing_a_strict_part", int64(partial))
		if partial > 0 {
			rec.Class("W=%s S=%d resets=%s partial-answers=%s late-user-first-seen=%s",
				bucket(p.W, 8, 16), p.S, bucket(nReset, 1, 4), bucket(partial, 1, 3, 8), lateSeen)
		} else {
			rec.Count("runs_without_observed_interleaving", 1)
		}
		mu.Lock()
		g := outcomes[i/repeats]
		if g == nil {
			g = map[uint64]bool{}
			outcomes[i/repeats] = g
		}
		g[h.Sum64()] = true
		mu.Unlock()
		if i%997 == 0 {
			rec.Sample(3, map[string]any{"case": i, "writers": p.W, "observers": p.S, "calls": p.calls, "base": p.Base, "late": p.Late,
				"anonymous": p.Anon, "resets": nReset, "answers_showing_a_strict_part": partial, "final_total": final.total.String()})
		}
	})
	tot := 0
	for _, g := range outcomes {
		tot += len(g)
	}
	rec.Count("script_groups", int64(len(outcomes)))
	rec.Count("distinct_interleaving_outcomes", int64(tot))
}
