// Package c14 monitors "traffic statistics neither lose nor invent traffic and
// charge the right user" on the real stats collector (part collector: concurrent
// Collect* vs Snapshot / SnapshotAndReset) and on the real management API server
// over that collector (part api: GET .../stats[?clear], GET .../users/{u}).
package c14

import (
	"fmt"

	"github.com/database64128/shadowsocks-go/stats"

	"verif/core"
)

func init() {
	core.Register("C14", "collector", runCollector)
	core.Register("C14", "api", runAPI)
}

// fig is the six figures the statement talks about, in a fixed order.
type fig [6]uint64

const (
	cDlPkts = iota
	cDlBytes
	cUlPkts
	cUlBytes
	cTCP
	cUDP
)

var figNames = [6]string{"downlinkPackets", "downlinkBytes", "uplinkPackets", "uplinkBytes", "tcpSessions", "udpSessions"}

func figOf(t stats.Traffic) fig {
	return fig{t.DownlinkPackets, t.DownlinkBytes, t.UplinkPackets, t.UplinkBytes, t.TCPSessions, t.UDPSessions}
}

func (f *fig) add(g fig) {
	for i := range f {
		f[i] += g[i]
	}
}

func (f fig) zero() bool { return f == fig{} }

func (f fig) String() string {
	return fmt.Sprintf("{dlP:%d dlB:%d ulP:%d ulB:%d tcp:%d udp:%d}", f[0], f[1], f[2], f[3], f[4], f[5])
}

// session is the unit the statement counts: one relayed session authenticated as
// User ("" = no user). The reference meaning, taken from the statement and from how a
// session ends in the service (one report per TCP session; a UDP session reports its
// downlink and its uplink once each, from two different goroutines):
//
//	TCP: tcpSessions+1, downlinkBytes+DlB, uplinkBytes+UlB            (one call)
//	UDP: udpSessions+1, downlink{Packets,Bytes}+, uplink{Packets,Bytes}+ (two calls)
//
// Generating UDP sessions only as (downlink, uplink) pairs keeps the oracle independent of
// which of the two calls the implementation lets count the session.
type session struct {
	User string `json:"user"`
	UDP  bool   `json:"udp,omitempty"`
	DlP  uint64 `json:"dlP,omitempty"`
	DlB  uint64 `json:"dlB"`
	UlP  uint64 `json:"ulP,omitempty"`
	UlB  uint64 `json:"ulB"`
}

func (s session) fig() fig {
	if s.UDP {
		return fig{s.DlP, s.DlB, s.UlP, s.UlB, 0, 1}
	}
	return fig{0, s.DlB, 0, s.UlB, 1, 0}
}

// call is one Collect* invocation.
type call struct {
	kind  uint8 // 0 tcp, 1 udp downlink, 2 udp uplink
	user  string
	a, b  uint64
	yield bool // runtime.Gosched() before the call
}

func (c call) do(col stats.Collector) {
	switch c.kind {
	case 0:
		col.CollectTCPSession(c.user, c.a, c.b)
	case 1:
		col.CollectUDPSessionDownlink(c.user, c.a, c.b)
	default:
		col.CollectUDPSessionUplink(c.user, c.a, c.b)
	}
}

// calls returns the Collect* invocations a session causes.
func (s session) calls() []call {
	if s.UDP {
		return []call{{kind: 1, user: s.User, a: s.DlP, b: s.DlB}, {kind: 2, user: s.User, a: s.UlP, b: s.UlB}}
	}
	return []call{{kind: 0, user: s.User, a: s.DlB, b: s.UlB}}
}

// amount draws a boundary-biased amount. maxShift bounds the size so that sums over a
// whole case stay far below 2^64 (the statement says nothing about wrap-around).
func amount(r *core.RNG, maxShift int) uint64 {
	switch r.Intn(8) {
	case 0:
		return 0
	case 1:
		return 1
	case 2:
		return uint64(r.Intn(1500))
	case 3:
		return uint64(r.Intn(1 << 16))
	case 4:
		return 1<<32 - 1 + uint64(r.Intn(3)) // around the 32-bit edge
	case 5:
		return 1 << uint(r.Intn(maxShift+1))
	default:
		return r.Uint64() >> uint(64-1-r.Intn(maxShift))
	}
}

func genSession(r *core.RNG, user string, maxShift int) session {
	s := session{User: user, UDP: r.Chance(2, 5)}
	s.DlB, s.UlB = amount(r, maxShift), amount(r, maxShift)
	if s.UDP {
		s.DlP, s.UlP = amount(r, 20), amount(r, 20)
	}
	return s
}

// tally is the reference: figures per user ("" = anonymous).
type tally map[string]*fig

func (t tally) add(user string, f fig) {
	p := t[user]
	if p == nil {
		p = new(fig)
		t[user] = p
	}
	p.add(f)
}

func (t tally) get(user string) fig {
	if p := t[user]; p != nil {
		return *p
	}
	return fig{}
}

// total is what the server as a whole must report: every session, with or without user.
func (t tally) total() (f fig) {
	for _, p := range t {
		f.add(*p)
	}
	return
}

// view is a snapshot as seen at the API boundary, reduced to figures.
type view struct {
	total fig
	users map[string]fig
	dup   string // a user name listed twice, if any
	named fig    // sum over listed users with a non-empty name
}

func viewOf(s stats.Server) view {
	v := view{total: figOf(s.Traffic), users: make(map[string]fig, len(s.Users))}
	for _, u := range s.Users {
		if _, ok := v.users[u.Name]; ok {
			v.dup = u.Name
		}
		f := figOf(u.Traffic)
		v.users[u.Name] = f
		if u.Name != "" {
			v.named.add(f)
		}
	}
	return v
}

// anon derives the anonymous user's figures, which a snapshot does not list: the statement's
// "server total == anonymous + sum of users" read as a definition. ok is false when a total is
// smaller than the sum of the listed users (then no non-negative anonymous share exists).
func (v view) anon() (f fig, ok bool) {
	ok = true
	for i := range f {
		if v.total[i] < v.named[i] {
			ok = false
			continue
		}
		f[i] = v.total[i] - v.named[i]
	}
	return
}
