package c14

import (
	"context"
	"encoding/json"
	"fmt"
	"io"
	"net/http"
	"path/filepath"
	"sync"
	"time"

	"github.com/database64128/shadowsocks-go/conn"

	"verif/core"
	"verif/svx"
	"verif/vtime"
)

// The live part runs the real service: sessions of several authenticated users and of the anonymous user cross a
// multi-user Shadowsocks 2022 server and a protocol without users, TCP sessions end cleanly or with a reset after the
// traffic was acknowledged, UDP sessions end by NAT timeout (virtual clock), and the management API is read - with
// snapshot-and-reset queries taken while the sessions run. What the API answers, summed over the successive cleared
// snapshots plus the last one, must equal what crossed the harness's own sockets, per server and per user.

func init() { core.Register("C14", "live", runLive) }

type liveActor struct {
	srv  string // "M" or "N"
	user string // "" = anonymous
	cl   *svx.Client
}

func runLive(e *core.Env) {
	rec := e.Rec
	rec.Rule("live: one case = a running service (multi-user SS2022 server M, userless server N in {none, socks5}, management API) with 4-6 concurrent actors (three users of M, anonymous clients of N) each running a random sequence of TCP sessions (echo with clean close / banner then RST after the bytes were acknowledged) and UDP sessions (closed-loop datagrams, ended by NAT timeout on the virtual clock), while stats?clear=true snapshots are taken; class = (N protocol, batch mode, session kinds seen, snapshots taken mid-run)")
	vtime.Freeze()
	n := e.N(4, 48)
	for ci := 0; ci < n; ci++ {
		if e.Only >= 0 && e.Only != ci {
			continue
		}
		r := core.NewRNG(e.Seed, "c14.live", ci)
		rec.Begin("live", ci, "live")
		rec.Eval()
		core.Guard(e, "live", ci, func() { liveCase(e, ci, r) })
	}
}

type liveFigs struct {
	mu    sync.Mutex
	total map[string]*fig            // server -> totals
	user  map[string]map[string]*fig // server -> user -> figures
}

func newLiveFigs() *liveFigs {
	return &liveFigs{total: map[string]*fig{"M": {}, "N": {}, "W": {}}, user: map[string]map[string]*fig{"M": {}, "N": {}, "W": {}}}
}

func (l *liveFigs) add(srv, user string, f fig) {
	l.mu.Lock()
	defer l.mu.Unlock()
	l.total[srv].add(f)
	if user != "" {
		if l.user[srv][user] == nil {
			l.user[srv][user] = &fig{}
		}
		l.user[srv][user].add(f)
	}
}

func liveCase(e *core.Env, ci int, r *core.RNG) {
	rec := e.Rec
	ports := svx.FreePorts(5)
	t := &svx.Topo{Dir: filepath.Join(e.WorkDir, fmt.Sprintf("c14-live-%d", ci))}
	nProto := r.PickStr("none", "socks5")
	batch := r.PickStr("", "no")
	so := svx.ServerOpts{TCP: true, UDP: true, DisableWait: true, BatchMode: batch, NATTimeout: "1m0s"}
	// W: a server without native initial payload that waits for the client's first bytes (250 ms, virtual) and hands
	// them to a chained upstream client with native initial payload; B is that upstream's server.
	wProto := r.PickStr("socks5", "http")
	cfg := map[string]any{
		"servers": []any{t.Server("M", "ssmulti", ports[0], so), t.Server("N", nProto, ports[1], so),
			t.Server("W", wProto, ports[3], svx.ServerOpts{TCP: true}), t.Server("B", "none", ports[4], svx.ServerOpts{TCP: true, DisableWait: true})},
		"clients": []any{svx.Direct("direct"), t.ClientFor("up", "B", "none", ports[4], 0, true, false)},
		"router": map[string]any{"defaultTCPClientName": "direct", "defaultUDPClientName": "direct",
			"routes": []any{map[string]any{"name": "w-up", "network": "tcp", "fromServers": []any{"W"}, "client": "up"}}},
		"api":     map[string]any{"enabled": true, "listeners": []any{map[string]any{"network": "tcp", "address": fmt.Sprintf("127.0.0.1:%d", ports[2])}}},
	}
	inst, err := svx.Start(svx.JSON(cfg))
	if err != nil {
		rec.Inconclusive("live setup: " + err.Error())
		return
	}
	defer inst.Stop(20 * time.Second)
	if !inst.WaitLogs("relay service listener", 6, 40*time.Second) {
		rec.Inconclusive("live listeners")
		return
	}
	echoT, err1 := svx.NewTCPTarget("E", "127.0.0.2", 0, "echo", nil)
	udpT, err2 := svx.NewUDPTarget("U", "127.0.0.2", 0)
	if err1 != nil || err2 != nil {
		rec.Inconclusive("live targets")
		return
	}
	defer echoT.Close()
	defer udpT.Close()

	var actors []*liveActor
	for u := 0; u < 3; u++ {
		cl, err := svx.NewClient(svx.JSON(t.ClientFor(fmt.Sprintf("m%d", u), "M", "ssmulti", ports[0], u, true, true)))
		if err != nil {
			rec.Inconclusive("live client: " + err.Error())
			return
		}
		actors = append(actors, &liveActor{"M", fmt.Sprintf("user%d", u), cl})
	}
	for k := r.Range(1, 3); k > 0; k-- {
		cl, err := svx.NewClient(svx.JSON(t.ClientFor(fmt.Sprintf("n%d", k), "N", nProto, ports[1], 0, true, true)))
		if err != nil {
			rec.Inconclusive("live client: " + err.Error())
			return
		}
		actors = append(actors, &liveActor{"N", "", cl})
	}

	{
		cl, err := svx.NewClient(svx.JSON(t.ClientFor("w", "W", wProto, ports[3], 0, true, false)))
		if err != nil {
			rec.Inconclusive("live client: " + err.Error())
			return
		}
		actors = append(actors, &liveActor{"W", "", cl})
	}
	exp := newLiveFigs()
	var kinds sync.Map
	var failMu sync.Mutex
	failed := ""
	fail := func(format string, a ...any) {
		failMu.Lock()
		if failed == "" {
			failed = fmt.Sprintf(format, a...)
		}
		failMu.Unlock()
	}
	var wg sync.WaitGroup
	for ai, a := range actors {
		ar := core.NewRNG(e.Seed, fmt.Sprintf("c14.live.actor%d", ai), ci)
		nops := ar.Range(2, 6)
		wg.Add(1)
		go func() {
			defer wg.Done()
			for k := 0; k < nops; k++ {
				tag := uint64(ci)<<24 | uint64(ai)<<16 | uint64(k)
				kind := ar.PickStr("tcp-echo", "tcp-rst", "udp", "udp")
				if a.cl.UDP == nil {
					kind = ar.PickStr("tcp-echo", "tcp-echo", "tcp-rst")
				}
				switch kind {
				case "tcp-echo":
					U := ar.Pick(1, 900, 20000, 70000)
					data := core.Pattern(tag, 0, U)
					first := min(U, ar.Pick(1, 1400, 70000))
					cc, err := a.cl.TCP.DialStream(context.Background(), conn.AddrFromIPPort(echoT.Addr), data[:first])
					if err != nil {
						fail("tcp dial: %v", err)
						return
					}
					go func() { cc.Write(data[first:]) }()
					got := make([]byte, U)
					if _, err := io.ReadFull(cc, got); err != nil || string(got) != string(data) {
						fail("tcp echo: %v", err)
						cc.Close()
						return
					}
					cc.CloseWrite()
					io.Copy(io.Discard, cc)
					cc.Close()
					exp.add(a.srv, a.user, fig{cDlBytes: uint64(U), cUlBytes: uint64(U), cTCP: 1})
					kinds.Store(kind, true)
					if a.srv == "W" {
						kinds.Store("wait-chained", true)
					}
				case "tcp-rst":
					banner := core.Pattern(tag^0x5555, 0, ar.Pick(1, 700, 7000))
					tg, err := svx.NewTCPTarget("R", "127.0.0.2", 0, "banner-then-rst", banner)
					if err != nil {
						fail("rst target: %v", err)
						return
					}
					tg.Release = make(chan struct{})
					U := ar.Pick(1, 900, 3000)
					data := core.Pattern(tag, 0, U)
					cc, err := a.cl.TCP.DialStream(context.Background(), conn.AddrFromIPPort(tg.Addr), data)
					if err != nil {
						fail("tcp dial: %v", err)
						tg.Close()
						return
					}
					cc.CloseWrite()
					got := make([]byte, len(banner))
					if _, err := io.ReadFull(cc, got); err != nil || string(got) != string(banner) {
						fail("tcp banner: %v", err)
						cc.Close()
						tg.Close()
						return
					}
					// every byte of both directions has been delivered; now the target aborts
					close(tg.Release)
					io.Copy(io.Discard, cc)
					cc.Close()
					tg.Close()
					exp.add(a.srv, a.user, fig{cDlBytes: uint64(len(banner)), cUlBytes: uint64(U), cTCP: 1})
					kinds.Store(kind, true)
				case "udp":
					p, err := a.cl.NewUDPPeer("127.0.0.1")
					if err != nil {
						fail("udp peer: %v", err)
						return
					}
					var f fig
					f[cUDP] = 1
					nd := ar.Range(1, 12)
					for j := 0; j < nd; j++ {
						pl := core.Pattern(tag, j*2000, ar.Pick(1, 64, 1200))
						if err := p.Send(conn.AddrFromIPPort(udpT.Addr), pl); err != nil {
							fail("udp send: %v", err)
							p.Close()
							return
						}
						if !svx.Poll(30*time.Second, func() bool { return len(p.Got()) > j }) {
							fail("udp reply %d missing (errs %v)", j, p.Errs())
							p.Close()
							return
						}
						f[cUlPkts]++
						f[cUlBytes] += uint64(len(pl))
						f[cDlPkts]++
						f[cDlBytes] += uint64(len(pl) + 2) // "U|" + payload
					}
					p.Close()
					exp.add(a.srv, a.user, f)
					kinds.Store(kind, true)
				}
			}
		}()
	}
	done := make(chan struct{})
	go func() { wg.Wait(); close(done) }()

	// ---- snapshots while the sessions run ----
	acc := newLiveFigs()
	base := fmt.Sprintf("http://127.0.0.1:%d/api/ssm/v1/servers/", ports[2])
	read := func(srv string, clear bool) (statsJSON, bool) {
		var sj statsJSON
		u := base + srv + "/stats"
		if clear {
			u += "?clear=true"
		}
		resp, err := http.Get(u)
		if err != nil {
			return sj, false
		}
		defer resp.Body.Close()
		b, _ := io.ReadAll(resp.Body)
		if resp.StatusCode != 200 || json.Unmarshal(b, &sj) != nil {
			return sj, false
		}
		return sj, true
	}
	addTo := func(l *liveFigs, srv string, sj statsJSON) {
		f, _ := sj.figJSON.fig()
		l.total[srv].add(f)
		for _, u := range sj.Users {
			if u.Username == nil {
				continue
			}
			uf, _ := u.figJSON.fig()
			if l.user[srv][*u.Username] == nil {
				l.user[srv][*u.Username] = &fig{}
			}
			l.user[srv][*u.Username].add(uf)
		}
	}
	sr := core.NewRNG(e.Seed, "c14.live.snap", ci)
	midSnaps, midNonZero := 0, 0
	running := true
	for running {
		select {
		case <-done:
			running = false
		default:
			vtime.RealSleep(time.Duration(sr.Range(1, 6)) * time.Millisecond)
			if sr.Chance(1, 2) {
				srv := sr.PickStr("M", "N", "W")
				if sj, ok := read(srv, true); ok {
					addTo(acc, srv, sj)
					midSnaps++
					if f, _ := sj.figJSON.fig(); !f.zero() {
						midNonZero++
					}
				}
			}
		}
	}
	if failed != "" {
		// traffic did not flow as scripted (the relays' own properties are judged elsewhere): nothing to compare
		rec.Inconclusive("live traffic: " + failed)
		rec.Note("live case %d: %s; logs %v", ci, failed, inst.LogLines(6))
		return
	}
	// end the UDP sessions: NAT timeout on the virtual clock
	vtime.Advance(61 * time.Second)
	var cur *liveFigs
	diff := ""
	ok := svx.Poll(40*time.Second, func() bool {
		cur = newLiveFigs()
		for _, srv := range []string{"M", "N", "W"} {
			sj, ok := read(srv, false)
			if !ok {
				diff = "API unreadable"
				return false
			}
			addTo(cur, srv, sj)
		}
		diff = ""
		for _, srv := range []string{"M", "N", "W"} {
			got := *acc.total[srv]
			got.add(*cur.total[srv])
			if got != *exp.total[srv] {
				diff = fmt.Sprintf("server %s totals: API (cleared snapshots + last) %v, sockets %v", srv, got, *exp.total[srv])
				return false
			}
			names := map[string]bool{}
			for u := range exp.user[srv] {
				names[u] = true
			}
			for u := range acc.user[srv] {
				names[u] = true
			}
			for u := range cur.user[srv] {
				names[u] = true
			}
			for u := range names {
				var got, want fig
				if f := acc.user[srv][u]; f != nil {
					got.add(*f)
				}
				if f := cur.user[srv][u]; f != nil {
					got.add(*f)
				}
				if f := exp.user[srv][u]; f != nil {
					want = *f
				}
				if got != want {
					diff = fmt.Sprintf("server %s user %q: API (cleared snapshots + last) %v, sockets %v", srv, u, got, want)
					return false
				}
			}
		}
		return true
	})
	if !ok {
		rec.Violate("live", ci, core.Sig("kind", "live_stats_mismatch", "part", "live", "N", nProto), map[string]any{"diff": diff, "mid_snapshots": midSnaps, "logs": inst.LogLines(10)},
			"live case %d: the management API's figures never matched the traffic of the sessions: %s", ci, diff)
		return
	}
	// per-user endpoint shows the same figures as the listing
	for u, f := range cur.user["M"] {
		resp, err := http.Get(base + "M/users/" + u)
		if err != nil {
			continue
		}
		b, _ := io.ReadAll(resp.Body)
		resp.Body.Close()
		var uj userJSON
		if resp.StatusCode == 200 && json.Unmarshal(b, &uj) == nil {
			if g, _ := uj.figJSON.fig(); g != *f {
				rec.Violate("live", ci, core.Sig("kind", "live_user_endpoint_mismatch", "part", "live"), map[string]any{"user": u, "listing": f.String(), "endpoint": g.String()},
					"live case %d: GET users/%s shows %v, the stats listing shows %v with no traffic in between", ci, u, g, *f)
				return
			}
			rec.Count("live_user_endpoints_compared", 1)
		}
	}
	ks := ""
	for _, k := range []string{"tcp-echo", "tcp-rst", "udp", "wait-chained"} {
		if _, ok := kinds.Load(k); ok {
			ks += k + ","
		}
	}
	rec.Count("live_mid_snapshots", int64(midSnaps))
	rec.Count("live_mid_snapshots_nonzero", int64(midNonZero))
	rec.Count("live_sessions", int64(exp.total["M"][cTCP]+exp.total["M"][cUDP]+exp.total["N"][cTCP]+exp.total["N"][cUDP]+exp.total["W"][cTCP]))
	rec.Class("live/N=%s/W=%s/batch=%q/kinds=%s/midsnap=%v", nProto, wProto, batch, ks, midNonZero > 0)
}
