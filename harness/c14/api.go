package c14

import (
	"bytes"
	"context"
	"encoding/json"
	"fmt"
	"io"
	"net/http"
	"net/url"
	"os"
	"path/filepath"
	"sort"
	"strings"
	"sync"
	"time"

	"github.com/database64128/shadowsocks-go/api"
	"github.com/database64128/shadowsocks-go/api/ssm"
	"github.com/database64128/shadowsocks-go/conn"
	"github.com/database64128/shadowsocks-go/cred"
	"github.com/database64128/shadowsocks-go/stats"
	"github.com/database64128/shadowsocks-go/tlscerts"
	"go.uber.org/zap"
	"go.uber.org/zap/zaptest/observer"

	"verif/core"
)

// figJSON is the harness's own reading of the six figures in a response body. Pointers: a
// figure that is not shown at all is not "exactly these figures".
type figJSON struct {
	DownlinkPackets *uint64 `json:"downlinkPackets"`
	DownlinkBytes   *uint64 `json:"downlinkBytes"`
	UplinkPackets   *uint64 `json:"uplinkPackets"`
	UplinkBytes     *uint64 `json:"uplinkBytes"`
	TCPSessions     *uint64 `json:"tcpSessions"`
	UDPSessions     *uint64 `json:"udpSessions"`
}

func (j figJSON) fig() (f fig, missing string) {
	for i, p := range []*uint64{j.DownlinkPackets, j.DownlinkBytes, j.UplinkPackets, j.UplinkBytes, j.TCPSessions, j.UDPSessions} {
		if p == nil {
			missing = figNames[i]
			continue
		}
		f[i] = *p
	}
	return
}

type statsJSON struct {
	figJSON
	Users []struct {
		Username *string `json:"username"`
		figJSON
	} `json:"users"`
}

type userJSON struct {
	Username *string `json:"username"`
	UPSK     []byte  `json:"uPSK"`
	figJSON
}

func strictDecode(b []byte, v any) error {
	d := json.NewDecoder(bytes.NewReader(b))
	d.DisallowUnknownFields()
	if err := d.Decode(v); err != nil {
		return err
	}
	if d.More() {
		return fmt.Errorf("trailing data after JSON value")
	}
	return nil
}

// apiSrv is one managed server of a case together with the reference state.
type apiSrv struct {
	name     string
	col      stats.Collector
	ms       *cred.ManagedServer
	creds    map[string][]byte // users that have a credential
	pskLen   int
	traffic  []string        // identities sessions are drawn from ("" = anonymous)
	model    tally           // recorded since the last clear
	ever     map[string]bool // named users for whom something was ever recorded
	cleared  bool
	recorded int
}

type apiEv struct {
	Req    string `json:"req"`
	Status int    `json:"status,omitempty"`
	Body   string `json:"body,omitempty"`
	Note   string `json:"note,omitempty"`
}

type apiCase struct {
	e       *core.Env
	i       int
	r       *core.RNG
	base    string
	client  *http.Client
	srvs    []*apiSrv
	hist    []apiEv
	nViol   map[string]int
	inconcl string
}

func (c *apiCase) log(ev apiEv) {
	if len(ev.Body) > 600 {
		ev.Body = ev.Body[:600] + "..."
	}
	c.hist = append(c.hist, ev)
}

func (c *apiCase) tail() []apiEv {
	if len(c.hist) > 14 {
		return c.hist[len(c.hist)-14:]
	}
	return c.hist
}

// viol records at most one violation per kind and case (F8-like defects fire on every request).
func (c *apiCase) viol(sig map[string]string, witness any, format string, a ...any) {
	k := sig["kind"]
	c.nViol[k]++
	if c.nViol[k] > 1 {
		c.e.Rec.Count("repeat_violations_in_same_case:"+k, 1)
		return
	}
	c.e.Rec.Violate("api", c.i, sig, map[string]any{"witness": witness, "last_events": c.tail()}, format, a...)
}

func (c *apiCase) do(method, path string, body []byte) (int, []byte, bool) {
	var rd io.Reader
	if body != nil {
		rd = bytes.NewReader(body)
	}
	req, err := http.NewRequest(method, c.base+path, rd)
	if err != nil {
		c.inconcl = "http_new_request"
		return 0, nil, false
	}
	resp, err := c.client.Do(req)
	if err != nil {
		// transport trouble is the harness's or the machine's, never a verdict
		c.inconcl = "http_transport_error"
		c.log(apiEv{Req: method + " " + path, Note: err.Error()})
		return 0, nil, false
	}
	b, err := io.ReadAll(resp.Body)
	resp.Body.Close()
	if err != nil {
		c.inconcl = "http_read_error"
		return 0, nil, false
	}
	c.log(apiEv{Req: method + " " + path, Status: resp.StatusCode, Body: string(b)})
	c.e.Rec.Count("http_requests", 1)
	return resp.StatusCode, b, true
}

// record runs the sessions through the real collector from a few goroutines and returns only
// when all of them are done (quiescence), then books them in the reference.
func (c *apiCase) record(s *apiSrv, ss []session) {
	var cs []call
	for _, x := range ss {
		cs = append(cs, x.calls()...)
	}
	g := c.r.Range(1, 4)
	var wg sync.WaitGroup
	for k := range g {
		wg.Add(1)
		go func(k int) {
			defer wg.Done()
			for j := k; j < len(cs); j += g {
				cs[j].do(s.col)
			}
		}(k)
	}
	wg.Wait()
	for _, x := range ss {
		s.model.add(x.User, x.fig())
		if x.User != "" {
			s.ever[x.User] = true
		}
	}
	s.recorded += len(ss)
	c.log(apiEv{Req: fmt.Sprintf("record %d sessions on %s", len(ss), s.name), Note: fmt.Sprintf("reference now total=%s", s.model.total())})
}

func sPath(s *apiSrv) string { return "/servers/" + url.PathEscape(s.name) }

// getStats issues GET /servers/{s}/stats with the given query and judges the answer.
func (c *apiCase) getStats(s *apiSrv, query string, clears bool) {
	direct := viewOf(s.col.Snapshot()) // the collector's own figures (quiescent, so stable)
	st, body, ok := c.do("GET", sPath(s)+"/stats"+query, nil)
	if !ok {
		return
	}
	rec := c.e.Rec
	rec.Eval()
	if st != 200 {
		c.viol(core.Sig("kind", "api_stats_status", "status", fmt.Sprint(st)), string(body), "GET stats%s of server %s answered %d", query, s.name, st)
		return
	}
	var js statsJSON
	if err := strictDecode(body, &js); err != nil {
		c.viol(core.Sig("kind", "api_stats_undecodable"), string(body), "GET stats%s body does not decode: %v", query, err)
		return
	}
	tot, miss := js.fig()
	if miss != "" {
		c.viol(core.Sig("kind", "api_field_missing", "endpoint", "stats", "field", miss), string(body), "GET stats%s: figure %s missing", query, miss)
		return
	}
	wantTot := s.model.total()
	source := func(apiFig, directFig fig) string {
		// who is wrong: the projection (API differs from the collector's own answer) or the collector
		if apiFig == directFig {
			return "collector"
		}
		return "api"
	}
	if tot != wantTot {
		c.viol(core.Sig("kind", "api_stats_total_mismatch", "clear", fmt.Sprint(clears), "wrong", source(tot, direct.total)),
			map[string]any{"server": s.name, "api": tot.String(), "recorded": wantTot.String(), "collector_snapshot": direct.total.String()},
			"GET stats%s of %s: total %s, recorded since last clear %s (collector's own snapshot %s)", query, s.name, tot, wantTot, direct.total)
	}
	seen := map[string]bool{}
	for _, u := range js.Users {
		if u.Username == nil {
			c.viol(core.Sig("kind", "api_field_missing", "endpoint", "stats", "field", "username"), string(body), "GET stats%s: user entry without username", query)
			continue
		}
		name := *u.Username
		f, miss := u.fig()
		if miss != "" {
			c.viol(core.Sig("kind", "api_field_missing", "endpoint", "stats", "field", "users."+miss), string(body), "GET stats%s: user %q figure %s missing", query, name, miss)
			continue
		}
		if seen[name] {
			c.viol(core.Sig("kind", "api_stats_duplicate_user"), string(body), "GET stats%s lists user %q twice", query, name)
		}
		seen[name] = true
		if name == "" {
			continue // presentation of the anonymous share: not decided by the statement
		}
		if !s.ever[name] {
			c.viol(core.Sig("kind", "api_stats_unknown_user"), map[string]any{"user": name, "body": string(body)},
				"GET stats%s of %s lists user %q for whom nothing was recorded on this server", query, s.name, name)
			continue
		}
		if want := s.model.get(name); f != want {
			c.viol(core.Sig("kind", "api_stats_user_mismatch", "clear", fmt.Sprint(clears), "wrong", source(f, direct.users[name])),
				map[string]any{"server": s.name, "user": name, "api": f.String(), "recorded": want.String(), "collector_snapshot": direct.users[name].String()},
				"GET stats%s of %s: user %q %s, recorded since last clear %s", query, s.name, name, f, want)
		}
	}
	for u, p := range s.model {
		if u != "" && !p.zero() && !seen[u] {
			c.viol(core.Sig("kind", "api_stats_user_missing", "clear", fmt.Sprint(clears)),
				map[string]any{"server": s.name, "user": u, "recorded": p.String(), "body": string(body)},
				"GET stats%s of %s does not list user %q who has %s", query, s.name, u, *p)
		}
	}
	state := "fresh"
	if s.cleared {
		state = "after-a-clear"
	}
	if wantTot.zero() {
		state += ",empty"
	}
	_, anon := s.model[""]
	rec.Class("stats query=%q state=%s users-listed=%s anonymous=%v", query, state, bucket(len(js.Users), 1, 2, 4), anon)
	if clears {
		// everything shown has been handed out: the reference starts again from zero
		s.model = tally{}
		s.cleared = true
	}
}

// getUser issues GET /servers/{s}/users/{u} and judges the answer.
func (c *apiCase) getUser(s *apiSrv, u string) {
	st, body, ok := c.do("GET", sPath(s)+"/users/"+url.PathEscape(u), nil)
	if !ok {
		return
	}
	rec := c.e.Rec
	rec.Eval()
	psk, hasCred := s.creds[u]
	if s.ms == nil || !hasCred {
		// The API has no user resource for a name without a credential (or on a server without
		// user management). What it answers then is not decided by the statement, except that
		// an answer carrying figures must carry the right ones.
		if st != 200 {
			rec.Class("user-endpoint: no user resource -> %d", st)
			return
		}
	} else if st != 200 {
		c.viol(core.Sig("kind", "api_user_status", "status", fmt.Sprint(st)), string(body), "GET user %q of %s (has a credential) answered %d", u, s.name, st)
		return
	}
	var js userJSON
	if err := strictDecode(body, &js); err != nil {
		c.viol(core.Sig("kind", "api_user_undecodable"), string(body), "GET user %q body does not decode: %v", u, err)
		return
	}
	got, miss := js.fig()
	if miss != "" {
		c.viol(core.Sig("kind", "api_field_missing", "endpoint", "users/{username}", "field", miss), string(body), "GET user %q: figure %s missing", u, miss)
		return
	}
	if js.Username == nil || *js.Username != u {
		c.viol(core.Sig("kind", "api_user_wrong_name"), string(body), "GET user %q answered for another name", u)
		return
	}
	if hasCred && !bytes.Equal(js.UPSK, psk) {
		c.viol(core.Sig("kind", "api_user_wrong_upsk"), string(body), "GET user %q shows another uPSK", u)
	}
	want := s.model.get(u)
	tot := s.model.total()
	direct := viewOf(s.col.Snapshot())
	discriminating := want != tot
	if got != want {
		w := map[string]any{
			"server": s.name, "request": "GET " + sPath(s) + "/users/" + url.PathEscape(u), "response": strings.TrimSpace(string(body)),
			"user_figures_recorded": want.String(), "user_figures_in_collector_snapshot": direct.users[u].String(),
			"server_total_recorded": tot.String(), "server_total_in_collector_snapshot": direct.total.String(),
			"reference_per_user": s.model.String(),
		}
		if got == tot {
			c.viol(core.Sig("kind", "api_user_figures_are_server_totals", "endpoint", "users/{username}"), w,
				"GET user %q of %s shows %s = the server-wide totals; that user's own figures are %s", u, s.name, got, want)
		} else {
			c.viol(core.Sig("kind", "api_user_figures_mismatch", "endpoint", "users/{username}"), w,
				"GET user %q of %s shows %s; that user's own figures are %s (server total %s)", u, s.name, got, want, tot)
		}
	}
	state := "fresh"
	if s.cleared {
		state = "after-a-clear"
	}
	rec.Class("user-endpoint: has-traffic=%v differs-from-server-total=%v state=%s", !want.zero(), discriminating, state)
	if discriminating {
		rec.Count("user_answers_where_user_figures_differ_from_server_total", 1)
	}
}

func (t tally) String() string {
	ks := make([]string, 0, len(t))
	for k := range t {
		ks = append(ks, k)
	}
	sort.Strings(ks)
	var sb strings.Builder
	for _, k := range ks {
		fmt.Fprintf(&sb, "%q:%s ", k, *t[k])
	}
	return strings.TrimSpace(sb.String())
}

var clearQueries = []string{"?clear", "?clear=true", "?clear=", "?x=1&clear=true"}
var plainQueries = []string{"", "", "?clear=false", "?other=1"}

func runAPICase(e *core.Env, i int) {
	rec := e.Rec
	r := core.NewRNG(e.Seed, "c14.api", i)
	c := &apiCase{e: e, i: i, r: r, nViol: map[string]int{}}
	rec.Begin("api", i, "")

	wd := e.WorkDir
	if wd == "" {
		wd = os.TempDir()
	}
	dir, err := os.MkdirTemp(wd, fmt.Sprintf("c14api-%d-", i))
	if err != nil {
		core.Fatalf("c14 api: scratch dir: %v", err)
	}
	defer os.RemoveAll(dir)

	obsCore, logs := observer.New(zap.InfoLevel)
	logger := zap.New(obsCore)
	mgr := cred.NewManager(logger)

	// servers
	names := []string{"alpha", "beta-2", "gamma"}[:r.Range(1, 3)]
	byName := map[string]ssm.Server{}
	for k, name := range names {
		s := &apiSrv{name: name, creds: map[string][]byte{}, model: tally{}, ever: map[string]bool{}, pskLen: r.Pick(16, 32)}
		if k%2 == 0 {
			s.col = stats.NewServerCollector()
		} else {
			s.col = stats.Config{Enabled: true}.Collector()
		}
		if r.Chance(2, 3) {
			s.traffic = append(s.traffic, "")
		}
		if k == 0 || r.Chance(2, 3) {
			// users with a credential; some of them never produce traffic
			for j := range r.Range(1, 5) {
				u := fmt.Sprintf("u%d", j+1)
				if j == 3 {
					u = "ü ser"
				}
				s.creds[u] = r.Bytes(s.pskLen)
				if j == 0 || r.Chance(3, 4) {
					s.traffic = append(s.traffic, u)
				}
			}
			fileMap := map[string][]byte{}
			for u, p := range s.creds {
				fileMap[u] = p
			}
			b, _ := json.Marshal(fileMap)
			path := filepath.Join(dir, name+".json")
			if err := os.WriteFile(path, b, 0o644); err != nil {
				core.Fatalf("c14 api: write cred file: %v", err)
			}
			ms, err := mgr.RegisterServer(name, path, s.pskLen, nil, nil)
			if err != nil {
				core.Fatalf("c14 api: RegisterServer: %v", err)
			}
			s.ms = ms
		}
		// users that produce traffic but have no credential (e.g. removed meanwhile)
		for j := range r.Range(0, 2) {
			s.traffic = append(s.traffic, fmt.Sprintf("ghost%d", j+1))
		}
		if len(s.traffic) == 0 {
			s.traffic = append(s.traffic, "")
		}
		c.srvs = append(c.srvs, s)
		byName[name] = ssm.Server{CredentialManager: s.ms, StatsCollector: s.col}
	}

	secret := r.PickStr("", "", "/s3cr3t", "/a/b")
	cfg := api.Config{Enabled: true, SecretPath: secret, Listeners: []api.ListenerConfig{{Network: "tcp", Address: "127.0.0.1:0"}}}
	store, err := (&tlscerts.Config{}).NewStore()
	if err != nil {
		core.Fatalf("c14 api: tls store: %v", err)
	}
	srv, err := cfg.NewServer(logger, conn.NewListenConfigCache(), store, byName, names)
	if err != nil {
		core.Fatalf("c14 api: NewServer: %v", err)
	}
	ctx, cancel := context.WithCancel(context.Background())
	defer cancel()
	if err := srv.Start(ctx); err != nil {
		rec.Inconclusive("api_server_start: " + err.Error())
		return
	}
	defer srv.Stop()
	ents := logs.FilterMessage("Started API server listener").All()
	if len(ents) != 1 {
		core.Fatalf("c14 api: listen address not logged")
	}
	addr, _ := ents[0].ContextMap()["listenAddress"].(string)
	if addr == "" {
		core.Fatalf("c14 api: listen address not a string: %v", ents[0].ContextMap())
	}
	c.base = "http://" + addr + secret + "/api/ssm/v1"
	tr := &http.Transport{MaxIdleConnsPerHost: 2}
	defer tr.CloseIdleConnections()
	c.client = &http.Client{Transport: tr, Timeout: 30 * time.Second}

	added := 0
	rounds := r.Range(1, 4)
	for round := 0; round < rounds && c.inconcl == ""; round++ {
		// a user created through the API mid-run, who then produces traffic
		if s := c.srvs[r.Intn(len(c.srvs))]; s.ms != nil && r.Chance(1, 3) {
			added++
			u := fmt.Sprintf("added%d", added)
			psk := r.Bytes(s.pskLen)
			b, _ := json.Marshal(map[string]any{"username": u, "uPSK": psk})
			st, _, ok := c.do("POST", sPath(s)+"/users", b)
			if !ok {
				break
			}
			if st != 201 {
				c.inconcl = "post_user_not_created" // credential management is C08's subject
				break
			}
			s.creds[u] = psk
			s.traffic = append(s.traffic, u)
		}
		for _, s := range c.srvs {
			n := r.Pick(0, 1, 3, 10, 30)
			ss := make([]session, 0, n)
			for range n {
				ss = append(ss, genSession(r, s.traffic[r.Intn(len(s.traffic))], 54))
			}
			if n > 0 {
				c.record(s, ss)
			}
		}
		// a random request sequence over the collected state
		for range r.Range(2, 10) {
			if c.inconcl != "" {
				break
			}
			s := c.srvs[r.Intn(len(c.srvs))]
			switch k := r.Intn(10); {
			case k < 3:
				c.getStats(s, plainQueries[r.Intn(len(plainQueries))], false)
			case k < 5:
				c.getStats(s, clearQueries[r.Intn(len(clearQueries))], true)
			case k < 9:
				c.getUser(s, c.anyUser(s))
			default:
				// a server that does not exist has no figures
				st, body, ok := c.do("GET", "/servers/nosuch/stats", nil)
				if ok && st == 200 {
					c.viol(core.Sig("kind", "api_stats_for_unknown_server"), string(body), "GET stats of a server that does not exist answered 200")
				}
			}
		}
		// sweep: every server, every user
		if round == rounds-1 || r.Bool() {
			c.sweep()
		}
	}
	if c.inconcl == "" {
		// with clear, then everything must read zero
		for _, s := range c.srvs {
			c.getStats(s, clearQueries[r.Intn(len(clearQueries))], true)
		}
		c.sweep()
	}
	if c.inconcl != "" {
		rec.Inconclusive(c.inconcl)
		return
	}
	nsess := 0
	for _, s := range c.srvs {
		nsess += s.recorded
	}
	rec.Count("api_cases", 1)
	rec.Count("sessions_recorded", int64(nsess))
	if i%101 == 0 {
		rec.Sample(3, map[string]any{"case": i, "servers": names, "secret_path": secret, "events": c.tail()})
	}
}

func (c *apiCase) users(s *apiSrv) []string {
	m := map[string]bool{}
	for u := range s.creds {
		m[u] = true
	}
	for u := range s.ever {
		m[u] = true
	}
	for _, u := range s.traffic {
		if u != "" {
			m[u] = true
		}
	}
	us := make([]string, 0, len(m))
	for u := range m {
		us = append(us, u)
	}
	sort.Strings(us)
	return us
}

func (c *apiCase) anyUser(s *apiSrv) string {
	us := c.users(s)
	if len(us) == 0 || c.r.Chance(1, 12) {
		return "nobody"
	}
	return us[c.r.Intn(len(us))]
}

func (c *apiCase) sweep() {
	for _, s := range c.srvs {
		if c.inconcl != "" {
			return
		}
		c.getStats(s, "", false)
		for _, u := range c.users(s) {
			if c.inconcl != "" {
				return
			}
			c.getUser(s, u)
		}
	}
}

func runAPI(e *core.Env) {
	e.Rec.Rule("api: one case = a real api.Server (loopback listener, optional secret path) over 1..3 managed servers, each with its own real collector and (usually) a real credential manager; users with credential and traffic, with credential only, with traffic only, the anonymous user, and users created by POST mid-run; 1..4 rounds of {record sessions from 1..4 goroutines, wait for quiescence, random sequence of GET stats (plain / clear spellings), GET users/{u}}, sweeps over every server and every user, a final clear and a sweep that must read zero. evaluations = judged GET answers; class = (endpoint, query spelling, state, listed users / whether the user's figures differ from the server total)")
	n := e.N(300, 4000)
	core.Parallel(e, "api", n, 8, func(i int) {
		if !core.Watchdog(3*time.Minute, func() { core.Guard(e, "api", i, func() { runAPICase(e, i) }) }) {
			e.Rec.Inconclusive("watchdog")
		}
	})
}
