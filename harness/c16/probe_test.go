package c16

import (
	"fmt"
	"io"
	"sync"
	"testing"

	"github.com/database64128/shadowsocks-go/httpproxy"
	"go.uber.org/zap"
	"verif/netsim"
)

func probe(t *testing.T, in string, answer func(got string) string) {
	cfg := httpproxy.ServerConfig{}
	srv, err := cfg.NewProxyServer()
	if err != nil {
		t.Fatal(err)
	}
	a, b := netsim.Pair(nil, nil, false)
	a.Write([]byte(in))
	a.CloseWrite()
	req, err := srv.HandleStream(b, zap.NewNop())
	if err != nil {
		t.Fatal(err)
	}
	fmt.Println("addr", req.Addr)
	oc, err := req.Proceed()
	if err != nil {
		t.Fatal(err)
	}
	var wg sync.WaitGroup
	wg.Add(1)
	go func() {
		defer wg.Done()
		buf := make([]byte, 65536)
		var got []byte
		answered := false
		for {
			n, err := oc.Read(buf)
			got = append(got, buf[:n]...)
			if !answered && n > 0 {
				if ans := answer(string(got)); ans != "" {
					answered = true
					go func() { oc.Write([]byte(ans)) }()
				}
			}
			if err != nil {
				fmt.Printf("origin read err %v\n", err)
				break
			}
		}
		fmt.Printf("ORIGIN GOT:\n%q\n", got)
		oc.CloseWrite()
	}()
	out, err := io.ReadAll(a)
	fmt.Printf("CLIENT GOT (%v):\n%q\n", err, out)
	wg.Wait()
}

func TestProbe(t *testing.T) {
	probe(t, "POST /p HTTP/1.1\r\nHost: example.com\r\nContent-Length: 3\r\nExpect: 100-continue\r\n\r\nabc", func(g string) string {
		return "HTTP/1.1 100 Continue\r\n\r\nHTTP/1.1 103 Early Hints\r\nLink: </a>\r\n\r\nHTTP/1.1 200 OK\r\nTransfer-Encoding: chunked\r\nTrailer: X-R, X-RN\r\nConnection: X-RN, x-h\r\nX-H: 1\r\nKeep-Alive: timeout=5\r\nUpgrade: h2c\r\n\r\n2\r\nhi\r\n0\r\nX-R: 1\r\nX-RN: 2\r\n\r\n"
	})
	probe(t, "HEAD /p HTTP/1.1\r\nHost: example.com\r\n\r\nGET /q HTTP/1.1\r\nHost: example.com\r\n\r\nGET /r HTTP/1.1\r\nHost: example.com\r\n\r\nGET /s HTTP/1.1\r\nHost: example.com\r\n\r\n", func(g string) string {
		return "HTTP/1.1 200 OK\r\nContent-Length: 10\r\n\r\nHTTP/1.1 304 Not Modified\r\nContent-Length: 10\r\nETag: \"x\"\r\n\r\nHTTP/1.1 302 Found\r\nContent-Length: 0\r\n\r\nHTTP/1.1 200 OK\r\n\r\nclose-delimited body"
	})
}
