package c16

// A small, strict HTTP/1.1 message parser and the semantic view used by the
// oracle. It is written from RFC 9110/9112 and deliberately shares nothing
// with net/http: both what the harness sent and what the far side received go
// through this parser, and the comparison is made on the parsed form.

import (
	"bytes"
	"strconv"
	"strings"
)

type field struct {
	Name  string `json:"n"`
	Value string `json:"v"`
}

type message struct {
	IsResp  bool
	Method  string
	Target  string
	Proto   string
	Status  int
	Reason  string
	Fields  []field
	Body    []byte
	Trailer []field
	Framing string // none | cl | chunked | close
	HeadLen int
	Len     int
}

type parseState int

const (
	psComplete parseState = iota
	psNeedHead
	psNeedBody
	psMalformed
)

type parseOpts struct {
	isResp    bool
	reqMethod string // method of the request a response answers
	eof       bool   // no more bytes will arrive: a close-delimited body ends here
	// bare407: the proxy's own 407 carries neither Content-Length nor
	// Transfer-Encoding although the connection stays open. Its framing is not
	// part of the C16 statement, so the oracle reads it as an empty body
	// (the occurrence is counted, see counter "bare_407").
	bare407 bool
}

func isTokenChar(c byte) bool {
	switch {
	case c >= 'a' && c <= 'z', c >= 'A' && c <= 'Z', c >= '0' && c <= '9':
		return true
	}
	return strings.IndexByte("!#$%&'*+-.^_`|~", c) >= 0
}

func isToken(s string) bool {
	if s == "" {
		return false
	}
	for i := 0; i < len(s); i++ {
		if !isTokenChar(s[i]) {
			return false
		}
	}
	return true
}

func trimOWS(s string) string { return strings.Trim(s, " \t") }

func lower(s string) string { return strings.ToLower(s) }

// parseFieldLines parses "name: value CRLF" lines up to (not including) the empty line.
func parseFieldLines(b []byte) ([]field, string) {
	var fs []field
	for len(b) > 0 {
		i := bytes.Index(b, []byte("\r\n"))
		var ln []byte
		if i < 0 {
			ln, b = b, nil
		} else {
			ln, b = b[:i], b[i+2:]
		}
		if len(ln) == 0 {
			return fs, "empty field line"
		}
		if ln[0] == ' ' || ln[0] == '\t' {
			return fs, "obs-fold"
		}
		if bytes.IndexByte(ln, '\n') >= 0 || bytes.IndexByte(ln, '\r') >= 0 {
			return fs, "bare CR or LF in field line"
		}
		c := bytes.IndexByte(ln, ':')
		if c <= 0 {
			return fs, "field line without name"
		}
		name := string(ln[:c])
		if !isToken(name) {
			return fs, "field name is not a token: " + strconv.Quote(name)
		}
		fs = append(fs, field{Name: name, Value: trimOWS(string(ln[c+1:]))})
	}
	return fs, ""
}

func valuesOf(fs []field, lname string) []string {
	var vs []string
	for _, f := range fs {
		if lower(f.Name) == lname {
			vs = append(vs, f.Value)
		}
	}
	return vs
}

// listTokens splits field values as a comma separated list of lower-cased elements.
func listTokens(vs []string) []string {
	var out []string
	for _, v := range vs {
		for _, t := range strings.Split(v, ",") {
			t = lower(trimOWS(t))
			if t != "" {
				out = append(out, t)
			}
		}
	}
	return out
}

func hasToken(vs []string, tok string) bool {
	for _, t := range listTokens(vs) {
		if t == tok {
			return true
		}
	}
	return false
}

func statusHasNoBody(st int) bool { return st/100 == 1 || st == 204 || st == 304 }

// parseMessage parses one message at the start of b.
func parseMessage(b []byte, o parseOpts) (*message, parseState, string) {
	he := bytes.Index(b, []byte("\r\n\r\n"))
	if he < 0 {
		if len(b) > 1<<20 {
			return nil, psMalformed, "head larger than 1 MiB"
		}
		return nil, psNeedHead, ""
	}
	head := b[:he]
	m := &message{IsResp: o.isResp, HeadLen: he + 4}
	sl := head
	var rest []byte
	if i := bytes.Index(head, []byte("\r\n")); i >= 0 {
		sl, rest = head[:i], head[i+2:]
	}
	line := string(sl)
	if o.isResp {
		// HTTP/x.y SP 3DIGIT [SP reason]
		if len(line) < 12 || !strings.HasPrefix(line, "HTTP/") || line[8] != ' ' {
			return nil, psMalformed, "bad status line " + strconv.Quote(line)
		}
		m.Proto = line[:8]
		st, err := strconv.Atoi(line[9:12])
		if err != nil || st < 100 {
			return nil, psMalformed, "bad status code " + strconv.Quote(line)
		}
		if len(line) > 12 {
			if line[12] != ' ' {
				return nil, psMalformed, "bad status line " + strconv.Quote(line)
			}
			m.Reason = line[13:]
		}
		m.Status = st
	} else {
		p := strings.Split(line, " ")
		if len(p) != 3 || !isToken(p[0]) || p[1] == "" || !strings.HasPrefix(p[2], "HTTP/") {
			return nil, psMalformed, "bad request line " + strconv.Quote(line)
		}
		m.Method, m.Target, m.Proto = p[0], p[1], p[2]
	}
	fs, why := parseFieldLines(rest)
	if why != "" {
		return nil, psMalformed, why
	}
	m.Fields = fs

	te := listTokens(valuesOf(fs, "transfer-encoding"))
	cls := valuesOf(fs, "content-length")
	chunked := len(te) > 0 && te[len(te)-1] == "chunked"
	cl := -1
	for _, v := range cls {
		n, err := strconv.Atoi(v)
		if err != nil || n < 0 || (cl >= 0 && n != cl) {
			return nil, psMalformed, "bad Content-Length " + strconv.Quote(v)
		}
		cl = n
	}
	switch {
	case o.isResp && (o.reqMethod == "HEAD" || statusHasNoBody(m.Status)):
		m.Framing = "none"
	case chunked:
		m.Framing = "chunked"
	case cl >= 0:
		m.Framing = "cl"
	case o.isResp && o.bare407 && m.Status == 407:
		m.Framing = "none"
	case o.isResp:
		m.Framing = "close"
	default:
		m.Framing = "none"
	}
	body := b[m.HeadLen:]
	switch m.Framing {
	case "none":
		m.Len = m.HeadLen
	case "cl":
		if len(body) < cl {
			m.Body = body
			return m, psNeedBody, ""
		}
		m.Body = body[:cl]
		m.Len = m.HeadLen + cl
	case "close":
		m.Body = body
		if !o.eof {
			return m, psNeedBody, ""
		}
		m.Len = len(b)
	case "chunked":
		p := 0
		for {
			i := bytes.Index(body[p:], []byte("\r\n"))
			if i < 0 {
				if len(body)-p > 4096 {
					return nil, psMalformed, "chunk size line too long"
				}
				return m, psNeedBody, ""
			}
			szl := string(body[p : p+i])
			if j := strings.IndexByte(szl, ';'); j >= 0 {
				szl = szl[:j]
			}
			szl = trimOWS(szl)
			n, err := strconv.ParseUint(szl, 16, 31)
			if err != nil {
				return nil, psMalformed, "bad chunk size " + strconv.Quote(szl)
			}
			p += i + 2
			if n == 0 {
				break
			}
			if len(body)-p < int(n)+2 {
				m.Body = append(m.Body, body[p:min(len(body), p+int(n))]...)
				return m, psNeedBody, ""
			}
			m.Body = append(m.Body, body[p:p+int(n)]...)
			p += int(n)
			if body[p] != '\r' || body[p+1] != '\n' {
				return nil, psMalformed, "chunk data not followed by CRLF"
			}
			p += 2
		}
		// trailer section
		if bytes.HasPrefix(body[p:], []byte("\r\n")) {
			p += 2
		} else {
			e := bytes.Index(body[p:], []byte("\r\n\r\n"))
			if e < 0 {
				return m, psNeedBody, ""
			}
			tr, why := parseFieldLines(body[p : p+e])
			if why != "" {
				return nil, psMalformed, "trailer: " + why
			}
			m.Trailer = tr
			p += e + 4
		}
		m.Len = m.HeadLen + p
	}
	return m, psComplete, ""
}

// ---- semantic view ----

// Fields whose presence describes only one hop (RFC 9110 7.6.1, RFC 9112 9.x and the de-facto Proxy-Connection).
var hopByHop = map[string]bool{
	"connection": true, "proxy-connection": true, "keep-alive": true, "te": true, "upgrade": true,
}

// Proxy credentials and their challenge/ack companions.
var proxyCred = map[string]bool{
	"proxy-authorization": true, "proxy-authenticate": true, "proxy-authentication-info": true,
}

// Fields that describe the framing of the message on one connection. The
// statement lets an intermediary re-derive them (de-chunk, re-chunk, add or
// drop a zero Content-Length, re-write the Trailer announcement), so they are
// never compared as fields: what they mean is compared as body and trailers.
var framing = map[string]bool{"content-length": true, "transfer-encoding": true, "trailer": true}

var wellKnown = map[string]string{}

func init() {
	for _, n := range []string{"User-Agent", "Cache-Control", "Pragma", "Host", "Connection", "Proxy-Connection", "Keep-Alive",
		"TE", "Upgrade", "Proxy-Authorization", "Proxy-Authenticate", "Proxy-Authentication-Info", "Accept", "Accept-Encoding",
		"Accept-Language", "Cookie", "Set-Cookie", "Authorization", "Content-Type", "Expect", "Referer", "Via", "Date", "Server",
		"Location", "ETag", "Vary", "Content-Encoding", "Range", "If-None-Match", "Link", "WWW-Authenticate", "Origin",
		"X-Forwarded-For", "Last-Modified", "If-Modified-Since", "Content-Length", "Transfer-Encoding", "Trailer"} {
		wellKnown[lower(n)] = n
	}
}

// sigName keeps signatures stable: well-known names literally, generated names as a class.
func sigName(lname string) string {
	if n, ok := wellKnown[lname]; ok {
		return n
	}
	return "(custom)"
}

// orderedValues groups field values by lower-cased name, keeping the order of the lines of each name.
func orderedValues(fs []field) (names []string, vals map[string][]string) {
	vals = map[string][]string{}
	for _, f := range fs {
		k := lower(f.Name)
		if _, ok := vals[k]; !ok {
			names = append(names, k)
		}
		vals[k] = append(vals[k], f.Value)
	}
	return
}

// combined is the single-line form of a field (RFC 9110 5.3): lines joined by
// a comma, optional whitespace around commas dropped. A recipient may combine
// or split list lines, so two value lists with the same combined form are the
// same field value.
func combined(vs []string) string {
	parts := strings.Split(strings.Join(vs, ","), ",")
	for i := range parts {
		parts[i] = trimOWS(parts[i])
	}
	return strings.Join(parts, ",")
}

func sameValues(a, b []string) bool {
	if len(a) == len(b) {
		eq := true
		for i := range a {
			if a[i] != b[i] {
				eq = false
				break
			}
		}
		if eq {
			return true
		}
	}
	return combined(a) == combined(b)
}

// splitTarget returns the authority ("" for origin-form and "*") and the path+query of a request target.
func splitTarget(t string) (authority, pathQuery string) {
	lt := lower(t)
	for _, sch := range []string{"http://", "https://"} {
		if strings.HasPrefix(lt, sch) {
			rest := t[len(sch):]
			i := strings.IndexAny(rest, "/?")
			if i < 0 {
				return rest, "/"
			}
			authority, pathQuery = rest[:i], rest[i:]
			if pathQuery[0] == '?' {
				// RFC 9112 3.2.2/3.2.1: an empty path is sent as "/"
				pathQuery = "/" + pathQuery
			}
			return
		}
	}
	return "", t
}

// requestHost is the host a request is for: the authority of an absolute-form
// target, otherwise the Host field (RFC 9112 3.2.2: a proxy ignores Host when
// the target carries an authority).
func requestHost(m *message) string {
	if a, _ := splitTarget(m.Target); a != "" {
		return a
	}
	if hs := valuesOf(m.Fields, "host"); len(hs) > 0 {
		return hs[0]
	}
	return ""
}

type diff struct {
	Kind   string
	KV     []string // extra signature pairs
	Detail string
}

func d(kind, detail string, kv ...string) diff { return diff{Kind: kind, KV: kv, Detail: detail} }

func nominated(m *message) map[string]bool {
	nom := map[string]bool{}
	for _, t := range listTokens(valuesOf(m.Fields, "connection")) {
		nom[t] = true
	}
	return nom
}

func ownConnectionOnly(vs []string) bool {
	for _, t := range listTokens(vs) {
		if t != "close" && t != "keep-alive" {
			return false
		}
	}
	return true
}

func hasField(fs []field, lname string) bool {
	for _, f := range fs {
		if lower(f.Name) == lname {
			return true
		}
	}
	return false
}

// compareTrailers: announced (Trailer field) and not nominated trailer fields
// must arrive with the same values; nominated ones must not arrive when
// strictNominated (requests); an unannounced trailer may be discarded by an
// intermediary that re-frames the body (RFC 9112 7.1.2) but must not be
// altered; no trailer may be invented.
func compareTrailers(sent, got *message, strictNominated bool, pfx string) []diff {
	var ds []diff
	nom := nominated(sent)
	ann := map[string]bool{}
	for _, t := range listTokens(valuesOf(sent.Fields, "trailer")) {
		ann[t] = true
	}
	sn, sv := orderedValues(sent.Trailer)
	_, gv := orderedValues(got.Trailer)
	for _, k := range sn {
		g, present := gv[k]
		switch {
		case nom[k] || hopByHop[k] || proxyCred[k]:
			if present && strictNominated {
				ds = append(ds, d(pfx+"nominated_field_forwarded", "trailer "+k+" is nominated by Connection but was forwarded: "+strconv.Quote(strings.Join(g, "|")), "where", "trailer"))
			}
		case !present:
			if ann[k] {
				ds = append(ds, d(pfx+"trailer_missing", "announced trailer "+k+" did not arrive", "header", sigName(k)))
			}
		case !sameValues(sv[k], g):
			ds = append(ds, d(pfx+"trailer_values_changed", "trailer "+k+": sent "+strconv.Quote(strings.Join(sv[k], "|"))+" got "+strconv.Quote(strings.Join(g, "|")), "header", sigName(k)))
		}
	}
	for k := range gv {
		if _, ok := sv[k]; !ok {
			ds = append(ds, d(pfx+"trailer_added", "trailer "+k+" was never sent", "header", sigName(k)))
		}
	}
	return ds
}

func bodyDiff(sent, got []byte, pfx string) []diff {
	if bytes.Equal(sent, got) {
		return nil
	}
	i := 0
	for i < len(sent) && i < len(got) && sent[i] == got[i] {
		i++
	}
	return []diff{d(pfx+"body_mismatch", "body differs at offset "+strconv.Itoa(i)+": sent "+strconv.Itoa(len(sent))+" bytes, arrived "+strconv.Itoa(len(got)))}
}

// compareRequest decides whether got (parsed from the bytes the origin
// received) is the forwarded form of sent (parsed from the bytes the client
// wrote) that the statement allows.
func compareRequest(sent, got *message) []diff {
	var ds []diff
	if got.Method != sent.Method {
		ds = append(ds, d("method_mismatch", "sent "+sent.Method+" got "+got.Method))
	}
	_, spq := splitTarget(sent.Target)
	ga, gpq := splitTarget(got.Target)
	if spq != gpq {
		ds = append(ds, d("target_mismatch", "sent "+strconv.Quote(sent.Target)+" got "+strconv.Quote(got.Target)))
	}
	wantHost := requestHost(sent)
	gh := valuesOf(got.Fields, "host")
	switch {
	case len(gh) != 1:
		ds = append(ds, d("host_mismatch", "origin received "+strconv.Itoa(len(gh))+" Host fields"))
	case !strings.EqualFold(gh[0], wantHost) || (ga != "" && !strings.EqualFold(ga, wantHost)):
		ds = append(ds, d("host_mismatch", "request is for "+strconv.Quote(wantHost)+", origin received Host "+strconv.Quote(gh[0])+" target "+strconv.Quote(got.Target)))
	}

	nom := nominated(sent)
	sn, sv := orderedValues(sent.Fields)
	gn, gv := orderedValues(got.Fields)
	endToEnd := func(k string) bool {
		return !(k == "host" || framing[k] || hopByHop[k] || proxyCred[k] || nom[k])
	}
	for _, k := range gn {
		switch {
		case k == "host" || framing[k]:
		case k == "connection":
			// the proxy may manage its own connection to the origin (close / keep-alive);
			// anything else is the client's hop-by-hop information leaking through
			if !ownConnectionOnly(gv[k]) {
				ds = append(ds, d("hop_field_forwarded", "Connection: "+strings.Join(gv[k], "|"), "header", "Connection"))
			}
		case k == "upgrade":
			ds = append(ds, d("upgrade_forwarded", "Upgrade: "+strings.Join(gv[k], "|")))
		case hopByHop[k]:
			ds = append(ds, d("hop_field_forwarded", k+": "+strings.Join(gv[k], "|"), "header", sigName(k)))
		case proxyCred[k]:
			ds = append(ds, d("proxy_credential_forwarded", k+": "+strings.Join(gv[k], "|"), "header", sigName(k)))
		case nom[k]:
			if _, wasSent := sv[k]; wasSent {
				ds = append(ds, d("nominated_field_forwarded", k+" is nominated by Connection but was forwarded", "where", "header"))
			} else {
				ds = append(ds, d("header_added", k+": "+strings.Join(gv[k], "|")+" was not sent by the client", "header", sigName(k)))
			}
		default:
			if _, ok := sv[k]; !ok {
				ds = append(ds, d("header_added", k+": "+strings.Join(gv[k], "|")+" was not sent by the client", "header", sigName(k)))
			}
		}
	}
	for _, k := range sn {
		if !endToEnd(k) {
			continue
		}
		g, ok := gv[k]
		switch {
		case !ok:
			ds = append(ds, d("header_missing", k+": "+strings.Join(sv[k], "|")+" did not arrive", "header", sigName(k)))
		case !sameValues(sv[k], g):
			ds = append(ds, d("header_values_changed", k+": sent "+strconv.Quote(strings.Join(sv[k], "|"))+" got "+strconv.Quote(strings.Join(g, "|")), "header", sigName(k)))
		}
	}
	ds = append(ds, bodyDiff(sent.Body, got.Body, "")...)
	ds = append(ds, compareTrailers(sent, got, true, "")...)
	return ds
}

// compareResponse: status, end-to-end fields, body and trailers of what the
// client received against what the origin wrote. The statement does not say
// what happens to hop-by-hop or nominated fields of responses, so those are
// don't-care in either direction; the proxy may add its own Connection field.
func compareResponse(sent, got *message) []diff {
	var ds []diff
	if sent.Status != got.Status {
		ds = append(ds, d("resp_status_mismatch", "origin sent "+strconv.Itoa(sent.Status)+" client received "+strconv.Itoa(got.Status)))
		return ds
	}
	nom := nominated(sent)
	sn, sv := orderedValues(sent.Fields)
	gn, gv := orderedValues(got.Fields)
	dontCare := func(k string) bool { return framing[k] || hopByHop[k] || proxyCred[k] || nom[k] }
	for _, k := range sn {
		if dontCare(k) {
			continue
		}
		g, ok := gv[k]
		switch {
		case !ok:
			ds = append(ds, d("resp_header_missing", k+": "+strings.Join(sv[k], "|")+" did not arrive", "header", sigName(k)))
		case !sameValues(sv[k], g):
			ds = append(ds, d("resp_header_values_changed", k+": sent "+strconv.Quote(strings.Join(sv[k], "|"))+" got "+strconv.Quote(strings.Join(g, "|")), "header", sigName(k)))
		}
	}
	for _, k := range gn {
		if _, ok := sv[k]; ok || framing[k] {
			continue
		}
		if k == "connection" && ownConnectionOnly(gv[k]) {
			continue
		}
		ds = append(ds, d("resp_header_added", k+": "+strings.Join(gv[k], "|")+" was not sent by the origin", "header", sigName(k)))
	}
	ds = append(ds, bodyDiff(sent.Body, got.Body, "resp_")...)
	ds = append(ds, compareTrailers(sent, got, false, "resp_")...)
	return ds
}
