// Package c16 monitors "plain-HTTP proxying forwards messages intact minus
// hop-by-hop and proxy fields": a scripted raw-byte client talks to the real
// httpproxy server (HandleStream on the public server type, then Proceed() of
// the pending connection), the far end handed out by Proceed() is served by a
// scripted origin that captures every byte it receives. Both byte captures are
// parsed by the harness's own HTTP/1.1 parser (http.go) and compared with what
// the other side sent, as the statement allows it to arrive.
package c16

import (
	"fmt"
	"strings"
	"sync"
	"time"

	"github.com/database64128/shadowsocks-go/httpproxy"
	"github.com/database64128/shadowsocks-go/netio"

	"verif/core"
	"verif/netsim"
	"verif/ssx"
)

func init() {
	core.Register("C16", "proxy", run)
	core.Register("C16", "proxy-race", run)
}

const ruleText = "one case = (auth on/off with 0..5 failed attempts, 1..20 requests pipelined to depth 1..20, origin answer lag, " +
	"scenario: plain | host-change | later-connect | client Connection: close | origin close indication | early close by client | early close by origin | auth never succeeds; " +
	"per request: method, target form, header set with random casing/repeats/nominations/hop-by-hop fields, body framing, trailers; " +
	"per answer: 0..3 interim responses, status, framing, trailers, close indication, write split); client->proxy bytes are re-segmented by a per-case plan. " +
	"classes: seq:(scenario, auth, depth class, length class) counted when the case ran to its end; req:(method, form, features) counted per request that reached the origin and compared; " +
	"resp:(status class, features) counted per final response the client received and compared"

func run(e *core.Env) {
	rec := e.Rec
	rec.Rule(ruleText)
	n := e.N(3000, 200000)
	stream, small := "c16.proxy", false
	if e.Part == "proxy-race" {
		// the two forwarding goroutines of every connection run under the race detector; smaller bodies, fewer cases
		n = e.N(400, 16000)
		stream, small = "c16.race", true
	}
	core.Parallel(e, "proxy", n, 16, func(i int) {
		r := core.NewRNG(e.Seed, stream, i)
		c := genCase(r, small)
		c.Relay = core.NewRNG(e.Seed, stream+".relay", i).Chance(1, 3)
		rec.Begin("proxy", i, c.Scenario)
		var out *outcome
		cr := &caseRun{}
		dead := ""
		done := core.Watchdog(3*time.Minute, func() {
			dead = core.Bubble(e, func() { out = execCase(c, cr) })
		})
		rec.Eval()
		if !done {
			rec.Inconclusive("watchdog")
			return
		}
		if dead != "" {
			// Every wait of the harness ends when its connection ends, writes of the client never block and both
			// ends are always being read: if all goroutines are blocked for good, the proxy has stopped moving
			// bytes although something is still owed.
			out = cr.snapshot()
			sig := []string{"kind", "deadlock", "scenario", c.Scenario}
			if c.AttemptBody {
				// the retry followed the body of a refused attempt on the same connection
				sig = append(sig, "after", "407_to_request_with_body")
			}
			rec.Violate("proxy", i, core.Sig(sig...), witness(c, out), "case %d: every goroutine is blocked for good: %s", i, dead)
			if out != nil {
				// what did arrive is still held against the prefix rules
				judge(e, i, c, out, true)
			}
			return
		}
		judge(e, i, c, out, false)
	})
}

type outcome struct {
	handleErr  error
	proceedErr error
	proceeded  bool
	addr, user string

	clientGot  []byte
	clientErr  error
	originGot  []byte
	originErr  error
	originSent int
}

// ---- scripted client ----

type client struct {
	c    *caseSpec
	conn *netsim.BufConn
	mu   sync.Mutex
	cond *sync.Cond

	buf     []byte
	done    bool
	err     error
	off     int
	stuck   bool // the response stream stopped being parsable
	finals  int
	interim int // interim responses since the last final one
	methods []string
}

// scan counts the complete responses received so far (holding mu).
func (cl *client) scan() {
	for !cl.stuck {
		method := ""
		if cl.finals < len(cl.methods) {
			method = cl.methods[cl.finals]
		}
		m, st, _ := parseMessage(cl.buf[cl.off:], parseOpts{isResp: true, reqMethod: method, bare407: cl.finals < len(cl.c.Attempts)})
		if st == psMalformed {
			cl.stuck = true
			return
		}
		if st != psComplete {
			return
		}
		cl.off += m.Len
		if m.Status/100 == 1 {
			cl.interim++
		} else {
			cl.finals++
			cl.interim = 0
		}
	}
}

func (cl *client) reader() {
	b := make([]byte, 32<<10)
	for {
		n, err := cl.conn.Read(b)
		cl.mu.Lock()
		cl.buf = append(cl.buf, b[:n]...)
		cl.scan()
		if err != nil {
			cl.done, cl.err = true, err
		}
		cl.cond.Broadcast()
		cl.mu.Unlock()
		if err != nil {
			return
		}
	}
}

// waitFor blocks until pred holds, the connection has ended or the response stream has become unreadable.
func (cl *client) waitFor(pred func() bool) {
	cl.mu.Lock()
	for !pred() && !cl.done && !cl.stuck {
		cl.cond.Wait()
	}
	cl.mu.Unlock()
}

func (cl *client) writer() {
	c := cl.c
	all := append(append([]*reqSpec{}, c.Attempts...), c.Reqs...)
	sent := 0
	alive := true
	emit := func(b []byte) bool {
		if !alive {
			return false
		}
		if c.ClientCut != nil {
			if remain := c.ClientCut.Offset - sent; len(b) >= remain {
				b = b[:max(remain, 0)]
				alive = false
			}
		}
		if len(b) > 0 {
			if _, err := cl.conn.Write(b); err != nil {
				alive = false
				return false
			}
			sent += len(b)
		}
		return alive
	}
	for idx, q := range all {
		if need := idx - c.Depth + 1; need > 0 {
			cl.waitFor(func() bool { return cl.finals >= need })
		}
		if q.ExpectWait {
			if !emit(q.Raw[:q.HeadLen]) {
				break
			}
			// hold the body back until the first response to this very request (interim or final) shows up
			cl.waitFor(func() bool { return cl.finals > idx || (cl.finals == idx && cl.interim > 0) })
			if !emit(q.Raw[q.HeadLen:]) {
				break
			}
			continue
		}
		if !emit(q.Raw) {
			break
		}
	}
	if ct := c.ClientCut; ct != nil {
		if ct.WaitFinals > 0 {
			cl.waitFor(func() bool { return cl.finals >= ct.WaitFinals })
		}
		if ct.Mode == "close" {
			cl.conn.Close()
			return
		}
	}
	cl.conn.CloseWrite()
}

// ---- scripted origin ----

type qitem struct {
	data   []byte
	splits []int
	after  string // "", close, closewrite, end
}

type origin struct {
	c    *caseSpec
	conn netio.Conn
	mu   sync.Mutex
	cond *sync.Cond

	buf         []byte
	off         int
	nreq        int
	parseErr    bool
	rdDone      bool
	rdErr       error
	queue       []qitem
	answered    int
	interimSent map[int]bool
	stop        bool
	wrote       int
}

func (o *origin) enqueue(it qitem) {
	o.queue = append(o.queue, it)
}

// advance parses what has arrived and decides what to answer (holding mu).
func (o *origin) advance() {
	c := o.c
	partialHead := false
	for !o.parseErr {
		m, st, _ := parseMessage(o.buf[o.off:], parseOpts{})
		if st == psComplete {
			o.nreq++
			o.off += m.Len
			continue
		}
		o.parseErr = st == psMalformed
		partialHead = st == psNeedBody
		break
	}
	if o.stop {
		return
	}
	upTo := o.nreq - c.Lag
	if o.nreq >= c.M || o.rdDone {
		upTo = o.nreq
	}
	idx := o.nreq
	headDue := partialHead && idx < c.M && len(c.Resps[idx].InterimHead) > 0 && !o.interimSent[idx]
	if headDue {
		// an interim response can only go out once everything before it has: answer the backlog now
		upTo = o.nreq
	}
	for o.answered < min(upTo, c.M) && !o.stop {
		j := o.answered
		ps := c.Resps[j]
		var data []byte
		if !o.interimSent[j] {
			data = append(data, ps.InterimHead...)
		}
		data = append(data, ps.Raw...)
		o.enqueue(qitem{data: data, splits: ps.Splits, after: ps.OriginAction})
		if ps.OriginAction != "" {
			o.stop = true
		}
		o.answered++
	}
	// a request the script does not know (one that should never have been forwarded) is answered like any
	// origin would, so that a proxy that keeps relaying shows it to the client
	for o.answered >= c.M && o.answered < o.nreq && !o.stop {
		o.enqueue(qitem{data: []byte("HTTP/1.1 200 OK\r\nX-Unscripted: 1\r\nContent-Length: 0\r\n\r\n"), splits: []int{1 << 30}})
		o.answered++
	}
	if headDue && !o.stop && o.answered == idx {
		o.enqueue(qitem{data: c.Resps[idx].InterimHead, splits: []int{1 << 30}})
		o.interimSent[idx] = true
	}
	if o.rdDone && !o.stop {
		o.enqueue(qitem{after: "end"})
		o.stop = true
	}
}

func (o *origin) reader() {
	k := 0
	for {
		b := make([]byte, o.c.OriginBuf[min(k, len(o.c.OriginBuf)-1)])
		k++
		n, err := o.conn.Read(b)
		o.mu.Lock()
		o.buf = append(o.buf, b[:n]...)
		if err != nil {
			o.rdDone, o.rdErr = true, err
		}
		o.advance()
		o.cond.Broadcast()
		o.mu.Unlock()
		if err != nil {
			return
		}
	}
}

func (o *origin) writer() {
	ct := o.c.OriginCut
	for {
		o.mu.Lock()
		for len(o.queue) == 0 {
			o.cond.Wait()
		}
		it := o.queue[0]
		o.queue = o.queue[1:]
		o.mu.Unlock()
		data := it.data
		for k := 0; ; k++ {
			if ct != nil && o.wrote >= ct.Offset {
				o.mu.Lock()
				o.stop = true
				o.mu.Unlock()
				if ct.Mode == "close" {
					o.conn.Close()
				} else {
					o.conn.CloseWrite()
				}
				return
			}
			if len(data) == 0 {
				break
			}
			n := min(len(data), max(1, it.splits[min(k, len(it.splits)-1)]))
			if ct != nil {
				n = min(n, ct.Offset-o.wrote)
			}
			w, err := o.conn.Write(data[:n])
			o.wrote += w
			if err != nil {
				o.mu.Lock()
				o.stop = true
				o.mu.Unlock()
				o.conn.Close()
				return
			}
			data = data[n:]
		}
		switch it.after {
		case "close":
			o.conn.Close()
			return
		case "closewrite", "end":
			o.conn.CloseWrite()
			return
		}
	}
}

// lateConn is a transport whose Write looks at the caller's bytes only after every other goroutine has had its turn,
// as a socket does that blocks in the middle of a write. The io.Writer contract lets it: the slice belongs to the
// callee until Write returns.
type lateConn struct{ *netsim.BufConn }

func (l lateConn) Write(b []byte) (int, error) {
	time.Sleep(time.Microsecond) // virtual time inside the bubble: returns once everything else is blocked
	return l.BufConn.Write(b)
}

// caseRun keeps the live state of a case reachable from outside the bubble, so that a case that ends in
// a deadlock can still be judged on what had been captured.
type caseRun struct {
	mu  sync.Mutex // guards out's handshake fields
	out *outcome
	cl  *client
	og  *origin
}

// snapshot collects the captures of a run whose goroutines are blocked for good.
func (cr *caseRun) snapshot() *outcome {
	if cr.out == nil || cr.cl == nil || cr.og == nil {
		return nil
	}
	cr.mu.Lock()
	o := &outcome{handleErr: cr.out.handleErr, proceedErr: cr.out.proceedErr, proceeded: cr.out.proceeded, addr: cr.out.addr, user: cr.out.user}
	cr.mu.Unlock()
	cr.cl.mu.Lock()
	o.clientGot, o.clientErr = append([]byte{}, cr.cl.buf...), cr.cl.err
	cr.cl.mu.Unlock()
	cr.og.mu.Lock()
	o.originGot, o.originErr = append([]byte{}, cr.og.buf...), cr.og.rdErr
	cr.og.mu.Unlock()
	return o
}

// execCase runs one case inside a synctest bubble and returns the two byte captures.
func execCase(c *caseSpec, cr *caseRun) *outcome {
	out := &outcome{}
	cfg := httpproxy.ServerConfig{EnableBasicAuth: c.Auth}
	if c.Auth && !c.NoUsers {
		cfg.Users = []httpproxy.ServerUserCredentials{{Username: "someone-else", Password: "pw"}, {Username: c.User, Password: c.Pass}, {Username: "third", Password: ""}}
	} else if c.Auth && len(c.User)%2 == 0 {
		cfg.Users = []httpproxy.ServerUserCredentials{}
	}
	srv, err := cfg.NewProxyServer()
	if err != nil {
		panic("harness: NewProxyServer: " + err.Error())
	}
	var plan netsim.SegPlan
	if len(c.SegC2S) > 0 {
		plan = netsim.FixedPlan(c.SegLoop, c.SegC2S...)
	}
	cEnd, sEnd := netsim.Pair(plan, nil, false)

	cl := &client{c: c, conn: cEnd}
	cl.cond = sync.NewCond(&cl.mu)
	for _, q := range c.Attempts {
		cl.methods = append(cl.methods, q.Method)
	}
	for _, q := range c.Reqs {
		cl.methods = append(cl.methods, q.Method)
	}
	og := &origin{c: c, interimSent: map[int]bool{}}
	og.cond = sync.NewCond(&og.mu)
	cr.out, cr.cl, cr.og = out, cl, og
	set := func(f func()) { cr.mu.Lock(); f(); cr.mu.Unlock() }

	var wg sync.WaitGroup
	wg.Add(3)
	go func() { defer wg.Done(); cl.reader(); cEnd.Close() }()
	go func() { defer wg.Done(); cl.writer() }()
	go func() {
		defer wg.Done()
		req, err := srv.HandleStream(sEnd, ssx.Nop)
		if err != nil {
			// what the service does with a failed handshake: drop the connection
			set(func() { out.handleErr = err })
			sEnd.Close()
			return
		}
		set(func() { out.addr, out.user = req.Addr.String(), req.Username })
		oc, err := req.Proceed()
		if err != nil {
			set(func() { out.proceedErr = err })
			sEnd.Close()
			return
		}
		set(func() { out.proceeded = true })
		og.conn = oc
		relayDone := make(chan struct{})
		if c.Relay {
			rEnd, oEnd := netsim.Pair(nil, nil, false)
			og.conn = oEnd
			go func() {
				defer close(relayDone)
				netio.BidirectionalCopy(oc, lateConn{rEnd})
				rEnd.Close()
			}()
		} else {
			close(relayDone)
		}
		var w2 sync.WaitGroup
		w2.Add(2)
		go func() { defer w2.Done(); og.reader() }()
		go func() { defer w2.Done(); og.writer() }()
		w2.Wait()
		if c.Relay {
			og.conn.Close()
			<-relayDone
		}
		oc.Close()
	}()
	wg.Wait()
	// let the proxy's own goroutines run to their end; one that stays blocked for good fails the bubble
	core.Wait()
	out.clientGot, out.clientErr = cl.buf, cl.err
	out.originGot, out.originErr, out.originSent = og.buf, og.rdErr, og.wrote
	return out
}

// ---- oracle ----

func clip(s string, n int) string {
	if len(s) > n {
		return s[:n] + fmt.Sprintf("...(%d more bytes)", len(s)-n)
	}
	return s
}

func witness(c *caseSpec, out *outcome) map[string]any {
	w := map[string]any{"case": c}
	if out != nil {
		w["origin_received"] = clip(fmt.Sprintf("%q", out.originGot), 4000)
		w["client_received"] = clip(fmt.Sprintf("%q", out.clientGot), 4000)
		w["handle_err"] = fmt.Sprint(out.handleErr)
		w["addr"] = out.addr
	}
	return w
}

func mustParse(raw []byte, what string) *message {
	m, st, why := parseMessage(raw, parseOpts{})
	if st != psComplete || m.Len != len(raw) {
		panic(fmt.Sprintf("harness: generated %s does not parse (%d %s): %q", what, st, why, raw))
	}
	return m
}

// parseAll splits a capture into complete messages and an optional incomplete tail.
func parseAll(b []byte, opt func(k int) parseOpts) (ms []*message, tail *message, tailBytes int, bad string) {
	off := 0
	for off < len(b) {
		m, st, why := parseMessage(b[off:], opt(len(ms)))
		switch st {
		case psComplete:
			ms = append(ms, m)
			off += m.Len
			continue
		case psMalformed:
			return ms, nil, len(b) - off, why
		case psNeedBody:
			tail = m
		}
		return ms, tail, len(b) - off, ""
	}
	return ms, nil, 0, ""
}

// The features that make a message class: the ones that select a different path through
// forwarding (target form, framing, what has to be stripped, what ends the connection).
var reqClassFeat = map[string]bool{"origin": true, "absolute": true, "absolute+host-mismatch": true, "asterisk": true, "cl": true, "chunked": true,
	"trailers": true, "nominated-trailer": true, "nominate": true, "upgrade": true, "expect": true, "close": true, "stray-proxy-auth": true, "no-ua": true}

var respClassFeat = map[string]bool{"1xx": true, "nobody": true, "nobody+te": true, "cl": true, "chunked": true, "trailers": true, "close-delimited": true,
	"conn-close": true, "3xx-noloc": true, "3xx-rel": true, "3xx-same": true, "3xx-other": true, "3xx-odd": true}

func classFeat(feat string, keep map[string]bool) string {
	var out []string
	for _, f := range strings.Split(feat, ",") {
		if keep[f] {
			out = append(out, f)
		}
	}
	return strings.Join(out, ",")
}

// sameIdentity: same method, same path and query, same host.
func sameIdentity(a, b *message) bool {
	_, ap := splitTarget(a.Target)
	_, bp := splitTarget(b.Target)
	bh := valuesOf(b.Fields, "host")
	return a.Method == b.Method && ap == bp && len(bh) == 1 && strings.EqualFold(bh[0], requestHost(a))
}

func depthClass(d int) string {
	switch {
	case d == 1:
		return "1"
	case d <= 3:
		return "2-3"
	case d <= 16:
		return "4-16"
	}
	return "17-20"
}

func judge(e *core.Env, ci int, c *caseSpec, out *outcome, stalled bool) {
	rec := e.Rec
	nviol := 0
	viol := func(dd diff, where string, kv ...string) {
		nviol++
		sig := append([]string{"kind", dd.Kind}, dd.KV...)
		sig = append(sig, kv...)
		rec.Violate("proxy", ci, core.Sig(sig...), witness(c, out), "case %d (%s) %s: %s: %s", ci, c.Scenario, where, dd.Kind, dd.Detail)
	}
	// what was sent, through the harness's own parser
	var sentReq []*message
	for k, q := range c.Reqs {
		sentReq = append(sentReq, mustParse(q.Raw, fmt.Sprintf("request %d", k)))
	}
	var sentAtt []*message
	for k, q := range c.Attempts {
		sentAtt = append(sentAtt, mustParse(q.Raw, fmt.Sprintf("attempt %d", k)))
	}
	type xresp struct {
		m       *message
		j       int // request index, -1 for a 407 of the proxy
		interim bool
	}
	var sentResp [][]*message // per forwardable request: interims..., final
	for j := 0; j < c.M; j++ {
		ps := c.Resps[j]
		raw := append(append([]byte{}, ps.InterimHead...), ps.Raw...)
		ms, tail, _, bad := parseAll(raw, func(int) parseOpts {
			return parseOpts{isResp: true, reqMethod: c.Reqs[j].Method, eof: true}
		})
		if bad != "" || tail != nil || len(ms) != ps.Interims+1 {
			panic(fmt.Sprintf("harness: generated answer %d does not parse (%s): %q", j, bad, raw))
		}
		sentResp = append(sentResp, ms)
	}

	// strict: nobody tears the connection down early, so everything owed must arrive
	strict := c.ClientCut == nil && c.OriginCut == nil && !c.AttemptBody && !stalled
	// first answer after which the connection may or must end (nothing later is owed)
	endAt := -1
	for j := 0; j < c.M && endAt < 0; j++ {
		if c.Resps[j].MustClose || c.Resps[j].MayClose || c.Resps[j].OriginAction != "" || c.Reqs[j].Close {
			endAt = j
		}
	}
	authDead := c.Scenario == "auth-fail-only"

	// --- what the client received: expectation and parse (judged below, after the origin side) ---
	var want []xresp
	respMissing := false
	ended := false // the expected stream ends here for good
	for _, a := range c.Attempts {
		want = append(want, xresp{j: -1})
		if a.Close {
			ended = true
			break
		}
	}
	required := -1
	if !ended && !authDead {
		for j := 0; j < c.M; j++ {
			ms := sentResp[j]
			for k, m := range ms {
				want = append(want, xresp{m: m, j: j, interim: k < len(ms)-1})
			}
			if c.Resps[j].MayClose && required < 0 {
				required = len(want)
			}
			if c.Resps[j].MustClose || c.Reqs[j].Close {
				break
			}
		}
	}
	if required < 0 {
		required = len(want)
	}
	methods := []string{}
	for _, q := range c.Attempts {
		methods = append(methods, q.Method)
	}
	for _, q := range c.Reqs {
		methods = append(methods, q.Method)
	}
	finals := 0
	// the method that decides the framing of a response is that of the request it answers, so the
	// count of final responses has to be kept in step while parsing
	var (
		cgot       []*message
		ctail      *message
		ctailBytes int
		cbad       string
	)
	{
		off := 0
		b := out.clientGot
		for off < len(b) {
			method := ""
			if finals < len(methods) {
				method = methods[finals]
			}
			m, st, why := parseMessage(b[off:], parseOpts{isResp: true, eof: true, bare407: finals < len(c.Attempts), reqMethod: method})
			if st == psComplete {
				cgot = append(cgot, m)
				off += m.Len
				if m.Status/100 != 1 {
					finals++
				}
				continue
			}
			ctailBytes = len(b) - off
			if st == psMalformed {
				cbad = why
			} else if st == psNeedBody {
				ctail = m
			}
			break
		}
	}

	// --- authentication first: a failed attempt answered by anything but the proxy's own 407 (or, when the
	// connection is torn down early, its closing 400/502) means that the proxy went on without valid
	// credentials. Everything after that is out of step, so this is reported alone.
	for k := 0; k < len(want) && k < len(cgot) && want[k].j < 0; k++ {
		g := cgot[k]
		if g.Status == 407 || (!strict && (g.Status == 502 || g.Status == 400)) {
			continue
		}
		viol(d("forwarded_without_valid_credentials", fmt.Sprintf("failed authentication attempt %d (%s) was not refused: the client received status %d in its place and the origin received %d bytes",
			k, c.Attempts[k].Kind, g.Status, len(out.originGot))), "client")
		rec.Class("seq:auth-bypass-observed")
		return
	}

	// --- the handshake ---
	if out.proceeded {
		if authDead {
			viol(d("forwarded_without_valid_credentials", "HandleStream produced a request although no valid credentials were presented before the connection had to end"), "handshake")
		} else {
			if out.addr != c.WantAddr {
				viol(d("target_addr_mismatch", fmt.Sprintf("request is for %q, HandleStream reported %q", c.WantAddr, out.addr)), "handshake")
			}
			wantUser := ""
			if c.Auth {
				wantUser = c.User
			}
			if out.user != wantUser {
				viol(d("username_mismatch", fmt.Sprintf("authenticated as %q, HandleStream reported %q", wantUser, out.user)), "handshake")
			}
		}
	} else if strict && !authDead {
		viol(d("not_served", fmt.Sprintf("HandleStream failed on a well-formed sequence: %v / %v", out.handleErr, out.proceedErr)), "handshake")
	}

	// --- what the origin received ---
	got, tail, tailBytes, bad := parseAll(out.originGot, func(int) parseOpts { return parseOpts{} })
	if bad != "" {
		viol(d("malformed_forwarded_request", fmt.Sprintf("after %d requests the bytes sent to the origin do not parse: %s", len(got), bad)), "origin")
	}
	// the same, seen from the origin: its first request is not the one that carried valid credentials but one
	// of the refused attempts
	if first := append(append([]*message{}, got...), tail); len(sentAtt) > 0 && first[0] != nil && (len(sentReq) == 0 || !sameIdentity(sentReq[0], first[0])) {
		for k, a := range sentAtt {
			if a.Method != "CONNECT" && sameIdentity(a, first[0]) {
				viol(d("forwarded_without_valid_credentials", fmt.Sprintf("the first request at the origin (%s %s) is failed authentication attempt %d (%s)", first[0].Method, first[0].Target, k, c.Attempts[k].Kind)), "origin")
				rec.Class("seq:auth-bypass-observed")
				return
			}
		}
	}
	// A refused attempt that carried a body: when the proxy does not consume that body, its bytes become the
	// beginning of the next request line. Everything after such a request is out of step on both sides
	// (framing of the answer depends on the method), so it is reported alone.
	if first := append(append([]*message{}, got...), tail); c.AttemptBody && len(sentReq) > 0 && first[0] != nil && first[0].Method != sentReq[0].Method {
		viol(d("method_mismatch", "sent "+sentReq[0].Method+" got "+first[0].Method), "request 0 at the origin", "after", "407_to_request_with_body")
		rec.Class("seq:attempt-body-glued-observed")
		return
	}
	forbidden := false
	for k, g := range got {
		if k >= c.M {
			if !forbidden {
				forbidden = true
				reason := c.Term
				if reason == "" {
					reason = "never_sent"
				}
				if authDead {
					reason = "before_valid_credentials"
				}
				if reason == "after_close" {
					// Triage (see DESIGN.md C16): the statement requires that a close indication ENDS the proxy
					// connection, which it does (no response is forwarded after the closing exchange). Whether a
					// request a client wrongly pipelined behind its own "Connection: close" (RFC 9112 9.6 forbids
					// sending it) still reaches the SAME origin is not decided by the statement: don't-care.
					rec.Count("dontcare_request_pipelined_after_close_forwarded", 1)
				} else {
					viol(d("forbidden_request_forwarded", fmt.Sprintf("the origin received %d requests, only %d may be forwarded; request %d is %s %s", len(got), c.M, k, g.Method, g.Target), "reason", reason), "origin")
				}
			}
			continue
		}
		ds := compareRequest(sentReq[k], g)
		for _, dd := range ds {
			if c.AttemptBody && (dd.Kind == "method_mismatch" || dd.Kind == "target_mismatch" || dd.Kind == "host_mismatch" || dd.Kind == "body_mismatch") {
				// the retry followed the body of a refused attempt on the same connection
				viol(dd, fmt.Sprintf("request %d at the origin", k), "after", "407_to_request_with_body")
				continue
			}
			viol(dd, fmt.Sprintf("request %d at the origin", k))
		}
		if len(ds) == 0 {
			rec.Count("requests_compared_equal", 1)
		}
		rec.Class("req:%s/%s", c.Reqs[k].Method, classFeat(c.Reqs[k].Feat, reqClassFeat))
	}
	if tail != nil && len(got) < c.M {
		// an incomplete last request (the connection went away under it): its head must still be right
		// and what arrived of the body must be a prefix
		s := sentReq[len(got)]
		for _, dd := range compareRequest(s, tail) {
			switch dd.Kind {
			case "body_mismatch", "trailer_missing":
				continue
			}
			viol(dd, fmt.Sprintf("incomplete request %d at the origin", len(got)))
		}
		if len(tail.Body) > len(s.Body) || string(tail.Body) != string(s.Body[:len(tail.Body)]) {
			viol(d("body_mismatch", "the part of the body that arrived is not a prefix of the body sent"), fmt.Sprintf("incomplete request %d at the origin", len(got)))
		}
	} else if tail != nil && !forbidden && c.Term == "after_close" {
		rec.Count("dontcare_request_pipelined_after_close_forwarded", 1)
	} else if tail != nil && !forbidden {
		viol(d("forbidden_request_forwarded", fmt.Sprintf("the origin received the beginning of a request beyond the %d that may be forwarded: %s %s", c.M, tail.Method, tail.Target), "reason", c.Term), "origin")
	}
	// --- what the client received: judgement ---
	if cbad != "" {
		// name the last readable response: it is the one whose framing the proxy got wrong
		after := "other"
		if len(cgot) > 0 {
			if l := cgot[len(cgot)-1]; statusHasNoBody(l.Status) && hasField(l.Fields, "transfer-encoding") {
				// a response that cannot have a body but names a transfer coding (RFC 9112 6.1 allows it on 304)
				after = fmt.Sprintf("%d+transfer-encoding", l.Status)
			}
		}
		viol(d("malformed_response_stream", fmt.Sprintf("after %d responses the bytes sent to the client do not parse: %s", len(cgot), cbad), "after", after), "client")
	}
	bare := 0
	for k, g := range cgot {
		if k >= len(want) {
			// the proxy's own 502/400 (Connection: close) is how it may report a connection that died under it
			if !strict && (g.Status == 502 || g.Status == 400) && hasToken(valuesOf(g.Fields, "connection"), "close") && k == len(cgot)-1 {
				rec.Count("proxy_error_responses", 1)
				continue
			}
			viol(d("unexpected_response", fmt.Sprintf("response %d (status %d) is not owed: only %d responses can be expected", k, g.Status, len(want)), "status", fmt.Sprint(g.Status)), "client")
			break
		}
		w := want[k]
		if w.j < 0 {
			if g.Status != 407 || !hasField(g.Fields, "proxy-authenticate") {
				if !strict && (g.Status == 502 || g.Status == 400) {
					continue
				}
				viol(d("failed_attempt_not_refused", fmt.Sprintf("failed authentication attempt %d was answered with status %d (Proxy-Authenticate present: %v)", k, g.Status, hasField(g.Fields, "proxy-authenticate"))), "client")
				break
			}
			if !hasField(g.Fields, "content-length") && !hasField(g.Fields, "transfer-encoding") {
				bare++
			}
			continue
		}
		if !strict && (g.Status == 502 || g.Status == 400) && g.Status != w.m.Status && k == len(cgot)-1 && hasToken(valuesOf(g.Fields, "connection"), "close") {
			rec.Count("proxy_error_responses", 1)
			continue
		}
		ds := compareResponse(w.m, g)
		for _, dd := range ds {
			viol(dd, fmt.Sprintf("response %d at the client (answer to request %d)", k, w.j))
		}
		if len(ds) > 0 && ds[0].Kind == "resp_status_mismatch" {
			break // everything after a lost/extra message is out of step
		}
		if !w.interim {
			rec.Class("resp:%d/%s", w.m.Status, classFeat(c.Resps[w.j].Feat, respClassFeat))
			if len(ds) == 0 {
				rec.Count("responses_compared_equal", 1)
			}
		} else {
			rec.Count("interim_responses_forwarded", 1)
		}
	}
	if bare > 0 {
		rec.Count("bare_407", int64(bare))
	}
	if ctail != nil && len(cgot) < len(want) && want[len(cgot)].m != nil {
		w := want[len(cgot)].m
		if ctail.Status == w.Status && (len(ctail.Body) > len(w.Body) || string(ctail.Body) != string(w.Body[:len(ctail.Body)])) {
			viol(d("resp_body_mismatch", "the part of the response body that arrived is not a prefix of the body sent"), fmt.Sprintf("incomplete response %d at the client", len(cgot)))
		}
	}
	if strict && cbad == "" {
		if len(cgot) < required {
			missing := want[len(cgot)]
			kind, last, cls := "final", "none", "none"
			if missing.interim {
				kind = "interim"
			}
			if missing.j < 0 {
				kind = "407"
			}
			if len(cgot) > 0 {
				last = "final"
				if p := want[len(cgot)-1]; p.interim {
					last = "interim"
				} else if p.j < 0 {
					last = "407"
				}
			}
			if missing.j >= 0 && c.Reqs[missing.j].Close {
				cls = "request"
			}
			respMissing = true
			viol(d("response_missing", fmt.Sprintf("the client received %d complete responses (+%d stray bytes) and then the end of the connection; %d were owed; the first missing one is the %s response to request %d",
				len(cgot), ctailBytes, required, kind, missing.j), "last_received", last, "close_indication", cls), "client")
		} else if ctailBytes > 0 && len(cgot) >= len(want) {
			viol(d("stray_bytes_to_client", fmt.Sprintf("%d bytes follow the last owed response", ctailBytes)), "client")
		} else if ctail != nil && len(cgot) < len(want) && endAt < 0 {
			viol(d("truncated_response", fmt.Sprintf("response %d arrived incomplete", len(cgot))), "client")
		}
	}

	// A request that never made it to the origin is reported only when the response side is in order:
	// otherwise it is the same event seen from the other end (the proxy ended the connection too early).
	if strict && !authDead && out.proceeded && !respMissing && cbad == "" {
		minFwd := c.M
		if endAt >= 0 {
			minFwd = endAt + 1
		}
		if len(got) < minFwd {
			viol(d("request_not_forwarded", fmt.Sprintf("the origin received %d complete requests (+%d stray bytes), at least %d were owed", len(got), tailBytes, minFwd)), "origin")
		}
		if endAt < 0 && tailBytes > 0 && bad == "" && len(got) == c.M {
			viol(d("stray_bytes_forwarded", fmt.Sprintf("%d bytes follow the last request at the origin", tailBytes)), "origin")
		}
	}

	// --- evidence ---
	rec.Count("requests_at_origin", int64(len(got)))
	rec.Count("responses_at_client", int64(len(cgot)))
	rec.Count("bytes_to_origin", int64(len(out.originGot)))
	rec.Count("bytes_to_client", int64(len(out.clientGot)))
	if len(c.Attempts) > 0 {
		rec.Count("failed_auth_attempts", int64(len(c.Attempts)))
	}
	auth := "off"
	if c.Auth {
		auth = fmt.Sprintf("on/%d-failed", min(len(c.Attempts), 3))
		if c.NoUsers {
			auth += "/no-users"
		}
	}
	sc := c.Scenario
	if c.ClientCut != nil {
		sc += "/" + c.ClientCut.Where + "/" + c.ClientCut.Mode
	}
	if c.OriginCut != nil {
		sc += "/" + c.OriginCut.Where + "/" + c.OriginCut.Mode
	}
	nclass := "1"
	switch n := len(c.Reqs); {
	case n == 0:
		nclass = "0"
	case n > 16:
		nclass = "17-20"
	case n > 5:
		nclass = "6-16"
	case n > 1:
		nclass = "2-5"
	}
	lag := "lag0"
	if c.Lag > 0 {
		lag = "lag+"
	}
	if !stalled {
		rec.Class("seq:%s auth=%s depth=%s n=%s %s", sc, auth, depthClass(c.Depth), nclass, lag)
	}
	if nviol == 0 && ci%400 == 0 {
		rec.Sample(6, map[string]any{"case": ci, "scenario": sc, "requests": len(c.Reqs), "forwardable": c.M, "at_origin": len(got), "at_client": len(cgot),
			"first_request": strings.SplitN(c.reqText(0), "\r\n", 2)[0]})
	}
}

func (c *caseSpec) reqText(k int) string {
	if k < len(c.Reqs) {
		return c.Reqs[k].Text
	}
	return ""
}
