package c16

import (
	"encoding/json"
	"fmt"
	"os"
	"strconv"
	"testing"

	"verif/core"
)

func TestDev(t *testing.T) {
	part := os.Getenv("PART")
	if part == "" {
		part = "proxy"
	}
	seed, _ := strconv.Atoi(os.Getenv("SEED"))
	if seed == 0 {
		seed = 1
	}
	only := -1
	if s := os.Getenv("ONLY"); s != "" {
		only, _ = strconv.Atoi(s)
	}
	tier := os.Getenv("TIER")
	if tier == "" {
		tier = "quick"
	}
	e := core.Env{Property: "C16", Part: part, Tier: tier, Seed: int64(seed), Only: only, Shards: 1, OutPath: "/tmp/c16dev.json", T: t}
	e.Rec = core.NewRec(&e)
	if only >= 0 && os.Getenv("DUMP") != "" {
		debugHook = func(c *caseSpec, out *outcome) {
			fmt.Printf("handleErr=%v proceedErr=%v proceeded=%v clientErr=%v originErr=%v originSent=%d\n", out.handleErr, out.proceedErr, out.proceeded, out.clientErr, out.originErr, out.originSent)
			os.WriteFile("/tmp/c16.origin", out.originGot, 0o644)
			os.WriteFile("/tmp/c16.client", out.clientGot, 0o644)
			var all []byte
			for _, q := range c.Attempts {
				all = append(all, q.Raw...)
			}
			for _, q := range c.Reqs {
				all = append(all, q.Raw...)
			}
			os.WriteFile("/tmp/c16.sent", all, 0o644)
		}
	}
	run(&e)
	e.Rec.Finish(e.OutPath)
	b, _ := os.ReadFile(e.OutPath)
	var res core.Result
	json.Unmarshal(b, &res)
	fmt.Printf("evals=%d classes=%d violations_total=%d kept=%d inconclusive=%v wall=%.1fs\n", res.Evaluations, len(res.Classes), res.Counters["violations_total"], len(res.Violations), res.Inconclusive, res.WallS)
	seen := map[string]int{}
	first := map[string]string{}
	for _, v := range res.Violations {
		k, _ := json.Marshal(v.Sig)
		seen[string(k)]++
		if first[string(k)] == "" {
			first[string(k)] = fmt.Sprintf("case %d: %s", v.Case, v.Text)
		}
	}
	for k, n := range seen {
		x := first[k]
		if len(x) > 600 {
			x = x[:600]
		}
		fmt.Printf("%4d %s\n       %s\n", n, k, x)
	}
	fmt.Println(res.Counters)
}
