package c16

// Workload generator: one case is a scripted client byte stream (failed
// authentication attempts, then a request sequence with an optional
// terminator) plus the scripted answers of the origin.

import (
	"encoding/base64"
	"fmt"
	"strings"

	"verif/core"
)

type reqSpec struct {
	Kind       string `json:"kind"` // normal | other-host | connect | noauth | wrongauth
	Method     string `json:"method"`
	Raw        []byte `json:"-"`
	HeadLen    int    `json:"-"`
	Text       string `json:"head"` // the head as sent (for witnesses)
	BodyLen    int    `json:"body_len"`
	BodyMode   string `json:"body_mode"`
	Close      bool   `json:"close,omitempty"`
	ExpectWait bool   `json:"expect_wait,omitempty"`
	Feat       string `json:"feat"`
}

type respSpec struct {
	Status       int    `json:"status"`
	Interims     int    `json:"interims"`
	InterimHead  []byte `json:"-"` // first interim response, sent as soon as the request head has arrived
	Raw          []byte `json:"-"` // remaining interims + final
	Text         string `json:"head"`
	BodyLen      int    `json:"body_len"`
	BodyMode     string `json:"body_mode"`
	MustClose    bool   `json:"must_close,omitempty"` // Connection: close, close-delimited, HTTP/1.0
	MayClose     bool   `json:"may_close,omitempty"`  // cross-host redirect: the proxy is free to end the connection
	OriginAction string `json:"origin_action,omitempty"`
	Splits       []int  `json:"-"`
	Feat         string `json:"feat"`
}

type cut struct {
	Offset     int    `json:"offset"`      // bytes of the stream that are still written
	WaitFinals int    `json:"wait_finals"` // client: first wait for this many final responses
	Mode       string `json:"mode"`        // close | halfclose
	Where      string `json:"where"`
}

type caseSpec struct {
	Scenario     string      `json:"scenario"`
	Auth         bool        `json:"auth"`
	NoUsers      bool        `json:"no_users,omitempty"` // authentication enabled with an empty user list: nobody is let in
	User         string      `json:"user,omitempty"`
	Pass         string      `json:"pass,omitempty"`
	Host         string      `json:"host"`
	WantAddr     string      `json:"want_addr"`
	Attempts     []*reqSpec  `json:"attempts,omitempty"`
	Reqs         []*reqSpec  `json:"reqs"`
	M            int         `json:"forwardable"`
	Term         string      `json:"terminator,omitempty"` // other_host | connect | after_close
	Resps        []*respSpec `json:"resps"`
	Depth        int         `json:"depth"`
	Lag          int         `json:"lag"`
	ClientCut    *cut        `json:"client_cut,omitempty"`
	OriginCut    *cut        `json:"origin_cut,omitempty"`
	SegC2S       []int       `json:"-"`
	SegLoop      bool        `json:"-"`
	OriginBuf    []int       `json:"-"`
	AttemptClose bool        `json:"attempt_close,omitempty"`
	AttemptBody  bool        `json:"attempt_body,omitempty"`
	// Relay: the origin is reached the way the service reaches it - netio.BidirectionalCopy between the proxy's
	// pipe end and a transport connection whose Write consumes the caller's slice late (a socket that blocks mid-write).
	Relay bool `json:"via_relay,omitempty"`
}

type gen struct {
	r     *core.RNG
	small bool // race flavour: keep bodies small
}

func (g *gen) casing(s string) string {
	switch g.r.Intn(5) {
	case 0:
		return strings.ToLower(s)
	case 1:
		return strings.ToUpper(s)
	case 2:
		b := []byte(s)
		for i := range b {
			if g.r.Bool() {
				b[i] = strings.ToUpper(string(b[i]))[0]
			} else {
				b[i] = strings.ToLower(string(b[i]))[0]
			}
		}
		return string(b)
	}
	return s
}

func (g *gen) sep() string { return g.r.PickStr(": ", ": ", ": ", ":", ":  ", ":\t") }

func (g *gen) tail() string { return g.r.PickStr("", "", "", "", " ", "\t", "  ") }

const tokAlpha = "abcdefghijklmnopqrstuvwxyzABCDEFGHIJKLMNOPQRSTUVWXYZ0123456789"

func (g *gen) word(lo, hi int, alpha string) string {
	n := g.r.Range(lo, hi)
	b := make([]byte, n)
	for i := range b {
		b[i] = alpha[g.r.Intn(len(alpha))]
	}
	return string(b)
}

func (g *gen) customName() string {
	return g.r.PickStr("X-", "X-", "x-", "X_", "Sec-", "") + g.word(1, 10, tokAlpha+"-_") + g.r.PickStr("", "", "-Id", "_v2", ".ext")
}

// shortValue keeps a whole trailer section well inside one 4 KiB read buffer:
// an implementation may bound the size of the trailer section.
func (g *gen) shortValue() string {
	v := g.value()
	if len(v) > 40 {
		v = v[:40] + "e"
	}
	return v
}

func (g *gen) value() string {
	switch g.r.Intn(12) {
	case 0:
		return ""
	case 1:
		return g.word(1, 3, tokAlpha) + ", " + g.word(1, 6, tokAlpha) + ";q=0." + g.word(1, 1, "0123456789") + " ,  " + g.word(1, 4, tokAlpha)
	case 2:
		return "\"" + g.word(0, 12, tokAlpha+" ,;=") + "\""
	case 3:
		return g.word(1, 40, tokAlpha+" !#$%&'()*+,-./:;<=>?@[]^_`{|}~\\\"") + "x"
	case 4:
		// obs-text bytes are legal in field values (RFC 9110 5.5)
		return g.word(1, 5, tokAlpha) + string([]byte{0xc3, 0xa9, 0xff, 0x80}) + g.word(1, 5, tokAlpha)
	case 5:
		return g.word(200, 900, tokAlpha+"/+=")
	case 6:
		return "a  b\tc"
	default:
		return g.word(1, 24, tokAlpha+"-._~/=")
	}
}

var reqPool = []string{"Accept", "Accept-Encoding", "Accept-Language", "Cookie", "Referer", "Origin", "If-None-Match",
	"If-Modified-Since", "Range", "Authorization", "X-Forwarded-For", "Via", "Content-Type", "DNT", "Cache-Control", "X-Requested-With"}

var hosts = []string{"example.com", "example.com:8080", "a.b.example.org", "192.0.2.7", "192.0.2.7:8081", "[2001:db8::1]", "[2001:db8::1]:8443", "xn--bcher-kva.example", "h"}

func wantAddrOf(host string) string {
	switch {
	case strings.HasPrefix(host, "["):
		if strings.HasSuffix(host, "]") {
			return host + ":80"
		}
		return host
	case strings.IndexByte(host, ':') >= 0:
		return host
	}
	return host + ":80"
}

func (g *gen) pathQuery() string {
	segAlpha := tokAlpha + "-._~!$&'()*+,;=:@"
	var sb strings.Builder
	n := g.r.Range(0, 4)
	if n == 0 {
		sb.WriteString("/")
	}
	for i := 0; i < n; i++ {
		sb.WriteString("/")
		switch g.r.Intn(6) {
		case 0:
			sb.WriteString(g.word(1, 6, tokAlpha) + g.r.PickStr("%2F", "%2f", "%20", "%C3%A9", "%25", "%3f", "%00") + g.word(0, 4, tokAlpha))
		case 1:
			sb.WriteString(g.r.PickStr(".", "..", "", "a;b=c", "~u"))
		default:
			sb.WriteString(g.word(1, 12, segAlpha))
		}
	}
	switch g.r.Intn(5) {
	case 0:
		sb.WriteString("?")
	case 1, 2:
		sb.WriteString("?" + g.word(1, 8, tokAlpha) + "=" + g.word(0, 12, tokAlpha+"%20+/?:@-._~!$'()*,;") + g.r.PickStr("", "&b=%26%3D", "&&", "&x"))
	}
	return sb.String()
}

type hline struct{ name, value string }

func (g *gen) line(name, value string) string {
	return g.casing(name) + g.sep() + value + g.tail() + "\r\n"
}

func (g *gen) bodyLen() int {
	if g.small {
		return g.r.Pick(0, 1, 2, 17, 100, 511, 4095, 4096, 4097, g.r.Range(1, 3000))
	}
	if g.r.Chance(1, 60) {
		return g.r.Pick(65535, 65536, 65537, 200000)
	}
	return g.r.Pick(0, 1, 2, 17, 100, 511, 4095, 4096, 4097, 8192, 8193, g.r.Range(1, 3000), g.r.Range(1, 20000))
}

// chunkedBody encodes body with random chunk sizes and optional chunk extensions, then the trailer section.
func (g *gen) chunkedBody(body []byte, trailers []hline) []byte {
	var out []byte
	for o := 0; o < len(body); {
		n := min(len(body)-o, g.r.Pick(1, 2, 15, 16, 255, 256, 4096, 5000, g.r.Range(1, 9000)))
		sz := fmt.Sprintf("%x", n)
		if g.r.Chance(1, 6) {
			sz = strings.ToUpper(sz)
		}
		if g.r.Chance(1, 8) {
			sz = "000" + sz
		}
		if g.r.Chance(1, 10) {
			sz += ";ext=" + g.word(1, 5, tokAlpha)
		}
		out = append(out, sz...)
		out = append(out, "\r\n"...)
		out = append(out, body[o:o+n]...)
		out = append(out, "\r\n"...)
		o += n
	}
	out = append(out, "0\r\n"...)
	for _, t := range trailers {
		out = append(out, g.line(t.name, t.value)...)
	}
	return append(out, "\r\n"...)
}

var trailerPool = []string{"X-Checksum", "Digest", "Server-Timing", "X-Trailer-A", "X-Trailer-B", "Content-MD5", "X-Sig_1"}

type reqOpts struct {
	kind      string
	host      string
	cred      string // value of Proxy-Authorization ("" = none)
	noBody    bool
	close     bool
	noUpgrade bool
	forceBody []byte // a POST with exactly this Content-Length body
}

// request builds one request.
func (g *gen) request(o reqOpts, seq int) *reqSpec {
	r := g.r
	rs := &reqSpec{Kind: o.kind}
	feat := []string{}
	host := o.host
	if o.kind == "connect" {
		tgt := r.PickStr(host, "other.example:443", "198.51.100.9:443")
		if strings.IndexByte(tgt, ':') < 0 || strings.HasSuffix(tgt, "]") {
			tgt += ":443"
		}
		head := "CONNECT " + tgt + " HTTP/1.1\r\n" + g.line("Host", tgt)
		if o.cred != "" {
			head += g.line("Proxy-Authorization", o.cred)
		}
		if o.close {
			head += g.line("Connection", "close")
		}
		head += "\r\n"
		rs.Method, rs.Raw, rs.HeadLen, rs.Text, rs.BodyMode, rs.Feat, rs.Close = "CONNECT", []byte(head), len(head), head, "none", "connect", o.close
		return rs
	}
	method := r.PickStr("GET", "GET", "GET", "HEAD", "POST", "POST", "PUT", "DELETE", "OPTIONS", "PATCH")
	if o.forceBody != nil {
		method = "POST"
	}
	rs.Method = method
	pq := g.pathQuery()
	hostHdr := host
	target := pq
	form := "origin"
	switch {
	case method == "OPTIONS" && r.Chance(1, 5):
		target, form = "*", "asterisk"
	case r.Chance(2, 5):
		form = "absolute"
		sch := r.PickStr("http://", "http://", "http://", "HTTP://", "Http://")
		target = sch + host + pq
		if r.Chance(1, 6) {
			// empty path: must be forwarded as "/"
			if i := strings.IndexByte(pq, '?'); i >= 0 && r.Bool() {
				target = sch + host + pq[i:]
			} else {
				target = sch + host
			}
		}
		if r.Chance(1, 4) {
			// RFC 9112 3.2.2: the Host field is ignored (and replaced) when the target has an authority
			hostHdr = r.PickStr("ignored.example", "other.example:81", "")
			form = "absolute+host-mismatch"
		}
	}
	feat = append(feat, form)
	var lines []string
	hostLine := g.line("Host", hostHdr)
	// end-to-end fields
	n := r.Range(0, 6)
	haveUA := r.Chance(17, 20)
	used := []string{}
	for i := 0; i < n; i++ {
		name := reqPool[r.Intn(len(reqPool))]
		if r.Chance(1, 3) {
			name = g.customName()
		}
		used = append(used, name)
		reps := 1
		if r.Chance(1, 4) {
			reps = r.Range(2, 4)
			feat = append(feat, "repeated")
		}
		for k := 0; k < reps; k++ {
			lines = append(lines, g.line(name, g.value()))
		}
	}
	if haveUA {
		lines = append(lines, g.line("User-Agent", r.PickStr("curl/8.5.0", "Mozilla/5.0 (X11; Linux x86_64) Gecko/20100101 Firefox/128.0", g.value()+"u")))
		if r.Chance(1, 40) {
			lines = append(lines, g.line("User-Agent", "second/1.0"))
			feat = append(feat, "ua-twice")
		}
	} else {
		feat = append(feat, "no-ua")
	}
	if r.Chance(1, 12) {
		lines = append(lines, g.line("Pragma", "no-cache"))
		if r.Bool() {
			lines = append(lines, g.line("Cache-Control", "no-cache"))
			feat = append(feat, "pragma+cc")
		} else {
			feat = append(feat, "pragma-only")
		}
	}
	// hop-by-hop fields and nominations
	var connTokens []string
	if o.close {
		connTokens = append(connTokens, g.casing("close"))
		feat = append(feat, "close")
	} else if r.Chance(1, 4) {
		connTokens = append(connTokens, g.casing("keep-alive"))
	}
	nNom := r.Pick(0, 0, 0, 1, 1, 2, 3)
	for i := 0; i < nNom; i++ {
		var name string
		if len(used) > 0 && r.Chance(2, 3) {
			name = used[r.Intn(len(used))]
		} else {
			name = g.customName()
			if r.Bool() {
				lines = append(lines, g.line(name, g.value()))
			}
		}
		if ln := lower(name); ln == "host" || framing[ln] {
			continue
		}
		connTokens = append(connTokens, g.casing(name))
	}
	if nNom > 0 {
		feat = append(feat, "nominate")
	}
	if r.Chance(1, 5) {
		lines = append(lines, g.line("Proxy-Connection", r.PickStr("keep-alive", "Keep-Alive", "close")))
		feat = append(feat, "proxy-connection")
	}
	if r.Chance(1, 5) {
		lines = append(lines, g.line("Keep-Alive", "timeout=5, max=100"))
		if r.Bool() {
			connTokens = append(connTokens, g.casing("keep-alive"))
		}
		feat = append(feat, "keep-alive")
	}
	if r.Chance(1, 5) {
		lines = append(lines, g.line("TE", r.PickStr("trailers", "trailers, deflate;q=0.5", "gzip")))
		if r.Bool() {
			connTokens = append(connTokens, g.casing("TE"))
		}
		feat = append(feat, "te")
	}
	if !o.noUpgrade && r.Chance(1, 6) {
		lines = append(lines, g.line("Upgrade", r.PickStr("websocket", "h2c", "HTTP/3.0, foo/2")))
		if r.Chance(2, 3) {
			connTokens = append(connTokens, g.casing("upgrade"))
		}
		feat = append(feat, "upgrade")
	}
	cred := o.cred
	if cred == "" && o.kind != "noauth" && r.Chance(1, 8) {
		cred = "Basic " + base64.StdEncoding.EncodeToString([]byte("stray:"+g.word(1, 8, tokAlpha)))
		feat = append(feat, "stray-proxy-auth")
	}
	if cred != "" {
		lines = append(lines, g.line("Proxy-Authorization", cred))
	}
	// body
	bodyOK := !o.noBody && (method == "POST" || method == "PUT" || method == "PATCH" || (method == "DELETE" && r.Chance(1, 3)) || (method == "OPTIONS" && target != "*" && r.Chance(1, 4)))
	var body, bodyRaw []byte
	var frame []string
	rs.BodyMode = "none"
	if o.forceBody != nil {
		body, bodyRaw, rs.BodyMode = o.forceBody, o.forceBody, "cl"
		frame = append(frame, g.line("Content-Length", fmt.Sprint(len(body))))
	} else if bodyOK {
		body = core.Pattern(uint64(0xB0D1+seq), 0, g.bodyLen())
		if r.Chance(1, 2) {
			rs.BodyMode = "cl"
			frame = append(frame, g.line("Content-Length", fmt.Sprint(len(body))))
			bodyRaw = body
			feat = append(feat, "cl")
		} else {
			rs.BodyMode = "chunked"
			frame = append(frame, g.line("Transfer-Encoding", g.casing("chunked")))
			var trs []hline
			if r.Chance(1, 2) {
				nt := r.Range(1, 3)
				var ann []string
				for i := 0; i < nt; i++ {
					tn := trailerPool[r.Intn(len(trailerPool))]
					dup := false
					for _, a := range ann {
						dup = dup || strings.EqualFold(a, tn)
					}
					if dup {
						continue
					}
					ann = append(ann, tn)
					trs = append(trs, hline{tn, g.shortValue()})
					if r.Chance(1, 5) {
						trs = append(trs, hline{tn, g.shortValue()})
					}
					if r.Chance(1, 4) {
						connTokens = append(connTokens, g.casing(tn))
						feat = append(feat, "nominated-trailer")
					}
				}
				if r.Chance(1, 5) {
					// announced but never sent
					ann = append(ann, "X-Never-Sent")
				}
				frame = append(frame, g.line("Trailer", strings.Join(ann, r.PickStr(", ", ",", " , "))))
				feat = append(feat, "trailers")
				if r.Chance(1, 8) {
					trs = append(trs, hline{"X-Unannounced", g.shortValue()})
					feat = append(feat, "unannounced-trailer")
				}
			}
			bodyRaw = g.chunkedBody(body, trs)
			feat = append(feat, "chunked")
		}
		if len(body) > 0 && r.Chance(1, 3) {
			lines = append(lines, g.line("Expect", "100-continue"))
			feat = append(feat, "expect")
		}
	} else if (method == "POST" || method == "PUT") && r.Bool() {
		frame = append(frame, g.line("Content-Length", "0"))
	}
	if len(connTokens) > 0 {
		// one or two Connection lines, random list whitespace, occasionally an empty element
		p := r.Perm(len(connTokens))
		toks := make([]string, len(connTokens))
		for i, j := range p {
			toks[i] = connTokens[j]
		}
		if o.close && r.Bool() {
			// keep close where a sloppy parser would miss it: not first
			for i, t := range toks {
				if lower(t) == "close" && i == 0 && len(toks) > 1 {
					toks[0], toks[len(toks)-1] = toks[len(toks)-1], toks[0]
				}
			}
		}
		if len(toks) > 1 && r.Chance(1, 3) {
			k := r.Range(1, len(toks)-1)
			lines = append(lines, g.line("Connection", strings.Join(toks[:k], r.PickStr(", ", ",", " ,\t"))))
			lines = append(lines, g.line("Connection", strings.Join(toks[k:], r.PickStr(", ", ",", " ,\t"))))
		} else {
			v := strings.Join(toks, r.PickStr(", ", ",", " ,\t"))
			if r.Chance(1, 10) {
				v = ", " + v + ","
			}
			lines = append(lines, g.line("Connection", v))
		}
	}
	lines = append(lines, frame...)
	// shuffle all lines, Host at a random position
	all := append(lines, hostLine)
	p := r.Perm(len(all))
	var sb strings.Builder
	sb.WriteString(method + " " + target + " HTTP/1.1\r\n")
	if r.Chance(2, 3) {
		// Host usually comes first
		sb.WriteString(hostLine)
		for _, j := range p {
			if j != len(all)-1 {
				sb.WriteString(all[j])
			}
		}
	} else {
		for _, j := range p {
			sb.WriteString(all[j])
		}
	}
	sb.WriteString("\r\n")
	head := sb.String()
	rs.Raw = append([]byte(head), bodyRaw...)
	rs.HeadLen = len(head)
	rs.Text = clipText(head)
	rs.BodyLen = len(body)
	rs.Close = o.close
	rs.Feat = strings.Join(dedup(feat), ",")
	return rs
}

// clipText bounds the copy of a head kept for witnesses (the case itself is replayed from seed and index).
func clipText(s string) string {
	if len(s) > 700 {
		return s[:700] + fmt.Sprintf("...(%d more bytes)", len(s)-700)
	}
	return s
}

func dedup(xs []string) []string {
	seen := map[string]bool{}
	var out []string
	for _, x := range xs {
		if !seen[x] {
			seen[x] = true
			out = append(out, x)
		}
	}
	return out
}

var respPool = []string{"Content-Type", "Cache-Control", "ETag", "Last-Modified", "Vary", "Server", "Date", "Content-Encoding", "WWW-Authenticate", "X-Frame-Options", "Accept-Ranges"}

type respOpts struct {
	method    string
	host      string
	mustClose bool
	noClose   bool
	interimOK bool
	atHead    bool // the first interim must go out at the request head (client waits for it)
}

func (g *gen) response(o respOpts, seq int) *respSpec {
	r := g.r
	ps := &respSpec{}
	feat := []string{}
	var raw []byte
	nInt := 0
	if o.interimOK && (o.atHead || r.Chance(1, 4)) {
		nInt = r.Range(1, 3)
	}
	for i := 0; i < nInt; i++ {
		var s string
		switch {
		case i == 0 && o.atHead, r.Chance(1, 2):
			s = "HTTP/1.1 100 Continue\r\n\r\n"
		case r.Bool():
			s = "HTTP/1.1 103 Early Hints\r\n" + g.line("Link", "</style.css>; rel=preload; as=style") + g.line("Link", "</s.js>; rel=preload") + "\r\n"
		default:
			s = "HTTP/1.1 102 Processing\r\n" + g.line(g.customName(), g.value()) + "\r\n"
		}
		if i == 0 && (o.atHead || r.Chance(1, 3)) {
			ps.InterimHead = []byte(s)
		} else {
			raw = append(raw, s...)
		}
	}
	ps.Interims = nInt
	if nInt > 0 {
		feat = append(feat, "1xx")
	}
	status := r.Pick(200, 200, 200, 200, 201, 202, 206, 204, 304, 301, 302, 303, 307, 308, 400, 401, 403, 404, 418, 500, 503)
	var lines []string
	n := r.Range(0, 5)
	for i := 0; i < n; i++ {
		name := respPool[r.Intn(len(respPool))]
		if r.Chance(1, 3) {
			name = g.customName()
		}
		lines = append(lines, g.line(name, g.value()))
	}
	if r.Chance(1, 4) {
		for k := r.Range(1, 3); k > 0; k-- {
			lines = append(lines, g.line("Set-Cookie", g.word(1, 6, tokAlpha)+"="+g.word(0, 20, tokAlpha)+"; Path=/; Expires=Wed, 21 Oct 2026 07:28:00 GMT"))
		}
		feat = append(feat, "set-cookie")
	}
	if status/100 == 3 && status != 304 {
		switch r.Intn(5) {
		case 0:
			// a redirect without Location must simply be forwarded
			feat = append(feat, "3xx-noloc")
		case 1:
			loc := g.pathQuery()
			lines = append(lines, g.line("Location", loc))
			if strings.HasPrefix(loc, "//") {
				// a network-path reference names another authority
				ps.MayClose = true
				feat = append(feat, "3xx-other")
			} else {
				feat = append(feat, "3xx-rel")
			}
		case 2:
			lines = append(lines, g.line("Location", "http://"+o.host+g.pathQuery()))
			feat = append(feat, "3xx-same")
		case 3:
			lines = append(lines, g.line("Location", r.PickStr("http://elsewhere.example/x", "https://"+o.host+".evil.example/", "//cdn.example/y")))
			ps.MayClose = true
			feat = append(feat, "3xx-other")
		default:
			// unparsable / repeated Location: forwarded as it is
			if r.Bool() {
				lines = append(lines, g.line("Location", "http://%zz/ a"))
			} else {
				lines = append(lines, g.line("Location", "/a"), g.line("Location", "http://elsewhere.example/b"))
			}
			ps.MayClose = true
			feat = append(feat, "3xx-odd")
		}
	}
	var connTokens []string
	if r.Chance(1, 6) {
		name := g.customName()
		lines = append(lines, g.line(name, g.value()))
		connTokens = append(connTokens, g.casing(name))
		feat = append(feat, "nominate")
	}
	if r.Chance(1, 6) {
		lines = append(lines, g.line("Keep-Alive", "timeout=15"))
		connTokens = append(connTokens, g.casing("keep-alive"))
	}
	noBody := o.method == "HEAD" || status == 204 || status == 304
	body := []byte{}
	var bodyRaw []byte
	proto := "HTTP/1.1"
	mode := "none"
	switch {
	case noBody:
		feat = append(feat, "nobody")
		if status != 204 && r.Bool() {
			// HEAD/304 may describe the representation without sending it (RFC 9110 8.6, RFC 9112 6.1)
			if r.Chance(5, 6) {
				lines = append(lines, g.line("Content-Length", fmt.Sprint(r.Range(0, 100000))))
			} else {
				lines = append(lines, g.line("Transfer-Encoding", "chunked"))
				feat = append(feat, "nobody+te")
			}
		}
	case o.mustClose && r.Chance(1, 2):
		mode = "close"
		body = core.Pattern(uint64(0xE5B0+seq), 0, g.bodyLen())
		bodyRaw = body
		if r.Chance(1, 3) {
			proto = "HTTP/1.0"
		}
		feat = append(feat, "close-delimited")
	case r.Chance(1, 2):
		mode = "cl"
		body = core.Pattern(uint64(0xE5B0+seq), 0, g.bodyLen())
		bodyRaw = body
		lines = append(lines, g.line("Content-Length", fmt.Sprint(len(body))))
		feat = append(feat, "cl")
	default:
		mode = "chunked"
		body = core.Pattern(uint64(0xE5B0+seq), 0, g.bodyLen())
		lines = append(lines, g.line("Transfer-Encoding", "chunked"))
		var trs []hline
		if r.Chance(1, 3) {
			var ann []string
			for i := r.Range(1, 2); i > 0; i-- {
				tn := trailerPool[r.Intn(len(trailerPool))]
				dup := false
				for _, a := range ann {
					dup = dup || a == tn
				}
				if dup {
					continue
				}
				ann = append(ann, tn)
				trs = append(trs, hline{tn, g.shortValue()})
				if r.Chance(1, 5) {
					connTokens = append(connTokens, g.casing(tn))
				}
			}
			lines = append(lines, g.line("Trailer", strings.Join(ann, ", ")))
			feat = append(feat, "trailers")
		}
		bodyRaw = g.chunkedBody(body, trs)
		feat = append(feat, "chunked")
	}
	if o.mustClose {
		ps.MustClose = true
		if mode != "close" || r.Bool() {
			connTokens = append(connTokens, g.casing("close"))
		}
		feat = append(feat, "conn-close")
	}
	if len(connTokens) > 0 {
		lines = append(lines, g.line("Connection", strings.Join(connTokens, r.PickStr(", ", ","))))
	}
	reason := map[int]string{200: "OK", 201: "Created", 202: "Accepted", 206: "Partial Content", 204: "No Content", 304: "Not Modified",
		301: "Moved Permanently", 302: "Found", 303: "See Other", 307: "Temporary Redirect", 308: "Permanent Redirect", 400: "Bad Request",
		401: "Unauthorized", 403: "Forbidden", 404: "Not Found", 418: "I'm a teapot", 500: "Internal Server Error", 503: "Service Unavailable"}[status]
	if r.Chance(1, 10) {
		reason = r.PickStr("", "Whatever You Say", "ok")
	}
	p := r.Perm(len(lines))
	var sb strings.Builder
	sb.WriteString(fmt.Sprintf("%s %d %s\r\n", proto, status, reason))
	for _, j := range p {
		sb.WriteString(lines[j])
	}
	sb.WriteString("\r\n")
	head := sb.String()
	raw = append(raw, head...)
	raw = append(raw, bodyRaw...)
	ps.Status, ps.Raw, ps.Text, ps.BodyLen, ps.BodyMode = status, raw, clipText(head), len(body), mode
	if status/100 == 3 {
		feat = append(feat, fmt.Sprint(status))
	}
	// how the origin's writer cuts this answer into writes
	switch r.Intn(4) {
	case 0:
		ps.Splits = []int{1 << 30}
	case 1:
		ps.Splits = []int{1, 2, 3, 5, 8, 13, 21, 34, 55, 89, 144, 4096}
	case 2:
		ps.Splits = []int{len(head) - 1, 1, 1 << 30}
	default:
		ps.Splits = []int{r.Range(1, 60), r.Range(1, 600), r.Range(1, 6000)}
	}
	ps.Feat = strings.Join(dedup(feat), ",")
	return ps
}

func basic(user, pass string) string {
	return "Basic " + base64.StdEncoding.EncodeToString([]byte(user+":"+pass))
}

// genCase builds case i.
func genCase(r *core.RNG, small bool) *caseSpec {
	g := &gen{r: r, small: small}
	c := &caseSpec{}
	c.Host = hosts[r.Intn(len(hosts))]
	c.WantAddr = wantAddrOf(c.Host)
	c.Scenario = r.PickStr("plain", "plain", "plain", "host-change", "later-connect", "client-close-ind", "origin-close-ind",
		"client-early-close", "origin-early-close")
	c.Auth = r.Chance(1, 3)
	if c.Auth && r.Chance(1, 8) {
		c.Scenario = "auth-fail-only"
	}
	n := r.Pick(1, 2, 3, 4, 5, r.Range(1, 20), r.Range(6, 20))
	c.Depth = r.Pick(1, 2, 3, 20, r.Range(1, 20), r.Range(1, 20))
	if c.Depth > n {
		c.Depth = n
	}
	c.Lag = 0
	if c.Depth > 1 && r.Chance(1, 3) {
		c.Lag = r.Range(1, min(c.Depth-1, 8))
	}
	validCred := ""
	if c.Auth {
		c.User = r.PickStr("alice", "b", "user.name+tag", "u")
		c.Pass = r.PickStr("s3cret", "", "p:w:d", g.word(1, 20, tokAlpha+"!@#$%^&*"))
		validCred = r.PickStr("Basic ", "Basic ", "basic ", "BASIC ", "bAsIc ") + base64.StdEncoding.EncodeToString([]byte(c.User+":"+c.Pass))
		// failed attempts: no credentials or credentials that are not a configured user's
		na := r.Pick(0, 0, 1, 1, 2, 3, 5)
		if c.Scenario == "auth-fail-only" {
			na = r.Range(1, 5)
			// authentication enabled while no user is configured (all accounts revoked): every credential is wrong
			c.NoUsers = r.Chance(1, 2)
		}
		for k := 0; k < na; k++ {
			wrong := ""
			kind := "noauth"
			if r.Chance(2, 3) {
				kind = "wrongauth"
				wrong = r.PickStr(
					basic(c.User, c.Pass+"x"),
					basic(c.User+"x", c.Pass),
					basic(c.Pass, c.User+"!"),
					"Basic "+base64.StdEncoding.EncodeToString([]byte(c.User+":"+c.Pass))+"AA",
					"Basic ",
					"Basic",
					"Bearer "+base64.StdEncoding.EncodeToString([]byte(c.User+":"+c.Pass)),
					"Digest username=\""+c.User+"\"",
					base64.StdEncoding.EncodeToString([]byte(c.User+":"+c.Pass)),
					"Basic "+base64.RawStdEncoding.EncodeToString([]byte(c.User+":"+c.Pass+"zz"))+"!",
				)
				if c.NoUsers && r.Bool() {
					wrong = validCred // well-formed, but there is no such user: there are no users
				}
			}
			last := k == na-1
			cl := c.Scenario == "auth-fail-only" && last && r.Bool()
			var a *reqSpec
			if r.Chance(1, 6) {
				a = g.request(reqOpts{kind: "connect", host: c.Host, cred: wrong, close: cl}, 900+k)
				a.Kind = kind
			} else if !cl && r.Chance(1, 12) {
				// a failed attempt that carries a body: the retry follows the body on the same connection
				fb := [][]byte{[]byte("hello"), []byte("a=1&b=2"), []byte("{\"k\":1}"), core.Pattern(7, 0, r.Range(1, 300))}[r.Intn(4)]
				a = g.request(reqOpts{kind: kind, host: c.Host, cred: wrong, forceBody: fb}, 900+k)
				c.AttemptBody = true
			} else {
				a = g.request(reqOpts{kind: kind, host: r.PickStr(c.Host, c.Host, "unrelated.example"), cred: wrong, noBody: true, close: cl}, 900+k)
			}
			c.AttemptClose = c.AttemptClose || cl
			c.Attempts = append(c.Attempts, a)
		}
	}
	if c.Scenario == "auth-fail-only" {
		// optionally a request with valid credentials behind a closing failed attempt: must never be served
		if c.AttemptClose && r.Bool() {
			c.Reqs = append(c.Reqs, g.request(reqOpts{kind: "normal", host: c.Host, cred: validCred, noBody: true}, 0))
		}
		c.M = 0
		c.finish(r)
		return c
	}
	// the request sequence
	term := -1
	switch c.Scenario {
	case "host-change", "later-connect":
		if n < 2 {
			n = 2
		}
		term = r.Range(1, n-1)
	case "client-close-ind":
		term = r.Range(0, n-1)
		if r.Chance(1, 3) {
			term = n - 1
		}
	}
	for i := 0; i < n; i++ {
		o := reqOpts{kind: "normal", host: c.Host}
		if i == 0 {
			o.cred = validCred
		} else if c.Auth && r.Chance(1, 3) {
			o.cred = validCred
		}
		if i == term {
			switch c.Scenario {
			case "host-change":
				o.kind = "other-host"
				o.host = r.PickStr("other.example", c.Host+".evil.example", "example.net:8080", "192.0.2.8")
				if r.Chance(1, 3) {
					// the same name or address with another port, or with one more character: still another origin
					base := c.Host
					if i := strings.LastIndex(base, ":"); i > 0 && !strings.HasSuffix(base, "]") {
						base = base[:i]
					}
					o.host = base + r.PickStr(":8000", ":8080", ":8008", ":88", ":808", ":81", ":443")
					if o.host == c.Host || wantAddrOf(o.host) == wantAddrOf(c.Host) {
						o.host = base + ":8088"
					}
					if !strings.HasPrefix(base, "[") && r.Chance(1, 3) {
						o.host = base + r.PickStr("0", "8", "00") // 192.0.2.7 -> 192.0.2.70, example.com -> example.com0
					}
				}
			case "later-connect":
				o.kind = "connect"
			case "client-close-ind":
				o.close = true
			}
		}
		c.Reqs = append(c.Reqs, g.request(o, i))
	}
	c.M = n
	switch c.Scenario {
	case "host-change":
		c.M, c.Term = term, "other_host"
	case "later-connect":
		c.M, c.Term = term, "connect"
	case "client-close-ind":
		c.M, c.Term = term+1, "after_close"
	}
	// the origin's answers
	closeAt := -1
	if c.Scenario == "origin-close-ind" {
		closeAt = r.Range(0, c.M-1)
	}
	for j := 0; j < c.M; j++ {
		rq := c.Reqs[j]
		o := respOpts{method: rq.Method, host: c.Host, mustClose: j == closeAt, interimOK: true}
		// the client holds the body back until an interim response arrives
		if rq.BodyLen > 0 && strings.Contains(rq.Feat, "expect") && r.Chance(1, 2) {
			rq.ExpectWait = true
			o.atHead = true
		}
		ps := g.response(o, j)
		if ps.MustClose {
			// what the origin does after an answer that ends the connection
			ps.OriginAction = r.PickStr("close", "closewrite")
		} else if rq.Close {
			// an origin may also leave it to its peer to act on the request's close option
			ps.OriginAction = r.PickStr("close", "closewrite", "")
		}
		c.Resps = append(c.Resps, ps)
	}
	// early close by either side
	switch c.Scenario {
	case "client-early-close":
		total := 0
		var bounds, mids []int
		for _, q := range append(append([]*reqSpec{}, c.Attempts...), c.Reqs...) {
			if q.HeadLen > 2 {
				mids = append(mids, total+r.Range(1, q.HeadLen-1))
			}
			if len(q.Raw) > q.HeadLen+1 {
				mids = append(mids, total+q.HeadLen, total+r.Range(q.HeadLen+1, len(q.Raw)-1))
			}
			total += len(q.Raw)
			bounds = append(bounds, total)
		}
		ct := &cut{Mode: r.PickStr("close", "close", "halfclose")}
		switch {
		case r.Chance(1, 3) && len(bounds) > 0:
			k := r.Intn(len(bounds))
			ct.Offset, ct.Where = bounds[k], "boundary"
			if r.Bool() && ct.Mode == "close" {
				// let some answers arrive, then drop the connection
				ct.WaitFinals = r.Range(0, min(k+1, len(c.Attempts)+c.M))
				ct.Where = "boundary-after-responses"
				c.Lag = 0
			}
		case len(mids) > 0:
			ct.Offset, ct.Where = mids[r.Intn(len(mids))], "mid-message"
		default:
			ct.Offset, ct.Where = 0, "nothing-sent"
		}
		c.ClientCut = ct
	case "origin-early-close":
		total := 0
		var opts []cut
		opts = append(opts, cut{Offset: 0, Where: "before-any-answer"})
		for _, ps := range c.Resps {
			full := len(ps.InterimHead) + len(ps.Raw)
			if full > 3 {
				opts = append(opts, cut{Offset: total + r.Range(1, min(full-1, 12)), Where: "mid-head"})
				opts = append(opts, cut{Offset: total + r.Range(1, full-1), Where: "mid-message"})
			}
			total += full
			opts = append(opts, cut{Offset: total, Where: "boundary"})
		}
		ct := opts[r.Intn(len(opts))]
		ct.Mode = r.PickStr("close", "close", "halfclose")
		c.OriginCut = &ct
	}
	c.finish(r)
	return c
}

func (c *caseSpec) finish(r *core.RNG) {
	// transport segmentation of the client's bytes as the proxy reads them: the first reads are tiny
	// (every head boundary gets split somewhere), later ones grow so that large bodies stay cheap
	c.SegLoop = false
	switch r.Intn(5) {
	case 0:
		for k := 0; k < 300; k++ {
			c.SegC2S = append(c.SegC2S, 1)
		}
		c.SegC2S = append(c.SegC2S, 977)
	case 1:
		for k := 0; k < 40; k++ {
			c.SegC2S = append(c.SegC2S, 2, 3, 5, 7, 11, 64)
		}
		c.SegC2S = append(c.SegC2S, 1500)
	case 2:
		c.SegC2S = nil // whole writes
	case 3:
		c.SegC2S, c.SegLoop = []int{r.Range(1, 50), r.Range(100, 500), r.Range(1000, 5000)}, true
	default:
		c.SegC2S, c.SegLoop = []int{4096, 4095, 1, 4097}, true
	}
	// read buffer sizes of the origin: small at first, then large
	for k := r.Pick(0, 20, 200); k > 0; k-- {
		c.OriginBuf = append(c.OriginBuf, r.Pick(1, 7, 64))
	}
	c.OriginBuf = append(c.OriginBuf, r.Pick(512, 4096, 65536))
}
