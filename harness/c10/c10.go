// Package c10 monitors "domain, prefix and port sets mean the same in every
// representation": the real builders, matchers, loaders and writers of
// domainset / portset / prefixset (and the real converter binary) are run on
// generated rule sets and every representation is compared, probe by probe,
// with a naive reference written from the statement.
package c10

import (
	"fmt"
	"runtime/debug"

	"verif/core"
)

func init() {
	core.Register("C10", "domain", runDomain)
	core.Register("C10", "port", runPort)
	core.Register("C10", "prefix", runPrefix)
}

// trunc abbreviates long witnesses.
func trunc(s string, n int) string {
	if len(s) <= n {
		return s
	}
	return s[:n] + "...(truncated)"
}

func truncList(xs []string, n int) []string {
	if len(xs) <= n {
		return xs
	}
	out := append([]string{}, xs[:n]...)
	return append(out, "...(truncated)")
}

// bucket names a count relative to the interesting thresholds.
func bucket(n int) string {
	switch {
	case n == 0:
		return "0"
	case n == 1:
		return "1"
	case n <= 3:
		return "2-3"
	case n == 4:
		return "4"
	case n == 5:
		return "5"
	case n <= 15:
		return "6-15"
	case n == 16:
		return "16"
	case n == 17:
		return "17"
	case n <= 99:
		return "18-99"
	default:
		return "100+"
	}
}

// errText formats an error that may point into a file mapping that has been
// unmapped meanwhile (prefixset.Config.LoadPrefixSet returns netip's parse
// error, which quotes its input, after munmap). A fault while formatting is
// turned into a description instead of killing the process.
func errText(err error) (s string, faulted bool) {
	old := debug.SetPanicOnFault(true)
	defer debug.SetPanicOnFault(old)
	defer func() {
		if p := recover(); p != nil {
			s = fmt.Sprintf("<%T: its text cannot be read, it refers to memory that is no longer mapped (%v)>", err, p)
			faulted = true
		}
	}()
	return err.Error(), false
}
