package c10

import (
	"bytes"
	"fmt"
	"net/netip"
	"os"
	"path/filepath"
	"strings"

	"github.com/database64128/shadowsocks-go/prefixset"

	"verif/core"
)

var prefixBits4 = []int{0, 1, 7, 8, 9, 15, 16, 17, 23, 24, 25, 30, 31, 32}
var prefixBits6 = []int{0, 1, 7, 8, 9, 16, 31, 32, 33, 47, 48, 56, 63, 64, 65, 96, 120, 126, 127, 128}

// a small pool of base addresses makes prefixes nest and collide
var pool4 = [][4]byte{{10, 0, 0, 0}, {10, 1, 2, 3}, {10, 255, 255, 255}, {192, 168, 1, 1}, {127, 0, 0, 1}, {0, 0, 0, 0}, {255, 255, 255, 255}, {203, 0, 113, 77}, {128, 0, 0, 0}}
var pool6 = []string{"::", "::1", "2001:db8::", "2001:db8:1:2:3:4:5:6", "fe80::1", "ffff:ffff:ffff:ffff:ffff:ffff:ffff:ffff", "::ffff:10.1.2.3", "8000::", "2001:db8:ffff:ffff:ffff:ffff:ffff:ffff"}

func genAddr(r *core.RNG, v6 bool) netip.Addr {
	if !v6 {
		if r.Chance(1, 2) {
			return netip.AddrFrom4(pool4[r.Intn(len(pool4))])
		}
		var b [4]byte
		r.Fill(b[:])
		return netip.AddrFrom4(b)
	}
	if r.Chance(1, 2) {
		return netip.MustParseAddr(pool6[r.Intn(len(pool6))])
	}
	var b [16]byte
	r.Fill(b[:])
	if r.Chance(1, 3) {
		copy(b[:], []byte{0x20, 0x01, 0x0d, 0xb8})
	}
	return netip.AddrFrom16(b)
}

// genPrefix draws one prefix. Very short prefixes (/0../3) swallow nearly every
// probe, so the larger the list the rarer they are (about one in two lists has one).
func genPrefix(r *core.RNG, np int) netip.Prefix {
	v6 := r.Chance(2, 5)
	a := genAddr(r, v6)
	var bits int
	switch {
	case r.Chance(1, 2) && !v6:
		bits = prefixBits4[r.Intn(len(prefixBits4))]
	case r.Chance(1, 2) && v6:
		bits = prefixBits6[r.Intn(len(prefixBits6))]
	case v6:
		bits = r.Range(0, 128)
	default:
		bits = r.Range(0, 32)
	}
	if bits < 4 && !r.Chance(1, 1+np/4) {
		bits = r.Range(8, a.BitLen())
	}
	return netip.PrefixFrom(a, bits) // host bits possibly set: the text form "10.1.2.3/8" is legal input
}

// expand6 spells an IPv6 address without "::" compression and in upper case.
func expand6(a netip.Addr) string {
	b := a.As16()
	parts := make([]string, 8)
	for i := range parts {
		parts[i] = fmt.Sprintf("%X", uint16(b[2*i])<<8|uint16(b[2*i+1]))
	}
	return strings.Join(parts, ":")
}

func prefixLine(r *core.RNG, p netip.Prefix) string {
	if r.Chance(2, 3) {
		p = p.Masked()
	}
	if p.Addr().Is6() && !p.Addr().Is4In6() && r.Chance(1, 3) {
		return expand6(p.Addr()) + "/" + fmt.Sprint(p.Bits())
	}
	return p.String()
}

func lastAddr(p netip.Prefix) netip.Addr {
	p = p.Masked()
	if p.Addr().Is4() {
		b := p.Addr().As4()
		for i := p.Bits(); i < 32; i++ {
			b[i/8] |= 0x80 >> (i % 8)
		}
		return netip.AddrFrom4(b)
	}
	b := p.Addr().As16()
	for i := p.Bits(); i < 128; i++ {
		b[i/8] |= 0x80 >> (i % 8)
	}
	return netip.AddrFrom16(b)
}

func flipBit(a netip.Addr, bit int) netip.Addr {
	if a.Is4() {
		b := a.As4()
		b[bit/8] ^= 0x80 >> (bit % 8)
		return netip.AddrFrom4(b)
	}
	b := a.As16()
	b[bit/8] ^= 0x80 >> (bit % 8)
	return netip.AddrFrom16(b)
}

type containser interface{ Contains(netip.Addr) bool }

func runPrefix(e *core.Env) {
	rec := e.Rec
	rec.Rule("prefix: case i = prefix list from (seed,i): 0..1000 prefixes (1 in 25 cases 8000..30000 so that the written text passes the writer's 128 KiB buffer), IPv4 /0../32 and IPv6 /0../128 biased to byte and " +
		"word edges, nested via an address pool, host bits set or masked, expanded upper-case IPv6 spellings, CRLF / blank / comment lines. The loaded set, its PrefixSetToText reload, its PrefixSetWriteText reload, " +
		"the file loader and a second-generation reload are compared with the linear Prefix.Contains model on first/last address of every prefix +-1, the sibling across the prefix boundary, IPv4-mapped twins and random addresses. " +
		"Classes = (size bucket, families present, whether the writer buffer boundary was crossed, eol)")
	n := e.N(300, 20000)
	observeLoadError(e)
	core.Parallel(e, "prefix", n, 2, func(i int) {
		r := core.NewRNG(e.Seed, "c10-prefix", i)
		np := r.Pick(0, 1, 2, 5, 20, 100, 100, 1000)
		if r.Chance(1, 25) {
			np = r.Range(8000, 30000)
		}
		eol := r.PickStr("lf", "crlf", "mixed")
		finalNL := !r.Chance(1, 3)
		rec.Begin("prefix", i, fmt.Sprintf("n=%d eol=%s", np, eol))
		prefixes := make([]netip.Prefix, np)
		var lines []string
		has4, has6 := false, false
		for k := range prefixes {
			p := genPrefix(r, np)
			prefixes[k] = p.Masked()
			if p.Addr().Is4() {
				has4 = true
			} else {
				has6 = true
			}
			for r.Chance(1, 10) {
				lines = append(lines, r.PickStr("", "# comment", "#", "#10.0.0.0/8", "# ::/0"))
			}
			lines = append(lines, prefixLine(r, p))
		}
		var sb strings.Builder
		for k, l := range lines {
			sb.WriteString(l)
			if k == len(lines)-1 && !finalNL && l != "" {
				break
			}
			if eol == "lf" || eol == "mixed" && r.Bool() {
				sb.WriteString("\n")
			} else {
				sb.WriteString("\r\n")
			}
		}
		text := sb.String()
		detail := map[string]any{"prefixes": np, "text": trunc(text, 3000)}

		violated := false
		fail := func(kind, repr string, extra map[string]any, format string, a ...any) {
			violated = true
			for k, v := range detail {
				extra[k] = v
			}
			rec.Violate("prefix", i, core.Sig("kind", kind, "part", "prefix", "repr", repr), extra, format, a...)
		}

		s0, err := prefixset.PrefixSetFromText(text)
		rec.Eval()
		if err != nil {
			fail("prefix_load_error", "text", map[string]any{"error": err.Error()}, "PrefixSetFromText refused a valid text: %v", err)
			return
		}

		// probes
		var probes []netip.Addr
		addProbe := func(a netip.Addr) {
			if a.IsValid() {
				probes = append(probes, a)
				if a.Is4() && len(probes)%7 == 0 {
					probes = append(probes, netip.AddrFrom16(a.As16())) // IPv4-mapped twin: an IPv6 address
				}
			}
		}
		stride := 1
		if np > 400 {
			stride = np / 400
		}
		for k := 0; k < np; k += stride {
			p := prefixes[k]
			first, last := p.Addr(), lastAddr(p)
			addProbe(first)
			addProbe(last)
			addProbe(first.Prev())
			addProbe(last.Next())
			if p.Bits() > 0 {
				addProbe(flipBit(first, p.Bits()-1))
				addProbe(flipBit(last, p.Bits()-1))
			}
			if p.Bits() < p.Addr().BitLen() {
				addProbe(flipBit(first, p.Bits()))
			}
		}
		for k := 0; k < 200; k++ {
			addProbe(genAddr(r, r.Chance(2, 5)))
		}
		want := make([]bool, len(probes))
		in := 0
		for k, a := range probes {
			for _, p := range prefixes {
				if p.Contains(a) {
					want[k] = true
					in++
					break
				}
			}
		}

		cmp := func(repr string, s containser) bool {
			for k, a := range probes {
				if got := s.Contains(a); got != want[k] {
					fail("prefix_mismatch", repr, map[string]any{"representation": repr, "address": a.String(), "got": got, "want": want[k]},
						"%s: Contains(%s)=%v, the prefixes say %v", repr, a, got, want[k])
					return false
				}
			}
			rec.Count("addresses_compared", int64(len(probes)))
			return true
		}
		reload := func(repr string, b []byte) (containser, bool) {
			s, err := prefixset.PrefixSetFromText(string(b))
			if err != nil {
				fail("prefix_load_error", repr, map[string]any{"error": err.Error(), "written": trunc(string(b), 2000)}, "%s: the written text cannot be loaded: %v", repr, err)
				return nil, false
			}
			return s, true
		}

		if !cmp("text", s0) {
			return
		}
		t1 := prefixset.PrefixSetToText(s0)
		var w bytes.Buffer
		if err := prefixset.PrefixSetWriteText(s0, &w); err != nil {
			fail("prefix_load_error", "WriteText", map[string]any{"error": err.Error()}, "PrefixSetWriteText failed: %v", err)
			return
		}
		t2 := w.Bytes()
		crossed := len(t2) > 128*1024
		if s1, ok := reload("ToText", t1); ok {
			cmp("ToText", s1)
			// second generation, through the other writer
			var w2 bytes.Buffer
			if lite, err := prefixset.PrefixSetFromText(string(t1)); err == nil {
				if err := prefixset.PrefixSetWriteText(lite, &w2); err == nil {
					if s3, ok := reload("ToText>WriteText", w2.Bytes()); ok {
						cmp("ToText>WriteText", s3)
					}
				}
			}
		}
		if s2, ok := reload("WriteText", t2); ok {
			cmp("WriteText", s2)
		}
		if e.WorkDir != "" && (i%3 == 0 || crossed) {
			path := filepath.Join(e.WorkDir, fmt.Sprintf("prefix%d.txt", i))
			if err := os.WriteFile(path, t2, 0o644); err == nil {
				s4, err := prefixset.Config{Name: "p", Path: path}.LoadPrefixSet()
				if err != nil {
					// the error may quote bytes of the (already unmapped) file: format it defensively
					et, _ := errText(err)
					fail("prefix_load_error", "file", map[string]any{"error": et}, "LoadPrefixSet failed on the written file: %s", et)
				} else {
					cmp("file", s4)
				}
				os.Remove(path)
			} else {
				rec.Inconclusive("workdir-write")
			}
		}
		if !violated {
			fam := "none"
			switch {
			case has4 && has6:
				fam = "v4+v6"
			case has4:
				fam = "v4"
			case has6:
				fam = "v6"
			}
			rec.Class("prefixes=%s families=%s writer_buffer_crossed=%v eol=%s inside=%v outside=%v", bucket(np), fam, crossed, eol, in > 0, in < len(probes))
			rec.Sample(2, map[string]any{"prefixes": np, "text": trunc(text, 300), "probes": len(probes), "probes_inside": in})
		}
	})
}

// observeLoadError records, as a note only, what happens outside the property:
// a malformed prefix set file. LoadPrefixSet maps the file, parses it and
// unmaps it; the parse error it returns still quotes the mapped bytes.
func observeLoadError(e *core.Env) {
	if e.WorkDir == "" {
		return
	}
	path := filepath.Join(e.WorkDir, "malformed-prefixes.txt")
	if os.WriteFile(path, []byte("10.0.0.0/8\nnot-a-prefix\n"), 0o644) != nil {
		return
	}
	defer os.Remove(path)
	_, err := prefixset.Config{Name: "bad", Path: path}.LoadPrefixSet()
	if err == nil {
		e.Rec.Note("outside the property: LoadPrefixSet accepted a file with the line %q", "not-a-prefix")
		return
	}
	if et, faulted := errText(err); faulted {
		e.Rec.Note("outside the property (error path): the error LoadPrefixSet returns for a malformed file cannot be printed: %s", et)
	}
}
