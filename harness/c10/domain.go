package c10

import (
	"bytes"
	"fmt"
	"os"
	"path/filepath"
	"slices"
	"strings"

	"github.com/database64128/shadowsocks-go/domainset"

	"verif/core"
)

type matcher interface{ Match(string) bool }

// dcase is the state of one domain-set case.
type dcase struct {
	e     *core.Env
	i     int
	rs    ruleSet
	text  string
	opts  textOpts
	empty bool // no rule at all: loaders may refuse the set (deliberate "empty domain set" error)

	probes     []string
	wantAll    []bool
	wantExact  []bool
	wantSuffix []bool

	violations int
}

func (c *dcase) detail(extra map[string]any) map[string]any {
	d := map[string]any{"rules": c.rs.abbreviated(), "text": trunc(c.text, 3000), "text_options": c.opts}
	for k, v := range extra {
		d[k] = v
	}
	return d
}

// cmp compares one representation with the reference on every probe and
// records the first disagreement.
func (c *dcase) cmp(repr string, m matcher, probes []string, want []bool) bool {
	for k, p := range probes {
		got := m.Match(p)
		if got != want[k] {
			dir := "spurious_match"
			if want[k] {
				dir = "missed_match"
			}
			c.violations++
			c.e.Rec.Violate("domain", c.i, core.Sig("kind", "domain_mismatch", "part", "domain", "repr", reprFamily(repr), "dir", dir),
				c.detail(map[string]any{"representation": repr, "probe": p, "want": want[k], "got": got}),
				"representation %s: Match(%q)=%v, the rules say %v", repr, p, got, want[k])
			return false
		}
	}
	c.e.Rec.Count("matches_compared", int64(len(probes)))
	c.e.Rec.Count("representations_compared", 1)
	return true
}

// reprFamily strips the variable parts of a representation name for the signature.
func reprFamily(repr string) string {
	if i := strings.IndexByte(repr, '['); i >= 0 {
		return repr[:i]
	}
	return repr
}

// loadErr handles an error from a loader / writer. A set without any rule may
// be refused (the code has a deliberate "empty domain set" error and the
// statement is about matching, not about loading nothing); any other failure
// means the representation cannot be used at all.
func (c *dcase) loadErr(repr string, err error) {
	if c.empty {
		c.e.Rec.Count("empty_set_refused", 1)
		return
	}
	c.violations++
	et, _ := errText(err) // file loaders unmap their input before returning: never format their errors unguarded
	c.e.Rec.Violate("domain", c.i, core.Sig("kind", "load_error", "part", "domain", "repr", reprFamily(repr)),
		c.detail(map[string]any{"representation": repr, "error": et}),
		"representation %s cannot be produced/loaded: %s", repr, et)
}

// set builds the DomainSet of a builder and compares it.
func (c *dcase) set(repr string, b domainset.Builder) {
	ds, err := b.DomainSet()
	if err != nil {
		c.loadErr(repr+":DomainSet", err)
		return
	}
	c.cmp(repr, ds, c.probes, c.wantAll)
}

func (c *dcase) toGob(repr string, b domainset.Builder) ([]byte, bool) {
	var buf bytes.Buffer
	if err := b.WriteGob(&buf); err != nil {
		c.loadErr(repr+":WriteGob", err)
		return nil, false
	}
	return buf.Bytes(), true
}

func (c *dcase) toText(repr string, b domainset.Builder) (string, bool) {
	var buf bytes.Buffer
	if err := b.WriteText(&buf); err != nil {
		c.loadErr(repr+":WriteText", err)
		return "", false
	}
	return buf.String(), true
}

func (c *dcase) fromGob(repr string, g []byte, viaString bool) (domainset.Builder, bool) {
	var (
		b   domainset.Builder
		err error
	)
	if viaString {
		b, err = domainset.BuilderFromGobString(string(g))
	} else {
		b, err = domainset.BuilderFromGob(bytes.NewReader(g))
	}
	if err != nil {
		c.loadErr(repr, err)
		return b, false
	}
	return b, true
}

func (c *dcase) fromText(repr string, t string) (domainset.Builder, bool) {
	b, err := domainset.BuilderFromText(t)
	if err != nil {
		c.loadErr(repr, err)
		return b, false
	}
	return b, true
}

// chain walks text -> gob -> text -> gob and also text -> text.
func (c *dcase) chain() {
	b0, ok := c.fromText("text", c.text)
	if !ok {
		return
	}
	c.set("text", b0)
	if t, ok := c.toText("text>text", b0); ok {
		if b, ok := c.fromText("text>text", t); ok {
			c.set("text>text", b)
		}
	}
	g1, ok := c.toGob("text>gob", b0)
	if !ok {
		return
	}
	b1, ok := c.fromGob("text>gob", g1, false)
	if !ok {
		return
	}
	c.set("text>gob", b1)
	t2, ok := c.toText("text>gob>text", b1)
	if !ok {
		return
	}
	b2, ok := c.fromText("text>gob>text", t2)
	if !ok {
		return
	}
	c.set("text>gob>text", b2)
	g3, ok := c.toGob("text>gob>text>gob", b2)
	if !ok {
		return
	}
	b3, ok := c.fromGob("text>gob>text>gob", g3, true)
	if !ok {
		return
	}
	c.set("text>gob>text>gob", b3)
}

// files goes through the real loader (Config.DomainSet: os.ReadFile for text, mmap for gob).
func (c *dcase) files(dir string) {
	tp := filepath.Join(dir, "set.txt")
	gp := filepath.Join(dir, "set.gob")
	if err := os.WriteFile(tp, []byte(c.text), 0o644); err != nil {
		c.e.Rec.Inconclusive("workdir-write")
		return
	}
	for _, typ := range []string{"text", ""} {
		ds, err := domainset.Config{Name: "t", Type: typ, Path: tp}.DomainSet()
		if err != nil {
			c.loadErr("file:text", err)
			continue
		}
		c.cmp("file:text[type="+typ+"]", ds, c.probes, c.wantAll)
	}
	b0, err := domainset.BuilderFromText(c.text)
	if err != nil {
		return // already reported by chain()
	}
	g, ok := c.toGob("file:gob", b0)
	if !ok {
		return
	}
	if err := os.WriteFile(gp, g, 0o644); err != nil {
		c.e.Rec.Inconclusive("workdir-write")
		return
	}
	ds, err := domainset.Config{Name: "g", Type: "gob", Path: gp}.DomainSet()
	if err != nil {
		c.loadErr("file:gob", err)
		return
	}
	c.cmp("file:gob", ds, c.probes, c.wantAll)
}

// converter runs the real converter binary as a child: text -> (gob, text), then gob -> (text, gob),
// and loads each output through the real loader.
func (c *dcase) converter(cv *converterBin, dir string) {
	in := filepath.Join(dir, "in.txt")
	if err := os.WriteFile(in, []byte(c.text), 0o644); err != nil {
		c.e.Rec.Inconclusive("workdir-write")
		return
	}
	aGob, aTxt := filepath.Join(dir, "a.gob"), filepath.Join(dir, "a.txt")
	bGob, bTxt := filepath.Join(dir, "b.gob"), filepath.Join(dir, "b.txt")
	load := func(repr, typ, path string) {
		ds, err := domainset.Config{Name: repr, Type: typ, Path: path}.DomainSet()
		if err != nil {
			c.loadErr(repr, err)
			return
		}
		c.cmp(repr, ds, c.probes, c.wantAll)
	}
	step := func(repr string, args ...string) bool {
		stderr, err, timedOut := cv.run(args...)
		if timedOut {
			c.e.Rec.Inconclusive("converter-timeout")
			return false
		}
		if err != nil || stderr != "" {
			if c.empty {
				c.e.Rec.Count("empty_set_refused", 1)
				return false
			}
			c.violations++
			c.e.Rec.Violate("domain", c.i, core.Sig("kind", "converter_failed", "part", "domain", "repr", repr),
				c.detail(map[string]any{"args": args, "stderr": trunc(stderr, 2000), "error": fmt.Sprint(err)}),
				"converter %s failed: %v %s", repr, err, trunc(stderr, 200))
			return false
		}
		c.e.Rec.Count("converter_runs", 1)
		return true
	}
	if !step("conv:text", "-inText", in, "-outGob", aGob, "-outText", aTxt) {
		return
	}
	load("conv:text>gob", "gob", aGob)
	load("conv:text>text", "text", aTxt)
	if !step("conv:gob", "-inGob", aGob, "-outText", bTxt, "-outGob", bGob) {
		return
	}
	load("conv:text>gob>text", "text", bTxt)
	load("conv:text>gob>gob", "gob", bGob)
}

type builderSpec struct {
	name string
	mk   func(rules []string, capacity int) domainset.MatcherBuilder
}

func insertAll(b domainset.MatcherBuilder, rules []string) domainset.MatcherBuilder {
	for _, r := range rules {
		b.Insert(r)
	}
	return b
}

var domainBuilders = []builderSpec{
	{"NewDomainLinearMatcher", func(rs []string, c int) domainset.MatcherBuilder {
		return insertAll(domainset.NewDomainLinearMatcher(c), rs)
	}},
	{"DomainLinearMatcherFromSeq", func(rs []string, _ int) domainset.MatcherBuilder {
		m := domainset.DomainLinearMatcherFromSeq(len(rs), slices.Values(rs))
		return &m
	}},
	{"NewDomainBinarySearchMatcher", func(rs []string, c int) domainset.MatcherBuilder {
		return insertAll(domainset.NewDomainBinarySearchMatcher(c), rs)
	}},
	{"DomainBinarySearchMatcherFromSlice", func(rs []string, _ int) domainset.MatcherBuilder {
		m := domainset.DomainBinarySearchMatcherFromSlice(rs)
		return &m
	}},
	{"DomainBinarySearchMatcherFromSeq", func(rs []string, _ int) domainset.MatcherBuilder {
		m := domainset.DomainBinarySearchMatcherFromSeq(len(rs), slices.Values(rs))
		return &m
	}},
	{"NewDomainMapMatcher", func(rs []string, c int) domainset.MatcherBuilder {
		return insertAll(domainset.NewDomainMapMatcher(c), rs)
	}},
	{"DomainMapMatcherFromSlice", func(rs []string, _ int) domainset.MatcherBuilder {
		m := domainset.DomainMapMatcherFromSlice(rs)
		return &m
	}},
	{"DomainMapMatcherFromSeq", func(rs []string, _ int) domainset.MatcherBuilder {
		m := domainset.DomainMapMatcherFromSeq(len(rs), slices.Values(rs))
		return &m
	}},
}

var suffixBuilders = []builderSpec{
	{"NewSuffixLinearMatcher", func(rs []string, c int) domainset.MatcherBuilder {
		return insertAll(domainset.NewSuffixLinearMatcher(c), rs)
	}},
	{"SuffixLinearMatcherFromSeq", func(rs []string, _ int) domainset.MatcherBuilder {
		m := domainset.SuffixLinearMatcherFromSeq(len(rs), slices.Values(rs))
		return &m
	}},
	{"NewSuffixMapMatcher", func(rs []string, c int) domainset.MatcherBuilder {
		return insertAll(domainset.NewSuffixMapMatcher(c), rs)
	}},
	{"SuffixMapMatcherFromSlice", func(rs []string, _ int) domainset.MatcherBuilder {
		m := domainset.SuffixMapMatcherFromSlice(rs)
		return &m
	}},
	{"SuffixMapMatcherFromSeq", func(rs []string, _ int) domainset.MatcherBuilder {
		m := domainset.SuffixMapMatcherFromSeq(len(rs), slices.Values(rs))
		return &m
	}},
	{"NewDomainSuffixTrieMatcherBuilder", func(rs []string, c int) domainset.MatcherBuilder {
		return insertAll(domainset.NewDomainSuffixTrieMatcherBuilder(c), rs)
	}},
	{"DomainSuffixTrieFromSlice", func(rs []string, _ int) domainset.MatcherBuilder {
		m := domainset.DomainSuffixTrieFromSlice(rs)
		return &m
	}},
	{"DomainSuffixTrieFromSeq", func(rs []string, _ int) domainset.MatcherBuilder {
		m := domainset.DomainSuffixTrieFromSeq(len(rs), slices.Values(rs))
		return &m
	}},
}

func distinct(xs []string) int {
	m := map[string]struct{}{}
	for _, x := range xs {
		m[x] = struct{}{}
	}
	return len(m)
}

func selectedTypes(ms []domainset.Matcher) string {
	if len(ms) == 0 {
		return "none"
	}
	var ts []string
	for _, m := range ms {
		ts = append(ts, strings.TrimPrefix(fmt.Sprintf("%T", m), "*domainset."))
	}
	return strings.Join(ts, "+")
}

// explicit exercises every explicit builder of one kind: the builder object
// itself as a matcher (whatever its size) and what its AppendTo selects.
func (c *dcase) explicit(r *core.RNG, kind string, specs []builderSpec, rules []string, want []bool) {
	nd := distinct(rules)
	for _, sp := range specs {
		b := sp.mk(rules, r.Pick(0, 1, len(rules), len(rules)+9))
		if m, ok := b.(domainset.Matcher); ok {
			c.cmp("builder-direct["+sp.name+"]", m, c.probes, want)
		}
		ms, err := b.AppendTo(nil)
		if err != nil {
			c.loadErr("builder-appendto["+sp.name+"]", err)
			continue
		}
		if c.cmp("builder-appendto["+sp.name+"]", domainset.DomainSet(ms), c.probes, want) && len(rules) > 0 {
			// (an empty builder selects nothing and matches nothing: compared, but not a class)
			c.e.Rec.Class("%s rules=%s(distinct %s) builder=%s selects=%s", kind, bucket(len(rules)), bucket(nd), sp.name, selectedTypes(ms))
		}
	}
}

// composite builds a Builder out of randomly chosen explicit builders (which
// forces the conversions inside BuilderGobFromBuilder) and round-trips it.
func (c *dcase) composite(r *core.RNG) {
	dsp := domainBuilders[r.Intn(len(domainBuilders))]
	ssp := suffixBuilders[r.Intn(len(suffixBuilders))]
	b := domainset.Builder{
		dsp.mk(c.rs.Domains, len(c.rs.Domains)),
		ssp.mk(c.rs.Suffixes, 0),
		insertAll(domainset.NewKeywordLinearMatcher(r.Pick(0, len(c.rs.Keywords))), c.rs.Keywords),
		insertAll(domainset.NewRegexpMatcherBuilder(0), c.rs.Regexps),
	}
	if r.Bool() {
		m := domainset.KeywordLinearMatcherFromSeq(len(c.rs.Keywords), slices.Values(c.rs.Keywords))
		b[2] = &m
		x := domainset.RegexpMatcherBuilderFromSeq(len(c.rs.Regexps), slices.Values(c.rs.Regexps))
		b[3] = &x
	}
	name := "composite[" + dsp.name + "," + ssp.name + "]"
	c.set(name, b)
	if g, ok := c.toGob("composite>gob", b); ok {
		if b2, ok := c.fromGob("composite>gob", g, r.Bool()); ok {
			c.set("composite>gob["+dsp.name+","+ssp.name+"]", b2)
		}
	}
	if t, ok := c.toText("composite>text", b); ok {
		if b2, ok := c.fromText("composite>text", t); ok {
			c.set("composite>text["+dsp.name+","+ssp.name+"]", b2)
		}
	}
}

// clearReuse checks that a builder that was cleared and refilled means the new rules only.
func (c *dcase) clearReuse(r *core.RNG) {
	other := genNames(r, r.Pick(1, 3, 6), 6, 0)
	for _, kind := range []struct {
		name  string
		specs []builderSpec
		rules []string
		match func(n *naive, d string) bool
	}{
		{"domain", domainBuilders, c.rs.Domains, (*naive).exact},
		{"suffix", suffixBuilders, c.rs.Suffixes, (*naive).suffix},
	} {
		sp := kind.specs[r.Intn(len(kind.specs))]
		b := sp.mk(kind.rules, 0)
		b.Clear()
		insertAll(b, other)
		ref := newNaive(&ruleSet{Domains: other, Suffixes: other})
		want := make([]bool, len(c.probes))
		for k, p := range c.probes {
			want[k] = kind.match(ref, p)
		}
		ms, err := b.AppendTo(nil)
		if err != nil {
			c.loadErr("clear-reuse["+sp.name+"]", err)
			continue
		}
		save := c.rs
		c.rs = ruleSet{Domains: append([]string{"(cleared, then:)"}, other...)}
		c.cmp("clear-reuse["+sp.name+"]", domainset.DomainSet(ms), c.probes, want)
		c.rs = save
	}
}

func permutations(n int, f func(p []int)) {
	p := make([]int, n)
	for i := range p {
		p[i] = i
	}
	var rec func(k int)
	rec = func(k int) {
		if k == n {
			f(p)
			return
		}
		for i := k; i < n; i++ {
			p[k], p[i] = p[i], p[k]
			rec(k + 1)
			p[k], p[i] = p[i], p[k]
		}
	}
	rec(0)
}

func isLabelSuffix(long, short string) bool {
	return long != short && strings.HasSuffix(long, "."+short)
}

// perms inserts a small suffix rule set in every order into the trie (and the
// builders that migrate to it) and compares each order with the reference.
func (c *dcase) perms(r *core.RNG) {
	var rules []string
	seen := map[string]bool{}
	for _, s := range c.rs.Suffixes {
		if !seen[s] {
			seen[s] = true
			rules = append(rules, s)
		}
	}
	n := len(rules)
	if n < 2 || n > 5 {
		return
	}
	nested := false
	for _, a := range rules {
		for _, b := range rules {
			if isLabelSuffix(a, b) {
				nested = true
			}
		}
	}
	// probes: the derived ones of this case plus the <=3-label names
	probes := append(derivedProbes(r, &ruleSet{Suffixes: rules}), smallProbes...)
	ref := newNaive(&ruleSet{Suffixes: rules})
	want := make([]bool, len(probes))
	for k, p := range probes {
		want[k] = ref.suffix(p)
	}
	ok := true
	count := 0
	ordered := make([]string, n)
	permutations(n, func(p []int) {
		if !ok {
			return
		}
		for k, j := range p {
			ordered[k] = rules[j]
		}
		count++
		tag := "[" + strings.Join(ordered, " ") + "]"
		trie := domainset.DomainSuffixTrieFromSlice(ordered)
		if !c.cmp("perm-trie"+tag, trie, probes, want) {
			ok = false
			return
		}
		// what survives in the trie (after purging) must still mean the same
		_, seq := trie.Rules()
		kept := slices.Collect(seq)
		keptRef := newNaive(&ruleSet{Suffixes: kept})
		for k, p := range probes {
			if keptRef.suffix(p) != want[k] {
				ok = false
				c.violations++
				c.e.Rec.Violate("domain", c.i, core.Sig("kind", "domain_mismatch", "part", "domain", "repr", "perm-trie-rules", "dir", "rules_changed_meaning"),
					c.detail(map[string]any{"inserted_in_order": slices.Clone(ordered), "rules_reported": kept, "probe": p, "want": want[k]}),
					"trie filled in order %v reports rules %v which decide %q differently", ordered, kept, p)
				return
			}
		}
		lin := insertAll(domainset.NewSuffixLinearMatcher(0), ordered)
		ms, err := lin.AppendTo(nil)
		if err != nil {
			c.loadErr("perm-linear", err)
			ok = false
			return
		}
		if !c.cmp("perm-linear-appendto"+tag, domainset.DomainSet(ms), probes, want) {
			ok = false
		}
	})
	if ok {
		c.e.Rec.Class("suffix insertion orders: n=%d nested=%v all %d orders", n, nested, count)
		c.e.Rec.Count("insertion_orders", int64(count))
	}
}

func hasEmptyLabel(rs *ruleSet) bool {
	for _, g := range [][]string{rs.Domains, rs.Suffixes} {
		for _, x := range g {
			if strings.HasPrefix(x, ".") || strings.HasSuffix(x, ".") || strings.Contains(x, "..") {
				return true
			}
		}
	}
	return false
}

func runDomain(e *core.Env) {
	rec := e.Rec
	rec.Rule("domain: case i = (rule set, text rendering) from (seed,i): per-kind rule counts from {0,1,4,5,16,17,100} (+neighbours), vocabulary of 6 labels with nested rules, " +
		"optional empty labels, LF/CRLF/mixed, blank+comment lines, capacity hint none/exact/zero/larger/smaller/after-comment. Every representation " +
		"(text, gob, text>gob>text>gob, file loaders, converter child, every explicit builder direct and via AppendTo, composite builders, cleared+refilled, " +
		"every insertion order of <=5 suffix rules) is compared on every probe (all names of <=4 labels, names with empty labels, each rule +-label +-char) " +
		"with the naive matcher. Classes = (kind, count bucket, builder, matcher type selected), (eol, hint, interleave, final newline), (n, nested) of order sweeps; " +
		"a class is recorded only when all comparisons of it ran without disagreement. Outside the generator: the empty rule, rules with embedded LF or trailing CR " +
		"(the text format cannot express them), capacity hints large enough to exhaust memory")
	n := e.N(3000, 300000)
	convEvery := e.N(25, 200)
	cv := buildConverter(e)
	if cv.err != nil {
		rec.Note("converter binary not available: %v", cv.err)
		rec.Inconclusive("converter-build")
	}
	observeFinalCR(e)
	core.Parallel(e, "domain", n, 12, func(i int) {
		r := core.NewRNG(e.Seed, "c10-domain", i)
		c := &dcase{e: e, i: i}
		c.rs = genRuleSet(r)
		c.text, c.opts = renderText(r, &c.rs)
		c.empty = c.rs.total() == 0
		rec.Begin("domain", i, fmt.Sprintf("d=%d s=%d k=%d r=%d %+v", len(c.rs.Domains), len(c.rs.Suffixes), len(c.rs.Keywords), len(c.rs.Regexps), c.opts))

		ref := newNaive(&c.rs)
		c.probes = append(derivedProbes(r, &c.rs), baseProbes...)
		c.wantAll = make([]bool, len(c.probes))
		c.wantExact = make([]bool, len(c.probes))
		c.wantSuffix = make([]bool, len(c.probes))
		hits := 0
		for k, p := range c.probes {
			c.wantExact[k] = ref.exact(p)
			c.wantSuffix[k] = ref.suffix(p)
			c.wantAll[k] = c.wantExact[k] || c.wantSuffix[k] || ref.keyword(p) || ref.regex(p)
			if c.wantAll[k] {
				hits++
			}
		}

		c.chain()
		c.explicit(r, "domain", domainBuilders, c.rs.Domains, c.wantExact)
		c.explicit(r, "suffix", suffixBuilders, c.rs.Suffixes, c.wantSuffix)
		c.composite(r)
		if r.Chance(1, 4) {
			c.clearReuse(r)
		}
		c.perms(r)

		dir := ""
		if e.WorkDir != "" {
			dir = filepath.Join(e.WorkDir, fmt.Sprintf("case%d", i))
			if err := os.MkdirAll(dir, 0o755); err != nil {
				dir = ""
			}
		}
		if dir != "" {
			if i%4 == 0 {
				c.files(dir)
			}
			if cv.err == nil && i%convEvery == 0 {
				c.converter(cv, dir)
				if c.violations == 0 && !c.empty {
					rec.Class("converter child: text>gob+text, gob>text+gob (eol=%s)", c.opts.EOL)
				}
			}
			os.RemoveAll(dir)
		}

		rec.Eval()
		rec.Count("probes", int64(len(c.probes)))
		if c.violations == 0 && hits > 0 && hits < len(c.probes) {
			// the case discriminates: some probes match, some do not
			rec.Class("text eol=%s hint=%s interleave=%v final_newline=%v", c.opts.EOL, c.opts.Hint, c.opts.Interleave, c.opts.FinalNewline)
			rec.Class("kinds d=%s s=%s", bucket(len(c.rs.Domains)), bucket(len(c.rs.Suffixes)))
			rec.Class("kinds k=%s r=%s", bucket(len(c.rs.Keywords)), bucket(len(c.rs.Regexps)))
			if hasEmptyLabel(&c.rs) {
				rec.Class("rules with empty labels (leading/trailing/doubled dot)")
			}
		} else if c.violations == 0 {
			rec.Count("non_discriminating_cases", 1)
		}
		rec.Sample(3, map[string]any{"case": i, "rules": c.rs.abbreviated(), "text": trunc(c.text, 600), "text_options": c.opts, "probes": len(c.probes), "probes_matching": hits})
	})
}

// observeFinalCR documents an input that is outside the generator: a text
// whose last line ends in CR without LF. It is recorded as a note, never as a
// violation (the statement quantifies over CRLF / blank / comment lines; a rule
// ending in CR cannot be expressed by the text format).
func observeFinalCR(e *core.Env) {
	defer func() { _ = recover() }()
	b, err := domainset.BuilderFromText("domain:example.com\r")
	if err != nil {
		return
	}
	ds, err := b.DomainSet()
	if err != nil {
		return
	}
	var buf bytes.Buffer
	if b.WriteText(&buf) != nil {
		return
	}
	b2, err := domainset.BuilderFromText(buf.String())
	if err != nil {
		return
	}
	ds2, err := b2.DomainSet()
	if err != nil {
		return
	}
	if ds.Match("example.com") != ds2.Match("example.com") {
		e.Rec.Note("outside the generator: text %q (last line ends in CR without LF) matches example.com=%v, after text>text it matches example.com=%v (the CR is kept as part of the last rule only when no LF follows)",
			"domain:example.com\r", ds.Match("example.com"), ds2.Match("example.com"))
	}
}
