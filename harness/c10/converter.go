package c10

import (
	"bytes"
	"context"
	"fmt"
	"os"
	"os/exec"
	"path/filepath"
	"time"

	"verif/core"
)

var harnessDir = func() string {
	if r := os.Getenv("VERIF_ROOT"); r != "" {
		return filepath.Join(r, "harness")
	}
	return "/verif/harness"
}()

const (
	converterPkg = "github.com/database64128/shadowsocks-go/cmd/shadowsocks-go-domain-set-converter"
)

// converterBin is the real cmd/shadowsocks-go-domain-set-converter, built from
// the repository under check (VERIF_REPO or /repo) into the part's scratch dir.
type converterBin struct {
	path string
	err  error
}

// buildConverter compiles the converter with go1.26. It builds from the
// harness module with a private copy of go.mod (so that neither /repo nor the
// harness' go.mod is touched, and a VERIF_REPO checkout is honoured).
func buildConverter(e *core.Env) *converterBin {
	cv := &converterBin{}
	if e.WorkDir == "" {
		cv.err = fmt.Errorf("no scratch directory")
		return cv
	}
	repo := os.Getenv("VERIF_REPO")
	if repo == "" {
		repo = "/repo"
	}
	gm, err := os.ReadFile(filepath.Join(harnessDir, "go.mod"))
	if err != nil {
		cv.err = err
		return cv
	}
	gm = bytes.ReplaceAll(gm, []byte("=> /repo"), []byte("=> "+repo))
	mf := filepath.Join(e.WorkDir, "conv.go.mod")
	if err := os.WriteFile(mf, gm, 0o644); err != nil {
		cv.err = err
		return cv
	}
	if gs, err := os.ReadFile(filepath.Join(harnessDir, "go.sum")); err == nil {
		os.WriteFile(filepath.Join(e.WorkDir, "conv.go.sum"), gs, 0o644)
	}
	out := filepath.Join(e.WorkDir, "domain-set-converter")
	ctx, cancel := context.WithTimeout(context.Background(), 10*time.Minute)
	defer cancel()
	cmd := exec.CommandContext(ctx, "go1.26", "build", "-modfile="+mf, "-o", out, converterPkg)
	cmd.Dir = harnessDir
	cmd.Env = append(os.Environ(), "GOFLAGS=-mod=mod", "GOPROXY=off", "GOSUMDB=off", "GOTOOLCHAIN=local")
	var buf bytes.Buffer
	cmd.Stdout, cmd.Stderr = &buf, &buf
	if err := cmd.Run(); err != nil {
		cv.err = fmt.Errorf("go1.26 build %s: %v: %s", converterPkg, err, trunc(buf.String(), 1500))
		return cv
	}
	cv.path = out
	return cv
}

// run executes the converter once. The converter reports parse / write
// failures on stderr (and may still exit 0), so stderr is returned as well.
func (cv *converterBin) run(args ...string) (stderr string, err error, timedOut bool) {
	ctx, cancel := context.WithTimeout(context.Background(), 2*time.Minute)
	defer cancel()
	cmd := exec.CommandContext(ctx, cv.path, args...)
	var so, se bytes.Buffer
	cmd.Stdout, cmd.Stderr = &so, &se
	cmd.WaitDelay = 5 * time.Second
	err = cmd.Run()
	if ctx.Err() != nil {
		return se.String(), err, true
	}
	return se.String(), err, false
}
