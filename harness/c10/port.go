package c10

import (
	"fmt"
	"strconv"
	"strings"

	"github.com/database64128/shadowsocks-go/portset"

	"verif/core"
)

// portModel is the reference: one boolean per port number.
type portModel [65536]bool

func (m *portModel) addRange(lo, hi int) {
	for p := lo; p <= hi; p++ {
		m[p] = true
	}
}

func (m *portModel) stats() (count, runs, first int) {
	prev := false
	for p := 1; p <= 65535; p++ {
		if m[p] {
			count++
			if !prev {
				runs++
			}
			if first == 0 {
				first = p
			}
		}
		prev = m[p]
	}
	return
}

// Item categories. The statement (and DESIGN) require errors for port 0,
// reversed and malformed ranges. Some spellings are left open on purpose:
// whether "7-7", an empty list item, surrounding blanks, a "+" sign or leading
// zeros are accepted is not decided by the statement; if the parser accepts
// them the resulting set must still be the obvious one.
const (
	catValid = iota
	catMustError
	catDontCare
)

type portItem struct {
	S      string
	Lo, Hi int // meaning when accepted (Lo==0: contributes nothing)
	Cat    int
}

var portBoundaries = []int{1, 2, 3, 62, 63, 64, 65, 66, 127, 128, 129, 191, 192, 193, 1023, 1024, 1025,
	4095, 4096, 32767, 32768, 32769, 65471, 65472, 65473, 65533, 65534, 65535}

func pickPort(r *core.RNG) int {
	switch r.Intn(4) {
	case 0:
		return portBoundaries[r.Intn(len(portBoundaries))]
	case 1:
		// next to a 64-bit block edge
		p := r.Range(1, 1023)*64 + r.Range(-2, 2)
		return min(max(p, 1), 65535)
	case 2:
		return r.Range(1, 300)
	default:
		return r.Range(1, 65535)
	}
}

var mustErrorItems = []string{
	"0", "0-5", "0-0", "65536", "1-65536", "65536-65537", "70000", "100000-5",
	"9-3", "65535-1", "1024-1023", "a", "1-b", "b-1", "-5", "5-", "-", "1-2-3", "0x10", "1.5", "1e3",
	"99999999999999999999", "1-99999999999999999999", "１２", "80/tcp", "80:90", "80..90", "*",
}

func genPortItem(r *core.RNG, pBad, pOpen int) portItem {
	v := r.Intn(100)
	switch {
	case v < pBad:
		return portItem{S: mustErrorItems[r.Intn(len(mustErrorItems))], Cat: catMustError}
	case v < pBad+pOpen:
		p := pickPort(r)
		ps := strconv.Itoa(p)
		switch r.Intn(6) {
		case 0:
			return portItem{S: ps + "-" + ps, Lo: p, Hi: p, Cat: catDontCare}
		case 1:
			return portItem{S: "", Cat: catDontCare}
		case 2:
			return portItem{S: " " + ps, Lo: p, Hi: p, Cat: catDontCare}
		case 3:
			return portItem{S: ps + " ", Lo: p, Hi: p, Cat: catDontCare}
		case 4:
			return portItem{S: "+" + ps, Lo: p, Hi: p, Cat: catDontCare}
		default:
			return portItem{S: "00" + ps, Lo: p, Hi: p, Cat: catDontCare}
		}
	}
	if r.Chance(2, 5) {
		p := pickPort(r)
		return portItem{S: strconv.Itoa(p), Lo: p, Hi: p, Cat: catValid}
	}
	lo := pickPort(r)
	var hi int
	switch r.Intn(4) {
	case 0:
		hi = lo + 1
	case 1:
		hi = lo + r.Range(1, 200)
	case 2:
		hi = pickPort(r)
	default:
		hi = 65535
	}
	if hi > 65535 {
		hi = 65535
	}
	if hi < lo {
		lo, hi = hi, lo
	}
	if lo == hi {
		if lo == 65535 {
			lo--
		} else {
			hi++
		}
	}
	return portItem{S: fmt.Sprintf("%d-%d", lo, hi), Lo: lo, Hi: hi, Cat: catValid}
}

type portCase struct {
	Str   string     `json:"string"`
	Items []portItem `json:"-"`
	Cat   int        `json:"-"`
}

func genPortString(r *core.RNG, allowBad bool) portCase {
	n := r.Pick(0, 1, 1, 2, 3, 8, 16, 17, 18, 40, 200)
	pBad, pOpen := 0, 0
	if allowBad {
		switch r.Intn(4) {
		case 0:
			pBad = 100 / max(n, 1) // about one bad item
			if pBad < 3 {
				pBad = 3
			}
		case 1:
			pOpen = 15
		}
	}
	var pc portCase
	// spread mode: many isolated singles/short ranges so that the run count passes 16
	spread := r.Chance(1, 3)
	for k := 0; k < n; k++ {
		it := genPortItem(r, pBad, pOpen)
		if spread && it.Cat == catValid {
			base := r.Range(1, 65000)
			w := r.Pick(0, 0, 1, 3, 70)
			if w == 0 {
				it = portItem{S: strconv.Itoa(base), Lo: base, Hi: base}
			} else {
				it = portItem{S: fmt.Sprintf("%d-%d", base, base+w), Lo: base, Hi: base + w}
			}
		}
		pc.Items = append(pc.Items, it)
	}
	ss := make([]string, len(pc.Items))
	for i, it := range pc.Items {
		ss[i] = it.S
		if it.Cat == catMustError {
			pc.Cat = catMustError
		} else if it.Cat == catDontCare && pc.Cat != catMustError {
			pc.Cat = catDontCare
		}
	}
	pc.Str = strings.Join(ss, ",")
	if allowBad && pc.Cat != catMustError && len(pc.Items) > 0 && r.Chance(1, 25) {
		pc.Str += "," // trailing comma: open
		pc.Cat = catDontCare
	}
	return pc
}

func (pc *portCase) apply(m *portModel) {
	for _, it := range pc.Items {
		if it.Lo > 0 {
			m.addRange(it.Lo, it.Hi)
		}
	}
}

func runPort(e *core.Env) {
	rec := e.Rec
	rec.Rule("port: case i = range string from (seed,i): 0..200 items, single ports and ranges biased to 1, 65535 and 64-bit block edges, overlapping / adjacent / isolated; " +
		"some strings carry a must-fail item (0, >65535, reversed, malformed) or an open spelling. For every accepted string ALL 65535 ports are compared between the boolean-array model and " +
		"PortSet.Contains, RangeSet().Contains and the single-port form (Count()==1: port==First()); RangeCount()==runs, Count(), First(); Add/AddRange construction and a second Parse into the same set (union). " +
		"Classes = (outcome, run-count bucket, representation the router would choose, touches port 1 / 65535)")
	n := e.N(1500, 50000)
	core.Parallel(e, "port", n, 2, func(i int) {
		r := core.NewRNG(e.Seed, "c10-port", i)
		pc := genPortString(r, true)
		rec.Begin("port", i, trunc(pc.Str, 300))
		var ps portset.PortSet
		err := ps.Parse(pc.Str)
		rec.Eval()
		detail := map[string]any{"string": trunc(pc.Str, 2000)}
		switch pc.Cat {
		case catMustError:
			if err == nil {
				var bad []string
				for _, it := range pc.Items {
					if it.Cat == catMustError {
						bad = append(bad, it.S)
					}
				}
				detail["bad_items"] = bad
				rec.Violate("port", i, core.Sig("kind", "port_parse_accepted_invalid", "part", "port"), detail,
					"Parse accepted a string with invalid item(s) %q", bad)
				return
			}
			rec.Class("parse error as required")
			rec.Count("parse_errors_required", 1)
			return
		case catDontCare:
			if err != nil {
				rec.Count("open_spelling_refused", 1)
				rec.Class("open spelling refused")
				return
			}
			rec.Count("open_spelling_accepted", 1)
		default:
			if err != nil {
				detail["error"] = err.Error()
				rec.Violate("port", i, core.Sig("kind", "port_parse_refused_valid", "part", "port"), detail, "Parse refused a valid string: %v", err)
				return
			}
		}

		var m portModel
		pc.apply(&m)
		if !comparePortSet(e, i, "parse", &ps, &m, detail) {
			return
		}
		count, runs, _ := m.stats()

		// the same set built with Add / AddRange must be the same bits
		var built portset.PortSet
		for _, it := range pc.Items {
			switch {
			case it.Lo == 0:
			case it.Lo == it.Hi:
				built.Add(uint16(it.Lo))
			default:
				built.AddRange(uint16(it.Lo), uint16(it.Hi))
			}
		}
		if built != ps {
			if comparePortSet(e, i, "add", &built, &m, detail) {
				rec.Violate("port", i, core.Sig("kind", "port_mismatch", "part", "port", "form", "add-vs-parse"), detail,
					"Add/AddRange and Parse answer every port alike but hold different bits")
			}
			return
		}

		// parsing a second string into the same set adds to it
		if r.Chance(1, 2) {
			pc2 := genPortString(r, false)
			if err := ps.Parse(pc2.Str); err != nil {
				detail["second_string"] = trunc(pc2.Str, 2000)
				detail["error"] = err.Error()
				rec.Violate("port", i, core.Sig("kind", "port_parse_refused_valid", "part", "port"), detail, "second Parse refused a valid string: %v", err)
				return
			}
			pc2.apply(&m)
			detail["second_string"] = trunc(pc2.Str, 2000)
			if !comparePortSet(e, i, "parse-twice", &ps, &m, detail) {
				return
			}
			rec.Class("second Parse into the same set is a union")
			count, runs, _ = m.stats()
		}

		form := "bitset(>16 runs)"
		switch {
		case count == 0:
			form = "empty"
		case count == 1:
			form = "single-port"
		case count == 65535:
			form = "all-ports"
		case runs <= 16:
			form = "range-set(<=16 runs)"
		}
		rec.Class("accepted runs=%s form=%s port1=%v port65535=%v", bucket(runs), form, m[1], m[65535])
		rec.Sample(3, map[string]any{"string": trunc(pc.Str, 200), "ports": count, "runs": runs})
	})
}

// comparePortSet compares every representation of ps with the model on all 65535 ports.
func comparePortSet(e *core.Env, i int, how string, ps *portset.PortSet, m *portModel, detail map[string]any) bool {
	rec := e.Rec
	fail := func(form string, port int, got, want any) bool {
		d := map[string]any{"built_by": how, "form": form, "port": port, "got": got, "want": want}
		for k, v := range detail {
			d[k] = v
		}
		rec.Violate("port", i, core.Sig("kind", "port_mismatch", "part", "port", "form", form), d,
			"%s (%s): port %d: got %v, the string says %v", form, how, port, got, want)
		return false
	}
	count, runs, first := m.stats()
	if got := int(ps.Count()); got != count {
		return fail("Count", 0, got, count)
	}
	if got := int(ps.First()); got != first {
		return fail("First", 0, got, first)
	}
	if got := int(ps.RangeCount()); got != runs {
		return fail("RangeCount", 0, got, runs)
	}
	rs := ps.RangeSet()
	single := count == 1
	firstPort := ps.First()
	// port 0 is not a port: PortSet.Contains(0) panics by design and the statement does not speak about it
	for p := 1; p <= 65535; p++ {
		want := m[p]
		if got := ps.Contains(uint16(p)); got != want {
			return fail("PortSet.Contains", p, got, want)
		}
		if got := rs.Contains(uint16(p)); got != want {
			return fail("RangeSet.Contains", p, got, want)
		}
		if single {
			if got := uint16(p) == firstPort; got != want {
				return fail("single-port", p, got, want)
			}
		}
	}
	// one range alone (PortRange) for the first run
	if runs > 0 {
		hi := first
		for hi < 65535 && m[hi+1] {
			hi++
		}
		pr := portset.PortRange{From: uint16(first), To: uint16(hi)}
		for _, p := range []int{1, first - 1, first, first + 1, hi - 1, hi, hi + 1, 65535} {
			if p < 1 || p > 65535 {
				continue
			}
			if got, want := pr.Contains(uint16(p)), p >= first && p <= hi; got != want {
				return fail("PortRange.Contains", p, got, want)
			}
		}
	}
	rec.Count("ports_compared", 65535)
	rec.Count("port_sets_compared", 1)
	return true
}
