package c10

import (
	"fmt"
	"regexp"
	"strings"

	"verif/core"
)

// labels is the whole vocabulary: a few labels, some of which are prefixes /
// suffixes of one another as plain strings ("a"/"ab", "co"/"com") so that a
// matcher that forgets the label boundary is exposed.
var labels = []string{"a", "b", "ab", "com", "co", "example"}

var (
	// baseProbes: every name of 1..4 vocabulary labels, plus every name of
	// 1..3 labels in which at least one label is empty ("", ".", "a.", ".com", "a..b", ...).
	baseProbes []string
	// smallProbes: the subset with at most 3 labels (used by the permutation sweep).
	smallProbes []string
)

func init() {
	var gen func(voc []string, k int, cur []string, f func([]string))
	gen = func(voc []string, k int, cur []string, f func([]string)) {
		if k == 0 {
			f(cur)
			return
		}
		for _, l := range voc {
			gen(voc, k-1, append(cur, l), f)
		}
	}
	for k := 1; k <= 4; k++ {
		gen(labels, k, nil, func(ls []string) {
			s := strings.Join(ls, ".")
			baseProbes = append(baseProbes, s)
			if k <= 3 {
				smallProbes = append(smallProbes, s)
			}
		})
	}
	withEmpty := append(append([]string{}, labels...), "")
	for k := 1; k <= 3; k++ {
		gen(withEmpty, k, nil, func(ls []string) {
			hasEmpty := false
			for _, l := range ls {
				if l == "" {
					hasEmpty = true
				}
			}
			if hasEmpty {
				s := strings.Join(ls, ".")
				baseProbes = append(baseProbes, s)
				smallProbes = append(smallProbes, s)
			}
		})
	}
}

// ruleSet holds the rules of one case in insertion order (duplicates allowed).
type ruleSet struct {
	Domains  []string `json:"domains"`
	Suffixes []string `json:"suffixes"`
	Keywords []string `json:"keywords"`
	Regexps  []string `json:"regexps"`
}

func (rs *ruleSet) total() int {
	return len(rs.Domains) + len(rs.Suffixes) + len(rs.Keywords) + len(rs.Regexps)
}

func (rs *ruleSet) abbreviated() ruleSet {
	return ruleSet{truncList(rs.Domains, 40), truncList(rs.Suffixes, 40), truncList(rs.Keywords, 40), truncList(rs.Regexps, 40)}
}

func pickLabel(r *core.RNG, emptyPer int) string {
	if emptyPer > 0 && r.Chance(1, emptyPer) {
		return ""
	}
	return labels[r.Intn(len(labels))]
}

func genName(r *core.RNG, emptyPer int) string {
	n := 1
	switch v := r.Intn(10); {
	case v < 2:
		n = 1
	case v < 6:
		n = 2
	case v < 9:
		n = 3
	default:
		n = 4
	}
	ls := make([]string, n)
	for i := range ls {
		ls[i] = pickLabel(r, emptyPer)
	}
	return strings.Join(ls, ".")
}

// genNames returns n distinct non-empty names. nest/10 of them are derived
// from an earlier one by adding a label on the left or by dropping the
// leftmost label, so that rules are suffixes / extensions of one another.
func genNames(r *core.RNG, n, nest, emptyPer int) []string {
	seen := map[string]bool{}
	out := make([]string, 0, n)
	for tries := 0; len(out) < n && tries < n*60+200; tries++ {
		var s string
		if len(out) > 0 && r.Chance(nest, 10) {
			base := out[r.Intn(len(out))]
			if r.Chance(2, 3) {
				s = pickLabel(r, emptyPer) + "." + base
			} else if i := strings.IndexByte(base, '.'); i >= 0 {
				s = base[i+1:]
			} else {
				s = pickLabel(r, emptyPer)
			}
		} else {
			s = genName(r, emptyPer)
		}
		// the text format cannot express the empty rule; very long names add nothing
		if s == "" || seen[s] || strings.Count(s, ".") > 6 {
			continue
		}
		seen[s] = true
		out = append(out, s)
	}
	return out
}

// withDupsShuffled adds a few duplicates (sometimes) and puts the rules in a random order.
func withDupsShuffled(r *core.RNG, xs []string) []string {
	out := append([]string{}, xs...)
	if len(xs) > 0 && r.Chance(1, 4) {
		for k := r.Range(1, 3); k > 0; k-- {
			out = append(out, xs[r.Intn(len(xs))])
		}
	}
	p := r.Perm(len(out))
	res := make([]string, len(out))
	for i, j := range p {
		res[i] = out[j]
	}
	return res
}

var countChoices = []int{0, 1, 4, 5, 16, 17, 100}

func pickCount(r *core.RNG) int {
	if r.Chance(1, 6) {
		return r.Pick(2, 3, 6, 15, 18, 33)
	}
	return countChoices[r.Intn(len(countChoices))]
}

var regexpTemplates = []string{
	`^%s\.%s$`,
	`(^|\.)%s\.%s$`,
	`^[a-c]+\.%s$`,
	`\.%s\.%s$`,
	`^.{1,3}\.%s`,
	`%s\.?%s`,
	`^(%s|%s)\.`,
	`^%s$`,
	`\.\.%s`,
	`^$`,
	// inline flags: each rule is an expression of its own, a flag set in one rule says nothing about the others
	`(?i)^%s\.%s$`,
	`(?i)%s\.%s$`,
	`(?i:%s)\.%s$`,
	`(?U)^%s+\.`,
	`(?s)^.%s$`,
}

func genRegexp(r *core.RNG) string {
	t := regexpTemplates[r.Intn(len(regexpTemplates))]
	n := strings.Count(t, "%s")
	args := make([]any, n)
	for i := range args {
		args[i] = labels[r.Intn(len(labels))]
	}
	s := fmt.Sprintf(t, args...)
	regexp.MustCompile(s) // generator invariant: only valid expressions
	return s
}

func genRuleSet(r *core.RNG) ruleSet {
	var rs ruleSet
	emptyPer := 0
	if r.Chance(1, 3) {
		emptyPer = 8 // this case uses empty labels: leading / trailing / doubled dots
	}
	nd, ns := pickCount(r), pickCount(r)
	if r.Chance(1, 40) {
		nd, ns = 0, 0
	}
	nest := r.Pick(3, 6, 8)
	rs.Domains = withDupsShuffled(r, genNames(r, nd, nest, emptyPer))
	rs.Suffixes = withDupsShuffled(r, genNames(r, ns, nest, emptyPer))
	nk := r.Pick(0, 0, 1, 2, 5, 17)
	seen := map[string]bool{}
	for tries := 0; len(rs.Keywords) < nk && tries < 200; tries++ {
		name := genName(r, emptyPer)
		if name == "" {
			continue
		}
		a := r.Intn(len(name))
		b := a + 1 + r.Intn(min(len(name)-a, 6))
		kw := name[a:b]
		// one-letter keywords match nearly everything: keep them rare so that cases stay discriminating
		if len(kw) < 3 && !r.Chance(1, 4) {
			continue
		}
		if seen[kw] {
			continue
		}
		seen[kw] = true
		rs.Keywords = append(rs.Keywords, kw)
	}
	if len(rs.Keywords) > 0 && r.Chance(1, 3) {
		// the same keyword listed more than once (lists are merged from several sources): still one rule
		for k := r.Pick(1, 1, 2); k > 0; k-- {
			rs.Keywords = append(rs.Keywords, rs.Keywords[r.Intn(len(rs.Keywords))])
		}
		p := r.Perm(len(rs.Keywords))
		sh := make([]string, len(rs.Keywords))
		for i, j := range p {
			sh[i] = rs.Keywords[j]
		}
		rs.Keywords = sh
	}
	nr := r.Pick(0, 0, 0, 1, 2, 5)
	for len(rs.Regexps) < nr {
		rs.Regexps = append(rs.Regexps, genRegexp(r))
	}
	return rs
}

// textOpts describes how a rule set was rendered as text.
type textOpts struct {
	EOL          string `json:"eol"`  // lf | crlf | mixed
	Hint         string `json:"hint"` // none | exact | zero | larger | smaller | after-comment
	Interleave   bool   `json:"interleave"`
	FinalNewline bool   `json:"final_newline"`
	Comments     int    `json:"comments"`
	Blanks       int    `json:"blanks"`
}

const hintPrefix = "# shadowsocks-go domain set capacity hint "

var commentLines = []string{
	"# comment",
	"#",
	"#domain:evil.example",
	"#suffix:com",
	"# keyword:a",
	"#regexp:.*",
}

// renderText writes the rule set in the documented text format: one rule per
// line with its kind prefix, optional first-line capacity hint, '#' comments,
// blank lines, LF or CRLF line ends. Per-kind order of appearance equals the
// order in rs.
func renderText(r *core.RNG, rs *ruleSet) (string, textOpts) {
	var o textOpts
	o.EOL = r.PickStr("lf", "lf", "crlf", "mixed")
	o.Hint = r.PickStr("none", "exact", "zero", "larger", "smaller", "after-comment")
	o.Interleave = r.Chance(1, 3)
	o.FinalNewline = !r.Chance(1, 3)

	groups := [4][]string{}
	for _, d := range rs.Domains {
		groups[0] = append(groups[0], "domain:"+d)
	}
	for _, s := range rs.Suffixes {
		groups[1] = append(groups[1], "suffix:"+s)
	}
	for _, k := range rs.Keywords {
		groups[2] = append(groups[2], "keyword:"+k)
	}
	for _, x := range rs.Regexps {
		groups[3] = append(groups[3], "regexp:"+x)
	}
	var ruleLines []string
	if o.Interleave {
		left := rs.total()
		for left > 0 {
			k := r.Intn(left)
			for g := range groups {
				if k < len(groups[g]) {
					ruleLines = append(ruleLines, groups[g][0])
					groups[g] = groups[g][1:]
					break
				}
				k -= len(groups[g])
			}
			left--
		}
	} else {
		for _, g := range r.Perm(4) {
			ruleLines = append(ruleLines, groups[g]...)
		}
	}

	var lines []string // "" = blank line
	nonEmpty := 0
	emit := func(s string) {
		lines = append(lines, s)
		if s != "" {
			nonEmpty++
		}
	}
	noise := func() {
		for r.Chance(1, 6) {
			switch r.Intn(3) {
			case 0:
				emit("")
				o.Blanks++
			case 1:
				emit(commentLines[r.Intn(len(commentLines))])
				o.Comments++
			case 2:
				// a capacity hint anywhere but on the first non-empty line is an ordinary comment
				if nonEmpty > 0 {
					emit(hintPrefix + "7 7 7 7 DSKR")
					o.Comments++
				}
			}
		}
	}
	hint := func(d, s, k, x int) string {
		return fmt.Sprintf("%s%d %d %d %d DSKR", hintPrefix, d, s, k, x)
	}
	for r.Chance(1, 8) { // blank lines before the first line do not count
		emit("")
		o.Blanks++
	}
	nd, ns, nk, nr := len(rs.Domains), len(rs.Suffixes), len(rs.Keywords), len(rs.Regexps)
	switch o.Hint {
	case "exact":
		emit(hint(nd, ns, nk, nr))
	case "zero":
		emit(hint(0, 0, 0, 0))
	case "larger":
		emit(hint(nd+r.Intn(3000), ns+r.Intn(3000), nk+r.Intn(300), nr+r.Intn(300)))
	case "smaller":
		emit(hint(nd/2, ns/3, nk/2, 0))
	case "after-comment":
		emit("# list generated for a check")
		o.Comments++
		emit(hint(nd, ns, nk, nr))
	}
	for _, l := range ruleLines {
		noise()
		emit(l)
	}
	noise()

	var sb strings.Builder
	for i, l := range lines {
		sb.WriteString(l)
		if i == len(lines)-1 && !o.FinalNewline && l != "" {
			break // last line without terminator (never a bare CR: see runDomain's note)
		}
		switch o.EOL {
		case "lf":
			sb.WriteString("\n")
		case "crlf":
			sb.WriteString("\r\n")
		default:
			if r.Bool() {
				sb.WriteString("\n")
			} else {
				sb.WriteString("\r\n")
			}
		}
	}
	return sb.String(), o
}

// naive is the reference matcher, written from the statement: exact name,
// suffix on a label boundary, substring keyword, regular expression.
type naive struct {
	domains  []string
	suffixes []string
	dotted   []string // "." + suffix
	keywords []string
	res      []*regexp.Regexp
}

func newNaive(rs *ruleSet) *naive {
	n := &naive{domains: rs.Domains, suffixes: rs.Suffixes, keywords: rs.Keywords}
	for _, s := range rs.Suffixes {
		n.dotted = append(n.dotted, "."+s)
	}
	for _, x := range rs.Regexps {
		n.res = append(n.res, regexp.MustCompile(x))
	}
	return n
}

func (n *naive) exact(d string) bool {
	for _, r := range n.domains {
		if d == r {
			return true
		}
	}
	return false
}

func (n *naive) suffix(d string) bool {
	for i, r := range n.suffixes {
		if d == r || strings.HasSuffix(d, n.dotted[i]) {
			return true
		}
	}
	return false
}

func (n *naive) keyword(d string) bool {
	for _, k := range n.keywords {
		if strings.Contains(d, k) {
			return true
		}
	}
	return false
}

func (n *naive) regex(d string) bool {
	for _, re := range n.res {
		if re.MatchString(d) {
			return true
		}
	}
	return false
}

func (n *naive) all(d string) bool {
	return n.exact(d) || n.suffix(d) || n.keyword(d) || n.regex(d)
}

// derivedProbes returns each rule plus/minus one label and plus/minus one character.
func derivedProbes(r *core.RNG, rs *ruleSet) []string {
	seen := map[string]bool{}
	var out []string
	add := func(s string) {
		if !seen[s] {
			seen[s] = true
			out = append(out, s)
		}
	}
	for _, group := range [][]string{rs.Domains, rs.Suffixes, rs.Keywords} {
		for _, x := range group {
			add(x)
			add("x." + x)
			add(labels[r.Intn(len(labels))] + "." + x)
			add(labels[r.Intn(len(labels))] + "." + labels[r.Intn(len(labels))] + "." + x)
			add("." + x)
			add(x + ".")
			add(x + "." + labels[r.Intn(len(labels))])
			if i := strings.IndexByte(x, '.'); i >= 0 {
				add(x[i+1:])
			}
			if i := strings.LastIndexByte(x, '.'); i >= 0 {
				add(x[:i])
			}
			add(x[1:])
			add(x[:len(x)-1])
			add("a" + x)
			add("x" + x)
			add(x + "a")
			add(strings.ToUpper(x))
		}
	}
	// case variants of names the regular expressions are built from: an expression matches other letter case only if
	// it says so itself
	flagged := false
	for _, x := range rs.Regexps {
		if strings.Contains(x, "(?") {
			flagged = true
		}
	}
	if flagged {
		for k := 0; k < 60; k++ {
			a, b := labels[r.Intn(len(labels))], labels[r.Intn(len(labels))]
			for _, n := range []string{a + "." + b, "x." + a + "." + b, a + b, a} {
				add(strings.ToUpper(n))
				if len(n) > 1 {
					add(strings.ToUpper(n[:1]) + n[1:])
					add(n[:len(n)-1] + strings.ToUpper(n[len(n)-1:]))
				}
			}
		}
	}
	return out
}
