package c04

import (
	"fmt"
	"net/netip"
	"time"

	"github.com/database64128/shadowsocks-go/conn"

	"verif/core"
	"verif/forge"
	"verif/ssx"
)

type sessEvent struct {
	Op       string `json:"op"`
	Session  int    `json:"session,omitempty"`
	ID       uint64 `json:"id,omitempty"`
	AtNs     int64  `json:"at_ns"`
	Accepted bool   `json:"accepted,omitempty"`
	Want     string `json:"want,omitempty"`
	Err      string `json:"err,omitempty"`
}

var advances = []time.Duration{1, time.Second - 1, time.Second, 29 * time.Second, 30 * time.Second, 31 * time.Second, 59 * time.Second,
	time.Minute - 1, time.Minute, time.Minute + 1, 61 * time.Second, 2 * time.Minute}

// runSessions: server-session changes at the real client unpacker on a virtual clock.
func runSessions(e *core.Env) {
	rec := e.Rec
	rec.Rule("sessions: one case = history of {advance d, fresh packet of current/previous/new server session, replay of an accepted packet}; class = (window, number of accepted changes, refused changes, replays of current/previous/forgotten session presented)")
	n := e.N(3000, 60000)
	core.Parallel(e, "sessions", n, 16, func(i int) {
		r := core.NewRNG(e.Seed, "c04.sessions", i)
		rec.Begin("sessions", i, "")
		dead := core.Bubble(e, func() { sessionsCase(e, i, r) })
		if dead != "" {
			rec.Inconclusive("bubble:" + dead)
		}
		rec.Eval()
	})
}

func sessionsCase(e *core.Env, ci int, r *core.RNG) {
	rec := e.Rec
	size := sizes[r.Intn(len(sizes))]
	cfg := ssx.NewCfg(r.Pick(16, 32), 0, "c04s")
	cc := cfg.ClientCipher(0)
	sess, csid := clientSession(cfg, cc, size)
	start := time.Now()
	type srvSess struct {
		ssid uint64
		m    *refWindow
		next uint64
	}
	type sent struct {
		pkt  []byte
		sess int
		id   uint64
	}
	var (
		sessions    []*srvSess
		cur, prev   = -1, -1
		lastRealChg time.Time // last accepted transition old->new (not the first establishment)
		haveRealChg bool
		lastEstab   time.Time // last time any new session was accepted
		lastOldSeen time.Time // last accepted packet of the previous session
		accepted    []sent
		hist        []sessEvent
		changes     int
		refused     int
		replays     [3]int
	)
	newSess := func() int {
		sessions = append(sessions, &srvSess{ssid: r.Uint64() | 1, m: newRef(size), next: uint64(r.Intn(3))})
		return len(sessions) - 1
	}
	viol := func(kind, format string, a ...any) {
		rec.Violate("sessions", ci, core.Sig("kind", kind, "part", "sessions"), map[string]any{"window": size, "history": hist}, format, a...)
	}
	present := func(si int, id uint64, pkt []byte) (bool, string) {
		_, _, err := deliverClient(sess.Unpacker, pkt)
		if err != nil {
			return false, err.Error()
		}
		return true, ""
	}
	mk := func(si int, id uint64) []byte {
		s := sessions[si]
		p := forge.UDPServerPacket{User: cc.UserCipherConfig, ServerSessionID: s.ssid, PacketID: id, ClientSessionID: csid,
			Timestamp: time.Now(), Source: conn.AddrFromIPAndPort(netip.MustParseAddr("198.51.100.9"), 53), Payload: core.Pattern(id, 0, 16), Type: -1}
		b, err := p.Bytes()
		if err != nil {
			core.Fatalf("forge: %v", err)
		}
		return b
	}
	L := r.Range(4, 40)
	for k := 0; k < L; k++ {
		now := time.Now()
		op := r.Intn(10)
		if cur < 0 {
			op = 9
		}
		switch {
		case op < 3: // advance
			d := advances[r.Intn(len(advances))]
			time.Sleep(d)
			hist = append(hist, sessEvent{Op: "advance " + d.String(), AtNs: int64(time.Since(start))})
		case op < 6 && cur >= 0: // fresh or duplicate id of current session
			s := sessions[cur]
			id := s.next
			if r.Chance(1, 3) {
				id, _ = pickID(r, size, s.m)
			} else {
				s.next++
			}
			want, dup := s.m.expect(id)
			ok, es := present(cur, id, mk(cur, id))
			ev := sessEvent{Op: "current", Session: cur, ID: id, AtNs: int64(now.Sub(start)), Accepted: ok, Err: es, Want: fmt.Sprint(want)}
			hist = append(hist, ev)
			if want > 0 && !ok {
				viol("fresh_refused", "fresh id %d of the current server session refused: %s", id, es)
				return
			}
			if dup && ok {
				viol("delivered_twice", "id %d of the current server session delivered twice", id)
				return
			}
			if ok {
				s.m.accept(id)
				accepted = append(accepted, sent{nil, cur, id})
			}
		case op < 7 && prev >= 0: // packet of the previous session (late arrival): don't-care unless duplicate
			s := sessions[prev]
			id, _ := pickID(r, size, s.m)
			_, dup := s.m.expect(id)
			ok, es := present(prev, id, mk(prev, id))
			hist = append(hist, sessEvent{Op: "previous", Session: prev, ID: id, AtNs: int64(now.Sub(start)), Accepted: ok, Err: es})
			if dup && ok {
				viol("delivered_twice", "id %d of the previous server session delivered twice", id)
				return
			}
			if ok {
				s.m.accept(id)
				lastOldSeen = now
			}
		case op < 9: // replay of the exact bytes of an accepted packet
			if len(accepted) == 0 {
				continue
			}
			// accepted packets were forged with their own timestamps; re-forge needs the same bytes, so keep bytes lazily:
			a := accepted[r.Intn(len(accepted))]
			if a.pkt == nil {
				continue
			}
			ok, es := present(a.sess, a.id, append([]byte{}, a.pkt...))
			which := 2
			if a.sess == cur {
				which = 0
			} else if a.sess == prev {
				which = 1
			}
			replays[which]++
			hist = append(hist, sessEvent{Op: "replay", Session: a.sess, ID: a.id, AtNs: int64(now.Sub(start)), Accepted: ok, Err: es})
			if ok {
				viol("replay_delivered", "replayed packet (session #%d which=%d id %d) delivered again", a.sess, which, a.id)
				return
			}
		default: // packet of a brand-new server session
			si := newSess()
			s := sessions[si]
			id := s.next
			s.next++
			pkt := mk(si, id)
			ok, es := present(si, id, pkt)
			want := "dontcare"
			switch {
			case cur < 0:
				want = "accept"
			case haveRealChg && now.Sub(lastRealChg) < time.Minute:
				want = "reject"
			case now.Sub(lastEstab) >= time.Minute && (lastOldSeen.IsZero() || now.Sub(lastOldSeen) >= time.Minute):
				want = "accept"
			}
			hist = append(hist, sessEvent{Op: "new-session", Session: si, ID: id, AtNs: int64(now.Sub(start)), Accepted: ok, Err: es, Want: want})
			if want == "accept" && !ok {
				viol("change_refused", "new server session refused although no change/old traffic for a minute: %s", es)
				return
			}
			if want == "reject" && ok {
				viol("second_change_accepted", "second server-session change accepted %v after the previous one", now.Sub(lastRealChg))
				return
			}
			if ok {
				if cur >= 0 {
					lastRealChg, haveRealChg = now, true
					changes++
				}
				lastEstab = now
				lastOldSeen = time.Time{}
				prev, cur = cur, si
				s.m.accept(id)
				accepted = append(accepted, sent{pkt, si, id})
			} else {
				refused++
			}
			continue
		}
		// remember bytes of accepted current/previous packets for replays: re-forge identical bytes is impossible
		// after time moved, so store at acceptance time instead
		if len(accepted) > 0 && accepted[len(accepted)-1].pkt == nil {
			a := &accepted[len(accepted)-1]
			// the packet just accepted was built by mk() at the same virtual instant: rebuild (deterministic: no padding, same clock)
			a.pkt = mk(a.sess, a.id)
		}
	}
	rec.Count("session_events", int64(len(hist)))
	rec.Class("win=%d/changes=%d/refused=%d/replays=%v", size, min(changes, 3), min(refused, 3), [3]bool{replays[0] > 0, replays[1] > 0, replays[2] > 0})
	if ci%400 == 0 {
		rec.Sample(8, map[string]any{"window": size, "history": hist})
	}
}
