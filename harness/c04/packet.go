package c04

import (
	"bytes"
	"context"
	"encoding/binary"
	"fmt"
	"net/netip"
	"time"

	"github.com/database64128/shadowsocks-go/conn"
	"github.com/database64128/shadowsocks-go/ss2022"
	"github.com/database64128/shadowsocks-go/zerocopy"

	"verif/core"
	"verif/forge"
	"verif/ssx"
)

// miniServer dispatches datagrams the way the session relay does: session
// info -> table lookup -> unpacker for an unknown session -> unpack; the table
// entry is kept only if the first packet unpacked.
type miniServer struct {
	srv   *ss2022.UDPServer
	table map[uint64]zerocopy.ServerUnpacker
	users map[uint64]string
}

func newMiniServer(cfg *ssx.Cfg) *miniServer {
	return &miniServer{srv: cfg.UDPServer(), table: map[uint64]zerocopy.ServerUnpacker{}, users: map[uint64]string{}}
}

var srcAP = netip.MustParseAddrPort("192.0.2.7:40000")

func (s *miniServer) deliver(pkt []byte) (csid uint64, target conn.Addr, payload []byte, user string, err error) {
	front := 64
	b := make([]byte, front+len(pkt)+64)
	copy(b[front:], pkt)
	packet := b[front : front+len(pkt)]
	csid, err = s.srv.SessionInfo(packet)
	if err != nil {
		return
	}
	up, ok := s.table[csid]
	if !ok {
		var u string
		up, u, err = s.srv.NewUnpacker(packet, csid)
		if err != nil {
			return
		}
		user = u
	} else {
		user = s.users[csid]
	}
	var ps, pl int
	target, ps, pl, err = up.UnpackInPlace(b, srcAP, front, len(pkt))
	if err != nil {
		return
	}
	if !ok {
		s.table[csid] = up
		s.users[csid] = user
	}
	payload = append([]byte{}, b[ps:ps+pl]...)
	return
}

type pktEvent struct {
	Kind     string `json:"kind"`
	Session  int    `json:"session"`
	ID       uint64 `json:"id"`
	SkewS    int    `json:"skew_s"`
	Accepted bool   `json:"accepted"`
	Err      string `json:"err,omitempty"`
}

var badKinds = []string{"badtag", "stale", "wrongtype", "truncated"}

// runPacket: real UDPServer unpack path and real client unpacker fed with forged packets.
func runPacket(e *core.Env) {
	rec := e.Rec
	rec.Rule("packet: one case = (key size, single/multi-user, window size, direction, event sequence <= 60 of genuine ids from the boundary alphabet interleaved with bad-tag / stale(±31s..) / wrong-type / truncated / foreign-client-session packets); class = (direction, keysize, multiuser, window, set of bad kinds seen, accept/reject/dontcare mix)")
	n := e.N(3000, 60000)
	core.Parallel(e, "packet", n, 16, func(i int) {
		r := core.NewRNG(e.Seed, "c04.packet", i)
		keySize := r.Pick(16, 32)
		multi := r.Bool()
		size := sizes[r.Intn(len(sizes))]
		serverSide := r.Bool()
		rec.Begin("packet", i, fmt.Sprintf("key=%d multi=%v size=%d server=%v", keySize, multi, size, serverSide))
		nu := 0
		if multi {
			nu = 2
		}
		cfg := ssx.NewCfg(keySize, nu, fmt.Sprintf("c04p%d", i%7))
		cfg.FilterSize = size
		dead := core.Bubble(e, func() {
			if serverSide {
				packetServerCase(e, i, r, cfg, size)
			} else {
				packetClientCase(e, i, r, cfg, size)
			}
		})
		if dead != "" {
			rec.Inconclusive("bubble:" + dead)
		}
		rec.Eval()
	})
}

func pickID(r *core.RNG, size uint64, m *refWindow) (uint64, string) {
	ring := ringBits(size)
	switch r.Intn(3) {
	case 0:
		s := alphabet[r.Intn(len(alphabet))]
		return s.f(size, ring, m.max), s.name
	case 1:
		d := uint64(r.Intn(int(2*size + 130)))
		if r.Bool() {
			return m.max + d, "near+"
		}
		return m.max - d, "near-"
	default:
		return m.max + 1, "next"
	}
}

func skewFor(kind string, r *core.RNG) int {
	if kind == "stale" {
		return r.Pick(-31, 31, -32, 32, -3600, 3600, -1<<40, 1<<40)
	}
	return r.Pick(0, 0, 0, -30, 30, -29, 29, 1, -1)
}

func packetServerCase(e *core.Env, ci int, r *core.RNG, cfg *ssx.Cfg, size uint64) {
	rec := e.Rec
	srv := newMiniServer(cfg)
	nSess := r.Range(1, 2)
	type sess struct {
		cc   *ss2022.ClientCipherConfig
		csid uint64
		m    *refWindow
		user string
	}
	ss := make([]*sess, nSess)
	for k := range ss {
		ui := 0
		if len(cfg.Users) > 0 {
			ui = r.Intn(len(cfg.Users))
		}
		ss[k] = &sess{cc: cfg.ClientCipher(ui), csid: r.Uint64(), m: newRef(size), user: cfg.UserName(ui)}
	}
	L := r.Range(4, 60)
	var hist []pktEvent
	kinds := map[string]bool{}
	mix := [3]int{}
	for k := 0; k < L; k++ {
		time.Sleep(time.Duration(r.Intn(1500)) * time.Millisecond)
		s := ss[r.Intn(nSess)]
		kind := "genuine"
		if r.Chance(2, 5) {
			kind = badKinds[r.Intn(len(badKinds))]
		}
		kinds[kind] = true
		id, _ := pickID(r, size, s.m)
		skew := skewFor(kind, r)
		payload := core.Pattern(id^s.csid, 0, r.Range(0, 64))
		var target conn.Addr
		if r.Bool() {
			target = conn.AddrFromIPAndPort(netip.AddrFrom4([4]byte{10, byte(id), byte(id >> 8), 1}), uint16(id)|1)
		} else {
			target = conn.MustAddrFromDomainPort(fmt.Sprintf("t%d.example", id%1000), 53)
		}
		p := forge.UDPClientPacket{Client: s.cc, SessionID: s.csid, PacketID: id, Timestamp: time.Now().Add(time.Duration(skew) * time.Second),
			Target: target, Payload: payload, Padding: r.Pick(0, 0, 1, 17, 300), Type: -1}
		switch kind {
		case "badtag":
			p.BadTag = true
		case "wrongtype":
			p.Type = r.Pick(1, 2, 255)
		}
		pkt, err := p.Bytes()
		if err != nil {
			core.Fatalf("forge: %v", err)
		}
		if kind == "truncated" {
			pkt = pkt[:r.Intn(len(pkt))]
		}
		// advance the virtual clock a little between packets (sub-second steps keep the skew classes exact relative to 'now')
		csid, gotTarget, gotPayload, user, derr := srv.deliver(pkt)
		accepted := derr == nil
		ev := pktEvent{Kind: kind, Session: int(s.csid % 97), ID: id, SkewS: skew, Accepted: accepted}
		if derr != nil {
			ev.Err = derr.Error()
		}
		hist = append(hist, ev)
		viol := func(k string, format string, a ...any) {
			rec.Violate("packet", ci, core.Sig("kind", k, "part", "packet", "side", "server"), map[string]any{"history": hist, "window": size, "keysize": cfg.KeySize, "multi": len(cfg.Users) > 0}, format, a...)
		}
		if kind != "genuine" {
			if accepted {
				viol("bad_packet_delivered", "server delivered a %s packet (id %d, skew %ds)", kind, id, skew)
				return
			}
			continue
		}
		want, dup := s.m.expect(id)
		switch {
		case want > 0 && !accepted:
			viol("fresh_refused", "server refused fresh packet id %d (window %d) after %d events: %v", id, size, k, derr)
			return
		case dup && accepted:
			viol("delivered_twice", "server delivered packet id %d twice (window %d)", id, size)
			return
		}
		if want > 0 {
			mix[0]++
		} else if dup {
			mix[1]++
		} else {
			mix[2]++
		}
		if accepted {
			s.m.accept(id)
			if csid != s.csid || !gotTarget.Equals(target) || !bytes.Equal(gotPayload, payload) || user != s.user {
				viol("delivered_altered", "server delivered id %d with wrong session/target/payload/user (%d %s %q)", id, csid, gotTarget, user)
				return
			}
		}
	}
	rec.Count("packets_presented", int64(L))
	rec.Class("server/key%d/multi=%v/win=%d/kinds=%d/mix=%v", cfg.KeySize, len(cfg.Users) > 0, size, len(kinds), [3]bool{mix[0] > 0, mix[1] > 0, mix[2] > 0})
	if ci%500 == 0 {
		rec.Sample(8, map[string]any{"side": "server", "window": size, "history": hist})
	}
}

// clientSession creates a real client session and recovers its random client session id
// from a packet it packs.
func clientSession(cfg *ssx.Cfg, cc *ss2022.ClientCipherConfig, size uint64) (zerocopy.UDPClientSession, uint64) {
	c := ss2022.NewUDPClient("c", "ip", conn.AddrFromIPAndPort(netip.MustParseAddr("127.0.0.1"), 1), 1500, conn.DefaultUDPClientListenConfig, size, cc, ss2022.NoPadding)
	_, sess, err := c.NewSession(context.Background())
	if err != nil {
		core.Fatalf("NewSession: %v", err)
	}
	hr := sess.Packer.ClientPackerInfo().Headroom
	b := make([]byte, hr.Front+8+hr.Rear)
	_, ps, _, err := sess.Packer.PackInPlace(context.Background(), b, conn.AddrFromIPAndPort(netip.MustParseAddr("10.0.0.1"), 1), hr.Front, 8)
	if err != nil {
		core.Fatalf("pack: %v", err)
	}
	sep := make([]byte, 16)
	cc.UDPSeparateHeaderPackerCipher().Decrypt(sep, b[ps:ps+16])
	return sess, binary.BigEndian.Uint64(sep)
}

func deliverClient(up zerocopy.ClientUnpacker, pkt []byte) (src netip.AddrPort, payload []byte, err error) {
	front := 32
	b := make([]byte, front+len(pkt)+32)
	copy(b[front:], pkt)
	var ps, pl int
	src, ps, pl, err = up.UnpackInPlace(b, srcAP, front, len(pkt))
	if err == nil {
		payload = append([]byte{}, b[ps:ps+pl]...)
	}
	return
}

func packetClientCase(e *core.Env, ci int, r *core.RNG, cfg *ssx.Cfg, size uint64) {
	rec := e.Rec
	ui := 0
	if len(cfg.Users) > 0 {
		ui = r.Intn(len(cfg.Users))
	}
	cc := cfg.ClientCipher(ui)
	sess, csid := clientSession(cfg, cc, size)
	ssid := r.Uint64()
	m := newRef(size)
	L := r.Range(4, 60)
	var hist []pktEvent
	kinds := map[string]bool{}
	mix := [3]int{}
	bk := append([]string{"foreigncsid"}, badKinds...)
	for k := 0; k < L; k++ {
		time.Sleep(time.Duration(r.Intn(1500)) * time.Millisecond)
		kind := "genuine"
		if r.Chance(2, 5) {
			kind = bk[r.Intn(len(bk))]
		}
		kinds[kind] = true
		id, _ := pickID(r, size, m)
		skew := skewFor(kind, r)
		payload := core.Pattern(id^ssid, 0, r.Range(0, 64))
		var src conn.Addr
		if r.Bool() {
			src = conn.AddrFromIPAndPort(netip.AddrFrom4([4]byte{10, byte(id), byte(id >> 8), 1}), uint16(id)|1)
		} else {
			a := [16]byte{0x20, 1, 0xd, 0xb8, 15: byte(id)}
			src = conn.AddrFromIPAndPort(netip.AddrFrom16(a), 443)
		}
		p := forge.UDPServerPacket{User: cc.UserCipherConfig, ServerSessionID: ssid, PacketID: id, ClientSessionID: csid,
			Timestamp: time.Now().Add(time.Duration(skew) * time.Second), Source: src, Payload: payload, Padding: r.Pick(0, 0, 1, 17, 300), Type: -1}
		switch kind {
		case "badtag":
			p.BadTag = true
		case "wrongtype":
			p.Type = r.Pick(0, 2, 255)
		case "foreigncsid":
			p.ClientSessionID = csid ^ (1 << uint(r.Intn(64)))
		}
		pkt, err := p.Bytes()
		if err != nil {
			core.Fatalf("forge: %v", err)
		}
		if kind == "truncated" {
			pkt = pkt[:r.Intn(len(pkt))]
		}
		gotSrc, gotPayload, derr := deliverClient(sess.Unpacker, pkt)
		accepted := derr == nil
		ev := pktEvent{Kind: kind, ID: id, SkewS: skew, Accepted: accepted}
		if derr != nil {
			ev.Err = derr.Error()
		}
		hist = append(hist, ev)
		viol := func(k string, format string, a ...any) {
			rec.Violate("packet", ci, core.Sig("kind", k, "part", "packet", "side", "client"), map[string]any{"history": hist, "window": size, "keysize": cfg.KeySize}, format, a...)
		}
		if kind != "genuine" {
			if accepted {
				viol("bad_packet_delivered", "client delivered a %s packet (id %d, skew %ds)", kind, id, skew)
				return
			}
			continue
		}
		want, dup := m.expect(id)
		switch {
		case want > 0 && !accepted:
			viol("fresh_refused", "client refused fresh packet id %d (window %d) after %d events: %v", id, size, k, derr)
			return
		case dup && accepted:
			viol("delivered_twice", "client delivered packet id %d twice (window %d)", id, size)
			return
		}
		if want > 0 {
			mix[0]++
		} else if dup {
			mix[1]++
		} else {
			mix[2]++
		}
		if accepted {
			m.accept(id)
			if gotSrc != src.IPPort() || !bytes.Equal(gotPayload, payload) {
				viol("delivered_altered", "client delivered id %d with wrong source/payload (%s)", id, gotSrc)
				return
			}
		}
	}
	rec.Count("packets_presented", int64(L))
	rec.Class("client/key%d/multi=%v/win=%d/kinds=%d/mix=%v", cfg.KeySize, len(cfg.Users) > 0, size, len(kinds), [3]bool{mix[0] > 0, mix[1] > 0, mix[2] > 0})
	if ci%500 == 1 {
		rec.Sample(8, map[string]any{"side": "client", "window": size, "history": hist})
	}
}
