// Package c04 monitors "authenticated UDP packets are delivered at most once;
// fresh ones are never refused".
package c04

import (
	"fmt"
	"math"

	"github.com/database64128/shadowsocks-go/ss2022"

	"verif/core"
)

func init() {
	core.Register("C04", "filter", runFilter)
	core.Register("C04", "packet", runPacket)
	core.Register("C04", "sessions", runSessions)
}

// refWindow is the reference model: the set of every id ever accepted and the
// newest one.
type refWindow struct {
	size     uint64
	seen     map[uint64]bool
	max      uint64
	anything bool
}

func newRef(size uint64) *refWindow { return &refWindow{size: size, seen: map[uint64]bool{}} }

// expect classifies an arriving id: +1 must accept, -1 must reject, 0 the
// statement leaves it open except that it must not be accepted twice.
func (m *refWindow) expect(id uint64) (verdict int, dup bool) {
	dup = m.seen[id]
	inWindow := !m.anything || id > m.max || m.max-id < m.size
	switch {
	case inWindow && !dup:
		return +1, dup
	case dup:
		return -1, dup
	default:
		return 0, dup
	}
}

func (m *refWindow) accept(id uint64) {
	m.seen[id] = true
	if !m.anything || id > m.max {
		m.max = id
	}
	m.anything = true
}

type sym struct {
	name string
	f    func(size, ring, max uint64) uint64
}

func abs(v uint64) func(uint64, uint64, uint64) uint64 {
	return func(_, _, _ uint64) uint64 { return v }
}

// full alphabet for random sequences
var alphabet = []sym{
	{"0", abs(0)}, {"1", abs(1)}, {"63", abs(63)}, {"64", abs(64)}, {"65", abs(65)}, {"127", abs(127)}, {"128", abs(128)},
	{"size-1", func(s, _, _ uint64) uint64 { return s - 1 }},
	{"size", func(s, _, _ uint64) uint64 { return s }},
	{"size+1", func(s, _, _ uint64) uint64 { return s + 1 }},
	{"ring-1", func(_, r, _ uint64) uint64 { return r - 1 }},
	{"ring", func(_, r, _ uint64) uint64 { return r }},
	{"ring+1", func(_, r, _ uint64) uint64 { return r + 1 }},
	{"2ring-1", func(_, r, _ uint64) uint64 { return 2*r - 1 }},
	{"2ring", func(_, r, _ uint64) uint64 { return 2 * r }},
	{"2ring+1", func(_, r, _ uint64) uint64 { return 2*r + 1 }},
	{"2^32-1", abs(1<<32 - 1)}, {"2^32", abs(1 << 32)}, {"2^32+1", abs(1<<32 + 1)},
	{"2^63-1", abs(1<<63 - 1)}, {"2^63", abs(1 << 63)}, {"2^63+1", abs(1<<63 + 1)},
	{"2^64-size-1", func(s, _, _ uint64) uint64 { return math.MaxUint64 - s }},
	{"2^64-size", func(s, _, _ uint64) uint64 { return math.MaxUint64 - s + 1 }},
	{"2^64-65", abs(math.MaxUint64 - 64)}, {"2^64-64", abs(math.MaxUint64 - 63)},
	{"2^64-2", abs(math.MaxUint64 - 1)}, {"2^64-1", abs(math.MaxUint64)},
	{"max", func(_, _, m uint64) uint64 { return m }},
	{"max-1", func(_, _, m uint64) uint64 { return m - 1 }},
	{"max+1", func(_, _, m uint64) uint64 { return m + 1 }},
	{"max+2", func(_, _, m uint64) uint64 { return m + 2 }},
	{"max+63", func(_, _, m uint64) uint64 { return m + 63 }},
	{"max+64", func(_, _, m uint64) uint64 { return m + 64 }},
	{"max+65", func(_, _, m uint64) uint64 { return m + 65 }},
	{"max-size", func(s, _, m uint64) uint64 { return m - s }},
	{"max-size+1", func(s, _, m uint64) uint64 { return m - s + 1 }},
	{"max-size+2", func(s, _, m uint64) uint64 { return m - s + 2 }},
	{"max-size-1", func(s, _, m uint64) uint64 { return m - s - 1 }},
	{"max+size", func(s, _, m uint64) uint64 { return m + s }},
	{"max+size-1", func(s, _, m uint64) uint64 { return m + s - 1 }},
	{"max+ring", func(_, r, m uint64) uint64 { return m + r }},
	{"max+ring-1", func(_, r, m uint64) uint64 { return m + r - 1 }},
	{"max+ring+1", func(_, r, m uint64) uint64 { return m + r + 1 }},
	{"max-ring+1", func(_, r, m uint64) uint64 { return m - r + 1 }},
	{"max+2ring", func(_, r, m uint64) uint64 { return m + 2*r }},
}

// exhaustive alphabet: 12 symbols that reach every branch of the filter
// (ahead by <1 block, by blocks, by the whole ring, behind inside / at / beyond the edge, wrap of uint64)
var exhNames = []string{"0", "max+1", "max+64", "max+size-1", "max+ring", "max+ring+1", "max", "max-1", "max-size+1", "max-size", "2^64-1", "2^63"}

func symByName(n string) sym {
	for _, s := range alphabet {
		if s.name == n {
			return s
		}
	}
	panic("no symbol " + n)
}

var sizes = []uint64{1, 2, 63, 64, 65, 128, 256, 1000}

func ringBits(size uint64) uint64 {
	// documented structure: a power-of-two ring of 64-bit blocks covering size+63 bits
	r := uint64(64)
	for r < size+63 {
		r <<= 1
	}
	return r
}

type step struct {
	Sym      string `json:"sym"`
	ID       uint64 `json:"id"`
	Accepted bool   `json:"accepted"`
}

// runSeq drives one filter with one id sequence and compares with the model.
// mode 0 = Add, mode 1 = IsOk then MustAdd (the way UnpackInPlace uses it).
func runSeq(e *core.Env, part string, ci int, size uint64, mode int, ids []uint64, names []string) (hist []step, ok bool) {
	f := ss2022.NewSlidingWindowFilter(size)
	m := newRef(size)
	ok = true
	for k, id := range ids {
		want, dup := m.expect(id)
		var got bool
		if mode == 0 {
			got = f.Add(id)
		} else {
			got = f.IsOk(id)
			if got {
				f.MustAdd(id)
			}
		}
		nm := ""
		if names != nil {
			nm = names[k]
		}
		hist = append(hist, step{nm, id, got})
		bad := ""
		switch {
		case want > 0 && !got:
			bad = "fresh_refused"
		case dup && got:
			bad = "delivered_twice"
		}
		if bad != "" {
			e.Rec.Violate(part, ci, core.Sig("kind", bad, "part", part), map[string]any{"size": size, "mode": mode, "history": hist},
				"window size %d mode %d: id %d (%s) %s after %d steps", size, mode, id, nm, bad, k)
			return hist, false
		}
		if got {
			m.accept(id)
		}
	}
	return hist, ok
}

func runFilter(e *core.Env) {
	rec := e.Rec
	rec.Rule("filter: (window size, Add|IsOk+MustAdd, sequence) per case; classes = (size, mode, outcome pattern of the last 3 steps, whether uint64 wrap / ring jump symbols occurred); exhaustive part enumerates every sequence of the 12-symbol alphabet to the stated depth")
	depth := e.N(4, 6)
	exh := make([]sym, len(exhNames))
	for i, n := range exhNames {
		exh[i] = symByName(n)
	}
	// exhaustive part: cases indexed by (size, mode, first two symbols); inner loops enumerate the rest
	type job struct {
		size uint64
		mode int
		a, b int
	}
	var jobs []job
	for _, s := range sizes {
		for mode := 0; mode < 2; mode++ {
			for a := range exh {
				for b := range exh {
					jobs = append(jobs, job{s, mode, a, b})
				}
			}
		}
	}
	core.Parallel(e, "filter", len(jobs), 16, func(i int) {
		j := jobs[i]
		rec.Begin("filter", i, fmt.Sprintf("exh size=%d mode=%d a=%s b=%s depth=%d", j.size, j.mode, exh[j.a].name, exh[j.b].name, depth))
		ring := ringBits(j.size)
		idx := make([]int, depth)
		idx[0], idx[1] = j.a, j.b
		ids := make([]uint64, depth)
		names := make([]string, depth)
		n := 0
		accPatterns := map[uint32]bool{}
		for {
			// compute ids from symbols relative to the running model maximum
			// symbols are relative to the model's running maximum: derive with a light replay
			f := newRef(j.size)
			for k := 0; k < depth; k++ {
				id := exh[idx[k]].f(j.size, ring, f.max)
				ids[k] = id
				names[k] = exh[idx[k]].name
				// model acceptance prediction for symbol resolution only: in-window & unseen, or don't-care treated as not accepted
				if w, _ := f.expect(id); w > 0 {
					f.accept(id)
				}
			}
			hist, ok := runSeq(e, "filter", i, j.size, j.mode, ids, names)
			n++
			if ok {
				var pat uint32
				for _, h := range hist {
					pat <<= 1
					if h.Accepted {
						pat |= 1
					}
				}
				accPatterns[pat] = true
			}
			if n == 1 && i%97 == 0 {
				rec.Sample(4, map[string]any{"size": j.size, "mode": j.mode, "history": hist})
			}
			// next
			k := depth - 1
			for ; k >= 2; k-- {
				idx[k]++
				if idx[k] < len(exh) {
					break
				}
				idx[k] = 0
			}
			if k < 2 {
				break
			}
		}
		rec.EvalN(n)
		rec.Count("filter_sequences_exhaustive", int64(n))
		rec.Count("filter_ops", int64(n*depth))
		for p := range accPatterns {
			rec.Class("exh/size=%d/mode=%d/accept-pattern=%b", j.size, j.mode, p)
		}
	})
	// random part
	nr := e.N(4000, 100000)
	core.Parallel(e, "filter-random", nr, 16, func(i int) {
		r := core.NewRNG(e.Seed, "c04.filter.random", i)
		size := sizes[r.Intn(len(sizes))]
		if r.Chance(1, 8) {
			size = uint64(r.Range(1, 1100))
		}
		mode := r.Intn(2)
		ring := ringBits(size)
		L := r.Range(1, 200)
		rec.Begin("filter-random", i, fmt.Sprintf("size=%d mode=%d len=%d", size, mode, L))
		ids := make([]uint64, L)
		names := make([]string, L)
		m := newRef(size)
		base := uint64(0)
		if r.Chance(1, 4) {
			base = r.Uint64()
		}
		for k := 0; k < L; k++ {
			var id uint64
			var nm string
			switch r.Intn(4) {
			case 0:
				s := alphabet[r.Intn(len(alphabet))]
				id, nm = s.f(size, ring, m.max), s.name
			case 1:
				// near the maximum
				d := uint64(r.Intn(int(2*size + 130)))
				if r.Bool() {
					id = m.max + d
				} else {
					id = m.max - d
				}
				nm = "near"
			case 2:
				id, nm = base+uint64(k)+uint64(r.Intn(3)), "count"
			default:
				id, nm = m.max-uint64(r.Intn(int(size)+2)), "behind"
			}
			ids[k], names[k] = id, nm
			if w, _ := m.expect(id); w > 0 {
				m.accept(id)
			}
		}
		hist, ok := runSeq(e, "filter-random", i, size, mode, ids, names)
		rec.Eval()
		rec.Count("filter_ops", int64(L))
		if ok {
			acc := 0
			for _, h := range hist {
				if h.Accepted {
					acc++
				}
			}
			rec.Class("rnd/size=%d/mode=%d/len~%d/accepted~%d", size, mode, L/25, acc*8/(L+1))
		}
	})
	rec.Exhaustive(false)
}
