package c06

import (
	"bytes"
	"context"
	"encoding/binary"
	"encoding/hex"
	"encoding/json"
	"fmt"
	"hash/fnv"
	"io"
	"net/netip"
	"os"
	"os/exec"
	"path/filepath"
	"regexp"
	"strconv"
	"strings"
	"sync"
	"time"

	"github.com/database64128/shadowsocks-go/conn"
	"github.com/database64128/shadowsocks-go/direct"
	"github.com/database64128/shadowsocks-go/domainset"
	"github.com/database64128/shadowsocks-go/httpproxy"
	"github.com/database64128/shadowsocks-go/netio"
	"github.com/database64128/shadowsocks-go/portset"
	"github.com/database64128/shadowsocks-go/prefixset"
	"github.com/database64128/shadowsocks-go/socks5"
	"github.com/database64128/shadowsocks-go/ss2022"
	"github.com/database64128/shadowsocks-go/ssnone"
	"github.com/database64128/shadowsocks-go/zerocopy"

	"verif/core"
	"verif/netsim"
	"verif/ssx"
)

// The fuzz part lets Go's coverage-guided fuzzing engine (the child binary is built with -fuzz, i.e. with edge
// instrumentation of the repository's packages) mutate the inputs of the same entry points the sampled parts drive.
// One input = [entry selector][flags][bytes]; everything else a case needs is derived from a hash of the input, so an
// input always replays the same way. The budget is a number of executions, never a duration. The oracle is the
// engine's own: a panic, a runtime fatal error or a dead worker process.

var fuzzKinds = []string{
	"socks5-noauth", "socks5-auth", "socks5-udponly", "http-noauth", "http-auth", "ssnone", // 0-5: stream servers
	"ss2022-stream-keyed",    // 6
	"ss2022-stream-raw",      // 7
	"ss2022-client-keyed",    // 8
	"socks5-client",          // 9
	"http-client",            // 10
	"ss2022-udp-server-keyed", // 11
	"ss2022-udp-server-raw",  // 12
	"ss2022-udp-client-keyed", // 13
	"socks5-udp-server",      // 14
	"none-udp-server",        // 15
	"socks5-udp-client",      // 16
	"none-udp-client",        // 17
	"conn.ParseAddr",         // 18
	"socks5.addr",            // 19
	"domainset.text",         // 20
	"prefixset.text",         // 21
	"portset.parse",          // 22
	"http.connect-target",    // 23
}

var (
	fuzzEnvOnce sync.Once
	fuzzEnv     *core.Env
	fuzzTargets []streamTarget
)

func getFuzzEnv() *core.Env {
	fuzzEnvOnce.Do(func() {
		dir := os.Getenv("VERIF_FUZZ_WORK")
		if dir == "" {
			dir, _ = os.MkdirTemp("", "c06fuzz")
		}
		dir = filepath.Join(dir, fmt.Sprintf("w%d", os.Getpid()))
		os.MkdirAll(dir, 0o755)
		e := &core.Env{Property: "C06", Part: "fuzz", Tier: "quick", Only: -1, Shards: 1, WorkDir: dir}
		e.Rec = core.NewRec(e)
		fuzzEnv = e
		fuzzTargets = streamTargets()
	})
	return fuzzEnv
}

func splitReply(b []byte) (in, reply []byte) {
	if i := bytes.Index(b, []byte{0xfe, 0xfe}); i >= 0 {
		return b[:i], b[i+2:]
	}
	return b, []byte("HTTP/1.1 200 OK\r\nContent-Length: 2\r\n\r\nok")
}

// FuzzKind names the entry an input selects.
func FuzzKind(data []byte) string {
	if len(data) < 2 {
		return "short"
	}
	return fuzzKinds[int(data[0])%len(fuzzKinds)]
}

// FuzzBody runs one input. A panic propagates to the caller.
func FuzzBody(data []byte) {
	if len(data) < 2 {
		return
	}
	e := getFuzzEnv()
	h := fnv.New64a()
	h.Write(data)
	r := core.NewRNG(int64(h.Sum64()>>1), "c06.fuzz", 0)
	kind := int(data[0]) % len(fuzzKinds)
	flags := data[1]
	in := data[2:]
	src := netip.MustParseAddrPort("192.0.2.1:5000")
	// a hang is decided by a wall-clock limit and is therefore never a verdict here: the input is dropped
	core.Watchdog(30*time.Second, func() {
		switch {
		case kind <= 5:
			t := fuzzTargets[kind]
			a, reply := splitReply(in)
			driveStream(e, r, t.srv(), a, reply)
		case kind == 6 || kind == 7:
			cfg := ssx.NewCfg([]int{16, 32}[flags&1], int(flags>>1&3)%3, "c06")
			cfg.UDP = false
			cfg.AllowSegmented = flags&8 != 0
			if flags&16 != 0 {
				cfg.Fallback = conn.AddrFromIPAndPort(netip.MustParseAddr("192.0.2.80"), uint16(flags>>5))
			}
			srv := cfg.StreamServer()
			if kind == 7 {
				driveStream(e, r, srv, in, nil)
				return
			}
			cc := cfg.ClientCipher(0)
			salt := r.Bytes(cfg.KeySize)
			sc, err := cc.ShadowStreamCipher(salt)
			if err != nil {
				return
			}
			// in = [vhLen u8*4][variable-length header plaintext][then: chunks as (len u8, bytes)]
			n := 0
			if len(in) > 0 {
				n = min(int(in[0])*4, len(in)-1)
				in = in[1:]
			}
			vh, rest := in[:n], in[n:]
			out := append([]byte{}, salt...)
			hashes := cc.EIHPSKHashes()
			blocks, _ := cc.TCPIdentityHeaderCiphers(salt)
			for i := range hashes {
				eih := make([]byte, 16)
				blocks[i].Encrypt(eih, hashes[i][:])
				out = append(out, eih...)
			}
			fixed := make([]byte, 11, 27)
			ss2022.PutTCPRequestFixedLengthHeader(fixed, time.Now(), len(vh))
			if flags&32 != 0 && len(rest) > 0 {
				fixed[0] = rest[0] // hostile type byte
			}
			out = append(out, sc.EncryptInPlace(fixed)...)
			vb := make([]byte, len(vh), len(vh)+16)
			copy(vb, vh)
			out = append(out, sc.EncryptInPlace(vb)...)
			for len(rest) > 0 {
				k := min(int(rest[0]), len(rest)-1)
				body := rest[1 : 1+k]
				rest = rest[1+k:]
				l := make([]byte, 2, 18)
				binary.BigEndian.PutUint16(l, uint16(k))
				if flags&64 != 0 && k > 0 {
					binary.BigEndian.PutUint16(l, uint16(body[0])<<8|uint16(k)) // length lies about the chunk
				}
				out = append(out, sc.EncryptInPlace(l)...)
				cb := make([]byte, k, k+16)
				copy(cb, body)
				out = append(out, sc.EncryptInPlace(cb)...)
			}
			driveStream(e, r, srv, out, nil)
		case kind == 8:
			cfg := ssx.NewCfg([]int{16, 32}[flags&1], int(flags>>1&3)%3, "c06c")
			cfg.UDP = false
			inn := &ssx.Inner{}
			var sEnd *netsim.BufConn
			inn.OnAccept = func(se *netsim.BufConn) { sEnd = se }
			cl := cfg.StreamClient(0, inn, flags&8 != 0)
			cc, err := cl.DialStream(context.Background(), conn.MustAddrFromDomainPort("exact.example", 443), r.Bytes(int(flags>>4)))
			if err != nil || sEnd == nil {
				return
			}
			defer cc.Close()
			// the request salt the response must echo is at the start of what the client sent
			reqSalt := make([]byte, cfg.KeySize)
			io.ReadFull(sEnd, reqSalt)
			salt := r.Bytes(cfg.KeySize)
			uc, _ := ss2022.NewUserCipherConfig(cfg.ClientCipher(0).PSK, false)
			sc, _ := uc.ShadowStreamCipher(salt)
			hdr := make([]byte, 1+8+cfg.KeySize+2, 1+8+cfg.KeySize+2+16)
			ln := 0
			if len(in) >= 2 {
				ln = int(binary.BigEndian.Uint16(in))
				in = in[2:]
			}
			ss2022.PutTCPResponseHeader(hdr, time.Now(), reqSalt, ln)
			// in: overrides of header bytes (offset, value) pairs, then body
			for k := 0; k+1 < len(in) && k < 6; k += 2 {
				if in[k] == 0xff {
					break
				}
				hdr[int(in[k])%len(hdr)] ^= in[k+1]
			}
			resp := append(append([]byte{}, salt...), sc.EncryptInPlace(hdr)...)
			body := make([]byte, min(ln, len(in)), min(ln, len(in))+16)
			copy(body, in)
			resp = append(resp, sc.EncryptInPlace(body)...)
			resp = append(resp, in...)
			sEnd.Write(resp)
			sEnd.CloseWrite()
			buf := make([]byte, []int{1, 64, 70000}[int(flags>>5)%3])
			for k := 0; k < 4; k++ {
				if _, err := cc.Read(buf); err != nil {
					break
				}
			}
		case kind == 9 || kind == 10:
			c, s := netsim.Pair(nil, nil, false)
			defer c.Close()
			defer s.Close()
			go io.Copy(io.Discard, s)
			s.Write(in)
			s.CloseWrite()
			target := conn.MustAddrFromDomainPort("exact.example", uint16(flags>>4))
			if kind == 10 {
				if pc, err := httpproxy.ClientConnect(c, target, []string{"", "Basic dTpw"}[flags&1]); err == nil {
					pc.Read(make([]byte, 64))
				}
				return
			}
			switch flags & 3 {
			case 0:
				socks5.ClientConnect(c, target)
			case 1:
				if addr, err := socks5.ClientUDPAssociate(c, conn.Addr{}); err == nil {
					routeAll(e, r, addr, "")
					_ = addr.String()
				}
			default:
				socks5.ClientConnectUsernamePassword(c, socks5.UserInfo{Username: "u", Password: "p"}.AppendAuthMsg(nil), target)
			}
		case kind >= 11 && kind <= 17:
			front := []int{0, 1, 64, 300}[flags&3]
			deliver := func(pkt []byte, unpack func(b []byte, ps, pl int) (conn.Addr, int, int, error)) {
				b := make([]byte, front+len(pkt)+int(flags>>2&1)*16)
				copy(b[front:], pkt)
				ta, ps, pl, err := unpack(b, front, len(pkt))
				if err != nil {
					return
				}
				if ps < 0 || pl < 0 || ps+pl > len(b) {
					panic(fmt.Sprintf("payload [%d,%d) outside the buffer of %d", ps, ps+pl, len(b)))
				}
				_ = ta.String()
				routeAll(e, r, ta, "")
				if ta.IsValid() && ps >= 3+socks5.MaxAddrLen {
					p := direct.NewSocks5PacketClientPacker(netip.MustParseAddrPort("198.51.100.1:1080"), 1472)
					p.PackInPlace(context.Background(), b, ta, ps, pl)
				}
			}
			switch kind {
			case 11, 12:
				cfg := ssx.NewCfg([]int{16, 32}[flags>>3&1], int(flags>>4&3)%3, "c06u")
				srv := cfg.UDPServer()
				pkt := in
				if kind == 11 {
					// plaintext after the separate header: type | timestamp | rest given by the input
					pt := []byte{flags >> 7}
					pt = binary.BigEndian.AppendUint64(pt, uint64(time.Now().Unix()))
					pt = append(pt, in...)
					pkt = sealClientPacket(cfg.ClientCipher(0), r.Uint64(), r.Uint64(), pt)
				}
				deliver(pkt, func(b []byte, ps, pl int) (conn.Addr, int, int, error) {
					csid, err := srv.SessionInfo(b[ps : ps+pl])
					if err != nil {
						return conn.Addr{}, 0, 0, err
					}
					up, _, err := srv.NewUnpacker(b[ps:ps+pl], csid)
					if err != nil {
						return conn.Addr{}, 0, 0, err
					}
					return up.UnpackInPlace(b, src, ps, pl)
				})
			case 13:
				cfg := ssx.NewCfg([]int{16, 32}[flags>>3&1], 0, "c06uc")
				cc := cfg.ClientCipher(0)
				cl := ss2022.NewUDPClient("c", "ip", conn.AddrFromIPAndPort(netip.MustParseAddr("127.0.0.1"), 1), 1500, conn.DefaultUDPClientListenConfig, 0, cc, ss2022.NoPadding)
				info, sess, err := cl.NewSession(context.Background())
				_ = info
				if err != nil {
					return
				}
				defer sess.Close()
				// the client session id the reply must name: learn it by packing one packet
				csid := uint64(0)
				{
					pk := sess.Packer
					pi := pk.ClientPackerInfo()
					b := make([]byte, pi.Headroom.Front+8+pi.Headroom.Rear)
					if _, ps, pl, err := pk.PackInPlace(context.Background(), b, conn.AddrFromIPAndPort(netip.MustParseAddr("10.0.0.1"), 53), pi.Headroom.Front, 8); err == nil {
						sep := append([]byte{}, b[ps:ps+16]...)
						cc.UDPSeparateHeaderPackerCipher().Decrypt(sep, sep)
						csid = binary.BigEndian.Uint64(sep)
						_ = pl
					}
				}
				pt := []byte{1 ^ flags>>7}
				pt = binary.BigEndian.AppendUint64(pt, uint64(time.Now().Unix()))
				if flags&64 != 0 {
					pt = binary.BigEndian.AppendUint64(pt, r.Uint64())
				} else {
					pt = binary.BigEndian.AppendUint64(pt, csid)
				}
				pt = append(pt, in...)
				pkt := sealServerPacket(cc.UserCipherConfig, uint64(flags>>4&3), r.Uint64(), pt)
				deliver(pkt, func(b []byte, ps, pl int) (conn.Addr, int, int, error) {
					ap, a, c, err := sess.Unpacker.UnpackInPlace(b, src, ps, pl)
					return conn.AddrFromIPPort(ap), a, c, err
				})
			case 14:
				up := &direct.Socks5PacketServerUnpacker{}
				deliver(in, func(b []byte, ps, pl int) (conn.Addr, int, int, error) { return up.UnpackInPlace(b, src, ps, pl) })
			case 15:
				up := &direct.ShadowsocksNonePacketServerUnpacker{}
				deliver(in, func(b []byte, ps, pl int) (conn.Addr, int, int, error) { return up.UnpackInPlace(b, src, ps, pl) })
			default:
				var up zerocopy.ClientUnpacker = direct.NewSocks5PacketClientUnpacker(src)
				if kind == 17 {
					up = direct.NewShadowsocksNonePacketClientUnpacker(src)
				}
				deliver(in, func(b []byte, ps, pl int) (conn.Addr, int, int, error) {
					ap, a, c, err := up.UnpackInPlace(b, src, ps, pl)
					return conn.AddrFromIPPort(ap), a, c, err
				})
			}
		case kind == 18:
			if a, err := conn.ParseAddr(string(in)); err == nil {
				_ = a.String()
				routeAll(e, r, a, "u1")
			}
		case kind == 19:
			if a, _, err := socks5.ConnAddrFromSlice(in); err == nil {
				routeAll(e, r, a, "")
			}
			socks5.AddrPortFromSlice(in)
			socks5.ConnAddrFromReader(bytes.NewReader(in))
			socks5.AddrFromReader(bytes.NewReader(in))
		case kind == 20:
			// capacity-hint lines are trusted operator input that pre-sizes allocations
			if bytes.Contains(in, []byte("Count")) || bytes.Contains(in, []byte("count")) || len(in) > 4096 {
				return
			}
			if bld, err := domainset.BuilderFromText(string(in)); err == nil {
				if ds, err := bld.DomainSet(); err == nil {
					ds.Match("a.example")
					ds.Match("")
				}
			}
		case kind == 21:
			if len(in) > 4096 {
				return
			}
			if ps, err := prefixset.PrefixSetFromText(string(in)); err == nil {
				ps.Contains(netip.MustParseAddr("10.0.0.1"))
			}
		case kind == 22:
			var ps portset.PortSet
			if err := ps.Parse(string(in)); err == nil {
				ps.RangeSet()
				ps.RangeCount()
			}
		default:
			if bytes.ContainsAny(in, "\r\n ") || len(in) > 1024 {
				return
			}
			req := []byte("CONNECT " + string(in) + " HTTP/1.1\r\nHost: " + string(in) + "\r\n\r\n")
			c := httpproxy.ServerConfig{}
			srv, _ := c.NewProxyServer()
			driveStream(e, r, srv, req, nil)
		}
	})
}

var _ = netio.StreamServer(ssnone.StreamServer{})

// FuzzSeeds builds the seed corpus from the sampled parts' own structure-aware generators.
func FuzzSeeds() [][]byte {
	var out [][]byte
	r := core.NewRNG(1, "c06.fuzzseeds", 0)
	add := func(kind int, flags byte, b []byte) { out = append(out, append([]byte{byte(kind), flags}, b...)) }
	ts := streamTargets()
	for k := 0; k <= 5; k++ {
		for j := 0; j < 6; j++ {
			b := ts[k].seeds(r)
			if k == 3 || k == 4 {
				b = append(append(b, 0xfe, 0xfe), httpReply(r)...)
			}
			add(k, 0, b)
		}
	}
	for j := 0; j < 8; j++ {
		vh := append(hostileAddr(r), 0, byte(r.Intn(4)))
		vh = append(vh, r.Bytes(r.Intn(8))...)
		for len(vh)%4 != 0 {
			vh = append(vh, 0)
		}
		b := append([]byte{byte(len(vh) / 4)}, vh...)
		b = append(b, 3, 'a', 'b', 'c', 0)
		add(6, byte(r.Intn(256)), b)
		add(7, byte(r.Intn(256)), r.Bytes(r.Pick(0, 16, 43, 59, 100)))
		add(8, byte(r.Intn(256)), append([]byte{0, 5, 0xff, 0}, r.Bytes(5)...))
		add(9, byte(j), append([]byte{5, 0, 5, 0, 0}, hostileAddr(r)...))
		add(9, 2, append([]byte{5, 2, 1, 0, 5, 0, 0}, hostileAddr(r)...))
		add(10, byte(j), httpReply(r))
		add(11, byte(r.Intn(256)), append([]byte{0, 0}, hostileAddr(r)...))
		add(11, byte(r.Intn(128)), append(append([]byte{0, 2, 9, 9}, []byte{1, 10, 0, 0, 1, 0, 53}...), r.Bytes(8)...))
		add(12, byte(r.Intn(256)), r.Bytes(r.Pick(0, 16, 32, 48, 100)))
		add(13, byte(r.Intn(64)), append(append([]byte{0, 0}, []byte{1, 10, 0, 0, 1, 0, 53}...), r.Bytes(8)...))
		add(13, byte(r.Intn(256)), append([]byte{0, byte(r.Intn(3))}, hostileAddr(r)...))
		add(14, byte(j), append(append([]byte{0, 0, 0}, hostileAddr(r)...), r.Bytes(4)...))
		add(15, byte(j), append(hostileAddr(r), r.Bytes(4)...))
		add(16, byte(j), append(append([]byte{0, 0, 0}, hostileAddr(r)...), r.Bytes(4)...))
		add(17, byte(j), append(hostileAddr(r), r.Bytes(4)...))
	}
	for _, s := range []string{"example.com:443", "[::1]:80", "1.2.3.4:0", ":0", "a:", "[fe80::1%eth0]:1", "a:65536"} {
		add(18, 0, []byte(s))
		add(23, 0, []byte(s))
	}
	for j := 0; j < 8; j++ {
		add(19, 0, hostileAddr(r))
	}
	for _, s := range []string{"domain:a.example\nsuffix:example\nkeyword:k\nregexp:^a$\n", "domain:\nsuffix:\n", "regexp:(\n", "bogus:line\n", "domain:a\r\n\r\nsuffix:b\r\n", "#\n\n\n"} {
		add(20, 0, []byte(s))
	}
	for _, s := range []string{"10.0.0.0/8\n::/0\n", "10.0.0.0/33\n", "# c\n1.2.3.4\n", "::ffff:1.2.3.4/100\n"} {
		add(21, 0, []byte(s))
	}
	for _, s := range []string{"1-2,3", "0", "65535-1", "1-", "-", "1,,2", "70000", "1-65535", " 1 , 2 ", "1-1-1"} {
		add(22, 0, []byte(s))
	}
	return out
}

// ---- supervisor part ----

func init() { core.Register("C06", "fuzz", runFuzz) }

var reFuzzStat = regexp.MustCompile(`execs: (\d+) \([^)]*\), new interesting: (\d+) \(total: (\d+)\)`)
var reRepoFrame = regexp.MustCompile(`(?m)^\s*(github\.com/database64128/shadowsocks-go/[^\s(]+(?:\([^)]*\))?[^\s(]*)\(`)

// parseCorpusFile extracts the []byte value of a one-argument Go fuzz corpus file.
func parseCorpusFile(b []byte) ([]byte, bool) {
	lines := strings.Split(strings.TrimSpace(string(b)), "\n")
	if len(lines) < 2 || !strings.HasPrefix(lines[1], "[]byte(") || !strings.HasSuffix(lines[1], ")") {
		return nil, false
	}
	q := strings.TrimSuffix(strings.TrimPrefix(lines[1], "[]byte("), ")")
	s, err := strconv.Unquote(q)
	if err != nil {
		return nil, false
	}
	return []byte(s), true
}

func runFuzz(e *core.Env) {
	rec := e.Rec
	rec.Rule("fuzz: Go's coverage-guided engine over one target whose input selects one of 24 entries (stream servers, SS2022 keyed plaintext built around the input, clients fed hostile replies, UDP unpackers incl. keyed SS2022 plaintext, text parsers) and supplies its bytes; budget = executions; class = (entry, 'seed' or 'found by coverage feedback') over the engine's corpus after the run; the count of inputs that reached new code is reported as an event")
	if e.Only >= 0 {
		// replay of a recorded crasher, in process
		p := os.Getenv("VERIF_REPLAY")
		var doc struct {
			Violation struct {
				Witness struct {
					InputHex string `json:"input_hex"`
				} `json:"witness"`
			} `json:"violation"`
		}
		b, err := os.ReadFile(p)
		if err != nil || json.Unmarshal(b, &doc) != nil {
			rec.Inconclusive("fuzz replay: no witness")
			return
		}
		in, _ := hex.DecodeString(doc.Violation.Witness.InputHex)
		rec.Begin("fuzz", 0, FuzzKind(in)+" "+core.Hex(in, 96))
		rec.Eval()
		os.Setenv("VERIF_FUZZ_WORK", e.WorkDir)
		core.Guard(e, "fuzz", 0, func() { FuzzBody(in) })
		rec.Class("fuzz/%s/replay", FuzzKind(in))
		rec.Class("fuzz/replayed")
		return
	}
	execs := e.N(60000, 4000000)
	cache := filepath.Join(e.WorkDir, "cache")
	cmd := exec.Command(os.Args[0], "-test.run=^$", "-test.fuzz=^FuzzC06$", fmt.Sprintf("-test.fuzztime=%dx", execs),
		"-test.fuzzcachedir="+cache, "-test.fuzzminimizetime=2000x", "-test.parallel=16", "-test.timeout=0")
	cmd.Dir = e.WorkDir
	cmd.Env = append(os.Environ(), "VERIF_FUZZ_WORK="+e.WorkDir, "GOTRACEBACK=all")
	var buf bytes.Buffer
	cmd.Stdout, cmd.Stderr = &buf, &buf
	rec.Begin("fuzz", 0, fmt.Sprintf("engine run, %d executions", execs))
	err := cmd.Run()
	out := buf.String()
	var nexec, total int64
	if ms := reFuzzStat.FindAllStringSubmatch(out, -1); len(ms) > 0 {
		m := ms[len(ms)-1]
		nexec, _ = strconv.ParseInt(m[1], 10, 64)
		total, _ = strconv.ParseInt(m[3], 10, 64)
	}
	seeds := FuzzSeeds()
	rec.EvalN(int(nexec) + len(seeds))
	rec.Count("fuzz_executions", nexec)
	rec.Count("fuzz_inputs_reaching_new_code", total)
	rec.Count("fuzz_seed_inputs", int64(len(seeds)))
	for _, s := range seeds {
		rec.Class("fuzz/%s/seed", FuzzKind(s))
	}
	found, _ := filepath.Glob(filepath.Join(cache, "FuzzC06", "*"))
	for _, f := range found {
		if b, err := os.ReadFile(f); err == nil {
			if in, ok := parseCorpusFile(b); ok {
				rec.Class("fuzz/%s/coverage-found", FuzzKind(in))
			}
		}
	}
	crashers, _ := filepath.Glob(filepath.Join(e.WorkDir, "testdata", "fuzz", "FuzzC06", "*"))
	if err == nil && len(crashers) == 0 {
		if nexec == 0 {
			rec.Inconclusive("fuzz: engine reported no executions")
			rec.Note("fuzz output tail: %s", tailStr(out, 600))
		}
		return
	}
	if len(crashers) == 0 {
		// the engine failed without a failing input (seed corpus failure is reported with its own name)
		site := "unknown"
		if m := reRepoFrame.FindStringSubmatch(out); m != nil {
			site = m[1]
		}
		rec.Violate("fuzz", 0, core.Sig("kind", "fuzz_failure", "part", "fuzz", "site", site), map[string]any{"output": tailStr(out, 3000)}, "the fuzzing engine ended with %v and no failing input file", err)
		return
	}
	for _, f := range crashers {
		b, _ := os.ReadFile(f)
		in, ok := parseCorpusFile(b)
		if !ok {
			continue
		}
		site := "unknown"
		if m := reRepoFrame.FindStringSubmatch(out); m != nil {
			site = m[1]
		}
		rec.Violate("fuzz", 0, core.Sig("kind", "crash", "part", "fuzz", "entry", FuzzKind(in), "site", site),
			map[string]any{"input_hex": hex.EncodeToString(in), "entry": FuzzKind(in), "output": tailStr(out, 3000)},
			"input of %d bytes for entry %s crashes the process at %s", len(in), FuzzKind(in), site)
	}
}

func tailStr(s string, n int) string {
	if len(s) > n {
		return s[len(s)-n:]
	}
	return s
}
