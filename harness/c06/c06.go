// Package c06 monitors "no bytes from the network can crash the process":
// hostile byte streams and datagrams are fed to every network-facing entry
// point in-process; whatever parses is routed through routers that use every
// criterion representation and is replied to / relayed one step. The oracle is
// the absence of panics, runtime fatal errors, checkptr faults and hangs.
package c06

import (
	"bytes"
	"context"
	"encoding/binary"
	"fmt"
	"io"
	"net"
	"net/netip"
	"path/filepath"
	"strings"
	"sync"
	"time"

	"github.com/database64128/shadowsocks-go/conn"
	"github.com/database64128/shadowsocks-go/direct"
	"github.com/database64128/shadowsocks-go/domainset"
	"github.com/database64128/shadowsocks-go/httpproxy"
	"github.com/database64128/shadowsocks-go/netio"
	"github.com/database64128/shadowsocks-go/portset"
	"github.com/database64128/shadowsocks-go/prefixset"
	"github.com/database64128/shadowsocks-go/router"
	"github.com/database64128/shadowsocks-go/socks5"
	"github.com/database64128/shadowsocks-go/ss2022"
	"github.com/database64128/shadowsocks-go/ssnone"
	"github.com/database64128/shadowsocks-go/zerocopy"

	"verif/core"
	"verif/forge"
	"verif/netsim"
	"verif/rtx"
	"verif/ssx"
)

func init() {
	core.Register("C06", "streams", runStreams)
	core.Register("C06", "packets", runPackets)
	core.Register("C06", "text", runText)
}

// ---------- generators ----------

func mutate(r *core.RNG, seed []byte) []byte {
	b := append([]byte{}, seed...)
	n := r.Range(1, 4)
	for k := 0; k < n; k++ {
		switch r.Intn(9) {
		case 0: // flip
			if len(b) > 0 {
				b[r.Intn(len(b))] ^= 1 << uint(r.Intn(8))
			}
		case 1: // truncate
			if len(b) > 0 {
				b = b[:r.Intn(len(b))]
			}
		case 2: // set byte to boundary
			if len(b) > 0 {
				b[r.Intn(len(b))] = byte(r.Pick(0, 1, 2, 3, 4, 5, 0x7f, 0x80, 0xfe, 0xff))
			}
		case 3: // insert random
			i := r.Intn(len(b) + 1)
			ins := r.Bytes(r.Range(1, 8))
			b = append(b[:i], append(ins, b[i:]...)...)
		case 4: // duplicate a slice
			if len(b) > 1 {
				i := r.Intn(len(b))
				j := i + r.Intn(len(b)-i)
				b = append(b[:j], append(append([]byte{}, b[i:j]...), b[j:]...)...)
			}
		case 5: // splice with random tail
			b = append(b, r.Bytes(r.Range(1, 300))...)
		case 6: // delete a slice
			if len(b) > 2 {
				i := r.Intn(len(b))
				j := i + r.Intn(len(b)-i)
				b = append(b[:i], b[j:]...)
			}
		case 7: // overwrite u16 with boundary
			if len(b) > 2 {
				i := r.Intn(len(b) - 1)
				binary.BigEndian.PutUint16(b[i:], uint16(r.Pick(0, 1, 255, 256, 899, 900, 901, 65535)))
			}
		default: // repeat whole
			b = append(b, b...)
		}
	}
	return b
}

// hostileAddr returns SOCKS address bytes with junk ATYP, zero/over-long names, port 0 etc.
func hostileAddr(r *core.RNG) []byte {
	switch r.Intn(9) {
	case 8:
		// a well-formed host name at the upper end of what a name can be (labels of 63 bytes, 240..253 in total)
		total := r.Pick(240, 242, 243, 244, 250, 253)
		name := ""
		for len(name) < total {
			n := min(63, total-len(name))
			if total-len(name)-n == 1 {
				n--
			}
			if name != "" {
				name += "."
				n = min(n, total-len(name))
			}
			name += strings.Repeat(string(rune('a'+r.Intn(26))), n)
		}
		return append(append([]byte{3, byte(len(name))}, name...), byte(r.Intn(256)), byte(r.Intn(256)))
	case 0:
		return []byte{1, 10, 0, 0, 1, 0, 0} // port 0
	case 1:
		return append([]byte{3, 0}, 0, 80) // empty domain
	case 2:
		n := 255
		return append(append([]byte{3, byte(n)}, []byte(strings.Repeat("x", n))...), 0, 0)
	case 3:
		return []byte{byte(r.Pick(0, 2, 5, 0x7f, 0xff)), 1, 2, 3, 4, 5, 6}
	case 4:
		return append([]byte{4}, r.Bytes(18)...)
	case 5:
		d := r.Bytes(r.Range(1, 40))
		return append(append([]byte{3, byte(len(d))}, d...), byte(r.Intn(256)), byte(r.Intn(256)))
	case 6:
		return append([]byte{1}, r.Bytes(6)...)
	default:
		return append([]byte{3, byte(r.Intn(256))}, r.Bytes(r.Intn(20))...)
	}
}

var (
	routersOnce sync.Once
	routers     []*router.Router
	routersErr  error
)

func getRouters(e *core.Env) []*router.Router {
	routersOnce.Do(func() {
		routers, routersErr = rtx.HostileRouters(filepath.Join(e.WorkDir, "sets"))
	})
	if routersErr != nil {
		core.Fatalf("routers: %v", routersErr)
	}
	return routers
}

// routeAll routes a parsed request through every hostile router, TCP and UDP.
func routeAll(e *core.Env, r *core.RNG, addr conn.Addr, user string) {
	for _, rt := range getRouters(e) {
		ri := router.RequestInfo{ServerIndex: r.Intn(2), Username: user, TargetAddr: addr,
			SourceAddrPort: netip.AddrPortFrom(netip.AddrFrom4([4]byte{127, 0, 0, 1}), uint16(r.Pick(0, 1, 40000, 40005, 65535)))}
		if r.Chance(1, 4) {
			ri.SourceAddrPort = netip.AddrPortFrom(netip.AddrFrom16(netip.AddrFrom4([4]byte{10, 1, 1, 1}).As16()), uint16(r.Intn(65536)))
		}
		rt.GetTCPClient(context.Background(), ri)
		rt.GetUDPClient(context.Background(), ri)
	}
	e.Rec.Count("routed_requests", 1)
}

// ---------- stream servers ----------

type streamTarget struct {
	name  string
	srv   func() netio.StreamServer
	seeds func(r *core.RNG) []byte
	reply func(r *core.RNG) []byte // bytes the "far side" sends after Proceed
}

func socksSeed(r *core.RNG, auth bool) []byte {
	var b []byte
	nm := r.Pick(1, 1, 2, 255)
	b = append(b, 5, byte(nm))
	for i := 0; i < nm; i++ {
		b = append(b, byte(r.Pick(0, 2, 0, 2, 1, 0x80, 0xff)))
	}
	if auth {
		u, p := "user", "pass"
		if r.Chance(1, 3) {
			u, p = string(r.Bytes(r.Range(0, 255))), string(r.Bytes(r.Range(0, 255)))
		}
		b = append(b, 1, byte(len(u)))
		b = append(b, u...)
		b = append(b, byte(len(p)))
		b = append(b, p...)
	}
	b = append(b, 5, byte(r.Pick(1, 1, 3, 2, 0, 9)), 0)
	if r.Bool() {
		b = append(b, hostileAddr(r)...)
	} else {
		b = socks5.AppendAddrFromConnAddr(b, conn.MustAddrFromDomainPort("exact.example", uint16(r.Pick(0, 80, 1000, 1003))))
	}
	return append(b, r.Bytes(r.Intn(20))...)
}

func httpSeed(r *core.RNG) []byte {
	hosts := []string{"exact.example:443", "exact.example:0", "[::1]:1000", ":80", "exact.example", "exact.example:99999", "10.0.0.1:1003", strings.Repeat("a", 300) + ":1", "a b:80", "%00:80", "[::1", "\x00"}
	h := hosts[r.Intn(len(hosts))]
	m := r.PickStr("CONNECT", "GET", "POST", "HEAD", "OPTIONS", "PUT", "G\x00T", "")
	var sb strings.Builder
	if m == "CONNECT" {
		fmt.Fprintf(&sb, "CONNECT %s HTTP/1.1\r\nHost: %s\r\n", h, h)
	} else {
		fmt.Fprintf(&sb, "%s http://%s/p?q=1 HTTP/1.%d\r\nHost: %s\r\n", m, h, r.Intn(3), r.PickStr(h, "other.example", ""))
	}
	hs := []string{"Proxy-Authorization: Basic dXNlcjpwYXNz", "Proxy-Authorization: Basic !!!", "Proxy-Authorization: Bearer x",
		// credentials cut at every point of "Basic <token>", with the whitespace a header value may end in
		"Proxy-Authorization: " + "Basic dXNlcjpwYXNz"[:r.Intn(19)] + r.PickStr("", " ", "\t", "  "), "Proxy-Authorization: " + r.PickStr("basic", "BASIC", "Basic", "BaSiC ", "Basic\t", "Basic  ", "Basi", "B", ""),
		"Proxy-Authorization: Basic " + r.PickStr("Og==", "dTo=", "OnA=", "=", "====", "dXNlcg==", "dXNlcjpwYXNzOng="), "Connection: close", "Connection: keep-alive, X-A",
		"Transfer-Encoding: chunked", "Content-Length: 5", "Content-Length: -1", "Content-Length: 99999999999999999999", "Upgrade: websocket", "Trailer: X-T", "Expect: 100-continue", "X-A: " + strings.Repeat("v", r.Pick(1, 5000))}
	for k := r.Intn(5); k > 0; k-- {
		sb.WriteString(hs[r.Intn(len(hs))] + "\r\n")
	}
	sb.WriteString("\r\n")
	sb.WriteString(r.PickStr("", "hello", "5\r\nhello\r\n0\r\nX-T: 1\r\n\r\n", "zz\r\n", "GET http://other.example/ HTTP/1.1\r\nHost: other.example\r\n\r\n", "CONNECT exact.example:1 HTTP/1.1\r\n\r\n"))
	return []byte(sb.String())
}

// splitMark separates parts of a far-side reply that are written with a pause in between.
const splitMark = "\x00<pause>\x00"

func httpReply(r *core.RNG) []byte {
	if r.Chance(1, 4) {
		// a complete answer, then - after a pause - further complete responses nobody asked for
		one := func() string {
			st := r.PickStr("200 OK", "404 Not Found", "204 No Content", "302 Found")
			body := r.PickStr("", "abc", "hello world")
			if st == "204 No Content" {
				body = ""
			}
			return fmt.Sprintf("HTTP/1.1 %s\r\nContent-Length: %d\r\n%s\r\n%s", st, len(body), r.PickStr("", "Connection: keep-alive\r\n", "Location: http://exact.example/x\r\n"), body)
		}
		out := one() + splitMark
		for k := r.Range(1, 3); k > 0; k-- {
			out += one()
		}
		return []byte(out)
	}
	st := r.PickStr("200 OK", "301 Moved", "302 Found", "307 Temporary Redirect", "100 Continue", "101 Switching Protocols", "204 No Content", "304 Not Modified", "999 X", "000", "200")
	var sb strings.Builder
	fmt.Fprintf(&sb, "HTTP/1.%d %s\r\n", r.Intn(2), st)
	hs := []string{"Location: http://exact.example/x", "Location: http://other.example/", "Location: ::bad::", "Location: ", "Location: /rel", "Location: a", "Location: b", "Connection: close", "Connection: X-B, upgrade", "Upgrade: h2c",
		"Transfer-Encoding: chunked", "Content-Length: 3", "Content-Length: x", "Trailer: X-T", "Keep-Alive: timeout=5", "X-B: 1"}
	for k := r.Intn(5); k > 0; k-- {
		sb.WriteString(hs[r.Intn(len(hs))] + "\r\n")
	}
	sb.WriteString("\r\n")
	sb.WriteString(r.PickStr("", "abc", "3\r\nabc\r\n0\r\n\r\n", "HTTP/1.1 200 OK\r\nContent-Length: 0\r\n\r\n", "ffffffffffffffffff\r\n"))
	return []byte(sb.String())
}

func streamTargets() []streamTarget {
	users := []socks5.UserInfo{{Username: "user", Password: "pass"}}
	mk := func(auth, tcp, udp bool) func() netio.StreamServer {
		return func() netio.StreamServer {
			c := socks5.StreamServerConfig{Users: users, EnableUserPassAuth: auth, EnableTCP: tcp, EnableUDP: udp}
			s, err := c.NewStreamServer()
			if err != nil {
				core.Fatalf("socks5 server: %v", err)
			}
			return s
		}
	}
	mkHTTP := func(auth bool) func() netio.StreamServer {
		return func() netio.StreamServer {
			c := httpproxy.ServerConfig{Users: []httpproxy.ServerUserCredentials{{Username: "user", Password: "pass"}}, EnableBasicAuth: auth}
			s, err := c.NewProxyServer()
			if err != nil {
				core.Fatalf("http server: %v", err)
			}
			return s
		}
	}
	rnd := func(r *core.RNG) []byte { return r.Bytes(r.Intn(64)) }
	return []streamTarget{
		{"socks5-noauth", mk(false, true, true), func(r *core.RNG) []byte { return socksSeed(r, false) }, rnd},
		{"socks5-auth", mk(true, true, true), func(r *core.RNG) []byte { return socksSeed(r, true) }, rnd},
		{"socks5-udponly", mk(false, false, true), func(r *core.RNG) []byte { return socksSeed(r, false) }, rnd},
		{"http-noauth", mkHTTP(false), httpSeed, httpReply},
		{"http-auth", mkHTTP(true), httpSeed, httpReply},
		{"ssnone", func() netio.StreamServer { return ssnone.StreamServer{} }, func(r *core.RNG) []byte { return append(hostileAddr(r), r.Bytes(r.Intn(30))...) }, rnd},
	}
}

// ss2022Inputs: unauthenticated bytes and keyed-but-malformed plaintext.
func ss2022Case(e *core.Env, r *core.RNG) (string, netio.StreamServer, []byte) {
	cfg := ssx.NewCfg(r.Pick(16, 32), r.Pick(0, 2), "c06")
	cfg.UDP = false
	cfg.AllowSegmented = r.Bool()
	if r.Bool() {
		cfg.Fallback = conn.AddrFromIPAndPort(netip.MustParseAddr("192.0.2.80"), uint16(r.Pick(0, 80)))
	}
	srv := cfg.StreamServer()
	cc := cfg.ClientCipher(0)
	salt := r.Bytes(cfg.KeySize)
	switch r.Intn(5) {
	case 0:
		return "ss2022-random", srv, r.Bytes(r.Pick(0, 1, 16, 43, 59, 100, 70000))
	case 1, 2: // keyed, hostile variable-length header plaintext built by hand
		sc, err := cc.ShadowStreamCipher(salt)
		if err != nil {
			core.Fatalf("cipher: %v", err)
		}
		var vh []byte
		switch r.Intn(6) {
		case 0: // zero-length variable header
		case 1: // address only, nothing after
			vh = hostileAddr(r)
		case 2: // padding longer than the chunk
			vh = append(socks5.AppendAddrFromConnAddr(nil, conn.MustAddrFromDomainPort("exact.example", 0)), 0xff, 0xff, 1, 2)
		case 3:
			vh = append(hostileAddr(r), 0, 0)
		case 4:
			vh = append(append(hostileAddr(r), 0, byte(r.Intn(4))), r.Bytes(r.Intn(8))...)
		default:
			vh = r.Bytes(r.Intn(600))
		}
		out := append([]byte{}, salt...)
		hashes := cc.EIHPSKHashes()
		blocks, _ := cc.TCPIdentityHeaderCiphers(salt)
		for i := range hashes {
			eih := make([]byte, 16)
			blocks[i].Encrypt(eih, hashes[i][:])
			out = append(out, eih...)
		}
		fixed := make([]byte, 11, 27)
		ss2022.PutTCPRequestFixedLengthHeader(fixed, time.Now(), len(vh))
		out = append(out, sc.EncryptInPlace(fixed)...)
		vb := make([]byte, len(vh), len(vh)+16)
		copy(vb, vh)
		out = append(out, sc.EncryptInPlace(vb)...)
		// followed by hostile chunks: zero-length chunk, junk
		if r.Bool() {
			l := make([]byte, 2, 18)
			out = append(out, sc.EncryptInPlace(l)...)
		}
		return "ss2022-keyed-malformed", srv, append(out, r.Bytes(r.Intn(40))...)
	case 3: // genuine request with port 0 / weird target, then mutated
		fr := forge.TCPRequest{Client: cc, Salt: salt, Timestamp: time.Now(), Target: conn.MustAddrFromDomainPort("exact.example", uint16(r.Pick(0, 1000, 1003))), Payload: r.Bytes(r.Intn(10)), Padding: r.Intn(20), Type: -1}
		b, _, _ := fr.Bytes()
		if r.Bool() {
			b = mutate(r, b)
		}
		return "ss2022-genuine-mutated", srv, b
	default:
		fr := forge.TCPRequest{Client: cc, Salt: salt, Timestamp: time.Now().Add(time.Duration(r.Pick(0, 40, -40)) * time.Second), Target: conn.AddrFromIPAndPort(netip.MustParseAddr("10.0.0.1"), 0), Type: r.Pick(-1, 1, 7), Padding: 1}
		b, _, _ := fr.Bytes()
		return "ss2022-forged-fields", srv, b
	}
}

func driveStream(e *core.Env, r *core.RNG, srv netio.StreamServer, input []byte, reply []byte) (outcome string) {
	c, s := netsim.Pair(nil, nil, false)
	s.Local = &net.TCPAddr{IP: net.IPv4(127, 0, 0, 1), Port: 1080}
	// deliver in 1-3 writes
	cut := len(input)
	if len(input) > 1 && r.Bool() {
		cut = r.Intn(len(input))
	}
	c.Write(input[:cut])
	go func() {
		c.Write(input[cut:])
		c.CloseWrite()
	}()
	req, err := srv.HandleStream(s, ssx.Nop)
	defer func() {
		s.Close()
		c.Close()
	}()
	if err != nil {
		return "rejected"
	}
	routeAll(e, r, req.Addr, req.Username)
	_ = req.Addr.String()
	if req.PendingConn == nil {
		return "accepted-nopending"
	}
	if r.Chance(1, 3) {
		req.Abort(conn.DialResult{Code: conn.DialResultCode(r.Intn(12))})
		return "aborted"
	}
	pc, err := req.Proceed()
	if err != nil || pc == nil {
		return "proceed-failed"
	}
	// act as the far side. The client side drains whatever comes back.
	go io.Copy(io.Discard, c)
	if pp, ok := pc.(*netio.PipeConn); ok {
		// HTTP forwarder: it writes the request into the pipe, then parses what the origin answers
		done := make(chan struct{})
		go func() {
			defer close(done)
			pp.SetDeadline(time.Now().Add(time.Second))
			buf := make([]byte, 8192)
			pp.Read(buf)
			for k, part := range bytes.Split(reply, []byte(splitMark)) {
				if k > 0 {
					time.Sleep(3 * time.Millisecond) // the exchange so far is over before the next part arrives
				}
				pp.Write(part)
			}
			pp.CloseWrite()
			for k := 0; k < 8; k++ {
				if _, err := pp.Read(buf); err != nil {
					break
				}
			}
			pp.Close()
		}()
		select {
		case <-done:
		case <-time.After(5 * time.Second):
			pp.Close()
		}
		return "proceeded-forwarder"
	}
	if r.Bool() {
		// relay the way service/tcp.go does: both directions copied with io.Copy, which picks ReadFrom / WriteTo of
		// whatever connection types the handshake handed back
		re, te := netsim.Pair(nil, nil, false)
		go func() {
			te.Write(bytes.ReplaceAll(reply, []byte(splitMark), nil))
			te.CloseWrite()
			io.Copy(io.Discard, te)
			te.Close()
		}()
		netio.BidirectionalCopy(pc, re)
		pc.Close()
		re.Close()
		return "proceeded-relayed"
	}
	pc.Write(bytes.ReplaceAll(reply, []byte(splitMark), nil))
	pc.Close()
	return "proceeded"
}

func runStreams(e *core.Env) {
	rec := e.Rec
	rec.Rule("streams: one case = (stream entry point: SOCKS5 no-auth/auth/UDP-only, HTTP proxy with/without auth incl. the non-CONNECT forwarder fed hostile origin replies, Shadowsocks-none, SS2022 with unauthenticated bytes and keyed-but-malformed plaintext; clients: SOCKS5 connect/associate, HTTP CONNECT, SS2022 first read) x (structure-aware seed, 0-4 byte-level mutations); whatever parses is routed through 6 routers using single-port / range-list / bit-set port criteria (normal and inverted), domain sets, prefix sets and resolver-backed rules, then proceeded or aborted; class = (entry, outcome)")
	targets := streamTargets()
	n := e.N(40000, 3000000)
	core.Parallel(e, "streams", n, 16, func(i int) {
		r := core.NewRNG(e.Seed, "c06.streams", i)
		k := r.Intn(len(targets) + 3)
		var (
			name    string
			outcome string
		)
		ok := core.Watchdog(30*time.Second, func() {
			switch {
			case k < len(targets):
				t := targets[k]
				name = t.name
				in := t.seeds(r)
				if r.Chance(2, 3) {
					in = mutate(r, in)
				}
				rec.Begin("streams", i, fmt.Sprintf("%s %s", name, core.Hex(in, 96)))
				outcome = driveStream(e, r, t.srv(), in, t.reply(r))
			case k < len(targets)+2:
				n2, srv, in := ss2022Case(e, r)
				name = n2
				rec.Begin("streams", i, fmt.Sprintf("%s %s", name, core.Hex(in, 96)))
				outcome = driveStream(e, r, srv, in, r.Bytes(r.Intn(100)))
			default:
				name, outcome = clientCase(e, i, r)
			}
		})
		if !ok {
			rec.Inconclusive("watchdog:" + name)
		}
		rec.Eval()
		rec.Class("%s/%s", name, outcome)
		if i%4000 == 0 {
			rec.Sample(8, map[string]any{"entry": name, "outcome": outcome, "case": i})
		}
	})
}

// clientCase feeds hostile server replies to the client implementations.
func clientCase(e *core.Env, ci int, r *core.RNG) (string, string) {
	c, s := netsim.Pair(nil, nil, false)
	defer c.Close()
	defer s.Close()
	target := conn.MustAddrFromDomainPort("exact.example", uint16(r.Pick(0, 443)))
	go io.Copy(io.Discard, s) // swallow what the client sends
	switch r.Intn(5) {
	case 0, 1:
		seed := []byte{5, byte(r.Pick(0, 2, 0xff)), 5, byte(r.Pick(0, 0, 1, 5, 9)), 0}
		seed = append(seed, hostileAddr(r)...)
		in := mutate(r, seed)
		e.Rec.Begin("streams", ci, "socks5-client "+core.Hex(in, 64))
		s.Write(in)
		s.CloseWrite()
		var err error
		var addr conn.Addr
		if r.Bool() {
			err = socks5.ClientConnect(c, target)
		} else {
			addr, err = socks5.ClientUDPAssociate(c, conn.Addr{})
			if err == nil {
				routeAll(e, r, addr, "")
				_ = addr.String()
			}
		}
		if err != nil {
			return "socks5-client", "rejected"
		}
		return "socks5-client", "accepted"
	case 2:
		am := socks5.UserInfo{Username: "u", Password: "p"}.AppendAuthMsg(nil)
		seed := []byte{5, 2, 1, byte(r.Pick(0, 0, 1, 0xff)), 5, byte(r.Pick(0, 0, 4)), 0}
		seed = append(seed, hostileAddr(r)...)
		in := mutate(r, seed)
		e.Rec.Begin("streams", ci, "socks5-auth-client "+core.Hex(in, 64))
		s.Write(in)
		s.CloseWrite()
		if err := socks5.ClientConnectUsernamePassword(c, am, target); err != nil {
			return "socks5-auth-client", "rejected"
		}
		return "socks5-auth-client", "accepted"
	case 3:
		in := httpReply(r)
		if r.Bool() {
			in = mutate(r, in)
		}
		e.Rec.Begin("streams", ci, "http-client "+core.Hex(in, 64))
		s.Write(in)
		s.CloseWrite()
		pc, err := httpproxy.ClientConnect(c, target, r.PickStr("", "Basic dTpw"))
		if err != nil {
			return "http-client", "rejected"
		}
		buf := make([]byte, 64)
		pc.Read(buf)
		return "http-client", "accepted"
	default:
		// SS2022 client first read: hostile response bytes (random and keyed-but-malformed)
		cfg := ssx.NewCfg(r.Pick(16, 32), r.Pick(0, 2), "c06c")
		cfg.UDP = false
		in := &ssx.Inner{}
		var sEnd *netsim.BufConn
		in.OnAccept = func(se *netsim.BufConn) { sEnd = se }
		cl := cfg.StreamClient(0, in, r.Bool())
		cc, err := cl.DialStream(context.Background(), target, r.Bytes(r.Intn(10)))
		if err != nil {
			return "ss2022-client", "dial-failed"
		}
		defer cc.Close()
		var resp []byte
		if r.Bool() {
			resp = r.Bytes(r.Pick(0, 1, 16, 43, 75, 200))
		} else {
			// keyed: response header with chosen length / type / salt, followed by junk
			salt := r.Bytes(cfg.KeySize)
			uc, _ := ss2022.NewUserCipherConfig(cfg.ClientCipher(0).PSK, false)
			sc, _ := uc.ShadowStreamCipher(salt)
			hdr := make([]byte, 1+8+cfg.KeySize+2, 1+8+cfg.KeySize+2+16)
			ss2022.PutTCPResponseHeader(hdr, time.Now(), r.Bytes(cfg.KeySize), r.Pick(0, 1, 65535))
			if r.Bool() {
				hdr[0] = byte(r.Intn(256))
			}
			resp = append(append([]byte{}, salt...), sc.EncryptInPlace(hdr)...)
			resp = append(resp, r.Bytes(r.Intn(64))...)
		}
		e.Rec.Begin("streams", ci, "ss2022-client "+core.Hex(resp, 64))
		sEnd.Write(resp)
		sEnd.CloseWrite()
		buf := make([]byte, r.Pick(1, 64, 70000))
		if _, err := cc.Read(buf); err != nil {
			return "ss2022-client", "rejected"
		}
		return "ss2022-client", "accepted"
	}
}

// ---------- datagrams ----------

func runPackets(e *core.Env) {
	rec := e.Rec
	rec.Rule("packets: one case = hostile datagram (random, mutated genuine, keyed-but-malformed SS2022 plaintext with zero-length / junk ATYP / over-long padding / port 0) fed to a UDP unpacker (SS2022 server session path and client, SOCKS5, Shadowsocks-none, both sides); parsed targets are routed and re-packed one step with another protocol's packer; class = (unpacker, input kind, outcome)")
	n := e.N(60000, 6000000)
	src := netip.MustParseAddrPort("192.0.2.1:5000")
	core.Parallel(e, "packets", n, 16, func(i int) {
		r := core.NewRNG(e.Seed, "c06.packets", i)
		rec.Eval()
		front := r.Pick(0, 1, 64, 300)
		deliver := func(name, kind string, pkt []byte, unpack func(b []byte, ps, pl int) (conn.Addr, int, int, error)) {
			rec.Begin("packets", i, fmt.Sprintf("%s %s %s", name, kind, core.Hex(pkt, 96)))
			b := make([]byte, front+len(pkt)+r.Pick(0, 16))
			copy(b[front:], pkt)
			ta, ps, pl, err := unpack(b, front, len(pkt))
			out := "rejected"
			if err == nil {
				out = "accepted"
				if ps < 0 || pl < 0 || ps+pl > len(b) {
					rec.Violate("packets", i, core.Sig("kind", "payload_out_of_bounds", "part", "packets", "unpacker", name), core.Hex(pkt, 200), "%s returned payload [%d,%d) outside the buffer of %d", name, ps, ps+pl, len(b))
					return
				}
				_ = ta.String()
				routeAll(e, r, ta, "")
				// relay one step: re-pack with a SOCKS5 / none client packer when there is room
				if ta.IsValid() && ps >= 3+socks5.MaxAddrLen {
					p := direct.NewSocks5PacketClientPacker(netip.MustParseAddrPort("198.51.100.1:1080"), 1472)
					p.PackInPlace(context.Background(), b, ta, ps, pl)
				}
			}
			rec.Class("%s/%s/%s", name, kind, out)
		}
		switch r.Intn(6) {
		case 0, 1: // SS2022 server session path
			cfg := ssx.NewCfg(r.Pick(16, 32), r.Pick(0, 2), "c06u")
			srv := cfg.UDPServer()
			cc := cfg.ClientCipher(0)
			var pkt []byte
			kind := ""
			switch r.Intn(4) {
			case 0:
				kind, pkt = "random", r.Bytes(r.Pick(0, 1, 15, 16, 31, 32, 48, 100, 1500))
			case 1:
				kind = "keyed-malformed"
				// hand-built plaintext: type|ts|padlen|padding|addr|payload with hostile fields
				var pt []byte
				pt = append(pt, byte(r.Pick(0, 0, 0, 1)))
				pt = binary.BigEndian.AppendUint64(pt, uint64(time.Now().Unix()))
				switch r.Intn(4) {
				case 0:
					pt = binary.BigEndian.AppendUint16(pt, 0xffff)
				case 1:
					pt = binary.BigEndian.AppendUint16(pt, 0)
					pt = append(pt, hostileAddr(r)...)
				case 2:
					pt = binary.BigEndian.AppendUint16(pt, 3)
					pt = append(pt, 1, 2)
				default:
					pt = binary.BigEndian.AppendUint16(pt, uint16(r.Intn(8)))
					pt = append(pt, r.Bytes(r.Intn(30))...)
				}
				pkt = sealClientPacket(cc, r.Uint64(), r.Uint64(), pt)
			case 2:
				kind = "genuine-mutated"
				p := forge.UDPClientPacket{Client: cc, SessionID: r.Uint64(), PacketID: r.Uint64(), Timestamp: time.Now(), Target: conn.MustAddrFromDomainPort("exact.example", uint16(r.Pick(0, 53, 1000))), Payload: r.Bytes(r.Intn(32)), Padding: r.Intn(8), Type: -1}
				pkt, _ = p.Bytes()
				if r.Bool() {
					pkt = mutate(r, pkt)
				}
			default:
				kind = "port0-genuine"
				p := forge.UDPClientPacket{Client: cc, SessionID: r.Uint64(), PacketID: 0, Timestamp: time.Now(), Target: conn.AddrFromIPAndPort(netip.MustParseAddr("10.0.0.1"), 0), Payload: nil, Type: -1}
				pkt, _ = p.Bytes()
			}
			deliver("ss2022-server", kind, pkt, func(b []byte, ps, pl int) (conn.Addr, int, int, error) {
				csid, err := srv.SessionInfo(b[ps : ps+pl])
				if err != nil {
					return conn.Addr{}, 0, 0, err
				}
				up, _, err := srv.NewUnpacker(b[ps:ps+pl], csid)
				if err != nil {
					return conn.Addr{}, 0, 0, err
				}
				return up.UnpackInPlace(b, src, ps, pl)
			})
		case 2: // SS2022 client unpacker
			cfg := ssx.NewCfg(r.Pick(16, 32), 0, "c06uc")
			cc := cfg.ClientCipher(0)
			cl := ss2022.NewUDPClient("c", "ip", conn.AddrFromIPAndPort(netip.MustParseAddr("127.0.0.1"), 1), 1500, conn.DefaultUDPClientListenConfig, 0, cc, ss2022.NoPadding)
			_, sess, _ := cl.NewSession(context.Background())
			var pkt []byte
			kind := "random"
			if r.Bool() {
				pkt = r.Bytes(r.Pick(0, 16, 31, 32, 60, 1500))
			} else {
				kind = "keyed-malformed"
				var pt []byte
				pt = append(pt, byte(r.Pick(1, 1, 0)))
				pt = binary.BigEndian.AppendUint64(pt, uint64(time.Now().Unix()))
				pt = binary.BigEndian.AppendUint64(pt, r.Uint64())
				pt = binary.BigEndian.AppendUint16(pt, uint16(r.Pick(0, 1, 0xffff)))
				pt = append(pt, hostileAddr(r)...)
				pkt = sealServerPacket(cc.UserCipherConfig, uint64(r.Pick(0, 0, 7)), r.Uint64(), pt)
			}
			deliver("ss2022-client", kind, pkt, func(b []byte, ps, pl int) (conn.Addr, int, int, error) {
				ap, a, c, err := sess.Unpacker.UnpackInPlace(b, src, ps, pl)
				return conn.AddrFromIPPort(ap), a, c, err
			})
		case 3:
			up := &direct.Socks5PacketServerUnpacker{}
			seed := append([]byte{0, 0, byte(r.Pick(0, 0, 1))}, hostileAddr(r)...)
			pkt := mutate(r, append(seed, r.Bytes(r.Intn(20))...))
			deliver("socks5-server", "mutated", pkt, func(b []byte, ps, pl int) (conn.Addr, int, int, error) { return up.UnpackInPlace(b, src, ps, pl) })
		case 4:
			up := &direct.ShadowsocksNonePacketServerUnpacker{}
			pkt := mutate(r, append(hostileAddr(r), r.Bytes(r.Intn(20))...))
			deliver("none-server", "mutated", pkt, func(b []byte, ps, pl int) (conn.Addr, int, int, error) { return up.UnpackInPlace(b, src, ps, pl) })
		default:
			var up zerocopy.ClientUnpacker
			name := "socks5-client"
			seed := append([]byte{0, 0, byte(r.Pick(0, 0, 1))}, hostileAddr(r)...)
			if r.Bool() {
				up = direct.NewSocks5PacketClientUnpacker(src)
			} else {
				name = "none-client"
				up = direct.NewShadowsocksNonePacketClientUnpacker(src)
				seed = hostileAddr(r)
			}
			pkt := mutate(r, append(seed, r.Bytes(r.Intn(20))...))
			deliver(name, "mutated", pkt, func(b []byte, ps, pl int) (conn.Addr, int, int, error) {
				ap, a, c, err := up.UnpackInPlace(b, src, ps, pl)
				return conn.AddrFromIPPort(ap), a, c, err
			})
		}
	})
}

func sealClientPacket(cc *ss2022.ClientCipherConfig, sid, pid uint64, pt []byte) []byte {
	hashes := cc.EIHPSKHashes()
	eihc := cc.UDPIdentityHeaderCiphers()
	b := make([]byte, 16+16*len(hashes)+len(pt)+16)
	sep := b[:16]
	ss2022.PutSessionIDAndPacketID(sep, sid, pid)
	for i := range hashes {
		ih := b[16+16*i : 32+16*i]
		for k := range ih {
			ih[k] = hashes[i][k] ^ sep[k]
		}
		eihc[i].Encrypt(ih, ih)
	}
	ms := 16 + 16*len(hashes)
	copy(b[ms:], pt)
	var s8 [8]byte
	binary.BigEndian.PutUint64(s8[:], sid)
	aead, _ := cc.AEAD(s8[:])
	aead.Seal(b[ms:ms], sep[4:16], b[ms:ms+len(pt)], nil)
	cc.UDPSeparateHeaderPackerCipher().Encrypt(sep, sep)
	return b
}

func sealServerPacket(uc ss2022.UserCipherConfig, sid, pid uint64, pt []byte) []byte {
	b := make([]byte, 16+len(pt)+16)
	sep := b[:16]
	ss2022.PutSessionIDAndPacketID(sep, sid, pid)
	copy(b[16:], pt)
	var s8 [8]byte
	binary.BigEndian.PutUint64(s8[:], sid)
	aead, _ := uc.AEAD(s8[:])
	aead.Seal(b[16:16], sep[4:16], b[16:16+len(pt)], nil)
	uc.Block().Encrypt(sep, sep)
	return b
}

// ---------- text loaders and address parsers ----------

func runText(e *core.Env) {
	rec := e.Rec
	rec.Rule("text: one case = hostile text fed to conn.ParseAddr, SOCKS5 address readers (slice and reader forms), the domain-set / prefix-set / port-set text loaders; class = (parser, outcome)")
	n := e.N(40000, 3000000)
	addrSeeds := []string{"example.com:443", "[::1]:80", "1.2.3.4:0", ":0", "a:", "[::1", "]:1", "a:65536", "a:-1", strings.Repeat("a", 256) + ":1", "\x00:1", "[fe80::1%eth0]:1", "::1:80", "a:b:c"}
	// no capacity-hint lines here: the hint is trusted operator input that pre-sizes allocations (C10 covers sane hints)
	dsSeeds := []string{"domain:a.example\nsuffix:example\nkeyword:k\nregexp:^a$\n", "domain:\nsuffix:\n", "regexp:(\n", "bogus:line\n", "domain:a\r\n\r\nsuffix:b\r\n", "#\n\n\n"}
	psSeeds := []string{"10.0.0.0/8\n::/0\n", "10.0.0.0/33\n", "# c\n1.2.3.4\n", "::ffff:1.2.3.4/100\n"}
	ptSeeds := []string{"1-2,3", "0", "65535-1", "1-", "-", "1,,2", "70000", "1-65535", " 1 , 2 ", "1-1-1"}
	core.Parallel(e, "text", n, 16, func(i int) {
		r := core.NewRNG(e.Seed, "c06.text", i)
		rec.Eval()
		mut := func(seeds []string) string {
			s := seeds[r.Intn(len(seeds))]
			if r.Chance(2, 3) {
				return string(mutate(r, []byte(s)))
			}
			return s
		}
		name, out := "", "error"
		switch r.Intn(6) {
		case 0:
			name = "conn.ParseAddr"
			s := mut(addrSeeds)
			rec.Begin("text", i, name+" "+core.Hex([]byte(s), 80))
			if a, err := conn.ParseAddr(s); err == nil {
				out = "ok"
				_ = a.String()
				routeAll(e, r, a, "u1")
			}
		case 1:
			name = "socks5.addr"
			b := mutate(r, hostileAddr(r))
			rec.Begin("text", i, name+" "+core.Hex(b, 80))
			if a, _, err := socks5.ConnAddrFromSlice(b); err == nil {
				out = "ok"
				routeAll(e, r, a, "")
			}
			socks5.AddrPortFromSlice(b)
			socks5.ConnAddrFromReader(strings.NewReader(string(b)))
			socks5.AddrFromReader(strings.NewReader(string(b)))
		case 2:
			name = "domainset.text"
			s := mut(dsSeeds)
			rec.Begin("text", i, name+" "+core.Hex([]byte(s), 80))
			if bld, err := domainset.BuilderFromText(s); err == nil {
				if ds, err := bld.DomainSet(); err == nil {
					out = "ok"
					ds.Match("a.example")
					ds.Match("")
				}
			}
		case 3:
			name = "prefixset.text"
			s := mut(psSeeds)
			rec.Begin("text", i, name+" "+core.Hex([]byte(s), 80))
			if ps, err := prefixset.PrefixSetFromText(s); err == nil {
				out = "ok"
				ps.Contains(netip.MustParseAddr("10.0.0.1"))
			}
		case 4:
			name = "portset.parse"
			s := mut(ptSeeds)
			rec.Begin("text", i, name+" "+core.Hex([]byte(s), 80))
			var ps portset.PortSet
			if err := ps.Parse(s); err == nil {
				out = "ok"
				ps.RangeSet()
				ps.RangeCount()
			}
		default:
			name = "http.hostheader"
			// reachable via the HTTP proxy's Host parsing: covered by streams; here: CONNECT target text
			s := mut(addrSeeds)
			rec.Begin("text", i, name+" "+core.Hex([]byte(s), 80))
			in := []byte("CONNECT " + s + " HTTP/1.1\r\nHost: " + s + "\r\n\r\n")
			c := httpproxy.ServerConfig{}
			srv, _ := c.NewProxyServer()
			out = driveStream(e, r, srv, in, nil)
		}
		rec.Class("%s/%s", name, out)
	})
}
