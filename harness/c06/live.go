package c06

import (
	"context"
	"crypto/tls"
	"encoding/binary"
	"fmt"
	"io"
	"net"
	"net/netip"
	"os"
	"path/filepath"
	"time"

	"github.com/database64128/shadowsocks-go/conn"
	"github.com/database64128/shadowsocks-go/netio"
	"github.com/database64128/shadowsocks-go/socks5"
	"github.com/database64128/shadowsocks-go/ss2022"

	"verif/core"
	"verif/forge"
	"verif/svx"
	"verif/vtime"
)

func init() {
	core.Register("C06", "live", runLive)
}

// runLive: the whole process variant. The real service manager runs every kind of server behind routers with
// port-set / domain-set / reject rules; every listener is blasted with the hostile corpus over real sockets; then a
// genuine exchange through every server must still be served ("the process keeps serving everyone else").
func runLive(e *core.Env) {
	rec := e.Rec
	rec.Rule("live: one case = the real service manager with SOCKS5 (plain, auth), HTTP (plain, auth), Shadowsocks-none, SS2022 single- and multi-user and a direct tunnel server, routed through rules with bit-set / range-list port criteria, a domain set and a reject route; N hostile connections and datagrams per listener (structure-aware + mutated, keyed-but-malformed for SS2022, silent and half-open connections), then one genuine UDP and TCP exchange through every server; class = (round, listeners blasted, genuine exchanges served)")
	rounds := e.N(2, 12)
	per := e.N(120, 600)
	vtime.Freeze()
	dns := svx.InstallFakeDNS()
	for round := 0; round < rounds; round++ {
		if e.Only >= 0 && e.Only != round {
			continue
		}
		rec.Begin("live", round, "")
		rec.Eval()
		core.Guard(e, "live", round, func() { liveRound(e, round, per, dns) })
	}
}

func liveRound(e *core.Env, round, per int, dns *svx.FakeDNS) {
	rec := e.Rec
	r := core.NewRNG(e.Seed, "c06.live", round)
	p := svx.FreePorts(12)
	dir := filepath.Join(e.WorkDir, fmt.Sprintf("live-%d", round))
	os.MkdirAll(dir, 0o755)
	defer os.RemoveAll(dir)
	t := &svx.Topo{Dir: dir}
	dsPath := filepath.Join(dir, "ds.txt")
	os.WriteFile(dsPath, []byte("suffix:blocked.example\ndomain:exact.example\nkeyword:track\n"), 0o644)
	both := svx.ServerOpts{TCP: true, UDP: true, BatchMode: r.PickStr("", "no")}
	tcpOnly := svx.ServerOpts{TCP: true}
	servers := []struct {
		name, proto string
		o           svx.ServerOpts
	}{
		{"socks", "socks5", both}, {"socksauth", "socks5auth", tcpOnly}, {"http", "http", tcpOnly}, {"httpauth", "httpauth", tcpOnly},
		{"none", "none", both}, {"ss", "ss128", both}, {"ssm", "ssmulti", both},
		// HTTPS proxy: hostile bytes in place of the TLS handshake, and hostile HTTP inside an established TLS session
		{"httptls", "httptls", tcpOnly},
	}
	var sdocs []any
	for i, s := range servers {
		sdocs = append(sdocs, t.Server(s.name, s.proto, p[i], s.o))
	}
	tun := t.Server("tun", "socks5", p[10], both)
	tun["protocol"] = "direct"
	tun["tunnelRemoteAddress"] = fmt.Sprintf("127.0.0.2:%d", p[11])
	sdocs = append(sdocs, tun)
	cfg := map[string]any{
		"servers": sdocs,
		"certs":   t.Certs(),
		"clients": []any{svx.Direct("direct")},
		"router": map[string]any{
			"domainSets": []any{map[string]any{"name": "ds", "path": dsPath}},
			"routes": []any{
				map[string]any{"name": "bits", "client": "reject", "toPortRanges": "2-3,6-7,10-11,14-15,18-19,22-23,26-27,30-31,34-35,38-39,42-43,46-47,50-51,54-55,58-59,62-63,66-67,70-71", "fromPortRanges": "1-65000"},
				map[string]any{"name": "ranges", "client": "reject", "toPortRanges": "100-110,120", "invertToPorts": false, "toDomainSets": []any{"ds"}},
				map[string]any{"name": "frombits", "client": "reject", "invertFromPorts": true, "fromPortRanges": "1-2,5-6,9-10,13-14,17-18,21-22,25-26,29-30,33-34,37-38,41-42,45-46,49-50,53-54,57-58,61-62,65-66,1024-65535"},
			},
		},
	}
	inst, err := svx.Start(svx.JSON(cfg))
	if err != nil {
		rec.Inconclusive("live setup: " + err.Error())
		rec.Note("live setup: %v", err)
		return
	}
	stopped := false
	defer func() {
		if !stopped {
			inst.Stop(20 * time.Second)
		}
	}()
	viol := func(kind, format string, a ...any) {
		rec.Violate("live", round, core.Sig("kind", kind, "part", "live"), map[string]any{"logs": inst.LogLines(20)}, format, a...)
	}
	if !inst.WaitLogs("relay service listener", 14, 40*time.Second) {
		viol("listeners_not_started", "only %d of 14 listeners started", inst.CountLogs("relay service listener"))
		return
	}
	udpT, _ := svx.NewUDPTarget("E", "127.0.0.3", 0)
	defer udpT.Close()
	tcpT, _ := svx.NewTCPTarget("ET", "127.0.0.3", 0, "echo", nil)
	defer tcpT.Close()
	tunU, _ := svx.NewUDPTarget("TUN", "127.0.0.2", p[11])
	defer tunU.Close()
	dns.Set("exact.example", "127.0.0.3")

	// ---- hostile phase ----
	ssKey := svx.ServerKey("ss", "ss128")
	ssCC, _ := ss2022.NewClientCipherConfig(ssKey, nil, true)
	ssmCC, _ := ss2022.NewClientCipherConfig(svx.UserKey("ssm", 0), [][]byte{svx.ServerKey("ssm", "ssmulti")}, true)
	hostileTCP := func(name string) []byte {
		switch name {
		case "socks":
			return socksSeed(r, false)
		case "socksauth":
			return socksSeed(r, true)
		case "http", "httpauth", "httptls":
			return httpSeed(r)
		case "none":
			return append(hostileAddr(r), r.Bytes(r.Intn(30))...)
		case "ss", "ssm":
			cc := ssCC
			if name == "ssm" {
				cc = ssmCC
			}
			if r.Bool() {
				return r.Bytes(r.Pick(0, 1, 16, 43, 59, 100))
			}
			// keyed: valid fixed header, hostile variable header
			salt := r.Bytes(16)
			sc, _ := cc.ShadowStreamCipher(salt)
			out := append([]byte{}, salt...)
			hashes := cc.EIHPSKHashes()
			blocks, _ := cc.TCPIdentityHeaderCiphers(salt)
			for i := range hashes {
				eih := make([]byte, 16)
				blocks[i].Encrypt(eih, hashes[i][:])
				out = append(out, eih...)
			}
			var vh []byte
			switch r.Intn(4) {
			case 0:
			case 1:
				vh = hostileAddr(r)
			case 2:
				vh = append(socks5.AppendAddrFromConnAddr(nil, conn.MustAddrFromDomainPort("exact.example", uint16(r.Pick(0, 2, 100, 1000)))), 0xff, 0xff, 1)
			default:
				vh = append(append(hostileAddr(r), 0, byte(r.Intn(3))), r.Bytes(r.Intn(6))...)
			}
			fixed := make([]byte, 11, 27)
			ss2022.PutTCPRequestFixedLengthHeader(fixed, time.Now(), len(vh))
			out = append(out, sc.EncryptInPlace(fixed)...)
			vb := make([]byte, len(vh), len(vh)+16)
			copy(vb, vh)
			out = append(out, sc.EncryptInPlace(vb)...)
			return append(out, r.Bytes(r.Intn(30))...)
		default:
			return r.Bytes(r.Intn(100))
		}
	}
	blasted := 0
	for i, s := range append(servers, struct {
		name, proto string
		o           svx.ServerOpts
	}{"tun", "direct", both}) {
		port := p[i]
		if s.name == "tun" {
			port = p[10]
		}
		for k := 0; k < per; k++ {
			in := hostileTCP(s.name)
			if r.Chance(2, 3) {
				in = mutate(r, in)
			}
			rec.Begin("live", round, fmt.Sprintf("tcp %s %s", s.name, core.Hex(in, 64)))
			c, err := net.Dial("tcp", fmt.Sprintf("127.0.0.1:%d", port))
			if err != nil {
				viol("listener_gone", "TCP listener of %s no longer accepts: %v", s.name, err)
				return
			}
			tc := c.(*net.TCPConn)
			if s.name == "httptls" && r.Chance(2, 3) {
				// inside TLS: complete the handshake (bounded in real time), then send the hostile HTTP through it
				if tcfg, err := t.TLSClientConfig(false); err == nil {
					tl := tls.Client(c, tcfg)
					hs := make(chan error, 1)
					go func() { hs <- tl.Handshake() }()
					var herr error
					if !svx.Poll(10*time.Second, func() bool {
						select {
						case herr = <-hs:
							return true
						default:
							return false
						}
					}) || herr != nil {
						tc.Close()
						viol("tls_handshake_not_served", "the HTTPS proxy listener did not complete a genuine TLS handshake after %d hostile inputs: %v", blasted, herr)
						return
					}
					tl.Write(in)
					if r.Bool() {
						tl.CloseWrite()
					}
					rec.Count("hostile_inputs_inside_tls", 1)
					vtime.RealSleep(time.Millisecond)
					tc.Close()
					blasted++
					continue
				}
			}
			if s.name == "httptls" && r.Bool() {
				// something that starts like a TLS record / ClientHello
				in = append([]byte{0x16, 3, byte(r.Pick(1, 3)), byte(r.Intn(2)), byte(r.Intn(256)), 1, 0, byte(r.Intn(2)), byte(r.Intn(256)), 3, 3}, in...)
			}
			tc.Write(in)
			switch r.Intn(4) {
			case 0:
				tc.CloseWrite()
				// read what comes, for at most a second of real time: a relay that went on to dial an unreachable
				// address keeps the connection until the kernel gives up (minutes); that wait decides nothing here
				fin := make(chan struct{})
				go func() { io.Copy(io.Discard, io.LimitReader(tc, 4096)); close(fin) }()
				svx.Poll(time.Second, func() bool {
					select {
					case <-fin:
						return true
					default:
						return false
					}
				})
			case 1:
				tc.SetLinger(0) // RST
			}
			tc.Close()
			blasted++
		}
		if s.o.UDP {
			uc, _ := net.ListenUDP("udp", &net.UDPAddr{IP: net.IPv4(127, 0, 0, 1)})
			dst := netip.MustParseAddrPort(fmt.Sprintf("127.0.0.1:%d", port))
			for k := 0; k < per; k++ {
				var pkt []byte
				switch {
				case s.name == "ss" || s.name == "ssm":
					cc := ssCC
					if s.name == "ssm" {
						cc = ssmCC
					}
					if r.Bool() {
						pkt = r.Bytes(r.Pick(0, 15, 16, 32, 48, 200))
					} else {
						var pt []byte
						pt = append(pt, byte(r.Pick(0, 0, 1)))
						pt = binary.BigEndian.AppendUint64(pt, uint64(time.Now().Unix()))
						pt = binary.BigEndian.AppendUint16(pt, uint16(r.Pick(0, 0, 3, 0xffff)))
						pt = append(pt, hostileAddr(r)...)
						pkt = sealClientPacket(cc, r.Uint64(), uint64(r.Intn(3)), pt)
					}
				case s.name == "socks":
					pkt = mutate(r, append([]byte{0, 0, byte(r.Pick(0, 0, 1))}, hostileAddr(r)...))
				default:
					pkt = mutate(r, append(hostileAddr(r), r.Bytes(r.Intn(20))...))
				}
				rec.Begin("live", round, fmt.Sprintf("udp %s %s", s.name, core.Hex(pkt, 64)))
				uc.WriteToUDPAddrPort(pkt, dst)
				blasted++
			}
			uc.Close()
			// ---- an ESTABLISHED session's own traffic, cut short: a genuine datagram of a live session is captured and every
			// prefix of it (and prefixes with a damaged tail) is sent from the session's socket. The first 16 bytes still
			// decrypt to the session's id, so these reach the per-session unpacker instead of the new-session path.
			if s.name == "tun" {
				continue
			}
			if hc, err := svx.NewClient(svx.JSON(t.ClientFor("cut", s.name, s.proto, port, 0, false, true))); err == nil {
				if peer, err := hc.NewUDPPeer("127.0.0.1"); err == nil {
					hr := peer.Info.PackerHeadroom
					pl := []byte("established-session")
					b := make([]byte, hr.Front+len(pl)+hr.Rear+16)
					copy(b[hr.Front:], pl)
					if dest, ps, pln, err := peer.Sess.Packer.PackInPlace(context.Background(), b, conn.AddrFromIPPort(udpT.Addr), hr.Front, len(pl)); err == nil {
						pkt := append([]byte{}, b[ps:ps+pln]...)
						peer.SendRaw(dest, pkt)
						if svx.Poll(5*time.Second, func() bool { return len(peer.Got()) >= 1 }) {
							rec.Begin("live", round, fmt.Sprintf("udp %s: every prefix of a genuine datagram of an established session %s", s.name, core.Hex(pkt, 48)))
							for n := 0; n <= len(pkt); n++ {
								peer.SendRaw(dest, pkt[:n])
								if n >= 16 && n < len(pkt) {
									d := append([]byte{}, pkt[:n]...)
									d[n-1] ^= 0x40
									peer.SendRaw(dest, d)
								}
								blasted += 2
							}
							rec.Count("established_session_prefixes", int64(len(pkt)+1))
						}
					}
					peer.Close()
				}
			}
		}
	}
	// ---- bursts of well-formed datagrams whose session can never be set up (the router rejects the target port):
	// every datagram of the burst arrives while a session for that address is being started or torn down
	for i, s := range servers {
		if !s.o.UDP || (s.name != "socks" && s.name != "none") {
			continue
		}
		for rep := 0; rep < 4; rep++ {
			uc, err := net.ListenUDP("udp", &net.UDPAddr{IP: net.IPv4(127, 0, 0, 1)})
			if err != nil {
				continue
			}
			dst := netip.MustParseAddrPort(fmt.Sprintf("127.0.0.1:%d", p[i]))
			pkt := []byte{1, 10, 9, 9, 9, 0, 2, 'x'} // 10.9.9.9:2, a port the "bits" route rejects
			if s.name == "socks" {
				pkt = append([]byte{0, 0, 0}, pkt...)
			}
			rec.Begin("live", round, fmt.Sprintf("udp burst of rejected targets through %s", s.name))
			for k := 0; k < 1500; k++ {
				uc.WriteToUDPAddrPort(pkt, dst)
				blasted++
			}
			uc.Close()
		}
		rec.Count("rejected_target_bursts", 4)
	}
	// ---- hostile remote: what a target returns is network input too. A remote on port 53 (the source the default
	// padding policy treats specially) answers one request with replies of every size around the client's budget,
	// plus some that only fit the receive buffer or nothing at all. Whether a reply is delivered is not judged here.
	if t53, err := net.ListenUDP("udp", &net.UDPAddr{IP: net.IPv4(127, 0, 0, 3), Port: 53}); err == nil {
		go func() {
			b := make([]byte, 2048)
			for {
				_, from, err := t53.ReadFromUDPAddrPort(b)
				if err != nil {
					return
				}
				for n := 1380; n <= 1480; n++ {
					t53.WriteToUDPAddrPort(core.Pattern(53, 0, n), from)
				}
				for _, n := range []int{0, 1, 1232, 3000, 9000, 65000} {
					t53.WriteToUDPAddrPort(core.Pattern(53, 0, n), from)
				}
			}
		}()
		sweeps := 0
		for i, s := range servers {
			if !s.o.UDP {
				continue
			}
			hc, err := svx.NewClient(svx.JSON(t.ClientFor("h53", s.name, s.proto, p[i], 0, true, true)))
			if err != nil {
				continue
			}
			peer, err := hc.NewUDPPeer("127.0.0.1")
			if err != nil {
				continue
			}
			rec.Begin("live", round, "udp replies from port 53 sweeping 1380..1480 bytes through "+s.name)
			peer.Send(conn.AddrFromIPPort(netip.MustParseAddrPort("127.0.0.3:53")), []byte("sweep"))
			svx.Poll(2*time.Second, func() bool { return len(peer.Got()) >= 20 })
			rec.Count("port53_replies_delivered", int64(len(peer.Got())))
			peer.Close()
			sweeps++
		}
		t53.Close()
		rec.Count("port53_reply_sweeps", int64(sweeps))
	} else {
		rec.Note("live: port 53 on 127.0.0.3 not available (%v): reply sweep skipped", err)
	}
	rec.Count("hostile_inputs_over_sockets", int64(blasted))
	// let the relay digest what is still queued
	vtime.RealSleep(100 * time.Millisecond)

	// ---- genuine phase: everyone else is still served ----
	served := 0
	for i, s := range servers {
		ccfg := t.ClientFor("g", s.name, s.proto, p[i], 0, true, s.o.UDP)
		hc, err := svx.NewClientTLS(svx.JSON(ccfg), t)
		if err != nil {
			viol("client_build_failed", "%s: %v", s.name, err)
			return
		}
		cc, err := hc.TCP.DialStream(context.Background(), conn.AddrFromIPPort(tcpT.Addr), []byte("genuine-"+s.name))
		if err != nil {
			viol("genuine_request_not_served", "after the hostile traffic a genuine TCP request through %s failed: %v", s.name, err)
			return
		}
		cc.(netio.Conn).CloseWrite()
		done := make(chan []byte, 1)
		go func() { b, _ := io.ReadAll(cc); done <- b }()
		var got []byte
		if !svx.Poll(30*time.Second, func() bool {
			select {
			case got = <-done:
				return true
			default:
				return false
			}
		}) || string(got) != "genuine-"+s.name {
			cc.Close()
			viol("genuine_request_not_served", "after the hostile traffic the TCP echo through %s did not come back (%q)", s.name, got)
			return
		}
		cc.Close()
		served++
		if s.o.UDP {
			peer, err := hc.NewUDPPeer("127.0.0.1")
			if err != nil {
				viol("genuine_request_not_served", "%s: UDP session: %v", s.name, err)
				return
			}
			peer.Send(conn.AddrFromIPPort(udpT.Addr), []byte("genuine-udp-"+s.name))
			ok := svx.Poll(30*time.Second, func() bool { return len(peer.Got()) > 0 })
			if !ok || string(peer.Got()[0].Payload) != "E|genuine-udp-"+s.name {
				peer.Close()
				viol("genuine_request_not_served", "after the hostile traffic the UDP echo through %s did not come back", s.name)
				return
			}
			peer.Close()
			served++
		}
	}
	sr := inst.Stop(30 * time.Second)
	stopped = true
	if !sr.Returned {
		viol("stop_hung", "service did not stop after the hostile traffic")
		return
	}
	rec.Count("genuine_exchanges_served", int64(served))
	rec.Class("round=%d/blasted~%d/served=%d", round, blasted/100*100, served)
	rec.Class("served-after-hostile=%d", served)
	rec.Sample(4, map[string]any{"round": round, "hostile_inputs": blasted, "genuine_exchanges_served": served})
	_ = forge.Key
}
