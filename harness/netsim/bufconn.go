// Package netsim provides harness transports and fakes: a buffered in-memory
// duplex stream whose reads are re-segmented by a per-direction plan (so the
// real code sees every fragmentation/coalescing of the bytes written), byte
// recorders, scripted readers and a zap observer helper.
package netsim

import (
	"io"
	"net"
	"os"
	"sync"
	"time"
)

// SegPlan yields the maximum size of the next transport segment (>=1).
type SegPlan func() int

// Whole is a plan without fragmentation.
func Whole() int { return 1 << 30 }

// FixedPlan cycles through sizes; after a finite prefix it keeps using the last element if loop is false.
func FixedPlan(loop bool, sizes ...int) SegPlan {
	i := 0
	return func() int {
		if len(sizes) == 0 {
			return 1 << 30
		}
		s := sizes[i]
		if i+1 < len(sizes) {
			i++
		} else if loop {
			i = 0
		}
		if s < 1 {
			s = 1
		}
		return s
	}
}

type half struct {
	mu       sync.Mutex
	cond     *sync.Cond
	buf      []byte
	wclosed  bool  // writer closed: EOF after drain
	werr     error // error to deliver to the reader instead of EOF
	rclosed  bool  // reader closed: writes fail
	plan     SegPlan
	seg      int // remaining bytes of the current segment (0 = ask plan)
	rec      []byte
	wlens    []int
	record   bool
	deadline time.Time
	dlTimer  *time.Timer
	total    int64
}

func newHalf(plan SegPlan, record bool) *half {
	h := &half{plan: plan, record: record}
	if h.plan == nil {
		h.plan = Whole
	}
	h.cond = sync.NewCond(&h.mu)
	return h
}

// BufConn is one end of a buffered in-memory duplex stream. Writes never
// block; a Read returns at most the current transport segment.
type BufConn struct {
	rd, wr *half
	name   string
	peer   *BufConn
	// Local, when set, is returned by LocalAddr (some servers require a *net.TCPAddr).
	Local net.Addr
}

// Peer returns the other end.
func (c *BufConn) Peer() *BufConn { return c.peer }

type bufAddr string

func (a bufAddr) Network() string { return "bufconn" }
func (a bufAddr) String() string  { return string(a) }

// Pair returns the two ends. planAB segments what a writes and b reads.
func Pair(planAB, planBA SegPlan, record bool) (a, b *BufConn) {
	ab := newHalf(planAB, record)
	ba := newHalf(planBA, record)
	a, b = &BufConn{rd: ba, wr: ab, name: "a"}, &BufConn{rd: ab, wr: ba, name: "b"}
	a.peer, b.peer = b, a
	return a, b
}

func (c *BufConn) Read(b []byte) (int, error) {
	h := c.rd
	h.mu.Lock()
	defer h.mu.Unlock()
	for {
		if h.rclosed {
			return 0, io.ErrClosedPipe
		}
		if !h.deadline.IsZero() && !time.Now().Before(h.deadline) {
			return 0, os.ErrDeadlineExceeded
		}
		if len(h.buf) > 0 {
			if len(b) == 0 {
				return 0, nil
			}
			if h.seg <= 0 {
				h.seg = h.plan()
				if h.seg < 1 {
					h.seg = 1
				}
			}
			n := min(len(b), len(h.buf), h.seg)
			copy(b, h.buf[:n])
			h.buf = h.buf[n:]
			h.seg -= n
			if len(b) > n && h.seg > 0 {
				// segment boundary also ends where the available data ends (like TCP: a read returns what has arrived)
				h.seg = 0
			}
			return n, nil
		}
		if h.wclosed {
			if h.werr != nil {
				return 0, h.werr
			}
			return 0, io.EOF
		}
		h.cond.Wait()
	}
}

func (c *BufConn) Write(b []byte) (int, error) {
	h := c.wr
	h.mu.Lock()
	defer h.mu.Unlock()
	if h.wclosed || h.rclosed {
		return 0, io.ErrClosedPipe
	}
	h.buf = append(h.buf, b...)
	if h.record {
		h.rec = append(h.rec, b...)
		h.wlens = append(h.wlens, len(b))
	}
	h.total += int64(len(b))
	h.cond.Broadcast()
	return len(b), nil
}

// CloseWrite ends the outgoing direction: the peer drains and then sees EOF.
func (c *BufConn) CloseWrite() error {
	h := c.wr
	h.mu.Lock()
	h.wclosed = true
	h.cond.Broadcast()
	h.mu.Unlock()
	return nil
}

// CloseWriteWithError ends the outgoing direction with an error instead of EOF.
func (c *BufConn) CloseWriteWithError(err error) {
	h := c.wr
	h.mu.Lock()
	h.wclosed = true
	h.werr = err
	h.cond.Broadcast()
	h.mu.Unlock()
}

// CloseRead fails local reads and the peer's writes.
func (c *BufConn) CloseRead() error {
	h := c.rd
	h.mu.Lock()
	h.rclosed = true
	h.cond.Broadcast()
	h.mu.Unlock()
	return nil
}

// Close closes both directions.
func (c *BufConn) Close() error {
	c.CloseWrite()
	c.CloseRead()
	return nil
}

func (c *BufConn) LocalAddr() net.Addr {
	if c.Local != nil {
		return c.Local
	}
	return bufAddr(c.name)
}
func (c *BufConn) RemoteAddr() net.Addr { return bufAddr("peer-of-" + c.name) }

func (c *BufConn) SetDeadline(t time.Time) error {
	c.SetReadDeadline(t)
	return nil
}

func (c *BufConn) SetReadDeadline(t time.Time) error {
	h := c.rd
	h.mu.Lock()
	defer h.mu.Unlock()
	h.deadline = t
	if h.dlTimer != nil {
		h.dlTimer.Stop()
		h.dlTimer = nil
	}
	if !t.IsZero() {
		if d := time.Until(t); d > 0 {
			h.dlTimer = time.AfterFunc(d, func() {
				h.mu.Lock()
				h.cond.Broadcast()
				h.mu.Unlock()
			})
		}
	}
	h.cond.Broadcast()
	return nil
}

func (c *BufConn) SetWriteDeadline(time.Time) error { return nil }

// Sent returns a copy of every byte written at this end (needs record).
func (c *BufConn) Sent() []byte {
	h := c.wr
	h.mu.Lock()
	defer h.mu.Unlock()
	return append([]byte{}, h.rec...)
}

// Writes returns the length of every Write call made at this end (needs record).
func (c *BufConn) Writes() []int {
	h := c.wr
	h.mu.Lock()
	defer h.mu.Unlock()
	return append([]int{}, h.wlens...)
}

// Steal removes and returns every byte the peer has written and this end has not read yet.
func (c *BufConn) Steal() []byte {
	h := c.rd
	h.mu.Lock()
	defer h.mu.Unlock()
	b := h.buf
	h.buf = nil
	h.seg = 0
	return b
}

// Reopen clears the peer's write-closed state so that the harness can inject bytes after a Steal.
func (c *BufConn) Reopen() {
	h := c.rd
	h.mu.Lock()
	h.wclosed = false
	h.werr = nil
	h.mu.Unlock()
}

// SentTotal returns the number of bytes written at this end.
func (c *BufConn) SentTotal() int64 {
	h := c.wr
	h.mu.Lock()
	defer h.mu.Unlock()
	return h.total
}

// Pending returns the number of bytes written by the peer and not yet read here.
func (c *BufConn) Pending() int {
	h := c.rd
	h.mu.Lock()
	defer h.mu.Unlock()
	return len(h.buf)
}

// ScriptReader is an io.Reader that hands out a byte stream in planned chunk sizes.
type ScriptReader struct {
	Data    []byte
	Sizes   []int
	EOFWith bool // return io.EOF together with the last chunk
	off, k  int
}

func (s *ScriptReader) Read(b []byte) (int, error) {
	if s.off >= len(s.Data) {
		return 0, io.EOF
	}
	want := len(s.Data) - s.off
	if len(s.Sizes) > 0 {
		want = min(want, max(1, s.Sizes[s.k%len(s.Sizes)]))
		s.k++
	}
	n := copy(b, s.Data[s.off:s.off+min(want, len(s.Data)-s.off)])
	s.off += n
	if s.off >= len(s.Data) && s.EOFWith {
		return n, io.EOF
	}
	return n, nil
}

// RecWriter is an io.Writer that records what it receives, optionally accepting planned short chunks only.
type RecWriter struct {
	mu   sync.Mutex
	Data []byte
	N    int // number of Write calls
}

func (w *RecWriter) Write(b []byte) (int, error) {
	w.mu.Lock()
	w.Data = append(w.Data, b...)
	w.N++
	w.mu.Unlock()
	return len(b), nil
}
