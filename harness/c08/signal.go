package c08

import (
	"context"
	"encoding/base64"
	"encoding/json"
	"fmt"
	"io"
	"net/http"
	"os"
	"os/signal"
	"path/filepath"
	"sort"
	"strings"
	"sync"
	"syscall"
	"time"

	"github.com/database64128/shadowsocks-go/conn"
	"github.com/database64128/shadowsocks-go/netio"

	"verif/core"
	"verif/forge"
	"verif/svx"
)

// The signal part drives the third way credentials change: the operator edits the store file of a running service
// and sends the process SIGUSR1. The service is the real manager (multi-user SS2022 server with TCP and UDP
// listeners, management API); afterwards the keys accepted for new TCP connections and new UDP sessions over real
// sockets, the names and keys the API lists and the file must be the same set, and a file that does not load must
// leave the accepted set untouched.

func init() { core.Register("C08", "signal", runSignal) }

var sigOnce sync.Once

func runSignal(e *core.Env) {
	rec := e.Rec
	rec.Rule("signal: one case = a running service (multi-user SS2022, TCP+UDP, API) whose store file is edited by the operator (delete / rotate / add users, or made unloadable) 1-3 times, each followed by a real SIGUSR1 to the process; after each reload every key of the universe is tried for a new TCP connection and a new UDP session over real sockets and the API listing is read; class = (edit kinds, file loadable, key size)")
	// the default action of SIGUSR1 is to end the process: make sure that can never apply between two instances
	sigOnce.Do(func() { signal.Notify(make(chan os.Signal, 8), syscall.SIGUSR1) })
	n := e.N(5, 60)
	for ci := 0; ci < n; ci++ {
		if e.Only >= 0 && e.Only != ci {
			continue
		}
		r := core.NewRNG(e.Seed, "c08.signal", ci)
		rec.Begin("signal", ci, "")
		rec.Eval()
		core.Guard(e, "signal", ci, func() { signalCase(e, ci, r) })
	}
}

func b64(b []byte) string { return base64.StdEncoding.EncodeToString(b) }

func signalCase(e *core.Env, ci int, r *core.RNG) {
	rec := e.Rec
	dir := filepath.Join(e.WorkDir, fmt.Sprintf("signal-%d", ci))
	os.MkdirAll(dir, 0o755)
	defer os.RemoveAll(dir)
	keySize := r.Pick(16, 32)
	method := map[int]string{16: "2022-blake3-aes-128-gcm", 32: "2022-blake3-aes-256-gcm"}[keySize]
	ipsk := forge.Key(keySize, fmt.Sprintf("c08sig/%d/ipsk", ci))
	// the universe of keys: k0..k5; users hold some of them
	keys := make([][]byte, 6)
	for i := range keys {
		keys[i] = forge.Key(keySize, fmt.Sprintf("c08sig/%d/k%d", ci, i))
	}
	file := map[string]int{"alice": 0, "bob": 1, "carol": 2}
	storePath := filepath.Join(dir, "upsks.json")
	writeStore := func(raw string) {
		if raw != "" {
			os.WriteFile(storePath, []byte(raw), 0o644)
			return
		}
		m := map[string][]byte{}
		for u, k := range file {
			m[u] = keys[k]
		}
		b, _ := json.MarshalIndent(m, "", "    ")
		os.WriteFile(storePath, append(b, '\n'), 0o644)
	}
	writeStore("")
	ports := svx.FreePorts(2)
	addr := fmt.Sprintf("127.0.0.1:%d", ports[0])
	cfg := map[string]any{
		"servers": []any{map[string]any{"name": "S", "protocol": method, "psk": b64(ipsk), "uPSKStorePath": storePath, "mtu": 1500,
			"tcpListeners": []any{map[string]any{"network": "tcp", "address": addr, "disableInitialPayloadWait": true}},
			"udpListeners": []any{map[string]any{"network": "udp", "address": addr}}}},
		"clients": []any{svx.Direct("direct")},
		"api":     map[string]any{"enabled": true, "listeners": []any{map[string]any{"network": "tcp", "address": fmt.Sprintf("127.0.0.1:%d", ports[1])}}},
	}
	inst, err := svx.Start(svx.JSON(cfg))
	if err != nil {
		rec.Inconclusive("signal setup: " + err.Error())
		return
	}
	defer inst.Stop(20 * time.Second)
	if !inst.WaitLogs("relay service listener", 2, 40*time.Second) || !inst.WaitLogs("Started API server listener", 1, 40*time.Second) {
		rec.Inconclusive("signal listeners")
		return
	}
	tcpT, err1 := svx.NewTCPTarget("E", "127.0.0.2", 0, "echo", nil)
	udpT, err2 := svx.NewUDPTarget("U", "127.0.0.2", 0)
	if err1 != nil || err2 != nil {
		rec.Inconclusive("signal targets")
		return
	}
	defer tcpT.Close()
	defer udpT.Close()
	viol := func(kind string, w any, format string, a ...any) {
		rec.Violate("signal", ci, core.Sig("kind", kind, "part", "signal"), map[string]any{"witness": w, "logs": inst.LogLines(8)}, format, a...)
	}
	clientFor := func(k int) *svx.Client {
		c, err := svx.NewClient(svx.JSON(map[string]any{"name": fmt.Sprintf("k%d", k), "endpoint": addr, "protocol": method, "psk": b64(keys[k]),
			"iPSKs": []any{b64(ipsk)}, "enableTCP": true, "enableUDP": true, "mtu": 1500}))
		if err != nil {
			core.Fatalf("c08 signal client: %v", err)
		}
		return c
	}
	clients := make([]*svx.Client, len(keys))
	for k := range keys {
		clients[k] = clientFor(k)
	}
	// tryKey reports whether a NEW TCP connection and a NEW UDP session under key k are served.
	seq := 0
	tryKey := func(k int, expect bool) (tcpOK, udpOK bool) {
		seq++
		msg := []byte(fmt.Sprintf("probe-%d-%d-%d", ci, k, seq))
		cc, err := clients[k].TCP.DialStream(context.Background(), conn.AddrFromIPPort(tcpT.Addr), msg)
		if err == nil {
			cc.(netio.Conn).CloseWrite()
			done := make(chan []byte, 1)
			go func() { b, _ := io.ReadAll(cc); done <- b }()
			var got []byte
			// a key that must work gets a generous wait; one that must not is given the time a refusal takes
			wait := 30 * time.Second
			if !expect {
				wait = 2 * time.Second
			}
			svx.Poll(wait, func() bool {
				select {
				case got = <-done:
					return true
				default:
					return false
				}
			})
			cc.Close()
			tcpOK = string(got) == string(msg)
		}
		p, err := clients[k].NewUDPPeer("127.0.0.1")
		if err == nil {
			p.Send(conn.AddrFromIPPort(udpT.Addr), msg)
			wait := 30 * time.Second
			if !expect {
				wait = 400 * time.Millisecond
			}
			udpOK = svx.Poll(wait, func() bool { return len(p.Got()) > 0 }) && string(p.Got()[0].Payload) == "U|"+string(msg)
			p.Close()
		}
		return
	}
	listing := func() (map[string]string, bool) {
		resp, err := http.Get(fmt.Sprintf("http://127.0.0.1:%d/api/ssm/v1/servers/S/users", ports[1]))
		if err != nil {
			return nil, false
		}
		defer resp.Body.Close()
		b, _ := io.ReadAll(resp.Body)
		var doc struct {
			Users []struct {
				Username string `json:"username"`
				UPSK     []byte `json:"uPSK"`
			} `json:"users"`
		}
		if resp.StatusCode != 200 || json.Unmarshal(b, &doc) != nil {
			return nil, false
		}
		m := map[string]string{}
		for _, u := range doc.Users {
			m[u.Username] = string(u.UPSK)
		}
		return m, true
	}
	compare := func(step string) bool {
		want := map[int]string{}
		for u, k := range file {
			want[k] = u
		}
		for k := range keys {
			_, in := want[k]
			t, u := tryKey(k, in)
			if t != in || u != in {
				viol("accepted_set_differs_from_file", map[string]any{"step": step, "key": k, "file": file}, "%s: key k%d is %s the store file, but a new TCP connection is %s and a new UDP session is %s", step, k,
					map[bool]string{true: "in", false: "not in"}[in], map[bool]string{true: "served", false: "refused"}[t], map[bool]string{true: "served", false: "refused"}[u])
				return false
			}
			rec.Count("signal_handshakes", 2)
		}
		got, ok := listing()
		if !ok {
			viol("listing_unreadable", step, "%s: GET users failed", step)
			return false
		}
		wl := map[string]string{}
		for u, k := range file {
			wl[u] = string(keys[k])
		}
		if fmt.Sprint(sigSortedKV(got)) != fmt.Sprint(sigSortedKV(wl)) {
			viol("listing_differs_from_file", map[string]any{"step": step, "file": file, "listed": sigNames(got)}, "%s: the API lists users %v, the store file holds %v", step, sigNames(got), sigNames(wl))
			return false
		}
		return true
	}
	if !compare("start") {
		return
	}
	var kindsSeen []string
	anyBad := false
	for step := 0; step < r.Range(1, 3); step++ {
		kind := r.PickStr("delete", "rotate", "add", "mixed", "unloadable", "swap")
		before := map[string]int{}
		for u, k := range file {
			before[u] = k
		}
		free := func() int {
			used := map[int]bool{}
			for _, k := range file {
				used[k] = true
			}
			for k := range keys {
				if !used[k] {
					return k
				}
			}
			return -1
		}
		anyUser := func() string {
			us := sigNames2(file)
			if len(us) == 0 {
				return ""
			}
			return us[r.Intn(len(us))]
		}
		raw := ""
		switch kind {
		case "delete":
			if u := anyUser(); u != "" {
				delete(file, u)
			}
		case "rotate":
			if u, k := anyUser(), free(); u != "" && k >= 0 {
				file[u] = k
			}
		case "add":
			if k := free(); k >= 0 {
				file[fmt.Sprintf("user%d", step)] = k
			}
		case "swap":
			// two users exchange keys: every key stays valid but belongs to the other user
			us := sigNames2(file)
			if len(us) >= 2 {
				file[us[0]], file[us[1]] = file[us[1]], file[us[0]]
			}
		case "mixed":
			if u := anyUser(); u != "" {
				delete(file, u)
			}
			if k := free(); k >= 0 {
				file[fmt.Sprintf("user%d", step)] = k
			}
			if u, k := anyUser(), free(); u != "" && k >= 0 {
				file[u] = k
			}
		case "unloadable":
			raw = r.PickStr("{\"alice\": ", "{\"alice\": \"AAAA\"}", "", "[]")
			if raw == "" {
				raw = " "
			}
		}
		kindsSeen = append(kindsSeen, kind)
		writeStore(raw)
		okBefore, badBefore := inst.CountLogs("Reloaded server credentials"), inst.CountLogs("Failed to reload server credentials")
		syscall.Kill(os.Getpid(), syscall.SIGUSR1)
		if !svx.Poll(40*time.Second, func() bool {
			return inst.CountLogs("Reloaded server credentials") > okBefore || inst.CountLogs("Failed to reload server credentials") > badBefore
		}) {
			viol("signal_ignored", kind, "step %d (%s): SIGUSR1 was sent and the service logged neither a reload nor a failure", step, kind)
			return
		}
		if raw != "" {
			anyBad = true
			// nothing may have changed; the file the operator broke is not what the server runs on
			file = before
			if inst.CountLogs("Reloaded server credentials") > okBefore {
				viol("unloadable_file_reported_loaded", raw, "step %d: the store file %q was reported as reloaded", step, raw)
				return
			}
		}
		if !compare(fmt.Sprintf("after step %d (%s)", step, kind)) {
			return
		}
		if raw != "" {
			writeStore("") // the operator repairs the file (not reloaded until the next signal)
		}
	}
	rec.Count("signal_reloads", int64(len(kindsSeen)))
	rec.Class("signal/keysize=%d/edits=%s/unloadable=%v", keySize, strings.Join(kindsSeen, "+"), anyBad)
}

func sigNames(m map[string]string) []string {
	var out []string
	for k := range m {
		out = append(out, k)
	}
	sort.Strings(out)
	return out
}

func sigNames2(m map[string]int) []string {
	var out []string
	for k := range m {
		out = append(out, k)
	}
	sort.Strings(out)
	return out
}

func sigSortedKV(m map[string]string) []string {
	var out []string
	for _, k := range sigNames(m) {
		out = append(out, k+"="+b64([]byte(m[k])))
	}
	return out
}
