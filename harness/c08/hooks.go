package c08

import (
	"fmt"
	"os"
	"path/filepath"
	"sync"
	"time"

	"github.com/database64128/shadowsocks-go/verifhook"

	"verif/core"
)

func init() {
	core.Register("C08", "savewindow", runSaveWindow)
}

// runSaveWindow: hook-directed schedules of the debounced save. The saving goroutine is parked at a hook point
// (before the save, after the save, at the top of its loop) while another API change is acknowledged; after the
// goroutine is released and the debounce has elapsed again, the store file must hold every acknowledged change.
func runSaveWindow(e *core.Env) {
	rec := e.Rec
	rec.Rule("savewindow: one case = (store mode, initial users, hook point of the save goroutine: before-save / after-save / loop-top, 1-2 changes acknowledged while it is parked there, kind of change add/update/delete); after release and another debounce the three views (API, live handshakes, file) must agree; class = (hook, changes, reached)")
	hooks := []string{"cred.dequeueSave.beforeSave", "cred.dequeueSave.afterSave", "cred.dequeueSave.top"}
	n := e.N(60, 1500)
	// the hook callback is process-global: strictly one case at a time
	core.Parallel(e, "savewindow", n, 1, func(i int) {
		r := core.NewRNG(e.Seed, "c08.savewindow", i)
		hook := hooks[i%len(hooks)]
		rec.Begin("savewindow", i, hook)
		rec.Eval()
		reached := false
		var hist []string
		dead := core.Bubble(e, func() {
			dir := filepath.Join(e.WorkDir, fmt.Sprintf("sw-%d", i))
			defer os.RemoveAll(dir)
			w, err := newWorld(e, r, dir, map[string]int{"alice": 0})
			if err != nil {
				core.Fatalf("world: %v", err)
			}
			defer w.stop()
			var (
				mu      sync.Mutex
				seen    = map[string]int{}
				armed   = false
				arrived = make(chan struct{}, 1)
				release = make(chan struct{})
			)
			verifhook.Set(func(name string) {
				mu.Lock()
				seen[name]++
				hit := armed && name == hook
				if hit {
					armed = false
				}
				mu.Unlock()
				if hit {
					arrived <- struct{}{}
					<-release
				}
			})
			defer verifhook.Set(nil)
			viol := func(kind, format string, a ...any) {
				rec.Violate("savewindow", i, core.Sig("kind", kind, "part", "savewindow", "hook", hook), map[string]any{"mode": w.mode, "history": hist}, format, a...)
			}
			// first change starts a save cycle; arm the hook so that the saver parks at the chosen point of that cycle
			mu.Lock()
			armed = hook != "cred.dequeueSave.top" // the loop top is armed after the first save started (second pass)
			mu.Unlock()
			if err := w.ms.AddCredential("bob", w.keys[1]); err != nil {
				core.Fatalf("add: %v", err)
			}
			hist = append(hist, "add(bob,k1)")
			if hook == "cred.dequeueSave.top" {
				time.Sleep(time.Second) // the saver has picked the job up and is cooling down
				mu.Lock()
				armed = true
				mu.Unlock()
			}
			time.Sleep(5 * time.Second)
			select {
			case <-arrived:
				reached = true
			default:
				// give the saver a moment of virtual time more
				time.Sleep(time.Second)
				select {
				case <-arrived:
					reached = true
				default:
				}
			}
			if !reached {
				close(release)
				return
			}
			// changes acknowledged while the saver is parked in the window
			changes := r.Range(1, 2)
			for c := 0; c < changes; c++ {
				switch r.Intn(3) {
				case 0:
					if w.ms.AddCredential("carol", w.keys[2]) == nil {
						hist = append(hist, "add(carol,k2)")
					}
				case 1:
					if w.ms.UpdateCredential("alice", w.keys[3]) == nil {
						hist = append(hist, "update(alice,k3)")
					}
				default:
					if w.ms.DeleteCredential("bob") == nil {
						hist = append(hist, "delete(bob)")
					}
				}
			}
			close(release)
			// let the saver finish this cycle and any further one
			time.Sleep(12 * time.Second)
			core.Wait()
			if k, msg := w.compareViews(true); k != "" {
				viol(k, "a change acknowledged while the save goroutine was at %s: %s", hook, msg)
				return
			}
			rec.Class("hook=%s/changes=%d/mode=%s", hook, changes, w.mode)
		})
		if dead != "" {
			rec.Violate("savewindow", i, core.Sig("kind", "deadlock", "part", "savewindow", "hook", hook), hist, "bubble deadlock: %s", dead)
		}
		if !reached {
			rec.Inconclusive("hook-not-reached:" + hook)
		}
		if i%20 == 0 {
			rec.Sample(6, map[string]any{"hook": hook, "history": hist})
		}
	})
}

func init() {
	core.Register("C08", "opwindow", runOpWindow)
}

// runOpWindow: hook-directed schedules of two conflicting operations. Operation A is parked at its hook point between
// updating the manager's own records (what the API lists and what is saved) and publishing to the live lookup maps
// (what new sessions are accepted against); a conflicting operation B on the same user or key is started while A sits
// there. Whatever order the two take effect in, once both have returned the API listing and the keys accepted by real
// handshakes must be the same set. (Real clock: a mutex wait is not a durable block for a synctest bubble. The pause
// only widens the window; the verdict is the final comparison.)
func runOpWindow(e *core.Env) {
	rec := e.Rec
	rec.Rule("opwindow: one case = (store mode, key size, operation A in {delete, update, add, reload} parked at its before-live hook, conflicting operation B in {add same user+key, reload of a file that still holds the user, update to another key, delete} started meanwhile, pause 1-30 ms); after both returned: API listing == keys accepted by real TCP/UDP handshakes; after stop: file == listing; class = (A, B, mode, hook reached, B finished inside the window)")
	type pair struct{ a, b string }
	pairs := []pair{{"delete", "add-same"}, {"delete", "reload-old"}, {"update", "update-other"}, {"update", "delete"}, {"add", "delete"}, {"add", "update"}, {"reload", "add-same"}, {"reload", "delete"}, {"delete", "update"}}
	n := e.N(90, 2400)
	core.Parallel(e, "opwindow", n, 1, func(i int) {
		r := core.NewRNG(e.Seed, "c08.opwindow", i)
		pr := pairs[i%len(pairs)]
		rec.Begin("opwindow", i, pr.a+" || "+pr.b)
		rec.Eval()
		dir := filepath.Join(e.WorkDir, fmt.Sprintf("ow-%d", i))
		defer os.RemoveAll(dir)
		w, err := newWorld(e, r, dir, map[string]int{"alice": 0, "bob": 1})
		if err != nil {
			core.Fatalf("world: %v", err)
		}
		stopped := false
		defer func() {
			if !stopped {
				w.stop()
			}
		}()
		hook := map[string]string{"delete": "cred.delete.beforeLive", "update": "cred.update.beforeLive", "add": "cred.add.beforeLive", "reload": "cred.load.beforeLive"}[pr.a]
		var (
			mu      sync.Mutex
			armed   = true
			arrived = make(chan struct{}, 1)
			release = make(chan struct{})
		)
		verifhook.Set(func(name string) {
			mu.Lock()
			hit := armed && name == hook
			if hit {
				armed = false
			}
			mu.Unlock()
			if hit {
				arrived <- struct{}{}
				<-release
			}
		})
		defer verifhook.Set(nil)
		oldFile, _ := os.ReadFile(w.path)
		var hist []string
		var hmu sync.Mutex
		note := func(s string, err error) {
			hmu.Lock()
			hist = append(hist, fmt.Sprintf("%s -> %v", s, err))
			hmu.Unlock()
		}
		var wg sync.WaitGroup
		wg.Add(1)
		go func() {
			defer wg.Done()
			switch pr.a {
			case "delete":
				note("A delete(bob)", w.ms.DeleteCredential("bob"))
			case "update":
				note("A update(bob,k2)", w.ms.UpdateCredential("bob", w.keys[2]))
			case "add":
				note("A add(carol,k3)", w.ms.AddCredential("carol", w.keys[3]))
			case "reload":
				// the operator's file drops bob
				writeStore(w.path, map[string][]byte{"alice": w.keys[0]})
				note("A reload(file without bob)", w.ms.LoadFromFile())
			}
		}()
		reached := false
		if svxPoll(10*time.Second, func() bool {
			select {
			case <-arrived:
				return true
			default:
				return false
			}
		}) {
			reached = true
		}
		bDone := make(chan struct{})
		wg.Add(1)
		go func() {
			defer wg.Done()
			defer close(bDone)
			switch pr.b {
			case "add-same":
				note("B add(bob,k1)", w.ms.AddCredential("bob", w.keys[1]))
			case "reload-old":
				os.WriteFile(w.path, oldFile, 0o644)
				// touch the content so that an unchanged-content shortcut cannot skip it
				os.WriteFile(w.path, append(append([]byte{}, oldFile...), '\n'), 0o644)
				note("B reload(file with bob)", w.ms.LoadFromFile())
			case "update-other":
				note("B update(bob,k3)", w.ms.UpdateCredential("bob", w.keys[3]))
			case "delete":
				who := "bob"
				if pr.a == "add" {
					who = "carol"
				}
				note("B delete("+who+")", w.ms.DeleteCredential(who))
			case "update":
				who := "bob"
				if pr.a == "add" {
					who = "carol"
				}
				note("B update("+who+",k2)", w.ms.UpdateCredential(who, w.keys[2]))
			}
		}()
		inside := false
		if reached {
			pause := time.Duration(r.Pick(1, 5, 30)) * time.Millisecond
			t := time.NewTimer(pause)
			select {
			case <-bDone:
				inside = true
			case <-t.C:
			}
			t.Stop()
		}
		close(release)
		wg.Wait()
		viol := func(kind, format string, a ...any) {
			rec.Violate("opwindow", i, core.Sig("kind", kind, "part", "opwindow", "a", pr.a, "b", pr.b), map[string]any{"mode": w.mode, "history": hist, "b_finished_inside_window": inside}, format, a...)
		}
		if k, msg := w.compareViews(false); k != "" {
			viol(k, "%s parked before publishing while %s ran: %s", pr.a, pr.b, msg)
			return
		}
		w.stop()
		stopped = true
		if pr.a != "reload" && pr.b != "reload-old" {
			// (after an operator edit the file is the operator's; otherwise it must hold what the API lists)
			if k, msg := w.compareViews(true); k != "" {
				viol(k, "after stop: %s", msg)
				return
			}
		}
		if !reached {
			rec.Inconclusive("hook-not-reached:" + hook)
			return
		}
		rec.Class("A=%s/B=%s/mode=%s/inside=%v", pr.a, pr.b, w.mode, inside)
	})
}

// svxPoll polls f in real time.
func svxPoll(max time.Duration, f func() bool) bool {
	deadline := time.Now().Add(max)
	for {
		if f() {
			return true
		}
		if time.Now().After(deadline) {
			return false
		}
		time.Sleep(200 * time.Microsecond)
	}
}
