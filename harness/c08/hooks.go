package c08

import (
	"fmt"
	"os"
	"path/filepath"
	"sync"
	"time"

	"github.com/database64128/shadowsocks-go/verifhook"

	"verif/core"
)

func init() {
	core.Register("C08", "savewindow", runSaveWindow)
}

// runSaveWindow: hook-directed schedules of the debounced save. The saving goroutine is parked at a hook point
// (before the save, after the save, at the top of its loop) while another API change is acknowledged; after the
// goroutine is released and the debounce has elapsed again, the store file must hold every acknowledged change.
func runSaveWindow(e *core.Env) {
	rec := e.Rec
	rec.Rule("savewindow: one case = (store mode, initial users, hook point of the save goroutine: before-save / after-save / loop-top, 1-2 changes acknowledged while it is parked there, kind of change add/update/delete); after release and another debounce the three views (API, live handshakes, file) must agree; class = (hook, changes, reached)")
	hooks := []string{"cred.dequeueSave.beforeSave", "cred.dequeueSave.afterSave", "cred.dequeueSave.top"}
	n := e.N(60, 1500)
	// the hook callback is process-global: strictly one case at a time
	core.Parallel(e, "savewindow", n, 1, func(i int) {
		r := core.NewRNG(e.Seed, "c08.savewindow", i)
		hook := hooks[i%len(hooks)]
		rec.Begin("savewindow", i, hook)
		rec.Eval()
		reached := false
		var hist []string
		dead := core.Bubble(e, func() {
			dir := filepath.Join(e.WorkDir, fmt.Sprintf("sw-%d", i))
			defer os.RemoveAll(dir)
			w, err := newWorld(e, r, dir, map[string]int{"alice": 0})
			if err != nil {
				core.Fatalf("world: %v", err)
			}
			defer w.stop()
			var (
				mu      sync.Mutex
				seen    = map[string]int{}
				armed   = false
				arrived = make(chan struct{}, 1)
				release = make(chan struct{})
			)
			verifhook.Set(func(name string) {
				mu.Lock()
				seen[name]++
				hit := armed && name == hook
				if hit {
					armed = false
				}
				mu.Unlock()
				if hit {
					arrived <- struct{}{}
					<-release
				}
			})
			defer verifhook.Set(nil)
			viol := func(kind, format string, a ...any) {
				rec.Violate("savewindow", i, core.Sig("kind", kind, "part", "savewindow", "hook", hook), map[string]any{"mode": w.mode, "history": hist}, format, a...)
			}
			// first change starts a save cycle; arm the hook so that the saver parks at the chosen point of that cycle
			mu.Lock()
			armed = hook != "cred.dequeueSave.top" // the loop top is armed after the first save started (second pass)
			mu.Unlock()
			if err := w.ms.AddCredential("bob", w.keys[1]); err != nil {
				core.Fatalf("add: %v", err)
			}
			hist = append(hist, "add(bob,k1)")
			if hook == "cred.dequeueSave.top" {
				time.Sleep(time.Second) // the saver has picked the job up and is cooling down
				mu.Lock()
				armed = true
				mu.Unlock()
			}
			time.Sleep(5 * time.Second)
			select {
			case <-arrived:
				reached = true
			default:
				// give the saver a moment of virtual time more
				time.Sleep(time.Second)
				select {
				case <-arrived:
					reached = true
				default:
				}
			}
			if !reached {
				close(release)
				return
			}
			// changes acknowledged while the saver is parked in the window
			changes := r.Range(1, 2)
			for c := 0; c < changes; c++ {
				switch r.Intn(3) {
				case 0:
					if w.ms.AddCredential("carol", w.keys[2]) == nil {
						hist = append(hist, "add(carol,k2)")
					}
				case 1:
					if w.ms.UpdateCredential("alice", w.keys[3]) == nil {
						hist = append(hist, "update(alice,k3)")
					}
				default:
					if w.ms.DeleteCredential("bob") == nil {
						hist = append(hist, "delete(bob)")
					}
				}
			}
			close(release)
			// let the saver finish this cycle and any further one
			time.Sleep(12 * time.Second)
			core.Wait()
			if k, msg := w.compareViews(true); k != "" {
				viol(k, "a change acknowledged while the save goroutine was at %s: %s", hook, msg)
				return
			}
			rec.Class("hook=%s/changes=%d/mode=%s", hook, changes, w.mode)
		})
		if dead != "" {
			rec.Violate("savewindow", i, core.Sig("kind", "deadlock", "part", "savewindow", "hook", hook), hist, "bubble deadlock: %s", dead)
		}
		if !reached {
			rec.Inconclusive("hook-not-reached:" + hook)
		}
		if i%20 == 0 {
			rec.Sample(6, map[string]any{"hook": hook, "history": hist})
		}
	})
}
