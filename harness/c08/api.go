package c08

import (
	"bytes"
	"context"
	"encoding/json"
	"fmt"
	"io"
	"net/http"
	"os"
	"path/filepath"
	"time"

	"github.com/database64128/shadowsocks-go/api"
	"github.com/database64128/shadowsocks-go/api/ssm"
	"github.com/database64128/shadowsocks-go/conn"
	"github.com/database64128/shadowsocks-go/stats"
	"github.com/database64128/shadowsocks-go/tlscerts"
	"go.uber.org/zap"
	"go.uber.org/zap/zapcore"
	"go.uber.org/zap/zaptest/observer"

	"verif/core"
)

func init() {
	core.Register("C08", "api", runAPI)
}

// runAPI drives the same three-view comparison through the real management REST API
// (POST/PATCH/DELETE users, POST reload-users, GET users) over a loopback listener.
func runAPI(e *core.Env) {
	rec := e.Rec
	rec.Rule("api: one case = history (<=10 requests) of POST users / PATCH users/{u} / DELETE users/{u} / POST reload-users (after an operator edit) through the real REST API of a server whose credential manager feeds a real TCP and UDP SS2022 server; HTTP status codes compared with the reference map, GET users and real handshakes compared after every request, the store file after shutdown; class = (mode, request kinds, status vector)")
	n := e.N(150, 6000)
	core.Parallel(e, "api", n, 8, func(i int) {
		r := core.NewRNG(e.Seed, "c08.api", i)
		rec.Begin("api", i, "")
		rec.Eval()
		apiCase(e, i, r)
	})
}

func apiCase(e *core.Env, ci int, r *core.RNG) {
	rec := e.Rec
	dir := filepath.Join(e.WorkDir, fmt.Sprintf("api-%d", ci))
	defer os.RemoveAll(dir)
	w, err := newWorld(e, r, dir, map[string]int{"alice": 0})
	if err != nil {
		core.Fatalf("world: %v", err)
	}
	stopped := false
	defer func() {
		if !stopped {
			w.stop()
		}
	}()
	oc, logs := observer.New(zapcore.InfoLevel)
	cfg := api.Config{Enabled: true, Listeners: []api.ListenerConfig{{Network: "tcp", Address: "127.0.0.1:0"}}}
	store, _ := (&tlscerts.Config{}).NewStore()
	col := stats.Config{Enabled: true}.Collector()
	srv, err := cfg.NewServer(zap.New(oc), conn.NewListenConfigCache(), store, map[string]ssm.Server{"srv": {CredentialManager: w.ms, StatsCollector: col}}, []string{"srv"})
	if err != nil {
		core.Fatalf("api server: %v", err)
	}
	ctx, cancel := context.WithCancel(context.Background())
	defer cancel()
	if err := srv.Start(ctx); err != nil {
		rec.Inconclusive("api start: " + err.Error())
		return
	}
	defer srv.Stop()
	ents := logs.FilterMessage("Started API server listener").All()
	if len(ents) != 1 {
		rec.Inconclusive("api listen address not logged")
		return
	}
	base := "http://" + ents[0].ContextMap()["listenAddress"].(string) + "/api/ssm/v1/servers/srv"
	tr := &http.Transport{}
	defer tr.CloseIdleConnections()
	hc := &http.Client{Transport: tr, Timeout: 30 * time.Second}
	do := func(method, path string, body any) (int, []byte) {
		var rd io.Reader
		if body != nil {
			b, _ := json.Marshal(body)
			rd = bytes.NewReader(b)
		}
		req, _ := http.NewRequest(method, base+path, rd)
		if body != nil {
			req.Header.Set("Content-Type", "application/json")
		}
		resp, err := hc.Do(req)
		if err != nil {
			return -1, []byte(err.Error())
		}
		defer resp.Body.Close()
		b, _ := io.ReadAll(resp.Body)
		return resp.StatusCode, b
	}
	m := &model{users: map[string]int{"alice": 0}}
	var hist []string
	viol := func(kind, format string, a ...any) {
		rec.Violate("api", ci, core.Sig("kind", kind, "part", "api", "mode", w.mode), map[string]any{"mode": w.mode, "history": hist}, format, a...)
	}
	kinds := map[string]bool{}
	statuses := ""
	L := r.Range(2, 10)
	for step := 0; step < L; step++ {
		name := names[r.Intn(3)]
		k := r.Pick(0, 1, 2, 3, 1, 0, -1)
		var code int
		var want []int
		op := r.PickStr("add", "add", "update", "update", "delete", "reload")
		kinds[op] = true
		switch op {
		case "add":
			code, _ = do("POST", "/users", map[string]any{"username": name, "uPSK": w.keyBytes(k)})
			_, exists := m.users[name]
			_, owned := m.owner(k)
			if k >= 0 && !exists && !owned {
				want = []int{201}
				if code == 201 {
					m.users[name] = k
				}
			} else {
				want = []int{400}
			}
		case "update":
			code, _ = do("PATCH", "/users/"+name, map[string]any{"uPSK": w.keyBytes(k)})
			cur, exists := m.users[name]
			owner, owned := m.owner(k)
			switch {
			case !exists && k >= 0:
				want = []int{404}
			case !exists:
				want = []int{404, 400} // wrong length for a missing user: either complaint is fine
			case k >= 0 && cur != k && (!owned || owner == name):
				want = []int{204}
				if code == 204 {
					m.users[name] = k
				}
			default:
				want = []int{400}
			}
		case "delete":
			code, _ = do("DELETE", "/users/"+name, nil)
			if _, exists := m.users[name]; exists {
				want = []int{204}
				if code == 204 {
					delete(m.users, name)
				}
			} else {
				want = []int{404}
			}
		case "reload":
			// the operator replaces the file, then asks for a reload. Pending saves are not waited for here (real clock):
			// a save racing with the edit may overwrite it, so the expected state is read back from the file right before the reload.
			nu := map[string][]byte{}
			perm := r.Perm(4)
			for x := 0; x < r.Intn(3); x++ {
				nu[names[x]] = w.keys[perm[x]]
			}
			writeStore(w.path, nu)
			var onDisk map[string][]byte
			b, _ := os.ReadFile(w.path)
			json.Unmarshal(b, &onDisk)
			code, _ = do("POST", "/reload-users", nil)
			want = []int{204}
			if code == 204 {
				// the file may have been rewritten by a pending save between our write and the reload; accept either content
				after := map[string]int{}
				for n2, kb := range onDisk {
					for ki, kk := range w.keys {
						if string(kk) == string(kb) {
							after[n2] = ki
						}
					}
				}
				api := w.apiView()
				refNew := map[string]string{}
				for n2, ki := range after {
					refNew[n2] = fmt.Sprintf("k%d", ki)
				}
				refOld := map[string]string{}
				for n2, ki := range m.users {
					refOld[n2] = fmt.Sprintf("k%d", ki)
				}
				switch fmtMap(api) {
				case fmtMap(refNew):
					m.users = after
				case fmtMap(refOld):
				default:
					hist = append(hist, fmt.Sprintf("%s -> %d", op, code))
					viol("api_differs_from_reference", "after reload the API lists {%s}; the file held {%s}, the previous state was {%s}", fmtMap(api), fmtMap(refNew), fmtMap(refOld))
					return
				}
			}
		}
		hist = append(hist, fmt.Sprintf("%s(%s,k%d) -> %d", op, name, k, code))
		statuses += fmt.Sprint(code/100)
		okCode := false
		for _, c := range want {
			if c == code {
				okCode = true
			}
		}
		if !okCode {
			kind := "op_result"
			if code/100 == 2 {
				kind = "op_wrongly_accepted"
			}
			viol(kind, "%s(%s,k%d) answered %d, reference expects %v; users before: %v", op, name, k, code, want, m.users)
			return
		}
		// GET users == reference, and the three views agree
		code2, body := do("GET", "/users", nil)
		var listing struct {
			Users []struct {
				Name string `json:"username"`
				UPSK []byte `json:"uPSK"`
			} `json:"users"`
		}
		if code2 != 200 || json.Unmarshal(body, &listing) != nil {
			viol("api_listing_failed", "GET users answered %d %s", code2, body)
			return
		}
		got := map[string]string{}
		for _, u := range listing.Users {
			got[u.Name] = keyName(w, u.UPSK)
		}
		ref := map[string]string{}
		for n2, ki := range m.users {
			ref[n2] = fmt.Sprintf("k%d", ki)
		}
		if fmtMap(got) != fmtMap(ref) {
			viol("api_differs_from_reference", "GET users lists {%s}, reference {%s}", fmtMap(got), fmtMap(ref))
			return
		}
		if kk, msg := w.compareViews(false); kk != "" {
			viol(kk, "after %s: %s", hist[len(hist)-1], msg)
			return
		}
	}
	// shutdown path saves what was acknowledged
	w.stop()
	stopped = true
	time.Sleep(0)
	if kk, msg := w.compareViews(true); kk != "" {
		viol(kk, "after shutdown: %s", msg)
		return
	}
	rec.Count("api_requests", int64(len(hist)))
	ks := ""
	for _, k := range core.SortedKeys(kinds) {
		ks += k + ","
	}
	rec.Class("mode=%s/kinds=%s/status=%s", w.mode, ks, statuses)
	if ci%50 == 0 {
		rec.Sample(6, map[string]any{"mode": w.mode, "history": hist})
	}
}
