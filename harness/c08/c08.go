// Package c08 monitors "users are identified by key; the accepted key set
// tracks credential changes": a real cred.Manager manages the CredStores of a
// real SS2022 TCP and UDP server; after every (sequence / interleaving of)
// add, update, delete and reload operations three views are compared — what
// the API lists, what real handshakes are accepted (and attributed to whom),
// and what the store file holds.
package c08

import (
	"context"
	"encoding/base64"
	"encoding/json"
	"fmt"
	"net/netip"
	"os"
	"path/filepath"
	"sort"
	"strings"
	"sync"
	"sync/atomic"
	"time"

	"github.com/anishathalye/porcupine"
	"github.com/database64128/shadowsocks-go/conn"
	"github.com/database64128/shadowsocks-go/cred"
	"github.com/database64128/shadowsocks-go/ss2022"
	"go.uber.org/zap"

	"verif/core"
	"verif/forge"
	"verif/netsim"
	"verif/ssx"
)

func init() {
	core.Register("C08", "sequential", runSequential)
	core.Register("C08", "concurrent", runConcurrent)
}

var names = []string{"alice", "bob", "carol", "dave"}

type world struct {
	e       *core.Env
	r       *core.RNG
	keySize int
	cfg     *ssx.Cfg
	keys    [][]byte // universe of well-formed keys
	tcp     *ss2022.StreamServer
	udp     *ss2022.UDPServer
	ms      *cred.ManagedServer
	mgr     *cred.Manager
	path    string
	cancel  context.CancelFunc
	mode    string // both | tcp | udp
}

func keyName(w *world, k []byte) string {
	for i, x := range w.keys {
		if string(x) == string(k) {
			return fmt.Sprintf("k%d", i)
		}
	}
	return "k?" + base64.StdEncoding.EncodeToString(k)
}

func writeStore(path string, m map[string][]byte) error {
	b, err := json.MarshalIndent(m, "", "    ")
	if err != nil {
		return err
	}
	return os.WriteFile(path, append(b, '\n'), 0o644)
}

func newWorld(e *core.Env, r *core.RNG, dir string, initial map[string]int) (*world, error) {
	w := &world{e: e, r: r, keySize: r.Pick(16, 32), mode: r.PickStr("both", "both", "tcp", "udp")}
	w.cfg = ssx.NewCfg(w.keySize, 0, "c08")
	w.cfg.Users = []ssx.User{{Name: "placeholder", PSK: forge.Key(w.keySize, "c08/placeholder")}} // multi-user mode; the manager replaces the map
	for i := 0; i < 4; i++ {
		w.keys = append(w.keys, forge.Key(w.keySize, fmt.Sprintf("c08/key%d", i)))
	}
	w.tcp = w.cfg.StreamServer()
	w.udp = w.cfg.UDPServer()
	os.MkdirAll(dir, 0o755)
	w.path = filepath.Join(dir, "users.json")
	init := map[string][]byte{}
	for n, k := range initial {
		init[n] = w.keys[k]
	}
	if err := writeStore(w.path, init); err != nil {
		return nil, err
	}
	w.mgr = cred.NewManager(zap.NewNop())
	var tcpStore, udpStore *ss2022.CredStore
	if w.mode != "udp" {
		tcpStore = &w.tcp.CredStore
	}
	if w.mode != "tcp" {
		udpStore = &w.udp.CredStore
	}
	ms, err := w.mgr.RegisterServer("srv", w.path, w.keySize, tcpStore, udpStore)
	if err != nil {
		return nil, err
	}
	w.ms = ms
	ctx, cancel := context.WithCancel(context.Background())
	w.cancel = cancel
	w.mgr.Start(ctx)
	return w, nil
}

func (w *world) stop() {
	w.cancel()
	w.mgr.Stop()
}

var probeTarget = conn.AddrFromIPAndPort(netip.MustParseAddr("203.0.113.8"), 443)

// liveTCP performs a real handshake with the given user key and returns (accepted, attributed user).
func (w *world) liveTCP(key []byte) (bool, string) {
	cc := w.cfg.ClientCipherForKey(key)
	fr := forge.TCPRequest{Client: cc, Salt: w.r.Bytes(w.keySize), Timestamp: time.Now(), Target: probeTarget, Payload: []byte("p"), Type: -1}
	b, _, err := fr.Bytes()
	if err != nil {
		core.Fatalf("forge: %v", err)
	}
	c, s := netsim.Pair(nil, nil, false)
	c.Write(b)
	c.CloseWrite()
	req, err := w.tcp.HandleStream(s, ssx.Nop)
	c.Close()
	s.Close()
	if err != nil {
		return false, ""
	}
	return true, req.Username
}

func (w *world) liveUDP(key []byte) (bool, string) {
	cc := w.cfg.ClientCipherForKey(key)
	p := forge.UDPClientPacket{Client: cc, SessionID: w.r.Uint64(), PacketID: 0, Timestamp: time.Now(), Target: probeTarget, Payload: []byte("p"), Type: -1}
	pkt, err := p.Bytes()
	if err != nil {
		core.Fatalf("forge: %v", err)
	}
	csid, err := w.udp.SessionInfo(pkt)
	if err != nil {
		return false, ""
	}
	up, user, err := w.udp.NewUnpacker(pkt, csid)
	if err != nil {
		return false, ""
	}
	if _, _, _, err := up.UnpackInPlace(pkt, netip.MustParseAddrPort("192.0.2.1:1"), 0, len(pkt)); err != nil {
		return false, ""
	}
	return true, user
}

// views returns api (name->key name), live (key name -> owner) per transport, file (name->key name).
func (w *world) apiView() map[string]string {
	m := map[string]string{}
	for _, uc := range w.ms.Credentials() {
		m[uc.Name] = keyName(w, uc.UPSK)
	}
	return m
}

func (w *world) liveView(udp bool) map[string]string {
	m := map[string]string{}
	for _, k := range w.keys {
		var ok bool
		var user string
		if udp {
			ok, user = w.liveUDP(k)
		} else {
			ok, user = w.liveTCP(k)
		}
		if ok {
			m[keyName(w, k)] = user
		}
	}
	// a key outside the universe must never be accepted
	foreign := forge.Key(w.keySize, "c08/foreign")
	var ok bool
	if udp {
		ok, _ = w.liveUDP(foreign)
	} else {
		ok, _ = w.liveTCP(foreign)
	}
	if ok {
		m["k-foreign"] = "?"
	}
	return m
}

func (w *world) fileView() (map[string]string, error) {
	b, err := os.ReadFile(w.path)
	if err != nil {
		return nil, err
	}
	var raw map[string][]byte
	if err := json.Unmarshal(b, &raw); err != nil {
		return nil, fmt.Errorf("store file does not parse: %w", err)
	}
	m := map[string]string{}
	for n, k := range raw {
		m[n] = keyName(w, k)
	}
	return m, nil
}

func fmtMap(m map[string]string) string {
	var ks []string
	for k := range m {
		ks = append(ks, k)
	}
	sort.Strings(ks)
	var sb strings.Builder
	for _, k := range ks {
		fmt.Fprintf(&sb, "%s=%s ", k, m[k])
	}
	return strings.TrimSpace(sb.String())
}

// compareViews checks the three-view equality. api: name->key; live: key->owner.
func (w *world) compareViews(checkFile bool) (string, string) {
	api := w.apiView()
	want := map[string]string{} // key -> owner according to the API listing
	dupOwner := ""
	for n, k := range api {
		if o, ok := want[k]; ok {
			dupOwner = fmt.Sprintf("key %s listed for both %s and %s", k, o, n)
		}
		want[k] = n
	}
	if dupOwner != "" {
		return "api_lists_shared_key", dupOwner + " (a key can be attributed to one user only) api: " + fmtMap(api)
	}
	for _, udp := range []bool{false, true} {
		if (udp && w.mode == "tcp") || (!udp && w.mode == "udp") {
			continue
		}
		live := w.liveView(udp)
		tr := "tcp"
		if udp {
			tr = "udp"
		}
		if fmtMap(live) != fmtMap(want) {
			kind := "live_differs_from_api"
			for k := range live {
				if _, ok := want[k]; !ok {
					kind = "removed_key_still_accepted"
				}
			}
			return kind, fmt.Sprintf("%s handshakes accept {%s} but the API lists {%s}", tr, fmtMap(live), fmtMap(api))
		}
	}
	if checkFile {
		file, err := w.fileView()
		if err != nil {
			return "file_unreadable", err.Error()
		}
		if fmtMap(file) != fmtMap(api) {
			return "file_differs_from_api", fmt.Sprintf("store file holds {%s} but the API lists {%s}", fmtMap(file), fmtMap(api))
		}
	}
	return "", ""
}

// ---- reference model of individual results ----

type model struct {
	users map[string]int // name -> key index
}

func (m *model) owner(k int) (string, bool) {
	for n, x := range m.users {
		if x == k {
			return n, true
		}
	}
	return "", false
}

type op struct {
	Kind string `json:"op"`
	Name string `json:"name,omitempty"`
	Key  int    `json:"key,omitempty"` // index; -1 = wrong length
	File string `json:"file,omitempty"`
	OK   bool   `json:"ok"`
	Err  string `json:"err,omitempty"`
}

func (w *world) keyBytes(k int) []byte {
	if k < 0 {
		return make([]byte, w.keySize-1)
	}
	return w.keys[k]
}

// apply runs one operation against the real manager and returns whether it succeeded.
func (w *world) apply(o *op, fileWant map[string]int) {
	var err error
	switch o.Kind {
	case "add":
		err = w.ms.AddCredential(o.Name, w.keyBytes(o.Key))
	case "update":
		err = w.ms.UpdateCredential(o.Name, w.keyBytes(o.Key))
	case "delete":
		err = w.ms.DeleteCredential(o.Name)
	case "reload":
		err = w.ms.LoadFromFile()
	case "reload-all":
		w.mgr.ReloadAll()
	}
	o.OK = err == nil
	if err != nil {
		o.Err = err.Error()
	}
}

func runSequential(e *core.Env) {
	rec := e.Rec
	rec.Rule("sequential: one case = history (<=14 ops) over {add, update, delete (incl. duplicate keys, same-key updates, wrong key length, empty / missing names), reload of an operator-edited file (valid, duplicate key, wrong length, garbage, restored earlier content), debounced save} on a real cred.Manager with TCP-only / UDP-only / both stores and both key sizes; after every op the API listing, real TCP and UDP handshakes for every key of the universe and (after the 5 s debounce) the store file are compared; class = (mode, op kinds seen, results, views checked)")
	n := e.N(700, 60000)
	core.Parallel(e, "sequential", n, 16, func(i int) {
		r := core.NewRNG(e.Seed, "c08.seq", i)
		rec.Begin("sequential", i, "")
		var hist []op
		dead := core.Bubble(e, func() { hist = sequentialCase(e, i, r) })
		if dead != "" {
			rec.Violate("sequential", i, core.Sig("kind", "deadlock", "part", "sequential"), hist, "bubble deadlock: %s", dead)
		}
		rec.Eval()
		if i%200 == 0 {
			rec.Sample(8, hist)
		}
	})
}

func sequentialCase(e *core.Env, ci int, r *core.RNG) (hist []op) {
	rec := e.Rec
	dir := filepath.Join(e.WorkDir, fmt.Sprintf("seq-%d", ci))
	defer os.RemoveAll(dir)
	initial := map[string]int{}
	for k := 0; k < r.Intn(3); k++ {
		initial[names[k]] = k
	}
	w, err := newWorld(e, r, dir, initial)
	if err != nil {
		core.Fatalf("world: %v", err)
	}
	defer w.stop()
	m := &model{users: map[string]int{}}
	for n, k := range initial {
		m.users[n] = k
	}
	viol := func(kind, format string, a ...any) {
		rec.Violate("sequential", ci, core.Sig("kind", kind, "part", "sequential", "mode", w.mode), map[string]any{"mode": w.mode, "keysize": w.keySize, "history": hist}, format, a...)
	}
	kinds := map[string]bool{}
	var savedContents [][]byte // earlier file contents (for "restore")
	L := r.Range(2, 14)
	for step := 0; step < L; step++ {
		o := op{}
		switch x := r.Intn(12); {
		case x < 3:
			o = op{Kind: "add", Name: names[r.Intn(len(names))], Key: r.Pick(0, 1, 2, 3, 0, 1, -1)}
			if r.Chance(1, 12) {
				o.Name = ""
			}
		case x < 6:
			o = op{Kind: "update", Name: names[r.Intn(len(names))], Key: r.Pick(0, 1, 2, 3, 0, 1, -1)}
		case x < 8:
			o = op{Kind: "delete", Name: names[r.Intn(len(names))]}
		case x < 9:
			o = op{Kind: "save-wait"}
		default:
			o = op{Kind: "reload", File: r.PickStr("unchanged", "valid", "valid", "dupkey", "badlen", "garbage", "restore")}
		}
		kinds[o.Kind+o.File] = true
		wantOK := true
		switch o.Kind {
		case "add":
			_, exists := m.users[o.Name]
			_, owned := m.owner(o.Key)
			wantOK = o.Name != "" && o.Key >= 0 && !exists && !owned
			w.apply(&o, nil)
			if o.OK {
				m.users[o.Name] = o.Key
			}
		case "update":
			cur, exists := m.users[o.Name]
			owner, owned := m.owner(o.Key)
			wantOK = exists && o.Key >= 0 && cur != o.Key && (!owned || owner == o.Name)
			w.apply(&o, nil)
			if o.OK {
				m.users[o.Name] = o.Key
			}
		case "delete":
			_, exists := m.users[o.Name]
			wantOK = exists
			w.apply(&o, nil)
			if o.OK {
				delete(m.users, o.Name)
			}
		case "save-wait":
			// let the debounce elapse, then the file must equal the API view
			time.Sleep(6 * time.Second)
			core.Wait()
			o.OK = true
			hist = append(hist, o)
			if k, msg := w.compareViews(true); k != "" {
				viol(k, "after the save debounce: %s", msg)
				return
			}
			if b, err := os.ReadFile(w.path); err == nil {
				savedContents = append(savedContents, b)
			}
			continue
		case "reload":
			// the operator edits the file first. Let any pending save finish so that it does not overwrite the edit.
			time.Sleep(6 * time.Second)
			core.Wait()
			if b, err := os.ReadFile(w.path); err == nil {
				savedContents = append(savedContents, b)
			}
			newUsers := map[string]int{}
			switch o.File {
			case "unchanged":
				newUsers = nil
			case "valid":
				perm := r.Perm(4)
				for k := 0; k < r.Intn(4); k++ {
					newUsers[names[r.Intn(len(names))]] = perm[k]
				}
				// names may repeat in the draw; keys are distinct by construction
				raw := map[string][]byte{}
				for n, k := range newUsers {
					raw[n] = w.keys[k]
				}
				writeStore(w.path, raw)
			case "dupkey":
				writeStore(w.path, map[string][]byte{"alice": w.keys[1], "bob": w.keys[1]})
				wantOK = false
			case "badlen":
				writeStore(w.path, map[string][]byte{"alice": w.keys[0][:w.keySize-1]})
				wantOK = false
			case "garbage":
				os.WriteFile(w.path, []byte("{\"alice\": 12"), 0o644)
				wantOK = false
			case "restore":
				if len(savedContents) == 0 {
					newUsers = nil
					break
				}
				b := savedContents[r.Intn(len(savedContents))]
				os.WriteFile(w.path, b, 0o644)
				var raw map[string][]byte
				json.Unmarshal(b, &raw)
				for n, k := range raw {
					for ki, kk := range w.keys {
						if string(kk) == string(k) {
							newUsers[n] = ki
						}
					}
				}
			}
			o.Kind = "reload"
			if r.Bool() {
				w.apply(&o, nil)
			} else {
				o.Kind = "reload-all"
				w.apply(&o, nil)
				o.OK = wantOK // ReloadAll only logs
			}
			if o.OK && wantOK && newUsers != nil {
				m.users = newUsers
			}
			if !wantOK {
				// a rejected file leaves everything as it was; put the previous content back so that later saves/reloads are well defined
				raw := map[string][]byte{}
				for n, k := range m.users {
					raw[n] = w.keys[k]
				}
				hist = append(hist, o)
				if o.OK {
					viol("bad_file_accepted", "reload accepted a %s store file", o.File)
					return
				}
				if k, msg := w.compareViews(false); k != "" {
					viol(k, "after a rejected reload (%s): %s", o.File, msg)
					return
				}
				writeStore(w.path, raw)
				if err := w.ms.LoadFromFile(); err != nil {
					viol("valid_file_rejected", "reload of a valid file failed: %v", err)
					return
				}
				continue
			}
		}
		hist = append(hist, o)
		if o.OK != wantOK {
			kind := "op_result"
			if o.OK && (o.Kind == "add" || o.Kind == "update") {
				if _, owned := m.owner(o.Key); owned || true {
					kind = "op_wrongly_accepted"
				}
			}
			viol(kind, "%s(%s, k%d) returned ok=%v (%s), reference says ok=%v; users before: %v", o.Kind, o.Name, o.Key, o.OK, o.Err, wantOK, m.users)
			return
		}
		// the reference and the API listing agree
		api := w.apiView()
		ref := map[string]string{}
		for n, k := range m.users {
			ref[n] = fmt.Sprintf("k%d", k)
		}
		if fmtMap(api) != fmtMap(ref) {
			viol("api_differs_from_reference", "API lists {%s}, reference {%s}", fmtMap(api), fmtMap(ref))
			return
		}
		if k, msg := w.compareViews(false); k != "" {
			viol(k, "after %s(%s,k%d): %s", o.Kind, o.Name, o.Key, msg)
			return
		}
	}
	// final: after the debounce the file equals the API view
	time.Sleep(6 * time.Second)
	core.Wait()
	if k, msg := w.compareViews(true); k != "" {
		viol(k, "at the end of the history: %s", msg)
		return
	}
	rec.Count("ops", int64(len(hist)))
	rec.Count("live_handshakes", int64(len(hist)*10))
	rec.Class("mode=%s/key=%d/kinds=%s", w.mode, w.keySize, strings.Join(core.SortedKeys(kinds), ","))
	return
}

// ---- concurrent histories ----

type cIn struct {
	Kind string
	Name string
	Key  int
}

func runConcurrent(e *core.Env) {
	rec := e.Rec
	rec.Rule("concurrent: one case = 2-4 goroutines issuing add/update/delete/reload on overlapping users and keys at once (race detector on); afterwards the three views must agree with each other, and the recorded API-level history (call/return stamped from one atomic counter) must be linearizable against the user-map model (porcupine); class = (goroutines, ops, distinct result vector)")
	n := e.N(300, 20000)
	mdl := porcupine.Model{
		Init: func() any { return "" },
		Step: func(st, in, out any) (bool, any) {
			users := decode(st.(string))
			i := in.(cIn)
			ok := out.(bool)
			switch i.Kind {
			case "add":
				_, exists := users[i.Name]
				owned := false
				for _, k := range users {
					if k == i.Key {
						owned = true
					}
				}
				want := !exists && !owned
				if ok != want {
					return false, st
				}
				if ok {
					users[i.Name] = i.Key
				}
			case "update":
				cur, exists := users[i.Name]
				owned := false
				for n, k := range users {
					if k == i.Key && n != i.Name {
						owned = true
					}
				}
				want := exists && cur != i.Key && !owned
				if ok != want {
					return false, st
				}
				if ok {
					users[i.Name] = i.Key
				}
			case "delete":
				_, exists := users[i.Name]
				if ok != exists {
					return false, st
				}
				delete(users, i.Name)
			}
			return true, encode(users)
		},
		DescribeOperation: func(in, out any) string {
			i := in.(cIn)
			return fmt.Sprintf("%s(%s,k%d)=%v", i.Kind, i.Name, i.Key, out)
		},
	}
	core.Parallel(e, "concurrent", n, 8, func(i int) {
		r := core.NewRNG(e.Seed, "c08.conc", i)
		rec.Begin("concurrent", i, "")
		dead := core.Bubble(e, func() { concurrentCase(e, i, r, mdl) })
		if dead != "" {
			rec.Violate("concurrent", i, core.Sig("kind", "deadlock", "part", "concurrent"), nil, "bubble deadlock: %s", dead)
		}
		rec.Eval()
	})
}

func encode(m map[string]int) string {
	var ks []string
	for k := range m {
		ks = append(ks, k)
	}
	sort.Strings(ks)
	var sb strings.Builder
	for _, k := range ks {
		fmt.Fprintf(&sb, "%s=%d;", k, m[k])
	}
	return sb.String()
}

func decode(s string) map[string]int {
	m := map[string]int{}
	for _, p := range strings.Split(s, ";") {
		if p == "" {
			continue
		}
		kv := strings.SplitN(p, "=", 2)
		var v int
		fmt.Sscan(kv[1], &v)
		m[kv[0]] = v
	}
	return m
}

func concurrentCase(e *core.Env, ci int, r *core.RNG, mdl porcupine.Model) {
	rec := e.Rec
	dir := filepath.Join(e.WorkDir, fmt.Sprintf("conc-%d", ci))
	defer os.RemoveAll(dir)
	w, err := newWorld(e, r, dir, map[string]int{})
	if err != nil {
		core.Fatalf("world: %v", err)
	}
	defer w.stop()
	g := r.Range(2, 4)
	per := r.Range(1, 4)
	plans := make([][]cIn, g)
	nu := r.Range(1, 2) // few users => conflicts
	withReload := r.Chance(1, 3)
	for j := range plans {
		for k := 0; k < per; k++ {
			in := cIn{Kind: r.PickStr("add", "add", "update", "delete"), Name: names[r.Intn(nu)], Key: r.Intn(3)}
			plans[j] = append(plans[j], in)
		}
	}
	var clock atomic.Int64
	ops := make([][]porcupine.Operation, g)
	gate := make(chan struct{})
	var wg sync.WaitGroup
	for j := 0; j < g; j++ {
		wg.Add(1)
		go func(j int) {
			defer wg.Done()
			<-gate
			for _, in := range plans[j] {
				call := clock.Add(1)
				var err error
				switch in.Kind {
				case "add":
					err = w.ms.AddCredential(in.Name, w.keys[in.Key])
				case "update":
					err = w.ms.UpdateCredential(in.Name, w.keys[in.Key])
				case "delete":
					err = w.ms.DeleteCredential(in.Name)
				}
				ret := clock.Add(1)
				ops[j] = append(ops[j], porcupine.Operation{ClientId: j, Input: in, Call: call, Output: err == nil, Return: ret})
			}
		}(j)
	}
	if withReload {
		wg.Add(1)
		go func() {
			defer wg.Done()
			<-gate
			// reload of the unchanged (initial, empty) file content is a no-op by design; reload racing with API changes
			// must still leave the views consistent
			w.ms.LoadFromFile()
		}()
	}
	close(gate)
	wg.Wait()
	var all []porcupine.Operation
	var desc []string
	results := ""
	for _, o := range ops {
		all = append(all, o...)
	}
	sort.Slice(all, func(a, b int) bool { return all[a].Call < all[b].Call })
	for _, o := range all {
		desc = append(desc, fmt.Sprintf("g%d [%d,%d] %s", o.ClientId, o.Call, o.Return, mdl.DescribeOperation(o.Input, o.Output)))
		if o.Output.(bool) {
			results += "1"
		} else {
			results += "0"
		}
	}
	detail := map[string]any{"mode": w.mode, "history": desc, "reload": withReload}
	rec.Count("concurrent_ops", int64(len(all)))
	time.Sleep(6 * time.Second)
	core.Wait()
	if k, msg := w.compareViews(true); k != "" {
		rec.Violate("concurrent", ci, core.Sig("kind", k, "part", "concurrent", "mode", w.mode), detail, "after concurrent operations and the save debounce: %s", msg)
		return
	}
	if !withReload {
		res, _ := porcupine.CheckOperationsVerbose(mdl, all, 20*time.Second)
		switch res {
		case porcupine.Illegal:
			rec.Violate("concurrent", ci, core.Sig("kind", "not_linearizable", "part", "concurrent"), detail, "API history of %d operations is not linearizable against the user-map model", len(all))
			return
		case porcupine.Unknown:
			rec.Inconclusive("porcupine-timeout")
			return
		}
	}
	rec.Class("g=%d/ops=%d/results=%s/reload=%v", g, len(all), results, withReload)
	if ci%200 == 0 {
		rec.Sample(8, detail)
	}
}
