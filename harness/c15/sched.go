package c15

import (
	"fmt"
	"hash/fnv"
	"runtime"
	"runtime/debug"
	"sort"
	"strings"
	"sync"
	"sync/atomic"
	"time"

	"github.com/database64128/shadowsocks-go/netio"

	"verif/core"
)

type opKind uint8

const (
	kWrite opKind = iota
	kRead
	kWriteTo
	kCloseWrite
	kCloseRead
	kClose
	kSetDL
	kSetRDL
	kSetWDL
)

func (k opKind) String() string {
	return [...]string{"Write", "Read", "WriteTo", "CloseWrite", "CloseRead", "Close", "SetDeadline", "SetReadDeadline", "SetWriteDeadline"}[k]
}

type dlKind uint8

const (
	dlNone dlKind = iota
	dlPast
	dlFuture
	dlZero
)

func (k dlKind) String() string { return [...]string{"", "past", "future", "zero"}[k] }

// step is one scripted operation of a worker.
type step struct {
	Kind  opKind
	N     int           // Write: length; Read: buffer size; WriteTo: sink budget (-1 = unlimited)
	DL    dlKind        // Set*Deadline: which kind of time
	D     time.Duration // dlFuture: now+D; dlPast: now-D (0 = exactly now)
	Sleep time.Duration // virtual sleep before the operation
	Yield int           // runtime.Gosched() calls before the operation
}

// script is what one goroutine of one end does.
type script struct {
	End    int
	Drain  int // 0 = scripted steps; 1 = Read loop; 2 = WriteTo loop (never sleeps, re-zeroes an expired read deadline)
	CanW   bool
	CanR   bool
	Closer bool
	Bufs   []int
	Steps  []step
}

// shape is the generated structure of a history (see package comment).
type shape struct {
	Workers [2]int
	Contend [2]bool // per direction (index = writing end)
	Single  [2]bool // per direction: exactly one goroutine of the reading end reads
	Base    int     // the "write size"; buffers are 0..3x
	NoClose bool
	NoDL    bool
	NoSleep bool
}

func (s shape) dirString(d int) string {
	a, b := "starve", "multi-reader"
	if s.Contend[d] {
		a = "contend"
	}
	if s.Single[d] {
		b = "one-reader"
	}
	return a + "+" + b
}

// chunk is one Write call received by the recording writer of a WriteTo.
type chunk struct {
	Lo, Hi int64 // the hand-off happened between these two stamps
	Data   []byte
}

// ev is one call at the API boundary. Call/Ret are values of the history's one
// atomic logical counter: Call is taken before the call is made and Ret after
// it returned, so a.Ret < b.Call proves that a returned before b was called
// (the only ordering the oracle ever relies on). CallVT/RetVT are virtual ns.
type ev struct {
	W      int // worker (global index; -1 = the root's final Close)
	Idx    int // index among the worker's operations
	End    int
	Kind   opKind
	Arg    int
	DL     dlKind
	DAbs   int64 // deadline value in virtual ns since the start of the history (dlFuture, dlPast)
	ID     int   // Write: id carried by the bytes
	Drain  bool
	Call   int64
	Ret    int64 // 0 = never returned
	CallVT int64
	RetVT  int64
	N      int64
	Err    errKind
	ErrTxt string
	Data   []byte  // Read: bytes received
	Chunks []chunk // WriteTo: what the recording writer saw
	SinkEr bool    // WriteTo: the recording writer returned its error
}

type hist struct {
	ends  [2]*netio.PipeConn
	stamp atomic.Int64
	start time.Time

	mu       sync.Mutex // guards everything below (also each ev after publication)
	evs      []*ev
	nextID   int
	panics   []string
	quiesceS int64 // stamp at the quiescent point before the final Closes
	closed   bool  // both final Closes returned
	done     bool  // all workers returned
}

func (h *hist) vt() int64 { return int64(time.Since(h.start)) }

// sink is the recording writer handed to WriteTo.
type sink struct {
	h      *hist
	e      *ev
	budget int // -1 = unlimited
	lastLo int64
}

func (s *sink) Write(b []byte) (int, error) {
	hi := s.h.stamp.Add(1)
	n := len(b)
	var err error
	if s.budget >= 0 {
		if n > s.budget {
			n, err = s.budget, errSink
		}
		s.budget -= n
	}
	d := append([]byte(nil), b[:n]...)
	lo := s.h.stamp.Add(1)
	s.h.mu.Lock()
	s.e.Chunks = append(s.e.Chunks, chunk{Lo: s.lastLo, Hi: hi, Data: d})
	if err != nil {
		s.e.SinkEr = true
	}
	s.h.mu.Unlock()
	s.lastLo = lo
	return n, err
}

// exec performs one operation and records it.
func (h *hist) exec(w, idx, end int, st step, drain bool) *ev {
	p := h.ends[end]
	e := &ev{W: w, Idx: idx, End: end, Kind: st.Kind, Arg: st.N, DL: st.DL, Drain: drain}
	var buf []byte
	var sk *sink
	var dl time.Time
	switch st.Kind {
	case kWrite:
		h.mu.Lock()
		h.nextID++
		e.ID = h.nextID
		h.mu.Unlock()
		buf = payload(e.ID, st.N)
	case kRead:
		buf = make([]byte, st.N)
	case kWriteTo:
		sk = &sink{h: h, e: e, budget: st.N}
	case kSetDL, kSetRDL, kSetWDL:
		switch st.DL {
		case dlPast:
			dl = time.Now().Add(-st.D)
			e.DAbs = int64(dl.Sub(h.start))
		case dlFuture:
			dl = time.Now().Add(st.D)
			e.DAbs = int64(dl.Sub(h.start))
		}
	}
	e.CallVT = h.vt()
	e.Call = h.stamp.Add(1)
	if sk != nil {
		sk.lastLo = e.Call
	}
	h.mu.Lock()
	h.evs = append(h.evs, e)
	h.mu.Unlock()

	var n int64
	var err error
	switch st.Kind {
	case kWrite:
		var k int
		k, err = p.Write(buf)
		n = int64(k)
	case kRead:
		var k int
		k, err = p.Read(buf)
		n = int64(k)
	case kWriteTo:
		n, err = p.WriteTo(sk)
	case kCloseWrite:
		err = p.CloseWrite()
	case kCloseRead:
		err = p.CloseRead()
	case kClose:
		err = p.Close()
	case kSetDL:
		err = p.SetDeadline(dl)
	case kSetRDL:
		err = p.SetReadDeadline(dl)
	case kSetWDL:
		err = p.SetWriteDeadline(dl)
	}
	ret := h.stamp.Add(1)
	rvt := h.vt()

	h.mu.Lock()
	e.Ret, e.RetVT, e.N, e.Err = ret, rvt, n, classify(err)
	if err != nil {
		e.ErrTxt = err.Error()
	}
	if st.Kind == kRead && n > 0 && int(n) <= len(buf) {
		e.Data = buf[:n]
	}
	h.mu.Unlock()
	return e
}

func (h *hist) runWorker(w int, sc *script) {
	defer func() {
		if p := recover(); p != nil {
			st := string(debug.Stack())
			h.mu.Lock()
			h.panics = append(h.panics, fmt.Sprintf("%v\n%s", p, st))
			h.mu.Unlock()
		}
	}()
	if sc.Drain != 0 {
		// The drainer keeps its direction moving without ever needing the clock:
		// it stops only when the direction is closed, and when somebody expires
		// its read deadline it zeroes the deadline again (a recorded operation
		// like any other). The iteration cap only matters on a broken pipe.
		idx := 0
		for it := 0; it < 3000; it++ {
			var e *ev
			if sc.Drain == 2 {
				e = h.exec(w, idx, sc.End, step{Kind: kWriteTo, N: -1}, true)
			} else {
				e = h.exec(w, idx, sc.End, step{Kind: kRead, N: sc.Bufs[it%len(sc.Bufs)]}, true)
			}
			idx++
			switch e.Err {
			case eNil:
				if sc.Drain == 2 {
					return
				}
			case eTimeout:
				h.exec(w, idx, sc.End, step{Kind: kSetRDL, DL: dlZero}, true)
				idx++
			default:
				return
			}
		}
		return
	}
	for i, st := range sc.Steps {
		if st.Sleep > 0 {
			time.Sleep(st.Sleep)
		}
		for y := 0; y < st.Yield; y++ {
			runtime.Gosched()
		}
		h.exec(w, i, sc.End, st, false)
	}
}

const tEnd = 500 * time.Millisecond // virtual; longer than any script's sleeps plus any deadline

// run executes the history inside the caller's bubble.
func (h *hist) run(scripts []*script, firstClose int) {
	h.start = time.Now()
	pl, pr := netio.NewPipe()
	h.ends = [2]*netio.PipeConn{pl, pr}
	var wg sync.WaitGroup
	for w, sc := range scripts {
		wg.Add(1)
		go func() {
			defer wg.Done()
			h.runWorker(w, sc)
		}()
	}
	// Let every script run until it is finished or blocked for good, then close
	// both ends: after that nothing may stay blocked.
	time.Sleep(tEnd)
	core.Wait()
	q := h.stamp.Load()
	h.mu.Lock()
	h.quiesceS = q
	h.mu.Unlock()
	h.exec(-1, 0, firstClose, step{Kind: kClose}, false)
	h.exec(-1, 1, 1-firstClose, step{Kind: kClose}, false)
	h.mu.Lock()
	h.closed = true
	h.mu.Unlock()
	wg.Wait()
	h.mu.Lock()
	h.done = true
	h.mu.Unlock()
}

// ---- generation -----------------------------------------------------------

func genHistory(r *core.RNG) (shape, []*script, int) {
	var sh shape
	sh.Base = r.Pick(1, 2, 3, 4, 8, 8, 16, 16)
	sh.NoClose = r.Chance(1, 3)
	sh.NoDL = r.Chance(1, 4)
	sh.NoSleep = r.Chance(1, 5)
	for d := 0; d < 2; d++ {
		sh.Contend[d] = r.Bool()
		sh.Single[d] = r.Bool()
	}
	var scripts []*script
	writes := 0
	for end := 0; end < 2; end++ {
		k := r.Range(2, 4)
		drainer := sh.Contend[1-end] // this end reads direction 1-end
		g := k
		if drainer {
			g--
		}
		if sh.Contend[end] && g < 2 {
			k += 2 - g
			g = 2
		}
		sh.Workers[end] = k
		// which general workers may write / read
		canW := make([]bool, g)
		canR := make([]bool, g)
		p := r.Perm(g)
		nw := 1
		if sh.Contend[end] {
			nw = r.Range(2, g)
		} else if r.Chance(1, 8) {
			nw = 0
		}
		for i := 0; i < nw; i++ {
			canW[p[i]] = true
		}
		p = r.Perm(g)
		nr := 0
		switch {
		case drainer && sh.Single[1-end]:
			nr = 0
		case drainer:
			nr = r.Range(1, g)
		case sh.Single[1-end]:
			nr = 1
		default:
			nr = r.Range(min(2, g), g)
		}
		for i := 0; i < nr; i++ {
			canR[p[i]] = true
		}
		if drainer {
			// Mostly a Read loop with buffers smaller than the writes, so that one write
			// needs several hand-offs while other goroutines are writing too.
			sc := &script{End: end, Drain: 1, CanR: true}
			if r.Chance(1, 4) {
				sc.Drain = 2
			}
			nb := r.Range(1, 4)
			for i := 0; i < nb; i++ {
				if r.Chance(2, 3) {
					sc.Bufs = append(sc.Bufs, r.Range(1, max(1, sh.Base/2)))
				} else {
					sc.Bufs = append(sc.Bufs, r.Range(1, 3*sh.Base))
				}
			}
			scripts = append(scripts, sc)
		}
		for i := 0; i < g; i++ {
			// only some goroutines close, so that most histories move data for a while
			sc := &script{End: end, CanW: canW[i], CanR: canR[i], Closer: r.Chance(1, 3)}
			L := r.Range(3, 9)
			for pos := 0; pos < L; pos++ {
				st := genStep(r, &sh, sc, pos, L, writes < maxWriteIDs-3)
				if st.Kind == kWrite {
					writes++
				}
				sc.Steps = append(sc.Steps, st)
			}
			scripts = append(scripts, sc)
		}
	}
	// shuffle so that goroutine start order is not tied to the end
	p := r.Perm(len(scripts))
	out := make([]*script, len(scripts))
	for i, j := range p {
		out[i] = scripts[j]
	}
	return sh, out, r.Intn(2)
}

func genStep(r *core.RNG, sh *shape, sc *script, pos, L int, writesLeft bool) step {
	var st step
	contender := sc.CanW && sh.Contend[sc.End] // writes back to back more often than not
	if !sh.NoSleep && ((!contender && r.Bool()) || (contender && r.Chance(1, 4))) {
		st.Sleep = time.Duration(r.Pick(1, 1, 2, 3, 5, 8)) * time.Millisecond
	} else {
		st.Yield = r.Intn(3)
	}
	type wk struct {
		k opKind
		w int
	}
	var ws []wk
	if sc.CanW && writesLeft {
		if contender {
			ws = append(ws, wk{kWrite, 25})
		} else {
			ws = append(ws, wk{kWrite, 10})
		}
	}
	if sc.CanR {
		ws = append(ws, wk{kRead, 9}, wk{kWriteTo, 2})
	}
	if !sh.NoClose && sc.Closer {
		c := 1 + 3*pos/L // closes come late more often than early
		ws = append(ws, wk{kCloseWrite, c}, wk{kCloseRead, c}, wk{kClose, (c + 1) / 2})
	}
	if !sh.NoDL {
		ws = append(ws, wk{kSetDL, 2}, wk{kSetRDL, 4}, wk{kSetWDL, 4})
	}
	if len(ws) == 0 {
		// a goroutine with nothing to do in this shape just pokes a deadline to zero
		st.Kind, st.DL = kSetRDL, dlZero
		return st
	}
	tot := 0
	for _, x := range ws {
		tot += x.w
	}
	v := r.Intn(tot)
	for _, x := range ws {
		if v < x.w {
			st.Kind = x.k
			break
		}
		v -= x.w
	}
	S := sh.Base
	switch st.Kind {
	case kWrite:
		switch {
		case r.Chance(1, 12):
			st.N = 0
		case r.Bool():
			st.N = S
		default:
			st.N = r.Range(1, S)
		}
	case kRead:
		switch {
		case r.Chance(1, 12):
			st.N = 0
		case r.Chance(1, 3):
			st.N = r.Range(1, max(1, S/2))
		default:
			st.N = r.Range(1, 3*S)
		}
	case kWriteTo:
		st.N = -1
		if r.Bool() {
			st.N = r.Range(0, 2*S)
		}
	case kSetDL, kSetRDL, kSetWDL:
		switch v := r.Intn(10); {
		case v < 3:
			st.DL = dlPast
			st.D = []time.Duration{0, 1, time.Second}[r.Intn(3)]
		case v < 7:
			st.DL = dlFuture
			st.D = time.Duration(r.Pick(1, 2, 3, 5, 8, 13, 20)) * time.Millisecond
		default:
			st.DL = dlZero
		}
	}
	return st
}

// ---- the part --------------------------------------------------------------

const (
	stallAfter = 40 * time.Second // wall time without a single call or return in a history
	maxStalls  = 4
)

var stalls atomic.Int64

// runGuarded runs f (one bubble) and gives up when the history's logical
// counter has not moved for stallAfter of wall time. Wall time is used only to
// notice that the bubble will never finish, never to decide a rule.
func runGuarded(h *hist, f func()) bool {
	done := make(chan struct{})
	go func() {
		defer close(done)
		f()
	}()
	tick := time.NewTicker(time.Second)
	defer tick.Stop()
	last, idle := int64(-1), time.Duration(0)
	for {
		select {
		case <-done:
			return true
		case <-tick.C:
			if s := h.stamp.Load(); s != last {
				last, idle = s, 0
			} else if idle += time.Second; idle >= stallAfter {
				return false
			}
		}
	}
}

// stuckPair finds a pending Write and a pending Read/WriteTo of one direction.
func stuckPair(evs []*ev) (w, r *ev) {
	for _, a := range evs {
		if a.Kind != kWrite || a.Ret != 0 {
			continue
		}
		for _, b := range evs {
			if (b.Kind == kRead || b.Kind == kWriteTo) && b.Ret == 0 && b.End == 1-a.End {
				return a, b
			}
		}
	}
	return nil, nil
}

func runSchedules(e *core.Env) {
	rec := e.Rec
	rec.Rule("schedules: one case = one netio.NewPipe() with 2-4 goroutines per end running seeded scripts of {Write(n), Read(m), WriteTo(recording writer, optionally with a byte budget), CloseWrite, CloseRead, Close, Set{,Read,Write}Deadline(past|now+d|zero)} separated by virtual sleeps or yields, m in 0..3x the write size; each direction is either 'starve' (one writing goroutine, sleepy finite readers) or 'contend' (2-4 concurrently writing goroutines and a never-sleeping drainer), with one or several reading goroutines; every history ends with Close on both ends. Classes: shape:* = generated structure that ran to completion, ev:* = behaviour actually observed in the recorded history, order:* = distinct orders of return events seen when the same script is run three times (sampled cases)")
	n := e.N(5000, 100000)
	var ordersMu sync.Mutex
	orders := map[uint64]struct{}{}
	core.Parallel(e, "schedules", n, 16, func(i int) {
		reps := 1
		if i%25 == 0 {
			reps = 3 // same script three times: do the schedules differ?
		}
		for rep := 0; rep < reps; rep++ {
			r := core.NewRNG(e.Seed, "c15.sched", i)
			sh, scripts, first := genHistory(r)
			if rep == 0 {
				rec.Begin("schedules", i, fmt.Sprintf("workers=%v LR=%s RL=%s base=%d", sh.Workers, sh.dirString(0), sh.dirString(1), sh.Base))
			}
			h := &hist{}
			var dead string
			if stalls.Load() >= maxStalls {
				// the process already holds leaked, stalled bubbles: do not pile up more
				rec.Inconclusive("skipped-after-stalls")
				return
			}
			finished := runGuarded(h, func() {
				dead = core.Bubble(e, func() { h.run(scripts, first) })
			})
			rec.Eval()
			if !finished {
				// Real-time stall: nothing in the bubble runs any more, but some goroutine
				// waits on a mutex (not "durably blocked"), so synctest can neither advance
				// the clock nor report the deadlock itself. Decide what can be decided from
				// the calls that are pending.
				stalls.Add(1)
				h.mu.Lock()
				closed := h.closed
				evs := snapshot(h.evs)
				h.mu.Unlock()
				det := map[string]any{"shape": sh, "pending": pendingOps(evs), "history": render(evs)}
				if closed {
					rec.Violate("schedules", i, core.Sig("kind", "deadlock", "part", "schedules", "how", "stalled-after-both-closed"), det,
						"goroutines still blocked after both ends were closed: %v", pendingOps(evs))
				} else if w, rd := stuckPair(evs); w != nil {
					// a Write and a Read/WriteTo of the same direction both blocked for good
					rec.Violate("schedules", i, core.Sig("kind", "deadlock", "part", "schedules", "how", "stalled-writer-and-reader-of-one-direction"), det,
						"%s and %s are both blocked and nothing runs any more (no call or return for %s of wall time)", opName(w), opName(rd), stallAfter)
				} else if nw, holder := lockWaiters(h); nw > 0 && !holder {
					// structural: goroutines of THIS pipe wait in sync.Mutex.Lock inside PipeConn.write, and no goroutine
					// is inside the section that mutex protects - whoever took it has returned without releasing it,
					// and nothing that is still alive can ever release it
					rec.Violate("schedules", i, core.Sig("kind", "deadlock", "part", "schedules", "how", "write-lock-held-by-nobody"), det,
						"%d Write call(s) wait for the pipe's write lock, which no live goroutine holds: %v", nw, pendingOps(evs))
				} else {
					rec.Inconclusive("stalled")
				}
				return
			}
			h.mu.Lock()
			evs := snapshot(h.evs)
			panics := append([]string(nil), h.panics...)
			q := h.quiesceS
			h.mu.Unlock()
			for _, p := range panics {
				rec.Violate("schedules", i, core.Sig("kind", "panic", "part", "schedules", "where", core.PanicSite(p)),
					map[string]any{"shape": sh, "panic": p, "history": render(evs)}, "panic in a pipe call: %.200s", p)
			}
			if dead != "" {
				rec.Violate("schedules", i, core.Sig("kind", "deadlock", "part", "schedules", "how", "synctest"),
					map[string]any{"shape": sh, "pending": pendingOps(evs), "history": render(evs)},
					"%s; pending: %v", dead, pendingOps(evs))
				continue
			}
			o := newOracle(sh, evs, q)
			o.check()
			for _, v := range o.viol {
				rec.Violate("schedules", i, core.Sig("kind", v.kind, "part", "schedules", "op", v.op),
					map[string]any{"shape": sh, "history": render(evs)}, "%s", v.text)
			}
			if len(panics) > 0 || len(o.viol) > 0 {
				continue
			}
			// evidence
			rec.Class("shape:L%d/R%d L->R=%s R->L=%s", sh.Workers[0], sh.Workers[1], sh.dirString(0), sh.dirString(1))
			for _, b := range core.SortedKeys(o.beh) {
				rec.Class("ev:%s", b)
			}
			oh := orderHash(evs)
			ordersMu.Lock()
			orders[oh] = struct{}{}
			ordersMu.Unlock()
			if reps > 1 && i%250 == 0 && i < 5000 {
				rec.Class("order:case%d:%016x", i, oh)
			}
			rec.Count("operations", int64(len(evs)))
			rec.Count("bytes_transferred", o.bytes)
			rec.Count("transfers", o.ntransfers)
			rec.Count("pairs_decided", o.decided)
			rec.Count("pairs_dontcare_overlap", o.dontcare)
			if i%700 == 0 && rep == 0 {
				rec.Sample(6, map[string]any{"case": i, "shape": sh, "history": render(evs)})
			}
		}
	})
	rec.Count("distinct_return_orders", int64(len(orders)))
}

func snapshot(evs []*ev) []*ev {
	out := make([]*ev, len(evs))
	for i, e := range evs {
		c := *e
		c.Chunks = append([]chunk(nil), e.Chunks...)
		out[i] = &c
	}
	sort.SliceStable(out, func(a, b int) bool { return out[a].Call < out[b].Call })
	return out
}

func pendingOps(evs []*ev) []string {
	var out []string
	for _, e := range evs {
		if e.Ret == 0 {
			out = append(out, opName(e))
		}
	}
	return out
}

func opName(e *ev) string {
	end := "LR"[e.End : e.End+1]
	who := fmt.Sprintf("%s.g%d", end, e.W)
	if e.W < 0 {
		who = end + ".root"
	}
	arg := ""
	switch e.Kind {
	case kWrite:
		arg = fmt.Sprintf("(%d bytes, id %d)", e.Arg, e.ID)
	case kRead:
		arg = fmt.Sprintf("(buf %d)", e.Arg)
	case kWriteTo:
		if e.Arg >= 0 {
			arg = fmt.Sprintf("(sink budget %d)", e.Arg)
		} else {
			arg = "(sink)"
		}
	case kSetDL, kSetRDL, kSetWDL:
		switch e.DL {
		case dlZero:
			arg = "(zero)"
		default:
			arg = fmt.Sprintf("(%s %s)", e.DL, time.Duration(e.DAbs))
		}
	}
	if e.Drain {
		who += "(drainer)"
	}
	return who + " " + e.Kind.String() + arg
}

// render prints a history for witnesses and samples: one line per call, in call order.
func render(evs []*ev) []string {
	out := make([]string, 0, len(evs))
	for _, e := range evs {
		s := fmt.Sprintf("call@%d/%s %s", e.Call, time.Duration(e.CallVT), opName(e))
		if e.Ret == 0 {
			s += " -> NEVER RETURNED"
		} else {
			s += fmt.Sprintf(" -> ret@%d/%s n=%d err=%s", e.Ret, time.Duration(e.RetVT), e.N, e.Err)
			if e.Err == eOther {
				s += "(" + e.ErrTxt + ")"
			}
		}
		if e.Kind == kRead && len(e.Data) > 0 {
			s += " got=" + runsString(e.Data)
		}
		for _, c := range e.Chunks {
			if len(c.Data) > 0 {
				s += fmt.Sprintf(" chunk[%d..%d]=%s", c.Lo, c.Hi, runsString(c.Data))
			}
		}
		out = append(out, s)
	}
	return out
}

// runsString abbreviates received bytes as id x count runs.
func runsString(b []byte) string {
	s := ""
	for i := 0; i < len(b); {
		j := i
		for j < len(b) && b[j]>>2 == b[i]>>2 {
			j++
		}
		s += fmt.Sprintf("[id%d x%d]", b[i]>>2, j-i)
		i = j
	}
	return s
}

// orderHash identifies the interleaving by the order in which the calls returned.
func orderHash(evs []*ev) uint64 {
	r := make([]*ev, 0, len(evs))
	for _, e := range evs {
		if e.Ret != 0 {
			r = append(r, e)
		}
	}
	sort.Slice(r, func(a, b int) bool { return r[a].Ret < r[b].Ret })
	h := fnv.New64a()
	for _, e := range r {
		fmt.Fprintf(h, "%d.%d.%d.%d.%s;", e.W, e.Idx, e.Kind, e.N, e.Err)
	}
	return h.Sum64()
}

// lockWaiters inspects the stacks of all goroutines: how many are parked in sync.Mutex.Lock called from
// (*PipeConn).write of one of h's two ends, and is any goroutine inside write of the same end beyond the Lock call
// (the lock's holder)? The receiver pointer printed in the traceback tells the pipes of concurrent cases apart.
func lockWaiters(h *hist) (waiters int, holder bool) {
	buf := make([]byte, 8<<20)
	buf = buf[:runtime.Stack(buf, true)]
	ptr := [2]string{fmt.Sprintf("(%p", h.ends[0]), fmt.Sprintf("(%p", h.ends[1])}
	waitEnd := [2]int{}
	holdEnd := [2]bool{}
	for _, g := range strings.Split(string(buf), "\n\n") {
		for e := 0; e < 2; e++ {
			if !strings.Contains(g, "netio.(*PipeConn).write"+ptr[e]) {
				continue
			}
			if strings.Contains(g, "sync.(*Mutex).Lock") {
				waitEnd[e]++
			} else {
				holdEnd[e] = true
			}
		}
	}
	for e := 0; e < 2; e++ {
		if waitEnd[e] > 0 && !holdEnd[e] {
			return waitEnd[e], false
		}
	}
	return waitEnd[0] + waitEnd[1], true
}
