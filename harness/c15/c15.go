// Package c15 checks property C15: netio.NewPipe() is a faithful duplex
// stream with half-close and deadlines, for every schedule of calls issued
// from several goroutines per end.
//
// Parts (both race flavour, both inside testing/synctest bubbles):
//
//	schedules   seeded concurrent histories, decided by a history oracle (oracle.go)
//	sequential  one writer / one reader lock-step scripts with exact expectations (seq.go)
//
// A fact about the toolchain that shapes the workload: a goroutine waiting on a
// sync.Mutex is NOT "durably blocked" for synctest, and PipeConn.Write queues
// concurrent writers on such a mutex for as long as the first writer waits for
// a reader. While that lasts the fake clock cannot advance and synctest.Wait
// cannot return, so a schedule in which a queued writer's progress depends on
// virtual time hangs in real time (it is a hang of the tool, not of the pipe).
// The generator therefore gives every direction one of two shapes:
//
//	starve   at most one goroutine of the writing end issues Write (nothing
//	         ever queues on the mutex); readers are finite, sleepy and may
//	         starve the writer for as long as they like;
//	contend  2..4 goroutines of the writing end issue Write concurrently and
//	         the reading end has one dedicated, never-sleeping drainer, so a
//	         queued writer only ever waits for progress that does not need
//	         the clock.
package c15

import (
	"errors"
	"io"
	"net"
	"os"

	"verif/core"
)

func init() {
	core.Register("C15", "schedules", runSchedules)
	core.Register("C15", "sequential", runSequential)
}

// errKind is the class of an error as far as the statement distinguishes them.
type errKind uint8

const (
	eNil     errKind = iota
	eEOF             // end of stream
	eClosed          // io.ErrClosedPipe (possibly wrapped)
	eTimeout         // os.ErrDeadlineExceeded / net.Error.Timeout()
	eSink            // the error of the harness's recording writer, passed through WriteTo
	eOther
)

func (k errKind) String() string {
	return [...]string{"nil", "EOF", "closed", "timeout", "sink", "other"}[k]
}

var errSink = errors.New("c15: recording writer is full")

func classify(err error) errKind {
	switch {
	case err == nil:
		return eNil
	case errors.Is(err, errSink):
		return eSink
	case errors.Is(err, io.EOF):
		return eEOF
	case errors.Is(err, io.ErrClosedPipe):
		return eClosed
	case errors.Is(err, os.ErrDeadlineExceeded):
		return eTimeout
	}
	var ne net.Error
	if errors.As(err, &ne) && ne.Timeout() {
		return eTimeout
	}
	return eOther
}

// payload builds the bytes of write id: byte j carries the id (upper six bits)
// and j mod 4 (lower two bits), so that the receiver identifies the write and
// can tell a repeated, skipped or reordered byte inside a write.
func payload(id, n int) []byte {
	b := make([]byte, n)
	for j := range b {
		b[j] = byte(id<<2 | j&3)
	}
	return b
}

const maxWriteIDs = 63
