package c15

import (
	"testing"
	"testing/synctest"
	"time"

	"github.com/database64128/shadowsocks-go/netio"
)

func TestProbe(t *testing.T) {
	synctest.Test(t, func(t *testing.T) {
		pl, pr := netio.NewPipe()
		done := make(chan struct{}, 3)
		go func() { pl.Write([]byte{1, 1, 1}); done <- struct{}{} }()
		go func() { pl.Write([]byte{2, 2, 2}); done <- struct{}{} }()
		go func() {
			time.Sleep(5 * time.Millisecond)
			b := make([]byte, 10)
			n, err := pr.Read(b)
			t.Log(n, err, b[:n])
			n, err = pr.Read(b)
			t.Log(n, err, b[:n])
			done <- struct{}{}
		}()
		for i := 0; i < 3; i++ {
			<-done
		}
	})
}
