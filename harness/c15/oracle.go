package c15

import (
	"fmt"
	"math"
	"sort"
	"time"
)

// The oracle decides a recorded history. It only ever orders two calls when
// one RETURNED before the other was CALLED (a.Ret < b.Call on the history's
// one logical counter). Calls that overlap a Close/CloseRead/CloseWrite or a
// deadline change in real time may legitimately go either way and are
// counted as don't-care, never decided. Rules about time use the bubble's
// virtual clock only: the clock advances only when every goroutine is
// blocked, so "returned at a later virtual instant" means "was still blocked
// when everything else had come to rest".

type violation struct{ kind, op, text string }

// transfer is a run of bytes of one write received by one Read or by one
// Write call on a WriteTo's recording writer. The hand-off that delivered it
// happened between the stamps lo and hi.
type transfer struct {
	op     *ev
	seq    int // position of the run inside its Read / chunk
	id     int
	n      int
	first  int // phase (j mod 4) of the first byte
	inSeq  bool
	lo, hi int64
}

type oracle struct {
	sh   shape
	evs  []*ev
	q    int64
	viol []violation
	beh  map[string]bool

	tr [2][]transfer // per direction (index = writing end)

	bytes, ntransfers, decided, dontcare int64
}

func newOracle(sh shape, evs []*ev, q int64) *oracle {
	return &oracle{sh: sh, evs: evs, q: q, beh: map[string]bool{}}
}

func (o *oracle) bad(kind string, e *ev, format string, a ...any) {
	if len(o.viol) >= 8 {
		return
	}
	op := ""
	if e != nil {
		op = e.Kind.String()
	}
	o.viol = append(o.viol, violation{kind, op, fmt.Sprintf(format, a...)})
}

func (o *oracle) check() {
	for d := 0; d < 2; d++ {
		o.checkData(d)
		o.checkClose(d)
		o.checkLiveness(d)
	}
	o.checkDeadlines()
	o.behaviours()
}

// ---- selections -----------------------------------------------------------

func (o *oracle) sel(f func(*ev) bool) []*ev {
	var out []*ev
	for _, e := range o.evs {
		if f(e) {
			out = append(out, e)
		}
	}
	return out
}

func (o *oracle) writes(d int) []*ev {
	return o.sel(func(e *ev) bool { return e.Kind == kWrite && e.End == d })
}

func (o *oracle) reads(d int) []*ev {
	return o.sel(func(e *ev) bool { return (e.Kind == kRead || e.Kind == kWriteTo) && e.End == 1-d })
}

// closers of direction d: by the writing end (CloseWrite, Close) and by the reading end (CloseRead, Close).
func (o *oracle) closersW(d int) []*ev {
	return o.sel(func(e *ev) bool { return (e.Kind == kCloseWrite || e.Kind == kClose) && e.End == d })
}

func (o *oracle) closersR(d int) []*ev {
	return o.sel(func(e *ev) bool { return (e.Kind == kCloseRead || e.Kind == kClose) && e.End == 1-d })
}

func returnedBefore(cs []*ev, e *ev) *ev { // some c returned before e was called
	for _, c := range cs {
		if c.Ret != 0 && c.Ret < e.Call {
			return c
		}
	}
	return nil
}

func begunBeforeRet(cs []*ev, e *ev) bool { // some c was called before e returned
	for _, c := range cs {
		if c.Call < e.Ret {
			return true
		}
	}
	return false
}

// ---- data: exactly once, in order, no interleaving, counts ------------------

func splitRuns(op *ev, data []byte, lo, hi int64) []transfer {
	var out []transfer
	for i := 0; i < len(data); {
		j := i
		ok := true
		for j < len(data) && data[j]>>2 == data[i]>>2 {
			if int(data[j]&3) != (int(data[i]&3)+j-i)&3 {
				ok = false
			}
			j++
		}
		out = append(out, transfer{op: op, seq: len(out), id: int(data[i] >> 2), n: j - i, first: int(data[i] & 3), inSeq: ok, lo: lo, hi: hi})
		i = j
	}
	return out
}

func (o *oracle) checkData(d int) {
	ws := o.writes(d)
	byID := map[int]*ev{}
	for _, w := range ws {
		byID[w.ID] = w
	}
	var ts []transfer
	for _, r := range o.reads(d) {
		if r.Kind == kRead {
			if r.Ret == 0 {
				continue
			}
			if r.N < 0 || int(r.N) > r.Arg {
				o.bad("read-count-out-of-range", r, "%s returned n=%d for a %d-byte buffer", opName(r), r.N, r.Arg)
				continue
			}
			ts = append(ts, splitRuns(r, r.Data, r.Call, r.Ret)...)
			continue
		}
		var sum int64
		for _, c := range r.Chunks {
			sum += int64(len(c.Data))
			ts = append(ts, splitRuns(r, c.Data, c.Lo, c.Hi)...)
		}
		if r.Ret != 0 && sum != r.N {
			o.bad("writeto-count", r, "%s reported %d bytes but its writer accepted %d", opName(r), r.N, sum)
		}
	}
	o.tr[d] = ts
	o.ntransfers += int64(len(ts))

	// per write: everything received that carries its id
	got := map[int]int{}
	per := map[int][]transfer{}
	for _, t := range ts {
		o.bytes += int64(t.n)
		w := byID[t.id]
		if w == nil {
			o.bad("misdelivered-bytes", t.op, "%s received %d bytes with id %d, which no write of the peer end carries", opName(t.op), t.n, t.id)
			continue
		}
		got[t.id] += t.n
		per[t.id] = append(per[t.id], t)
		if !t.inSeq {
			o.bad("bytes-out-of-order", t.op, "%s received bytes of write %d whose positions are not consecutive", opName(t.op), t.id)
		}
		// A read that completed before the write began holds none of its bytes;
		// neither does one that began after the write returned.
		if t.hi < w.Call {
			o.bad("bytes-before-write", t.op, "%s completed (stamp %d) before %s was called (stamp %d) yet holds %d of its bytes", opName(t.op), t.hi, opName(w), w.Call, t.n)
		}
		if w.Ret != 0 && t.lo > w.Ret {
			o.bad("bytes-after-write-returned", t.op, "%s began (stamp %d) after %s had returned (stamp %d) yet holds %d of its bytes", opName(t.op), t.lo, opName(w), w.Ret, t.n)
		}
	}
	for _, w := range ws {
		if w.Ret == 0 {
			continue
		}
		if w.N < 0 || int(w.N) > w.Arg {
			o.bad("write-count-out-of-range", w, "%s returned n=%d", opName(w), w.N)
			continue
		}
		// "a write reports only bytes the reader consumed" and "read exactly once"
		if int64(got[w.ID]) != w.N {
			o.bad("write-count-mismatch", w, "%s reported n=%d (err=%s) but the peer received %d of its bytes", opName(w), w.N, w.Err, got[w.ID])
		}
		if w.Err == eNil && int(w.N) != w.Arg {
			o.bad("short-write-without-error", w, "%s returned n=%d, nil", opName(w), w.N)
		}
		// in order inside the write: with the transfers totally ordered the phases must
		// continue each other; otherwise (several readers at once) only the multiset is known
		tw := per[w.ID]
		sort.SliceStable(tw, func(a, b int) bool {
			if tw[a].lo != tw[b].lo {
				return tw[a].lo < tw[b].lo
			}
			return tw[a].seq < tw[b].seq
		})
		total := true
		for i := 1; i < len(tw); i++ {
			if !before(tw[i-1], tw[i]) {
				total = false
			}
		}
		if int64(got[w.ID]) == w.N {
			if total {
				pos := 0
				for _, t := range tw {
					if t.first != pos&3 {
						o.bad("bytes-out-of-order", t.op, "write %d: %s received the byte at position %d mod 4 where position %d was due", w.ID, opName(t.op), t.first, pos)
						break
					}
					pos += t.n
				}
			} else {
				var want, have [4]int
				for j := 0; j < int(w.N); j++ {
					want[j&3]++
				}
				for _, t := range tw {
					for j := 0; j < t.n; j++ {
						have[(t.first+j)&3]++
					}
				}
				if want != have {
					o.bad("bytes-out-of-order", w, "write %d: positions received %v, written %v (mod 4)", w.ID, have, want)
				}
			}
		}
	}

	// concurrent writers never interleave within one write: no transfer of another
	// write lies definitely between two transfers of the same write
	minHi := map[int]int64{}
	maxLo := map[int]int64{}
	for id, tw := range per {
		mh, ml := int64(math.MaxInt64), int64(math.MinInt64)
		for _, t := range tw {
			mh = min(mh, t.hi)
			ml = max(ml, t.lo)
		}
		minHi[id], maxLo[id] = mh, ml
	}
	multi := map[*ev]bool{}
	for _, t := range ts {
		if t.seq > 0 {
			multi[t.op] = true
		}
	}
	for _, b := range ts {
		if byID[b.id] == nil {
			continue
		}
		for id := range per {
			if id == b.id {
				continue
			}
			hit := minHi[id] < b.lo && maxLo[id] > b.hi
			if !hit && multi[b.op] {
				// runs inside one Read are ordered too
				var pre, post bool
				for _, t := range per[id] {
					pre = pre || before(t, b)
					post = post || before(b, t)
				}
				hit = pre && post
			}
			if hit {
				o.bad("interleaved-writes", b.op, "bytes of write %d (%s) were received between two parts of write %d (%s): %s", b.id, opName(byID[b.id]), id, opName(byID[id]), opName(b.op))
				return
			}
		}
	}
}

// before: a's hand-off definitely preceded b's.
func before(a, b transfer) bool {
	if a.op == b.op && a.lo == b.lo {
		return a.seq < b.seq
	}
	return a.hi < b.lo
}

// ---- close / half-close rules over call-return order ------------------------

func (o *oracle) checkClose(d int) {
	cw, cr := o.closersW(d), o.closersR(d)
	all := append(append([]*ev(nil), cw...), cr...)
	ws := o.writes(d)
	overlapsWrite := func(r *ev) bool { // some write of this direction was in progress during r
		for _, w := range ws {
			if w.Call < r.Ret && (w.Ret == 0 || w.Ret > r.Call) {
				return true
			}
		}
		return false
	}
	for _, w := range ws {
		if w.Ret == 0 {
			continue
		}
		// writes begun after the local CloseWrite / the peer's CloseRead returned fail
		if c := returnedBefore(all, w); c != nil {
			o.decided++
			if w.N != 0 || w.Err == eNil {
				o.bad("write-after-close", w, "%s was called (stamp %d) after %s had returned (stamp %d) but returned n=%d err=%s", opName(w), w.Call, opName(c), c.Ret, w.N, w.Err)
			}
		} else if begunBeforeRet(all, w) {
			o.dontcare++ // overlapped a close: either outcome is fine
		}
		// a close-type failure needs somebody to have at least begun closing this direction
		if (w.Err == eClosed || w.Err == eEOF) && !begunBeforeRet(all, w) {
			o.bad("spurious-close-error", w, "%s failed with %s although nobody had begun to close this direction", opName(w), w.Err)
		}
	}
	for _, r := range o.reads(d) {
		if r.Ret == 0 {
			continue
		}
		eof := r.Err == eEOF || (r.Kind == kWriteTo && r.Err == eNil) // WriteTo reports end-of-stream as nil
		if eof && !begunBeforeRet(cw, r) {
			o.bad("eof-without-closewrite", r, "%s reported end-of-stream although the peer had not begun CloseWrite/Close", opName(r))
		}
		if r.Err == eClosed && !begunBeforeRet(all, r) {
			o.bad("spurious-close-error", r, "%s failed with closed although nobody had begun to close this direction", opName(r))
		}
		if r.Kind == kRead && r.Err == eNil && !overlapsWrite(r) {
			// a successful Read is a rendezvous with some Write (possibly of zero bytes)
			o.bad("read-without-writer", r, "%s returned n=%d, nil while no Write of the peer was in progress", opName(r), r.N)
		}
		if eof {
			// EOF only after the data has been drained: nothing is received later
			for _, t := range o.tr[d] {
				if t.lo > r.Ret {
					o.bad("data-after-eof", t.op, "%s received %d bytes of write %d (stamps %d..%d) after %s had reported end-of-stream (stamp %d)", opName(t.op), t.n, t.id, t.lo, t.hi, opName(r), r.Ret)
					break
				}
			}
		}
		c := returnedBefore(all, r)
		if c == nil {
			if begunBeforeRet(all, r) {
				o.dontcare++
			}
			continue
		}
		o.decided++
		// The direction was closed before r was called. r may still drain a write that
		// was in progress across the close (covered by the data rules); otherwise it
		// fails, and if only the writing end closed, it is end-of-stream that it sees.
		if r.Kind == kRead {
			if r.Err == eNil {
				continue // drained something; read-without-writer above covers the impossible case
			}
			if r.N != 0 {
				continue
			}
			onlyW := !begunBeforeRet(cr, r)
			if onlyW && r.Err != eEOF && r.Err != eTimeout {
				o.bad("no-eof-after-closewrite", r, "%s was called after %s had returned, the reading end never closed, but it failed with %s (%s)", opName(r), opName(c), r.Err, r.ErrTxt)
			}
			continue
		}
		// A WriteTo begun after the close may equally drain an overlapping write; how it
		// reports the close (nil for end-of-stream, or an error) is not decided here.
	}
}

// ---- nothing stays blocked --------------------------------------------------

func (o *oracle) checkLiveness(d int) {
	cw, cr := o.closersW(d), o.closersR(d)
	all := append(append([]*ev(nil), cw...), cr...)
	ws, rs := o.writes(d), o.reads(d)
	// An operation of a closed direction does not stay blocked: if it returned at a
	// later virtual instant than both its own call and the close's return, it sat
	// blocked on a closed direction while every goroutine had come to rest.
	for _, e := range append(append([]*ev(nil), ws...), rs...) {
		if e.Ret == 0 {
			continue
		}
		for _, c := range all {
			if c.Ret != 0 && e.RetVT > max(e.CallVT, c.RetVT) {
				o.bad("blocked-past-close", e, "%s (called at %s) returned only at %s although %s had returned at %s", opName(e), time.Duration(e.CallVT), time.Duration(e.RetVT), opName(c), time.Duration(c.RetVT))
				break
			}
		}
	}
	// A pending Write and a pending Read/WriteTo of the same direction meet: the
	// clock never advances past an instant at which both are blocked. (A Write
	// queued behind another Write is not an exception: while it waits on the
	// write mutex the bubble is not idle and the clock stands still.)
	for _, w := range ws {
		if w.Ret == 0 {
			continue
		}
		for _, r := range rs {
			if r.Ret == 0 {
				continue
			}
			if max(w.CallVT, r.CallVT) < min(w.RetVT, r.RetVT) {
				o.bad("rendezvous-missed", w, "%s [%s..%s] and %s [%s..%s] were both blocked while the clock advanced", opName(w), time.Duration(w.CallVT), time.Duration(w.RetVT), opName(r), time.Duration(r.CallVT), time.Duration(r.RetVT))
				return
			}
		}
	}
}

// ---- deadlines in virtual time ----------------------------------------------

// governing finds the deadline change that decides e, if that is unambiguous:
// the last Set* on e's side called before e returned, provided every other such
// Set* had returned before it was called. ok=false means don't-care.
// s == nil with ok means "no deadline was ever set".
func governing(sets []*ev, e *ev) (s *ev, ok bool) {
	var bef []*ev
	for _, x := range sets {
		if x.Call < e.Ret {
			bef = append(bef, x)
		}
	}
	if len(bef) == 0 {
		return nil, true
	}
	s = bef[len(bef)-1] // evs are in call order
	for _, x := range bef[:len(bef)-1] {
		if x.Ret == 0 || x.Ret > s.Call {
			return nil, false
		}
	}
	if s.Ret == 0 || s.Err != eNil {
		return nil, false // a Set* that reported an error: what it left behind is not specified
	}
	return s, true
}

func (o *oracle) checkDeadlines() {
	for end := 0; end < 2; end++ {
		for side := 0; side < 2; side++ { // 0 = read side, 1 = write side
			sets := o.sel(func(e *ev) bool {
				return e.End == end && (e.Kind == kSetDL || (side == 0 && e.Kind == kSetRDL) || (side == 1 && e.Kind == kSetWDL))
			})
			ops := o.sel(func(e *ev) bool {
				if e.End != end || e.Ret == 0 {
					return false
				}
				if side == 0 {
					return e.Kind == kRead || e.Kind == kWriteTo
				}
				return e.Kind == kWrite
			})
			// direction of these ops, for "closed" excuses
			d := end
			if side == 0 {
				d = 1 - end
			}
			closers := append(o.closersW(d), o.closersR(d)...)
			for _, e := range ops {
				// weak rule, always decidable: a timeout needs some deadline that can have expired
				if e.Err == eTimeout {
					can := false
					for _, s := range sets {
						if s.Call < e.Ret && (s.DL == dlPast || (s.DL == dlFuture && s.DAbs <= e.RetVT)) {
							can = true
						}
					}
					if !can {
						o.bad("timeout-without-deadline", e, "%s returned a timeout at %s although no deadline at or before that instant had been set", opName(e), time.Duration(e.RetVT))
					}
				}
				s, ok := governing(sets, e)
				if !ok {
					o.dontcare++
					continue
				}
				o.decided++
				D := int64(math.MaxInt64) // no deadline
				setRetVT := int64(math.MinInt64)
				stable := true // the governing change had returned before e was called
				if s != nil {
					switch s.DL {
					case dlPast:
						D = math.MinInt64
					case dlFuture:
						D = s.DAbs
					}
					setRetVT = s.RetVT
					stable = s.Ret < e.Call
					if !stable && s.Ret > e.Ret {
						continue // e returned while the change was still in progress
					}
				}
				// a pending call is unblocked by its deadline: it never stays blocked past it
				// (also when the deadline was set while the call was already pending)
				if e.RetVT > max(e.CallVT, setRetVT, D) {
					o.bad("blocked-past-deadline", e, "%s (called at %s) returned only at %s; its deadline %s had been set by %s", opName(e), time.Duration(e.CallVT), time.Duration(e.RetVT), dlString(D), opName(s))
				}
				if !stable {
					continue
				}
				// no timeout before the deadline; zero (or re-arming in the future) un-expires the end
				if e.Err == eTimeout && D > e.RetVT {
					o.bad("timeout-before-deadline", e, "%s returned a timeout at %s although the deadline in force was %s (%s)", opName(e), time.Duration(e.RetVT), dlString(D), nameOrNone(s))
				}
				// called strictly after the deadline passed: fails, transfers nothing
				if D < e.CallVT {
					excused := e.Kind == kWriteTo && e.Err == eNil && begunBeforeRet(closers, e)
					if e.N != 0 || (e.Err == eNil && !excused) {
						o.bad("io-after-deadline", e, "%s was called at %s, after its deadline %s (%s) had passed, and returned n=%d err=%s", opName(e), time.Duration(e.CallVT), dlString(D), opName(s), e.N, e.Err)
					}
				}
			}
		}
	}
}

func dlString(D int64) string {
	switch D {
	case math.MaxInt64:
		return "none"
	case math.MinInt64:
		return "already-past"
	}
	return time.Duration(D).String()
}

func nameOrNone(s *ev) string {
	if s == nil {
		return "never set"
	}
	return opName(s)
}

// ---- behaviours observed (evidence classes) ---------------------------------

func (o *oracle) behaviours() {
	b := o.beh
	for d := 0; d < 2; d++ {
		ws := o.writes(d)
		cw, cr := o.closersW(d), o.closersR(d)
		perReaders := map[int]map[int]bool{}
		perCount := map[int]int{}
		for _, t := range o.tr[d] {
			if perReaders[t.id] == nil {
				perReaders[t.id] = map[int]bool{}
			}
			perReaders[t.id][t.op.W] = true
			perCount[t.id]++
			if t.op.Kind == kWriteTo {
				b["writeto:received-data"] = true
			}
		}
		for id, k := range perCount {
			if k >= 2 {
				b[fmt.Sprintf("write:split-over-%s-reads", capN(k, 4))] = true
			}
			if len(perReaders[id]) >= 2 {
				b["write:split-across-reading-goroutines"] = true
			}
		}
		for i, w := range ws {
			if w.Ret == 0 {
				continue
			}
			switch {
			case w.Err == eNil && w.Arg == 0:
				b["write:zero-length"] = true
			case w.Err == eNil:
				b["write:complete"] = true
			case w.Err == eTimeout && w.N > 0:
				b["write:partial+timeout"] = true
			case w.Err == eTimeout && w.RetVT > w.CallVT:
				b["write:pending-unblocked-by-deadline"] = true
			case w.Err == eTimeout:
				b["write:failed-on-expired-deadline"] = true
			case w.Err == eClosed && w.N > 0:
				b["write:partial+closed"] = true
			case w.Err == eClosed && returnedBefore(cw, w) != nil:
				b["write:failed-after-local-closewrite"] = true
			case w.Err == eClosed && returnedBefore(cr, w) != nil:
				b["write:failed-after-peer-closeread"] = true
			case w.Err == eClosed && w.RetVT > w.CallVT:
				b["write:pending-unblocked-by-close"] = true
			case w.Err == eClosed:
				b["write:closed-while-overlapping-close"] = true
			}
			for _, x := range ws[i+1:] {
				if x.W != w.W && x.Call < w.Ret && (x.Ret == 0 || x.Ret > w.Call) && x.N > 0 && w.N > 0 {
					b["write:concurrent-writes-both-transferred"] = true
				}
			}
		}
		sawData := false
		for _, r := range o.reads(d) {
			if r.Ret == 0 {
				continue
			}
			if r.N > 0 {
				sawData = true
			}
			pend := r.RetVT > r.CallVT
			name := "read"
			if r.Kind == kWriteTo {
				name = "writeto"
			}
			switch r.Err {
			case eNil:
				if r.Kind == kWriteTo {
					b["writeto:eof-as-nil"] = true
				} else if r.N == 0 && r.Arg == 0 {
					b["read:zero-buffer"] = true
				} else if r.N == 0 {
					b["read:met-zero-length-write"] = true
				} else if int(r.N) < r.Arg {
					b["read:short(buffer>write)"] = true
				} else {
					b["read:buffer-filled"] = true
				}
			case eEOF:
				switch {
				case pend:
					b["read:pending-unblocked-by-peer-closewrite"] = true
				case sawData:
					b["read:eof-after-data"] = true
				default:
					b["read:eof"] = true
				}
			case eClosed:
				if pend {
					b[name+":pending-unblocked-by-close"] = true
				} else {
					b[name+":closed"] = true
				}
			case eTimeout:
				if pend {
					b[name+":pending-unblocked-by-deadline"] = true
				} else {
					b[name+":failed-on-expired-deadline"] = true
				}
			case eSink:
				b["writeto:sink-error-short-write"] = true
			}
			if r.Kind == kWriteTo && len(r.Chunks) >= 2 {
				b["writeto:several-chunks"] = true
			}
		}
		// half-close: the reverse direction still transfers after CloseWrite returned
		for _, c := range o.sel(func(e *ev) bool { return e.Kind == kCloseWrite && e.End == d && e.Ret != 0 }) {
			for _, t := range o.tr[1-d] {
				if t.lo > c.Ret {
					b["halfclose:reverse-direction-transfers-after-closewrite"] = true
				}
			}
		}
	}
	// deadline behaviours
	for _, s := range o.sel(func(e *ev) bool { return e.Kind == kSetDL || e.Kind == kSetRDL || e.Kind == kSetWDL }) {
		if s.Err != eNil {
			b["deadline:set-refused-after-close"] = true
			continue
		}
		b["deadline:"+s.DL.String()] = true
	}
	for end := 0; end < 2; end++ {
		for side := 0; side < 2; side++ {
			sets := o.sel(func(e *ev) bool {
				return e.End == end && e.Ret != 0 && (e.Kind == kSetDL || (side == 0 && e.Kind == kSetRDL) || (side == 1 && e.Kind == kSetWDL))
			})
			for _, e := range o.evs {
				if e.End != end || e.Ret == 0 {
					continue
				}
				if side == 0 && e.Kind != kRead && e.Kind != kWriteTo || side == 1 && e.Kind != kWrite {
					continue
				}
				s, ok := governing(sets, e)
				if !ok || s == nil {
					continue
				}
				during := s.Call > e.Call && s.Ret < e.Ret
				if during && e.Err == eTimeout && s.DL == dlFuture && e.RetVT == s.DAbs {
					b["deadline:future-set-while-pending-unblocked-at-deadline"] = true
				}
				if during && e.Err == eTimeout && s.DL == dlPast {
					b["deadline:past-set-while-pending-unblocked"] = true
				}
				if s.Ret < e.Call && s.DL != dlPast && e.Err != eTimeout {
					// was the end expired before s?
					for _, p := range sets {
						if p.Ret < s.Call && p.Err == eNil && (p.DL == dlPast || (p.DL == dlFuture && p.DAbs < s.CallVT)) {
							if s.DL == dlZero {
								b["deadline:zero-un-expired-the-end"] = true
							} else if s.DAbs > e.CallVT {
								b["deadline:re-armed-after-expiry"] = true
							}
						}
					}
				}
			}
		}
	}
	// what the final Close had to free
	n := 0
	for _, e := range o.evs {
		if e.W >= 0 && e.Call < o.q && e.Ret > o.q {
			n++
		}
	}
	if n > 0 {
		b[fmt.Sprintf("final-close:freed-%s-blocked-calls", capN(n, 4))] = true
	}
}

func capN(n, c int) string {
	if n >= c {
		return fmt.Sprintf("%d+", c)
	}
	return fmt.Sprint(n)
}
