package c15

import (
	"bytes"
	"errors"
	"fmt"
	"io"
	"net"
	"runtime/debug"
	"sync"
	"time"

	"github.com/database64128/shadowsocks-go/netio"

	"verif/core"
)

// The sequential part: one pipe, a main goroutine and at most one helper per
// blocking call, moved in lock-step (synctest.Wait between moves), so that at
// every move exactly one outcome is possible. A small model of an unbuffered
// stream pipe (per direction: open / closed by the writer / closed by the
// reader; per end: a read and a write deadline) predicts that outcome.
//
// Where the statement does not say which error a call fails with, the model
// only demands "fails, and not with a timeout": reads after the LOCAL
// CloseRead, writes on a closed direction. When a direction is closed AND the
// relevant deadline has expired, either failure is accepted.

type seqRes struct {
	n     int64
	err   error
	vt    int64
	data  []byte
	panic string
}

// helper runs one blocking call in its own goroutine; a panic inside the pipe
// becomes a result instead of killing the process.
func (c *seqCase) helper(ch chan seqRes, f func() seqRes) {
	go func() {
		defer func() {
			if p := recover(); p != nil {
				ch <- seqRes{panic: fmt.Sprintf("%v\n%s", p, debug.Stack())}
			}
		}()
		ch <- f()
	}()
}

type seqSink struct {
	budget int
	buf    bytes.Buffer
}

func (s *seqSink) Write(b []byte) (int, error) {
	n := len(b)
	var err error
	if s.budget >= 0 {
		if n > s.budget {
			n, err = s.budget, errSink
		}
		s.budget -= n
	}
	s.buf.Write(b[:n])
	return n, err
}

type seqCase struct {
	e     *core.Env
	ci    int
	r     *core.RNG
	p     [2]*netio.PipeConn
	start time.Time

	// model
	closed [2]int // per direction (index = writing end): 0 open, 1 closed first by the writer, 2 closed first by the reader
	rdl    [2]time.Time
	wdl    [2]time.Time
	rdlUnk [2]bool // a Set* on this side was refused: which deadline is in force is not specified
	wdlUnk [2]bool
	tag    [2]uint64
	off    [2]int

	mu    sync.Mutex // trace, step and bad are read from outside the bubble after a deadlock
	step  string
	trace []string
	bad   bool
	beh   map[string]bool
}

func (c *seqCase) setStep(s string) {
	c.mu.Lock()
	c.step = s
	c.mu.Unlock()
}

func (c *seqCase) vt() int64 { return int64(time.Since(c.start)) }

func (c *seqCase) logf(format string, a ...any) {
	c.mu.Lock()
	c.trace = append(c.trace, fmt.Sprintf("@%s ", time.Duration(c.vt()))+fmt.Sprintf(format, a...))
	c.mu.Unlock()
}

func (c *seqCase) fail(kind, format string, a ...any) {
	if c.bad {
		return
	}
	msg := fmt.Sprintf(format, a...)
	c.logf("VIOLATION %s: %s", kind, msg)
	c.mu.Lock()
	c.bad = true
	tr := append([]string(nil), c.trace...)
	c.mu.Unlock()
	c.e.Rec.Violate("sequential", c.ci, core.Sig("kind", kind, "part", "sequential", "step", c.step),
		map[string]any{"trace": tr}, "step %s: %s", c.step, msg)
}

func (c *seqCase) failPanic(p string) {
	if c.bad {
		return
	}
	c.logf("PANIC %.300s", p)
	c.mu.Lock()
	c.bad = true
	tr := append([]string(nil), c.trace...)
	c.mu.Unlock()
	c.e.Rec.Violate("sequential", c.ci, core.Sig("kind", "panic", "part", "sequential", "where", core.PanicSite(p)),
		map[string]any{"trace": tr, "panic": p}, "step %s: panic in a pipe call: %.200s", c.step, p)
}

func endName(e int) string { return "LR"[e : e+1] }

func expired(t time.Time) bool { return !t.IsZero() && !time.Now().Before(t) }

func (c *seqCase) canRead(e int) bool  { return c.closed[1-e] == 0 && !expired(c.rdl[e]) }
func (c *seqCase) canWrite(e int) bool { return c.closed[e] == 0 && !expired(c.wdl[e]) }

// sleep advances the virtual clock, never landing exactly on a live deadline
// (at that instant the timer and the caller race, which is for the schedules part).
func (c *seqCase) sleep(d time.Duration) {
	t := time.Now().Add(d)
	for again := true; again; {
		again = false
		for e := 0; e < 2; e++ {
			if t.Equal(c.rdl[e]) || t.Equal(c.wdl[e]) {
				t = t.Add(time.Microsecond)
				again = true
			}
		}
	}
	time.Sleep(time.Until(t))
	core.Wait()
}

func (c *seqCase) sleepPast(t time.Time) {
	if d := time.Until(t); d >= 0 {
		c.sleep(d + time.Millisecond)
	}
}

func (c *seqCase) goWrite(e int, b []byte) chan seqRes {
	ch := make(chan seqRes, 1)
	c.logf("%s: go Write(%d bytes)", endName(e), len(b))
	c.helper(ch, func() seqRes {
		n, err := c.p[e].Write(b)
		return seqRes{n: int64(n), err: err, vt: c.vt()}
	})
	return ch
}

func (c *seqCase) goRead(e, m int) chan seqRes {
	ch := make(chan seqRes, 1)
	c.logf("%s: go Read(buf %d)", endName(e), m)
	c.helper(ch, func() seqRes {
		b := make([]byte, m)
		n, err := c.p[e].Read(b)
		return seqRes{n: int64(n), err: err, vt: c.vt(), data: b[:max(0, min(n, m))]}
	})
	return ch
}

func (c *seqCase) goWriteTo(e int, s *seqSink) chan seqRes {
	ch := make(chan seqRes, 1)
	c.logf("%s: go WriteTo(sink budget %d)", endName(e), s.budget)
	c.helper(ch, func() seqRes {
		n, err := c.p[e].WriteTo(s)
		return seqRes{n: n, err: err, vt: c.vt()}
	})
	return ch
}

func poll(ch chan seqRes) (seqRes, bool) {
	select {
	case r := <-ch:
		return r, true
	default:
		return seqRes{}, false
	}
}

// stillPending: after everything came to rest, the helper must not have returned.
func (c *seqCase) stillPending(ch chan seqRes, what string) bool {
	core.Wait()
	if r, ok := poll(ch); ok {
		if r.panic != "" {
			c.failPanic(r.panic)
			return false
		}
		c.fail("returned-early", "%s returned n=%d err=%v although nothing could complete it", what, r.n, r.err)
		return false
	}
	return true
}

// finished: after everything came to rest, the helper must have returned.
func (c *seqCase) finished(ch chan seqRes, what string) (seqRes, bool) {
	core.Wait()
	r, ok := poll(ch)
	if !ok {
		c.fail("still-blocked", "%s is still blocked although it must have returned", what)
		return r, false
	}
	if r.panic != "" {
		c.failPanic(r.panic)
		return r, false
	}
	c.logf("%s returned n=%d err=%v", what, r.n, r.err)
	return r, true
}

func isTimeout(err error) bool {
	var ne net.Error
	return classify(err) == eTimeout && errors.As(err, &ne) && ne.Timeout()
}

// failure kinds the model allows for a call that cannot proceed
type allow struct {
	eof, closedAny, timeout bool
}

func (a allow) ok(err error) bool {
	switch k := classify(err); k {
	case eNil:
		return false
	case eTimeout:
		return a.timeout && isTimeout(err)
	case eEOF:
		return (a.eof && err == io.EOF) || a.closedAny
	default:
		return a.closedAny
	}
}

func (a allow) String() string {
	s := ""
	if a.eof {
		s += "EOF "
	}
	if a.closedAny {
		s += "any-non-timeout-error "
	}
	if a.timeout {
		s += "timeout"
	}
	return s
}

func (c *seqCase) readAllow(e int) allow {
	d := 1 - e
	return allow{eof: c.closed[d] == 1, closedAny: c.closed[d] == 2, timeout: expired(c.rdl[e]) || c.rdlUnk[e]}
}

func (c *seqCase) writeAllow(e int) allow {
	return allow{closedAny: c.closed[e] != 0, timeout: expired(c.wdl[e]) || c.wdlUnk[e]}
}

// probeRead: a Read that, by the model, cannot proceed must fail at once.
func (c *seqCase) probeRead(e int) {
	a := c.readAllow(e)
	m := c.r.Range(0, 9)
	t0 := c.vt()
	b := make([]byte, m)
	n, err := c.p[e].Read(b)
	c.logf("%s: Read(buf %d) -> %d, %v", endName(e), m, n, err)
	if n != 0 || !a.ok(err) || c.vt() != t0 {
		c.fail("wrong-failure", "%s.Read on a direction with state %d (read deadline expired: %v) returned n=%d err=%v at +%s; allowed: %s", endName(e), c.closed[1-e], a.timeout, n, err, time.Duration(c.vt()-t0), a)
		return
	}
	c.beh[fmt.Sprintf("probe-read:%s", classify(err))] = true
}

func (c *seqCase) probeWrite(e int) {
	a := c.writeAllow(e)
	n0 := c.r.Range(0, 9)
	t0 := c.vt()
	n, err := c.p[e].Write(make([]byte, n0))
	c.logf("%s: Write(%d bytes) -> %d, %v", endName(e), n0, n, err)
	if n != 0 || !a.ok(err) || c.vt() != t0 {
		c.fail("wrong-failure", "%s.Write on a direction with state %d (write deadline expired: %v) returned n=%d err=%v; allowed: %s", endName(e), c.closed[e], a.timeout, n, err, a)
		return
	}
	c.beh[fmt.Sprintf("probe-write:%s", classify(err))] = true
}

func (c *seqCase) probeWriteTo(e int) {
	a := c.readAllow(e)
	s := &seqSink{budget: -1}
	n, err := c.p[e].WriteTo(s)
	c.logf("%s: WriteTo -> %d, %v", endName(e), n, err)
	// end-of-stream is not an error for a WriterTo
	ok := n == 0 && ((err == nil && a.eof) || (err != nil && classify(err) != eEOF && a.ok(err)))
	if !ok {
		c.fail("wrong-failure", "%s.WriteTo on a direction with state %d returned n=%d err=%v; allowed: %s (EOF as nil)", endName(e), c.closed[1-e], n, err, a)
		return
	}
	c.beh[fmt.Sprintf("probe-writeto:%s", classify(err))] = true
}

// syncRead: main reads while a writer is pending; exact count and content.
func (c *seqCase) syncRead(e, m int, want []byte) bool {
	t0 := c.vt()
	b := make([]byte, m)
	n, err := c.p[e].Read(b)
	c.logf("%s: Read(buf %d) -> %d, %v", endName(e), m, n, err)
	if err != nil || n != len(want) || !bytes.Equal(b[:max(0, min(n, m))], want) || c.vt() != t0 {
		c.fail("wrong-read", "%s.Read(buf %d) returned n=%d err=%v, expected %d bytes %s (got %s)", endName(e), m, n, err, len(want), core.Hex(want, 16), core.Hex(b[:max(0, min(n, m))], 16))
		return false
	}
	return true
}

func (c *seqCase) next(d, n int) []byte { return core.Pattern(c.tag[d], c.off[d], n) }

func (c *seqCase) pickN() int {
	switch c.r.Intn(10) {
	case 0:
		return 0
	case 1:
		return 1
	case 2:
		return c.r.Range(30, 70)
	}
	return c.r.Range(2, 24)
}

// ---- steps ----------------------------------------------------------------

// transfer: one Write against a sequence of Reads with buffers 0..n+; every
// Read returns exactly min(buffer, remaining) bytes of the right content and
// the Write returns (n, nil) exactly when the last byte was consumed.
func (c *seqCase) transfer(d int) {
	W, R := d, 1-d
	if !c.canWrite(W) {
		c.probeWrite(W)
		return
	}
	if !c.canRead(R) {
		c.probeRead(R)
		return
	}
	n := c.pickN()
	data := c.next(d, n)
	t0 := c.vt()
	consumed := 0
	readerFirst := c.r.Chance(1, 3)
	var hr chan seqRes
	m0 := 0
	if readerFirst {
		m0 = c.r.Range(0, n+3)
		hr = c.goRead(R, m0)
		if !c.stillPending(hr, "Read before any Write") {
			return
		}
	}
	hw := c.goWrite(W, data)
	if readerFirst {
		res, ok := c.finished(hr, "pending Read")
		if !ok {
			return
		}
		want := data[:min(m0, n)]
		if res.err != nil || int(res.n) != len(want) || !bytes.Equal(res.data, want) || res.vt != t0 {
			c.fail("wrong-read", "pending Read(buf %d) met Write(%d) and returned n=%d err=%v", m0, n, res.n, res.err)
			return
		}
		consumed = len(want)
	} else if n == 0 {
		if !c.stillPending(hw, "zero-length Write without reader") {
			return
		}
		if !c.syncRead(R, c.r.Range(0, 5), nil) {
			return
		}
	}
	zeros := 0
	for consumed < n {
		if !c.stillPending(hw, fmt.Sprintf("Write(%d) with %d consumed", n, consumed)) {
			return
		}
		m := c.r.Range(1, n+2)
		if zeros < 2 && c.r.Chance(1, 8) {
			m = 0
			zeros++
		} else if c.r.Chance(1, 3) {
			m = c.r.Range(1, 4)
		}
		want := data[consumed:min(n, consumed+m)]
		if !c.syncRead(R, m, want) {
			return
		}
		consumed += len(want)
	}
	res, ok := c.finished(hw, "Write")
	if !ok {
		return
	}
	if res.n != int64(n) || res.err != nil || res.vt != t0 {
		c.fail("wrong-write", "Write(%d) fully consumed returned n=%d err=%v at +%s", n, res.n, res.err, time.Duration(res.vt-t0))
		return
	}
	c.off[d] += n
	c.beh[fmt.Sprintf("transfer:%s reader-first=%v n=%s reverse-closed=%v", endName(W)+"->"+endName(R), readerFirst, capN(min(n, 2), 2), c.closed[1-d] != 0)] = true
}

type dlTarget int // which Set* to use

const (
	tSide dlTarget = iota // SetReadDeadline / SetWriteDeadline
	tBoth                 // SetDeadline
)

// setDL applies a deadline on end e; side 0 = read, 1 = write.
func (c *seqCase) setDL(e, side int, tg dlTarget, t time.Time) {
	var err error
	var name string
	switch {
	case tg == tBoth:
		name = "SetDeadline"
		err = c.p[e].SetDeadline(t)
		c.rdl[e], c.wdl[e] = t, t
		// SetDeadline sets both deadlines; an error it reports belongs to a direction that is closed, and the
		// direction that is still open has its deadline set all the same (a caller that half-closed one side keeps
		// using deadlines on the other)
		c.rdlUnk[e], c.wdlUnk[e] = err != nil && c.closed[1-e] != 0, err != nil && c.closed[e] != 0
	case side == 0:
		name = "SetReadDeadline"
		err = c.p[e].SetReadDeadline(t)
		c.rdl[e] = t
		c.rdlUnk[e] = err != nil
	default:
		name = "SetWriteDeadline"
		err = c.p[e].SetWriteDeadline(t)
		c.wdl[e] = t
		c.wdlUnk[e] = err != nil
	}
	if t.IsZero() {
		c.logf("%s: %s(zero) -> %v", endName(e), name, err)
	} else {
		c.logf("%s: %s(%s) -> %v", endName(e), name, t.Sub(c.start), err)
	}
	// What Set*Deadline returns is not specified by the statement. The model only
	// insists that it succeeds while every direction it touches is open; after a
	// refusal (closed direction) it no longer knows which deadline is in force there
	// and accepts a timeout as well as the close failure.
	readOpen, writeOpen := c.closed[1-e] == 0, c.closed[e] == 0
	touchedOpen := (tg == tBoth && readOpen && writeOpen) || (tg == tSide && side == 0 && readOpen) || (tg == tSide && side == 1 && writeOpen)
	if err != nil && touchedOpen {
		c.fail("set-deadline-error", "%s.%s returned %v on open directions", endName(e), name, err)
	}
}

// pickTarget: SetDeadline is also used while one direction of the end is closed; the callers only use it for a
// direction that is open.
func (c *seqCase) pickTarget(e int) dlTarget {
	if c.r.Chance(1, 4) {
		return tBoth
	}
	return tSide
}

func (c *seqCase) pickDur() time.Duration {
	return time.Duration(c.r.Pick(2, 3, 5, 10, 50, 1000))*time.Millisecond + time.Duration(c.r.Intn(3))*333*time.Microsecond
}

// readTimeout: a Read with nothing to read returns a timeout exactly at its deadline.
func (c *seqCase) readTimeout(e int) {
	if !c.canRead(e) {
		c.probeRead(e)
		return
	}
	T := time.Now().Add(c.pickDur())
	c.setDL(e, 0, c.pickTarget(e), T)
	useWriteTo := c.r.Chance(1, 4)
	var n int64
	var err error
	if useWriteTo {
		n, err = c.p[e].WriteTo(&seqSink{budget: -1})
	} else {
		var k int
		k, err = c.p[e].Read(make([]byte, c.r.Range(0, 8)))
		n = int64(k)
	}
	c.logf("%s: blocking read -> %d, %v", endName(e), n, err)
	if n != 0 || !isTimeout(err) || !time.Now().Equal(T) {
		c.fail("wrong-timeout", "%s read with deadline %s returned n=%d err=%v at %s", endName(e), T.Sub(c.start), n, err, time.Duration(c.vt()))
		return
	}
	c.beh[fmt.Sprintf("read-timeout writeto=%v", useWriteTo)] = true
	if c.r.Bool() {
		c.setDL(e, 0, tSide, time.Time{})
	}
}

// writeTimeout: a Write of n bytes of which k are consumed before its deadline returns (k, timeout) at the deadline.
func (c *seqCase) writeTimeout(e int) {
	if !c.canWrite(e) {
		c.probeWrite(e)
		return
	}
	n := c.r.Range(1, 30)
	k := 0
	if c.canRead(1 - e) {
		k = c.r.Range(0, n-1)
	}
	T := time.Now().Add(c.pickDur())
	c.setDL(e, 1, c.pickTarget(e), T)
	data := c.next(e, n)
	hw := c.goWrite(e, data)
	if !c.stillPending(hw, "Write without reader") {
		return
	}
	if k > 0 && !c.syncRead(1-e, k, data[:k]) {
		return
	}
	if !c.stillPending(hw, "partly consumed Write") {
		return
	}
	c.sleepPast(T)
	res, ok := c.finished(hw, "Write past its deadline")
	if !ok {
		return
	}
	if res.n != int64(k) || !isTimeout(res.err) || res.vt != int64(T.Sub(c.start)) {
		c.fail("wrong-timeout", "Write(%d) with %d consumed and deadline %s returned n=%d err=%v at %s", n, k, T.Sub(c.start), res.n, res.err, time.Duration(res.vt))
		return
	}
	c.off[e] += k
	c.beh[fmt.Sprintf("write-timeout partial=%v", k > 0)] = true
	if c.r.Bool() {
		c.setDL(e, 1, tSide, time.Time{})
	}
}

// applyClose performs a close call and updates the model.
func (c *seqCase) applyClose(e int, k opKind) {
	switch k {
	case kCloseWrite:
		c.p[e].CloseWrite()
		if c.closed[e] == 0 {
			c.closed[e] = 1
		}
	case kCloseRead:
		c.p[e].CloseRead()
		if c.closed[1-e] == 0 {
			c.closed[1-e] = 2
		}
	case kClose:
		c.p[e].Close()
		if c.closed[1-e] == 0 {
			c.closed[1-e] = 2
		}
		if c.closed[e] == 0 {
			c.closed[e] = 1
		}
	}
	c.logf("%s: %s", endName(e), k)
}

// pendingReadClosed: a pending Read is released by the peer's CloseWrite/Close with
// end-of-stream, or by the local CloseRead/Close with a failure.
func (c *seqCase) pendingReadClosed(e int) {
	if !c.canRead(e) {
		c.probeRead(e)
		return
	}
	useWriteTo := c.r.Chance(1, 4)
	var h chan seqRes
	if useWriteTo {
		h = c.goWriteTo(e, &seqSink{budget: -1})
	} else {
		h = c.goRead(e, c.r.Range(0, 8))
	}
	if !c.stillPending(h, "read without writer") {
		return
	}
	t0 := c.vt()
	v := c.r.Intn(4)
	switch v {
	case 0:
		c.applyClose(1-e, kCloseWrite)
	case 1:
		c.applyClose(1-e, kClose)
	case 2:
		c.applyClose(e, kCloseRead)
	case 3:
		c.applyClose(e, kClose)
	}
	res, ok := c.finished(h, "pending read after close")
	if !ok {
		return
	}
	good := res.n == 0 && res.vt == t0
	if v < 2 {
		if useWriteTo {
			good = good && res.err == nil
		} else {
			good = good && res.err == io.EOF
		}
	} else {
		good = good && res.err != nil && classify(res.err) != eTimeout
	}
	if !good {
		c.fail("wrong-close-result", "pending read (WriteTo=%v) released by close variant %d returned n=%d err=%v", useWriteTo, v, res.n, res.err)
		return
	}
	c.beh[fmt.Sprintf("pending-read-closed variant=%d writeto=%v", v, useWriteTo)] = true
}

// pendingWriteClosed: a pending, partly consumed Write is failed by the peer's
// CloseRead/Close or the local CloseWrite/Close and reports what was consumed.
func (c *seqCase) pendingWriteClosed(e int) {
	if !c.canWrite(e) {
		c.probeWrite(e)
		return
	}
	n := c.r.Range(1, 30)
	k := 0
	if c.canRead(1 - e) {
		k = c.r.Range(0, n-1)
	}
	data := c.next(e, n)
	hw := c.goWrite(e, data)
	if !c.stillPending(hw, "Write without reader") {
		return
	}
	if k > 0 && !c.syncRead(1-e, k, data[:k]) {
		return
	}
	if !c.stillPending(hw, "partly consumed Write") {
		return
	}
	t0 := c.vt()
	v := c.r.Intn(4)
	switch v {
	case 0:
		c.applyClose(1-e, kCloseRead)
	case 1:
		c.applyClose(1-e, kClose)
	case 2:
		c.applyClose(e, kCloseWrite)
	case 3:
		c.applyClose(e, kClose)
	}
	res, ok := c.finished(hw, "pending Write after close")
	if !ok {
		return
	}
	if res.n != int64(k) || res.err == nil || classify(res.err) == eTimeout || res.vt != t0 {
		c.fail("wrong-close-result", "Write(%d) with %d consumed, failed by close variant %d, returned n=%d err=%v", n, k, v, res.n, res.err)
		return
	}
	c.off[e] += k
	c.beh[fmt.Sprintf("pending-write-closed variant=%d partial=%v", v, k > 0)] = true
}

// deadlineWhilePending: deadlines set, moved, zeroed and re-armed while a call is pending.
func (c *seqCase) deadlineWhilePending(e, side int) {
	var h chan seqRes
	if side == 0 {
		if !c.canRead(e) {
			c.probeRead(e)
			return
		}
		h = c.goRead(e, c.r.Range(0, 8))
	} else {
		if !c.canWrite(e) {
			c.probeWrite(e)
			return
		}
		h = c.goWrite(e, c.next(e, c.r.Range(1, 9))) // nothing is consumed: the stream offset does not move
	}
	if !c.stillPending(h, "call without counterpart") {
		return
	}
	tg := c.pickTarget(e)
	v := c.r.Intn(4)
	var at time.Time // the instant at which the call must return
	switch v {
	case 0: // future deadline set while pending
		at = time.Now().Add(c.pickDur())
		c.setDL(e, side, tg, at)
		c.sleepPast(at)
	case 1: // armed, zeroed before it fires, then a past deadline
		t1 := time.Now().Add(c.pickDur())
		c.setDL(e, side, tg, t1)
		c.sleep(time.Millisecond)
		c.setDL(e, side, tg, time.Time{})
		c.sleepPast(t1)
		if !c.stillPending(h, "call whose deadline was zeroed before it fired") {
			return
		}
		at = time.Now()
		c.setDL(e, side, tg, at.Add(-time.Duration(c.r.Pick(0, 1, 1000000000))))
	case 2: // armed, then moved further into the future
		t1 := time.Now().Add(c.pickDur())
		c.setDL(e, side, tg, t1)
		c.sleep(time.Millisecond)
		at = t1.Add(c.pickDur())
		c.setDL(e, side, tg, at)
		c.sleepPast(t1)
		if time.Now().Before(at) {
			if !c.stillPending(h, "call whose deadline was moved later") {
				return
			}
			c.sleepPast(at)
		}
	case 3: // past deadline set while pending
		at = time.Now()
		c.setDL(e, side, tg, at.Add(-time.Duration(c.r.Pick(0, 1, 1000000000))))
	}
	res, ok := c.finished(h, "pending call past its deadline")
	if !ok {
		return
	}
	if res.n != 0 || !isTimeout(res.err) || res.vt != int64(at.Sub(c.start)) {
		c.fail("wrong-timeout", "pending call (side %d) with deadline scenario %d returned n=%d err=%v at %s, expected a timeout at %s", side, v, res.n, res.err, time.Duration(res.vt), at.Sub(c.start))
		return
	}
	c.beh[fmt.Sprintf("deadline-while-pending side=%d scenario=%d both=%v", side, v, tg == tBoth)] = true
	// leave the end expired (later steps expect immediate timeouts) or un-expire it
	switch c.r.Intn(3) {
	case 0:
		c.setDL(e, side, tg, time.Time{})
		c.beh["un-expire:zero"] = true
	case 1:
		c.setDL(e, side, tg, time.Now().Add(c.pickDur()))
		c.beh["un-expire:re-arm"] = true
	}
}

// writeToStep: WriteTo collects several writes; it ends by the peer's CloseWrite
// (nil), a read deadline, the local CloseRead, or its writer's short write.
func (c *seqCase) writeToStep(e int) {
	d := 1 - e
	if !c.canRead(e) {
		c.probeWriteTo(e)
		return
	}
	if !c.canWrite(d) {
		c.probeWrite(d)
		return
	}
	q := -1
	if c.r.Bool() {
		q = c.r.Range(0, 40)
	}
	sk := &seqSink{budget: q}
	h := c.goWriteTo(e, sk)
	if !c.stillPending(h, "WriteTo without writer") {
		return
	}
	var exp []byte
	total := 0
	for j, nw := 0, c.r.Range(0, 4); j < nw; j++ {
		n := c.r.Range(0, 20)
		data := c.next(d, n)
		if q >= 0 && n > q-total {
			// the recording writer takes only part of this hand-off and fails
			part := q - total
			t0 := c.vt()
			hw := c.goWrite(d, data)
			res, ok := c.finished(h, "WriteTo whose writer failed")
			if !ok {
				return
			}
			exp = append(exp, data[:part]...)
			if res.n != int64(q) || classify(res.err) != eSink || res.vt != t0 || !bytes.Equal(sk.buf.Bytes(), exp) {
				c.fail("wrong-writeto", "WriteTo with a %d-byte writer returned n=%d err=%v, collected %d bytes", q, res.n, res.err, sk.buf.Len())
				return
			}
			if !c.stillPending(hw, "Write whose reader took only part") {
				return
			}
			// the rest of the write is still there for the next reader
			if !c.syncRead(e, n+5, data[part:]) {
				return
			}
			wres, ok := c.finished(hw, "Write")
			if !ok {
				return
			}
			if wres.n != int64(n) || wres.err != nil {
				c.fail("wrong-write", "Write(%d) split between a failing WriteTo (%d) and a Read returned n=%d err=%v", n, part, wres.n, wres.err)
				return
			}
			c.off[d] += n
			c.beh["writeto:short-write-of-sink"] = true
			return
		}
		t0 := c.vt()
		k, err := c.p[d].Write(data)
		c.logf("%s: Write(%d) into WriteTo -> %d, %v", endName(d), n, k, err)
		if k != n || err != nil || c.vt() != t0 {
			c.fail("wrong-write", "Write(%d) against a pending WriteTo returned n=%d err=%v", n, k, err)
			return
		}
		exp = append(exp, data...)
		total += n
		c.off[d] += n
	}
	if !c.stillPending(h, "WriteTo after its writes") {
		return
	}
	v := c.r.Intn(4)
	at := time.Now()
	switch v {
	case 0:
		c.applyClose(d, kCloseWrite)
	case 1:
		c.setDL(e, 0, c.pickTarget(e), at.Add(-time.Duration(c.r.Pick(0, 1))))
	case 2:
		c.applyClose(e, kCloseRead)
	case 3:
		at = at.Add(c.pickDur())
		c.setDL(e, 0, c.pickTarget(e), at)
		c.sleepPast(at)
	}
	res, ok := c.finished(h, "WriteTo")
	if !ok {
		return
	}
	good := res.n == int64(total) && bytes.Equal(sk.buf.Bytes(), exp) && res.vt == int64(at.Sub(c.start))
	switch v {
	case 0:
		good = good && res.err == nil
	case 1, 3:
		good = good && isTimeout(res.err)
	case 2:
		good = good && res.err != nil && classify(res.err) != eTimeout
	}
	if !good {
		c.fail("wrong-writeto", "WriteTo ended by variant %d returned n=%d err=%v at %s, expected n=%d at %s; collected %d bytes", v, res.n, res.err, time.Duration(res.vt), total, at.Sub(c.start), sk.buf.Len())
		return
	}
	c.beh[fmt.Sprintf("writeto:end-variant=%d writes>0=%v", v, total > 0)] = true
}

// closeStep: a close with nothing pending, then every consequence the statement names.
func (c *seqCase) closeStep(e int, k opKind) {
	c.applyClose(e, k)
	if k == kCloseWrite || k == kClose {
		c.probeWrite(e) // writes begun after the local CloseWrite fail
		if !c.bad {
			c.probeRead(1 - e) // the peer sees end-of-stream
		}
		if !c.bad && c.r.Bool() {
			c.probeWriteTo(1 - e)
		}
	}
	if k == kCloseRead || k == kClose {
		if !c.bad {
			c.probeWrite(1 - e) // closing the read side fails the peer's writes
		}
		if !c.bad {
			c.probeRead(e)
		}
	}
	if c.bad {
		return
	}
	// half-close: the other direction keeps working
	switch k {
	case kCloseWrite:
		if c.closed[1-e] == 0 && c.canWrite(1-e) && c.canRead(e) {
			c.transfer(1 - e)
			if !c.bad {
				c.beh["half-close:reverse-transfer-after-closewrite"] = true
			}
		}
	case kCloseRead:
		if c.closed[e] == 0 && c.canWrite(e) && c.canRead(1-e) {
			c.transfer(e)
			if !c.bad {
				c.beh["half-close:reverse-transfer-after-closeread"] = true
			}
		}
	}
}

// expiredWithCounterpart: a call made after its deadline has passed fails with a
// timeout and transfers nothing even though its counterpart is waiting.
func (c *seqCase) expiredWithCounterpart(e, side int) {
	p := 1 - e
	if side == 0 && (c.closed[p] != 0 || !c.canWrite(p)) || side == 1 && (c.closed[e] != 0 || !c.canRead(p)) {
		return
	}
	if side == 0 && !expired(c.rdl[e]) || side == 1 && !expired(c.wdl[e]) {
		c.setDL(e, side, tSide, time.Now().Add(-time.Duration(c.r.Pick(0, 1, 1000000000))))
	}
	var h chan seqRes
	if side == 0 {
		h = c.goWrite(p, c.next(p, c.r.Range(1, 9))) // never consumed: the offset does not move
	} else {
		h = c.goRead(p, c.r.Range(1, 9))
	}
	if !c.stillPending(h, "counterpart") {
		return
	}
	t0 := c.vt()
	var n int64
	var err error
	what := "Read"
	switch {
	case side == 1:
		what = "Write"
		var k int
		k, err = c.p[e].Write(make([]byte, c.r.Range(1, 9)))
		n = int64(k)
	case c.r.Chance(1, 3):
		what = "WriteTo"
		n, err = c.p[e].WriteTo(&seqSink{budget: -1})
	default:
		var k int
		k, err = c.p[e].Read(make([]byte, c.r.Range(1, 9)))
		n = int64(k)
	}
	c.logf("%s: %s past its deadline -> %d, %v", endName(e), what, n, err)
	if n != 0 || !isTimeout(err) || c.vt() != t0 {
		c.fail("io-after-deadline", "%s.%s called after its deadline had passed, with a counterpart waiting, returned n=%d err=%v", endName(e), what, n, err)
		return
	}
	if !c.stillPending(h, "counterpart of a timed-out call") {
		return
	}
	// release the counterpart by its own deadline and put that deadline back
	old := c.rdl[p]
	if side == 0 {
		old = c.wdl[p]
	}
	c.setDL(p, 1-side, tSide, time.Now())
	res, ok := c.finished(h, "counterpart")
	if !ok {
		return
	}
	if res.n != 0 || !isTimeout(res.err) || res.vt != t0 {
		c.fail("wrong-timeout", "counterpart released by a past deadline returned n=%d err=%v", res.n, res.err)
		return
	}
	c.setDL(p, 1-side, tSide, old)
	c.beh[fmt.Sprintf("expired-call-with-waiting-counterpart:%s", what)] = true
}

func (c *seqCase) setMisc() {
	e, side := c.r.Intn(2), c.r.Intn(2)
	var t time.Time
	switch c.r.Intn(3) {
	case 0:
		t = time.Now().Add(-time.Duration(c.r.Pick(0, 1, 1000000000)))
	case 1:
		t = time.Now().Add(c.pickDur())
	}
	c.setDL(e, side, c.pickTarget(e), t)
}

func (c *seqCase) run() {
	c.start = time.Now()
	c.p[0], c.p[1] = netio.NewPipe()
	c.tag = [2]uint64{c.r.Uint64(), c.r.Uint64()}
	steps := c.r.Range(6, 24)
	for s := 0; s < steps && !c.bad; s++ {
		e := c.r.Intn(2)
		v := c.r.Intn(100)
		late := s*3 >= steps*2
		switch {
		case v < 30:
			c.setStep("transfer")
			c.transfer(e)
		case v < 38:
			c.setStep("read-timeout")
			c.readTimeout(e)
		case v < 46:
			c.setStep("write-timeout")
			c.writeTimeout(e)
		case v < 58:
			c.setStep("deadline-while-pending")
			c.deadlineWhilePending(e, c.r.Intn(2))
		case v < 68:
			c.setStep("writeto")
			c.writeToStep(e)
		case v < 72:
			c.setStep("set-deadline")
			c.setMisc()
		case v < 76:
			c.setStep("expired-with-counterpart")
			c.expiredWithCounterpart(e, c.r.Intn(2))
		case v < 82:
			c.setStep("sleep")
			c.sleep(time.Duration(c.r.Pick(1, 2, 5, 20, 2000)) * time.Millisecond)
		case v < 86:
			c.setStep("pending-read-closed")
			if late || c.r.Chance(1, 3) {
				c.pendingReadClosed(e)
			}
		case v < 90:
			c.setStep("pending-write-closed")
			if late || c.r.Chance(1, 3) {
				c.pendingWriteClosed(e)
			}
		default:
			c.setStep("close")
			if late || c.r.Chance(1, 3) {
				c.closeStep(e, []opKind{kCloseWrite, kCloseWrite, kCloseRead, kCloseRead, kClose}[c.r.Intn(5)])
			}
		}
	}
	// whatever happened, leave nothing blocked
	c.p[0].Close()
	c.p[1].Close()
	core.Wait()
}

func runSequential(e *core.Env) {
	rec := e.Rec
	rec.Rule("sequential: one case = 6..24 lock-step moves over one pipe by one writer and one reader (a helper goroutine per blocking call, synctest.Wait between moves): transfers with buffers 0..n+ (reader or writer first, zero-length writes), read/write timeouts with k of n bytes consumed, deadlines set / zeroed / moved / re-armed while a call is pending, WriteTo ended by CloseWrite, deadline, CloseRead or its writer's short write, closes with a call pending and with nothing pending followed by probes of every affected call and a transfer in the reverse direction; each outcome (n, error class, bytes, virtual instant) is predicted by a model; class = (move, variant, context) that completed with the predicted outcome")
	n := e.N(3000, 50000)
	core.Parallel(e, "sequential", n, 16, func(i int) {
		r := core.NewRNG(e.Seed, "c15.seq", i)
		rec.Begin("sequential", i, "")
		c := &seqCase{e: e, ci: i, r: r, beh: map[string]bool{}}
		var dead string
		finished := core.Watchdog(3*time.Minute, func() {
			dead = core.Bubble(e, c.run)
		})
		rec.Eval()
		if !finished {
			rec.Inconclusive("watchdog")
			return
		}
		c.mu.Lock()
		bad, step, trace := c.bad, c.step, append([]string(nil), c.trace...)
		c.mu.Unlock()
		if dead != "" && !bad {
			rec.Violate("sequential", i, core.Sig("kind", "deadlock", "part", "sequential", "step", step),
				map[string]any{"trace": trace}, "%s during step %s", dead, step)
			return
		}
		if bad || dead != "" {
			return
		}
		for _, b := range core.SortedKeys(c.beh) {
			rec.Class("seq:%s", b)
		}
		rec.Count("seq_moves", int64(len(trace)))
		if i%600 == 0 {
			rec.Sample(4, map[string]any{"case": i, "trace": trace})
		}
	})
}
