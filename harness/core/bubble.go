package core

import (
	"fmt"
	"strings"
	"testing"
	"testing/synctest"
)

// Bubble runs f inside a testing/synctest bubble: a fake clock that advances
// only when every goroutine of the bubble is durably blocked. It returns a
// non-empty string when the bubble ended with goroutines still blocked
// (deadlock as detected by the runtime); any other panic propagates.
func Bubble(e *Env, f func()) (deadlock string) {
	defer func() {
		if p := recover(); p != nil {
			s := fmt.Sprint(p)
			if strings.HasPrefix(s, "deadlock:") {
				deadlock = s
				return
			}
			panic(p)
		}
	}()
	synctest.Test(e.T, func(*testing.T) { f() })
	return ""
}

// Wait is synctest.Wait: returns when every other goroutine in the bubble is durably blocked.
func Wait() { synctest.Wait() }
