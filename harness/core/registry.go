package core

// PartFunc runs one part of a property's check.
type PartFunc func(e *Env)

// Parts maps "Cnn/part" to its implementation. Property packages register in init().
var Parts = map[string]PartFunc{}

// Register adds a part.
func Register(prop, part string, f PartFunc) { Parts[prop+"/"+part] = f }
