package core

import (
	"encoding/json"
	"fmt"
	"os"
	"runtime/debug"
	"sort"
	"sync"
	"strings"
	"sync/atomic"
	"testing"
	"time"
)

// Violation is one refutation observed by a monitor.
type Violation struct {
	// Sig is the structured signature matched against known_findings.json.
	Sig map[string]string `json:"sig"`
	// Text is a one-line human description.
	Text string `json:"text"`
	// Part, Case identify the workload case so that it can be replayed.
	Part string `json:"part"`
	Sub  string `json:"sub,omitempty"`
	Case int    `json:"case"`
	// Detail is the witness (history, inputs).
	Detail any `json:"detail,omitempty"`
}

// Result is what one child process hands to the driver.
type Result struct {
	Property     string           `json:"property"`
	Part         string           `json:"part"`
	Tier         string           `json:"tier"`
	Seed         int64            `json:"seed"`
	Evaluations  int64            `json:"evaluations"`
	Classes      map[string]int64 `json:"classes"`
	Samples      []any            `json:"samples"`
	Violations   []Violation      `json:"violations"`
	Inconclusive map[string]int64 `json:"inconclusive"`
	Counters     map[string]int64 `json:"counters"`
	Notes        []string         `json:"notes,omitempty"`
	Rule         string           `json:"rule,omitempty"`
	Exhaustive   bool             `json:"exhaustive,omitempty"`
	WallS        float64          `json:"wall_s"`
	Complete     bool             `json:"complete"`
}

// Rec is the thread-safe recorder a part writes into.
type Rec struct {
	mu      sync.Mutex
	res     Result
	start   time.Time
	maxViol int
	evals   atomic.Int64
	logf    *os.File
	only    int
}

// Env is the invocation environment of a part.
type Env struct {
	Property string
	Part     string
	Tier     string // quick | thorough
	Seed     int64
	Only     int // >=0: run only this case (replay)
	Shard    int
	Shards   int
	OutPath  string
	LogPath  string
	WorkDir  string
	Rec      *Rec
	T        *testing.T
}

// Quick reports whether the tier is quick.
func (e *Env) Quick() bool { return e.Tier != "thorough" }

// N picks the case count by tier.
func (e *Env) N(quick, thorough int) int {
	if e.Quick() {
		return quick
	}
	return thorough
}

// NewRec creates the recorder for an environment.
func NewRec(e *Env) *Rec {
	r := &Rec{start: time.Now(), maxViol: 40, only: e.Only}
	r.res = Result{
		Property: e.Property, Part: e.Part, Tier: e.Tier, Seed: e.Seed,
		Classes: map[string]int64{}, Inconclusive: map[string]int64{}, Counters: map[string]int64{},
	}
	if e.LogPath != "" {
		f, err := os.OpenFile(e.LogPath, os.O_CREATE|os.O_WRONLY|os.O_APPEND, 0o644)
		if err == nil {
			r.logf = f
		}
	}
	return r
}

// Begin logs the start of a case to the case log before it is executed, so
// that a crash names the case.
func (r *Rec) Begin(part string, i int, what string) {
	if r.logf != nil {
		fmt.Fprintf(r.logf, "case %s %d begin %s\n", part, i, what)
	}
}

// Eval counts one executed case.
func (r *Rec) Eval() { r.evals.Add(1) }

// EvalN counts n executed cases.
func (r *Rec) EvalN(n int) { r.evals.Add(int64(n)) }

// Class records that a case of the given non-trivial class was observed.
func (r *Rec) Class(format string, a ...any) {
	k := format
	if len(a) > 0 {
		k = fmt.Sprintf(format, a...)
	}
	r.mu.Lock()
	r.res.Classes[k]++
	r.mu.Unlock()
}

// Count adds to a named counter of observed events.
func (r *Rec) Count(name string, n int64) {
	r.mu.Lock()
	r.res.Counters[name] += n
	r.mu.Unlock()
}

// Max raises a named counter to at least n.
func (r *Rec) Max(name string, n int64) {
	r.mu.Lock()
	if r.res.Counters[name] < n {
		r.res.Counters[name] = n
	}
	r.mu.Unlock()
}

// Sample keeps up to a few literal cases for the evidence file.
func (r *Rec) Sample(limit int, s any) {
	r.mu.Lock()
	if len(r.res.Samples) < limit {
		r.res.Samples = append(r.res.Samples, s)
	}
	r.mu.Unlock()
}

// Inconclusive records a case that could not be decided.
func (r *Rec) Inconclusive(reason string) {
	r.mu.Lock()
	r.res.Inconclusive[reason]++
	r.mu.Unlock()
}

// Note adds a free-text note.
func (r *Rec) Note(format string, a ...any) {
	r.mu.Lock()
	if len(r.res.Notes) < 50 {
		r.res.Notes = append(r.res.Notes, fmt.Sprintf(format, a...))
	}
	r.mu.Unlock()
}

// Rule sets the distinctness rule text for the evidence.
func (r *Rec) Rule(s string) {
	r.mu.Lock()
	r.res.Rule = s
	r.mu.Unlock()
}

// Exhaustive marks the part as having enumerated a finite space completely.
func (r *Rec) Exhaustive(b bool) {
	r.mu.Lock()
	r.res.Exhaustive = b
	r.mu.Unlock()
}

// Violate records a violation.
func (r *Rec) Violate(part string, i int, sig map[string]string, detail any, format string, a ...any) {
	v := Violation{Sig: sig, Text: fmt.Sprintf(format, a...), Part: r.res.Part, Sub: part, Case: i, Detail: detail}
	r.mu.Lock()
	r.res.Counters["violations_total"]++
	// keep at most maxViol, but always keep the first of every distinct signature
	keep := len(r.res.Violations) < r.maxViol
	if !keep {
		seen := false
		for _, o := range r.res.Violations {
			if sigEqual(o.Sig, sig) {
				seen = true
				break
			}
		}
		keep = !seen && len(r.res.Violations) < 4*r.maxViol
	}
	if keep {
		r.res.Violations = append(r.res.Violations, v)
	}
	r.mu.Unlock()
	if r.logf != nil {
		fmt.Fprintf(r.logf, "violation %s %d %s\n", part, i, v.Text)
	}
}

func sigEqual(a, b map[string]string) bool {
	if len(a) != len(b) {
		return false
	}
	for k, v := range a {
		if b[k] != v {
			return false
		}
	}
	return true
}

// Finish writes the result file.
func (r *Rec) Finish(path string) error {
	r.mu.Lock()
	defer r.mu.Unlock()
	r.res.Evaluations = r.evals.Load()
	r.res.WallS = time.Since(r.start).Seconds()
	r.res.Complete = true
	b, err := json.MarshalIndent(&r.res, "", " ")
	if err != nil {
		return err
	}
	if r.logf != nil {
		r.logf.Close()
	}
	return os.WriteFile(path, b, 0o644)
}

// Sig builds a signature map from key/value pairs.
func Sig(kv ...string) map[string]string {
	m := map[string]string{}
	for i := 0; i+1 < len(kv); i += 2 {
		m[kv[i]] = kv[i+1]
	}
	return m
}

// Parallel runs f(i) for i in [0,n) on w workers. A panic inside f is turned
// into a violation with kind=panic (the process keeps going so that the other
// monitors still report), carrying the stack.
func Parallel(e *Env, part string, n, w int, f func(i int)) {
	if w < 1 {
		w = 1
	}
	var next atomic.Int64
	var wg sync.WaitGroup
	for k := 0; k < w; k++ {
		wg.Add(1)
		go func() {
			defer wg.Done()
			for {
				i := int(next.Add(1) - 1)
				if i >= n {
					return
				}
				if e.Only >= 0 && i != e.Only {
					continue
				}
				if e.Shards > 1 && i%e.Shards != e.Shard {
					continue
				}
				Guard(e, part, i, func() { f(i) })
			}
		}()
	}
	wg.Wait()
}

// Guard runs f and converts a panic into a violation.
func Guard(e *Env, part string, i int, f func()) {
	defer func() {
		if p := recover(); p != nil {
			st := string(debug.Stack())
			if ps, ok := p.(string); ok && strings.Contains(ps, "goroutine ") {
				st = ps // a panic forwarded by Watchdog carries the original stack
			}
			e.Rec.Violate(part, i, Sig("kind", "panic", "part", part, "where", PanicSite(st)), st, "panic in case %d: %.200v", i, p)
		}
	}()
	f()
}

// SortedKeys returns the keys of a map sorted.
func SortedKeys[V any](m map[string]V) []string {
	ks := make([]string, 0, len(m))
	for k := range m {
		ks = append(ks, k)
	}
	sort.Strings(ks)
	return ks
}
