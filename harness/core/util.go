package core

import (
	"encoding/hex"
	"fmt"
	"os"
	"runtime/debug"
	"strings"
	"time"
)

const repoMod = "github.com/database64128/shadowsocks-go/"

// PanicSite returns the innermost function of the repository that appears in
// a stack trace text ("pkg.Func"), or "harness" when none does.
func PanicSite(stack string) string {
	for _, ln := range strings.Split(stack, "\n") {
		ln = strings.TrimSpace(ln)
		if i := strings.Index(ln, repoMod); i == 0 {
			fn := ln[len(repoMod):]
			if j := strings.LastIndex(fn, "("); j > 0 {
				fn = fn[:j]
			}
			return fn
		}
	}
	return "harness"
}

// Hex abbreviates a byte slice for samples.
func Hex(b []byte, max int) string {
	if len(b) <= max {
		return hex.EncodeToString(b)
	}
	return fmt.Sprintf("%s..(%d bytes)", hex.EncodeToString(b[:max]), len(b))
}

// Watchdog runs f with a generous wall-clock limit. It returns false when the
// limit fired; the caller records that as inconclusive, never as a violation.
func Watchdog(d time.Duration, f func()) bool {
	done := make(chan struct{})
	var (
		pval  any
		stack []byte
	)
	go func() {
		defer close(done)
		defer func() {
			if p := recover(); p != nil {
				pval, stack = p, debug.Stack()
			}
		}()
		f()
	}()
	t := time.NewTimer(d)
	defer t.Stop()
	select {
	case <-done:
		if pval != nil {
			// re-raise in the caller so that core.Guard attributes it to the case
			panic(fmt.Sprintf("%v\n%s", pval, stack))
		}
		return true
	case <-t.C:
		return false
	}
}

// Fatalf aborts the child with a harness error (exit 3: never a verdict).
func Fatalf(format string, a ...any) {
	fmt.Fprintf(os.Stderr, "HARNESS-ERROR: "+format+"\n", a...)
	os.Exit(3)
}

// FirstDiff returns the first index at which a and b differ, or -1.
func FirstDiff(a, b []byte) int {
	n := min(len(a), len(b))
	for i := 0; i < n; i++ {
		if a[i] != b[i] {
			return i
		}
	}
	if len(a) != len(b) {
		return n
	}
	return -1
}
