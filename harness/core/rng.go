// Package core holds what every property check shares: the deterministic case
// stream, the thread-safe result recorder, verdict bookkeeping and the result
// file format understood by cmd/drive.
package core

import (
	"hash/fnv"
	"math/bits"
)

// RNG is a small splitmix64-seeded xoshiro-like generator. It is deliberately
// not math/rand so that case i of a tier is a pure function of (seed, name, i)
// across Go versions.
type RNG struct {
	s [2]uint64
}

func splitmix(x *uint64) uint64 {
	*x += 0x9e3779b97f4a7c15
	z := *x
	z = (z ^ (z >> 30)) * 0xbf58476d1ce4e5b9
	z = (z ^ (z >> 27)) * 0x94d049bb133111eb
	return z ^ (z >> 31)
}

// NewRNG derives a generator from a seed, a stream name and a case index.
func NewRNG(seed int64, name string, i int) *RNG {
	h := fnv.New64a()
	h.Write([]byte(name))
	x := uint64(seed)*0x9e3779b97f4a7c15 ^ h.Sum64() ^ (uint64(i)+1)*0xd1342543de82ef95
	r := &RNG{}
	r.s[0] = splitmix(&x)
	r.s[1] = splitmix(&x)
	if r.s[0]|r.s[1] == 0 {
		r.s[0] = 1
	}
	return r
}

// Uint64 returns the next value (xoroshiro128+).
func (r *RNG) Uint64() uint64 {
	s0, s1 := r.s[0], r.s[1]
	res := s0 + s1
	s1 ^= s0
	r.s[0] = bits.RotateLeft64(s0, 24) ^ s1 ^ (s1 << 16)
	r.s[1] = bits.RotateLeft64(s1, 37)
	return res
}

// Intn returns a value in [0, n). n <= 0 yields 0.
func (r *RNG) Intn(n int) int {
	if n <= 1 {
		return 0
	}
	return int(r.Uint64() % uint64(n))
}

// Range returns a value in [lo, hi].
func (r *RNG) Range(lo, hi int) int {
	if hi <= lo {
		return lo
	}
	return lo + r.Intn(hi-lo+1)
}

// Bool returns a fair coin.
func (r *RNG) Bool() bool { return r.Uint64()&1 == 1 }

// Chance returns true with probability num/den.
func (r *RNG) Chance(num, den int) bool { return r.Intn(den) < num }

// Bytes fills and returns a fresh slice of n pseudo-random bytes.
func (r *RNG) Bytes(n int) []byte {
	b := make([]byte, n)
	r.Fill(b)
	return b
}

// Fill fills b with pseudo-random bytes.
func (r *RNG) Fill(b []byte) {
	for i := 0; i < len(b); {
		v := r.Uint64()
		for k := 0; k < 8 && i < len(b); k++ {
			b[i] = byte(v)
			v >>= 8
			i++
		}
	}
}

// Pick returns one of the given ints.
func (r *RNG) Pick(xs ...int) int { return xs[r.Intn(len(xs))] }

// PickStr returns one of the given strings.
func (r *RNG) PickStr(xs ...string) string { return xs[r.Intn(len(xs))] }

// Perm returns a permutation of 0..n-1.
func (r *RNG) Perm(n int) []int {
	p := make([]int, n)
	for i := range p {
		p[i] = i
	}
	for i := n - 1; i > 0; i-- {
		j := r.Intn(i + 1)
		p[i], p[j] = p[j], p[i]
	}
	return p
}

// Pattern returns n bytes that are a pure function of (tag, offset), so that a
// receiver can verify order and exactly-once delivery position by position.
func Pattern(tag uint64, off, n int) []byte {
	b := make([]byte, n)
	for i := range b {
		p := uint64(off + i)
		x := tag*0x9e3779b97f4a7c15 + p*0xbf58476d1ce4e5b9
		x ^= x >> 29
		b[i] = byte(x ^ (x >> 17) ^ p)
	}
	return b
}
