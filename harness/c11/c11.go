// Package c11 monitors "relayed UDP datagrams reach the named destination;
// replies return to the sender" on the real service manager over loopback
// sockets, for every (server protocol x client protocol) pair, both batch
// modes, concurrent sessions, scripted name resolution, client address changes
// and interleaved garbage.
package c11

import (
	"bytes"
	"encoding/binary"
	"fmt"
	"net"
	"net/netip"
	"path/filepath"
	"strings"
	"sync"
	"time"

	"github.com/database64128/shadowsocks-go/conn"

	"verif/core"
	"verif/svx"
	"verif/vtime"
)

func init() {
	core.Register("C11", "relay", runRelay)
	core.Register("C11", "stress", runStress)
	// the live relay's MTU bookkeeping (reply size limit follows the client's address family) also decides C05
	core.Register("C05", "live-roam", runRoamOnly)
}

func runRoamOnly(e *core.Env) {
	e.Rec.Rule("live-roam: the real session relay (both batch modes, both key sizes): an SS2022 client session moves from an IPv4 to an IPv6 address; replies sized at the IPv4 limit, the IPv6 limit and in between must be delivered / refused according to the client's CURRENT address family; oversize: on the NAT relay (socks5, none) and the session relay the target answers in bursts where replies that cannot fit the client's path (or the relay's receive buffer) sit back to back with ones that do - the client must hold exactly the fitting ones, intact; same-host-two-ports: one session addresses one host by name and by IP on three ports in random alternation - every datagram must reach the port it names; class = (protocol, batch mode, scenario)")
	vtime.Freeze()
	k := 0
	for _, S := range []string{"ss128", "ss256"} {
		for _, b := range []string{"", "no"} {
			ci := k
			k++
			if e.Only >= 0 && e.Only != ci {
				continue
			}
			e.Rec.Begin("relay", ci, "roam "+S+" "+b)
			e.Rec.Eval()
			core.Guard(e, "relay", ci, func() { roamCase(e, ci, S, b) })
		}
	}
	// replies that cannot fit the client's path, back to back with ones that do
	for _, S := range []string{"socks5", "none", "ss128"} {
		for _, b := range []string{"", "no"} {
			ci := k
			k++
			if e.Only >= 0 && e.Only != ci {
				continue
			}
			e.Rec.Begin("relay", ci, "oversize "+S+" "+b)
			e.Rec.Eval()
			r := core.NewRNG(e.Seed, "c05.oversize", ci)
			core.Guard(e, "relay", ci, func() { oversizeCase(e, ci, r, S, b) })
		}
	}
	// the address a datagram names survives the upstream packer's name cache: same host, different ports
	for _, S := range []string{"socks5", "ss128"} {
		for _, b := range []string{"", "no"} {
			ci := k
			k++
			if e.Only >= 0 && e.Only != ci {
				continue
			}
			e.Rec.Begin("relay", ci, "two-ports "+S+" "+b)
			e.Rec.Eval()
			r := core.NewRNG(e.Seed, "c05.ports", ci)
			core.Guard(e, "relay", ci, func() { portsCase(e, ci, r, S, b) })
		}
	}
}

// portsCase: one session addresses the same host by name and by IP on two different ports, alternating. Each datagram
// must leave towards the port it names (a per-session cache of resolved names must not remember the port) and each reply
// must carry the source it came from.
func portsCase(e *core.Env, ci int, r *core.RNG, S, batch string) {
	rec := e.Rec
	dnsOnce.Do(func() { fakeDNS = svx.InstallFakeDNS() })
	ports := svx.FreePorts(1)
	t := &svx.Topo{Dir: filepath.Join(e.WorkDir, fmt.Sprintf("ports-%d", ci))}
	cfg := map[string]any{
		"servers": []any{t.Server("A", S, ports[0], svx.ServerOpts{UDP: true, BatchMode: batch, TCP: strings.HasPrefix(S, "socks5")})},
		"clients": []any{svx.Direct("direct")},
	}
	inst, err := svx.Start(svx.JSON(cfg))
	if err != nil {
		rec.Inconclusive("ports setup: " + err.Error())
		return
	}
	defer inst.Stop(20 * time.Second)
	viol := func(kind, format string, a ...any) {
		rec.Violate("relay", ci, core.Sig("kind", kind, "part", "relay", "S", S, "C", "direct", "batch", batch, "scenario", "same-host-two-ports"), map[string]any{"logs": inst.LogLines(12)}, format, a...)
	}
	nl := 1
	if strings.HasPrefix(S, "socks5") {
		nl = 2
	}
	if !inst.WaitLogs("relay service listener", nl, 40*time.Second) {
		rec.Inconclusive("ports listeners")
		return
	}
	down, err := svx.NewClient(svx.JSON(t.ClientFor("down", "A", S, ports[0], 0, false, true)))
	if err != nil {
		rec.Inconclusive("ports client")
		return
	}
	var tgs [3]*svx.UDPTarget
	for k := range tgs {
		tg, err := svx.NewUDPTarget(fmt.Sprintf("P%d", k), "127.0.0.2", 0)
		if err != nil {
			rec.Inconclusive("ports target")
			return
		}
		defer tg.Close()
		tgs[k] = tg
	}
	name := fmt.Sprintf("twoports-%d-%d.test", ci, e.Seed)
	fakeDNS.Set(name, "127.0.0.2")
	p, err := down.NewUDPPeer("127.0.0.1")
	if err != nil {
		rec.Inconclusive("ports peer: " + err.Error())
		return
	}
	defer p.Close()
	n := e.N(16, 80)
	sentTo := [3]int{}
	for k := 0; k < n; k++ {
		ti := r.Intn(3)
		byName := r.Chance(2, 3)
		var dst conn.Addr
		if byName {
			dst = conn.MustAddrFromDomainPort(name, tgs[ti].Addr.Port())
		} else {
			dst = conn.AddrFromIPPort(tgs[ti].Addr)
		}
		msg := fmt.Sprintf("m-%d-for-P%d", k, ti)
		p.Send(dst, []byte(msg))
		sentTo[ti]++
		if !svx.Poll(30*time.Second, func() bool { return len(p.Got()) > k }) {
			where := ""
			for x, tg := range tgs {
				for _, d := range tg.Got() {
					if string(d.Payload) == msg {
						where = fmt.Sprintf(" (it arrived at P%d, %s)", x, tg.Addr)
					}
				}
			}
			viol("datagram_or_reply_lost", "datagram %d addressed to %s got no reply%s", k, dst, where)
			return
		}
		d := p.Got()[k]
		if string(d.Payload) != fmt.Sprintf("P%d|%s", ti, msg) {
			viol("sent_to_wrong_destination", "datagram %d addressed to %s (target P%d) was answered with %q", k, dst, ti, core.Hex(d.Payload, 40))
			return
		}
		if d.From != tgs[ti].Addr {
			viol("wrong_reply_source", "reply from P%d (%s) labelled with source %s", ti, tgs[ti].Addr, d.From)
			return
		}
	}
	for x, tg := range tgs {
		if len(tg.Got()) != sentTo[x] {
			viol("sent_to_wrong_destination", "target P%d received %d datagrams, %d were addressed to it", x, len(tg.Got()), sentTo[x])
			return
		}
	}
	rec.Count("two_ports_datagrams", int64(n))
	rec.Class("%s>direct/batch=%q/same-host-two-ports", S, batch)
}

// oversizeCase: the target answers each request with a burst in which replies that cannot be relayed (too big for the
// client's path once packed; bigger than the relay's receive buffer) sit next to small ones. "A payload that cannot
// fit is refused rather than truncated": the client must hold exactly the small replies, intact, and nothing else.
func oversizeCase(e *core.Env, ci int, r *core.RNG, S, batch string) {
	rec := e.Rec
	ports := svx.FreePorts(1)
	t := &svx.Topo{Dir: filepath.Join(e.WorkDir, fmt.Sprintf("oversize-%d", ci))}
	cfg := map[string]any{
		"servers": []any{t.Server("A", S, ports[0], svx.ServerOpts{UDP: true, BatchMode: batch, TCP: strings.HasPrefix(S, "socks5")})},
		"clients": []any{svx.Direct("direct")},
	}
	inst, err := svx.Start(svx.JSON(cfg))
	if err != nil {
		rec.Inconclusive("oversize setup: " + err.Error())
		return
	}
	defer inst.Stop(20 * time.Second)
	viol := func(kind, format string, a ...any) {
		rec.Violate("relay", ci, core.Sig("kind", kind, "part", "relay", "S", S, "C", "direct", "batch", batch, "scenario", "oversize"), map[string]any{"logs": inst.LogLines(12)}, format, a...)
	}
	nl := 1
	if strings.HasPrefix(S, "socks5") {
		nl = 2
	}
	if !inst.WaitLogs("relay service listener", nl, 40*time.Second) {
		rec.Inconclusive("oversize listeners")
		return
	}
	down, err := svx.NewClient(svx.JSON(t.ClientFor("down", "A", S, ports[0], 0, false, true)))
	if err != nil {
		rec.Inconclusive("oversize client")
		return
	}
	tc, err := net.ListenUDP("udp", &net.UDPAddr{IP: net.IPv4(127, 0, 0, 2)})
	if err != nil {
		rec.Inconclusive("oversize target")
		return
	}
	defer tc.Close()
	taddr := tc.LocalAddr().(*net.UDPAddr).AddrPort()
	p, err := down.NewUDPPeer("127.0.0.1")
	if err != nil {
		rec.Inconclusive("oversize peer: " + err.Error())
		return
	}
	defer p.Close()
	want := map[string]bool{}
	rounds := e.N(25, 200)
	buf := make([]byte, 65536)
	bigs := 0
	for round := 0; round < rounds; round++ {
		p.Send(conn.AddrFromIPPort(taddr), []byte(fmt.Sprintf("req-%d", round)))
		type rx struct {
			n    int
			from netip.AddrPort
		}
		got := make(chan rx, 1)
		go func() {
			n, from, err := tc.ReadFromUDPAddrPort(buf)
			if err == nil {
				got <- rx{n, from}
			}
		}()
		var in rx
		if !svx.Poll(30*time.Second, func() bool {
			select {
			case in = <-got:
				return true
			default:
				return false
			}
		}) {
			viol("datagram_or_reply_lost", "round %d: the request did not reach the target", round)
			return
		}
		// the burst, sent back to back so that the relay's receive batch holds refused and relayable replies together
		nrep := r.Pick(2, 3, 6, 12)
		for j := 0; j < nrep; j++ {
			if r.Chance(1, 2) {
				// 1463..1472: fits the relay's receive buffer but not the client's path once packed; 3000/9000: truncated on receive
				n := r.Pick(1466, 1470, 1472, 3000, 9000)
				tc.WriteToUDPAddrPort(core.Pattern(0xb16, 0, n), in.from)
				bigs++
			}
			pl := fmt.Sprintf("ok-%d-%d-", round, j) + string(core.Pattern(uint64(round*100+j), 0, r.Pick(0, 10, 300, 1200)))
			want[pl] = true
			tc.WriteToUDPAddrPort([]byte(pl), in.from)
		}
		if !svx.Poll(30*time.Second, func() bool { return len(p.Got())+len(p.Errs()) >= len(want) }) {
			viol("fitting_reply_dropped", "round %d: the client holds %d of the %d replies that fit (%d oversized ones were interleaved)", round, len(p.Got()), len(want), bigs)
			return
		}
	}
	vtime.RealSleep(20 * time.Millisecond)
	if errs := p.Errs(); len(errs) > 0 {
		viol("reply_corrupted", "the client received %d datagrams it could not decode (first: %s)", len(errs), errs[0])
		return
	}
	seen := map[string]int{}
	for _, d := range p.Got() {
		pl := string(d.Payload)
		if !want[pl] {
			viol("truncated_or_foreign_reply_delivered", "the client received %d bytes that are none of the replies that fit (a piece of an oversized reply?): %s", len(d.Payload), core.Hex(d.Payload, 32))
			return
		}
		seen[pl]++
		if seen[pl] > 1 {
			viol("reply_duplicated", "a reply was delivered twice")
			return
		}
	}
	if len(seen) != len(want) {
		viol("fitting_reply_dropped", "the client holds %d of the %d replies that fit", len(seen), len(want))
		return
	}
	rec.Count("oversize_refused_replies", int64(bigs))
	rec.Count("oversize_fitting_replies", int64(len(want)))
	rec.Class("%s>direct/batch=%q/oversize", S, batch)
}

// unsendableCase: bursts in which datagrams the relay cannot send on (the limited-broadcast address: EACCES; port 0:
// EINVAL - both refused by the kernel whatever the routing table says) sit between datagrams for reachable targets, so
// that a send batch (sendmmsg) stops part-way and has to be resumed behind the refused one. Every datagram for a
// reachable target must arrive there exactly once and be answered; the refused ones must not stand in the way.
func unsendableCase(e *core.Env, ci int, r *core.RNG, S, batch string) {
	rec := e.Rec
	ports := svx.FreePorts(1)
	t := &svx.Topo{Dir: filepath.Join(e.WorkDir, fmt.Sprintf("unsendable-%d", ci))}
	cfg := map[string]any{
		"servers": []any{t.Server("A", S, ports[0], svx.ServerOpts{UDP: true, BatchMode: batch, TCP: strings.HasPrefix(S, "socks5")})},
		"clients": []any{svx.Direct("direct")},
	}
	inst, err := svx.Start(svx.JSON(cfg))
	if err != nil {
		rec.Inconclusive("unsendable setup: " + err.Error())
		return
	}
	defer inst.Stop(20 * time.Second)
	viol := func(kind, format string, a ...any) {
		rec.Violate("relay", ci, core.Sig("kind", kind, "part", "relay", "S", S, "C", "direct", "batch", batch, "scenario", "unsendable-in-burst"), map[string]any{"logs": inst.LogLines(12)}, format, a...)
	}
	nl := 1
	if strings.HasPrefix(S, "socks5") {
		nl = 2
	}
	if !inst.WaitLogs("relay service listener", nl, 40*time.Second) {
		rec.Inconclusive("unsendable listeners")
		return
	}
	down, err := svx.NewClient(svx.JSON(t.ClientFor("down", "A", S, ports[0], 0, false, true)))
	if err != nil {
		rec.Inconclusive("unsendable client")
		return
	}
	var tgs [3]*svx.UDPTarget
	for k := range tgs {
		tg, err := svx.NewUDPTarget(fmt.Sprintf("U%d", k), fmt.Sprintf("127.0.0.%d", 2+k), 0)
		if err != nil {
			rec.Inconclusive("unsendable target")
			return
		}
		defer tg.Close()
		tgs[k] = tg
	}
	bad := []conn.Addr{
		conn.AddrFromIPPort(netip.MustParseAddrPort("255.255.255.255:9")),
		conn.AddrFromIPPort(netip.MustParseAddrPort("127.0.0.2:0")),
		conn.AddrFromIPPort(netip.MustParseAddrPort("255.255.255.255:53")),
	}
	rounds := e.N(6, 40)
	refused, delivered, maxRun := 0, 0, 0
	for round := 0; round < rounds; round++ {
		// a fresh session per round: while it is being set up, the burst queues behind the first datagram
		p, err := down.NewUDPPeer("127.0.0.1")
		if err != nil {
			rec.Inconclusive("unsendable peer: " + err.Error())
			return
		}
		n := r.Pick(3, 8, 17, 40)
		want := map[string]int{} // payload -> target index
		run := 0
		for k := 0; k < n; k++ {
			msg := fmt.Sprintf("u-%d-%d-%d", ci, round, k)
			// the first datagram of a round is refused in a third of the rounds, the last one in another third
			isBad := r.Chance(2, 5)
			if k == 0 {
				isBad = round%3 == 0
			} else if k == n-1 && round%3 == 1 {
				isBad = true
			}
			if isBad {
				p.Send(bad[r.Intn(len(bad))], []byte(msg))
				refused++
				run++
				maxRun = max(maxRun, run)
				continue
			}
			run = 0
			ti := r.Intn(3)
			want[msg] = ti
			p.Send(conn.AddrFromIPPort(tgs[ti].Addr), []byte(msg))
		}
		if !svx.Poll(30*time.Second, func() bool { return len(p.Got())+len(p.Errs()) >= len(want) }) {
			arrived := 0
			for _, tg := range tgs {
				for _, d := range tg.Got() {
					if _, ok := want[string(d.Payload)]; ok {
						arrived++
					}
				}
			}
			viol("datagram_or_reply_lost", "round %d: %d datagrams for reachable targets were sent in a burst of %d (the others addressed to destinations the kernel refuses); %d reached their target, the client holds %d replies", round, len(want), n, arrived, len(p.Got()))
			p.Close()
			return
		}
		vtime.RealSleep(5 * time.Millisecond)
		seen := map[string]int{}
		for _, d := range p.Got() {
			pl := string(d.Payload)
			i := strings.IndexByte(pl, '|')
			if i < 0 {
				viol("foreign_reply_delivered", "round %d: the client received %q, which no target sent", round, core.Hex(d.Payload, 32))
				p.Close()
				return
			}
			msg := pl[i+1:]
			ti, ok := want[msg]
			if !ok || pl[:i] != fmt.Sprintf("U%d", ti) {
				viol("sent_to_wrong_destination", "round %d: reply %q does not belong to a datagram this session addressed to that target", round, core.Hex(d.Payload, 40))
				p.Close()
				return
			}
			if d.From != tgs[ti].Addr {
				viol("wrong_reply_source", "round %d: reply from U%d (%s) labelled with source %s", round, ti, tgs[ti].Addr, d.From)
				p.Close()
				return
			}
			seen[msg]++
			if seen[msg] > 1 {
				viol("datagram_duplicated", "round %d: datagram %q was answered twice (sent on twice?)", round, msg)
				p.Close()
				return
			}
		}
		if len(p.Errs()) > 0 {
			viol("reply_corrupted", "round %d: the client could not decode a reply: %s", round, p.Errs()[0])
			p.Close()
			return
		}
		delivered += len(want)
		p.Close()
	}
	// every target holds exactly the datagrams addressed to it, each once
	for x, tg := range tgs {
		cnt := map[string]int{}
		for _, d := range tg.Got() {
			cnt[string(d.Payload)]++
			if cnt[string(d.Payload)] > 1 {
				viol("datagram_duplicated", "target U%d received datagram %q twice", x, core.Hex(d.Payload, 32))
				return
			}
		}
	}
	// the fault has to have been observed by the relay itself, or the case decided nothing
	failures := inst.CountLogs("Failed to batch write packets to natConn") + inst.CountLogs("Failed to write packet to natConn")
	if failures == 0 {
		rec.Inconclusive("unsendable: the relay logged no send failure (does this kernel accept the destinations?)")
		return
	}
	rec.Count("unsendable_send_failures_logged_by_relay", int64(failures))
	rec.Count("unsendable_refused_datagrams", int64(refused))
	rec.Count("unsendable_delivered_datagrams", int64(delivered))
	rec.Count("unsendable_longest_refused_run", int64(maxRun))
	rec.Class("%s>direct/batch=%q/unsendable-in-burst", S, batch)
}

// payload = magic | session | seq | target tag(8) | filler
func mkPayload(sess, seq int, tag string, n int) []byte {
	b := make([]byte, 20, 20+n)
	copy(b, "C11!")
	binary.BigEndian.PutUint32(b[4:], uint32(sess))
	binary.BigEndian.PutUint32(b[8:], uint32(seq))
	copy(b[12:20], tag)
	return append(b, core.Pattern(uint64(sess)<<32|uint64(seq), 0, n)...)
}

func parsePayload(b []byte) (sess, seq int, tag string, ok bool) {
	if len(b) < 20 || string(b[:4]) != "C11!" {
		return 0, 0, "", false
	}
	sess = int(binary.BigEndian.Uint32(b[4:]))
	seq = int(binary.BigEndian.Uint32(b[8:]))
	tag = strings.TrimRight(string(b[12:20]), "\x00")
	want := core.Pattern(uint64(sess)<<32|uint64(seq), 0, len(b)-20)
	return sess, seq, tag, bytes.Equal(b[20:], want)
}

type world struct {
	e       *core.Env
	ci      int
	S, C    string
	batch   string
	inst    *svx.Instance
	down    *svx.Client
	targets []*svx.UDPTarget
	dns     *svx.FakeDNS
	portA   int
	tport   int
	viol    func(kind, format string, a ...any)
	desc    map[string]any
}

var dnsOnce sync.Once
var fakeDNS *svx.FakeDNS

// newWorld starts server A (protocol S) -> client "up" (protocol C) -> server B -> direct, and nT targets.
func newWorld(e *core.Env, sub string, ci int, S, C, batch string, nT int, natTimeout string) (*world, error) {
	dnsOnce.Do(func() { fakeDNS = svx.InstallFakeDNS() })
	w := &world{e: e, ci: ci, S: S, C: C, batch: batch, dns: fakeDNS}
	w.desc = map[string]any{"server_protocol": S, "client_protocol": C, "batch_mode": batch}
	w.viol = func(kind, format string, a ...any) {
		var logs []string
		if w.inst != nil {
			logs = w.inst.LogLines(25)
		}
		e.Rec.Violate(sub, ci, core.Sig("kind", kind, "part", sub, "S", S, "C", C, "batch", batch), map[string]any{"case": w.desc, "logs": logs}, format, a...)
	}
	ports := svx.FreePorts(3)
	w.portA, w.tport = ports[0], ports[2]
	t := &svx.Topo{Dir: filepath.Join(e.WorkDir, fmt.Sprintf("%s-%d", sub, ci))}
	so := svx.ServerOpts{UDP: true, BatchMode: batch, NATTimeout: natTimeout}
	soA, soB := so, so
	soA.TCP = strings.HasPrefix(S, "socks5") // the SOCKS5 UDP association runs over a TCP connection
	soB.TCP = strings.HasPrefix(C, "socks5")
	cfg := map[string]any{}
	if C == "direct" {
		cfg["servers"] = []any{t.Server("A", S, ports[0], soA)}
		cfg["clients"] = []any{svx.Direct("direct")}
	} else {
		cfg["servers"] = []any{t.Server("A", S, ports[0], soA), t.Server("B", C, ports[1], soB)}
		cfg["clients"] = []any{t.ClientFor("up", "B", C, ports[1], 1, false, true), svx.Direct("direct")}
		cfg["router"] = map[string]any{"defaultUDPClientName": "direct", "defaultTCPClientName": "direct",
			"routes": []any{map[string]any{"name": "a-up", "network": "udp", "fromServers": []any{"A"}, "client": "up"}}}
	}
	inst, err := svx.Start(svx.JSON(cfg))
	if err != nil {
		return nil, fmt.Errorf("start: %w", err)
	}
	w.inst = inst
	nsrv := 1
	if C != "direct" {
		nsrv = 2
	}
	if soA.TCP {
		nsrv++
	}
	if soB.TCP && C != "direct" {
		nsrv++
	}
	if !inst.WaitLogs("relay service listener", nsrv, 40*time.Second) {
		inst.Stop(10 * time.Second)
		return nil, fmt.Errorf("listeners did not start: %v", inst.LogLines(10))
	}
	down, err := svx.NewClient(svx.JSON(t.ClientFor("down", "A", S, ports[0], 0, false, true)))
	if err != nil {
		inst.Stop(10 * time.Second)
		return nil, fmt.Errorf("downstream client: %w", err)
	}
	w.down = down
	for k := 0; k < nT; k++ {
		ip := fmt.Sprintf("127.0.0.%d", 2+k)
		tg, err := svx.NewUDPTarget(fmt.Sprintf("T%d", k), ip, w.tport)
		if err != nil {
			w.close()
			return nil, fmt.Errorf("target: %w", err)
		}
		w.targets = append(w.targets, tg)
		w.dns.Set(fmt.Sprintf("t%d-%d.test", k, ci), ip)
	}
	return w, nil
}

func (w *world) close() svx.StopResult {
	for _, t := range w.targets {
		t.Close()
	}
	if w.inst != nil {
		return w.inst.Stop(20 * time.Second)
	}
	return svx.StopResult{}
}

func (w *world) targetAddr(k int, domain bool) conn.Addr {
	if domain {
		return conn.MustAddrFromDomainPort(fmt.Sprintf("t%d-%d.test", k, w.ci), uint16(w.tport))
	}
	return conn.AddrFromIPPort(w.targets[k].Addr)
}

// carriesSource reports whether the downstream protocol attaches the true source to replies.
func carriesSource(S string) bool { return true }

var pairsQuick = [][2]string{{"ss128", "direct"}, {"socks5", "ssmulti"}, {"none", "socks5"}, {"ssmulti", "ss256"}, {"ss256", "none"}}

func allPairs() [][2]string {
	var out [][2]string
	for _, s := range svx.UDPProtos {
		for _, c := range append([]string{"direct"}, svx.UDPProtos...) {
			out = append(out, [2]string{s, c})
		}
	}
	return out
}

func runRelay(e *core.Env) {
	rec := e.Rec
	rec.Rule("relay: one case = (server protocol S, client protocol C incl. direct, batch mode recvmmsg/sendmmsg or generic, 3-8 concurrent sessions each sending closed-loop datagrams to IP and domain targets on distinct loopback addresses with a scripted resolver, optional client address change for SS2022, garbage / replayed / foreign-key datagrams interleaved); observed at the target sockets and at the client sockets; class = (S, C, batch, features exercised)")
	pairs := allPairs()
	_ = pairsQuick
	type job struct {
		S, C, batch string
		rep         int
	}
	var jobs []job
	reps := e.N(1, 12)
	for _, p := range pairs {
		for _, b := range []string{"", "no"} {
			for r := 0; r < reps; r++ {
				jobs = append(jobs, job{p[0], p[1], b, r})
			}
		}
	}
	vtime.Freeze()
	core.Parallel(e, "relay", len(jobs), 1, func(i int) {
		j := jobs[i]
		r := core.NewRNG(e.Seed, "c11.relay", i)
		rec.Begin("relay", i, fmt.Sprintf("%+v", j))
		rec.Eval()
		relayCase(e, i, r, j.S, j.C, j.batch)
	})
	// discarded datagrams inside the relay's downlink receive batches
	k := len(jobs)
	for _, S := range []string{"none", "socks5", "ss128"} {
		for _, b := range []string{"", "no"} {
			ci := k
			k++
			if e.Only >= 0 && e.Only != ci {
				continue
			}
			rec.Begin("relay", ci, "downlink-junk "+S+" "+b)
			rec.Eval()
			r := core.NewRNG(e.Seed, "c11.junk", ci)
			core.Guard(e, "relay", ci, func() { junkCase(e, ci, r, S, b) })
		}
	}
	// one session, one host, several ports (by name and by IP)
	for _, S := range []string{"socks5", "none", "ss256"} {
		for _, b := range []string{"", "no"} {
			ci := k
			k++
			if e.Only >= 0 && e.Only != ci {
				continue
			}
			rec.Begin("relay", ci, "two-ports "+S+" "+b)
			rec.Eval()
			r := core.NewRNG(e.Seed, "c11.ports", ci)
			core.Guard(e, "relay", ci, func() { portsCase(e, ci, r, S, b) })
		}
	}
	// send batches that stop part-way at a destination the kernel refuses
	for _, S := range []string{"socks5", "none", "ss128"} {
		for _, b := range []string{"", "no"} {
			ci := k
			k++
			if e.Only >= 0 && e.Only != ci {
				continue
			}
			rec.Begin("relay", ci, "unsendable "+S+" "+b)
			rec.Eval()
			r := core.NewRNG(e.Seed, "c11.unsendable", ci)
			core.Guard(e, "relay", ci, func() { unsendableCase(e, ci, r, S, b) })
		}
	}
	// client address family change (SS2022 sessions follow the client's latest address)
	for _, S := range []string{"ss128", "ss256"} {
		for _, b := range []string{"", "no"} {
			ci := k
			k++
			if e.Only >= 0 && e.Only != ci {
				continue
			}
			rec.Begin("relay", ci, "roam "+S+" "+b)
			rec.Eval()
			core.Guard(e, "relay", ci, func() { roamCase(e, ci, S, b) })
		}
	}
}

// roamCase: an SS2022 session moves from an IPv4 to an IPv6 client address; the size limit of replies must follow.
func roamCase(e *core.Env, ci int, S, batch string) {
	rec := e.Rec
	dnsOnce.Do(func() { fakeDNS = svx.InstallFakeDNS() })
	ports := svx.FreePorts(2)
	t := &svx.Topo{Dir: filepath.Join(e.WorkDir, fmt.Sprintf("roam-%d", ci))}
	cfg := map[string]any{
		"servers": []any{t.Server("A", S, ports[0], svx.ServerOpts{UDP: true, BatchMode: batch, Host: "[::]"})},
		"clients": []any{svx.Direct("direct")},
	}
	inst, err := svx.Start(svx.JSON(cfg))
	if err != nil {
		rec.Inconclusive("roam setup: " + err.Error())
		return
	}
	defer inst.Stop(20 * time.Second)
	viol := func(kind, format string, a ...any) {
		rec.Violate("relay", ci, core.Sig("kind", kind, "part", "relay", "S", S, "C", "direct", "batch", batch, "scenario", "roam"), map[string]any{"logs": inst.LogLines(15)}, format, a...)
	}
	if !inst.WaitLogs("relay service listener", 1, 40*time.Second) {
		rec.Inconclusive("roam listeners")
		return
	}
	down, err := svx.NewClient(svx.JSON(t.ClientFor("down", "A", S, ports[0], 0, false, true)))
	if err != nil {
		rec.Inconclusive("roam client")
		return
	}
	tg, err := svx.NewUDPTarget("R", "127.0.0.2", ports[1])
	if err != nil {
		rec.Inconclusive("roam target")
		return
	}
	defer tg.Close()
	// the target answers with as many bytes as the request asks for
	tg.Reply = func(in []byte) []byte {
		var n int
		fmt.Sscanf(string(in), "LEN:%d", &n)
		return core.Pattern(uint64(n), 0, n)
	}
	p, err := down.NewUDPPeer("127.0.0.1")
	if err != nil {
		rec.Inconclusive("roam peer")
		return
	}
	defer p.Close()
	target := conn.AddrFromIPPort(tg.Addr)
	ask := func(n int, via netip.AddrPort) {
		if via.IsValid() {
			p.SendVia(target, []byte(fmt.Sprintf("LEN:%d", n)), via)
		} else {
			p.Send(target, []byte(fmt.Sprintf("LEN:%d", n)))
		}
	}
	got := func(n int) bool {
		for _, d := range p.Got() {
			if len(d.Payload) == n {
				return true
			}
		}
		return false
	}
	// server->client overhead for an IPv4 source: 16 (separate header) + 19 (fixed header) + 7 (address) + 16 (tag); no padding (port != 53)
	const overhead = 16 + 19 + 7 + 16
	v4max, v6max := 1500-28-overhead, 1500-48-overhead
	ask(v4max, netip.AddrPort{})
	if !svx.Poll(30*time.Second, func() bool { return got(v4max) }) {
		viol("fitting_reply_dropped", "a reply of %d bytes that fits the IPv4 path was not delivered", v4max)
		return
	}
	// roam to IPv6
	if err := p.Rebind("::1"); err != nil {
		rec.Inconclusive("no IPv6 loopback")
		return
	}
	v6 := netip.MustParseAddrPort(fmt.Sprintf("[::1]:%d", ports[0]))
	roamedAt := len(p.Got())
	ask(v6max, v6)
	if !svx.Poll(30*time.Second, func() bool { return got(v6max) }) {
		viol("fitting_reply_dropped", "after the client moved to IPv6 a reply of %d bytes that fits the IPv6 path was not delivered", v6max)
		return
	}
	ask(v6max+6, v6) // fits IPv4, not IPv6
	ask(33, v6)      // marker: processed after the oversize one
	if !svx.Poll(30*time.Second, func() bool { return got(33) }) {
		viol("datagram_or_reply_lost", "marker reply after roaming did not arrive")
		return
	}
	for di, d := range p.Got() {
		if di >= roamedAt && d.Via != p.Local() {
			viol("reply_to_stale_client_address", "the client moved to %s; a reply to a datagram it sent from there was delivered to its previous address %s", p.Local(), d.Via)
			return
		}
		if d.Raw.Addr().Is6() && !d.Raw.Addr().Is4In6() && d.RawLen > 1500-48 {
			viol("mtu_exceeded", "after the client moved to an IPv6 address the relay sent it a %d-byte packet; the IPv6 path allows %d", d.RawLen, 1500-48)
			return
		}
	}
	rec.Class("%s>direct/batch=%q/roam-v4-to-v6", S, batch)
	rec.Count("roam_cases", 1)
}

// junkCase: the harness plays the upstream Shadowsocks-none server itself, so that it can interleave valid replies with
// datagrams the relay must discard (from a stranger's socket, or unparsable ones from the server) inside the same
// receive batch on the relay's upstream-facing socket. The client must get exactly the valid replies.
func junkCase(e *core.Env, ci int, r *core.RNG, S, batch string) {
	rec := e.Rec
	ports := svx.FreePorts(2)
	t := &svx.Topo{Dir: filepath.Join(e.WorkDir, fmt.Sprintf("junk-%d", ci))}
	so := svx.ServerOpts{UDP: true, BatchMode: batch, TCP: strings.HasPrefix(S, "socks5")}
	up, err := net.ListenUDP("udp", &net.UDPAddr{IP: net.IPv4(127, 0, 0, 1)})
	if err != nil {
		rec.Inconclusive("junk upstream socket")
		return
	}
	defer up.Close()
	upPort := up.LocalAddr().(*net.UDPAddr).Port
	cfg := map[string]any{
		"servers": []any{t.Server("A", S, ports[0], so)},
		"clients": []any{map[string]any{"name": "up", "protocol": "none", "endpoint": fmt.Sprintf("127.0.0.1:%d", upPort), "enableUDP": true, "mtu": 1500}},
	}
	inst, err := svx.Start(svx.JSON(cfg))
	if err != nil {
		rec.Inconclusive("junk setup: " + err.Error())
		return
	}
	defer inst.Stop(20 * time.Second)
	viol := func(kind, format string, a ...any) {
		rec.Violate("relay", ci, core.Sig("kind", kind, "part", "relay", "S", S, "C", "none(harness)", "batch", batch, "scenario", "downlink-junk"), map[string]any{"logs": inst.LogLines(12)}, format, a...)
	}
	nl := 1
	if so.TCP {
		nl = 2
	}
	if !inst.WaitLogs("relay service listener", nl, 40*time.Second) {
		rec.Inconclusive("junk listeners")
		return
	}
	down, err := svx.NewClient(svx.JSON(t.ClientFor("down", "A", S, ports[0], 0, false, true)))
	if err != nil {
		rec.Inconclusive("junk client")
		return
	}
	p, err := down.NewUDPPeer("127.0.0.1")
	if err != nil {
		rec.Inconclusive("junk peer: " + err.Error())
		return
	}
	defer p.Close()
	stranger, _ := net.ListenUDP("udp", &net.UDPAddr{IP: net.IPv4(127, 0, 0, 1)})
	defer stranger.Close()
	target := netip.MustParseAddrPort("203.0.113.77:7777")
	tHdr := []byte{1, 203, 0, 113, 77, 0x1e, 0x61} // SOCKS address of the target
	want := map[string]bool{}
	rounds := e.N(6, 40)
	buf := make([]byte, 65536)
	for round := 0; round < rounds; round++ {
		p.Send(conn.AddrFromIPPort(target), []byte(fmt.Sprintf("req-%d", round)))
		// the relay's upstream-facing socket shows itself to the played server
		type rx struct {
			n    int
			from netip.AddrPort
		}
		got := make(chan rx, 1)
		go func() {
			n, from, err := up.ReadFromUDPAddrPort(buf)
			if err == nil {
				got <- rx{n, from}
			}
		}()
		var in rx
		if !svx.Poll(30*time.Second, func() bool {
			select {
			case in = <-got:
				return true
			default:
				return false
			}
		}) {
			viol("datagram_or_reply_lost", "round %d: the datagram did not reach the upstream server", round)
			return
		}
		if in.n < 7 || string(buf[7:in.n]) != fmt.Sprintf("req-%d", round) || !bytes.Equal(buf[:7], tHdr) {
			viol("payload_corrupted", "round %d: upstream received %q", round, buf[:in.n])
			return
		}
		// burst: valid replies interleaved with datagrams that must be discarded
		nRep := r.Pick(4, 16, 16, 40)
		for j := 0; j < nRep; j++ {
			if r.Chance(1, 2) {
				stranger.WriteToUDPAddrPort(append(append([]byte{}, tHdr...), []byte(fmt.Sprintf("STRANGER-%d-%d", round, j))...), in.from)
			}
			if r.Chance(1, 4) {
				up.WriteToUDPAddrPort([]byte{byte(r.Pick(0, 2, 9)), 1, 2, 3}, in.from) // unparsable address type from the server itself
			}
			pl := fmt.Sprintf("rep-%d-%d-", round, j) + string(core.Pattern(uint64(round*100+j), 0, r.Pick(0, 10, 900)))
			want[pl] = true
			up.WriteToUDPAddrPort(append(append([]byte{}, tHdr...), pl...), in.from)
		}
		ok := svx.Poll(30*time.Second, func() bool { return len(p.Got())+len(p.Errs()) >= len(want) })
		if !ok {
			viol("datagram_or_reply_lost", "round %d: the client holds %d of %d valid replies", round, len(p.Got()), len(want))
			return
		}
	}
	vtime.RealSleep(20 * time.Millisecond)
	if errs := p.Errs(); len(errs) > 0 {
		viol("reply_corrupted", "the client received %d datagrams it could not decode (first: %s)", len(errs), errs[0])
		return
	}
	seen := map[string]int{}
	for _, d := range p.Got() {
		pl := string(d.Payload)
		if !want[pl] {
			viol("reply_corrupted", "the client received a datagram the upstream never sent as a valid reply: %q (source %s)", core.Hex(d.Payload, 40), d.From)
			return
		}
		seen[pl]++
		if seen[pl] > 1 {
			viol("reply_duplicated", "reply %q delivered twice", pl[:12])
			return
		}
		if d.From != target {
			viol("wrong_reply_source", "reply labelled with source %s, want %s", d.From, target)
			return
		}
	}
	if len(seen) != len(want) {
		viol("datagram_or_reply_lost", "the client holds %d of %d valid replies", len(seen), len(want))
		return
	}
	rec.Count("junk_rounds", int64(rounds))
	rec.Count("junk_valid_replies", int64(len(want)))
	rec.Class("%s>none(harness)/batch=%q/downlink-junk", S, batch)
}

func relayCase(e *core.Env, ci int, r *core.RNG, S, C, batch string) {
	rec := e.Rec
	nT := 4
	w, err := newWorld(e, "relay", ci, S, C, batch, nT, "")
	if err != nil {
		rec.Inconclusive("setup: " + err.Error())
		rec.Note("setup %s>%s: %v", S, C, err)
		return
	}
	stopped := false
	defer func() {
		if !stopped {
			w.close()
		}
	}()
	baseG, _ := svx.RelayGoroutines()
	nSess := r.Range(3, 8)
	peers := make([]*svx.UDPPeer, nSess)
	for s := range peers {
		p, err := w.down.NewUDPPeer("127.0.0.1")
		if err != nil {
			rec.Inconclusive("peer: " + err.Error())
			return
		}
		defer p.Close()
		peers[s] = p
	}
	feats := map[string]bool{}
	serverAP := netip.MustParseAddrPort(fmt.Sprintf("127.0.0.1:%d", w.portA))
	garbageSent := 0
	// unparsable on purpose: for the unauthenticated protocols random bytes could happen to parse as a genuine
	// datagram (which legitimately starts a session): invalid ATYP / non-zero FRAG
	mkGarbage := func() []byte {
		g := r.Bytes(r.Pick(1, 15, 16, 31, 32, 48, 200))
		switch {
		case S == "none":
			g[0] = byte(r.Pick(0, 2, 5, 0x7f, 0xff))
		case strings.HasPrefix(S, "socks5"):
			if len(g) < 3 {
				g = append(g, 1, 1, 1)
			}
			g[2] = byte(r.Pick(1, 0x80, 0xff))
		}
		return g
	}
	// for some clients the very first datagram the relay sees from their address is one it cannot parse: that must
	// neither start anything nor stand in the way of the genuine datagrams that follow from the same address
	for _, p := range peers {
		if r.Chance(1, 2) {
			p.SendRaw(serverAP, mkGarbage())
			garbageSent++
			feats["garbage-first"] = true
		}
	}
	rebindAt, rebound := 0, false
	// expected: per (sess,seq) intended target tag
	type sent struct {
		sess, seq int
		tgt       int
		n         int
	}
	var all []sent
	rounds := e.N(6, 12)
	startedBefore := w.inst.CountLogs("relay started")
	garbageSrc, _ := net.ListenUDP("udp", &net.UDPAddr{IP: net.IPv4(127, 0, 0, 1)})
	defer garbageSrc.Close()
	for round := 0; round < rounds; round++ {
		// every session sends one datagram (all in flight at once => concurrent sessions / resolutions), then we wait for all replies
		var batchSent []sent
		for s, p := range peers {
			tk := (s + round) % nT
			domain := r.Chance(1, 3)
			if domain {
				feats["domain"] = true
			}
			n := r.Pick(0, 1, 100, 1000, 1200)
			if err := p.Send(w.targetAddr(tk, domain), mkPayload(s, round, w.targets[tk].Tag, n)); err != nil {
				w.viol("send_failed", "downstream client could not pack/send: %v", err)
				return
			}
			batchSent = append(batchSent, sent{s, round, tk, n})
			if r.Chance(1, 3) {
				// garbage to the relay's listener from a foreign socket
				garbageSrc.WriteToUDPAddrPort(mkGarbage(), serverAP)
				garbageSent++
				feats["garbage"] = true
			}
		}
		all = append(all, batchSent...)
		want := len(all)
		ok := svx.Poll(30*time.Second, func() bool {
			got := 0
			for _, p := range peers {
				got += len(p.Got())
			}
			return got >= want
		})
		if !ok {
			// closed loop, loss-free loopback: a missing reply is a delivery failure
			got := 0
			for _, p := range peers {
				got += len(p.Got())
			}
			w.desc["round"] = round
			w.viol("datagram_or_reply_lost", "after round %d only %d of %d replies arrived (closed loop, one datagram in flight per session)", round, got, want)
			return
		}
		// SS2022: move one session to a new socket mid-way; replies must follow the latest address
		if strings.HasPrefix(S, "ss") && round == rounds/2 {
			// closed loop: every reply to what the old address sent has arrived by now
			rebindAt = len(peers[0].Got())
			if err := peers[0].Rebind("127.0.0.1"); err == nil {
				feats["rebind"] = true
				rebound = true
			}
		}
	}
	// ---- a failed name resolution must not redirect later datagrams (same session, same upstream packer) ----
	{
		p := peers[0]
		nameOK, nameBad := 0, 1
		before := len(p.Got())
		seqA, seqDrop, seqB := rounds, rounds+1, rounds+2
		p.Send(w.targetAddr(nameOK, true), mkPayload(0, seqA, w.targets[nameOK].Tag, 10))
		all = append(all, sent{0, seqA, nameOK, 10})
		if !svx.Poll(30*time.Second, func() bool { return len(p.Got()) >= before+1 }) {
			w.viol("datagram_or_reply_lost", "reply for the pre-failure domain datagram did not arrive")
			return
		}
		bad := fmt.Sprintf("t%d-%d.test", nameBad, w.ci)
		// a fresh name for the failing target so that no resolver cache hides the failure
		fresh := "x" + bad
		w.dns.Set(fresh, w.targets[nameBad].Addr.Addr().String())
		w.dns.FailNext(fresh, 64)
		warnBefore := w.inst.CountLogs("Failed to pack packet")
		p.Send(conn.MustAddrFromDomainPort(fresh, uint16(w.tport)), mkPayload(0, seqDrop, w.targets[nameBad].Tag, 10))
		dropped := svx.Poll(30*time.Second, func() bool { return w.inst.CountLogs("Failed to pack packet") > warnBefore })
		w.dns.FailNext(fresh, 0)
		if dropped {
			feats["dnsfail"] = true
			p.Send(conn.MustAddrFromDomainPort(fresh, uint16(w.tport)), mkPayload(0, seqB, w.targets[nameBad].Tag, 10))
			all = append(all, sent{0, seqB, nameBad, 10})
			if !svx.Poll(30*time.Second, func() bool { return len(p.Got()) >= before+2 }) {
				// fall through: the target-side checks below say where it went
				feats["dnsfail-noreply"] = true
			}
		}
		_ = seqDrop
	}
	extra := len(all) - nSess*rounds
	// ---- safety at the targets ----
	seen := map[[2]int]int{}
	for k, tg := range w.targets {
		for _, d := range tg.Got() {
			sess, seq, tag, ok := parsePayload(d.Payload)
			if !ok {
				w.viol("payload_corrupted", "target %s received a corrupted payload (%d bytes)", tg.Tag, len(d.Payload))
				return
			}
			if tag != tg.Tag {
				w.viol("misdelivered", "datagram of session %d seq %d addressed to %s arrived at target %s (#%d)", sess, seq, tag, tg.Tag, k)
				return
			}
			seen[[2]int{sess, seq}]++
		}
	}
	for _, s := range all {
		c := seen[[2]int{s.sess, s.seq}]
		if c != 1 {
			w.viol("delivery_count", "datagram session %d seq %d was delivered %d times", s.sess, s.seq, c)
			return
		}
	}
	// ---- replies at the clients ----
	for s, p := range peers {
		seqs := map[int]bool{}
		for di, d := range p.Got() {
			i := bytes.IndexByte(d.Payload, '|')
			if i < 0 {
				w.viol("reply_corrupted", "client %d received a reply without target tag", s)
				return
			}
			tag := string(d.Payload[:i])
			sess, seq, ptag, ok := parsePayload(d.Payload[i+1:])
			if !ok || ptag != tag {
				w.viol("reply_corrupted", "client %d received a corrupted reply", s)
				return
			}
			if sess != s {
				w.viol("reply_to_wrong_client", "reply for session %d was delivered to the client of session %d", sess, s)
				return
			}
			if seqs[seq] {
				w.viol("reply_duplicated", "reply seq %d delivered twice to client %d", seq, s)
				return
			}
			if s == 0 && rebound && di >= rebindAt && d.Via != p.Local() {
				w.viol("reply_to_stale_client_address", "client 0 moved to %s; the reply to a datagram it sent from there (seq %d) was delivered to its previous address %s", p.Local(), seq, d.Via)
				return
			}
			seqs[seq] = true
			// true source attached
			var wantSrc netip.AddrPort
			for _, tg := range w.targets {
				if tg.Tag == tag {
					wantSrc = tg.Addr
				}
			}
			if d.From.Addr().Unmap() != wantSrc.Addr() || d.From.Port() != wantSrc.Port() {
				w.viol("wrong_reply_source", "reply from target %s (%s) reached client %d labelled with source %s", tag, wantSrc, s, d.From)
				return
			}
		}
		wantReplies := rounds
		if s == 0 {
			wantReplies += extra
		}
		if len(seqs) != wantReplies {
			w.viol("datagram_or_reply_lost", "client %d got %d of %d replies", s, len(seqs), wantReplies)
			return
		}
	}
	// ---- garbage created nothing ----
	started := w.inst.CountLogs("relay started") - startedBefore
	wantStarted := nSess
	if C != "direct" {
		wantStarted = 2 * nSess
	}
	if started != wantStarted {
		w.viol("unexpected_sessions", "%d sessions were started for %d genuine client sessions (%d garbage datagrams interleaved)", started, wantStarted, garbageSent)
		return
	}
	g, _ := svx.RelayGoroutines()
	rec.Count("datagrams_at_targets", int64(len(all)))
	rec.Count("replies_at_clients", int64(len(all)))
	rec.Count("garbage_datagrams", int64(garbageSent))
	rec.Max("relay_goroutines_peak", int64(g-baseG))
	// ---- stop: prompt, nothing left behind ----
	sr := w.close()
	stopped = true
	if !sr.Returned {
		w.viol("stop_hung", "service did not stop")
		return
	}
	var fl []string
	for _, k := range core.SortedKeys(feats) {
		fl = append(fl, k)
	}
	rec.Class("%s>%s/batch=%q/feats=%s", S, C, batch, strings.Join(fl, "+"))
	rec.Sample(6, map[string]any{"S": S, "C": C, "batch": batch, "sessions": nSess, "rounds": rounds, "features": fl, "garbage": garbageSent, "stop_virtual": sr.Virtual.String()})
}

// runStress: real clock, race detector, many sessions at a high rate with domains resolving concurrently.
func runStress(e *core.Env) {
	rec := e.Rec
	rec.Rule("stress: race-detector build, real clock: 16-48 concurrent sessions blasting datagrams to IP and domain targets through a (server protocol, client protocol) pair without waiting; only safety is judged (no misdelivery, no duplication, no corruption, replies only to the owner); class = (S, C, batch, loss bucket)")
	pairs := [][2]string{{"socks5", "direct"}, {"ss128", "direct"}, {"none", "ssmulti"}}
	if !e.Quick() {
		pairs = append(pairs, [2]string{"ssmulti", "socks5"}, [2]string{"ss256", "ss128"}, [2]string{"socks5", "none"})
	}
	i := 0
	for _, p := range pairs {
		for _, b := range []string{"", "no"} {
			ci := i
			i++
			if e.Only >= 0 && e.Only != ci {
				continue
			}
			core.Guard(e, "stress", ci, func() { stressCase(e, ci, p[0], p[1], b) })
			rec.Eval()
		}
	}
}

func stressCase(e *core.Env, ci int, S, C, batch string) {
	rec := e.Rec
	r := core.NewRNG(e.Seed, "c11.stress", ci)
	rec.Begin("stress", ci, fmt.Sprintf("%s>%s %q", S, C, batch))
	nT := 4
	w, err := newWorld(e, "stress", ci, S, C, batch, nT, "")
	if err != nil {
		rec.Inconclusive("setup: " + err.Error())
		return
	}
	defer w.close()
	nSess := e.N(16, 48)
	per := e.N(60, 300)
	peers := make([]*svx.UDPPeer, nSess)
	for s := range peers {
		p, err := w.down.NewUDPPeer("127.0.0.1")
		if err != nil {
			rec.Inconclusive("peer")
			return
		}
		defer p.Close()
		peers[s] = p
	}
	var wg sync.WaitGroup
	for s, p := range peers {
		wg.Add(1)
		rs := core.NewRNG(int64(r.Uint64()), "s", s)
		go func(s int, p *svx.UDPPeer) {
			defer wg.Done()
			for q := 0; q < per; q++ {
				tk := rs.Intn(nT)
				p.Send(w.targetAddr(tk, rs.Bool()), mkPayload(s, q, w.targets[tk].Tag, rs.Pick(0, 64, 1000)))
				if q%16 == 0 {
					time.Sleep(time.Millisecond)
				}
			}
		}(s, p)
	}
	wg.Wait()
	time.Sleep(300 * time.Millisecond)
	seen := map[[2]int]int{}
	total := 0
	for _, tg := range w.targets {
		for _, d := range tg.Got() {
			sess, seq, tag, ok := parsePayload(d.Payload)
			if !ok {
				w.viol("payload_corrupted", "target %s received a corrupted payload", tg.Tag)
				return
			}
			if tag != tg.Tag {
				w.viol("misdelivered", "datagram of session %d seq %d addressed to %s arrived at %s", sess, seq, tag, tg.Tag)
				return
			}
			seen[[2]int{sess, seq}]++
			if seen[[2]int{sess, seq}] > 1 {
				w.viol("delivery_count", "datagram session %d seq %d delivered twice", sess, seq)
				return
			}
			total++
		}
	}
	replies := 0
	for s, p := range peers {
		for _, d := range p.Got() {
			i := bytes.IndexByte(d.Payload, '|')
			if i < 0 {
				w.viol("reply_corrupted", "reply without tag")
				return
			}
			sess, _, _, ok := parsePayload(d.Payload[i+1:])
			if !ok {
				w.viol("reply_corrupted", "corrupted reply")
				return
			}
			if sess != s {
				w.viol("reply_to_wrong_client", "reply for session %d delivered to client %d", sess, s)
				return
			}
			replies++
		}
	}
	rec.Count("stress_datagrams_at_targets", int64(total))
	rec.Count("stress_replies", int64(replies))
	sentTotal := nSess * per
	if total == 0 {
		rec.Inconclusive("stress: nothing arrived")
		return
	}
	rec.Class("%s>%s/batch=%q/arrived~%d%%", S, C, batch, total*10/sentTotal*10)
	rec.Sample(6, map[string]any{"S": S, "C": C, "batch": batch, "sent": sentTotal, "arrived": total, "replies": replies})
}
