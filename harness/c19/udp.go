package c19

// Part "udp" (ft flavour: process-wide virtual clock, real loopback sockets).
//
// probe/udp.go opens a real *net.UDPConn, so UDP groups with a probing policy
// cannot run on in-memory fakes or inside a synctest bubble. Here the fake
// zerocopy.UDPClient of the harness hands the real DNS probe a packer that
// routes its query to one loopback responder socket of the harness; the
// responder plays the member's script (answer after a virtual latency, junk
// that the probe must ignore, silence, a failing session).
//
// The virtual clock is frozen except inside vtime.Advance. Several groups of a
// batch share the clock (same timeout, interval and latency values), and the
// driver steps it from event instant to event instant. Between steps it waits
// in REAL time for causal evidence that the real code has caught up:
//
//   - the service context handed to ProbeService.Start is a context of the
//     harness with an AfterFunc method (the documented hook of package
//     context): context.WithDeadline/WithTimeout in the probe job registers
//     there right after the job took its start time, and the job's deferred
//     cancel() unregisters right after it took the latency. So "registered"
//     and "released" counts bracket the measurements and the clock is never
//     moved while a measurement is in progress.
//   - the store of the new selection after the last job of a round has no
//     observable successor, so "after the round" is checked by polling: the
//     group must come to serve the model's client within a generous real-time
//     limit at a frozen virtual instant. "During the round" is strict: as long
//     as a member's probe is pending, nothing but the previous choice may be served.
//
// Loss of synchronisation (a count not reached in real time) is inconclusive, never a violation.

import (
	"context"
	"encoding/binary"
	"errors"
	"fmt"
	"net"
	"net/netip"
	"sort"
	"strings"
	"sync"
	"sync/atomic"
	"time"

	"github.com/database64128/shadowsocks-go"
	"github.com/database64128/shadowsocks-go/clientgroups"
	"github.com/database64128/shadowsocks-go/conn"
	"github.com/database64128/shadowsocks-go/jsoncfg"
	"github.com/database64128/shadowsocks-go/netio"
	"github.com/database64128/shadowsocks-go/zerocopy"
	"go.uber.org/zap"

	"verif/core"
	"verif/vtime"
)

func init() { core.Register("C19", "udp", runUDP) }

// ---- hook context ----

type hookCtx struct {
	done       chan struct{}
	mu         sync.Mutex
	err        error
	next       int
	pending    map[int]func()
	registered atomic.Int64
	released   atomic.Int64
}

func newHookCtx() *hookCtx { return &hookCtx{done: make(chan struct{}), pending: map[int]func(){}} }

func (c *hookCtx) Deadline() (time.Time, bool) { return time.Time{}, false }
func (c *hookCtx) Done() <-chan struct{}       { return c.done }
func (c *hookCtx) Value(any) any               { return nil }
func (c *hookCtx) Err() error {
	c.mu.Lock()
	defer c.mu.Unlock()
	return c.err
}

// AfterFunc is the method package context looks for when a child context is derived.
func (c *hookCtx) AfterFunc(f func()) func() bool {
	c.mu.Lock()
	if c.err != nil {
		c.mu.Unlock()
		go f()
		return func() bool { return false }
	}
	id := c.next
	c.next++
	c.pending[id] = f
	c.mu.Unlock()
	c.registered.Add(1)
	return func() bool {
		c.mu.Lock()
		_, ok := c.pending[id]
		delete(c.pending, id)
		c.mu.Unlock()
		if ok {
			c.released.Add(1)
		}
		return ok
	}
}

func (c *hookCtx) cancel() {
	c.mu.Lock()
	if c.err != nil {
		c.mu.Unlock()
		return
	}
	c.err = context.Canceled
	fs := c.pending
	c.pending = map[int]func(){}
	close(c.done)
	c.mu.Unlock()
	for _, f := range fs {
		go f()
	}
}

// ---- scripted UDP steps ----

type ustepKind uint8

const (
	uOK         ustepKind = iota // proper answer at Lat
	uJunkThenOK                  // a packet the probe must ignore at Junk, the proper answer at Lat
	uSilence                     // nothing comes back
	uJunkOnly                    // only packets the probe must ignore
	uSessionErr                  // NewSession fails
)

// junk variants
const (
	jShort = iota // 5 bytes: no DNS header
	jWrongID
	jServFail
	jNotResponse
	jWrongSource // proper answer, but the unpacker reports another source address
	jKinds
)

var junkNames = [...]string{"short", "wrong-id", "servfail", "not-a-response", "wrong-source"}

type ustep struct {
	Kind ustepKind
	Lat  time.Duration
	Junk time.Duration
	JK   int
}

func (s ustep) sample() sample {
	if s.Kind == uOK || s.Kind == uJunkThenOK {
		return sample{ok: true, lat: s.Lat}
	}
	return sample{}
}

// endsAt returns the virtual offset from the start of the probe at which the probe returns.
func (s ustep) endsAt(timeout time.Duration) time.Duration {
	switch s.Kind {
	case uOK, uJunkThenOK:
		return s.Lat
	case uSessionErr:
		return 0
	}
	return timeout
}

func (s ustep) String() string {
	switch s.Kind {
	case uOK:
		return fmt.Sprint(int64(s.Lat / ms))
	case uJunkThenOK:
		return fmt.Sprintf("%s@%d,%d", junkNames[s.JK], int64(s.Junk/ms), int64(s.Lat/ms))
	case uSilence:
		return "silence"
	case uJunkOnly:
		return "only-" + junkNames[s.JK]
	default:
		return "session-error"
	}
}

// ---- fake UDP client for probing ----

type queryKey struct{}

var queryCtx = context.WithValue(context.Background(), queryKey{}, true)

const uHdr = 16 // front headroom used by the fake packer: group u16, pos u8, flags u8, probe number u32, virtual start i64

var errSession = errors.New("c19: scripted session failure")

type udpGroupWorld struct {
	b         *udpBatch
	g         int
	policy    string
	members   []int // fake indices in configuration order
	names     int
	fakes     []*udpProbeFake
	scripts   [][]ustep // per member position
	profiles  []string
	group     zerocopy.UDPClient
	ctx       *hookCtx
	model     *refModel
	memberPos map[int]int
	trail     []string
	events    map[string]bool
	failed    bool
	start     func(ctx context.Context) error
}

type udpProbeFake struct {
	w       *udpGroupWorld
	idx     int
	pos     int // position in the group, -1 = not a member
	name    string
	started atomic.Int64
	closed  atomic.Int64
}

func (f *udpProbeFake) Info() zerocopy.UDPClientInfo {
	return zerocopy.UDPClientInfo{Name: f.name, PackerHeadroom: zerocopy.Headroom{Front: uHdr}}
}

func (f *udpProbeFake) NewSession(ctx context.Context) (zerocopy.UDPClientSessionInfo, zerocopy.UDPClientSession, error) {
	info := zerocopy.UDPClientSessionInfo{Name: f.name, PackerHeadroom: zerocopy.Headroom{Front: uHdr}, MTU: 1500, ListenConfig: conn.DefaultUDPClientListenConfig}
	if ctx.Value(queryKey{}) != nil {
		return info, zerocopy.UDPClientSession{Close: zerocopy.NoopClose}, &pickedErr{f.idx}
	}
	k := int(f.started.Add(1) - 1)
	st := ustep{Kind: uSilence}
	if f.pos >= 0 && k < len(f.w.scripts[f.pos]) {
		st = f.w.scripts[f.pos][k]
	} else {
		f.w.b.offScript.Add(1)
	}
	if st.Kind == uSessionErr {
		f.closed.Add(1)
		return info, zerocopy.UDPClientSession{Close: zerocopy.NoopClose}, errSession
	}
	pk := &udpFakePacker{f: f, k: k}
	var once sync.Once
	return info, zerocopy.UDPClientSession{
		MaxPacketSize: 1400,
		Packer:        pk,
		Unpacker:      pk,
		Close: func() error {
			once.Do(func() { f.closed.Add(1) })
			return nil
		},
	}, nil
}

// udpFakePacker is both directions of a fake proxy protocol: a 16-byte header in front of the payload.
type udpFakePacker struct {
	f *udpProbeFake
	k int
}

func (p *udpFakePacker) ClientPackerInfo() zerocopy.ClientPackerInfo {
	return zerocopy.ClientPackerInfo{Headroom: zerocopy.Headroom{Front: uHdr}}
}

func (p *udpFakePacker) ClientUnpackerInfo() zerocopy.ClientUnpackerInfo {
	return zerocopy.ClientUnpackerInfo{}
}

func (p *udpFakePacker) PackInPlace(ctx context.Context, b []byte, targetAddr conn.Addr, payloadStart, payloadLen int) (netip.AddrPort, int, int, error) {
	if payloadStart < uHdr {
		return netip.AddrPort{}, 0, 0, fmt.Errorf("c19: front headroom %d < %d", payloadStart, uHdr)
	}
	if !targetAddr.Equals(p.f.w.b.probeAddr) {
		p.f.w.b.badTarget.Add(1)
	}
	h := b[payloadStart-uHdr : payloadStart]
	binary.BigEndian.PutUint16(h[0:], uint16(p.f.w.g))
	h[2] = byte(p.f.pos)
	h[3] = 0
	binary.BigEndian.PutUint32(h[4:], uint32(p.k))
	binary.BigEndian.PutUint64(h[8:], uint64(time.Now().UnixNano()))
	return p.f.w.b.respAddr, payloadStart - uHdr, payloadLen + uHdr, nil
}

func (p *udpFakePacker) UnpackInPlace(b []byte, packetSourceAddrPort netip.AddrPort, packetStart, packetLen int) (netip.AddrPort, int, int, error) {
	if packetLen < uHdr {
		return netip.AddrPort{}, 0, 0, errors.New("c19: short packet")
	}
	src := p.f.w.b.probeAddr.IPPort()
	if b[packetStart+3]&1 != 0 {
		src = netip.AddrPortFrom(netip.MustParseAddr("192.0.2.77"), 53)
	}
	return src, packetStart + uHdr, packetLen - uHdr, nil
}

// ---- batch ----

type udpBatch struct {
	rec       *core.Rec
	bi        int
	timeout   time.Duration
	interval  time.Duration
	rounds    int
	lats      []time.Duration
	probeAddr conn.Addr
	respAddr  netip.AddrPort
	sock      *net.UDPConn
	groups    []*udpGroupWorld
	t0        time.Time
	received  atomic.Int64
	sent      atomic.Int64
	offScript atomic.Int64
	badTarget atomic.Int64
	badQuery  atomic.Int64
}

func poll(max time.Duration, f func() bool) bool {
	step := 50 * time.Microsecond
	for waited := time.Duration(0); waited < max; waited += step {
		if f() {
			return true
		}
		vtime.RealSleep(step)
		if step < time.Millisecond {
			step += 50 * time.Microsecond
		}
	}
	return f()
}

func runUDP(e *core.Env) {
	rec := e.Rec
	rec.Rule("udp: one case = a batch of 6 UDP groups (1-4 members out of up to 6 named fake UDP clients each, one of the three probing policies) whose real DNS probes (probe/udp.go) run over real loopback sockets to one scripted responder, for 100-110 rounds on the process-wide virtual clock; " +
		"member profiles as in the probe part (iid, phases, flip64/flip32, twin, const, dead); steps: answer after 10-50 ms, ignorable junk (short, wrong id, servfail, not a response, wrong source) then the answer, junk only, silence, failing session; " +
		"class = udp/policy/n/event really observed (switch, tie-first, wrap-matters, held-during-round, junk kinds ignored, failing session)")
	if !vtime.Virtual {
		rec.Inconclusive("udp part needs the faketime flavour")
		return
	}
	vtime.Freeze()
	n := e.N(12, 150)
	core.Parallel(e, "udp", n, 1, func(i int) {
		rec.Begin("udp", i, "")
		// no core.Watchdog here: its timer would run on the virtual clock. Every wait below is bounded in real time (poll).
		udpBatchCase(e, i)
	})
}

const udpGroupsPerBatch = 6

func udpBatchCase(e *core.Env, bi int) {
	rec := e.Rec
	r := core.NewRNG(e.Seed, "c19.udp", bi)
	b := &udpBatch{rec: rec, bi: bi}
	b.timeout = time.Duration(r.Pick(200, 1000, 5000)) * ms
	b.interval = b.timeout + time.Duration(r.Pick(1, 10, 1000))*ms
	b.rounds = r.Range(100, 110)
	b.lats = []time.Duration{10 * ms, 20 * ms, 30 * ms, 50 * ms}
	b.probeAddr = conn.AddrFromIPAndPort(netip.MustParseAddr("198.51.100.53"), 53)
	sock, err := net.ListenUDP("udp4", &net.UDPAddr{IP: net.IPv4(127, 0, 0, 1)})
	if err != nil {
		rec.Inconclusive("udp-listen: " + err.Error())
		return
	}
	defer sock.Close()
	b.sock = sock
	b.respAddr = sock.LocalAddr().(*net.UDPAddr).AddrPort()
	for g := 0; g < udpGroupsPerBatch; g++ {
		b.groups = append(b.groups, genUDPGroup(r, b, g))
	}
	go b.respond()

	hc := newHookCtx()
	defer hc.cancel()
	b.t0 = time.Now()
	for _, w := range b.groups {
		w.ctx = hc
		if !w.build() {
			return
		}
	}
	// before anything runs every group serves its first member
	for _, w := range b.groups {
		w.observe("before-start", 0, true)
	}
	for _, w := range b.groups {
		if err := w.start(hc); err != nil {
			core.Fatalf("C19 udp: Start: %v", err)
		}
	}
	vtime.RealSleep(3 * time.Millisecond) // let the probe loops create their tickers at virtual t0 (verified below by the first round's counts)

	totalMembers := 0
	for _, w := range b.groups {
		totalMembers += len(w.members)
	}
	sync := func(what string, f func() bool) bool {
		if poll(8*time.Second, f) {
			return true
		}
		rec.Inconclusive("udp-sync:" + what)
		rec.Note("udp batch %d: lost synchronisation at %s: registered=%d released=%d received=%d sent=%d", bi, what, hc.registered.Load(), hc.released.Load(), b.received.Load(), b.sent.Load())
		return false
	}
	advanceTo := func(off time.Duration) {
		if d := b.t0.Add(off).Sub(time.Now()); d > 0 {
			vtime.Advance(d)
		}
	}
	var wantReceived, wantReleased int64
	completedRounds := 0
	for k := 0; k < b.rounds; k++ {
		tick := time.Duration(k+1) * b.interval
		advanceTo(tick)
		// every job of the round has taken its start time (at the frozen tick) ...
		if !sync(fmt.Sprintf("round %d registered", k), func() bool { return hc.registered.Load() == int64((k+1)*totalMembers) }) {
			return
		}
		// ... and every query has reached the responder
		for _, w := range b.groups {
			for pos := range w.members {
				if w.scripts[pos][k].Kind != uSessionErr {
					wantReceived++
				}
			}
		}
		if !sync(fmt.Sprintf("round %d queries", k), func() bool { return b.received.Load() == wantReceived }) {
			return
		}
		// event instants of this round, relative to the tick
		instants := map[time.Duration]bool{0: true, b.timeout: true}
		for _, w := range b.groups {
			for pos := range w.members {
				st := w.scripts[pos][k]
				instants[st.endsAt(b.timeout)] = true
				if st.Kind == uJunkThenOK {
					instants[st.Junk] = true
				}
			}
		}
		var order []time.Duration
		for d := range instants {
			order = append(order, d)
		}
		sort.Slice(order, func(i, j int) bool { return order[i] < order[j] })
		for _, at := range order {
			advanceTo(tick + at)
			// jobs that return at this instant without running into the deadline release the hook after taking their latency;
			// jobs that run into the deadline are released by the deadline timer itself
			for _, w := range b.groups {
				for pos := range w.members {
					if w.scripts[pos][k].endsAt(b.timeout) == at {
						wantReleased++
					}
				}
			}
			if !sync(fmt.Sprintf("round %d +%v released", k, at), func() bool { return hc.released.Load() == wantReleased }) {
				return
			}
			for _, w := range b.groups {
				if w.failed {
					continue
				}
				pending := false
				for pos := range w.members {
					if w.scripts[pos][k].endsAt(b.timeout) > at {
						pending = true
					}
				}
				if pending {
					w.observe(fmt.Sprintf("round %d +%v", k, at), k, true)
				} else if at == b.timeout {
					// all probes of the round have returned (closed sessions): the new choice must show up
					if !sync(fmt.Sprintf("round %d sessions closed", k), func() bool { return w.minClosed() == k+1 }) {
						return
					}
					w.observe(fmt.Sprintf("round %d end", k), k+1, false)
				}
			}
		}
		completedRounds = k + 1
	}
	hc.cancel()
	vtime.RealSleep(2 * time.Millisecond)
	for _, w := range b.groups {
		w.finish(completedRounds)
	}
	if v := b.badTarget.Load() + b.badQuery.Load(); v > 0 {
		rec.Count("udp_probe_queries_differing_from_config", v)
	}
	if v := b.offScript.Load(); v > 0 {
		rec.Count("udp_probes_beyond_script", v)
	}
}

// respond is the scripted DNS endpoint behind all fake clients of the batch.
func (b *udpBatch) respond() {
	buf := make([]byte, 2048)
	for {
		n, from, err := b.sock.ReadFromUDPAddrPort(buf)
		if err != nil {
			return
		}
		if n < uHdr+12 {
			b.badQuery.Add(1)
			b.received.Add(1)
			continue
		}
		g, pos, k := int(binary.BigEndian.Uint16(buf[0:])), int(buf[2]), int(binary.BigEndian.Uint32(buf[4:]))
		started := time.Unix(0, int64(binary.BigEndian.Uint64(buf[8:])))
		if g >= len(b.groups) || pos >= len(b.groups[g].members) || k >= len(b.groups[g].scripts[pos]) {
			b.badQuery.Add(1)
			b.received.Add(1)
			continue
		}
		st := b.groups[g].scripts[pos][k]
		q := append([]byte{}, buf[:n]...)
		// the query must be a DNS question for an HTTPS record with recursion desired (not part of C19; counted only)
		if q[uHdr+2]&0x80 != 0 || q[uHdr+2]&0x01 == 0 {
			b.badQuery.Add(1)
		}
		send := func(at time.Duration, pkt []byte) {
			f := func() {
				b.sock.WriteToUDPAddrPort(pkt, from)
				b.sent.Add(1)
			}
			if d := started.Add(at).Sub(time.Now()); d > 0 {
				time.AfterFunc(d, f)
			} else {
				f()
			}
		}
		answer := func() []byte {
			a := append([]byte{}, q...)
			a[uHdr+2] |= 0x80 // QR
			a[uHdr+3] = 0x80  // RA, rcode 0
			return a
		}
		junk := func(kind int) []byte {
			a := answer()
			switch kind {
			case jShort:
				return a[:uHdr+5]
			case jWrongID:
				a[uHdr] ^= 0x5a
			case jServFail:
				a[uHdr+3] = 0x82
			case jNotResponse:
				a[uHdr+2] &^= 0x80
			case jWrongSource:
				a[3] |= 1
			}
			return a
		}
		switch st.Kind {
		case uOK:
			send(st.Lat, answer())
		case uJunkThenOK:
			send(st.Junk, junk(st.JK))
			send(st.Lat, answer())
		case uJunkOnly:
			send(b.lats[0], junk(st.JK))
			send(b.lats[1], junk((st.JK+1)%jKinds))
		}
		b.received.Add(1)
	}
}

func genUDPGroup(r *core.RNG, b *udpBatch, g int) *udpGroupWorld {
	w := &udpGroupWorld{b: b, g: g, events: map[string]bool{}, memberPos: map[int]int{}}
	w.policy = []string{polAvailability, polLatency, polMinMax}[r.Intn(3)]
	n := r.Pick(1, 2, 2, 3, 3, 4)
	w.names = min(6, n+r.Intn(3))
	w.members = r.Perm(w.names)[:n]
	L := b.rounds + 2
	okStep := func() ustep {
		lat := b.lats[r.Intn(len(b.lats))]
		if r.Chance(1, 6) && lat > b.lats[0] {
			return ustep{Kind: uJunkThenOK, Lat: lat, Junk: b.lats[0], JK: r.Intn(jKinds)}
		}
		return ustep{Kind: uOK, Lat: lat}
	}
	failStep := func() ustep {
		switch r.Intn(5) {
		case 0, 1:
			return ustep{Kind: uSilence}
		case 2, 3:
			return ustep{Kind: uJunkOnly, JK: r.Intn(jKinds)}
		}
		return ustep{Kind: uSessionErr}
	}
	for pos := 0; pos < n; pos++ {
		sc := make([]ustep, L)
		prof := r.Intn(7)
		if pos == 0 && prof == 3 {
			prof = 0
		}
		name := ""
		switch prof {
		case 0:
			name = "iid"
			p := r.Pick(10, 50, 80, 95)
			for i := range sc {
				if r.Chance(p, 100) {
					sc[i] = okStep()
				} else {
					sc[i] = failStep()
				}
			}
		case 1:
			name = "phases"
			p, next := r.Pick(0, 50, 95, 100), edges[r.Intn(len(edges))]
			lat := b.lats[r.Intn(len(b.lats))]
			for i := range sc {
				if i == next {
					p, next = r.Pick(0, 50, 95, 100), i+edges[r.Intn(len(edges))]
					lat = b.lats[r.Intn(len(b.lats))]
				}
				if r.Chance(p, 100) {
					sc[i] = ustep{Kind: uOK, Lat: lat}
				} else {
					sc[i] = failStep()
				}
			}
		case 2:
			gap := r.Pick(64, 64, 32, 32, 63, 33)
			name = fmt.Sprintf("flip%d", gap)
			for i := range sc {
				switch {
				case i < gap && r.Bool(), i >= gap && !sc[i-gap].sample().ok:
					sc[i] = okStep()
				default:
					sc[i] = failStep()
				}
			}
		case 3:
			src := r.Intn(pos)
			name = fmt.Sprintf("twin%d", src)
			copy(sc, w.scripts[src])
			if r.Bool() {
				sc[r.Intn(L)] = failStep()
			}
		case 4:
			name = "const"
			lat := b.lats[r.Intn(len(b.lats))]
			for i := range sc {
				sc[i] = ustep{Kind: uOK, Lat: lat}
			}
		case 5:
			name = "dead"
			for i := range sc {
				if r.Chance(1, 30) {
					sc[i] = okStep()
				} else {
					sc[i] = failStep()
				}
			}
		default:
			name = "stairs"
			lat := b.lats[r.Intn(len(b.lats))]
			for i := range sc {
				if i%16 == 0 {
					lat = b.lats[r.Intn(len(b.lats))]
				}
				sc[i] = ustep{Kind: uOK, Lat: lat}
			}
			sc[r.Intn(L)] = failStep()
		}
		w.scripts = append(w.scripts, sc)
		w.profiles = append(w.profiles, name)
	}
	return w
}

func (w *udpGroupWorld) build() bool {
	byName := map[string]zerocopy.UDPClient{}
	for i := 0; i < w.names; i++ {
		f := &udpProbeFake{w: w, idx: i, pos: -1, name: fmt.Sprintf("g%d-client-%d", w.g, i)}
		w.fakes = append(w.fakes, f)
		byName[f.name] = f
	}
	cfg := clientgroups.ClientGroupConfig{Name: fmt.Sprintf("udp-group-%d", w.g)}
	cfg.UDP.Policy = clientgroups.ClientSelectionPolicy(w.policy)
	for pos, idx := range w.members {
		cfg.UDP.Clients = append(cfg.UDP.Clients, w.fakes[idx].name)
		w.fakes[idx].pos = pos
		w.memberPos[idx] = pos
	}
	cfg.UDP.Probe.Address = w.b.probeAddr
	cfg.UDP.Probe.Timeout = jsoncfg.Duration(w.b.timeout)
	cfg.UDP.Probe.Interval = jsoncfg.Duration(w.b.interval)
	cfg.UDP.Probe.Concurrency = []int{0, len(w.members), len(w.members) + 3}[w.g%3]
	var services []shadowsocks.Service
	if err := cfg.AddClientGroup(zap.NewNop(), map[string]netio.StreamClient{}, byName, func(s shadowsocks.Service) { services = append(services, s) }); err != nil {
		core.Fatalf("C19 udp: AddClientGroup: %v", err)
	}
	w.group = byName[cfg.Name]
	if w.group == nil || len(services) != 1 {
		core.Fatalf("C19 udp: group=%v services=%d", w.group, len(services))
	}
	w.start = func(ctx context.Context) error { return services[0].Start(ctx) }
	w.model = newRefModel(w.policy, len(w.members), w.b.timeout)
	return true
}

func (w *udpGroupWorld) minClosed() int {
	m := 1 << 30
	for _, idx := range w.members {
		m = min(m, int(w.fakes[idx].closed.Load()))
	}
	return m
}

func (w *udpGroupWorld) witness(extra map[string]any) map[string]any {
	d := map[string]any{
		"batch": w.b.bi, "group": w.g, "policy": w.policy, "members_in_config_order": w.members, "named_clients": w.names,
		"timeout": w.b.timeout.String(), "interval": w.b.interval.String(), "rounds_completed": w.model.rounds(), "profiles": w.profiles,
		"served_after_each_round(model,position)": strings.Join(w.trail, ""),
	}
	lo := max(0, w.model.rounds()-keepAvailability-2)
	for pos := range w.members {
		var sb strings.Builder
		for k := lo; k < min(w.model.rounds()+1, len(w.scripts[pos])); k++ {
			sb.WriteString(w.scripts[pos][k].String())
			sb.WriteByte(' ')
		}
		d[fmt.Sprintf("script[pos %d = client %d] rounds %d..", pos, w.members[pos], lo)] = sb.String()
		d[fmt.Sprintf("model_score[pos %d](lower is better)", pos)] = w.model.score(pos)
	}
	for k, v := range extra {
		d[k] = v
	}
	return d
}

// observe compares the client the group serves with the model's choice after
// wantRounds completed rounds. strict: the very first answer counts (used while
// a probe of the round is pending, and before the start). Otherwise the group
// is given real time to publish the choice of the round that has just ended.
func (w *udpGroupWorld) observe(tag string, wantRounds int, strict bool) {
	rec := w.b.rec
	n := len(w.members)
	for w.model.rounds() < wantRounds {
		k := w.model.rounds()
		prevPos, _ := w.model.choice()
		round := make([]sample, n)
		for pos := range round {
			st := w.scripts[pos][k]
			round[pos] = st.sample()
			switch st.Kind {
			case uJunkThenOK:
				w.events["ignored:"+junkNames[st.JK]] = true
			case uJunkOnly:
				w.events["fail:junk-only"] = true
			case uSilence:
				w.events["fail:silence"] = true
			case uSessionErr:
				w.events["fail:session-error"] = true
			}
		}
		w.model.add(round)
		pos, tied := w.model.choice()
		w.trail = append(w.trail, fmt.Sprint(pos))
		if pos != prevPos {
			w.events["switch"] = true
		}
		if tied > 1 {
			w.events["tie-first"] = true
			if pos > 0 {
				w.events["tie-first-not-zero"] = true
			}
		}
		for i := 0; i < n; i++ {
			if w.model.leaving(i) {
				w.events["wrap-matters"] = true
			}
		}
	}
	wantPos, tied := w.model.choice()
	wantIdx := w.members[wantPos]
	query := func() int {
		_, _, err := w.group.NewSession(queryCtx)
		return pickedOf(err)
	}
	got := query()
	rec.Count("udp_observations", 1)
	if !strict && got != wantIdx {
		poll(3*time.Second, func() bool { got = query(); return got == wantIdx })
	}
	phase := "after-round"
	if strict {
		phase = "during-round"
	}
	ex := map[string]any{"observation": tag, "expected_client": wantIdx, "expected_position": wantPos, "tied_best": tied, "group.NewSession": got}
	if _, member := w.memberPos[got]; !member {
		w.failed = true
		rec.Violate("udp", w.b.bi, core.Sig("kind", "outside_group", "part", "udp", "policy", w.policy, "phase", phase), w.witness(ex), "udp group handed out client %d, not a member of %v", got, w.members)
		return
	}
	if got != wantIdx {
		w.failed = true
		kind := "wrong_client"
		if strict && wantRounds > 0 {
			kind = "changed_during_round"
		}
		rec.Violate("udp", w.b.bi, core.Sig("kind", kind, "part", "udp", "policy", w.policy, "phase", phase), w.witness(ex),
			"udp %s (%s) after %d rounds: group.NewSession -> client %d, model says client %d (position %d, %d tied for best)", w.policy, tag, w.model.rounds(), got, wantIdx, wantPos, tied)
		return
	}
	if strict && wantRounds < len(w.scripts[0]) && w.model.rounds() == wantRounds && wantRounds > 0 {
		nm := newRefModel(w.policy, n, w.b.timeout)
		for i := range nm.hist {
			nm.hist[i] = append(append([]sample{}, w.model.hist[i]...), w.scripts[i][wantRounds].sample())
		}
		if np, _ := nm.choice(); np != wantPos {
			w.events["held-during-round"] = true
		}
	}
}

func (w *udpGroupWorld) finish(rounds int) {
	rec := w.b.rec
	rec.Eval()
	if w.failed {
		return
	}
	for i, f := range w.fakes {
		if _, member := w.memberPos[i]; !member && f.started.Load() > 0 {
			rec.Violate("udp", w.b.bi, core.Sig("kind", "outside_group", "part", "udp", "policy", w.policy, "phase", "non-member-used"), w.witness(nil), "non-member UDP client %d was probed %d times", i, f.started.Load())
			return
		}
	}
	rec.Count("udp_rounds", int64(rounds))
	for ev := range w.events {
		rec.Class("udp/%s/n=%d/%s", w.policy, len(w.members), ev)
	}
	if w.g == 0 {
		rec.Sample(4, map[string]any{"batch": w.b.bi, "group": w.g, "policy": w.policy, "members": w.members, "profiles": w.profiles, "served_after_each_round": strings.Join(w.trail, ""), "events": core.SortedKeys(w.events)})
	}
}
