package c19

import (
	"context"
	"fmt"
	"strings"
	"time"

	"github.com/database64128/shadowsocks-go"
	"github.com/database64128/shadowsocks-go/clientgroups"
	"github.com/database64128/shadowsocks-go/conn"
	"github.com/database64128/shadowsocks-go/jsoncfg"
	"github.com/database64128/shadowsocks-go/netio"
	"github.com/database64128/shadowsocks-go/zerocopy"
	"go.uber.org/zap"

	"verif/core"
)

const ms = time.Millisecond

// Documented defaults of the probe configuration (clientgroups.ConnectivityProbeConfig
// field comments): they are what the model assumes when a case leaves the fields zero.
const (
	docTimeout  = 5 * time.Second
	docInterval = 30 * time.Second
)

func runProbe(e *core.Env) {
	rec := e.Rec
	rec.Rule("probe: one case = one history of 100-150 probe rounds for a TCP group of 1-5 members (configuration order is a random arrangement of 1-5 of up to 7 named clients, the rest are non-members) under one of the three probing policies; " +
		"each member follows a scripted profile (iid, phases switching near rounds 32/64/96, periodic with period 31-65, flip64 = round r+64 is the opposite of round r, twin of an earlier member, constant, dead, latency staircase; overlays: total outage longer than the retention, latencies differing by 50-450 microseconds with the faster members later in configuration order); " +
		"the served client is observed at quiescent virtual instants (right after the tick, at a random instant, right before the next tick) and compared with the reference model after the number of rounds every member has completed; " +
		"class = policy/n/event where event is a behaviour that was really observed in that history: switch (served client changed), tie-first (>=2 members share the best score and the first is served), tie-later-first-not-zero, " +
		"wrap-matters (the sample leaving a member's window differs from the one entering), held-during-round (mid-round observation while the finished round changes the choice), all-fail-round, fail kinds, default-config, queued (concurrency < members)")
	n := e.N(300, 6000)
	core.Parallel(e, "probe", n, 16, func(i int) {
		r := core.NewRNG(e.Seed, "c19.probe", i)
		pc := genProbeCase(r)
		rec.Begin("probe", i, pc.brief())
		var dead string
		if !core.Watchdog(5*time.Minute, func() { dead = core.Bubble(e, func() { probeCase(e, i, pc) }) }) {
			rec.Inconclusive("watchdog")
			return
		}
		if dead != "" {
			rec.Inconclusive("bubble:" + dead)
		}
		rec.Eval()
	})
}

// probeSpec is one generated history.
type probeSpec struct {
	policy      string
	names       int   // named clients in the map
	members     []int // fake indices in configuration order
	defaults    bool  // leave timeout/interval/concurrency zero
	timeout     time.Duration
	interval    time.Duration
	concurrency int
	rounds      int
	scripts     [][]step // per member position
	profiles    []string
	obsSeed     uint64
}

func (p *probeSpec) brief() string {
	return fmt.Sprintf("%s members=%v names=%d T=%v I=%v c=%d rounds=%d profiles=%v", p.policy, p.members, p.names, p.timeout, p.interval, p.concurrency, p.rounds, p.profiles)
}

var latSet = []time.Duration{10 * ms, 20 * ms, 30 * ms, 40 * ms, 50 * ms, 100 * ms}

// boundary-biased round numbers (retention lengths and their neighbours)
var edges = []int{1, 2, 31, 32, 33, 34, 48, 63, 64, 65, 66, 95, 96, 97, 127, 128, 129}

func genProbeCase(r *core.RNG) *probeSpec {
	p := &probeSpec{policy: []string{polAvailability, polLatency, polMinMax}[r.Intn(3)]}
	n := r.Pick(1, 2, 2, 3, 3, 3, 4, 4, 5, 5)
	p.names = min(7, n+r.Intn(3))
	p.members = r.Perm(p.names)[:n]
	p.defaults = r.Chance(1, 10)
	if p.defaults {
		p.timeout, p.interval, p.concurrency = docTimeout, docInterval, 0
	} else {
		p.timeout = time.Duration(r.Pick(200, 300, 1000, 2000, 5000)) * ms
		p.concurrency = r.Pick(0, 1, 2, n, n, n+1, 40)
		eff := p.concurrency
		if eff <= 0 || eff > n {
			eff = n
		}
		batches := (n + eff - 1) / eff
		// rounds never overrun the interval: a round takes at most batches*timeout
		p.interval = time.Duration(batches)*p.timeout + time.Duration(r.Pick(1, 2, 10, 1000))*ms
	}
	p.rounds = r.Range(100, 150)
	p.obsSeed = r.Uint64()
	for pos := 0; pos < n; pos++ {
		sc, name := genScript(r, p, pos)
		p.scripts = append(p.scripts, sc)
		p.profiles = append(p.profiles, name)
	}
	if n >= 2 && r.Chance(1, 4) {
		// total outage: a later member is the only one that works, then nobody answers for longer than the retention;
		// once every retained round of every member is a failure the scores are equal again
		later := 1 + r.Intn(n-1)
		s0 := r.Range(3, 30)
		ln := r.Pick(65, 66, 70, 100)
		for i := 0; i < s0 && i < len(p.scripts[0]); i++ {
			for m := range p.scripts {
				if m == later {
					p.scripts[m][i] = okStep(r, p, pickLat(r, p))
				} else {
					p.scripts[m][i] = failStep(r, p)
				}
			}
		}
		for i := s0; i < s0+ln && i < len(p.scripts[0]); i++ {
			for m := range p.scripts {
				p.scripts[m][i] = failStep(r, p)
			}
		}
		p.profiles = append(p.profiles, fmt.Sprintf("total-outage@%d+%d", s0, ln))
	}
	if n >= 2 && p.policy != polAvailability && r.Chance(1, 3) {
		// latencies that differ by less than a millisecond, the faster members later in configuration order: "lowest
		// average / lowest worst latency" is decided on the latencies as measured, not on rounded ones
		base := time.Duration(r.Pick(0, 0, 1, 10, 50)) * ms
		delta := time.Duration(r.Pick(50, 100, 300, 450)) * time.Microsecond
		from := r.Pick(0, 0, 5, 40)
		for i := from; i < len(p.scripts[0]); i++ {
			for m := range p.scripts {
				p.scripts[m][i] = step{Kind: kOK, Lat: base + time.Duration(n-m)*delta}
			}
		}
		p.profiles = append(p.profiles, fmt.Sprintf("sub-millisecond@%d(base %v, step %v)", from, base, delta))
	}
	return p
}

// okStep makes a success with total latency lat (< timeout), sometimes split between dial time and response time.
func okStep(r *core.RNG, p *probeSpec, lat time.Duration) step {
	lat = min(lat, p.timeout-ms)
	st := step{Kind: kOK, Lat: lat}
	switch r.Intn(8) {
	case 0:
		d := time.Duration(r.Intn(int(lat/ms)+1)) * ms
		st.Dial, st.Lat = d, lat-d
	case 1:
		st.Kind = kSplit
	}
	return st
}

func failStep(r *core.RNG, p *probeSpec) step {
	lat := latSet[r.Intn(len(latSet))]
	lat = min(lat, p.timeout-ms)
	switch r.Intn(10) {
	case 0, 1:
		return step{Kind: kSilence}
	case 2, 3:
		return step{Kind: kStatus, Lat: lat, Code: r.Pick(200, 200, 301, 403, 404, 500, 502, 205, 100204)}
	case 4:
		return step{Kind: kDialErr, Dial: time.Duration(r.Pick(0, 10, 50)) * ms}
	case 5:
		return step{Kind: kDialHang}
	case 6:
		return step{Kind: kEOF, Lat: lat}
	case 7:
		return step{Kind: kGarbage, Lat: lat}
	case 8:
		return step{Kind: kPartial, Lat: lat}
	default:
		return step{Kind: kLate, Lat: p.timeout + time.Duration(r.Pick(1, 10, 100))*ms}
	}
}

func pickLat(r *core.RNG, p *probeSpec) time.Duration {
	switch r.Intn(12) {
	case 0:
		return p.timeout - ms // just in time
	case 1:
		return 0
	}
	return latSet[r.Intn(len(latSet))]
}

type mode struct {
	num, den int             // success probability
	lats     []time.Duration // latencies drawn uniformly
}

func genMode(r *core.RNG, p *probeSpec) mode {
	m := mode{den: 100, num: r.Pick(0, 10, 50, 80, 95, 100, 100)}
	k := r.Range(1, 3)
	for i := 0; i < k; i++ {
		m.lats = append(m.lats, pickLat(r, p))
	}
	return m
}

func (m mode) step(r *core.RNG, p *probeSpec) step {
	if r.Chance(m.num, m.den) {
		return okStep(r, p, m.lats[r.Intn(len(m.lats))])
	}
	return failStep(r, p)
}

func genScript(r *core.RNG, p *probeSpec, pos int) ([]step, string) {
	L := p.rounds + 2
	sc := make([]step, L)
	prof := r.Intn(9)
	if pos == 0 && prof == 4 {
		prof = 0
	}
	switch prof {
	case 0: // iid
		m := genMode(r, p)
		for i := range sc {
			sc[i] = m.step(r, p)
		}
		return sc, "iid"
	case 1, 2: // phases with switch points near the retention lengths
		cur := genMode(r, p)
		next := edges[r.Intn(len(edges))]
		for i := range sc {
			if i == next {
				cur = genMode(r, p)
				next = i + edges[r.Intn(len(edges))]
			}
			sc[i] = cur.step(r, p)
		}
		return sc, "phases"
	case 3: // periodic
		per := r.Pick(2, 3, 31, 32, 33, 63, 64, 65)
		base := make([]step, per)
		m := genMode(r, p)
		m.num = r.Pick(50, 80, 95)
		for i := range base {
			base[i] = m.step(r, p)
		}
		for i := range sc {
			sc[i] = base[i%per]
		}
		return sc, fmt.Sprintf("periodic%d", per)
	case 4: // twin of an earlier member, optionally with a few rounds altered
		src := r.Intn(pos)
		copy(sc, p.scripts[src])
		k := r.Pick(0, 0, 1, 2)
		for ; k > 0; k-- {
			i := r.Intn(L)
			if r.Bool() {
				sc[i] = failStep(r, p)
			} else {
				sc[i] = okStep(r, p, pickLat(r, p))
			}
		}
		return sc, fmt.Sprintf("twin%d", src)
	case 5: // round r+gap is the opposite of round r: what leaves the window always differs from what enters
		gap := r.Pick(64, 64, 32, 32, 63, 65, 31, 33)
		m := genMode(r, p)
		m.num = 50
		for i := range sc {
			if i < gap {
				sc[i] = m.step(r, p)
			} else if sc[i-gap].sample().ok {
				sc[i] = failStep(r, p)
			} else {
				sc[i] = okStep(r, p, m.lats[r.Intn(len(m.lats))])
			}
		}
		return sc, fmt.Sprintf("flip%d", gap)
	case 6: // constant success
		lat := pickLat(r, p)
		for i := range sc {
			sc[i] = step{Kind: kOK, Lat: lat}
		}
		return sc, "const"
	case 7: // dead, or dead with rare successes
		for i := range sc {
			if r.Chance(1, 40) {
				sc[i] = okStep(r, p, pickLat(r, p))
			} else {
				sc[i] = failStep(r, p)
			}
		}
		return sc, "dead"
	default: // staircase: latency changes every few rounds, one spike
		lat := pickLat(r, p)
		spike := r.Intn(L)
		for i := range sc {
			if i%r.Pick(8, 16, 32) == 0 {
				lat = pickLat(r, p)
			}
			sc[i] = step{Kind: kOK, Lat: lat}
			if i == spike {
				if r.Bool() {
					sc[i] = failStep(r, p)
				} else {
					sc[i] = step{Kind: kOK, Lat: p.timeout - ms}
				}
			}
		}
		return sc, "stairs"
	}
}

// probeCase runs one history inside a bubble.
func probeCase(e *core.Env, ci int, p *probeSpec) {
	rec := e.Rec
	n := len(p.members)
	w := &tcpWorld{
		probeAddr: conn.MustAddrFromDomainPort("probe.c19.example", 8080),
		wantReq:   "GET /c19/generate_204 HTTP/1.1\r\nHost: probe-host.c19.example\r\n\r\n",
	}
	byName := map[string]netio.StreamClient{}
	for i := 0; i < p.names; i++ {
		f := newFakeTCP(w, i)
		w.fakes = append(w.fakes, f)
		byName[f.name] = f
	}
	cfg := clientgroups.ClientGroupConfig{Name: "group-under-test"}
	cfg.TCP.Policy = clientgroups.ClientSelectionPolicy(p.policy)
	memberPos := map[int]int{}
	for pos, idx := range p.members {
		cfg.TCP.Clients = append(cfg.TCP.Clients, w.fakes[idx].name)
		w.fakes[idx].script = p.scripts[pos]
		memberPos[idx] = pos
	}
	cfg.TCP.Probe.Address = w.probeAddr
	cfg.TCP.Probe.EscapedPath = "/c19/generate_204"
	cfg.TCP.Probe.Host = "probe-host.c19.example"
	if !p.defaults {
		cfg.TCP.Probe.Timeout = jsoncfg.Duration(p.timeout)
		cfg.TCP.Probe.Interval = jsoncfg.Duration(p.interval)
		cfg.TCP.Probe.Concurrency = p.concurrency
	}
	var services []shadowsocks.Service
	if err := cfg.AddClientGroup(zap.NewNop(), byName, map[string]zerocopy.UDPClient{}, func(s shadowsocks.Service) { services = append(services, s) }); err != nil {
		core.Fatalf("C19 probe: AddClientGroup: %v", err)
	}
	group := byName[cfg.Name]
	if group == nil || len(services) != 1 {
		core.Fatalf("C19 probe: group=%v services=%d", group, len(services))
	}

	model := newRefModel(p.policy, n, p.timeout)
	obsRNG := core.NewRNG(int64(p.obsSeed), "c19.obs", ci)
	events := map[string]bool{}
	var trail []string // served client after each round (positions), for the witness

	witness := func(extra map[string]any) map[string]any {
		d := map[string]any{
			"policy": p.policy, "members_in_config_order": p.members, "named_clients": p.names, "timeout": p.timeout.String(), "interval": p.interval.String(),
			"concurrency": p.concurrency, "default_config": p.defaults, "rounds_completed": model.rounds(), "profiles": p.profiles,
			"served_after_each_round(model,position)": strings.Join(trail, ""),
		}
		lo := max(0, model.rounds()-keepAvailability-2)
		for pos := range p.members {
			var sb strings.Builder
			for k := lo; k < min(model.rounds()+1, len(p.scripts[pos])); k++ {
				sb.WriteString(p.scripts[pos][k].String())
				sb.WriteByte(' ')
			}
			d[fmt.Sprintf("script[pos %d = client-%d] rounds %d..", pos, p.members[pos], lo)] = sb.String()
			d[fmt.Sprintf("model_score[pos %d](lower is better)", pos)] = model.score(pos)
		}
		for k, v := range extra {
			d[k] = v
		}
		return d
	}
	failed := false
	viol := func(kind, phase string, extra map[string]any, format string, a ...any) {
		failed = true
		rec.Violate("probe", ci, core.Sig("kind", kind, "part", "probe", "policy", p.policy, "phase", phase), witness(extra), format, a...)
	}

	ctx, cancel := context.WithCancel(context.Background())
	defer cancel()
	qctx := context.Background()
	start := time.Now()
	sleepUntil := func(at time.Duration) {
		if d := time.Until(start.Add(at)); d > 0 {
			time.Sleep(d)
		}
	}

	// counters: how many probes the members have started / completed
	shape := func() (minDone, maxDone, maxStarted int) {
		minDone = 1 << 30
		for _, idx := range p.members {
			s, d := w.fakes[idx].counters()
			minDone, maxDone, maxStarted = min(minDone, d), max(maxDone, d), max(maxStarted, s)
		}
		return
	}

	// observe compares the served client with the model. The expectation is the
	// model's choice after the rounds that EVERY member has completed: a round in
	// flight (some member still being probed) must not have changed anything yet.
	// All scripted events and ticks are at whole milliseconds; observations are
	// made at x.5 ms after core.Wait(), so nothing else is due at that instant.
	observe := func(tag string, wantRounds int) {
		core.Wait()
		minDone, maxDone, maxStarted := shape()
		if maxStarted-minDone > 1 || maxDone-minDone > 1 {
			viol("round_shape", "any", map[string]any{"observation": tag, "min_done": minDone, "max_done": maxDone, "max_started": maxStarted}, "members are not probed once per round: completed %d..%d, started up to %d", minDone, maxDone, maxStarted)
			return
		}
		if wantRounds >= 0 && (minDone != wantRounds || maxStarted != wantRounds) {
			viol("round_shape", "before-tick", map[string]any{"observation": tag, "min_done": minDone, "max_started": maxStarted, "want": wantRounds},
				"right before tick %d every member should have completed exactly %d probes: completed %d, started %d", wantRounds+1, wantRounds, minDone, maxStarted)
			return
		}
		for model.rounds() < minDone {
			k := model.rounds()
			prevPos, _ := model.choice()
			round := make([]sample, n)
			allFail := true
			for pos := range round {
				st := p.scripts[pos][k]
				round[pos] = st.sample()
				if round[pos].ok {
					allFail = false
				} else {
					events["fail:"+kindNames[st.Kind]] = true
				}
				if st.Kind == kSplit {
					events["split-response"] = true
				}
				if st.Kind == kOK && st.Dial > 0 {
					events["slow-dial"] = true
				}
				if round[pos].ok && round[pos].lat == p.timeout-ms {
					events["just-in-time"] = true
				}
			}
			model.add(round)
			pos, tied := model.choice()
			trail = append(trail, fmt.Sprint(pos))
			if pos != prevPos {
				events["switch"] = true
				rec.Count("served_client_changes", 1)
				if k >= keepAvailability {
					events["switch-after-wrap"] = true
					rec.Count("served_client_changes_after_round_64", 1)
				}
			}
			if tied > 1 {
				events["tie-first"] = true
				if pos > 0 {
					events["tie-first-not-zero"] = true
				}
			}
			if allFail && n > 1 {
				events["all-fail-round"] = true
			}
			for i := 0; i < n; i++ {
				if model.leaving(i) {
					events["wrap-matters"] = true
				}
			}
		}
		inFlight := maxStarted > minDone
		wantPos, tied := model.choice()
		wantIdx := p.members[wantPos]

		d, info := group.NewStreamDialer()
		got1 := -1
		if fd, ok := d.(*fakeDialer); ok {
			got1 = fd.f.idx
		}
		_, err := group.DialStream(qctx, queryAddr, nil)
		got2 := pickedOf(err)
		got3 := -1
		if d != nil {
			_, err = d.DialStream(qctx, queryAddr, nil)
			got3 = pickedOf(err)
		}
		rec.Count("observations", 1)
		if inFlight {
			rec.Count("observations_during_round", 1)
		}
		if a, b, c := shape(); a != minDone || b != maxDone || c != maxStarted {
			rec.Inconclusive("not-quiescent")
			failed = true
			return
		}
		phase := "after-round"
		if inFlight {
			phase = "during-round"
		}
		ex := map[string]any{"observation": tag, "at": time.Since(start).String(), "expected_client": wantIdx, "expected_position": wantPos, "tied_best": tied,
			"NewStreamDialer": got1, "NewStreamDialer.info.Name": info.Name, "group.DialStream": got2, "dialer.DialStream": got3, "probes_in_flight": inFlight}
		for _, g := range []int{got1, got2} {
			if _, member := memberPos[g]; !member {
				viol("outside_group", phase, ex, "the group handed out client %d, which is not a member (members %v)", g, p.members)
				return
			}
		}
		if got1 != wantIdx || got2 != wantIdx {
			what := "wrong_client"
			if inFlight {
				what = "changed_during_round"
			}
			viol(what, phase, ex, "%s after %d rounds: NewStreamDialer -> client %d, DialStream -> client %d, model says client %d (position %d, %d tied for best)",
				p.policy, model.rounds(), got1, got2, wantIdx, wantPos, tied)
			return
		}
		if got3 != got1 || info.Name != w.fakes[got1].name {
			viol("dialer_identity", phase, ex, "dialer returned for client %d dials client %d / is named %q", got1, got3, info.Name)
			return
		}
		if inFlight {
			// did this mid-round observation matter? (the round in flight will change the choice)
			k := model.rounds()
			nm := newRefModel(p.policy, n, p.timeout)
			for i := range nm.hist {
				nm.hist[i] = append(append([]sample{}, model.hist[i]...), p.scripts[i][k].sample())
			}
			if np, _ := nm.choice(); np != wantPos {
				events["held-during-round"] = true
			}
		}
	}

	observe("before-start", 0)
	if err := services[0].Start(ctx); err != nil {
		core.Fatalf("C19 probe: Start: %v", err)
	}
	observe("started", 0)
	half := ms / 2
	for r := 0; r < p.rounds && !failed; r++ {
		tick := time.Duration(r+1) * p.interval
		offs := []time.Duration{half}
		if obsRNG.Chance(2, 3) {
			// a random instant of the interval; biased to the part where probes are in flight
			span := p.interval
			if obsRNG.Bool() {
				span = min(p.interval, 120*ms)
			}
			offs = append(offs, time.Duration(obsRNG.Intn(int(span/ms)))*ms+half)
		}
		for _, o := range offs {
			if failed {
				break
			}
			sleepUntil(tick + o)
			observe(fmt.Sprintf("round %d +%v", r, o), -1)
		}
		if failed {
			break
		}
		sleepUntil(tick + p.interval - half)
		observe(fmt.Sprintf("round %d end", r), r+1)
	}
	cancel()
	core.Wait()
	// the fake clock stops when the bubble's root returns: let late responders (sleeping past the timeout) finish first
	time.Sleep(p.timeout + time.Second)
	core.Wait()
	if failed {
		return
	}
	if v := w.badReq.Load(); v > 0 {
		rec.Count("probe_requests_differing_from_config", v)
	}
	if v := w.overrun.Load(); v > 0 {
		rec.Count("probes_beyond_script", v)
	}
	for i, f := range w.fakes {
		if _, member := memberPos[i]; !member {
			s, _ := f.counters()
			if s > 0 || f.queried > 0 {
				rec.Violate("probe", ci, core.Sig("kind", "outside_group", "part", "probe", "policy", p.policy, "phase", "non-member-used"), witness(nil),
					"non-member client %d was dialled (%d probes, %d selections)", i, s, f.queried)
				return
			}
		}
	}
	rec.Count("rounds", int64(model.rounds()))
	if p.defaults {
		events["default-config"] = true
	}
	if eff := p.concurrency; eff > 0 && eff < n {
		events["queued"] = true
	}
	if model.rounds() > 2*keepAvailability {
		events["two-wraps"] = true
	}
	for ev := range events {
		rec.Class("%s/n=%d/%s", p.policy, n, ev)
	}
	if ci%50 == 0 {
		rec.Sample(6, map[string]any{"case": ci, "spec": p.brief(), "served_after_each_round": strings.Join(trail, ""), "events": core.SortedKeys(events)})
	}
}
