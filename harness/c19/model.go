package c19

import "time"

// Reference model of the three probing policies. It is written from the
// statement of C19, not from the repository's code:
//
//   - availability: score of a client = number of successful probes among its
//     last 64 probes; more is better.
//   - latency: score = average of its last 32 latency samples; lower is better.
//   - min-max-latency: score = worst (largest) of its last 32 samples; lower is better.
//   - a failed probe contributes "the timeout" as its latency sample.
//   - after every completed round the group serves the FIRST client in
//     configuration order whose score is not beaten by anybody.
//
// Readings encoded here (the statement leaves them open, both are don't-cares for the verdict):
//   - with no completed round nobody beats anybody, so the first configured client is served;
//   - every client is probed exactly once per round, so all clients always
//     have the same number of samples: averages over "the samples retained so
//     far" and over a fixed-length window padded with zeros order the clients
//     identically. The model compares exact sums (no integer division); the
//     scripts only use latencies that are multiples of 1 ms, so a truncating
//     division by the window length cannot create or destroy a tie.
const (
	keepAvailability = 64
	keepLatency      = 32
)

const (
	polAvailability = "availability"
	polLatency      = "latency"
	polMinMax       = "min-max-latency"
)

// sample is what one probe of one client amounted to.
type sample struct {
	ok  bool
	lat time.Duration // meaningful when ok
}

type refModel struct {
	policy  string
	timeout time.Duration
	hist    [][]sample // per client (configuration order), every round so far
}

func newRefModel(policy string, n int, timeout time.Duration) *refModel {
	return &refModel{policy: policy, timeout: timeout, hist: make([][]sample, n)}
}

func (m *refModel) rounds() int { return len(m.hist[0]) }

// add appends the outcome of one finished round (one sample per client).
func (m *refModel) add(round []sample) {
	for i := range m.hist {
		m.hist[i] = append(m.hist[i], round[i])
	}
}

func tail(h []sample, keep int) []sample {
	if len(h) > keep {
		return h[len(h)-keep:]
	}
	return h
}

// score returns a number for which LOWER is better, for every policy.
func (m *refModel) score(i int) int64 {
	switch m.policy {
	case polAvailability:
		var good int64
		for _, s := range tail(m.hist[i], keepAvailability) {
			if s.ok {
				good++
			}
		}
		return -good
	case polLatency:
		var sum int64
		for _, s := range tail(m.hist[i], keepLatency) {
			sum += int64(m.effective(s))
		}
		return sum // equal sample counts: ordering by sum == ordering by average
	default:
		var worst int64
		for _, s := range tail(m.hist[i], keepLatency) {
			worst = max(worst, int64(m.effective(s)))
		}
		return worst
	}
}

func (m *refModel) effective(s sample) time.Duration {
	if s.ok {
		return s.lat
	}
	return m.timeout
}

// choice returns the position (configuration order) of the client to serve
// and how many clients share the best score.
func (m *refModel) choice() (pos, tied int) {
	scores := make([]int64, len(m.hist))
	best := int64(0)
	for i := range m.hist {
		scores[i] = m.score(i)
		if i == 0 || scores[i] < best {
			best = scores[i]
		}
	}
	pos = -1
	for i, s := range scores {
		if s == best {
			if pos < 0 {
				pos = i
			}
			tied++
		}
	}
	return pos, tied
}

// leaving reports whether the sample that dropped out of client i's window
// with the latest round differs in effect from the one that entered it.
func (m *refModel) leaving(i int) bool {
	keep := keepLatency
	if m.policy == polAvailability {
		keep = keepAvailability
	}
	h := m.hist[i]
	if len(h) <= keep {
		return false
	}
	out, in := h[len(h)-keep-1], h[len(h)-1]
	if m.policy == polAvailability {
		return out.ok != in.ok
	}
	return m.effective(out) != m.effective(in)
}
