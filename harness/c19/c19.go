// Package c19 checks property C19: client groups pick clients as their policy says.
//
// The real clientgroups.ClientGroupConfig.AddClientGroup builds the group from
// fake clients of the harness; the oracle only looks at WHICH fake the group
// hands out (dialer identity, and which fake gets dialled through the group).
//
// Parts (race flavour unless noted):
//
//	probe   availability / latency / min-max-latency TCP groups: the probe
//	        service registered by AddClientGroup runs inside a synctest bubble
//	        against scripted HTTP responders; a reference model (model.go)
//	        predicts the served client after every round and during rounds.
//	select  round-robin and random groups (TCP and UDP, in-memory): exact
//	        cyclic order single-threaded, exact ticket multiset and porcupine
//	        linearizability against fetch-and-increment under G x K concurrent
//	        selections, membership for random.
//	udp     (ft flavour, udp.go) availability / latency / min-max-latency UDP
//	        groups: probe/udp.go opens a real *net.UDPConn through
//	        conn.ListenConfig, which cannot be replaced by an in-memory fake,
//	        so the real DNS probes run over loopback sockets to a scripted
//	        responder on the process-wide virtual clock (smaller set).
package c19

import (
	"context"
	"errors"
	"fmt"
	"sync"
	"sync/atomic"
	"time"

	"github.com/database64128/shadowsocks-go/conn"
	"github.com/database64128/shadowsocks-go/netio"
	"github.com/database64128/shadowsocks-go/zerocopy"

	"verif/core"
	"verif/netsim"
)

func init() {
	core.Register("C19", "probe", runProbe)
	core.Register("C19", "select", runSelect)
}

// queryAddr is the address the harness dials through a group to learn which
// client the group picks. Fakes never open a connection for it.
var queryAddr = conn.MustAddrFromDomainPort("which-client.c19.invalid", 19)

// pickedErr is how a fake tells the caller of group.DialStream who was dialled.
type pickedErr struct{ idx int }

func (p *pickedErr) Error() string { return fmt.Sprintf("c19: fake #%d dialled", p.idx) }

func pickedOf(err error) int {
	var p *pickedErr
	if errors.As(err, &p) {
		return p.idx
	}
	return -1
}

// ---- scripted probe steps ----

type stepKind uint8

const (
	kOK       stepKind = iota // 204 after Dial+Lat
	kSplit                    // 204 written in two pieces, complete at Dial+Lat
	kStatus                   // another status code after Dial+Lat
	kSilence                  // connection opens, nothing ever arrives
	kDialErr                  // DialStream fails after Dial
	kDialHang                 // DialStream blocks until the context ends
	kEOF                      // peer closes without a response after Dial+Lat
	kGarbage                  // non-HTTP bytes after Dial+Lat
	kPartial                  // half a status line after Dial+Lat, then silence
	kLate                     // a 204 that arrives after the timeout
)

var kindNames = [...]string{"ok", "split", "status", "silence", "dialerr", "dialhang", "eof", "garbage", "partial", "late"}

type step struct {
	Kind stepKind
	Dial time.Duration // time DialStream takes
	Lat  time.Duration // from the end of DialStream to the (end of the) response
	Code int
}

// sample is the model's view of a step: only an in-time 204 is a success, and
// its latency is the time from the start of the probe to the complete response.
func (s step) sample() sample {
	if s.Kind == kOK || s.Kind == kSplit {
		return sample{ok: true, lat: s.Dial + s.Lat}
	}
	return sample{}
}

func (s step) String() string {
	ms := func(d time.Duration) int64 { return int64(d / time.Millisecond) }
	switch s.Kind {
	case kOK:
		if s.Dial > 0 {
			return fmt.Sprintf("%d+%d", ms(s.Dial), ms(s.Lat))
		}
		return fmt.Sprint(ms(s.Lat))
	case kSplit:
		return fmt.Sprintf("%d+%ds", ms(s.Dial), ms(s.Lat))
	case kStatus:
		return fmt.Sprintf("x%d@%d", s.Code, ms(s.Dial+s.Lat))
	default:
		return kindNames[s.Kind]
	}
}

// ---- fake TCP client ----

type tcpWorld struct {
	probeAddr conn.Addr
	wantReq   string
	fakes     []*fakeTCP
	badReq    atomic.Int64 // probes whose address or request differ from the configuration
	overrun   atomic.Int64 // probes beyond the script
}

// fakeTCP is a netio.StreamClient of the harness. A dial to queryAddr only
// reports its identity. Any other dial is probe number k of this client and
// plays script[k] against an in-memory connection.
type fakeTCP struct {
	w      *tcpWorld
	idx    int
	name   string
	dialer *fakeDialer
	script []step

	mu      sync.Mutex
	started int
	done    int
	queried int64
}

// fakeDialer is the dedicated dialer the fake hands to the group, so that the
// group's NewStreamDialer result can be recognised by pointer identity.
type fakeDialer struct{ f *fakeTCP }

func (d *fakeDialer) DialStream(ctx context.Context, addr conn.Addr, payload []byte) (netio.Conn, error) {
	return d.f.dial(ctx, addr, payload)
}

func newFakeTCP(w *tcpWorld, idx int) *fakeTCP {
	f := &fakeTCP{w: w, idx: idx, name: fmt.Sprintf("client-%d", idx)}
	f.dialer = &fakeDialer{f}
	return f
}

func (f *fakeTCP) NewStreamDialer() (netio.StreamDialer, netio.StreamDialerInfo) {
	return f.dialer, netio.StreamDialerInfo{Name: f.name, NativeInitialPayload: true}
}

func (f *fakeTCP) DialStream(ctx context.Context, addr conn.Addr, payload []byte) (netio.Conn, error) {
	return f.dial(ctx, addr, payload)
}

func (f *fakeTCP) counters() (started, done int) {
	f.mu.Lock()
	defer f.mu.Unlock()
	return f.started, f.done
}

func (f *fakeTCP) finish() {
	f.mu.Lock()
	f.done++
	f.mu.Unlock()
}

var errDial = errors.New("c19: scripted dial failure")

const (
	resp204  = "HTTP/1.1 204 No Content\r\nDate: Thu, 01 Jan 2026 00:00:00 GMT\r\nContent-Length: 0\r\n\r\n"
	respJunk = "SSH-2.0-OpenSSH_9.9\r\n\x00\x01\x02\r\n\r\n"
)

func (f *fakeTCP) dial(ctx context.Context, addr conn.Addr, payload []byte) (netio.Conn, error) {
	if addr.Equals(queryAddr) {
		f.mu.Lock()
		f.queried++
		f.mu.Unlock()
		return nil, &pickedErr{f.idx}
	}
	f.mu.Lock()
	k := f.started
	f.started++
	f.mu.Unlock()
	if !addr.Equals(f.w.probeAddr) || string(payload) != f.w.wantReq {
		f.w.badReq.Add(1)
	}
	st := step{Kind: kSilence}
	if k < len(f.script) {
		st = f.script[k]
	} else {
		f.w.overrun.Add(1)
	}
	if st.Kind == kDialHang {
		<-ctx.Done()
		f.finish()
		return nil, ctx.Err()
	}
	if st.Dial > 0 {
		t := time.NewTimer(st.Dial)
		select {
		case <-t.C:
		case <-ctx.Done():
			t.Stop()
			f.finish()
			return nil, ctx.Err()
		}
	}
	if st.Kind == kDialErr {
		f.finish()
		return nil, errDial
	}
	a, b := netsim.Pair(nil, nil, false)
	a.Write(payload)
	if st.Kind != kSilence {
		go respond(b, st)
	}
	return &probeConn{BufConn: a, f: f}, nil
}

// respond is the scripted HTTP endpoint behind one probe connection.
func respond(b *netsim.BufConn, st step) {
	switch st.Kind {
	case kSplit:
		first := st.Lat / 2
		cut := len(resp204) / 3
		time.Sleep(first)
		b.Write([]byte(resp204[:cut]))
		time.Sleep(st.Lat - first)
		b.Write([]byte(resp204[cut:]))
		return
	}
	time.Sleep(st.Lat)
	switch st.Kind {
	case kOK, kLate:
		b.Write([]byte(resp204))
	case kStatus:
		b.Write([]byte(fmt.Sprintf("HTTP/1.1 %d Scripted\r\nContent-Length: 0\r\n\r\n", st.Code)))
	case kEOF:
		b.CloseWrite()
	case kGarbage:
		b.Write([]byte(respJunk))
	case kPartial:
		b.Write([]byte("HTTP/1.1 204 No"))
	}
}

// probeConn reports the end of the probe (the probe closes its connection last).
type probeConn struct {
	*netsim.BufConn
	f    *fakeTCP
	once sync.Once
}

func (c *probeConn) Close() error {
	c.once.Do(c.f.finish)
	return c.BufConn.Close()
}

// ---- fake UDP client (selection only) ----

type fakeUDP struct {
	idx  int
	name string
}

func (f *fakeUDP) Info() zerocopy.UDPClientInfo {
	return zerocopy.UDPClientInfo{Name: f.name, PackerHeadroom: zerocopy.Headroom{Front: 4 * f.idx, Rear: f.idx}}
}

func (f *fakeUDP) NewSession(ctx context.Context) (zerocopy.UDPClientSessionInfo, zerocopy.UDPClientSession, error) {
	return zerocopy.UDPClientSessionInfo{Name: f.name, MTU: 1500 + f.idx}, zerocopy.UDPClientSession{MaxPacketSize: 1400, Close: zerocopy.NoopClose}, &pickedErr{f.idx}
}
