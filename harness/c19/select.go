package c19

import (
	"context"
	"fmt"
	"sort"
	"sync"
	"sync/atomic"
	"time"

	"github.com/anishathalye/porcupine"
	"github.com/database64128/shadowsocks-go"
	"github.com/database64128/shadowsocks-go/clientgroups"
	"github.com/database64128/shadowsocks-go/netio"
	"github.com/database64128/shadowsocks-go/zerocopy"
	"go.uber.org/zap"

	"verif/core"
)

// Operation kinds of the select part. The two TCP kinds draw from the same
// group (one shared round-robin position), the UDP kind from the UDP group.
const (
	opTCPDialer  = iota // group.NewStreamDialer()
	opTCPDial           // group.DialStream(query address)
	opUDPSession        // group.NewSession()
)

var opNames = [...]string{"NewStreamDialer", "DialStream", "NewSession"}

type selOp struct {
	kind      int
	call, ret int64
	got       int // fake index handed out, -1 = something that is not a fake of this case, -2 = the selection panicked
	note      string
}

func transportOf(kind int) int {
	if kind == opUDPSession {
		return 1
	}
	return 0
}

var transportNames = [...]string{"tcp", "udp"}

func runSelect(e *core.Env) {
	rec := e.Rec
	rec.Rule("select: one case = a round-robin or random group over 1-7 of up to 9 named fake clients (TCP and UDP member lists drawn independently), exercised by a single-threaded prefix, then G=2-16 goroutines x K selections released together " +
		"(stamped mode: call/return stamps from one atomic counter, history checked with porcupine against fetch-and-increment; hot mode: no stamps, more selections, ticket multiset only), then a single-threaded suffix; " +
		"round-robin oracle: selection j of a transport (counted from the first) is member j mod n, so the concurrent phase must hand out exactly the multiset of its N consecutive tickets and the suffix continues after them; random oracle: members only; " +
		"class = policy/transport/n/phase(+G bucket, whether calls really overlapped in the stamped history, whether an earlier call got a later ticket)")
	n := e.N(500, 15000)
	mdl := porcupine.Model{
		// state: position of the next client in configuration order; input: number of members; output: position handed out
		Init: func() any { return 0 },
		Step: func(st, in, out any) (bool, any) {
			s, n, o := st.(int), in.(int), out.(int)
			return o == s, (s + 1) % n
		},
		DescribeOperation: func(in, out any) string { return fmt.Sprintf("select()=pos %d", out) },
	}
	core.Parallel(e, "select", n, 3, func(i int) {
		r := core.NewRNG(e.Seed, "c19.select", i)
		rec.Begin("select", i, "")
		if !core.Watchdog(5*time.Minute, func() { selectCase(e, i, r, mdl) }) {
			rec.Inconclusive("watchdog")
			return
		}
		rec.Eval()
	})
}

type selWorld struct {
	policy   string
	names    int
	members  [2][]int       // per transport, configuration order
	pos      [2]map[int]int // fake index -> position
	tcpGroup netio.StreamClient
	udpGroup zerocopy.UDPClient
	tcp      []*fakeTCP
	udp      []*fakeUDP
}

// do performs one selection and identifies the fake that was handed out.
func (w *selWorld) do(kind int) (got int, note string) {
	defer func() {
		// a selection that panics (e.g. an index outside the member slice) is reported as "handed out a non-member"
		if p := recover(); p != nil {
			got, note = -2, fmt.Sprintf("panic: %v", p)
		}
	}()
	switch kind {
	case opTCPDialer:
		d, info := w.tcpGroup.NewStreamDialer()
		fd, ok := d.(*fakeDialer)
		if !ok {
			return -1, fmt.Sprintf("dialer of type %T", d)
		}
		if info.Name != fd.f.name {
			return -1, fmt.Sprintf("dialer of %s with info of %q", fd.f.name, info.Name)
		}
		if fd.f != w.tcp[fd.f.idx] {
			return -1, "dialer of another case"
		}
		return fd.f.idx, ""
	case opTCPDial:
		_, err := w.tcpGroup.DialStream(context.Background(), queryAddr, nil)
		return pickedOf(err), fmt.Sprint(err)
	default:
		info, _, err := w.udpGroup.NewSession(context.Background())
		got := pickedOf(err)
		if got >= 0 && info.Name != w.udp[got].name {
			return -1, fmt.Sprintf("session of %s with info of %q", w.udp[got].name, info.Name)
		}
		return got, fmt.Sprint(err)
	}
}

func selectCase(e *core.Env, ci int, r *core.RNG, mdl porcupine.Model) {
	rec := e.Rec
	w := &selWorld{policy: "round-robin"}
	if r.Chance(1, 4) {
		w.policy = "random"
	}
	w.names = r.Range(1, 9)
	tw := &tcpWorld{}
	tcpByName := map[string]netio.StreamClient{}
	udpByName := map[string]zerocopy.UDPClient{}
	for i := 0; i < w.names; i++ {
		f := newFakeTCP(tw, i)
		w.tcp = append(w.tcp, f)
		tcpByName[f.name] = f
		u := &fakeUDP{idx: i, name: f.name}
		w.udp = append(w.udp, u)
		udpByName[u.name] = u
	}
	cfg := clientgroups.ClientGroupConfig{Name: "group-under-test"}
	cfg.TCP.Policy = clientgroups.ClientSelectionPolicy(w.policy)
	cfg.UDP.Policy = clientgroups.ClientSelectionPolicy(w.policy)
	for t := 0; t < 2; t++ {
		n := min(w.names, r.Pick(1, 2, 2, 3, 3, 4, 5, 6, 7))
		w.members[t] = r.Perm(w.names)[:n]
		w.pos[t] = map[int]int{}
		for p, idx := range w.members[t] {
			w.pos[t][idx] = p
			if t == 0 {
				cfg.TCP.Clients = append(cfg.TCP.Clients, w.tcp[idx].name)
			} else {
				cfg.UDP.Clients = append(cfg.UDP.Clients, w.udp[idx].name)
			}
		}
	}
	if err := cfg.AddClientGroup(zap.NewNop(), tcpByName, udpByName, func(shadowsocks.Service) {
		core.Fatalf("C19 select: %s group registered a probe service", w.policy)
	}); err != nil {
		core.Fatalf("C19 select: AddClientGroup: %v", err)
	}
	w.tcpGroup, w.udpGroup = tcpByName[cfg.Name], udpByName[cfg.Name]
	if w.tcpGroup == nil || w.udpGroup == nil {
		core.Fatalf("C19 select: group missing from the client maps")
	}

	rr := w.policy == "round-robin"
	var issued [2]int // selections made so far per transport
	// anchored: some observation so far depended on where the cycle starts (a sequential selection, or a concurrent phase
	// whose length is not a multiple of n). Until then a mismatch can only mean "the cycle does not start at the first client".
	var anchored [2]bool
	var log []string // sequential ops, for the witness
	detail := func(extra map[string]any) map[string]any {
		d := map[string]any{"policy": w.policy, "named_clients": w.names, "tcp_members_in_config_order": w.members[0], "udp_members_in_config_order": w.members[1],
			"selections_before": issued, "sequential_ops": log}
		for k, v := range extra {
			d[k] = v
		}
		return d
	}
	bad := false
	viol := func(kind string, t int, extra map[string]any, format string, a ...any) {
		bad = true
		rec.Violate("select", ci, core.Sig("kind", kind, "part", "select", "policy", w.policy, "transport", transportNames[t]), detail(extra), format, a...)
	}
	pickKind := func(r *core.RNG) int { return r.Pick(opTCPDialer, opTCPDialer, opTCPDial, opUDPSession, opUDPSession) }

	// sequential runs k single-threaded selections with the exact-order oracle.
	sequential := func(phase string, k int) {
		seen := [2]map[int]bool{{}, {}}
		for j := 0; j < k && !bad; j++ {
			kind := pickKind(r)
			t := transportOf(kind)
			got, note := w.do(kind)
			log = append(log, fmt.Sprintf("%s->%d", opNames[kind], got))
			if len(log) > 60 {
				log = log[len(log)-60:]
			}
			if _, member := w.pos[t][got]; !member {
				viol("outside_group", t, map[string]any{"note": note}, "%s: %s handed out %d (%s), not a member of %v", phase, opNames[kind], got, note, w.members[t])
				return
			}
			if rr {
				want := w.members[t][issued[t]%len(w.members[t])]
				if got != want {
					kindSig := "rr_order"
					if !anchored[t] {
						kindSig = "rr_first_not_first"
					}
					viol(kindSig, t, nil, "%s: selection number %d (from 0) of the %s group handed out client %d, cyclic configuration order says client %d", phase, issued[t], transportNames[t], got, want)
					return
				}
			}
			issued[t]++
			anchored[t] = true
			seen[t][got] = true
		}
		if bad {
			return
		}
		for t := 0; t < 2; t++ {
			if len(seen[t]) == 0 {
				continue
			}
			if rr {
				rec.Class("round-robin/%s/n=%d/%s/wrapped=%v", transportNames[t], len(w.members[t]), phase, len(seen[t]) == len(w.members[t]))
			} else {
				rec.Class("random/%s/n=%d/sequential/distinct-seen=%d", transportNames[t], len(w.members[t]), len(seen[t]))
			}
		}
	}

	sequential("prefix", r.Pick(0, 1, 2, 3, 5, 8, 15, 30))
	if bad {
		return
	}

	// concurrent phase
	G := r.Pick(2, 2, 3, 4, 4, 6, 8, 8, 12, 16)
	hot := r.Chance(1, 3)
	K := r.Pick(1, 2, 5, 10, 25, 50, 100, 200)
	if hot {
		K = r.Pick(200, 500, 1000, 3000)
	}
	plans := make([][]int, G)
	for g := range plans {
		plans[g] = make([]int, K)
		onlyKind := -1
		if r.Chance(1, 3) {
			onlyKind = pickKind(r) // a goroutine hammering a single entry point
		}
		for k := range plans[g] {
			if onlyKind >= 0 {
				plans[g][k] = onlyKind
			} else {
				plans[g][k] = pickKind(r)
			}
		}
	}
	var (
		clock atomic.Int64
		wg    sync.WaitGroup
		gate  = make(chan struct{})
		outs  = make([][]selOp, G)
	)
	for g := 0; g < G; g++ {
		wg.Add(1)
		go func(g int) {
			defer wg.Done()
			ops := make([]selOp, 0, K)
			<-gate
			for _, kind := range plans[g] {
				var o selOp
				o.kind = kind
				if !hot {
					o.call = clock.Add(1)
				}
				o.got, o.note = w.do(kind)
				if o.got >= 0 {
					o.note = ""
				}
				if !hot {
					o.ret = clock.Add(1)
				}
				ops = append(ops, o)
			}
			outs[g] = ops
		}(g)
	}
	close(gate)
	wg.Wait()
	rec.Count("concurrent_selections", int64(G*K))

	for t := 0; t < 2 && !bad; t++ {
		members := w.members[t]
		n := len(members)
		var ops []porcupine.Operation
		counts := map[int]int{}
		total := 0
		for g, gops := range outs {
			for _, o := range gops {
				if transportOf(o.kind) != t {
					continue
				}
				total++
				counts[o.got]++
				p, member := w.pos[t][o.got]
				if !member {
					viol("outside_group", t, map[string]any{"goroutines": G, "per_goroutine": K, "note": o.note}, "concurrent: %s handed out %d (%s), not a member of %v", opNames[o.kind], o.got, o.note, members)
					break
				}
				if !hot {
					ops = append(ops, porcupine.Operation{ClientId: g, Input: n, Call: o.call, Output: p, Return: o.ret})
				}
			}
			if bad {
				break
			}
		}
		if bad || total == 0 {
			continue
		}
		if !rr {
			rec.Class("random/%s/n=%d/concurrent/G=%d/distinct-seen=%d", transportNames[t], n, G, len(counts))
			continue
		}
		// judge checks the concurrent phase against a fetch-and-increment counter whose next ticket is position startPos:
		// tickets startPos .. startPos+total-1 were handed out, each exactly once, so the multiset of results is determined,
		// and the stamped history must be linearizable against the counter (porcupine).
		judge := func(startPos int) (kind string, extra map[string]any, text string) {
			want := map[int]int{}
			for j := 0; j < total; j++ {
				want[members[(startPos+j)%n]]++
			}
			for _, idx := range members {
				if counts[idx] != want[idx] {
					lo, hi := total/n, (total+n-1)/n
					kind = "rr_ticket_multiset"
					if counts[idx] < lo || counts[idx] > hi {
						kind = "rr_unfair_counts" // outside floor/ceil of N/n: some client skipped or repeated
					}
					return kind, map[string]any{"goroutines": G, "per_goroutine": K, "hot": hot, "got_counts": fmt.Sprint(counts), "want_counts": fmt.Sprint(want), "selections": total},
						fmt.Sprintf("concurrent: %d selections by %d goroutines after %d earlier ones: client %d handed out %d times, consecutive tickets give %d (all: got %v want %v)",
							total, G, issued[t], idx, counts[idx], want[idx], counts, want)
				}
			}
			if hot {
				return "", nil, ""
			}
			m := mdl
			m.Init = func() any { return startPos }
			switch porcupine.CheckOperationsTimeout(m, ops, 20*time.Second) {
			case porcupine.Illegal:
				sorted := append([]porcupine.Operation{}, ops...)
				sort.Slice(sorted, func(a, b int) bool { return sorted[a].Call < sorted[b].Call })
				var h []string
				for _, o := range sorted[:min(len(sorted), 80)] {
					h = append(h, fmt.Sprintf("g%d [%d,%d] pos %d", o.ClientId, o.Call, o.Return, o.Output))
				}
				return "rr_not_linearizable", map[string]any{"goroutines": G, "per_goroutine": K, "start_position": startPos, "history(first 80)": h},
					fmt.Sprintf("concurrent: history of %d selections is not linearizable against fetch-and-increment over %d members", len(ops), n)
			case porcupine.Unknown:
				rec.Inconclusive("porcupine-timeout")
			}
			return "", nil, ""
		}
		kind, extra, text := judge(issued[t] % n)
		if kind == "" && total%n != 0 {
			anchored[t] = true
		}
		if kind != "" && !anchored[t] {
			// Nothing was selected before the concurrent phase, so the start of the cycle is not anchored by an observation.
			// If the phase is a perfect fetch-and-increment from another start position, the only thing wrong is where the
			// cycle starts: report that under the signature of that reading, not as a lost or repeated ticket.
			for s := 1; s < n; s++ {
				if k, _, _ := judge(s); k == "" {
					kind, text = "rr_first_not_first", fmt.Sprintf("concurrent: %d selections from a fresh group form a perfect cycle that starts at position %d instead of the first configured client", total, s)
					break
				}
			}
		}
		if kind != "" {
			viol(kind, t, extra, "%s", text)
			continue
		}
		overlap, inverted := false, false
		if !hot {
			sort.Slice(ops, func(a, b int) bool { return ops[a].Call < ops[b].Call })
			for i := 1; i < len(ops); i++ {
				if ops[i].Call < ops[i-1].Return && ops[i].ClientId != ops[i-1].ClientId {
					overlap = true
					// with n > 1, neighbours in call order that did not get neighbouring positions in order
					if n > 1 && ops[i].Output.(int) != (ops[i-1].Output.(int)+1)%n {
						inverted = true
					}
				}
			}
		}
		gb := "2-3"
		switch {
		case G >= 8:
			gb = "8-16"
		case G >= 4:
			gb = "4-6"
		}
		rec.Class("round-robin/%s/n=%d/concurrent/G=%s/hot=%v/overlap=%v/reordered=%v", transportNames[t], n, gb, hot, overlap, inverted)
		issued[t] += total
	}
	if bad {
		return
	}
	if !rr {
		sequential("suffix", 5)
		return
	}
	sequential("suffix", r.Pick(1, 3, 8, 16))
	if ci%100 == 0 && !bad {
		rec.Sample(6, detail(map[string]any{"case": ci, "goroutines": G, "per_goroutine": K, "hot": hot}))
	}
}
