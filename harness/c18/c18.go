// Package c18 monitors "configurations are either rejected at load or run
// without invariant violations": JSON documents are generated from valid
// templates plus one labelled mutation, loaded through the real
// service.Config.Manager (strict decoding, as jsoncfg.Load does) and compared
// with a reference validator that knows only the documented invariants;
// accepted documents are started and driven with smoke traffic; omitted,
// empty and explicit-default forms of optional fields must be
// indistinguishable.
package c18

import (
	"context"
	"encoding/json"
	"fmt"
	"io"
	"net"
	"net/netip"
	"os"
	"path/filepath"
	"reflect"
	"strings"
	"time"

	"github.com/database64128/shadowsocks-go/conn"
	"github.com/database64128/shadowsocks-go/netio"
	"github.com/database64128/shadowsocks-go/service"
	"github.com/database64128/shadowsocks-go/ss2022"
	"go.uber.org/zap/zapcore"

	"verif/core"
	"verif/forge"
	"verif/svx"
	"verif/vtime"
)

func init() {
	core.Register("C18", "load", runLoad)
	core.Register("C18", "defaults", runDefaults)
	core.Register("C18", "run", runRun)
}

type doc = map[string]any

func clone(v any) any {
	b, _ := json.Marshal(v)
	var out any
	json.Unmarshal(b, &out)
	return out
}

func key(n int, tag string) string { return svxB64(forge.Key(n, "c18/"+tag)) }

func svxB64(b []byte) string {
	j, _ := json.Marshal(b)
	return strings.Trim(string(j), `"`)
}

// base returns a valid configuration exercising most sections. ports are only bound in the run part.
func base(dir string, p []int) doc {
	os.MkdirAll(dir, 0o755)
	store := filepath.Join(dir, "upsks.json")
	os.WriteFile(store, []byte(fmt.Sprintf("{\n    \"alice\": %q,\n    \"bob\": %q\n}\n", key(16, "alice"), key(16, "bob"))), 0o644)
	ds := filepath.Join(dir, "ds.txt")
	os.WriteFile(ds, []byte("domain:blocked.example\nsuffix:ads.example\n"), 0o644)
	ps := filepath.Join(dir, "ps.txt")
	os.WriteFile(ps, []byte("10.0.0.0/8\n"), 0o644)
	addr := func(i int) string { return fmt.Sprintf("127.0.0.1:%d", p[i]) }
	return doc{
		"servers": []any{
			doc{"name": "s-socks", "protocol": "socks5", "mtu": 1500,
				"tcpListeners": []any{doc{"network": "tcp", "address": addr(0)}},
				"udpListeners": []any{doc{"network": "udp", "address": addr(0), "natTimeout": "1m0s"}}},
			doc{"name": "s-ss", "protocol": "2022-blake3-aes-128-gcm", "mtu": 1500, "psk": key(16, "s-ss"),
				"tcpListeners": []any{doc{"network": "tcp", "address": addr(1)}},
				"udpListeners": []any{doc{"network": "udp", "address": addr(1)}}},
			doc{"name": "s-multi", "protocol": "2022-blake3-aes-128-gcm", "mtu": 1500, "psk": key(16, "s-multi"), "uPSKStorePath": store,
				"tcpListeners": []any{doc{"network": "tcp", "address": addr(2)}},
				"udpListeners": []any{doc{"network": "udp", "address": addr(2), "natTimeout": "2m0s"}}},
			doc{"name": "s-tunnel", "protocol": "direct", "mtu": 1500, "tunnelRemoteAddress": "127.0.0.2:" + fmt.Sprint(p[5]),
				"tcpListeners": []any{doc{"network": "tcp", "address": addr(3)}},
				"udpListeners": []any{doc{"network": "udp", "address": addr(3)}}},
			doc{"name": "s-http", "protocol": "http", "tcpListeners": []any{doc{"network": "tcp", "address": addr(4)}}},
		},
		"clients": []any{
			doc{"name": "direct", "protocol": "direct", "enableTCP": true, "enableUDP": true, "mtu": 1500},
			doc{"name": "c-ss", "protocol": "2022-blake3-aes-128-gcm", "endpoint": addr(2), "enableTCP": true, "enableUDP": true, "mtu": 1500,
				"psk": key(16, "alice"), "iPSKs": []any{key(16, "s-multi")}},
			doc{"name": "c-socks", "protocol": "socks5", "endpoint": addr(0), "enableTCP": true, "enableUDP": true, "mtu": 1500},
		},
		"clientGroups": []any{doc{"name": "g-rr", "tcp": doc{"policy": "round-robin", "clients": []any{"direct", "c-socks"}}, "udp": doc{"policy": "round-robin", "clients": []any{"direct", "c-socks"}}}},
		"dns":          []any{doc{"name": "local", "addrPort": "127.0.0.1:" + fmt.Sprint(p[6]), "tcpClientName": "direct", "udpClientName": "direct"}},
		"router": doc{
			"defaultTCPClientName": "direct", "defaultUDPClientName": "direct",
			"domainSets": []any{doc{"name": "blocked", "path": ds}},
			"prefixSets": []any{doc{"name": "private", "path": ps}},
			"routes": []any{
				doc{"name": "block", "client": "reject", "toDomainSets": []any{"blocked"}},
				doc{"name": "via-ss", "client": "c-ss", "fromServers": []any{"s-http"}, "toPrefixSets": []any{"private"}, "resolver": "local"},
				doc{"name": "grp", "client": "g-rr", "toPorts": []any{9999.0}},
				// a condition on the FIRST server only: requests arriving on every later server evaluate it too
				doc{"name": "from-first", "client": "direct", "fromServers": []any{"s-socks"}},
			},
		},
	}
}

// mutation edits a document and states what the documented invariants say about the result.
type mutation struct {
	name   string
	expect string // accept | reject
	why    string
	apply  func(d doc, dir string)
}

func srv(d doc, i int) doc    { return d["servers"].([]any)[i].(doc) }
func cli(d doc, i int) doc    { return d["clients"].([]any)[i].(doc) }
func udpL(s doc) doc          { return s["udpListeners"].([]any)[0].(doc) }
func tcpL(s doc) doc          { return s["tcpListeners"].([]any)[0].(doc) }
func route(d doc, i int) doc  { return d["router"].(doc)["routes"].([]any)[i].(doc) }
func router(d doc) doc        { return d["router"].(doc) }
func writeStore(dir, body string) string {
	p := filepath.Join(dir, "upsks-mut.json")
	os.WriteFile(p, []byte(body), 0o644)
	return p
}

func mutations() []mutation {
	ms := []mutation{
		{"none", "accept", "valid template", func(doc, string) {}},
		// key lengths
		{"server-psk-15", "reject", "key length must match the method", func(d doc, _ string) { srv(d, 1)["psk"] = key(15, "x") }},
		{"server-psk-17", "reject", "key length must match the method", func(d doc, _ string) { srv(d, 1)["psk"] = key(17, "x") }},
		{"server-psk-32-for-128", "reject", "key length must match the method", func(d doc, _ string) { srv(d, 1)["psk"] = key(32, "x") }},
		{"server-256-psk-32", "accept", "key length matches the method", func(d doc, _ string) {
			srv(d, 1)["protocol"] = "2022-blake3-aes-256-gcm"
			srv(d, 1)["psk"] = key(32, "x")
		}},
		{"server-256-psk-16", "reject", "key length must match the method", func(d doc, _ string) { srv(d, 1)["protocol"] = "2022-blake3-aes-256-gcm" }},
		{"multi-ipsk-24", "reject", "iPSK length must match the method", func(d doc, _ string) { srv(d, 2)["psk"] = key(24, "x") }},
		{"client-psk-17", "reject", "key length must match the method", func(d doc, _ string) { cli(d, 1)["psk"] = key(17, "x") }},
		{"client-ipsk-32", "reject", "iPSK length must match the method", func(d doc, _ string) { cli(d, 1)["iPSKs"] = []any{key(32, "x")} }},
		{"client-ipsk-48", "reject", "iPSK length must match the method", func(d doc, _ string) { cli(d, 1)["iPSKs"] = []any{key(48, "x")} }},
		{"client-second-ipsk-15", "reject", "iPSK length must match the method", func(d doc, _ string) { cli(d, 1)["iPSKs"] = []any{key(16, "a"), key(15, "b")} }},
		{"store-key-15", "reject", "uPSK length must match the method", func(d doc, dir string) {
			srv(d, 2)["uPSKStorePath"] = writeStore(dir, fmt.Sprintf("{\"alice\": %q}", key(15, "a")))
		}},
		{"store-dup-key", "reject", "a uPSK identifies one user", func(d doc, dir string) {
			srv(d, 2)["uPSKStorePath"] = writeStore(dir, fmt.Sprintf("{\"alice\": %q, \"bob\": %q}", key(16, "a"), key(16, "a")))
		}},
		{"store-garbage", "reject", "store file must parse", func(d doc, dir string) { srv(d, 2)["uPSKStorePath"] = writeStore(dir, "{\"alice\": ") }},
		{"store-missing", "reject", "store file must exist", func(d doc, dir string) { srv(d, 2)["uPSKStorePath"] = filepath.Join(dir, "nope.json") }},
		// NAT timeout vs replay window
		{"ss-nat-59s", "reject", "SS2022 NAT timeout must not be shorter than the replay window", func(d doc, _ string) { udpL(srv(d, 1))["natTimeout"] = "59s" }},
		{"ss-nat-60s", "accept", "NAT timeout equal to the replay window", func(d doc, _ string) { udpL(srv(d, 1))["natTimeout"] = "1m0s" }},
		{"ss-nat-61s", "accept", "NAT timeout above the replay window", func(d doc, _ string) { udpL(srv(d, 1))["natTimeout"] = "1m1s" }},
		{"multi-nat-59s", "reject", "SS2022 NAT timeout must not be shorter than the replay window", func(d doc, _ string) { udpL(srv(d, 2))["natTimeout"] = "59.999s" }},
		{"socks-nat-1s", "accept", "no minimum for address-keyed protocols", func(d doc, _ string) { udpL(srv(d, 0))["natTimeout"] = "1s" }},
		{"ss-legacy-nat-59", "reject", "SS2022 NAT timeout must not be shorter than the replay window (legacy field)", func(d doc, _ string) {
			s := srv(d, 1)
			a := udpL(s)["address"]
			delete(s, "udpListeners")
			delete(s, "tcpListeners")
			s["listen"], s["enableUDP"], s["enableTCP"], s["natTimeoutSec"] = a, true, true, 59.0
		}},
		{"ss-legacy-nat-60", "accept", "legacy single-listener form", func(d doc, _ string) {
			s := srv(d, 1)
			a := udpL(s)["address"]
			delete(s, "udpListeners")
			delete(s, "tcpListeners")
			s["listen"], s["enableUDP"], s["enableTCP"], s["natTimeoutSec"] = a, true, true, 60.0
		}},
		// MTU
		{"server-mtu-1279", "reject", "MTU must be at least 1280", func(d doc, _ string) { srv(d, 0)["mtu"] = 1279.0 }},
		{"server-mtu-1280", "accept", "MTU 1280", func(d doc, _ string) { srv(d, 0)["mtu"] = 1280.0 }},
		{"server-mtu-65535", "accept", "large MTU", func(d doc, _ string) { srv(d, 1)["mtu"] = 65535.0 }},
		{"client-mtu-1279", "reject", "MTU must be at least 1280", func(d doc, _ string) { cli(d, 1)["mtu"] = 1279.0 }},
		{"client-mtu-1280", "accept", "MTU 1280", func(d doc, _ string) { cli(d, 1)["mtu"] = 1280.0 }},
		// batch sizes / channel capacity / modes
		{"relay-batch-1025", "reject", "batch size out of range", func(d doc, _ string) { udpL(srv(d, 0))["relayBatchSize"] = 1025.0 }},
		{"relay-batch-1024", "accept", "batch size at the limit", func(d doc, _ string) { udpL(srv(d, 0))["relayBatchSize"] = 1024.0 }},
		{"relay-batch-1", "accept", "batch size 1", func(d doc, _ string) { udpL(srv(d, 0))["relayBatchSize"] = 1.0 }},
		{"relay-batch-neg", "reject", "batch size out of range", func(d doc, _ string) { udpL(srv(d, 0))["relayBatchSize"] = -1.0 }},
		{"recv-batch-1025", "reject", "batch size out of range", func(d doc, _ string) { udpL(srv(d, 1))["serverRecvBatchSize"] = 1025.0 }},
		{"chan-cap-63", "reject", "send channel capacity below 64", func(d doc, _ string) { udpL(srv(d, 0))["sendChannelCapacity"] = 63.0 }},
		{"chan-cap-64", "accept", "send channel capacity 64", func(d doc, _ string) { udpL(srv(d, 0))["sendChannelCapacity"] = 64.0 }},
		{"batch-mode-bogus", "reject", "unknown batch mode", func(d doc, _ string) { udpL(srv(d, 0))["batchMode"] = "bogus" }},
		{"batch-mode-no", "accept", "generic batch mode", func(d doc, _ string) { udpL(srv(d, 0))["batchMode"] = "no" }},
		// protocols, policies, unknown fields
		{"server-proto-bogus", "reject", "unknown protocol", func(d doc, _ string) { srv(d, 0)["protocol"] = "socks6" }},
		{"client-proto-bogus", "reject", "unknown protocol", func(d doc, _ string) { cli(d, 2)["protocol"] = "socks6" }},
		{"padding-bogus", "reject", "unknown padding policy", func(d doc, _ string) { srv(d, 1)["paddingPolicy"] = "PadSome" }},
		{"reject-policy-bogus", "reject", "unknown reject policy", func(d doc, _ string) { srv(d, 1)["rejectPolicy"] = "Explode" }},
		{"padding-empty", "accept", "empty = default", func(d doc, _ string) { srv(d, 1)["paddingPolicy"] = "" }},
		{"reject-policy-empty", "accept", "empty = default", func(d doc, _ string) { srv(d, 1)["rejectPolicy"] = "" }},
		{"unknown-field", "reject", "unknown fields are refused by the loader", func(d doc, _ string) { srv(d, 0)["natTimeOut"] = "1m" }},
		// references and names
		{"default-tcp-dangling", "reject", "default client must exist", func(d doc, _ string) { router(d)["defaultTCPClientName"] = "nobody" }},
		{"default-udp-dangling", "reject", "default client must exist", func(d doc, _ string) { router(d)["defaultUDPClientName"] = "nobody" }},
		{"route-client-dangling", "reject", "route client must exist", func(d doc, _ string) { route(d, 1)["client"] = "nobody" }},
		{"route-resolver-dangling", "reject", "route resolver must exist", func(d doc, _ string) { route(d, 1)["resolver"] = "nobody" }},
		{"route-server-dangling", "reject", "route server must exist", func(d doc, _ string) { route(d, 1)["fromServers"] = []any{"nobody"} }},
		{"route-domainset-dangling", "reject", "domain set must exist", func(d doc, _ string) { route(d, 0)["toDomainSets"] = []any{"nobody"} }},
		{"route-prefixset-dangling", "reject", "prefix set must exist", func(d doc, _ string) { route(d, 1)["toPrefixSets"] = []any{"nobody"} }},
		{"group-member-dangling", "reject", "client group member must exist", func(d doc, _ string) {
			d["clientGroups"].([]any)[0].(doc)["tcp"].(doc)["clients"] = []any{"direct", "nobody"}
		}},
		{"dns-client-dangling", "reject", "resolver client must exist", func(d doc, _ string) { d["dns"].([]any)[0].(doc)["udpClientName"] = "nobody" }},
		{"dup-server", "reject", "names are unique", func(d doc, _ string) { srv(d, 4)["name"] = "s-socks" }},
		{"dup-client", "reject", "names are unique", func(d doc, _ string) { cli(d, 2)["name"] = "direct" }},
		{"dup-group-vs-client", "reject", "names are unique", func(d doc, _ string) { d["clientGroups"].([]any)[0].(doc)["name"] = "direct" }},
		{"dup-group-vs-udp-only-client", "reject", "names are unique", func(d doc, _ string) {
			d["clients"] = append(d["clients"].([]any), doc{"name": "g-rr", "protocol": "direct", "enableUDP": true, "mtu": 1500})
		}},
		{"dup-udp-only-groups", "reject", "names are unique", func(d doc, _ string) {
			g := doc{"name": "g-udp", "udp": doc{"policy": "round-robin", "clients": []any{"direct", "c-socks"}}}
			d["clientGroups"] = append(d["clientGroups"].([]any), g, clone(g))
		}},
		{"udp-only-group-vs-udp-only-client", "reject", "names are unique", func(d doc, _ string) {
			d["clients"] = append(d["clients"].([]any), doc{"name": "c-udp", "protocol": "direct", "enableUDP": true, "mtu": 1500})
			d["clientGroups"] = append(d["clientGroups"].([]any), doc{"name": "c-udp", "udp": doc{"policy": "round-robin", "clients": []any{"direct"}}})
		}},
		{"route-from-middle-server-inverted", "accept", "a source-server condition may name any server", func(d doc, _ string) {
			route(d, 3)["fromServers"] = []any{"s-ss"}
			route(d, 3)["invertFromServers"] = true
		}},
		{"dup-dns", "reject", "names are unique", func(d doc, _ string) {
			d["dns"] = append(d["dns"].([]any), clone(d["dns"].([]any)[0]))
		}},
		{"route-name-default", "reject", "route name must not be 'default'", func(d doc, _ string) { route(d, 0)["name"] = "default" }},
		// tunnel
		{"tunnel-no-address", "reject", "direct server needs a remote address", func(d doc, _ string) { delete(srv(d, 3), "tunnelRemoteAddress") }},
		{"tunnel-domain", "accept", "domain tunnel address", func(d doc, _ string) { srv(d, 3)["tunnelRemoteAddress"] = "tunnel.c18.test:5353" }},
		{"tunnel-ip-target-only", "accept", "target-only with an IP address", func(d doc, _ string) { srv(d, 3)["tunnelUDPTargetOnly"] = true }},
		{"no-servers", "reject", "nothing to start", func(d doc, _ string) { d["servers"] = []any{} }},
		// referenced set files that do not parse
		{"prefixset-file-garbage", "reject", "prefix set file must parse", func(d doc, dir string) {
			p := filepath.Join(dir, "ps-bad.txt")
			os.WriteFile(p, []byte("10.0.0.0/8\nnot-a-prefix\n"), 0o644)
			router(d)["prefixSets"].([]any)[0].(doc)["path"] = p
		}},
		{"prefixset-file-missing", "reject", "prefix set file must exist", func(d doc, dir string) {
			router(d)["prefixSets"].([]any)[0].(doc)["path"] = filepath.Join(dir, "nope.txt")
		}},
		{"domainset-file-garbage", "reject", "domain set file must parse", func(d doc, dir string) {
			p := filepath.Join(dir, "ds-bad.txt")
			os.WriteFile(p, []byte("domain:ok.example\nregexp:(\n"), 0o644)
			router(d)["domainSets"].([]any)[0].(doc)["path"] = p
		}},
		{"domainset-file-unknown-rule", "reject", "domain set file must parse", func(d doc, dir string) {
			p := filepath.Join(dir, "ds-bad2.txt")
			os.WriteFile(p, []byte("bogus:ok.example\n"), 0o644)
			router(d)["domainSets"].([]any)[0].(doc)["path"] = p
		}},
		// proxy server address forms of a client: one endpoint, or a TCP and a UDP address, each required by the
		// network that is enabled and by no other
		{"client-split-addresses", "accept", "tcpAddress + udpAddress instead of endpoint", func(d doc, _ string) {
			c := cli(d, 2)
			ep := c["endpoint"]
			delete(c, "endpoint")
			c["tcpAddress"], c["udpAddress"] = ep, ep
		}},
		{"client-no-address", "reject", "a proxy client needs a server address", func(d doc, _ string) { delete(cli(d, 2), "endpoint") }},
		{"client-endpoint-and-tcp-address", "reject", "endpoint and split addresses conflict", func(d doc, _ string) { cli(d, 2)["tcpAddress"] = cli(d, 2)["endpoint"] }},
		{"client-endpoint-and-udp-address", "reject", "endpoint and split addresses conflict", func(d doc, _ string) { cli(d, 2)["udpAddress"] = cli(d, 2)["endpoint"] }},
		{"client-udp-enabled-without-udp-address", "reject", "an enabled network needs its server address", func(d doc, _ string) {
			c := cli(d, 2)
			c["tcpAddress"] = c["endpoint"]
			delete(c, "endpoint")
		}},
		{"client-tcp-enabled-without-tcp-address", "reject", "an enabled network needs its server address", func(d doc, _ string) {
			c := cli(d, 2)
			c["udpAddress"] = c["endpoint"]
			delete(c, "endpoint")
		}},
		{"client-udp-only-with-udp-address", "accept", "a UDP-only client needs no TCP address", func(d doc, _ string) {
			d["clients"] = append(d["clients"].([]any), doc{"name": "c-udponly", "protocol": "socks5", "udpAddress": srv(d, 0)["tcpListeners"].([]any)[0].(doc)["address"], "enableUDP": true, "mtu": 1500})
		}},
		{"client-tcp-only-with-tcp-address", "accept", "a TCP-only client needs no UDP address", func(d doc, _ string) {
			d["clients"] = append(d["clients"].([]any), doc{"name": "c-tcponly", "protocol": "socks5", "tcpAddress": srv(d, 0)["tcpListeners"].([]any)[0].(doc)["address"], "enableTCP": true})
		}},
	}
	return ms
}

func runLoad(e *core.Env) {
	rec := e.Rec
	rec.Rule("load: one case = valid template (5 servers of every protocol family, 3 clients, a client group, a resolver, router with sets) + one labelled mutation (or two independent accept-mutations) touching a documented invariant: key lengths, SS2022 NAT timeout vs replay window (also legacy field), MTU 1279/1280, batch sizes 1024/1025, channel capacity 63/64, unknown protocol/mode/policy/field, dangling and duplicate names, tunnel address forms, client server-address forms (endpoint / split addresses vs the networks enabled); loaded with the real Config.Manager after strict decoding; class = (mutation, expectation, outcome)")
	ms := mutations()
	var accepts []int
	for i, m := range ms {
		if m.expect == "accept" && m.name != "none" && !strings.Contains(m.name, "legacy") {
			accepts = append(accepts, i)
		}
	}
	n := len(ms) + e.N(200, 3000)
	core.Parallel(e, "load", n, 8, func(i int) {
		r := core.NewRNG(e.Seed, "c18.load", i)
		dir := filepath.Join(e.WorkDir, fmt.Sprintf("load-%d", i))
		defer os.RemoveAll(dir)
		d := base(dir, []int{20000 + i%1000, 21001, 21002, 21003, 21004, 21005, 21006})
		var names []string
		expect := "accept"
		if i < len(ms) {
			ms[i].apply(d, dir)
			names, expect = []string{ms[i].name}, ms[i].expect
		} else {
			// a reject mutation on top of 0-2 accept mutations, or several accept mutations together
			for k := r.Intn(3); k > 0; k-- {
				m := ms[accepts[r.Intn(len(accepts))]]
				if conflicts(names, m.name) {
					continue
				}
				m.apply(d, dir)
				names = append(names, m.name)
			}
			if r.Bool() {
				for {
					m := ms[r.Intn(len(ms))]
					if m.expect == "reject" && !strings.Contains(m.name, "legacy") && !conflicts(names, m.name) {
						m.apply(d, dir)
						names = append(names, m.name)
						expect = "reject"
						break
					}
				}
			}
		}
		rec.Begin("load", i, strings.Join(names, "+"))
		rec.Eval()
		b, _ := json.Marshal(d)
		_, _, err := svx.Load(b, zapcore.ErrorLevel)
		got := "accept"
		if err != nil {
			got = "reject"
		}
		if got != expect {
			es := ""
			if err != nil {
				es = err.Error()
			}
			rec.Violate("load", i, core.Sig("kind", "load_"+got+"_expected_"+expect, "part", "load", "mutation", names[len(names)-1]), map[string]any{"mutations": names, "error": es, "config": d},
				"configuration with mutation %v was %sed (%s); the documented invariants say %s", names, got, es, expect)
			return
		}
		rec.Class("%s/%s", strings.Join(names, "+"), got)
		if i%25 == 0 {
			rec.Sample(6, map[string]any{"mutations": names, "expect": expect, "outcome": got})
		}
	})
}

func conflicts(have []string, name string) bool {
	pfx := func(s string) string {
		parts := strings.SplitN(s, "-", 3)
		if len(parts) >= 2 {
			return parts[0] + "-" + parts[1]
		}
		return s
	}
	for _, h := range have {
		if h == name || pfx(h) == pfx(name) || (strings.HasPrefix(h, "ss-") && strings.HasPrefix(name, "ss-")) || (strings.HasPrefix(h, "server-") && strings.HasPrefix(name, "server-")) || (strings.HasPrefix(h, "tunnel") && strings.HasPrefix(name, "tunnel")) || (strings.HasPrefix(h, "client-") && strings.Contains(h, "address") && strings.HasPrefix(name, "client-") && strings.Contains(name, "address")) {
			return true
		}
	}
	return false
}

// ---- default equivalence of the two policy fields ----

func fnPtr(f any) uintptr { return reflect.ValueOf(f).Pointer() }

func runDefaults(e *core.Env) {
	rec := e.Rec
	rec.Rule("defaults: for the two policy fields of a Shadowsocks 2022 server the omitted, empty-string and documented-default forms (README: paddingPolicy default PadPlainDNS, rejectPolicy default ForceReset) must decode to the same policy function; every documented policy name must decode to its own function; class = (field, form)")
	type form struct{ name, json string }
	forms := []form{{"omitted", ""}, {"empty", `""`}}
	check := func(field, docDefault string, get func(sc *service.ServerConfig) uintptr, want map[string]uintptr) {
		for name, ptr := range want {
			forms2 := append([]form{}, forms...)
			forms2 = append(forms2, form{"explicit:" + name, fmt.Sprintf("%q", name)})
			for _, f := range forms2 {
				rec.Eval()
				body := `{"name":"s","protocol":"2022-blake3-aes-128-gcm","psk":"` + key(16, "d") + `"`
				if f.json != "" {
					body += `,"` + field + `":` + f.json
				}
				body += "}"
				var sc service.ServerConfig
				if err := svx.DecodeStrict([]byte(body), &sc); err != nil {
					rec.Violate("defaults", 0, core.Sig("kind", "documented_value_refused", "part", "defaults", "field", field, "form", f.name), body, "decoding %s failed: %v", body, err)
					continue
				}
				got := get(&sc)
				wantPtr := ptr
				if !strings.HasPrefix(f.name, "explicit:") {
					wantPtr = want[docDefault]
				}
				if got != wantPtr {
					rec.Violate("defaults", 0, core.Sig("kind", "default_mismatch", "part", "defaults", "field", field, "form", f.name), map[string]any{"json": body, "documented_default": docDefault},
						"%s %s does not behave as the documented default %s / its own name", field, f.name, docDefault)
					continue
				}
				rec.Class("%s/%s", field, f.name)
			}
		}
	}
	check("paddingPolicy", "PadPlainDNS", func(sc *service.ServerConfig) uintptr { return fnPtr(sc.PaddingPolicy.Policy()) },
		map[string]uintptr{"PadPlainDNS": fnPtr(ss2022.PadPlainDNS), "PadAll": fnPtr(ss2022.PadAll), "NoPadding": fnPtr(ss2022.NoPadding)})
	check("rejectPolicy", "ForceReset", func(sc *service.ServerConfig) uintptr { return fnPtr(sc.RejectPolicy.Policy()) },
		map[string]uintptr{"JustClose": fnPtr(ss2022.JustClose), "ForceReset": fnPtr(ss2022.ForceReset), "CloseWriteDrain": fnPtr(ss2022.CloseWriteDrain), "ReplyWithGibberish": fnPtr(ss2022.ReplyWithGibberish)})
	rec.Sample(2, map[string]any{"fields": []string{"paddingPolicy", "rejectPolicy"}, "forms": []string{"omitted", "empty", "explicit"}})
}

// ---- accepted configurations run: smoke traffic through every enabled server ----

func runRun(e *core.Env) {
	rec := e.Rec
	rec.Rule("run: every accept-mutation of the template (incl. legacy single-listener forms, boundary MTU / batch / capacity values, domain tunnel address, target-only tunnel) is started with the real manager and driven: one UDP exchange (incl. the reply) and one TCP exchange through each kind of server with the repo's own clients, a malformed datagram next to the genuine one, then stopped; class = (mutation, servers exercised)")
	ms := mutations()
	var acc []mutation
	for _, m := range ms {
		if m.expect == "accept" {
			acc = append(acc, m)
		}
	}
	// extra accepted forms that matter once traffic flows
	acc = append(acc,
		mutation{"tunnel-domain-target-only", "either", "must be refused at load or run without crashing", func(d doc, _ string) {
			srv(d, 3)["tunnelRemoteAddress"] = "tunnel.c18.test:5353"
			srv(d, 3)["tunnelUDPTargetOnly"] = true
		}},
		mutation{"socks-legacy-listen", "accept", "legacy single-listener form", func(d doc, _ string) {
			s := srv(d, 0)
			a := udpL(s)["address"]
			delete(s, "udpListeners")
			delete(s, "tcpListeners")
			s["listen"], s["enableUDP"], s["enableTCP"] = a, true, true
		}},
		mutation{"multi-legacy-listen", "accept", "legacy single-listener form", func(d doc, _ string) {
			s := srv(d, 2)
			a := udpL(s)["address"]
			delete(s, "udpListeners")
			delete(s, "tcpListeners")
			s["listen"], s["enableUDP"], s["enableTCP"], s["natTimeoutSec"] = a, true, true, 120.0
		}},
	)
	dns := svx.InstallFakeDNS()
	vtime.Freeze()
	core.Parallel(e, "run", len(acc), 1, func(i int) {
		m := acc[i]
		r := core.NewRNG(e.Seed, "c18.run", i)
		rec.Begin("run", i, m.name)
		rec.Eval()
		dir := filepath.Join(e.WorkDir, fmt.Sprintf("run-%d", i))
		defer os.RemoveAll(dir)
		p := svx.FreePorts(7)
		d := base(dir, p)
		m.apply(d, dir)
		// targets: the tunnel's fixed destination and an echo target for the proxies
		tun, err := svx.NewUDPTarget("TUN", "127.0.0.2", p[5])
		if err != nil {
			rec.Inconclusive("target")
			return
		}
		defer tun.Close()
		tunTCP, _ := svx.NewTCPTarget("TUNT", "127.0.0.2", p[5], "echo", nil)
		if tunTCP != nil {
			defer tunTCP.Close()
		}
		dns.Set("tunnel.c18.test", "127.0.0.2")
		if sp, ok := srv(d, 3)["tunnelRemoteAddress"].(string); ok && strings.HasPrefix(sp, "tunnel.c18.test") {
			srv(d, 3)["tunnelRemoteAddress"] = fmt.Sprintf("tunnel.c18.test:%d", p[5])
		}
		b, _ := json.Marshal(d)
		inst, err := svx.Start(b)
		if err != nil {
			if m.expect == "either" {
				rec.Class("%s/refused-at-load", m.name)
				return
			}
			rec.Violate("run", i, core.Sig("kind", "load_reject_expected_accept", "part", "run", "mutation", m.name), map[string]any{"error": err.Error()}, "valid configuration %s refused: %v", m.name, err)
			return
		}
		viol := func(kind, format string, a ...any) {
			rec.Violate("run", i, core.Sig("kind", kind, "part", "run", "mutation", m.name), map[string]any{"mutation": m.name, "logs": inst.LogLines(15)}, format, a...)
		}
		stopped := false
		defer func() {
			if !stopped {
				inst.Stop(20 * time.Second)
			}
		}()
		if !inst.WaitLogs("relay service listener", 9, 40*time.Second) {
			viol("listeners_not_started", "only %d of 9 listeners started", inst.CountLogs("relay service listener"))
			return
		}
		exercised := 0
		t := &svx.Topo{}
		_ = t
		// --- UDP + TCP through each server with a matching client document ---
		type cl struct {
			name string
			cfg  doc
			tcp  bool
		}
		mkc := func(proto string, port int, extra doc) doc {
			c := doc{"name": "h", "protocol": proto, "endpoint": fmt.Sprintf("127.0.0.1:%d", port), "enableTCP": true, "enableUDP": true, "mtu": 1500}
			for k, v := range extra {
				c[k] = v
			}
			return c
		}
		ssProto := srv(d, 1)["protocol"].(string)
		clients := []cl{
			{"socks5", mkc("socks5", p[0], nil), true},
			{"ss-single", mkc(ssProto, p[1], doc{"psk": srv(d, 1)["psk"]}), true},
			{"ss-multi", mkc("2022-blake3-aes-128-gcm", p[2], doc{"psk": key(16, "bob"), "iPSKs": []any{srv(d, 2)["psk"]}}), true},
		}
		udpTarget, _ := svx.NewUDPTarget("E", "127.0.0.3", 0)
		defer udpTarget.Close()
		tcpTarget, _ := svx.NewTCPTarget("ET", "127.0.0.3", 0, "echo", nil)
		defer tcpTarget.Close()
		for _, c := range clients {
			hc, err := svx.NewClient(svx.JSON(c.cfg))
			if err != nil {
				viol("client_build_failed", "%s: %v", c.name, err)
				return
			}
			peer, err := hc.NewUDPPeer("127.0.0.1")
			if err != nil {
				viol("udp_session_failed", "%s: %v", c.name, err)
				return
			}
			msg := []byte("c18-udp-" + c.name)
			peer.Send(conn.AddrFromIPPort(udpTarget.Addr), msg)
			// a malformed datagram next to it
			peer.SendRaw(udpTarget.Addr, nil)
			bad := r.Bytes(r.Pick(1, 16, 40))
			peer.Conn.WriteToUDPAddrPort(bad, netipMust(c.cfg["endpoint"].(string)))
			if !svx.Poll(30*time.Second, func() bool { return len(peer.Got()) >= 1 }) {
				peer.Close()
				viol("udp_exchange_failed", "%s: no reply to a datagram relayed through an accepted configuration", c.name)
				return
			}
			g := peer.Got()[0]
			if string(g.Payload) != "E|"+string(msg) {
				peer.Close()
				viol("udp_exchange_corrupted", "%s: reply %q", c.name, g.Payload)
				return
			}
			peer.Close()
			// TCP
			cc, err := hc.TCP.DialStream(context.Background(), conn.AddrFromIPPort(tcpTarget.Addr), []byte("c18-tcp-"+c.name))
			if err != nil {
				viol("tcp_exchange_failed", "%s: dial: %v", c.name, err)
				return
			}
			cc.(netio.Conn).CloseWrite()
			done := make(chan []byte, 1)
			go func() { b, _ := io.ReadAll(cc); done <- b }()
			var got []byte
			if !svx.Poll(30*time.Second, func() bool {
				select {
				case got = <-done:
					return true
				default:
					return false
				}
			}) {
				// the relay may still sit in its initial-payload wait: nothing to wait for here because data was sent with the dial
				cc.Close()
				viol("tcp_exchange_failed", "%s: echo did not come back", c.name)
				return
			}
			cc.Close()
			if string(got) != "c18-tcp-"+c.name {
				viol("tcp_exchange_corrupted", "%s: echo %q", c.name, got)
				return
			}
			exercised++
		}
		// --- the tunnel server: UDP to its fixed destination and the reply back ---
		{
			uc, err := netListenUDP()
			if err == nil {
				uc.WriteToUDPAddrPort([]byte("c18-tunnel"), netipMust(fmt.Sprintf("127.0.0.1:%d", p[3])))
				buf := make([]byte, 2048)
				got := make(chan string, 1)
				go func() {
					n, _, err := uc.ReadFromUDPAddrPort(buf)
					if err == nil {
						got <- string(buf[:n])
					}
				}()
				var reply string
				ok := svx.Poll(30*time.Second, func() bool {
					select {
					case reply = <-got:
						return true
					default:
						return false
					}
				})
				uc.Close()
				if !ok || reply != "TUN|c18-tunnel" {
					viol("tunnel_exchange_failed", "tunnel server: reply %q (ok=%v)", reply, ok)
					return
				}
				exercised++
			}
		}
		sr := inst.Stop(20 * time.Second)
		stopped = true
		if !sr.Returned {
			viol("stop_hung", "service did not stop")
			return
		}
		rec.Class("%s/servers-exercised=%d", m.name, exercised)
		if i%7 == 0 {
			rec.Sample(6, map[string]any{"mutation": m.name, "servers_exercised": exercised})
		}
	})
}

func netipMust(s string) netip.AddrPort { return netip.MustParseAddrPort(s) }

func netListenUDP() (*net.UDPConn, error) {
	return net.ListenUDP("udp", &net.UDPAddr{IP: net.IPv4(127, 0, 0, 1)})
}
