// Package c05 monitors "UDP packets survive pack/unpack unchanged and never
// exceed the path MTU", at the codec level and with the buffer layouts the
// relay service computes for every (server protocol x client protocol) pair.
package c05

import (
	"bytes"
	"context"
	"crypto/subtle"
	"errors"
	"fmt"
	"net/netip"
	"strings"

	"github.com/database64128/shadowsocks-go/conn"
	"github.com/database64128/shadowsocks-go/direct"
	"github.com/database64128/shadowsocks-go/socks5"
	"github.com/database64128/shadowsocks-go/ss2022"
	"github.com/database64128/shadowsocks-go/zerocopy"

	"verif/core"
	"verif/forge"
	"verif/ssx"
)

func init() {
	core.Register("C05", "codec", runCodec)
	core.Register("C05", "relay", runRelay)
}

var mtus = []int{1280, 1492, 1500, 9000, 65535}

// proto bundles the four codec roles of one protocol configuration.
type proto struct {
	name string
	// client side (what a relay uses towards its upstream, or what an end user runs)
	cPacker   zerocopy.ClientPacker
	cUnpacker zerocopy.ClientUnpacker
	cHeadroom zerocopy.Headroom // packer headroom the client advertises
	cMax      int               // client session MaxPacketSize (recv buffer on the NAT socket)
	// server side
	newServer func() (zerocopy.ServerUnpacker, func(pkt []byte) error) // unpacker + optional pre-processing (session info) of a datagram
	sHeadroom zerocopy.Headroom                                        // unpacker headroom the server advertises
	// hops rewrites a client->server datagram on its way through reference relay hops (nil = none)
	hops     func(pkt []byte) ([]byte, error)
	serverAP netip.AddrPort
	overhead func(target conn.Addr) int // documented per-packet overhead client->server for target
	direct   bool
	mtu      int
}

var serverV4 = netip.MustParseAddrPort("198.51.100.1:8388")
var serverV6 = netip.MustParseAddrPort("[2001:db8::1]:8388")

func pickServerAP(r *core.RNG) netip.AddrPort {
	switch r.Intn(3) {
	case 0:
		return serverV6
	case 1:
		return netip.AddrPortFrom(netip.AddrFrom16(serverV4.Addr().As16()), 8388) // IPv4-mapped
	}
	return serverV4
}

func padPolicy(r *core.RNG) (ss2022.PaddingPolicy, string) {
	switch r.Intn(3) {
	case 0:
		return ss2022.NoPadding, "nopad"
	case 1:
		return ss2022.PadAll, "padall"
	}
	return ss2022.PadPlainDNS, "paddns"
}

// mkSS2022 builds an SS2022 protocol with the given number of client identity headers.
func mkSS2022(r *core.RNG, mtu, keySize, nEIH int) *proto {
	users := 0
	if nEIH >= 1 {
		users = 2
	}
	cfg := ssx.NewCfg(keySize, users, fmt.Sprintf("c05/%d/%d", keySize, nEIH))
	pol, pname := padPolicy(r)
	cfg.Pad = pol
	var hopKeys [][]byte
	for h := 0; h < nEIH-1; h++ {
		hopKeys = append(hopKeys, forge.Key(keySize, fmt.Sprintf("c05/hop%d", h)))
	}
	ui := 0
	if users > 0 {
		ui = r.Intn(users)
	}
	cc := cfg.ClientCipher(ui, hopKeys...)
	ap := pickServerAP(r)
	cl := ss2022.NewUDPClient("c", "ip", conn.AddrFromIPPort(ap), mtu, conn.DefaultUDPClientListenConfig, 0, cc, pol)
	info, sess, err := cl.NewSession(context.Background())
	if err != nil {
		core.Fatalf("ss2022 NewSession: %v", err)
	}
	p := &proto{name: fmt.Sprintf("ss2022-%d-eih%d-%s", keySize*8, nEIH, pname), cPacker: sess.Packer, cUnpacker: sess.Unpacker, cHeadroom: info.PackerHeadroom,
		cMax: sess.MaxPacketSize, serverAP: ap, mtu: mtu}
	p.overhead = func(t conn.Addr) int {
		return 16 + 16*nEIH + ss2022.UDPClientMessageHeaderFixedLength + socks5.LengthOfAddrFromConnAddr(t) + 16
	}
	srv := cfg.UDPServer()
	p.sHeadroom = srv.Info().UnpackerHeadroom
	p.newServer = func() (zerocopy.ServerUnpacker, func([]byte) error) {
		var up zerocopy.ServerUnpacker
		return nil, func(pkt []byte) error {
			_ = up
			return nil
		}
	}
	// the session server needs SessionInfo + NewUnpacker per datagram stream: wrap
	p.newServer = func() (zerocopy.ServerUnpacker, func([]byte) error) {
		w := &ssSessionUnpacker{srv: srv}
		return w, w.pre
	}
	if len(hopKeys) > 0 {
		all := append(append([][]byte{}, hopKeys...), cfg.PSK)
		p.hops = func(pkt []byte) ([]byte, error) {
			out := pkt
			for i := 0; i < len(hopKeys); i++ {
				var err error
				out, err = udpHop(out, all[i], all[i+1])
				if err != nil {
					return nil, fmt.Errorf("hop %d: %w", i, err)
				}
			}
			return out, nil
		}
	}
	return p
}

// udpHop is the reference SIP022 UDP relay step: decrypt the separate header with the hop's iPSK, check that
// the first identity header names the next key, drop it and re-encrypt the separate header for the next hop.
func udpHop(pkt []byte, ipsk, next []byte) ([]byte, error) {
	if len(pkt) < 32 {
		return nil, errors.New("short packet")
	}
	ic, err := ss2022.NewServerIdentityCipherConfig(ipsk, true)
	if err != nil {
		return nil, err
	}
	nc, err := ss2022.NewServerIdentityCipherConfig(next, true)
	if err != nil {
		return nil, err
	}
	sep := make([]byte, 16)
	ic.UDP().Decrypt(sep, pkt[:16])
	ih := make([]byte, 16)
	ic.UDP().Decrypt(ih, pkt[16:32])
	subtle.XORBytes(ih, ih, sep)
	h := ss2022.PSKHash(next)
	if !bytes.Equal(ih, h[:]) {
		return nil, errors.New("identity header does not name the next hop's key")
	}
	out := make([]byte, 0, len(pkt)-16)
	enc := make([]byte, 16)
	nc.UDP().Encrypt(enc, sep)
	out = append(out, enc...)
	out = append(out, pkt[32:]...)
	return out, nil
}

// ssSessionUnpacker adapts the session server (SessionInfo / NewUnpacker / UnpackInPlace) to a plain unpacker.
type ssSessionUnpacker struct {
	srv  *ss2022.UDPServer
	up   zerocopy.ServerUnpacker
	csid uint64
}

func (w *ssSessionUnpacker) pre(pkt []byte) error {
	csid, err := w.srv.SessionInfo(pkt)
	if err != nil {
		return err
	}
	if w.up == nil || csid != w.csid {
		up, _, err := w.srv.NewUnpacker(pkt, csid)
		if err != nil {
			return err
		}
		w.up, w.csid = up, csid
	}
	return nil
}

func (w *ssSessionUnpacker) ServerUnpackerInfo() zerocopy.ServerUnpackerInfo {
	return zerocopy.ServerUnpackerInfo{Headroom: w.srv.Info().UnpackerHeadroom}
}

func (w *ssSessionUnpacker) UnpackInPlace(b []byte, src netip.AddrPort, ps, pl int) (conn.Addr, int, int, error) {
	return w.up.UnpackInPlace(b, src, ps, pl)
}

func (w *ssSessionUnpacker) NewPacker() (zerocopy.ServerPacker, error) { return w.up.NewPacker() }

func mkNone(r *core.RNG, mtu int) *proto {
	ap := pickServerAP(r)
	max := zerocopy.MaxPacketSizeForAddr(mtu, ap.Addr())
	p := &proto{name: "none", cPacker: direct.NewShadowsocksNonePacketClientPacker(ap, max), cUnpacker: direct.NewShadowsocksNonePacketClientUnpacker(ap),
		cHeadroom: direct.ShadowsocksNonePacketClientMessageHeadroom, cMax: max, serverAP: ap, mtu: mtu,
		sHeadroom: direct.ShadowsocksNoneUDPNATServer{}.Info().UnpackerHeadroom}
	p.overhead = func(t conn.Addr) int { return socks5.LengthOfAddrFromConnAddr(t) }
	p.newServer = func() (zerocopy.ServerUnpacker, func([]byte) error) {
		u, _ := direct.ShadowsocksNoneUDPNATServer{}.NewUnpacker()
		return u, nil
	}
	return p
}

func mkSocks5(r *core.RNG, mtu int) *proto {
	ap := pickServerAP(r)
	max := zerocopy.MaxPacketSizeForAddr(mtu, ap.Addr())
	p := &proto{name: "socks5", cPacker: direct.NewSocks5PacketClientPacker(ap, max), cUnpacker: direct.NewSocks5PacketClientUnpacker(ap),
		cHeadroom: direct.Socks5PacketClientMessageHeadroom, cMax: max, serverAP: ap, mtu: mtu,
		sHeadroom: direct.Socks5UDPNATServer{}.Info().UnpackerHeadroom}
	p.overhead = func(t conn.Addr) int { return 3 + socks5.LengthOfAddrFromConnAddr(t) }
	p.newServer = func() (zerocopy.ServerUnpacker, func([]byte) error) {
		u, _ := direct.Socks5UDPNATServer{}.NewUnpacker()
		return u, nil
	}
	return p
}

func mkDirect(r *core.RNG, mtu int) *proto {
	cl := direct.NewDirectUDPClient("d", "ip", mtu, conn.DefaultUDPClientListenConfig)
	_, sess, _ := cl.NewSession(context.Background())
	p := &proto{name: "direct", cPacker: sess.Packer, cUnpacker: sess.Unpacker, cMax: sess.MaxPacketSize, direct: true, mtu: mtu}
	p.overhead = func(conn.Addr) int { return 0 }
	return p
}

func pickProto(r *core.RNG, mtu int, k int) *proto {
	switch k {
	case 0, 1, 2, 3:
		return mkSS2022(r, mtu, r.Pick(16, 32), k)
	case 4:
		return mkNone(r, mtu)
	case 5:
		return mkSocks5(r, mtu)
	}
	return mkDirect(r, mtu)
}

func pickTarget(r *core.RNG, ipOnly bool) conn.Addr {
	port := uint16(r.Pick(0, 1, 53, 65535, r.Intn(65536)))
	k := r.Intn(4)
	if ipOnly && k == 3 {
		k = r.Intn(3)
	}
	switch k {
	case 0:
		return conn.AddrFromIPAndPort(netip.AddrFrom4([4]byte{203, 0, 113, byte(r.Intn(256))}), port)
	case 1:
		return conn.AddrFromIPAndPort(netip.AddrFrom16(netip.AddrFrom4([4]byte{203, 0, 113, 9}).As16()), port)
	case 2:
		a := [16]byte{0x20, 1, 0xd, 0xb8, 15: byte(r.Intn(256))}
		return conn.AddrFromIPAndPort(netip.AddrFrom16(a), port)
	}
	n := r.Pick(1, 2, 63, 64, 254, 255, r.Range(1, 255))
	return conn.MustAddrFromDomainPort(strings.Repeat("d", n), port)
}

func sameAddr(got, want conn.Addr) bool {
	if want.IsIP() {
		if !got.IsIP() {
			return false
		}
		g, w := got.IPPort(), want.IPPort()
		return g.Port() == w.Port() && g.Addr().Unmap() == w.Addr().Unmap()
	}
	return got.Equals(want)
}

const canary = 0xA5

func fillCanary(b []byte) {
	for i := range b {
		b[i] = canary ^ byte(i*7)
	}
}

func canaryIntact(b []byte, lo, hi int) int {
	for i := range b {
		if i >= lo && i < hi {
			continue
		}
		if b[i] != canary^byte(i*7) {
			return i
		}
	}
	return -1
}

type codecCase struct {
	Proto      string `json:"proto"`
	MTU        int    `json:"mtu"`
	Target     string `json:"target"`
	PayloadLen int    `json:"payload_len"`
	Front      int    `json:"payload_start"`
	Rear       int    `json:"rear"`
	Dir        string `json:"dir"`
}

// packClient packs with the client packer into a canary buffer and applies the packing oracle.
// It returns the datagram bytes (nil if refused).
func packClient(e *core.Env, sub string, ci int, p *proto, d *codecCase, target conn.Addr, payload []byte, front, rear int) (pkt []byte, dest netip.AddrPort, ok bool) {
	rec := e.Rec
	b := make([]byte, front+len(payload)+rear)
	fillCanary(b)
	copy(b[front:], payload)
	viol := func(kind, format string, a ...any) {
		rec.Violate(sub, ci, core.Sig("kind", kind, "part", sub, "proto", strings.SplitN(p.name, "-", 2)[0], "dir", d.Dir), d, format, a...)
	}
	dest, ps, pl, err := p.cPacker.PackInPlace(context.Background(), b, target, front, len(payload))
	var limit int
	if p.direct {
		limit = zerocopy.MaxPacketSizeForAddr(p.mtu, target.IPPort().Addr())
	} else {
		limit = zerocopy.MaxPacketSizeForAddr(p.mtu, p.serverAP.Addr())
	}
	need := p.overhead(target) + len(payload)
	if err != nil {
		if need <= limit && front >= p.cHeadroom.Front && rear >= p.cHeadroom.Rear {
			viol("fitting_payload_refused", "payload of %d bytes (+%d overhead <= limit %d) refused with generous headroom: %v", len(payload), p.overhead(target), limit, err)
		}
		return nil, dest, false
	}
	if ps < 0 || pl < 0 || ps+pl > len(b) {
		viol("packet_out_of_bounds", "packed packet [%d,%d) outside the %d-byte buffer", ps, ps+pl, len(b))
		return nil, dest, false
	}
	if pl > limit {
		viol("mtu_exceeded", "packed packet of %d bytes exceeds the limit %d derived from MTU %d", pl, limit, p.mtu)
		return nil, dest, false
	}
	if need > limit {
		viol("oversize_accepted", "payload %d + overhead %d > limit %d but no error", len(payload), p.overhead(target), limit)
		return nil, dest, false
	}
	if i := canaryIntact(b, ps, ps+pl); i >= 0 {
		viol("canary", "PackInPlace modified byte %d outside the packet [%d,%d)", i, ps, ps+pl)
		return nil, dest, false
	}
	return append([]byte{}, b[ps:ps+pl]...), dest, true
}

func runCodec(e *core.Env) {
	rec := e.Rec
	rec.Rule("codec: one case = (protocol incl. SS2022 with 0..3 identity headers and both key sizes / none / SOCKS5 / direct, MTU, server address family, padding policy, target address kind, payload length from the boundary window, payloadStart from exactly-needed to generous); client pack -> (reference relay hops) -> server unpack -> server pack -> client unpack on canary buffers; class = (protocol, mtu, address kind, payload boundary class, headroom class, outcome)")
	n := e.N(60000, 2500000)
	core.Parallel(e, "codec", n, 16, func(i int) {
		r := core.NewRNG(e.Seed, "c05.codec", i)
		mtu := mtus[r.Intn(len(mtus))]
		p := pickProto(r, mtu, r.Intn(7))
		target := pickTarget(r, false)
		if p.direct && !target.IsIP() {
			target = pickTarget(r, true)
		}
		var limit int
		if p.direct {
			limit = zerocopy.MaxPacketSizeForAddr(mtu, target.IPPort().Addr())
		} else {
			limit = zerocopy.MaxPacketSizeForAddr(mtu, p.serverAP.Addr())
		}
		maxPayload := limit - p.overhead(target)
		var plen int
		cls := ""
		switch r.Intn(4) {
		case 0:
			plen, cls = r.Range(0, 8), "tiny"
		case 1:
			plen, cls = maxPayload+r.Range(-8, 2), "edge"
		case 2:
			plen, cls = maxPayload+r.Range(-1, 1), "edge"
		default:
			plen, cls = r.Range(0, max(maxPayload, 1)), "mid"
		}
		if plen < 0 {
			plen = 0
		}
		need := p.overhead(target) - 16 // bytes in front of the payload
		if !strings.HasPrefix(p.name, "ss2022") {
			need = p.overhead(target)
		}
		if need < 0 {
			need = 0
		}
		front, fcls := need, "exact"
		switch r.Intn(4) {
		case 0:
		case 1:
			front, fcls = need+r.Range(1, 16), "tight"
		case 2:
			front, fcls = max(need, p.cHeadroom.Front), "advertised"
		default:
			front, fcls = max(need, p.cHeadroom.Front)+r.Range(1, 2000), "generous"
		}
		rear := max(16, p.cHeadroom.Rear) + r.Pick(0, 0, 1, 64)
		d := &codecCase{Proto: p.name, MTU: mtu, Target: target.String(), PayloadLen: plen, Front: front, Rear: rear, Dir: "c2s"}
		rec.Begin("codec", i, fmt.Sprintf("%+v", d))
		rec.Eval()
		payload := core.Pattern(uint64(i), 0, plen)
		viol := func(kind, format string, a ...any) {
			rec.Violate("codec", i, core.Sig("kind", kind, "part", "codec", "proto", strings.SplitN(p.name, "-", 2)[0], "dir", d.Dir), d, format, a...)
		}
		pkt, dest, ok := packClient(e, "codec", i, p, d, target, payload, front, rear)
		outcome := "refused"
		if ok {
			outcome = "roundtrip"
			if p.direct {
				want := netip.AddrPortFrom(target.IPPort().Addr(), target.Port())
				if dest != want || !bytes.Equal(pkt, payload) {
					viol("roundtrip_mismatch", "direct packer changed destination/payload (%s)", dest)
				}
			} else {
				if dest != p.serverAP {
					viol("wrong_destination", "packer names destination %s, server is %s", dest, p.serverAP)
				}
				if p.hops != nil {
					var err error
					pkt, err = p.hops(pkt)
					if err != nil {
						viol("relay_hop_rejected", "reference relay hop rejected the client's packet: %v", err)
						return
					}
				}
				// ---- server unpack on a canary buffer laid out with the advertised unpacker headroom ----
				up, pre := p.newServer()
				sf := r.Pick(0, 1, 300)
				sb := make([]byte, sf+len(pkt)+r.Pick(0, 16))
				fillCanary(sb)
				copy(sb[sf:], pkt)
				if pre != nil {
					if err := pre(sb[sf : sf+len(pkt)]); err != nil {
						viol("genuine_packet_rejected", "server rejected a genuine packet: %v", err)
						return
					}
				}
				// the canary inside the packet region is now the packet itself
				ta, ps, pl, err := up.UnpackInPlace(sb, netip.MustParseAddrPort("192.0.2.1:5000"), sf, len(pkt))
				if err != nil {
					viol("genuine_packet_rejected", "server failed to unpack a genuine packet: %v", err)
					return
				}
				if ps < sf || ps+pl > sf+len(pkt) {
					viol("packet_out_of_bounds", "unpacked payload [%d,%d) outside the packet [%d,%d)", ps, ps+pl, sf, sf+len(pkt))
					return
				}
				if !sameAddr(ta, target) || !bytes.Equal(sb[ps:ps+pl], payload) {
					viol("roundtrip_mismatch", "server unpacked target %s / %d payload bytes; packed %s / %d", ta, pl, target, plen)
					return
				}
				if x := canaryIntact(sb, sf, sf+len(pkt)); x >= 0 {
					viol("canary", "UnpackInPlace modified byte %d outside the packet", x)
					return
				}
				// ---- reply: server pack -> client unpack ----
				d.Dir = "s2c"
				sp, err := up.NewPacker()
				if err != nil {
					viol("genuine_packet_rejected", "NewPacker: %v", err)
					return
				}
				src := pickTarget(r, true).IPPort()
				shr := sp.ServerPackerInfo().Headroom
				rplen := r.Pick(0, 1, plen, r.Range(0, max(1, limit)))
				clientLimit := zerocopy.MaxPacketSizeForAddr(mtu, netip.MustParseAddr(r.PickStr("192.0.2.1", "2001:db8::2")))
				if r.Chance(1, 3) {
					// replies that fill the client's budget exactly (no room left for padding), one less, one more
					ohdR := socks5.LengthOfAddrFromAddrPort(src)
					switch {
					case strings.HasPrefix(p.name, "ss2022"):
						ohdR += 16 + ss2022.UDPServerMessageHeaderFixedLength + 16
					case p.name == "socks5":
						ohdR += 3
					}
					rplen = max(0, clientLimit-ohdR+r.Pick(-1, 0, 0, 1))
				}
				rfront := shr.Front + r.Pick(0, 0, 5)
				rb := make([]byte, rfront+rplen+max(shr.Rear, 16))
				fillCanary(rb)
				reply := core.Pattern(uint64(i)+1, 0, rplen)
				copy(rb[rfront:], reply)
				rps, rpl, err := sp.PackInPlace(rb, src, rfront, rplen, clientLimit)
				if err == nil {
					if rps < 0 || rps+rpl > len(rb) {
						viol("packet_out_of_bounds", "server packed [%d,%d) outside buffer %d", rps, rps+rpl, len(rb))
						return
					}
					if rpl > clientLimit {
						viol("mtu_exceeded", "server packed %d bytes, limit %d", rpl, clientLimit)
						return
					}
					if x := canaryIntact(rb, rps, rps+rpl); x >= 0 {
						viol("canary", "server PackInPlace modified byte %d outside the packet", x)
						return
					}
					cb := make([]byte, 8+rpl+8)
					fillCanary(cb)
					copy(cb[8:], rb[rps:rps+rpl])
					gs, gps, gpl, err := p.cUnpacker.UnpackInPlace(cb, p.serverAP, 8, rpl)
					if err != nil {
						viol("genuine_packet_rejected", "client failed to unpack a genuine reply: %v", err)
						return
					}
					wantSrc := netip.AddrPortFrom(src.Addr().Unmap(), src.Port())
					if netip.AddrPortFrom(gs.Addr().Unmap(), gs.Port()) != wantSrc || !bytes.Equal(cb[gps:gps+gpl], reply) {
						viol("roundtrip_mismatch", "client unpacked source %s / %d bytes; packed %s / %d", gs, gpl, src, rplen)
						return
					}
					if x := canaryIntact(cb, 8, 8+rpl); x >= 0 {
						viol("canary", "client UnpackInPlace modified byte %d outside the packet", x)
						return
					}
					outcome += "+reply"
				} else {
					// refusal is fine only if it really cannot fit without padding
					ohd := socks5.LengthOfAddrFromAddrPort(src)
					switch {
					case strings.HasPrefix(p.name, "ss2022"):
						ohd += 16 + ss2022.UDPServerMessageHeaderFixedLength + 16
					case p.name == "socks5":
						ohd += 3
					}
					if rplen+ohd <= clientLimit && rfront >= shr.Front {
						viol("fitting_payload_refused", "server packer refused %d bytes (+%d <= %d): %v", rplen, ohd, clientLimit, err)
						return
					}
					outcome += "+reply-refused"
				}
			}
		}
		rec.Class("%s/mtu=%d/addr=%s/pay=%s/front=%s/%s", p.name, mtu, addrKind(target), cls, fcls, outcome)
		if i%5000 == 0 {
			rec.Sample(8, d)
		}
	})
}

func addrKind(a conn.Addr) string {
	if a.IsIP() {
		ip := a.IPPort().Addr()
		switch {
		case ip.Is4():
			return "v4"
		case ip.Is4In6():
			return "v4mapped"
		}
		return "v6"
	}
	return fmt.Sprintf("domain%d", len(a.Domain())/64)
}

// ---- relay level: unpack with server protocol S, re-pack in place with client protocol C using the service's layout ----

func runRelay(e *core.Env) {
	rec := e.Rec
	rec.Rule("relay: one case = (server protocol S, client protocol C, MTU, target, payload length); the datagram is packed by an S client, placed at the offset the relay service computes (UDPRelayHeadroom(max client packer headroom, S unpacker headroom), receive size MaxPacketSizeForAddr(mtu, IPv4)), unpacked with S's server unpacker, re-packed IN PLACE with C's client packer, then verified by C's server side; the reply travels back through C's client unpacker and S's server packer with the downlink layout; class = (S, C, mtu, payload class, uplink outcome, downlink outcome)")
	n := e.N(30000, 1200000)
	core.Parallel(e, "relay", n, 16, func(i int) {
		r := core.NewRNG(e.Seed, "c05.relay", i)
		mtu := mtus[r.Intn(len(mtus))]
		sk, ck := r.Pick(0, 1, 4, 5), r.Intn(7)
		S := pickProto(r, mtu, sk) // the protocol the relay serves (its downstream clients speak it)
		// the upstream client has its own MTU setting; the relay's receive size follows the server's
		mtuC := mtu
		if r.Bool() {
			mtuC = mtus[r.Intn(len(mtus))]
		}
		C := pickProto(r, mtuC, ck) // the protocol the relay uses upstream
		target := pickTarget(r, false)
		if C.direct && !target.IsIP() {
			target = pickTarget(r, true)
		}
		// the service uses the maximum packer headroom over all configured clients
		maxC := C.cHeadroom
		if r.Bool() {
			maxC = zerocopy.MaxHeadroom(maxC, ss2022.ShadowPacketClientMessageHeadroom(16*r.Intn(4)))
		}
		H := zerocopy.UDPRelayHeadroom(maxC, S.sHeadroom)
		recvSize := zerocopy.MaxPacketSizeForAddr(mtu, netip.IPv4Unspecified())
		// downstream client packs towards the relay (its "server" is the relay's listener)
		dsLimit := zerocopy.MaxPacketSizeForAddr(mtu, S.serverAP.Addr())
		maxPayload := dsLimit - S.overhead(target)
		var plen int
		cls := ""
		switch r.Intn(3) {
		case 0:
			plen, cls = r.Range(0, 8), "tiny"
		case 1:
			plen, cls = maxPayload-r.Range(0, 400), "edge"
		default:
			plen, cls = r.Range(0, max(1, maxPayload)), "mid"
		}
		if plen < 0 {
			plen = 0
		}
		d := &codecCase{Proto: fmt.Sprintf("%s -> %s (client mtu %d)", S.name, C.name, mtuC), MTU: mtu, Target: target.String(), PayloadLen: plen, Front: H.Front, Rear: H.Rear, Dir: "uplink"}
		rec.Begin("relay", i, fmt.Sprintf("%+v", d))
		rec.Eval()
		viol := func(kind, format string, a ...any) {
			rec.Violate("relay", i, core.Sig("kind", kind, "part", "relay", "S", strings.SplitN(S.name, "-", 2)[0], "C", strings.SplitN(C.name, "-", 2)[0], "dir", d.Dir), d, format, a...)
		}
		payload := core.Pattern(uint64(i)*3, 0, plen)
		pkt, _, ok := packClient(e, "relay", i, S, d, target, payload, S.cHeadroom.Front+300, max(16, S.cHeadroom.Rear))
		if !ok {
			rec.Class("%s>%s/mtu=%d/pay=%s/downstream-refused", S.name, C.name, mtu, cls)
			return
		}
		if S.hops != nil {
			var err error
			if pkt, err = S.hops(pkt); err != nil {
				viol("relay_hop_rejected", "%v", err)
				return
			}
		}
		if len(pkt) > recvSize {
			// would be truncated by the socket read and dropped: not a codec case
			rec.Class("%s>%s/mtu=%d/pay=%s/exceeds-recv-size", S.name, C.name, mtu, cls)
			return
		}
		// ---- uplink: the service's buffer ----
		buf := make([]byte, H.Front+recvSize+H.Rear)
		fillCanary(buf)
		copy(buf[H.Front:], pkt)
		up, pre := S.newServer()
		if pre != nil {
			if err := pre(buf[H.Front : H.Front+len(pkt)]); err != nil {
				viol("genuine_packet_rejected", "session info: %v", err)
				return
			}
		}
		ta, ps, pl, err := up.UnpackInPlace(buf, netip.MustParseAddrPort("192.0.2.1:5000"), H.Front, len(pkt))
		if err != nil {
			viol("genuine_packet_rejected", "relay failed to unpack a genuine packet: %v", err)
			return
		}
		if !sameAddr(ta, target) || !bytes.Equal(buf[ps:ps+pl], payload) {
			viol("roundtrip_mismatch", "relay unpacked %s / %d bytes, sent %s / %d", ta, pl, target, plen)
			return
		}
		before := append([]byte{}, buf...)
		dest, cps, cpl, err := C.cPacker.PackInPlace(context.Background(), buf, ta, ps, pl)
		upOutcome := "repacked"
		var climit int
		if C.direct {
			climit = zerocopy.MaxPacketSizeForAddr(mtuC, ta.IPPort().Addr())
		} else {
			climit = zerocopy.MaxPacketSizeForAddr(mtuC, C.serverAP.Addr())
		}
		if err != nil {
			upOutcome = "refused"
			if C.overhead(ta)+pl <= climit {
				viol("fitting_payload_refused", "upstream packer refused %d bytes (+%d overhead <= %d) in the relay layout (payloadStart %d): %v", pl, C.overhead(ta), climit, ps, err)
				return
			}
		} else {
			if cps < 0 || cps+cpl > len(buf) {
				viol("packet_out_of_bounds", "re-packed packet [%d,%d) outside the relay buffer of %d bytes", cps, cps+cpl, len(buf))
				return
			}
			if cpl > climit {
				viol("mtu_exceeded", "re-packed packet of %d bytes exceeds %d (MTU %d)", cpl, climit, mtuC)
				return
			}
			for x := range buf {
				if (x < cps || x >= cps+cpl) && buf[x] != before[x] {
					viol("canary", "re-packing modified byte %d outside the new packet [%d,%d)", x, cps, cps+cpl)
					return
				}
			}
			out := append([]byte{}, buf[cps:cps+cpl]...)
			if C.direct {
				if !bytes.Equal(out, payload) || dest.Port() != target.Port() {
					viol("roundtrip_mismatch", "direct re-pack changed the payload or port")
					return
				}
			} else {
				if C.hops != nil {
					if out, err = C.hops(out); err != nil {
						viol("relay_hop_rejected", "%v", err)
						return
					}
				}
				cup, cpre := C.newServer()
				ob := make([]byte, 4+len(out)+4)
				copy(ob[4:], out)
				if cpre != nil {
					if err := cpre(ob[4 : 4+len(out)]); err != nil {
						viol("genuine_packet_rejected", "upstream server session info: %v", err)
						return
					}
				}
				ta2, ps2, pl2, err := cup.UnpackInPlace(ob, netip.MustParseAddrPort("192.0.2.2:6000"), 4, len(out))
				if err != nil {
					viol("genuine_packet_rejected", "upstream server failed to unpack the re-packed packet: %v", err)
					return
				}
				if !sameAddr(ta2, target) || !bytes.Equal(ob[ps2:ps2+pl2], payload) {
					viol("roundtrip_mismatch", "upstream server got %s / %d bytes, client sent %s / %d", ta2, pl2, target, plen)
					return
				}
			}
		}
		// ---- downlink ----
		d.Dir = "downlink"
		downOutcome := "none"
		sp, err := up.NewPacker()
		if err != nil {
			viol("genuine_packet_rejected", "NewPacker: %v", err)
			return
		}
		dh := zerocopy.UDPRelayHeadroom(sp.ServerPackerInfo().Headroom, C.cUnpacker.ClientUnpackerInfo().Headroom)
		dbuf := make([]byte, dh.Front+C.cMax+dh.Rear)
		fillCanary(dbuf)
		src := pickTarget(r, true).IPPort()
		rlen := r.Pick(0, 1, plen, r.Range(0, max(1, C.cMax)))
		reply := core.Pattern(uint64(i)*3+1, 0, rlen)
		var upstreamPkt []byte
		var fromAP netip.AddrPort
		if C.direct {
			upstreamPkt, fromAP = reply, src
		} else {
			cup, cpre := C.newServer()
			_ = cpre
			// the upstream server needs the session the client created: reuse by feeding the uplink packet again is not
			// possible (replay); build the reply with a fresh server-side packer bound to the same client session
			csp, err := replyPacker(C, cup, buf, cps, cpl, err == nil && upOutcome == "repacked")
			if err != nil || csp == nil {
				rec.Class("%s>%s/mtu=%d/pay=%s/%s/down=skipped", S.name, C.name, mtu, cls, upOutcome)
				return
			}
			chr := csp.ServerPackerInfo().Headroom
			rb := make([]byte, chr.Front+rlen+max(16, chr.Rear))
			copy(rb[chr.Front:], reply)
			rps, rpl, err := csp.PackInPlace(rb, src, chr.Front, rlen, C.cMax)
			if err != nil {
				rec.Class("%s>%s/mtu=%d/pay=%s/%s/down=upstream-refused", S.name, C.name, mtu, cls, upOutcome)
				return
			}
			upstreamPkt, fromAP = rb[rps:rps+rpl], C.serverAP
		}
		if len(upstreamPkt) <= C.cMax {
			copy(dbuf[dh.Front:], upstreamPkt)
			ps3src, ps3, pl3, err := C.cUnpacker.UnpackInPlace(dbuf, fromAP, dh.Front, len(upstreamPkt))
			if err != nil {
				viol("genuine_packet_rejected", "relay failed to unpack a genuine upstream reply: %v", err)
				return
			}
			if !bytes.Equal(dbuf[ps3:ps3+pl3], reply) {
				viol("roundtrip_mismatch", "relay unpacked %d reply bytes, upstream sent %d", pl3, rlen)
				return
			}
			clientAP := netip.MustParseAddrPort(r.PickStr("192.0.2.1:5000", "[2001:db8::5]:5000"))
			maxClient := zerocopy.MaxPacketSizeForAddr(mtu, clientAP.Addr())
			before := append([]byte{}, dbuf...)
			sps, spl, err := sp.PackInPlace(dbuf, ps3src, ps3, pl3, maxClient)
			if err != nil {
				downOutcome = "refused"
				ohd := 0
				switch {
				case strings.HasPrefix(S.name, "ss2022"):
					ohd = 16 + ss2022.UDPServerMessageHeaderFixedLength + socks5.LengthOfAddrFromAddrPort(ps3src) + 16
				case S.name == "socks5":
					ohd = 3 + socks5.LengthOfAddrFromAddrPort(ps3src)
				case S.name == "none":
					ohd = socks5.LengthOfAddrFromAddrPort(ps3src)
				}
				if pl3+ohd <= maxClient {
					viol("fitting_payload_refused", "downlink packer refused %d bytes (+%d <= %d) in the relay layout (payloadStart %d, front headroom %d): %v", pl3, ohd, maxClient, ps3, dh.Front, err)
					return
				}
			} else {
				downOutcome = "repacked"
				if sps < 0 || sps+spl > len(dbuf) {
					viol("packet_out_of_bounds", "downlink packet [%d,%d) outside the %d-byte buffer", sps, sps+spl, len(dbuf))
					return
				}
				if spl > maxClient {
					viol("mtu_exceeded", "downlink packet of %d bytes exceeds %d", spl, maxClient)
					return
				}
				for x := range dbuf {
					if (x < sps || x >= sps+spl) && dbuf[x] != before[x] {
						viol("canary", "downlink re-packing modified byte %d outside the new packet", x)
						return
					}
				}
				fb := make([]byte, 2+spl+2)
				copy(fb[2:], dbuf[sps:sps+spl])
				gs, gps, gpl, err := S.cUnpacker.UnpackInPlace(fb, S.serverAP, 2, spl)
				if err != nil {
					viol("genuine_packet_rejected", "downstream client failed to unpack the relayed reply: %v", err)
					return
				}
				if !bytes.Equal(fb[gps:gps+gpl], reply) || gs.Addr().Unmap() != ps3src.Addr().Unmap() || gs.Port() != ps3src.Port() {
					viol("roundtrip_mismatch", "downstream client got %d bytes from %s, upstream sent %d from %s", gpl, gs, rlen, ps3src)
					return
				}
			}
		}
		rec.Class("%s>%s/mtu=%d/cmtu=%s/pay=%s/%s/down=%s", S.name, C.name, mtu, map[bool]string{true: "same", false: "other"}[mtu == mtuC], cls, upOutcome, downOutcome)
		if i%4000 == 0 {
			rec.Sample(8, d)
		}
	})
}

// replyPacker obtains a server packer of protocol C bound to the client session that produced the re-packed packet.
func replyPacker(C *proto, cup zerocopy.ServerUnpacker, buf []byte, ps, pl int, have bool) (zerocopy.ServerPacker, error) {
	if !strings.HasPrefix(C.name, "ss2022") {
		return cup.NewPacker()
	}
	if !have {
		return nil, nil
	}
	// a fresh server object has an empty replay filter, so the same datagram authenticates again
	pkt := append([]byte{}, buf[ps:ps+pl]...)
	if C.hops != nil {
		var err error
		if pkt, err = C.hops(pkt); err != nil {
			return nil, err
		}
	}
	w := cup.(*ssSessionUnpacker)
	ob := make([]byte, len(pkt))
	copy(ob, pkt)
	if err := w.pre(ob); err != nil {
		return nil, err
	}
	if _, _, _, err := w.UnpackInPlace(ob, netip.MustParseAddrPort("192.0.2.2:6000"), 0, len(ob)); err != nil {
		return nil, err
	}
	return w.NewPacker()
}
