package rtx

import (
	"context"
	"net/netip"
	"sync/atomic"

	"github.com/database64128/shadowsocks-go/dns"
)

// C09Kind is what a scripted resolver does for one name.
type C09Kind uint8

const (
	C09Answer       C09Kind = iota // returns Addrs
	C09NoAddress                   // dns.ErrDomainNoAssociatedIPs
	C09LookupFailed                // dns.ErrLookup ("this resolver could not look the name up")
	C09OtherFailure                // *C09OtherError naming the resolver
)

func (k C09Kind) String() string {
	return [...]string{"answer", "no-address", "ErrLookup", "other-error"}[k]
}

// C09Reply is the scripted reaction of a resolver to a name.
type C09Reply struct {
	Kind  C09Kind
	Addrs []netip.Addr
}

// C09OtherError is the "some other failure" error. It carries the resolver's
// identity so that the observer can tell which resolver was consulted.
type C09OtherError struct{ Resolver string }

func (e *C09OtherError) Error() string { return "resolver " + e.Resolver + " exploded" }

// C09Resolver is a dns.SimpleResolver whose behaviour is a pure function of
// the name: an explicit Table entry, else Fallback(name). Peek returns the
// scripted reaction without counting a call, so that a reference model can ask
// "what would this resolver say" without touching the real side's counters.
type C09Resolver struct {
	ID       string
	Table    map[string]C09Reply
	Fallback func(name string) C09Reply
	Calls    atomic.Int64
}

// Peek returns the scripted reaction to name.
func (r *C09Resolver) Peek(name string) C09Reply {
	if rep, ok := r.Table[name]; ok {
		return rep
	}
	if r.Fallback != nil {
		return r.Fallback(name)
	}
	return C09Reply{Kind: C09LookupFailed}
}

func (r *C09Resolver) LookupIPs(ctx context.Context, name string) ([]netip.Addr, error) {
	r.Calls.Add(1)
	rep := r.Peek(name)
	switch rep.Kind {
	case C09Answer:
		return rep.Addrs, nil
	case C09NoAddress:
		// the real dns.Resolver reports a name without addresses as an empty list from LookupIPs and as
		// dns.ErrDomainNoAssociatedIPs from LookupIP only
		return nil, nil
	case C09LookupFailed:
		return nil, dns.ErrLookup
	default:
		return nil, &C09OtherError{Resolver: r.ID}
	}
}

// LookupIP returns "one of the associated IP addresses": the first.
func (r *C09Resolver) LookupIP(ctx context.Context, name string) (netip.Addr, error) {
	ips, err := r.LookupIPs(ctx, name)
	if err != nil {
		return netip.Addr{}, err
	}
	if len(ips) == 0 {
		return netip.Addr{}, dns.ErrDomainNoAssociatedIPs
	}
	return ips[0], nil
}
