// Package rtx provides router fixtures: identity-tagged fake clients, scripted
// resolvers and ready-made routers whose rules use every criterion
// representation (single port / range list / bit set, domain rules, prefixes,
// resolver-backed IP rules).
package rtx

import (
	"context"
	"errors"
	"fmt"
	"io"
	"net/netip"
	"os"
	"path/filepath"
	"strings"
	"sync/atomic"
	"verif/netsim"

	"github.com/database64128/shadowsocks-go/conn"
	"github.com/database64128/shadowsocks-go/dns"
	"github.com/database64128/shadowsocks-go/domainset"
	"github.com/database64128/shadowsocks-go/netio"
	"github.com/database64128/shadowsocks-go/prefixset"
	"github.com/database64128/shadowsocks-go/router"
	"github.com/database64128/shadowsocks-go/zerocopy"
	"go.uber.org/zap"
)

// TCPClient is an identity-tagged fake stream client.
type TCPClient struct{ ID string }

func (c *TCPClient) NewStreamDialer() (netio.StreamDialer, netio.StreamDialerInfo) {
	return c, netio.StreamDialerInfo{Name: c.ID}
}

func (c *TCPClient) DialStream(ctx context.Context, addr conn.Addr, payload []byte) (netio.Conn, error) {
	return nil, errors.New("fake client " + c.ID)
}

// UDPClient is an identity-tagged fake UDP client.
type UDPClient struct{ ID string }

func (c *UDPClient) Info() zerocopy.UDPClientInfo { return zerocopy.UDPClientInfo{Name: c.ID} }
func (c *UDPClient) NewSession(ctx context.Context) (zerocopy.UDPClientSessionInfo, zerocopy.UDPClientSession, error) {
	return zerocopy.UDPClientSessionInfo{Name: c.ID}, zerocopy.UDPClientSession{}, errors.New("fake client " + c.ID)
}

// Resolver is a scripted dns.SimpleResolver.
type Resolver struct {
	ID      string
	Answers map[string][]netip.Addr // name -> addresses (empty slice => no addresses: LookupIPs gives an empty list, LookupIP ErrDomainNoAssociatedIPs, as the real resolver does)
	Errs    map[string]error        // name -> error
	Default error                   // for unknown names (nil => ErrLookup)
	Calls   int
}

func (r *Resolver) LookupIPs(ctx context.Context, name string) ([]netip.Addr, error) {
	r.Calls++
	if err, ok := r.Errs[name]; ok {
		return nil, err
	}
	if a, ok := r.Answers[name]; ok {
		// like the real dns.Resolver: a name without addresses is an empty list here and an error only in LookupIP
		return a, nil
	}
	if r.Default != nil {
		return nil, r.Default
	}
	return nil, dns.ErrLookup
}

func (r *Resolver) LookupIP(ctx context.Context, name string) (netip.Addr, error) {
	ips, err := r.LookupIPs(ctx, name)
	if err != nil {
		return netip.Addr{}, err
	}
	if len(ips) == 0 {
		return netip.Addr{}, dns.ErrDomainNoAssociatedIPs
	}
	return ips[0], nil
}

// PortRangesForcing returns a range string that forces the given representation:
// "single" (one port), "ranges" (<=16 ranges), "bitset" (>16 ranges).
func PortRangesForcing(repr string, base int) string {
	switch repr {
	case "single":
		return fmt.Sprint(base)
	case "ranges":
		return fmt.Sprintf("%d-%d,%d,%d-%d", base, base+10, base+20, base+30, base+35)
	default:
		var parts []string
		for i := 0; i < 20; i++ {
			parts = append(parts, fmt.Sprintf("%d-%d", base+i*4, base+i*4+1))
		}
		return strings.Join(parts, ",")
	}
}

// HostileRouters builds routers that put a request through every criterion kind and representation.
// dir is a scratch directory for the set files.
func HostileRouters(dir string) ([]*router.Router, error) {
	os.MkdirAll(dir, 0o755)
	dsPath := filepath.Join(dir, "ds.txt")
	var ds strings.Builder
	ds.WriteString("# c06\ndomain:exact.example\nsuffix:example.org\nkeyword:track\nregexp:^ad[0-9]+\\.\n")
	for i := 0; i < 40; i++ {
		fmt.Fprintf(&ds, "domain:d%d.example\nsuffix:s%d.example\n", i, i)
	}
	if err := os.WriteFile(dsPath, []byte(ds.String()), 0o644); err != nil {
		return nil, err
	}
	psPath := filepath.Join(dir, "ps.txt")
	if err := os.WriteFile(psPath, []byte("10.0.0.0/8\n192.168.0.0/16\n2001:db8::/32\n::ffff:0:0/96\n0.0.0.0/0\n"), 0o644); err != nil {
		return nil, err
	}
	tcp := map[string]netio.StreamClient{"a": &TCPClient{"a"}, "b": &TCPClient{"b"}}
	udp := map[string]zerocopy.UDPClient{"a": &UDPClient{"a"}, "b": &UDPClient{"b"}}
	res := &Resolver{ID: "r", Answers: map[string][]netip.Addr{"exact.example": {netip.MustParseAddr("10.1.2.3")}, "empty.example": {}},
		Errs: map[string]error{"boom.example": errors.New("resolver exploded")}}
	resolvers := []dns.SimpleResolver{res}
	rmap := map[string]dns.SimpleResolver{"r": res}
	servers := map[string]int{"s0": 0, "s1": 1}
	var out []*router.Router
	for _, repr := range []string{"single", "ranges", "bitset"} {
		for _, inv := range []bool{false, true} {
			cfg := router.Config{
				DefaultTCPClientName: "a", DefaultUDPClientName: "a",
				DomainSets: []domainset.Config{{Name: "ds", Path: dsPath}},
				PrefixSets: []prefixset.Config{{Name: "ps", Path: psPath}},
				Routes: []router.RouteConfig{
					{Name: "toports", Client: "b", ToPortRanges: PortRangesForcing(repr, 1000), InvertToPorts: inv},
					{Name: "fromports", Client: "b", FromPortRanges: PortRangesForcing(repr, 40000), InvertFromPorts: inv, ToDomains: []string{"nevermatches.invalid"}},
					{Name: "domains", Client: "b", ToDomainSets: []string{"ds"}, ToDomains: []string{"one.example", "two.example"}, InvertToDomains: inv, ToPorts: []uint16{65535}},
					{Name: "expected", Client: "reject", ToDomains: []string{"exact.example", "boom.example", "empty.example", "unknown.example"}, ToMatchedDomainExpectedPrefixes: []netip.Prefix{netip.MustParsePrefix("10.0.0.0/8")}, ToPorts: []uint16{1}},
					{Name: "prefixes", Client: "b", ToPrefixSets: []string{"ps"}, ToPrefixes: []netip.Prefix{netip.MustParsePrefix("203.0.113.0/24")}, InvertToPrefixes: inv, FromPrefixes: []netip.Prefix{netip.MustParsePrefix("127.0.0.0/8"), netip.MustParsePrefix("::/0")}, FromUsers: []string{"nobody"}},
					{Name: "users", Client: "b", FromUsers: []string{"u1"}, FromServers: []string{"s1"}, Network: "udp", DisableNameResolutionForIPRules: inv, ToPrefixes: []netip.Prefix{netip.MustParsePrefix("198.51.100.0/24")}},
				},
			}
			r, err := cfg.Router(zap.NewNop(), resolvers, rmap, tcp, udp, servers)
			if err != nil {
				return nil, err
			}
			out = append(out, r)
		}
	}
	// a seventh router consults the repository's own resolver (plain type, TCP transport) for every domain target;
	// its upstream is an in-memory peer that answers each query in one of several hostile ways
	rr, err := (&dns.ResolverConfig{Name: "real", Type: "plain", AddrPort: netip.MustParseAddrPort("192.0.2.53:53"), TCPClientName: "mem", CacheSize: 64}).
		NewSimpleResolver(map[string]netio.StreamClient{"mem": &memDNSClient{}}, nil, zap.NewNop())
	if err != nil {
		return nil, err
	}
	cfg := router.Config{
		DefaultTCPClientName: "a", DefaultUDPClientName: "a",
		Routes: []router.RouteConfig{{Name: "realres", Client: "b", ToPrefixes: []netip.Prefix{netip.MustParsePrefix("203.0.113.0/24")}}},
	}
	r7, err := cfg.Router(zap.NewNop(), []dns.SimpleResolver{rr}, map[string]dns.SimpleResolver{"real": rr}, tcp, udp, servers)
	if err != nil {
		return nil, err
	}
	out = append(out, r7)
	return out, nil
}

// memDNSClient is the stream client of the real resolver in HostileRouters: every dial gets an in-memory connection
// to a peer that reads the length-prefixed queries and answers the k-th one according to k: the query echoed back as
// an empty NOERROR response, a SERVFAIL, an answer section that promises records and stops, random bytes, a zero
// length prefix, or an immediate close.
type memDNSClient struct{ n atomic.Uint64 }

func (c *memDNSClient) NewStreamDialer() (netio.StreamDialer, netio.StreamDialerInfo) {
	return c, netio.StreamDialerInfo{Name: "mem"}
}

func (c *memDNSClient) DialStream(ctx context.Context, addr conn.Addr, payload []byte) (netio.Conn, error) {
	a, b := netsim.Pair(nil, nil, false)
	if len(payload) > 0 {
		a.Write(payload)
	}
	go func() {
		defer b.Close()
		for {
			var lp [2]byte
			if _, err := io.ReadFull(b, lp[:]); err != nil {
				return
			}
			q := make([]byte, int(lp[0])<<8|int(lp[1]))
			if _, err := io.ReadFull(b, q); err != nil || len(q) < 12 {
				return
			}
			k := c.n.Add(1)
			resp := append([]byte{}, q...)
			resp[2] |= 0x80 // QR
			resp[3] |= 0x80 // RA
			switch k % 7 {
			case 0: // empty NOERROR
			case 1:
				resp[3] |= 2 // SERVFAIL
			case 2:
				resp[7] = 3 // ANCOUNT=3, nothing follows
			case 3:
				resp = resp[:12+(len(resp)-12)/2] // cut inside the question
			case 4:
				for i := 2; i < len(resp); i++ {
					resp[i] = byte(k*31 + uint64(i)*7)
				}
			case 5:
				b.Write([]byte{0, 0})
				continue
			default:
				return
			}
			b.Write([]byte{byte(len(resp) >> 8), byte(len(resp))})
			b.Write(resp)
		}
	}()
	return a, nil
}
