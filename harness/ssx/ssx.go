// Package ssx builds matching Shadowsocks 2022 client/server objects of the
// repository for the monitors (single-user and identity-header multi-user).
package ssx

import (
	"fmt"

	"github.com/database64128/shadowsocks-go/conn"
	"github.com/database64128/shadowsocks-go/ss2022"

	"verif/forge"
)

// User is one uPSK holder.
type User struct {
	Name string
	PSK  []byte
}

// Cfg describes one server-side configuration.
type Cfg struct {
	KeySize int    // 16 | 32
	PSK     []byte // single-user key, or the server iPSK in multi-user mode
	Users   []User // non-empty => multi-user (identity header) mode
	UDP     bool
	// stream options
	AllowSegmented bool
	ReqPrefix      []byte
	RespPrefix     []byte
	Fallback       conn.Addr
	FilterSize     uint64
	Pad            ss2022.PaddingPolicy
}

// NewCfg makes a deterministic configuration: nUsers == 0 gives single-user mode.
func NewCfg(keySize, nUsers int, tag string) *Cfg {
	c := &Cfg{KeySize: keySize, PSK: forge.Key(keySize, tag+"/psk"), UDP: true, Pad: ss2022.NoPadding}
	for i := 0; i < nUsers; i++ {
		c.Users = append(c.Users, User{Name: fmt.Sprintf("user%d", i), PSK: forge.Key(keySize, fmt.Sprintf("%s/u%d", tag, i))})
	}
	return c
}

// ULM builds the user lookup map.
func (c *Cfg) ULM() ss2022.UserLookupMap {
	ulm := ss2022.UserLookupMap{}
	for _, u := range c.Users {
		uc, err := ss2022.NewServerUserCipherConfig(u.Name, u.PSK, c.UDP)
		if err != nil {
			panic(err)
		}
		ulm[ss2022.PSKHash(u.PSK)] = uc
	}
	return ulm
}

func (c *Cfg) serverCiphers() (ss2022.UserCipherConfig, ss2022.ServerIdentityCipherConfig) {
	var (
		uc  ss2022.UserCipherConfig
		ic  ss2022.ServerIdentityCipherConfig
		err error
	)
	if len(c.Users) == 0 {
		uc, err = ss2022.NewUserCipherConfig(c.PSK, c.UDP)
	} else {
		ic, err = ss2022.NewServerIdentityCipherConfig(c.PSK, c.UDP)
	}
	if err != nil {
		panic(err)
	}
	return uc, ic
}

// StreamServer returns a fresh real stream server (empty salt pool).
func (c *Cfg) StreamServer() *ss2022.StreamServer {
	uc, ic := c.serverCiphers()
	sc := ss2022.StreamServerConfig{
		AllowSegmentedFixedLengthHeader: c.AllowSegmented,
		UserCipherConfig:                uc,
		IdentityCipherConfig:            ic,
		RejectPolicy:                    ss2022.JustClose,
		UnsafeFallbackAddr:              c.Fallback,
		UnsafeRequestStreamPrefix:       c.ReqPrefix,
		UnsafeResponseStreamPrefix:      c.RespPrefix,
	}
	s := sc.NewStreamServer()
	if len(c.Users) > 0 {
		s.ReplaceUserLookupMap(c.ULM())
	}
	return s
}

// UDPServer returns a fresh real UDP session server.
func (c *Cfg) UDPServer() *ss2022.UDPServer {
	uc, ic := c.serverCiphers()
	s := ss2022.NewUDPServer(c.FilterSize, uc, ic, c.Pad)
	if len(c.Users) > 0 {
		s.ReplaceUserLookupMap(c.ULM())
	}
	return s
}

// ClientCipher returns the client cipher configuration of user i (ignored in
// single-user mode). extraIPSKs are prepended outer identity keys (relay hops).
func (c *Cfg) ClientCipher(i int, extraIPSKs ...[]byte) *ss2022.ClientCipherConfig {
	var (
		cc  *ss2022.ClientCipherConfig
		err error
	)
	if len(c.Users) == 0 {
		var ipsks [][]byte
		ipsks = append(ipsks, extraIPSKs...)
		cc, err = ss2022.NewClientCipherConfig(c.PSK, ipsks, c.UDP)
	} else {
		var ipsks [][]byte
		ipsks = append(ipsks, extraIPSKs...)
		ipsks = append(ipsks, c.PSK)
		cc, err = ss2022.NewClientCipherConfig(c.Users[i].PSK, ipsks, c.UDP)
	}
	if err != nil {
		panic(err)
	}
	return cc
}

// ClientCipherForKey returns a client cipher configuration for an arbitrary user key.
func (c *Cfg) ClientCipherForKey(psk []byte) *ss2022.ClientCipherConfig {
	var ipsks [][]byte
	if len(c.Users) > 0 {
		ipsks = [][]byte{c.PSK}
	}
	cc, err := ss2022.NewClientCipherConfig(psk, ipsks, c.UDP)
	if err != nil {
		panic(err)
	}
	return cc
}

// UserName returns the expected username for user i ("" in single-user mode).
func (c *Cfg) UserName(i int) string {
	if len(c.Users) == 0 {
		return ""
	}
	return c.Users[i].Name
}
