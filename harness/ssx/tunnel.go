package ssx

import (
	"bytes"
	"context"
	"fmt"
	"sync"

	"github.com/database64128/shadowsocks-go/conn"
	"github.com/database64128/shadowsocks-go/netio"
	"github.com/database64128/shadowsocks-go/ss2022"
	"go.uber.org/zap"

	"verif/netsim"
)

// Inner is the harness transport handed to the real ss2022.StreamClient as
// InnerClient. Every DialStream creates a fresh BufConn pair, applies the
// reference relay hops (identity-header stripping) to the request bytes,
// writes them in one transport write, and hands the far end to OnAccept.
type Inner struct {
	PlanC2S, PlanS2C func() netsim.SegPlan
	Record           bool
	// Hops are the iPSKs of reference relay hops in front of the real server,
	// outermost first. Hop i decrypts identity header i with Hops[i] and checks
	// that it names NextHash[i].
	Hops      [][]byte
	NextHash  [][ss2022.IdentityHeaderLength]byte
	PrefixLen int
	SaltLen   int
	OnAccept  func(serverEnd *netsim.BufConn)

	mu      sync.Mutex
	HopErr  error
	Clients []*netsim.BufConn
}

var _ netio.StreamClient = (*Inner)(nil)

func (in *Inner) NewStreamDialer() (netio.StreamDialer, netio.StreamDialerInfo) {
	return in, netio.StreamDialerInfo{Name: "inner", NativeInitialPayload: true}
}

func (in *Inner) DialStream(ctx context.Context, addr conn.Addr, payload []byte) (netio.Conn, error) {
	var p1, p2 netsim.SegPlan
	if in.PlanC2S != nil {
		p1 = in.PlanC2S()
	}
	if in.PlanS2C != nil {
		p2 = in.PlanS2C()
	}
	c, s := netsim.Pair(p1, p2, in.Record)
	in.mu.Lock()
	in.Clients = append(in.Clients, c)
	in.mu.Unlock()
	out := payload
	for i, ipsk := range in.Hops {
		var err error
		out, err = stripHop(out, in.PrefixLen, in.SaltLen, ipsk, in.NextHash[i])
		if err != nil {
			in.mu.Lock()
			in.HopErr = fmt.Errorf("relay hop %d: %w", i, err)
			in.mu.Unlock()
			break
		}
	}
	if len(out) > 0 {
		if _, err := c.Write(out); err != nil {
			return nil, err
		}
	}
	if in.OnAccept != nil {
		in.OnAccept(s)
	}
	return c, nil
}

// stripHop is the SIP022 relay step: decrypt the first identity header with
// the hop's iPSK, compare with the hash of the next key, drop the 16 bytes.
func stripHop(b []byte, prefixLen, saltLen int, ipsk []byte, next [ss2022.IdentityHeaderLength]byte) ([]byte, error) {
	ehStart := prefixLen + saltLen
	if len(b) < ehStart+ss2022.IdentityHeaderLength {
		return nil, fmt.Errorf("request too short for an identity header: %d", len(b))
	}
	ic, err := ss2022.NewServerIdentityCipherConfig(ipsk, false)
	if err != nil {
		return nil, err
	}
	blk, err := ic.TCP(b[prefixLen:ehStart])
	if err != nil {
		return nil, err
	}
	var plain [ss2022.IdentityHeaderLength]byte
	blk.Decrypt(plain[:], b[ehStart:ehStart+ss2022.IdentityHeaderLength])
	if !bytes.Equal(plain[:], next[:]) {
		return nil, fmt.Errorf("identity header does not name the next hop's key")
	}
	out := make([]byte, 0, len(b)-ss2022.IdentityHeaderLength)
	out = append(out, b[:ehStart]...)
	out = append(out, b[ehStart+ss2022.IdentityHeaderLength:]...)
	return out, nil
}

// Nop is a shared no-op logger.
var Nop = zap.NewNop()

// StreamClient builds the real client for user ui of cfg with extra outer hops.
func (c *Cfg) StreamClient(ui int, inner *Inner, allowSegmented bool, hops ...[]byte) *ss2022.StreamClient {
	cc := c.ClientCipher(ui, hops...)
	inner.Hops = hops
	inner.NextHash = nil
	for i := range hops {
		var next []byte
		switch {
		case i+1 < len(hops):
			next = hops[i+1]
		case len(c.Users) > 0:
			next = c.PSK // the real server's iPSK
		default:
			next = c.PSK // single-user server behind relay hops: the last identity header names the user key itself
		}
		inner.NextHash = append(inner.NextHash, ss2022.PSKHash(next))
	}
	inner.PrefixLen = len(c.ReqPrefix)
	inner.SaltLen = c.KeySize
	cfg := ss2022.StreamClientConfig{
		Name:                            "c",
		InnerClient:                     inner,
		Addr:                            conn.MustAddrFromDomainPort("server.test", 8388),
		AllowSegmentedFixedLengthHeader: allowSegmented,
		CipherConfig:                    cc,
		UnsafeRequestStreamPrefix:       c.ReqPrefix,
		UnsafeResponseStreamPrefix:      c.RespPrefix,
	}
	return cfg.NewStreamClient()
}
