// Package svx runs the repository's real service.Manager in-process on
// loopback sockets and provides the harness-side peers: downstream clients
// built from service.ClientConfig (so every protocol is spoken by the repo's own
// client code), tagged echo targets, a scripted resolver behind
// net.DefaultResolver, log capture and goroutine / fd accounting.
package svx

import (
	"bytes"
	"context"
	"encoding/json"
	"fmt"
	"net"
	"net/netip"
	"os"
	"runtime"
	"runtime/pprof"
	"strings"
	"sync"
	"sync/atomic"
	"time"

	"github.com/database64128/shadowsocks-go/conn"
	"github.com/database64128/shadowsocks-go/netio"
	"github.com/database64128/shadowsocks-go/service"
	"github.com/database64128/shadowsocks-go/tlscerts"
	"github.com/database64128/shadowsocks-go/verifhook"
	"github.com/database64128/shadowsocks-go/zerocopy"
	"go.uber.org/zap"
	"go.uber.org/zap/zapcore"
	"go.uber.org/zap/zaptest/observer"

	"verif/vtime"
)

// Poll waits in REAL time (raw nanosleeps, safe under a frozen virtual clock) until f is true.
func Poll(max time.Duration, f func() bool) bool {
	step := 200 * time.Microsecond
	for waited := time.Duration(0); waited < max; waited += step {
		if f() {
			return true
		}
		vtime.RealSleep(step)
		if step < 2*time.Millisecond {
			step += 100 * time.Microsecond
		}
	}
	return f()
}

// FreePorts returns n port numbers that were free for both TCP and UDP on 127.0.0.1 a moment ago.
func FreePorts(n int) []int {
	var out []int
	var keep []interface{ Close() error }
	for len(out) < n {
		l, err := net.Listen("tcp", "127.0.0.1:0")
		if err != nil {
			continue
		}
		p := l.Addr().(*net.TCPAddr).Port
		u, err := net.ListenUDP("udp", &net.UDPAddr{IP: net.IPv4(127, 0, 0, 1), Port: p})
		if err != nil {
			l.Close()
			continue
		}
		keep = append(keep, l, u)
		out = append(out, p)
	}
	for _, k := range keep {
		k.Close()
	}
	return out
}

// Instance is one running service manager.
type Instance struct {
	Mgr    *service.Manager
	Logs   *observer.ObservedLogs
	cancel context.CancelFunc
	done   chan bool
}

// DecodeStrict decodes JSON the way jsoncfg.Load does.
func DecodeStrict(b []byte, v any) error {
	dec := json.NewDecoder(bytes.NewReader(b))
	dec.DisallowUnknownFields()
	return dec.Decode(v)
}

// Load builds the manager from JSON without starting it.
func Load(cfgJSON []byte, level zapcore.Level) (*service.Manager, *observer.ObservedLogs, error) {
	var cfg service.Config
	if err := DecodeStrict(cfgJSON, &cfg); err != nil {
		return nil, nil, fmt.Errorf("decode: %w", err)
	}
	core, logs := observer.New(level)
	logger := zap.New(core)
	m, err := cfg.Manager(logger)
	return m, logs, err
}

// ClockPoisoned is set (real-clock flavours only; the fake-clock flavour skips the registration through a hook) once a configuration that makes the service call signal.Notify (credential stores,
// TLS certificates: reload on SIGUSR1) has been started in this process. os/signal parks an M in a blocking
// wait for the rest of the process lifetime; the runtime then never considers the process idle, so the fake
// clock can no longer be advanced (vtime.Advance would hang). Parts that need Advance must not start such
// configurations; Stop skips its virtual-time phase when this is set.
var ClockPoisoned atomic.Bool

// Start loads and runs the configuration.
func Start(cfgJSON []byte) (*Instance, error) {
	if vtime.Virtual {
		// under the fake clock the SIGUSR1 reload handler is not registered (verif hook): os/signal would park a
		// thread for good and the fake clock could never advance again
		verifhook.SetSkip("service.reloadNotifier.signal", true)
	} else if bytes.Contains(cfgJSON, []byte("uPSKStorePath")) || bytes.Contains(cfgJSON, []byte("\"certs\"")) {
		ClockPoisoned.Store(true)
	}
	m, logs, err := Load(cfgJSON, zapcore.InfoLevel)
	if err != nil {
		return nil, err
	}
	ctx, cancel := context.WithCancel(context.Background())
	in := &Instance{Mgr: m, Logs: logs, cancel: cancel, done: make(chan bool, 1)}
	go func() { in.done <- m.Run(ctx) }()
	return in, nil
}

// CountLogs returns how many captured entries contain msg.
func (in *Instance) CountLogs(msg string) int {
	n := 0
	for _, e := range in.Logs.All() {
		if strings.Contains(e.Message, msg) {
			n++
		}
	}
	return n
}

// WaitLogs waits (real time) until at least n entries contain msg.
func (in *Instance) WaitLogs(msg string, n int, max time.Duration) bool {
	return Poll(max, func() bool { return in.CountLogs(msg) >= n })
}

// LogLines renders captured entries for witnesses.
func (in *Instance) LogLines(max int) []string {
	var out []string
	all := in.Logs.All()
	if len(all) > max {
		all = all[len(all)-max:]
	}
	for _, e := range all {
		var sb strings.Builder
		sb.WriteString(e.Level.String() + " " + e.Message)
		for _, f := range e.Context {
			switch f.Type {
			case zapcore.StringType:
				fmt.Fprintf(&sb, " %s=%s", f.Key, f.String)
			case zapcore.ErrorType:
				fmt.Fprintf(&sb, " %s=%v", f.Key, f.Interface)
			}
		}
		out = append(out, sb.String())
	}
	return out
}

// StopResult describes a Stop.
type StopResult struct {
	Virtual  time.Duration // virtual time consumed until Run returned
	Returned bool          // Run returned within the real-time watchdog
	RunOK    bool
}

// Stop cancels the context and waits for Run to return. In the faketime build the clock is opened so that
// a Stop that (wrongly) waits for a timer shows up as consumed virtual time instead of a hang.
func (in *Instance) Stop(realWatchdog time.Duration) StopResult {
	in.cancel()
	return in.AwaitReturn(realWatchdog)
}

// Cancel cancels the context handed to Run (idempotent).
func (in *Instance) Cancel() { in.cancel() }

// AwaitReturn waits for Run to return WITHOUT cancelling its context: for runs that end by themselves (a service that
// fails to start makes Run stop the services already started and return false). Measured like Stop.
func (in *Instance) AwaitReturn(realWatchdog time.Duration) StopResult {
	t0 := vtime.Now()
	var res StopResult
	// phase 1: frozen clock — a prompt Stop needs no virtual time at all
	ok := Poll(realWatchdog/2, func() bool {
		select {
		case v := <-in.done:
			res.Returned, res.RunOK = true, v
			return true
		default:
			return false
		}
	})
	if !ok && vtime.Virtual && !ClockPoisoned.Load() {
		// phase 2: let virtual time run (up to 1 h) so that a Stop bound to a timer can finish and be measured
		fin := make(chan struct{})
		go func() {
			select {
			case v := <-in.done:
				res.Returned, res.RunOK = true, v
				res.Virtual = vtime.Now().Sub(t0)
			case <-time.After(time.Hour):
			}
			close(fin)
		}()
		vtime.Advance(time.Hour + time.Second)
		<-fin
	}
	if res.Virtual == 0 {
		res.Virtual = vtime.Now().Sub(t0)
	}
	return res
}

// ---- downstream clients ----

// Client wraps the repo's own client objects built from a service.ClientConfig document.
type Client struct {
	Cfg service.ClientConfig
	TCP netio.StreamClient
	UDP zerocopy.UDPClient
}

var (
	lcCache = conn.NewListenConfigCache()
	dCache  = conn.NewDialerCache()
	cacheMu sync.Mutex
)

// NewClient builds a client from JSON.
func NewClient(cfgJSON []byte) (*Client, error) { return NewClientTLS(cfgJSON, nil) }

// NewClientTLS builds a client whose configuration may refer to the certificate list / CA pool of t (nil: none).
func NewClientTLS(cfgJSON []byte, t *Topo) (*Client, error) {
	c := &Client{}
	if err := DecodeStrict(cfgJSON, &c.Cfg); err != nil {
		return nil, err
	}
	var store *tlscerts.Store
	if t != nil {
		var err error
		if store, err = t.certStore(); err != nil {
			return nil, err
		}
	}
	cacheMu.Lock()
	defer cacheMu.Unlock()
	if err := c.Cfg.Initialize(store, lcCache, dCache, zap.NewNop()); err != nil {
		return nil, err
	}
	if c.Cfg.EnableTCP {
		t, err := c.Cfg.TCPClient()
		if err != nil {
			return nil, err
		}
		c.TCP = t
	}
	if c.Cfg.EnableUDP {
		u, err := c.Cfg.UDPClient()
		if err != nil {
			return nil, err
		}
		c.UDP = u
	}
	return c, nil
}

// Datagram is one received datagram.
type Datagram struct {
	RawLen  int // size of the datagram on the wire (peers only)
	Payload []byte
	From    netip.AddrPort // for peers: the source the protocol reports; for targets: the sender
	Raw     netip.AddrPort // transport-level sender
	Via     netip.AddrPort // peers only: the local address of the socket the datagram arrived on
}

// UDPPeer is a downstream UDP client session over its own socket.
type UDPPeer struct {
	Conn *net.UDPConn
	Sess zerocopy.UDPClientSession
	Info zerocopy.UDPClientSessionInfo
	mu   sync.Mutex
	got  []Datagram
	errs []string
}

// NewUDPPeer opens a session and a socket on ip ("127.0.0.1" or "::1").
func (c *Client) NewUDPPeer(ip string) (*UDPPeer, error) {
	info, sess, err := c.UDP.NewSession(context.Background())
	if err != nil {
		return nil, err
	}
	uc, err := net.ListenUDP("udp", &net.UDPAddr{IP: net.ParseIP(ip)})
	if err != nil {
		sess.Close()
		return nil, err
	}
	p := &UDPPeer{Conn: uc, Sess: sess, Info: info}
	go p.readLoop(uc)
	return p, nil
}

func (p *UDPPeer) readLoop(uc *net.UDPConn) {
	hr := p.Sess.Unpacker.ClientUnpackerInfo().Headroom
	via := uc.LocalAddr().(*net.UDPAddr).AddrPort()
	for {
		b := make([]byte, hr.Front+65535+hr.Rear)
		n, from, err := uc.ReadFromUDPAddrPort(b[hr.Front : hr.Front+65535])
		if err != nil {
			return
		}
		src, ps, pl, err := p.Sess.Unpacker.UnpackInPlace(b, from, hr.Front, n)
		p.mu.Lock()
		if err != nil {
			p.errs = append(p.errs, err.Error())
		} else {
			p.got = append(p.got, Datagram{RawLen: n, Payload: append([]byte{}, b[ps:ps+pl]...), From: src, Raw: from, Via: via})
		}
		p.mu.Unlock()
	}
}

// Rebind moves the session to a fresh socket (client address change); the old socket keeps being read.
func (p *UDPPeer) Rebind(ip string) error {
	uc, err := net.ListenUDP("udp", &net.UDPAddr{IP: net.ParseIP(ip)})
	if err != nil {
		return err
	}
	p.Conn = uc
	go p.readLoop(uc)
	return nil
}

// Local is the address of the socket the session currently sends from.
func (p *UDPPeer) Local() netip.AddrPort { return p.Conn.LocalAddr().(*net.UDPAddr).AddrPort() }

// Send packs and sends one datagram for target.
func (p *UDPPeer) Send(target conn.Addr, payload []byte) error {
	hr := p.Info.PackerHeadroom
	b := make([]byte, hr.Front+len(payload)+hr.Rear+16)
	copy(b[hr.Front:], payload)
	dest, ps, pl, err := p.Sess.Packer.PackInPlace(context.Background(), b, target, hr.Front, len(payload))
	if err != nil {
		return err
	}
	_, err = p.Conn.WriteToUDPAddrPort(b[ps:ps+pl], dest)
	return err
}

// SendVia packs a datagram for target but transmits it to dest (e.g. the server's other address family).
func (p *UDPPeer) SendVia(target conn.Addr, payload []byte, dest netip.AddrPort) error {
	hr := p.Info.PackerHeadroom
	b := make([]byte, hr.Front+len(payload)+hr.Rear+16)
	copy(b[hr.Front:], payload)
	_, ps, pl, err := p.Sess.Packer.PackInPlace(context.Background(), b, target, hr.Front, len(payload))
	if err != nil {
		return err
	}
	_, err = p.Conn.WriteToUDPAddrPort(b[ps:ps+pl], dest)
	return err
}

// SendRaw sends arbitrary bytes from the peer's socket to dest.
func (p *UDPPeer) SendRaw(dest netip.AddrPort, b []byte) error {
	_, err := p.Conn.WriteToUDPAddrPort(b, dest)
	return err
}

// Got returns a snapshot of the datagrams delivered to the application.
func (p *UDPPeer) Got() []Datagram {
	p.mu.Lock()
	defer p.mu.Unlock()
	return append([]Datagram{}, p.got...)
}

// Errs returns unpack errors seen so far.
func (p *UDPPeer) Errs() []string {
	p.mu.Lock()
	defer p.mu.Unlock()
	return append([]string{}, p.errs...)
}

// Close closes the peer.
func (p *UDPPeer) Close() {
	p.Conn.Close()
	p.Sess.Close()
}

// UDPTarget is a tagged echo target.
type UDPTarget struct {
	Tag   string
	Conn  *net.UDPConn
	Addr  netip.AddrPort
	Echo  bool
	mu    sync.Mutex
	got   []Datagram
	Reply func(in []byte) []byte
}

// NewUDPTarget listens on ip:port (port 0 = any) and answers "tag|payload".
func NewUDPTarget(tag, ip string, port int) (*UDPTarget, error) {
	uc, err := net.ListenUDP("udp", &net.UDPAddr{IP: net.ParseIP(ip), Port: port})
	if err != nil {
		return nil, err
	}
	t := &UDPTarget{Tag: tag, Conn: uc, Echo: true, Addr: uc.LocalAddr().(*net.UDPAddr).AddrPort()}
	go func() {
		b := make([]byte, 65536)
		for {
			n, from, err := uc.ReadFromUDPAddrPort(b)
			if err != nil {
				return
			}
			pl := append([]byte{}, b[:n]...)
			t.mu.Lock()
			t.got = append(t.got, Datagram{Payload: pl, From: from, Raw: from})
			echo, rf := t.Echo, t.Reply
			t.mu.Unlock()
			if rf != nil {
				uc.WriteToUDPAddrPort(rf(pl), from)
			} else if echo {
				uc.WriteToUDPAddrPort(append([]byte(tag+"|"), pl...), from)
			}
		}
	}()
	return t, nil
}

// Got returns what the target received.
func (t *UDPTarget) Got() []Datagram {
	t.mu.Lock()
	defer t.mu.Unlock()
	return append([]Datagram{}, t.got...)
}

// Close closes the target.
func (t *UDPTarget) Close() { t.Conn.Close() }

// ---- accounting ----

// RelayGoroutines counts goroutines that have a frame of the repository's service package (relay loops).
func RelayGoroutines() (int, string) {
	if vtime.Virtual {
		// no stop-the-world under the fake clock (see cmd/drive): fall back to the plain goroutine count
		return runtime.NumGoroutine(), ""
	}
	var buf bytes.Buffer
	pprof.Lookup("goroutine").WriteTo(&buf, 2)
	n := 0
	var sample string
	for _, g := range strings.Split(buf.String(), "\n\n") {
		if strings.Contains(g, "shadowsocks-go/service.(") || strings.Contains(g, "shadowsocks-go/service.relay") {
			n++
			if sample == "" {
				sample = g
			}
		}
	}
	return n, sample
}

// OpenFDs counts open file descriptors of the process (sockets only when socketsOnly).
func OpenFDs(socketsOnly bool) int {
	ents, err := os.ReadDir("/proc/self/fd")
	if err != nil {
		return -1
	}
	n := 0
	for _, e := range ents {
		if !socketsOnly {
			n++
			continue
		}
		l, err := os.Readlink("/proc/self/fd/" + e.Name())
		if err == nil && strings.HasPrefix(l, "socket:") {
			n++
		}
	}
	return n
}

// ---- TCP targets ----

// TCPSession is one connection accepted by a TCPTarget.
type TCPSession struct {
	mu       sync.Mutex
	Received []byte
	EOF      bool   // the peer's write side was closed (clean EOF)
	Err      string // read error other than EOF
	Done     bool   // handler finished
	conn     *net.TCPConn
}

// Snapshot returns a copy of the observable state.
func (s *TCPSession) Snapshot() (recv []byte, eof bool, errs string, done bool) {
	s.mu.Lock()
	defer s.mu.Unlock()
	return append([]byte{}, s.Received...), s.EOF, s.Err, s.Done
}

// TCPTarget is a scripted TCP listener.
//
// Modes: "echo" (echo as it arrives, half-close after the peer's EOF), "banner-on-eof" (read to EOF, then send
// Banner and close), "speak-first" (send Banner at once, then echo), "close-first" (send Banner, half-close at
// once, keep reading to EOF), "sink" (read to EOF, send nothing).
type TCPTarget struct {
	Tag    string
	Mode   string
	Banner []byte
	// Release, for mode "banner-then-rst": the target sends Banner after the peer's EOF, waits for Release to be
	// closed and then aborts the connection with RST.
	Release chan struct{}
	Ln      *net.TCPListener
	Addr    netip.AddrPort
	mu      sync.Mutex
	sess    []*TCPSession
}

// NewTCPTarget listens on ip:port.
func NewTCPTarget(tag, ip string, port int, mode string, banner []byte) (*TCPTarget, error) {
	ln, err := net.ListenTCP("tcp", &net.TCPAddr{IP: net.ParseIP(ip), Port: port})
	if err != nil {
		return nil, err
	}
	t := &TCPTarget{Tag: tag, Mode: mode, Banner: banner, Ln: ln, Addr: ln.Addr().(*net.TCPAddr).AddrPort()}
	go func() {
		for {
			c, err := ln.AcceptTCP()
			if err != nil {
				return
			}
			s := &TCPSession{conn: c}
			t.mu.Lock()
			t.sess = append(t.sess, s)
			t.mu.Unlock()
			go t.handle(s)
		}
	}()
	return t, nil
}

func (t *TCPTarget) handle(s *TCPSession) {
	c := s.conn
	defer func() {
		c.Close()
		s.mu.Lock()
		s.Done = true
		s.mu.Unlock()
	}()
	switch t.Mode {
	case "speak-first":
		c.Write(t.Banner)
	case "close-first":
		c.Write(t.Banner)
		c.CloseWrite()
	}
	b := make([]byte, 65536)
	for {
		n, err := c.Read(b)
		if n > 0 {
			s.mu.Lock()
			s.Received = append(s.Received, b[:n]...)
			s.mu.Unlock()
			if t.Mode == "echo" || t.Mode == "speak-first" {
				if _, werr := c.Write(b[:n]); werr != nil {
					return
				}
			}
		}
		if err != nil {
			s.mu.Lock()
			if err.Error() == "EOF" {
				s.EOF = true
			} else {
				s.Err = err.Error()
			}
			s.mu.Unlock()
			break
		}
	}
	if t.Mode == "banner-on-eof" {
		c.Write(t.Banner)
	}
	if t.Mode == "banner-then-rst" {
		c.Write(t.Banner)
		if t.Release != nil {
			<-t.Release
		}
		c.SetLinger(0)
		return // deferred Close sends RST
	}
	if t.Mode != "close-first" {
		c.CloseWrite()
	}
}

// Sessions returns the accepted connections so far.
func (t *TCPTarget) Sessions() []*TCPSession {
	t.mu.Lock()
	defer t.mu.Unlock()
	return append([]*TCPSession{}, t.sess...)
}

// Close stops the listener and closes every accepted connection.
func (t *TCPTarget) Close() {
	t.Ln.Close()
	for _, s := range t.Sessions() {
		s.conn.Close()
	}
}
