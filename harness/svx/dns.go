package svx

import (
	"context"
	"encoding/binary"
	"io"
	"net"
	"net/netip"
	"strings"
	"sync"

	"golang.org/x/net/dns/dnsmessage"
)

// FakeDNS answers the process-wide net.DefaultResolver from a script. Names map to addresses; a name can
// be made to fail (SERVFAIL) for the next k lookups, or be held until released (to reorder resolutions).
type FakeDNS struct {
	mu      sync.Mutex
	Answers map[string][]netip.Addr
	FailN   map[string]int
	holds   map[string]chan struct{}
	Queries map[string]int
}

var installOnce sync.Mutex

// InstallFakeDNS replaces net.DefaultResolver.
func InstallFakeDNS() *FakeDNS {
	f := &FakeDNS{Answers: map[string][]netip.Addr{}, FailN: map[string]int{}, holds: map[string]chan struct{}{}, Queries: map[string]int{}}
	installOnce.Lock()
	net.DefaultResolver = &net.Resolver{PreferGo: true, Dial: func(ctx context.Context, network, address string) (net.Conn, error) {
		c, s := net.Pipe()
		go f.serve(s)
		return c, nil
	}}
	installOnce.Unlock()
	return f
}

// Set maps name to addresses.
func (f *FakeDNS) Set(name string, addrs ...string) {
	f.mu.Lock()
	defer f.mu.Unlock()
	var as []netip.Addr
	for _, a := range addrs {
		as = append(as, netip.MustParseAddr(a))
	}
	f.Answers[strings.ToLower(name)] = as
}

// FailNext makes the next n lookups (queries) of name fail with SERVFAIL.
func (f *FakeDNS) FailNext(name string, n int) {
	f.mu.Lock()
	f.FailN[strings.ToLower(name)] = n
	f.mu.Unlock()
}

// QueryCount returns how many queries for name were seen.
func (f *FakeDNS) QueryCount(name string) int {
	f.mu.Lock()
	defer f.mu.Unlock()
	return f.Queries[strings.ToLower(name)]
}

// Hold blocks answers for name until the returned function is called.
func (f *FakeDNS) Hold(name string) (release func()) {
	ch := make(chan struct{})
	f.mu.Lock()
	f.holds[strings.ToLower(name)] = ch
	f.mu.Unlock()
	return func() {
		f.mu.Lock()
		delete(f.holds, strings.ToLower(name))
		f.mu.Unlock()
		close(ch)
	}
}

func (f *FakeDNS) serve(c net.Conn) {
	defer c.Close()
	for {
		var lb [2]byte
		if _, err := io.ReadFull(c, lb[:]); err != nil {
			return
		}
		msg := make([]byte, binary.BigEndian.Uint16(lb[:]))
		if _, err := io.ReadFull(c, msg); err != nil {
			return
		}
		var p dnsmessage.Parser
		h, err := p.Start(msg)
		if err != nil {
			return
		}
		q, err := p.Question()
		if err != nil {
			return
		}
		name := strings.ToLower(strings.TrimSuffix(q.Name.String(), "."))
		f.mu.Lock()
		f.Queries[name]++
		hold := f.holds[name]
		fail := f.FailN[name] > 0
		if fail {
			f.FailN[name]--
		}
		addrs, known := f.Answers[name]
		f.mu.Unlock()
		if hold != nil {
			<-hold
		}
		b := dnsmessage.NewBuilder(nil, dnsmessage.Header{ID: h.ID, Response: true, RecursionAvailable: true, RecursionDesired: true})
		b.EnableCompression()
		b.StartQuestions()
		b.Question(q)
		rcode := dnsmessage.RCodeSuccess
		if fail {
			rcode = dnsmessage.RCodeServerFailure
		} else if !known {
			rcode = dnsmessage.RCodeNameError
		}
		if rcode != dnsmessage.RCodeSuccess {
			b = dnsmessage.NewBuilder(nil, dnsmessage.Header{ID: h.ID, Response: true, RecursionAvailable: true, RCode: rcode})
			b.StartQuestions()
			b.Question(q)
		} else {
			b.StartAnswers()
			for _, a := range addrs {
				rh := dnsmessage.ResourceHeader{Name: q.Name, Class: dnsmessage.ClassINET, TTL: 60}
				if a.Is4() && q.Type == dnsmessage.TypeA {
					b.AResource(rh, dnsmessage.AResource{A: a.As4()})
				} else if a.Is6() && q.Type == dnsmessage.TypeAAAA {
					b.AAAAResource(rh, dnsmessage.AAAAResource{AAAA: a.As16()})
				}
			}
		}
		out, err := b.Finish()
		if err != nil {
			return
		}
		var ob [2]byte
		binary.BigEndian.PutUint16(ob[:], uint16(len(out)))
		if _, err := c.Write(append(ob[:], out...)); err != nil {
			return
		}
	}
}
