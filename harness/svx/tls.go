package svx

import (
	"crypto/ecdsa"
	"crypto/elliptic"
	"crypto/rand"
	"crypto/tls"
	"crypto/x509"
	"crypto/x509/pkix"
	"encoding/json"
	"encoding/pem"
	"math/big"
	"net"
	"os"
	"path/filepath"
	"time"

	"github.com/database64128/shadowsocks-go/tlscerts"
)

// TLSServerName is the name in the harness certificate; TLS clients verify it.
const TLSServerName = "proxy.c13.test"

// certFiles makes (once per Topo) a self-signed certificate that is its own CA, valid from 2000 to 2100 (the runtime's
// fake clock starts in 2009), usable as server and as client certificate.
func (t *Topo) certFiles() (certPath, keyPath string) {
	certPath, keyPath = filepath.Join(t.Dir, "tls-cert.pem"), filepath.Join(t.Dir, "tls-key.pem")
	if _, err := os.Stat(certPath); err == nil {
		return
	}
	os.MkdirAll(t.Dir, 0o755)
	key, err := ecdsa.GenerateKey(elliptic.P256(), rand.Reader)
	if err != nil {
		panic(err)
	}
	tmpl := &x509.Certificate{
		SerialNumber:          big.NewInt(0xc13),
		Subject:               pkix.Name{CommonName: "harness-user"},
		NotBefore:             time.Date(2000, 1, 1, 0, 0, 0, 0, time.UTC),
		NotAfter:              time.Date(2100, 1, 1, 0, 0, 0, 0, time.UTC),
		KeyUsage:              x509.KeyUsageDigitalSignature | x509.KeyUsageCertSign,
		ExtKeyUsage:           []x509.ExtKeyUsage{x509.ExtKeyUsageServerAuth, x509.ExtKeyUsageClientAuth},
		BasicConstraintsValid: true,
		IsCA:                  true,
		DNSNames:              []string{TLSServerName},
		IPAddresses:           []net.IP{net.IPv4(127, 0, 0, 1)},
	}
	der, err := x509.CreateCertificate(rand.Reader, tmpl, tmpl, &key.PublicKey, key)
	if err != nil {
		panic(err)
	}
	kb, err := x509.MarshalECPrivateKey(key)
	if err != nil {
		panic(err)
	}
	os.WriteFile(certPath, pem.EncodeToMemory(&pem.Block{Type: "CERTIFICATE", Bytes: der}), 0o644)
	os.WriteFile(keyPath, pem.EncodeToMemory(&pem.Block{Type: "EC PRIVATE KEY", Bytes: kb}), 0o600)
	return
}

// Certs is the "certs" section of a service configuration whose servers / clients use the TLS protocols of this Topo
// ("httptls", "httpmtls"): one certificate list and one CA pool.
func (t *Topo) Certs() map[string]any {
	cp, kp := t.certFiles()
	return map[string]any{
		"certLists":     []any{map[string]any{"name": "tls-list", "certs": []any{map[string]any{"certPath": cp, "keyPath": kp}}}},
		"x509CertPools": []any{map[string]any{"name": "tls-ca", "certPaths": []any{cp}}},
	}
}

// UsesTLS reports whether a protocol name of this package needs the Certs section.
func UsesTLS(proto string) bool { return proto == "httptls" || proto == "httpmtls" }

// certStore builds the repo's certificate store from the Topo's Certs section (for stand-alone clients).
func (t *Topo) certStore() (*tlscerts.Store, error) {
	b, _ := json.Marshal(t.Certs())
	var cfg tlscerts.Config
	if err := json.Unmarshal(b, &cfg); err != nil {
		return nil, err
	}
	return cfg.NewStore()
}

// TLSClientConfig is what a harness-side raw TLS client needs to talk to a TLS server of this Topo.
func (t *Topo) TLSClientConfig(withClientCert bool) (*tls.Config, error) {
	cp, kp := t.certFiles()
	pemBytes, err := os.ReadFile(cp)
	if err != nil {
		return nil, err
	}
	pool := x509.NewCertPool()
	pool.AppendCertsFromPEM(pemBytes)
	c := &tls.Config{RootCAs: pool, ServerName: TLSServerName}
	if withClientCert {
		kpair, err := tls.LoadX509KeyPair(cp, kp)
		if err != nil {
			return nil, err
		}
		c.Certificates = []tls.Certificate{kpair}
	}
	return c, nil
}
