package svx

import (
	"encoding/base64"
	"encoding/json"
	"fmt"
	"os"
	"path/filepath"

	"verif/forge"
)

// Protos lists the proxy protocols a server can speak in the harness topologies.
// "ss128"/"ss256": Shadowsocks 2022 single-user; "ssmulti": 2022 multi-user (identity header);
// "socks5", "socks5auth", "none", "http" (TCP only), "httpauth" (TCP only), "httptls" / "httpmtls" (TCP only, HTTPS proxy
// without / with client certificate; the configuration then needs Topo.Certs()).
var UDPProtos = []string{"ss128", "ss256", "ssmulti", "socks5", "none"}
var TCPProtos = []string{"ss128", "ss256", "ssmulti", "socks5", "socks5auth", "none", "http", "httpauth"}

func b64(b []byte) string { return base64.StdEncoding.EncodeToString(b) }

func method(p string) string {
	if p == "ss256" {
		return "2022-blake3-aes-256-gcm"
	}
	return "2022-blake3-aes-128-gcm"
}

func keyLen(p string) int {
	if p == "ss256" {
		return 32
	}
	return 16
}

// Topo builds configuration documents.
type Topo struct {
	Dir string // scratch directory for store files
}

// UserKey is the uPSK of user i of a multi-user server named srv.
func UserKey(srv string, i int) []byte { return forge.Key(16, fmt.Sprintf("svx/%s/user%d", srv, i)) }

// ServerKey is the PSK (or iPSK) of a server.
func ServerKey(srv, proto string) []byte { return forge.Key(keyLen(proto), "svx/"+srv+"/psk") }

// ServerOpts tunes a server document.
type ServerOpts struct {
	TCP, UDP    bool
	BatchMode   string // "" | "no"
	NATTimeout  string // e.g. "5m0s"; "" = default
	MTU         int
	DisableWait bool
	WaitTimeout string
	Extra       map[string]any
	UDPExtra    map[string]any
	TCPExtra    map[string]any
	SendChanCap int
	Host        string // listen host; default 127.0.0.1 ("[::]" = dual stack)
}

// Server returns the JSON object of a server listening on 127.0.0.1:port.
func (t *Topo) Server(name, proto string, port int, o ServerOpts) map[string]any {
	s := map[string]any{"name": name, "mtu": 1500}
	if o.MTU != 0 {
		s["mtu"] = o.MTU
	}
	host := o.Host
	if host == "" {
		host = "127.0.0.1"
	}
	addr := fmt.Sprintf("%s:%d", host, port)
	if o.TCP {
		l := map[string]any{"network": "tcp", "address": addr}
		if o.DisableWait {
			l["disableInitialPayloadWait"] = true
		}
		if o.WaitTimeout != "" {
			l["initialPayloadWaitTimeout"] = o.WaitTimeout
		}
		for k, v := range o.TCPExtra {
			l[k] = v
		}
		s["tcpListeners"] = []any{l}
	}
	if o.UDP {
		l := map[string]any{"network": "udp", "address": addr}
		if o.BatchMode != "" {
			l["batchMode"] = o.BatchMode
		}
		if o.NATTimeout != "" {
			l["natTimeout"] = o.NATTimeout
		}
		if o.SendChanCap != 0 {
			l["sendChannelCapacity"] = o.SendChanCap
		}
		for k, v := range o.UDPExtra {
			l[k] = v
		}
		s["udpListeners"] = []any{l}
	}
	switch proto {
	case "ss128", "ss256":
		s["protocol"] = method(proto)
		s["psk"] = b64(ServerKey(name, proto))
	case "ssmulti":
		s["protocol"] = method(proto)
		s["psk"] = b64(ServerKey(name, proto))
		path := filepath.Join(t.Dir, name+"-upsks.json")
		users := map[string][]byte{}
		for i := 0; i < 3; i++ {
			users[fmt.Sprintf("user%d", i)] = UserKey(name, i)
		}
		b, _ := json.MarshalIndent(users, "", "    ")
		os.MkdirAll(t.Dir, 0o755)
		os.WriteFile(path, append(b, '\n'), 0o644)
		s["uPSKStorePath"] = path
	case "socks5":
		s["protocol"] = "socks5"
	case "socks5auth":
		s["protocol"] = "socks5"
		s["socks5"] = map[string]any{"users": []any{map[string]any{"username": "su", "password": "sp"}}, "enableUserPassAuth": true}
	case "none":
		s["protocol"] = "none"
	case "http":
		s["protocol"] = "http"
	case "httpauth":
		s["protocol"] = "http"
		s["http"] = map[string]any{"users": []any{map[string]any{"username": "hu", "password": "hp"}}, "enableBasicAuth": true}
	case "httptls": // HTTPS proxy: the configuration needs t.Certs()
		s["protocol"] = "http"
		s["http"] = map[string]any{"certList": "tls-list", "enableTLS": true}
	case "httpmtls": // HTTPS proxy that requires a client certificate
		s["protocol"] = "http"
		s["http"] = map[string]any{"certList": "tls-list", "clientCAs": "tls-ca", "enableTLS": true, "requireAndVerifyClientCert": true}
	default:
		panic("unknown proto " + proto)
	}
	for k, v := range o.Extra {
		s[k] = v
	}
	return s
}

// ClientFor returns the JSON object of a client that speaks proto to the server srv at 127.0.0.1:port.
// user selects the multi-user identity.
func (t *Topo) ClientFor(name, srv, proto string, port int, user int, tcp, udp bool) map[string]any {
	c := map[string]any{"name": name, "endpoint": fmt.Sprintf("127.0.0.1:%d", port), "mtu": 1500}
	if tcp {
		c["enableTCP"] = true
	}
	if udp {
		c["enableUDP"] = true
	}
	switch proto {
	case "ss128", "ss256":
		c["protocol"] = method(proto)
		c["psk"] = b64(ServerKey(srv, proto))
	case "ssmulti":
		c["protocol"] = method(proto)
		c["psk"] = b64(UserKey(srv, user))
		c["iPSKs"] = []any{b64(ServerKey(srv, proto))}
	case "socks5":
		c["protocol"] = "socks5"
	case "socks5auth":
		c["protocol"] = "socks5"
		c["socks5"] = map[string]any{"username": "su", "password": "sp", "enableUserPassAuth": true}
	case "none":
		c["protocol"] = "none"
	case "http":
		c["protocol"] = "http"
		delete(c, "enableUDP")
	case "httpauth":
		c["protocol"] = "http"
		c["http"] = map[string]any{"username": "hu", "password": "hp", "useBasicAuth": true}
		delete(c, "enableUDP")
	case "httptls":
		c["protocol"] = "http"
		c["http"] = map[string]any{"useTLS": true, "serverName": TLSServerName, "rootCAs": "tls-ca"}
		delete(c, "enableUDP")
	case "httpmtls":
		c["protocol"] = "http"
		c["http"] = map[string]any{"useTLS": true, "serverName": TLSServerName, "rootCAs": "tls-ca", "certList": "tls-list"}
		delete(c, "enableUDP")
	default:
		panic("unknown proto " + proto)
	}
	return c
}

// Direct returns a direct client.
func Direct(name string) map[string]any {
	return map[string]any{"name": name, "protocol": "direct", "enableTCP": true, "enableUDP": true, "mtu": 1500}
}

// JSON marshals v.
func JSON(v any) []byte {
	b, err := json.MarshalIndent(v, "", " ")
	if err != nil {
		panic(err)
	}
	return b
}
