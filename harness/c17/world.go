package c17

import (
	"context"
	"fmt"
	"net/netip"
	"runtime/debug"
	"slices"
	"strings"
	"time"

	"github.com/database64128/shadowsocks-go/dns"
	"github.com/database64128/shadowsocks-go/netio"
	"github.com/database64128/shadowsocks-go/zerocopy"
	"go.uber.org/zap"
	"go.uber.org/zap/zapcore"
	"go.uber.org/zap/zaptest/observer"

	"verif/core"
	"verif/svx"
	"verif/vtime"
)

const (
	stepVirtual = 2 * time.Second  // the resolver's resend cadence: every timer of a lookup falls on a multiple of it
	maxVirtual  = 70 * time.Second // 20 s UDP + 20 s TCP and a generous margin
)

// world is one harness upstream plus the repo's own direct clients.
type world struct {
	e      *core.Env
	up     *upstream
	client *svx.Client
	logs   *observer.ObservedLogs
	logger *zap.Logger
	al     *addrAlloc
	dead   bool
}

func newWorld(e *core.Env) (*world, error) {
	up, err := newUpstream()
	if err != nil {
		return nil, err
	}
	cl, err := svx.NewClient(svx.JSON(svx.Direct("direct")))
	if err != nil {
		up.close()
		return nil, err
	}
	zc, logs := observer.New(zapcore.WarnLevel)
	return &world{e: e, up: up, client: cl, logs: logs, logger: zap.New(zc), al: &addrAlloc{owner: map[netip.Addr]string{}}}, nil
}

// newResolver builds the real resolver through its public configuration: plain type, UDP and TCP through the repo's
// direct clients, upstream = the harness server.
func (w *world) newResolver(cacheSize int) (*dns.Resolver, error) {
	rc := dns.ResolverConfig{Name: "c17", Type: "plain", AddrPort: w.up.addr, TCPClientName: "direct", UDPClientName: "direct", CacheSize: cacheSize}
	sr, err := rc.NewSimpleResolver(map[string]netio.StreamClient{"direct": w.client.TCP}, map[string]zerocopy.UDPClient{"direct": w.client.UDP}, w.logger)
	if err != nil {
		return nil, err
	}
	r, ok := sr.(*dns.Resolver)
	if !ok {
		return nil, fmt.Errorf("NewSimpleResolver returned %T", sr)
	}
	return r, nil
}

// outcome is what one call returned.
type outcome struct {
	API     string       `json:"api"`
	A       []netip.Addr `json:"a"`
	AAAA    []netip.Addr `json:"aaaa"`
	Err     error        `json:"-"`
	ErrText string       `json:"err,omitempty"`
	Start   time.Time    `json:"-"`
	End     time.Time    `json:"-"`
	Took    string       `json:"took_virtual"`
	Hung    bool         `json:"hung,omitempty"`
	Panic   string       `json:"panic,omitempty"`
	Stack   string       `json:"-"`
	Quiet   bool         `json:"-"`
	rec     *lookupRec
}

// settle waits in REAL time (the virtual clock stands still) until the call is done or nothing has moved at the
// upstream for a moment. Returning too early is harmless: the virtual clock only moves once every goroutine is idle.
func (w *world) settle(isDone func() bool) bool {
	last, idle := w.up.activity.Load(), 0
	for idle < 4 {
		if isDone() {
			return true
		}
		vtime.RealSleep(120 * time.Microsecond)
		if a := w.up.activity.Load(); a != last {
			last, idle = a, 0
		} else {
			idle++
		}
	}
	return isDone()
}

// call runs one resolver API call in its own goroutine while this goroutine lets virtual time pass in steps of the
// resend cadence whenever the call is waiting for a timer.
func (w *world) call(res *dns.Resolver, api, name string, sc *script) *outcome {
	w.logs.TakeAll()
	rec := w.up.begin(name, sc)
	out := &outcome{API: api, Start: vtime.Now(), rec: rec}
	done := make(chan struct{})
	ctx, cancel := context.WithCancel(context.Background())
	defer cancel()
	go func() {
		defer close(done)
		defer func() {
			if p := recover(); p != nil {
				out.Panic, out.Stack = fmt.Sprint(p), string(debug.Stack())
				out.End = vtime.Now()
			}
		}()
		switch api {
		case "Lookup":
			r, err := res.Lookup(ctx, name)
			out.End = vtime.Now()
			out.Err = err
			out.A, out.AAAA = slices.Collect(r.A()), slices.Collect(r.AAAA())
		case "LookupIPs":
			ips, err := res.LookupIPs(ctx, name)
			out.End = vtime.Now()
			out.Err = err
			for _, ip := range ips {
				if ip.Is4() {
					out.A = append(out.A, ip)
				} else {
					out.AAAA = append(out.AAAA, ip)
				}
			}
		case "LookupIP":
			ip, err := res.LookupIP(ctx, name)
			out.End = vtime.Now()
			out.Err = err
			if err == nil {
				if ip.Is4() {
					out.A = []netip.Addr{ip}
				} else {
					out.AAAA = []netip.Addr{ip}
				}
			}
		}
	}()
	isDone := func() bool {
		select {
		case <-done:
			return true
		default:
			return false
		}
	}
	virt, waits := time.Duration(0), 0
	for !w.settle(isDone) {
		if virt >= maxVirtual {
			out.Hung = true
			break
		}
		now := vtime.Now()
		d, started := rec.nextWake(now)
		if !started && waits < 400 {
			// nothing has reached the upstream yet: the call is still on its way (real time), no timer is involved
			waits++
			continue
		}
		// Never let the clock move while the resolver is about to do, or is in the middle of, network I/O that needs
		// the upstream: with every goroutine parked in the poller the runtime would jump straight to the next timeout.
		if what, nconn := rec.expect(now); what != "" && waits < 400 {
			a0 := w.up.activity.Load()
			if svx.Poll(400*time.Millisecond, func() bool {
				if isDone() {
					return true
				}
				_, n := rec.expect(now)
				return n > nconn || w.up.activity.Load() != a0
			}) {
				waits++
				continue
			}
			w.e.Rec.Count("driver_expected_event_missing:"+what, 1)
		}
		if !netQuiet(w.up.addr.Port()) && waits < 400 {
			svx.Poll(400*time.Millisecond, func() bool { return isDone() || netQuiet(w.up.addr.Port()) })
			waits++
			continue
		}
		a0 := w.up.activity.Load()
		vtime.Advance(d)
		virt += d
		// every timer of a lookup produces something observable (a resend arrives, a TCP connection is made, the call
		// returns): wait for it before judging the situation again
		svx.Poll(400*time.Millisecond, func() bool { return isDone() || w.up.activity.Load() != a0 })
	}
	if out.Hung {
		// let the call go: cancel, give it plenty of virtual time; a goroutine that still does not return makes the world unusable
		cancel()
		for k := 0; k < 20 && !w.settle(isDone); k++ {
			vtime.Advance(stepVirtual)
		}
		if !isDone() {
			w.dead = true
			out.End = vtime.Now()
			out.Took = out.End.Sub(out.Start).String()
			return out
		}
	}
	out.Quiet = w.up.end()
	if out.Err != nil {
		out.ErrText = out.Err.Error()
	}
	out.Took = out.End.Sub(out.Start).String()
	return out
}

// logLines renders the resolver's warnings of the last call.
func (w *world) logLines(max int) []string {
	var out []string
	all := w.logs.All()
	if len(all) > max {
		all = all[len(all)-max:]
	}
	for _, e := range all {
		var sb strings.Builder
		sb.WriteString(e.Level.String() + " " + e.Message)
		for _, f := range e.Context {
			switch f.Type {
			case zapcore.StringType:
				fmt.Fprintf(&sb, " %s=%s", f.Key, f.String)
			case zapcore.ErrorType:
				fmt.Fprintf(&sb, " %s=%v", f.Key, f.Interface)
			case zapcore.StringerType:
				fmt.Fprintf(&sb, " %s=%v", f.Key, f.Interface)
			}
		}
		out = append(out, sb.String())
	}
	return out
}

func (w *world) close() { w.up.close() }
