package c17

import (
	"fmt"
	"sort"
	"strings"
	"time"

	"verif/core"
	"verif/vtime"
)

// ---------------------------------------------------------------------------------------------------------------
// part history: lookups of 1..4 names on ONE resolver with cache capacity 1..4 / unbounded, at virtual times that
// straddle each lifetime, with upstream failing and recovering
// ---------------------------------------------------------------------------------------------------------------

func runHistory(e *core.Env) {
	rec := e.Rec
	rec.Rule("history: one case = 10..18 lookups of 1..4 names on one real resolver (cache capacity 1..4 or unbounded) at virtual times chosen around the end of each cached lifetime (offsets -1 s, -500 ms, -1 ms, 0, +1 ms, +500 ms, +1 s, +5 s), around the negative TTL and the 30 s failure time; per lookup the upstream is healthy (TTLs 1..90 s, CNAME TTL below the address TTL), negative (NXDOMAIN/NODATA+SOA), failing with an rcode, mixed (one family answered, one failed: F15), answering over TCP only, or down (fast: unusable datagram + TCP reset; slow: silence for 20 s + 20 s); a reference LRU model with [earliest, latest] expiry per entry decides per lookup: must be served from the cache without asking, must ask upstream, or don't-care; after a failed refresh the stale entry must be served; class = (capacity, what the lookup was relative to the model, offset, upstream behaviour)")
	if !needFaketime(e) {
		return
	}
	n := e.N(140, 5000)
	var w *world
	defer func() {
		if w != nil {
			w.close()
		}
	}()
	core.Parallel(e, "history", n, 1, func(i int) {
		if !worldFor(e, &w) {
			return
		}
		rec.Begin("history", i, "")
		runConfirmed(e, func(b *recBuf) {
			if worldFor(e, &w) {
				historyCase(e, b, w, i, core.NewRNG(e.Seed, "c17.history", i))
			}
		})
		rec.Eval()
	})
}

var straddle = []time.Duration{-time.Second, -500 * time.Millisecond, -time.Millisecond, 0, time.Millisecond, 500 * time.Millisecond, time.Second, 5 * time.Second}
var idleGaps = []time.Duration{0, 0, time.Second, 3 * time.Second, 10 * time.Second, 29500 * time.Millisecond, 30500 * time.Millisecond, 61 * time.Second}

type histOp struct {
	I        int      `json:"i"`
	Name     string   `json:"name"`
	At       string   `json:"at"`
	Upstream string   `json:"upstream"`
	Expect   string   `json:"expect"`
	Asked    int      `json:"asked"`
	Result   string   `json:"result"`
	Model    []string `json:"model_lru_after"`
	Lifetime string   `json:"lifetime,omitempty"`
}

func historyCase(e *core.Env, rec *recBuf, w *world, ci int, r *core.RNG) {
	capacity := r.Pick(1, 2, 2, 3, 4, -1)
	nNames := r.Range(1, 4)
	if capacity > 0 && r.Chance(1, 2) {
		nNames = min(4, capacity+1) // one name more than fits: every new name evicts
	}
	res, err := w.newResolver(capacity)
	if err != nil {
		rec.Inconclusive("resolver: " + err.Error())
		return
	}
	names := make([]string, nNames)
	for k := range names {
		names[k] = fmt.Sprintf("h%d-n%d-s%d%s.c17.test", ci, k, e.Seed, rec.suffix())
	}
	model := &lruModel{cap: capacity}
	evicted := map[string]*entry{}
	t0 := vtime.Now()
	var trace []histOp
	c := &caseCtx{w: w, e: e, b: rec, sub: "history", ci: ci, desc: map[string]any{"capacity": capacity, "names": names}}
	c.desc["history"] = &trace
	feats := map[string]bool{}
	nOps := r.Range(10, 18)
	lastStale := ""
	for op := 0; op < nOps; op++ {
		name := names[r.Intn(nNames)]
		if lastStale != "" && r.Chance(2, 3) {
			name = lastStale // upstream recovers (or not) for the name that was just served stale
		}
		lastStale = ""
		// --- when ---
		en := model.find(name)
		var dt time.Duration
		offTxt := "idle"
		if en != nil && !en.lt.noLower && r.Chance(3, 4) {
			edge, off := en.lt.lo, straddle[r.Intn(len(straddle))]
			if off > 0 {
				edge = en.lt.hi
			}
			dt = edge.Add(off).Sub(vtime.Now())
			offTxt = off.String()
			if dt > 150*time.Second {
				dt, offTxt = idleGaps[r.Intn(len(idleGaps))], "idle"
			}
		} else {
			dt = idleGaps[r.Intn(len(idleGaps))]
		}
		if dt > 0 {
			vtime.Advance(dt)
		}
		// --- what upstream will do if asked ---
		g := &gen{r: r, al: w.al, name: name, tag: fmt.Sprintf("history%d/op%d", ci, op), modest: true}
		var sc *script
		var upTxt string
		switch x := r.Intn(100); {
		case x < 40:
			sc, upTxt = g.healthy(r.Chance(1, 3)), "healthy"
		case x < 48:
			sc, upTxt = g.viaTCP(), "tcp-only"
		case x < 56:
			k := r.PickStr("nx_soa", "nodata_soa")
			sc, upTxt = g.bothKinds(k, k), "negative"
			// one zone, one SOA: same negative TTL for both answers (different ones are an F15-like don't-care)
			if r.Chance(3, 4) {
				sc = sameSOA(g, k)
			}
		case x < 64:
			sc, upTxt = g.bothKinds(r.PickStr("servfail", "refused", "formerr", "notimp"), r.PickStr("servfail", "refused")), "failure-rcode"
		case x < 72:
			if r.Bool() {
				sc = g.bothKinds(r.PickStr("valid", "cname"), r.PickStr("servfail", "refused", "nx_soa"))
			} else {
				sc = g.bothKinds(r.PickStr("servfail", "notimp", "nx_soa", "nx"), "valid")
			}
			upTxt = "mixed"
		case x < 95:
			sc, upTxt = g.downFast(), "down"
		default:
			sc, upTxt = g.downSlow(), "down-slow"
		}
		// --- the lookup ---
		out := w.call(res, "Lookup", name, sc)
		if w.dead {
			c.viol("lookup_did_not_return", out, "Lookup(%s) never returned", name)
			return
		}
		if !out.Quiet {
			rec.Inconclusive("upstream not quiet after the call")
			return
		}
		t := out.Start
		asked := out.rec.asked()
		ho := histOp{I: op, Name: name, At: t.Sub(t0).String(), Upstream: upTxt, Asked: asked}
		if out.Err != nil {
			ho.Result = "error: " + out.Err.Error()
		} else {
			ho.Result = addrList(out.A) + " " + addrList(out.AAAA)
		}
		// --- what the model demands ---
		expect := "miss"
		switch {
		case en == nil:
			expect = "miss"
		case !en.lt.noLower && t.Before(en.lt.lo):
			expect = "hit"
		case t.After(en.lt.hi):
			expect = "expired"
		default:
			expect = "dontcare"
			rec.Count("dont_care_expiry_checks", 1)
		}
		ho.Expect = expect
		if en != nil {
			ho.Lifetime = fmt.Sprintf("[%v, %v] nolower=%v", en.lt.lo.Sub(t0), en.lt.hi.Sub(t0), en.lt.noLower)
		}
		trace = append(trace, ho)
		tr := &trace[len(trace)-1]
		if out.Panic != "" || out.Hung {
			c.checkAsked(name, out, en)
			return
		}
		switch {
		case expect == "miss" && asked == 0:
			if evicted[name] != nil {
				c.viol("evicted_entry_served", out, "capacity %d: %s was the least recently used entry when a new name was stored, yet Lookup(%s) was answered (%s) without asking upstream", capacity, name, name, ho.Result)
			} else {
				c.viol("answer_without_asking", out, "Lookup(%s) was answered (%s) without asking upstream although nothing can be cached for it", name, ho.Result)
			}
			return
		case expect == "hit" && asked != 0:
			c.viol("cache_not_used_before_expiry", out, "Lookup(%s) at %v asked upstream again although the cached result (stored at %v) cannot expire before %v (capacity %d, model LRU order %v)",
				name, t.Sub(t0), en.stored.Sub(t0), en.lt.lo.Sub(t0), capacity, model.names())
			return
		case expect == "expired" && asked == 0:
			kind, extra := en.lt.expiredKind()
			c.viol(kind, out, "Lookup(%s) at %v was served from the cache (%s) without asking upstream although the cached lifetime ended at %v at the latest%s",
				name, t.Sub(t0), ho.Result, en.lt.hi.Sub(t0), extra)
			return
		}
		if asked == 0 {
			// served from the cache: exactly the stored result
			if out.Err != nil || !sameAddrs(out.A, en.a) || !sameAddrs(out.AAAA, en.aaaa) {
				c.viol("cached_result_changed", out, "Lookup(%s) served from the cache returned %s, stored was %s %s", name, ho.Result, addrList(en.a), addrList(en.aaaa))
				return
			}
			model.touch(en)
			feats["hit"] = true
			rec.Class("cap=%d %s off=%s", capacity, expect, offTxt)
			tr.Model = model.names()
			continue
		}
		if old := evicted[name]; en == nil && old != nil && out.Err == nil && len(old.a)+len(old.aaaa) > 0 && sameAddrs(out.A, old.a) && sameAddrs(out.AAAA, old.aaaa) {
			c.viol("evicted_entry_served", out, "capacity %d: the entry of %s was the least recently used one when a new name was stored (model LRU order now %v), yet Lookup(%s) returned exactly that old result %s", capacity, name, model.names(), name, ho.Result)
			return
		}
		f := c.checkAsked(name, out, en)
		if !f.ok {
			return
		}
		what := "first"
		if en != nil {
			what = "refresh"
		}
		switch {
		case f.entry != nil:
			if ev := model.store(f.entry); ev != nil {
				evicted[ev.name] = ev
				feats["evict"] = true
				what += "+evict"
			}
			delete(evicted, name)
			if f.entry.lt.dontCare {
				rec.Count("dont_care_lifetimes", 1)
			}
		case f.stale:
			model.touch(en)
			feats["stale"] = true
			what = "stale"
			lastStale = name
			rec.Count("stale_served", 1)
		default:
			what += "+fail"
		}
		if en != nil && f.entry != nil && strings.HasPrefix(upTxt, "healthy") && feats["stale"] {
			feats["recover"] = true
		}
		rec.Class("cap=%d %s/%s off=%s up=%s", capacity, expect, what, offTxt, upTxt)
		tr.Model = model.names()
	}
	var fl []string
	for k := range feats {
		fl = append(fl, k)
	}
	sort.Strings(fl)
	rec.Count("history_lookups", int64(len(trace)))
	rec.Sample(4, map[string]any{"capacity": capacity, "names": nNames, "features": fl, "history": trace})
}

// sameSOA: both negative answers carry the same SOA TTL.
func sameSOA(g *gen, kind string) *script {
	for try := 0; try < 50; try++ {
		sc := g.bothKinds(kind, kind)
		if sc.UDP[0][0].Main.R.Cand == sc.UDP[1][0].Main.R.Cand {
			return sc
		}
	}
	return g.bothKinds(kind, kind)
}
