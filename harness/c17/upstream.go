package c17

import (
	"bytes"
	"encoding/binary"
	"fmt"
	"io"
	"net"
	"net/netip"
	"runtime"
	"strconv"
	"strings"
	"sync"
	"sync/atomic"
	"syscall"
	"time"
	"unsafe"

	"golang.org/x/net/dns/dnsmessage"

	"verif/svx"
	"verif/vtime"
)

// udpStep is what the upstream does when the k-th query datagram of one family arrives: datagrams are sent in the
// order Pre, Main, Post. Pre/Post hold decoys (kinds otherip / otherport / wrongid ...) or extra messages.
type udpStep struct {
	Pre  []*item `json:"pre,omitempty"`
	Main *item   `json:"main,omitempty"` // nil = silence
	Post []*item `json:"post,omitempty"`
}

// item is one message plus the socket it is sent from.
type item struct {
	Src string `json:"src"` // server | otherip | otherport
	R   *resp  `json:"resp"`
	// TCP only: Cut >= 0 writes only the first Cut bytes of (length prefix + message) and then closes.
	Cut int `json:"cut"`
}

// connScript is what the upstream does with the k-th TCP connection of a lookup after it has read the queries.
type connScript struct {
	// Reset: close with RST at once, without reading.
	Reset bool `json:"reset,omitempty"`
	// First is the family answered first (4 or 6); Items[0] answers A, Items[1] answers AAAA (nil = no answer).
	First int      `json:"first"`
	Items [2]*item `json:"items"`
	// Term: "close" (orderly close behind the items) or "hang" (say nothing more, keep the connection open).
	Term  string `json:"term"`
	Split bool   `json:"split,omitempty"` // write length prefix and message in separate segments
}

// script is the upstream's behaviour for one lookup.
type script struct {
	// UDP[0] / UDP[1]: steps for the successive arrivals of the A / AAAA query; arrivals beyond the list meet silence.
	UDP [2][]udpStep `json:"udp"`
	// First is the family answered first when both initial queries are in (4 or 6).
	First int          `json:"first"`
	TCP   []connScript `json:"tcp"`
}

// sentRec is one message that left the harness towards the resolver.
type sentRec struct {
	Seq      int       `json:"seq"`
	Tr       string    `json:"tr"`
	Conn     int       `json:"conn"`
	Src      string    `json:"src"`
	R        *resp     `json:"resp"`
	At       time.Time `json:"-"`
	AtRel    string    `json:"at"`
	Complete bool      `json:"complete"`
}

// lookupRec is everything the upstream saw and did during one lookup.
type lookupRec struct {
	mu         sync.Mutex
	name       string
	sc         *script
	t0         time.Time
	port       uint16
	arrivals   [2]int
	udpQueries int
	tcpConns   int
	tcpStart   time.Time
	tcpClosed  int // handlers that have returned
	tcpHanging int // handlers that keep a connection open and silent although an asked query is still unanswered
	tcpAsked   [2]bool
	tcpQueries int
	log        []*sentRec
	badQuery   []string
	events     []string
}

func (l *lookupRec) asked() int { return l.udpQueries + l.tcpConns }

type upstream struct {
	udp      *net.UDPConn
	tcp      *net.TCPListener
	oip      *net.UDPConn // 127.0.0.2, same port as the server
	oport    *net.UDPConn // 127.0.0.1, another port
	probe    *net.UDPConn // receives the harness's own flush markers
	probeAP  netip.AddrPort
	addr     netip.AddrPort
	mu       sync.Mutex
	cur      *lookupRec
	activity atomic.Int64
	busy     atomic.Int32
	stray    atomic.Int64
	closed   atomic.Bool
}

func newUpstream() (*upstream, error) {
	for try := 0; try < 20; try++ {
		p := svx.FreePorts(2)
		u := &upstream{}
		var err error
		if u.udp, err = net.ListenUDP("udp4", &net.UDPAddr{IP: net.IPv4(127, 0, 0, 1), Port: p[0]}); err != nil {
			continue
		}
		if u.tcp, err = net.ListenTCP("tcp4", &net.TCPAddr{IP: net.IPv4(127, 0, 0, 1), Port: p[0]}); err != nil {
			u.udp.Close()
			continue
		}
		if u.oip, err = net.ListenUDP("udp4", &net.UDPAddr{IP: net.IPv4(127, 0, 0, 2), Port: p[0]}); err != nil {
			u.udp.Close()
			u.tcp.Close()
			continue
		}
		if u.oport, err = net.ListenUDP("udp4", &net.UDPAddr{IP: net.IPv4(127, 0, 0, 1), Port: p[1]}); err != nil {
			u.udp.Close()
			u.tcp.Close()
			u.oip.Close()
			continue
		}
		if u.probe, err = net.ListenUDP("udp4", &net.UDPAddr{IP: net.IPv4(127, 0, 0, 1)}); err != nil {
			u.udp.Close()
			u.tcp.Close()
			u.oip.Close()
			u.oport.Close()
			continue
		}
		u.probeAP = u.probe.LocalAddr().(*net.UDPAddr).AddrPort()
		u.addr = netip.AddrPortFrom(netip.AddrFrom4([4]byte{127, 0, 0, 1}), uint16(p[0]))
		go u.udpLoop()
		go u.tcpLoop()
		return u, nil
	}
	return nil, fmt.Errorf("no free port pair for the harness upstream")
}

func (u *upstream) close() {
	u.closed.Store(true)
	u.udp.Close()
	u.tcp.Close()
	u.oip.Close()
	u.oport.Close()
	u.probe.Close()
}

// recvNow takes one datagram out of c without ever blocking or parking the goroutine.
func recvNow(c *net.UDPConn) bool {
	rc, err := c.SyscallConn()
	if err != nil {
		return false
	}
	n := -1
	rc.Read(func(fd uintptr) bool {
		var b [16]byte
		n, _, _ = syscall.Recvfrom(int(fd), b[:], syscall.MSG_DONTWAIT)
		return true
	})
	return n >= 0
}

// flushLoopback makes sure that the datagram just sent from src has gone through the kernel's receive path: loopback
// delivery is normally complete when sendto returns, but under load it can be deferred (per-CPU backlog, ksoftirqd).
// A marker datagram sent right behind it from the same thread queues behind it; once the marker has arrived at the
// harness's own probe socket, the datagram before it has been delivered as well. Without this, the virtual clock
// could jump (all goroutines idle) while an answer is still on its way, and the answer would look "unanswered".
func (u *upstream) flushLoopback(src *net.UDPConn) {
	for recvNow(u.probe) {
	}
	if _, err := src.WriteToUDPAddrPort([]byte{0x17}, u.probeAP); err != nil {
		return
	}
	svx.Poll(100*time.Millisecond, func() bool { return recvNow(u.probe) })
}

// waitAcked waits until everything written to c has been taken over by the peer's TCP (send queue empty), i.e. the
// bytes are readable at the resolver's end.
func waitAcked(c *net.TCPConn) {
	rc, err := c.SyscallConn()
	if err != nil {
		return
	}
	svx.Poll(200*time.Millisecond, func() bool {
		pending := 0
		rc.Control(func(fd uintptr) {
			v := int32(0)
			if _, _, e := syscall.Syscall(syscall.SYS_IOCTL, fd, syscall.TIOCOUTQ, uintptr(unsafe.Pointer(&v))); e == 0 {
				pending = int(v)
			}
		})
		return pending == 0
	})
}

// begin installs the script of the next lookup.
func (u *upstream) begin(name string, sc *script) *lookupRec {
	l := &lookupRec{name: name, sc: sc, t0: vtime.Now()}
	u.mu.Lock()
	u.cur = l
	u.mu.Unlock()
	return l
}

// end waits until nothing is in flight any more and detaches the record.
func (u *upstream) end() (quiet bool) {
	quiet = svx.Poll(2*time.Second, func() bool {
		if u.busy.Load() != 0 {
			return false
		}
		q, _ := rxQueue(false, u.addr.Port(), "0100007F")
		return q == 0 && u.busy.Load() == 0
	})
	u.mu.Lock()
	u.cur = nil
	u.mu.Unlock()
	return quiet
}

func (l *lookupRec) add(rec *sentRec) {
	l.mu.Lock()
	rec.Seq = len(l.log)
	rec.AtRel = rec.At.Sub(l.t0).String()
	l.log = append(l.log, rec)
	l.mu.Unlock()
}

const (
	resendEvery   = 2 * time.Second
	transportTime = 20 * time.Second
)

// nextWake tells the driver how much virtual time can pass before the upstream has to do anything again: up to the
// next resend that meets a non-silent step, up to the end of the UDP exchange (20 s), or - once TCP is in use - up to
// the end of the TCP exchange. started is false while no query has arrived at all.
func (l *lookupRec) nextWake(now time.Time) (d time.Duration, started bool) {
	l.mu.Lock()
	defer l.mu.Unlock()
	if l.tcpConns > 0 {
		if d = l.tcpStart.Add(transportTime).Sub(now); d <= 0 {
			d = resendEvery
		}
		return d, true
	}
	if l.udpQueries == 0 {
		return resendEvery, false
	}
	quiet := 1 << 20
	for fi := 0; fi < 2; fi++ {
		n := 0
		for k := l.arrivals[fi]; ; k++ {
			if k >= len(l.sc.UDP[fi]) {
				n = 1 << 20
				break
			}
			st := l.sc.UDP[fi][k]
			if st.Main != nil || len(st.Pre) > 0 || len(st.Post) > 0 {
				break
			}
			n++
		}
		quiet = min(quiet, n)
	}
	d = time.Duration(min(quiet+1, 10)) * resendEvery
	if end := l.t0.Add(transportTime).Sub(now); end > 0 && end < d {
		d = end
	}
	return d, true
}

// expect names the observable event that must follow WITHOUT any virtual time passing, if the resolver does what
// the statement says; the driver waits for it (bounded, real time) before it lets the clock move. It is only a
// waiting hint: a resolver that does not deliver the event is judged by the oracle, not here.
//
//	"tcp":  UDP is over (unusable / truncated datagram from the server, or its 20 s are up) and no TCP connection yet
//	"done": both queries have an acceptable UDP answer
//	"next": TCP is in use and no connection is being kept open silently with a query unanswered: the call ends or
//	        connects again (or the upstream is still busy writing)
func (l *lookupRec) expect(now time.Time) (what string, tcpConns int) {
	l.mu.Lock()
	defer l.mu.Unlock()
	if l.tcpConns > 0 {
		if l.tcpHanging > 0 {
			return "", l.tcpConns // the resolver can only wait for its timeout
		}
		return "next", l.tcpConns
	}
	var acc [2]bool
	for _, s := range l.log {
		if s.Tr != "udp" || s.Src != "server" {
			continue
		}
		if s.R.Fuzz {
			return "", 0 // mutated bytes: unknown whether the resolver can use them
		}
		if !acceptable(s) {
			return "tcp", 0
		}
		acc[famIdx(s.R.FamID)] = true
	}
	if acc[0] && acc[1] {
		return "done", 0
	}
	if l.udpQueries > 0 && !now.Before(l.t0.Add(transportTime)) {
		return "tcp", 0
	}
	return "", 0
}

// netQuiet reports that no TCP handshake and no unread / unacknowledged TCP data involving the upstream's port is
// under way (from /proc/net/tcp): the precondition for letting virtual time pass.
func netQuiet(port uint16) bool {
	bp := procBuf.Get().(*[]byte)
	defer procBuf.Put(bp)
	fd, err := syscall.Open("/proc/net/tcp", syscall.O_RDONLY, 0)
	if err != nil {
		return true
	}
	n := 0
	for n < len(*bp) {
		k, err := syscall.Read(fd, (*bp)[n:])
		if k <= 0 || err != nil {
			break
		}
		n += k
	}
	syscall.Close(fd)
	var suffix [5]byte
	suffix[0] = ':'
	const hexd = "0123456789ABCDEF"
	suffix[1], suffix[2], suffix[3], suffix[4] = hexd[port>>12], hexd[port>>8&15], hexd[port>>4&15], hexd[port&15]
	data := (*bp)[:n]
	var farr [8][]byte
	for len(data) > 0 {
		var ln []byte
		if i := bytes.IndexByte(data, '\n'); i >= 0 {
			ln, data = data[:i], data[i+1:]
		} else {
			ln, data = data, nil
		}
		f := fieldsN(ln, 5, &farr)
		if len(f) < 5 || !(bytes.HasSuffix(f[1], suffix[:]) || bytes.HasSuffix(f[2], suffix[:])) {
			continue
		}
		switch string(f[3]) {
		case "02", "03": // SYN_SENT, SYN_RECV
			return false
		case "01", "0A": // ESTABLISHED, LISTEN (rx_queue = connections waiting to be accepted)
			if string(f[4]) != "00000000:00000000" {
				return false
			}
		}
	}
	return true
}

func (l *lookupRec) ev(format string, a ...any) {
	l.mu.Lock()
	defer l.mu.Unlock()
	if len(l.events) < 200 {
		l.events = append(l.events, fmt.Sprintf("+%v ", vtime.Now().Sub(l.t0))+fmt.Sprintf(format, a...))
	}
}

// ---- /proc/net/udp: how many bytes wait unread in a socket's receive queue ----

// rxQueue returns the receive-queue length of the UDP socket bound to port (and, when given, to the hex address).
// found is false when no such socket exists (any more).
func rxQueue(v6 bool, port uint16, hexAddr string) (q int, found bool) {
	file := "/proc/net/udp"
	if v6 {
		file = "/proc/net/udp6"
	}
	bp := procBuf.Get().(*[]byte)
	defer procBuf.Put(bp)
	fd, err := syscall.Open(file, syscall.O_RDONLY, 0)
	if err != nil {
		return 0, false
	}
	n := 0
	for n < len(*bp) {
		k, err := syscall.Read(fd, (*bp)[n:])
		if k <= 0 || err != nil {
			break
		}
		n += k
	}
	syscall.Close(fd)
	var suffix [5]byte
	suffix[0] = ':'
	const hexd = "0123456789ABCDEF"
	suffix[1], suffix[2], suffix[3], suffix[4] = hexd[port>>12], hexd[port>>8&15], hexd[port>>4&15], hexd[port&15]
	data := (*bp)[:n]
	var farr [8][]byte
	for len(data) > 0 {
		var ln []byte
		if i := bytes.IndexByte(data, '\n'); i >= 0 {
			ln, data = data[:i], data[i+1:]
		} else {
			ln, data = data, nil
		}
		// fields: sl local_address rem_address st tx_queue:rx_queue ...
		f := fieldsN(ln, 5, &farr)
		if len(f) < 5 || !bytes.HasSuffix(f[1], suffix[:]) {
			continue
		}
		if hexAddr != "" && !(len(f[1]) == len(hexAddr)+5 && string(f[1][:len(hexAddr)]) == hexAddr) {
			continue
		}
		if i := bytes.IndexByte(f[4], ':'); i >= 0 {
			v, _ := strconv.ParseInt(string(f[4][i+1:]), 16, 64)
			q += int(v)
			found = true
		}
	}
	return q, found
}

var procBuf = sync.Pool{New: func() any { b := make([]byte, 256<<10); return &b }}

// fieldsN returns the first n space-separated fields of ln without allocating per field.
func fieldsN(ln []byte, n int, arr *[8][]byte) [][]byte {
	out := arr[:0]
	for len(ln) > 0 && len(out) < n {
		for len(ln) > 0 && ln[0] == ' ' {
			ln = ln[1:]
		}
		i := bytes.IndexByte(ln, ' ')
		if i < 0 {
			i = len(ln)
		}
		if i > 0 {
			out = append(out, ln[:i])
		}
		ln = ln[i:]
	}
	return out
}

// waitDrained waits (real time, bounded) until the resolver has taken everything out of its socket, or closed it.
// It makes the order in which the resolver reads datagrams equal to the order in which the harness sent them.
func waitDrained(port uint16) {
	svx.Poll(30*time.Millisecond, func() bool {
		q6, f6 := rxQueue(true, port, "00000000000000000000000000000000")
		q4, f4 := rxQueue(false, port, "00000000")
		if !f6 && !f4 {
			return true
		}
		return q6+q4 == 0
	})
}

// ---- UDP ----

type udpQuery struct {
	fam  int
	from netip.AddrPort
}

func (u *upstream) udpLoop() {
	// one OS thread for all sends: the flush marker must take the same path as the datagram before it
	runtime.LockOSThread()
	buf := make([]byte, 4096)
	for {
		n, from, err := u.udp.ReadFromUDPAddrPort(buf)
		if err != nil {
			if u.closed.Load() {
				return
			}
			continue
		}
		u.busy.Add(1)
		u.activity.Add(1)
		u.mu.Lock()
		l := u.cur
		u.mu.Unlock()
		if l == nil {
			u.stray.Add(1)
			u.busy.Add(-1)
			continue
		}
		first := l.udpQueries == 0
		qs := []udpQuery{u.noteQuery(l, buf[:n], from, "udp")}
		if first {
			// both initial queries are sent at once: take the second one in before answering, so that the order of the
			// answers is the script's and not the scheduler's
			if svx.Poll(30*time.Millisecond, func() bool { q, _ := rxQueue(false, u.addr.Port(), "0100007F"); return q > 0 }) {
				if n, from, err = u.udp.ReadFromUDPAddrPort(buf); err == nil {
					qs = append(qs, u.noteQuery(l, buf[:n], from, "udp"))
				}
			}
			if len(qs) == 2 && qs[0].fam != 0 && qs[1].fam == l.sc.First {
				qs[0], qs[1] = qs[1], qs[0]
			}
		}
		for _, q := range qs {
			if q.fam != 0 {
				u.reactUDP(l, q)
			}
		}
		u.activity.Add(1)
		u.busy.Add(-1)
	}
}

// noteQuery validates a query (it must be exactly the lookup's own A or AAAA question) and returns its family.
func (u *upstream) noteQuery(l *lookupRec, b []byte, from netip.AddrPort, tr string) udpQuery {
	fam, why := checkQuery(b, l.name)
	l.mu.Lock()
	if tr == "udp" {
		l.udpQueries++
		src := netip.AddrPortFrom(from.Addr().Unmap(), from.Port())
		if l.port == 0 {
			l.port = src.Port()
		} else if l.port != src.Port() {
			why = fmt.Sprintf("query from port %d although this lookup uses port %d", src.Port(), l.port)
		}
		if src.Addr() != u.addr.Addr() {
			why = "query from " + src.String()
		}
	} else {
		l.tcpQueries++
	}
	if why != "" {
		l.badQuery = append(l.badQuery, tr+": "+why)
	}
	l.mu.Unlock()
	if why != "" {
		l.ev("%s bad query: %s", tr, why)
		return udpQuery{}
	}
	l.ev("%s query fam=%d", tr, fam)
	return udpQuery{fam: fam, from: from}
}

func checkQuery(b []byte, name string) (fam int, why string) {
	var p dnsmessage.Parser
	h, err := p.Start(b)
	if err != nil {
		return 0, "unparsable query: " + err.Error()
	}
	qs, err := p.AllQuestions()
	if err != nil || len(qs) != 1 {
		return 0, fmt.Sprintf("query with %d questions (%v)", len(qs), err)
	}
	q := qs[0]
	switch {
	case h.Response:
		return 0, "query has QR=1"
	case !h.RecursionDesired:
		return 0, "query has RD=0"
	case q.Class != dnsmessage.ClassINET:
		return 0, "query class " + q.Class.String()
	case !strings.EqualFold(q.Name.String(), name+"."):
		return 0, fmt.Sprintf("query for %q during the lookup of %q", q.Name.String(), name)
	}
	switch {
	case q.Type == dnsmessage.TypeA && h.ID == 4:
		return 4, ""
	case q.Type == dnsmessage.TypeAAAA && h.ID == 6:
		return 6, ""
	}
	return 0, fmt.Sprintf("query type %v with ID %d", q.Type, h.ID)
}

func famIdx(fam int) int {
	if fam == 6 {
		return 1
	}
	return 0
}

func (u *upstream) reactUDP(l *lookupRec, q udpQuery) {
	fi := famIdx(q.fam)
	l.mu.Lock()
	k := l.arrivals[fi]
	l.arrivals[fi]++
	l.mu.Unlock()
	if k >= len(l.sc.UDP[fi]) {
		return
	}
	st := l.sc.UDP[fi][k]
	dest := netip.AddrPortFrom(netip.AddrFrom4([4]byte{127, 0, 0, 1}), q.from.Port())
	send := func(it *item) {
		if it == nil {
			return
		}
		c := u.udp
		switch it.Src {
		case "otherip":
			c = u.oip
		case "otherport":
			c = u.oport
		}
		_, err := c.WriteToUDPAddrPort(it.R.Raw, dest)
		rec := &sentRec{Tr: "udp", Src: it.Src, R: it.R, At: vtime.Now(), Complete: err == nil}
		l.add(rec)
		l.ev("udp sent #%d %s/%s fam=%d id=%d", rec.Seq, it.Src, it.R.Kind, it.R.Fam, it.R.ID)
		u.activity.Add(1)
		u.flushLoopback(c)
		waitDrained(dest.Port())
	}
	for _, it := range st.Pre {
		send(it)
	}
	send(st.Main)
	for _, it := range st.Post {
		send(it)
	}
}

// ---- TCP ----

func (u *upstream) tcpLoop() {
	for {
		c, err := u.tcp.AcceptTCP()
		if err != nil {
			if u.closed.Load() {
				return
			}
			continue
		}
		u.busy.Add(1)
		u.activity.Add(1)
		u.mu.Lock()
		l := u.cur
		u.mu.Unlock()
		if l == nil {
			u.stray.Add(1)
			c.Close()
			u.busy.Add(-1)
			continue
		}
		l.mu.Lock()
		k := l.tcpConns
		l.tcpConns++
		if k == 0 {
			l.tcpStart = vtime.Now()
		}
		l.mu.Unlock()
		go func() {
			parked := false
			u.serveTCP(l, c, k, func() {
				// from here on the handler only waits for the resolver to close: it is not "busy" any more
				if !parked {
					parked = true
					u.activity.Add(1)
					u.busy.Add(-1)
				}
			})
			l.mu.Lock()
			l.tcpClosed++
			l.mu.Unlock()
			u.activity.Add(1)
			if !parked {
				u.busy.Add(-1)
			}
		}()
	}
}

// moreData reports whether unread bytes wait in the connection (without blocking).
func moreData(c *net.TCPConn) bool {
	rc, err := c.SyscallConn()
	if err != nil {
		return false
	}
	n := 0
	rc.Read(func(fd uintptr) bool {
		var b [1]byte
		n, _, _ = syscall.Recvfrom(int(fd), b[:], syscall.MSG_PEEK|syscall.MSG_DONTWAIT)
		return true
	})
	return n > 0
}

func (u *upstream) serveTCP(l *lookupRec, c *net.TCPConn, k int, park func()) {
	defer c.Close()
	var cs connScript
	if k < len(l.sc.TCP) {
		cs = l.sc.TCP[k]
	} else {
		cs = connScript{Term: "close"}
	}
	l.ev("tcp conn #%d accepted", k)
	if cs.Reset {
		c.SetLinger(0)
		return
	}
	// the resolver writes all its queries with one write: read the first, then whatever else is already there
	var asked []int
	lb := make([]byte, 2)
	for len(asked) < 2 {
		if len(asked) > 0 && !moreData(c) {
			break
		}
		if _, err := io.ReadFull(c, lb); err != nil {
			break
		}
		m := make([]byte, binary.BigEndian.Uint16(lb))
		if _, err := io.ReadFull(c, m); err != nil {
			break
		}
		q := u.noteQuery(l, m, netip.AddrPort{}, "tcp")
		if q.fam != 0 {
			asked = append(asked, q.fam)
			l.mu.Lock()
			l.tcpAsked[famIdx(q.fam)] = true
			l.mu.Unlock()
		}
	}
	if len(asked) == 0 {
		return
	}
	if len(asked) == 2 && asked[1] == cs.First {
		asked[0], asked[1] = asked[1], asked[0]
	}
	unanswered := len(asked)
	for _, fam := range asked {
		it := cs.Items[famIdx(fam)]
		if it == nil {
			continue
		}
		frame := make([]byte, 2, 2+len(it.R.Raw))
		binary.BigEndian.PutUint16(frame, uint16(len(it.R.Raw)))
		frame = append(frame, it.R.Raw...)
		complete := true
		if it.Cut >= 0 && it.Cut < len(frame) {
			frame, complete = frame[:it.Cut], false
		}
		var err error
		if cs.Split && len(frame) > 3 {
			if _, err = c.Write(frame[:1]); err == nil {
				vtime.RealSleep(200 * time.Microsecond)
				if _, err = c.Write(frame[1:3]); err == nil {
					vtime.RealSleep(200 * time.Microsecond)
					_, err = c.Write(frame[3:])
				}
			}
		} else if len(frame) > 0 {
			_, err = c.Write(frame)
		}
		if err == nil {
			waitAcked(c)
		}
		rec := &sentRec{Tr: "tcp", Conn: k, Src: "server", R: it.R, At: vtime.Now(), Complete: complete && err == nil}
		l.add(rec)
		if acceptable(rec) {
			unanswered--
		}
		l.ev("tcp conn #%d sent #%d %s fam=%d id=%d complete=%v", k, rec.Seq, it.R.Kind, it.R.Fam, it.R.ID, rec.Complete)
		u.activity.Add(1)
		if !complete {
			return // close inside the length prefix / inside the message
		}
	}
	if cs.Term == "hang" {
		// keep the connection open and silent until the resolver gives up (it closes, we see EOF)
		if unanswered > 0 {
			l.mu.Lock()
			l.tcpHanging++
			l.mu.Unlock()
			defer func() {
				l.mu.Lock()
				l.tcpHanging--
				l.mu.Unlock()
			}()
		}
		park()
		io.Copy(io.Discard, c)
		l.ev("tcp conn #%d: peer closed", k)
		return
	}
	// orderly close: FIN behind the last message
	c.CloseWrite()
	park()
	io.Copy(io.Discard, c)
}

// sentBytes returns every byte string sent from the server address during the lookup (parser part).
func (l *lookupRec) sentBytes() [][]byte {
	var out [][]byte
	for _, s := range l.log {
		out = append(out, s.R.Raw)
	}
	return out
}

func containsAddr(hay [][]byte, a netip.Addr) bool {
	n := a.AsSlice()
	for _, h := range hay {
		if bytes.Contains(h, n) {
			return true
		}
	}
	return false
}
