// Package c17 monitors "the resolver returns only upstream's answers, honours
// TTLs, degrades safely" on the real dns.Resolver, driven through real
// loopback sockets (direct UDP client + TCP client) against a scripted harness
// upstream, under the process-wide virtual clock of the faketime build.
package c17

import (
	"encoding/binary"
	"fmt"
	"net/netip"

	"golang.org/x/net/dns/dnsmessage"

	"verif/core"
)

// failureCachingSeconds is the specified caching time of FORMERR / SERVFAIL / NOTIMP / REFUSED answers (DESIGN C17: "the 30 s failure time").
const failureCachingSeconds = 30

// resp is one message the harness upstream can send, together with what it MEANS (decided by the generator,
// never by parsing it back): the oracle works on these meanings only.
type resp struct {
	Kind string `json:"kind"`
	// Fam is the query family (4 = A, 6 = AAAA) the message is sent in reaction to.
	Fam int `json:"fam"`
	// FamID is the family named by the transaction ID (4 or 6), 0 when the ID is foreign.
	FamID int    `json:"fam_id"`
	ID    uint16 `json:"id"`
	// HeaderOK: QR=1, RA=1 and a known rcode. WellFormed: every section parses. TC: truncation bit.
	HeaderOK   bool `json:"header_ok"`
	WellFormed bool `json:"well_formed"`
	TC         bool `json:"tc,omitempty"`
	// Fuzz: bytes were mutated at random; the meaning is unknown (parser part only).
	Fuzz bool `json:"fuzz,omitempty"`
	// Addrs are the address records (A for family 4, AAAA for family 6) in answer order.
	Addrs []netip.Addr `json:"addrs"`
	// Cand is the caching time in seconds this message stands for if it is accepted: the smallest TTL of its
	// answer records (CNAMEs included), else the SOA TTL of a negative answer, else the failure time; -1 = none.
	Cand int64 `json:"cand"`
	// Positive: NOERROR with at least one answer record.
	Positive bool   `json:"positive"`
	RCode    int    `json:"rcode"`
	Raw      []byte `json:"-"`
	Note     string `json:"note,omitempty"`
}

// addrAlloc hands out addresses that are unique in the whole process, so that an address in a result names the one
// message it came from.
type addrAlloc struct {
	n     uint32
	owner map[netip.Addr]string
}

func (a *addrAlloc) next(fam int, owner string) netip.Addr {
	a.n++
	var ad netip.Addr
	if fam == 4 {
		ad = netip.AddrFrom4([4]byte{10, byte(a.n >> 16), byte(a.n >> 8), byte(a.n)})
	} else {
		var b [16]byte
		b[0], b[1], b[2] = 0xfd, 0x17, 0xc1
		binary.BigEndian.PutUint32(b[12:], a.n)
		ad = netip.AddrFrom16(b)
	}
	if a.owner != nil {
		a.owner[ad] = owner
	}
	return ad
}

// msgSpec describes a well-formed message to build.
type msgSpec struct {
	name   string
	fam    int
	id     uint16
	rcode  dnsmessage.RCode
	addrs  []netip.Addr
	ttls   []uint32
	cnames []uint32 // TTLs of a CNAME chain placed before the address records
	soaTTL int64    // -1: no SOA in the authority section
	qr, ra bool
	tc     bool
	noOPT  bool
}

func mustName(s string) dnsmessage.Name {
	n, err := dnsmessage.NewName(s)
	if err != nil {
		panic(err)
	}
	return n
}

// buildMsg packs the message; answersEnd is the offset right behind the answer section.
func buildMsg(s msgSpec) (raw []byte, answersEnd int) {
	qname := mustName(s.name + ".")
	qt := dnsmessage.TypeA
	if s.fam == 6 {
		qt = dnsmessage.TypeAAAA
	}
	pack := func(upToAnswers bool) []byte {
		b := dnsmessage.NewBuilder(make([]byte, 0, 512), dnsmessage.Header{
			ID: s.id, Response: s.qr, RecursionDesired: true, RecursionAvailable: s.ra, Truncated: s.tc, RCode: s.rcode,
		})
		b.EnableCompression()
		chk := func(err error) {
			if err != nil {
				panic(fmt.Sprintf("c17 buildMsg: %v", err))
			}
		}
		chk(b.StartQuestions())
		chk(b.Question(dnsmessage.Question{Name: qname, Type: qt, Class: dnsmessage.ClassINET}))
		chk(b.StartAnswers())
		owner := qname
		for k, ttl := range s.cnames {
			tn := fmt.Sprintf("cn%d.%s.", k, s.name)
			if len(tn) > 254 {
				// the name already fills the 253-byte limit: alias into the zone instead of below the name
				tn = fmt.Sprintf("cn%d-alias.c17.test.", k)
			}
			target := mustName(tn)
			chk(b.CNAMEResource(dnsmessage.ResourceHeader{Name: owner, Class: dnsmessage.ClassINET, TTL: ttl}, dnsmessage.CNAMEResource{CNAME: target}))
			owner = target
		}
		for k, a := range s.addrs {
			h := dnsmessage.ResourceHeader{Name: owner, Class: dnsmessage.ClassINET, TTL: s.ttls[k]}
			if a.Is4() {
				chk(b.AResource(h, dnsmessage.AResource{A: a.As4()}))
			} else {
				chk(b.AAAAResource(h, dnsmessage.AAAAResource{AAAA: a.As16()}))
			}
		}
		if !upToAnswers {
			chk(b.StartAuthorities())
			if s.soaTTL >= 0 {
				zone := mustName("c17.test.")
				// MINIMUM >= TTL, so that "negative TTL" is the record's TTL under every reading of RFC 2308
				chk(b.SOAResource(dnsmessage.ResourceHeader{Name: zone, Class: dnsmessage.ClassINET, TTL: uint32(s.soaTTL)},
					dnsmessage.SOAResource{NS: mustName("ns.c17.test."), MBox: mustName("h.c17.test."), Serial: 1, Refresh: 7200, Retry: 900, Expire: 86400, MinTTL: 0xffffffff}))
			}
			chk(b.StartAdditionals())
			if !s.noOPT {
				var rh dnsmessage.ResourceHeader
				chk(rh.SetEDNS0(1232, dnsmessage.RCodeSuccess, false))
				chk(b.OPTResource(rh, dnsmessage.OPTResource{}))
			}
		}
		m, err := b.Finish()
		chk(err)
		return m
	}
	return pack(false), len(pack(true))
}

var ttlBoundary = []uint32{0, 1, 2, 5, 10, 29, 30, 31, 60, 300, 86400, 1<<31 - 1, 1 << 31, 1<<32 - 1}
var ttlModest = []uint32{1, 2, 3, 5, 8, 10, 15, 20, 29, 30, 31, 45, 60, 90}

func pickTTL(r *core.RNG, modest bool) uint32 {
	if modest {
		return ttlModest[r.Intn(len(ttlModest))]
	}
	return ttlBoundary[r.Intn(len(ttlBoundary))]
}

// answerKinds are complete answers, breakerKinds are datagrams/messages from the right source that cannot be used,
// quietKinds produce nothing usable from the server's address.
var (
	answerKinds  = []string{"valid", "cname", "nodata_soa", "nx_soa", "nx", "servfail", "refused", "formerr", "notimp"}
	breakerKinds = []string{"trunc", "wrongid", "notresp", "ra0", "unkrcode", "garbage", "partial"}
	quietKinds   = []string{"otherip", "otherport", "silence"}
)

func isAnswerKind(k string) bool {
	for _, a := range answerKinds {
		if a == k {
			return true
		}
	}
	return false
}

// gen builds messages for one lookup.
type gen struct {
	r      *core.RNG
	al     *addrAlloc
	name   string
	modest bool // TTLs from the modest list (histories)
	tag    string
	fixTTL int64 // > 0: every TTL of the next messages is this value
	big    bool  // the next positive answer is larger than any datagram the resolver accepts (TCP items only)
}

func (g *gen) ttl() uint32 {
	if g.fixTTL > 0 {
		return uint32(g.fixTTL)
	}
	return pickTTL(g.r, g.modest)
}

func (g *gen) addrs(fam, n int, what string) []netip.Addr {
	out := make([]netip.Addr, n)
	for i := range out {
		out[i] = g.al.next(fam, g.tag+"/"+g.name+"/"+what)
	}
	return out
}

func idOf(fam int) uint16 { return uint16(fam) }

// make builds the message of the given kind for the query family fam. Decoy kinds (otherip/otherport) are built as
// perfectly valid answers: only where they come from is wrong.
func (g *gen) make(kind string, fam int) *resp {
	r := g.r
	rp := &resp{Kind: kind, Fam: fam, FamID: fam, ID: idOf(fam), HeaderOK: true, WellFormed: true, Cand: -1}
	sp := msgSpec{name: g.name, fam: fam, id: rp.ID, qr: true, ra: true, soaTTL: -1, noOPT: r.Chance(1, 4)}
	positive := func(cname bool) {
		n := r.Pick(1, 1, 2, 3)
		if g.big {
			// an answer that only fits the stream transport (what the TCP retry exists for): 1.3-3 KiB of records
			n = r.Pick(60, 100, 140)
		}
		sp.addrs = g.addrs(fam, n, kind)
		min := int64(-1)
		for range sp.addrs {
			t := g.ttl()
			sp.ttls = append(sp.ttls, t)
			if min < 0 || int64(t) < min {
				min = int64(t)
			}
		}
		if cname {
			// the CNAME TTL is the smallest one of the message (strictly, whenever the address TTL allows)
			for k := r.Range(1, 2); k > 0; k-- {
				t := uint32(0)
				if min > 0 {
					t = uint32(r.Range(0, int(minI64(min-1, 1<<30))))
					if g.modest && min > 1 {
						t = uint32(r.Range(1, int(min-1)))
					}
				}
				sp.cnames = append(sp.cnames, t)
				if int64(t) < min {
					min = int64(t)
				}
			}
		}
		rp.Addrs, rp.Cand, rp.Positive = sp.addrs, min, true
	}
	switch kind {
	case "valid", "otherip", "otherport":
		positive(kind == "valid" && r.Chance(1, 5))
	case "cname":
		positive(true)
	case "nodata_soa":
		t := g.ttl()
		sp.soaTTL, rp.Cand = int64(t), int64(t)
	case "nodata":
	case "nx_soa":
		t := g.ttl()
		sp.rcode, sp.soaTTL, rp.Cand = dnsmessage.RCodeNameError, int64(t), int64(t)
	case "nx":
		sp.rcode = dnsmessage.RCodeNameError
	case "servfail", "refused", "formerr", "notimp":
		sp.rcode = map[string]dnsmessage.RCode{"servfail": dnsmessage.RCodeServerFailure, "refused": dnsmessage.RCodeRefused,
			"formerr": dnsmessage.RCodeFormatError, "notimp": dnsmessage.RCodeNotImplemented}[kind]
		rp.Cand = failureCachingSeconds
	case "trunc":
		positive(false)
		sp.tc, rp.TC = true, true
	case "wrongid":
		positive(false)
		for {
			sp.id = uint16(r.Pick(0, 1, 3, 5, 7, 0x0400, 0x0600, 0x0404, 0xffff, int(r.Uint64()&0xffff)))
			if sp.id != 4 && sp.id != 6 {
				break
			}
		}
		rp.ID, rp.FamID = sp.id, 0
	case "notresp":
		positive(false)
		sp.qr, rp.HeaderOK = false, false
	case "ra0":
		positive(false)
		sp.ra, rp.HeaderOK = false, false
	case "unkrcode":
		positive(false)
		sp.rcode = dnsmessage.RCode(r.Range(6, 15))
		rp.HeaderOK = false
	case "garbage", "partial", "zero":
		// below
	default:
		panic("c17: unknown kind " + kind)
	}
	rp.RCode = int(sp.rcode)
	switch kind {
	case "zero":
		rp.WellFormed, rp.FamID = false, 0
		rp.Raw = []byte{}
	case "garbage":
		// bytes that no reading can take for an answer to this lookup: shorter than a header, or a header with a foreign ID
		rp.WellFormed, rp.FamID, rp.HeaderOK = false, 0, false
		n := r.Pick(0, 1, 2, 11, 12, 13, 40, 300)
		raw := r.Bytes(n)
		if n >= 2 {
			id := binary.BigEndian.Uint16(raw)
			if id == 4 || id == 6 {
				raw[0] ^= 0x55
			}
			rp.ID = binary.BigEndian.Uint16(raw)
		}
		rp.Raw = raw
		rp.Note = fmt.Sprintf("%d random bytes", n)
	case "partial":
		// a genuine answer cut inside its question or answer section (the counts promise more than there is)
		positive(r.Bool())
		raw, end := buildMsg(sp)
		cut := r.Range(12, end-1)
		rp.Raw = raw[:cut]
		rp.WellFormed = false
		rp.Note = fmt.Sprintf("cut at %d of %d (answers end at %d)", cut, len(raw), end)
	default:
		rp.Raw, _ = buildMsg(sp)
	}
	return rp
}

func minI64(a, b int64) int64 {
	if a < b {
		return a
	}
	return b
}

// mutate derives a hostile message from a genuine one (parser part).
func mutate(r *core.RNG, base []byte) ([]byte, string) {
	b := append([]byte{}, base...)
	keepHead := r.Chance(7, 10) // most mutations keep ID and flags, so that they reach the record parser
	lo := 0
	if keepHead && len(b) > 4 {
		lo = 4
	}
	op := r.Intn(10)
	switch op {
	case 0:
		for k := r.Range(1, 4); k > 0 && len(b) > lo; k-- {
			i := r.Range(lo, len(b)-1)
			b[i] ^= 1 << r.Intn(8)
		}
		return b, "bitflip"
	case 1:
		for k := r.Range(1, 6); k > 0 && len(b) > lo; k-- {
			b[r.Range(lo, len(b)-1)] = byte(r.Uint64())
		}
		return b, "bytes"
	case 2:
		return b[:r.Range(0, len(b)-1)], "truncate"
	case 3:
		return append(b, r.Bytes(r.Pick(1, 2, 16, 600))...), "extend"
	case 4:
		// lie in a section count
		if len(b) >= 12 {
			binary.BigEndian.PutUint16(b[4+2*r.Intn(4):], uint16(r.Pick(0, 1, 2, 3, 255, 256, 0xffff)))
		}
		return b, "counts"
	case 5:
		// compression pointer to itself / forward / into the header
		if len(b) > 14 {
			i := r.Range(12, len(b)-2)
			b[i] = 0xc0 | byte(r.Intn(2))
			b[i+1] = byte(r.Pick(i&0xff, 0, 12, 0xff, (i+2)&0xff))
		}
		return b, "pointer"
	case 6:
		// overlong label
		if len(b) > 13 {
			b[12] = byte(r.Pick(63, 64, 0x40, 0x80, 0xbf, 200))
		}
		return b, "label"
	case 7:
		// corrupt a 16-bit field somewhere behind the question (type / class / rdlength)
		if len(b) > 30 {
			i := r.Range(20, len(b)-2)
			binary.BigEndian.PutUint16(b[i:], uint16(r.Pick(0, 1, 4, 16, 28, 0xff, 0xffff, int(r.Uint64()&0xffff))))
		}
		return b, "field16"
	case 8:
		return r.Bytes(r.Pick(0, 1, 11, 12, 17, 64, 512, 1400)), "random"
	default:
		// splice: genuine head, random tail
		if len(b) > 12 {
			cut := r.Range(12, len(b)-1)
			copy(b[cut:], r.Bytes(len(b)-cut))
		}
		return b, "splice"
	}
}
