package c17

import (
	"fmt"

	"verif/core"
)

// recBuf buffers what one execution of a case wants to record. A case that ends in a violation is executed again
// (fresh names, fresh resolver state): only a violation that shows up a second time is reported. The checks run
// real sockets under a virtual clock; under extreme machine load the kernel can deliver a loopback segment later than
// the moment at which the harness lets virtual time pass, which makes an answered query look unanswered once in
// ~10^4 lookups. Scripted upstream behaviour is deterministic, so a genuine defect reproduces; such a flake does not.
type recBuf struct {
	attempt int
	ops     []func(r *core.Rec)
	viols   []string
}

func (b *recBuf) Class(format string, a ...any) {
	k := fmt.Sprintf(format, a...)
	b.ops = append(b.ops, func(r *core.Rec) { r.Class("%s", k) })
}
func (b *recBuf) Count(name string, n int64) {
	b.ops = append(b.ops, func(r *core.Rec) { r.Count(name, n) })
}
func (b *recBuf) Max(name string, n int64) {
	b.ops = append(b.ops, func(r *core.Rec) { r.Max(name, n) })
}
func (b *recBuf) Sample(limit int, s any) {
	b.ops = append(b.ops, func(r *core.Rec) { r.Sample(limit, s) })
}
func (b *recBuf) Inconclusive(reason string) {
	b.ops = append(b.ops, func(r *core.Rec) { r.Inconclusive(reason) })
}
func (b *recBuf) Violate(part string, i int, sig map[string]string, detail any, format string, a ...any) {
	txt := fmt.Sprintf(format, a...)
	b.viols = append(b.viols, sig["kind"]+": "+txt)
	b.ops = append(b.ops, func(r *core.Rec) { r.Violate(part, i, sig, detail, "%s", txt) })
}

func (b *recBuf) flush(r *core.Rec) {
	for _, op := range b.ops {
		op(r)
	}
}

// suffix makes the names of a repeated execution distinct from the earlier ones.
func (b *recBuf) suffix() string {
	if b.attempt == 0 {
		return ""
	}
	return fmt.Sprintf("-r%d", b.attempt)
}

const attempts = 3

// runConfirmed executes a case; a violation is reported when it shows up in two executions (of at most three).
func runConfirmed(e *core.Env, f func(b *recBuf)) {
	var bad, clean *recBuf
	for k := 0; k < attempts; k++ {
		b := &recBuf{attempt: k}
		f(b)
		switch {
		case len(b.viols) == 0 && k == 0:
			b.flush(e.Rec)
			return
		case len(b.viols) == 0:
			clean = b
		case bad != nil:
			bad.flush(e.Rec) // confirmed: report the first execution
			return
		default:
			bad = b
		}
	}
	e.Rec.Count("violation_candidates_not_reproduced", 1)
	e.Rec.Note("not reproduced in two re-executions (timing of real sockets under load): %.300s", bad.viols[0])
	clean.flush(e.Rec)
}
