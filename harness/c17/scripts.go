package c17

import (
	"github.com/database64128/shadowsocks-go/dns"
)

type resolverAPI = *dns.Resolver

// srcOf: decoy kinds leave from the decoy sockets.
func srcOf(kind string) string {
	switch kind {
	case "otherip", "otherport":
		return kind
	}
	return "server"
}

func (g *gen) item(kind string, fam int) *item {
	if kind == "silence" || kind == "skip" {
		return nil
	}
	return &item{Src: srcOf(kind), R: g.make(kind, fam), Cut: -1}
}

func fam(i int) int { return []int{4, 6}[i] }

// udpMatrixSteps: first arrival meets kind; a quiet kind either persists for all ten transmissions or is followed by
// a valid answer on the first resend.
func (g *gen) udpMatrixSteps(kind string, fi int, recover bool) []udpStep {
	st := []udpStep{{Main: g.item(kind, fam(fi))}}
	if kind == "otherip" || kind == "otherport" || kind == "silence" {
		if recover {
			st = append(st, udpStep{Main: g.item("valid", fam(fi))})
		} else if kind != "silence" {
			for k := 1; k < 10; k++ {
				st = append(st, udpStep{Main: g.item(kind, fam(fi))})
			}
		}
	}
	return st
}

var tcpKinds = []string{"valid", "cname", "nx_soa", "nodata_soa", "servfail", "refused", "wrongid", "notresp", "ra0", "unkrcode", "garbage", "zero", "skip", "cutlen", "cutmsg"}

func tcpBreaker(kind string) bool {
	switch kind {
	case "wrongid", "notresp", "ra0", "unkrcode", "garbage", "zero", "cutlen", "cutmsg", "partial":
		return true
	}
	return false
}

// tcpItem builds the TCP reaction of the given kind for one family.
func (g *gen) tcpItem(kind string, fam int) *item {
	switch kind {
	case "skip":
		return nil
	case "cutlen":
		it := g.item("valid", fam)
		it.Cut = g.r.Pick(0, 1, 1)
		it.R.Note = "connection closed inside the length prefix"
		return it
	case "cutmsg":
		it := g.item(g.r.PickStr("valid", "cname"), fam)
		it.Cut = 2 + g.r.Range(0, len(it.R.Raw)-1)
		it.R.Note = "connection closed inside the message"
		return it
	}
	if (kind == "valid" || kind == "cname") && g.r.Chance(1, 6) {
		g.big = true
		defer func() { g.big = false }()
	}
	return g.item(kind, fam)
}

// tcpConn builds one connection script from two kinds.
func (g *gen) tcpConn(kA, kB string) connScript {
	r := g.r
	cs := connScript{First: fam(r.Intn(2)), Term: "close", Split: r.Chance(1, 4)}
	cs.Items[0], cs.Items[1] = g.tcpItem(kA, 4), g.tcpItem(kB, 6)
	// nothing is sent behind a breaker: drop the item that would follow it
	firstI := famIdx(cs.First)
	kinds := [2]string{kA, kB}
	if tcpBreaker(kinds[firstI]) {
		cs.Items[1-firstI] = nil
	}
	if !tcpBreaker(kA) && !tcpBreaker(kB) && r.Chance(1, 3) {
		cs.Term = "hang"
	}
	return cs
}

func (g *gen) randomTCP() []connScript {
	r := g.r
	var out []connScript
	n := r.Pick(1, 1, 2, 2, 2)
	pick := func() string {
		if r.Chance(1, 2) {
			return r.PickStr("valid", "valid", "cname", "servfail", "nx_soa")
		}
		return tcpKinds[r.Intn(len(tcpKinds))]
	}
	for k := 0; k < n; k++ {
		if r.Chance(1, 14) {
			out = append(out, connScript{Reset: true})
			continue
		}
		out = append(out, g.tcpConn(pick(), pick()))
	}
	return out
}

// udpLeadIn makes the UDP exchange yield nothing, in one of the three ways the statement names.
func (g *gen) udpLeadIn(how string, sc *script) {
	switch how {
	case "trunc", "garbage", "partial", "wrongid":
		// the first answered query meets the breaker; the other one too (it is sent behind it and normally never read)
		sc.UDP[0] = []udpStep{{Main: g.item(how, 4)}}
		sc.UDP[1] = []udpStep{{Main: g.item(how, 6)}}
	case "silence":
		// unanswered for all ten transmissions: 20 s
	case "decoys":
		for fi := 0; fi < 2; fi++ {
			for k := 0; k < 10; k++ {
				sc.UDP[fi] = append(sc.UDP[fi], udpStep{Main: g.item(g.r.PickStr("otherip", "otherport"), fam(fi))})
			}
		}
	}
}

// decoys returns 0..2 datagrams that must not count: wrong source address, and (behind the main answer only) a
// foreign transaction ID from the right address.
func (g *gen) decoys(fi int, post bool) []*item {
	r := g.r
	var out []*item
	for k := r.Pick(0, 0, 1, 1, 2); k > 0; k-- {
		kind := r.PickStr("otherip", "otherport")
		// a decoy may also pose as the answer to the OTHER query of the lookup
		f := fam(fi)
		if r.Chance(1, 3) {
			f = fam(1 - fi)
		}
		out = append(out, g.item(kind, f))
	}
	if post && r.Chance(1, 4) {
		// right address, foreign transaction ID, records of either type: unusable, and nothing of it may show up
		out = append(out, g.item("wrongid", fam(r.Intn(2))))
	}
	return out
}

// randomScript: random sequences per family, decoys around the main answers, random TCP behaviour.
func (g *gen) randomScript() *script {
	r := g.r
	sc := &script{First: fam(r.Intn(2))}
	for fi := 0; fi < 2; fi++ {
		n := r.Pick(1, 1, 2, 2, 3, 4)
		for k := 0; k < n; k++ {
			var kind string
			switch x := r.Intn(100); {
			case x < 45:
				kind = answerKinds[r.Intn(len(answerKinds))]
			case x < 75:
				kind = quietKinds[r.Intn(len(quietKinds))]
			default:
				kind = breakerKinds[r.Intn(len(breakerKinds))]
			}
			st := udpStep{Main: g.item(kind, fam(fi))}
			if r.Chance(1, 2) {
				st.Pre = g.decoys(fi, false)
			}
			if r.Chance(1, 2) {
				st.Post = g.decoys(fi, true)
			}
			sc.UDP[fi] = append(sc.UDP[fi], st)
		}
		if r.Chance(1, 4) {
			// whatever is resent after the list: a valid answer at last (otherwise silence)
			for k := n; k < 10; k++ {
				if k == n+r.Intn(3) {
					sc.UDP[fi] = append(sc.UDP[fi], udpStep{Main: g.item("valid", fam(fi))})
					break
				}
				sc.UDP[fi] = append(sc.UDP[fi], udpStep{})
			}
		}
	}
	sc.TCP = g.randomTCP()
	return sc
}

// ---- history scripts ----

// healthy: both queries answered positively over UDP.
func (g *gen) healthy(cname bool) *script {
	k := "valid"
	if cname {
		k = "cname"
	}
	return &script{First: fam(g.r.Intn(2)), UDP: [2][]udpStep{{{Main: g.item(k, 4)}}, {{Main: g.item(g.r.PickStr("valid", k), 6)}}}}
}

func (g *gen) bothKinds(kA, kB string) *script {
	return &script{First: fam(g.r.Intn(2)), UDP: [2][]udpStep{{{Main: g.item(kA, 4)}}, {{Main: g.item(kB, 6)}}}}
}

// downFast: upstream is broken in a way that needs no virtual time (unusable datagram, then TCP reset/closed).
func (g *gen) downFast() *script {
	sc := &script{First: fam(g.r.Intn(2))}
	g.udpLeadIn(g.r.PickStr("garbage", "wrongid", "partial"), sc)
	if g.r.Bool() {
		sc.TCP = []connScript{{Reset: true}}
	} else {
		sc.TCP = []connScript{g.tcpConn(g.r.PickStr("garbage", "zero", "cutlen", "skip"), "skip"), {Term: "close"}}
	}
	return sc
}

// downSlow: nobody answers on either transport (20 s + 20 s).
func (g *gen) downSlow() *script {
	sc := &script{First: 4}
	sc.TCP = []connScript{{Term: "hang"}}
	return sc
}

// viaTCP: UDP truncated (or unanswered), both answers over TCP.
func (g *gen) viaTCP() *script {
	sc := &script{First: fam(g.r.Intn(2))}
	g.udpLeadIn(g.r.PickStr("trunc", "trunc", "garbage", "silence"), sc)
	sc.TCP = []connScript{g.tcpConn(g.r.PickStr("valid", "cname"), "valid")}
	sc.TCP[0].Term = "close"
	return sc
}
