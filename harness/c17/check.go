package c17

import (
	"fmt"
	"net/netip"
	"strings"

	"verif/core"
)

// caseCtx carries what a violation needs for its witness.
type caseCtx struct {
	w    *world
	e    *core.Env
	b    *recBuf
	sub  string
	ci   int
	desc map[string]any
	bad  bool
}

func (c *caseCtx) viol(kind string, out *outcome, format string, a ...any) {
	c.bad = true
	det := map[string]any{"case": c.desc}
	if out != nil {
		det["outcome"] = out
		if out.rec != nil {
			out.rec.mu.Lock()
			det["script"] = out.rec.sc
			det["sent"] = out.rec.log
			det["events"] = out.rec.events
			det["lookup_name"] = out.rec.name
			out.rec.mu.Unlock()
		}
		if out.Stack != "" {
			det["stack"] = out.Stack
		}
	}
	det["resolver_log"] = c.w.logLines(30)
	c.b.Violate(c.sub, c.ci, core.Sig("kind", kind, "part", c.sub), det, format, a...)
}

// fresh is the judgement of one call that asked upstream.
type fresh struct {
	ok       bool // no violation
	entry    *entry
	failed   bool // the lookup failed (error, or stale data served)
	stale    bool
	dontCare bool
	v        *verdict
}

func addrList(as []netip.Addr) string {
	var s []string
	for _, a := range as {
		s = append(s, a.String())
	}
	return "[" + strings.Join(s, " ") + "]"
}

// checkAsked judges a call during which the upstream was (or should have been) asked. stale is the cache entry the
// model holds for the name (expired or not), nil if none.
func (c *caseCtx) checkAsked(name string, out *outcome, stale *entry) fresh {
	l := out.rec
	v := judge(l)
	f := fresh{v: v}
	switch {
	case out.Panic != "":
		c.b.Violate(c.sub, c.ci, core.Sig("kind", "panic", "part", c.sub, "where", core.PanicSite(out.Stack)), map[string]any{"case": c.desc, "stack": out.Stack, "sent": l.log},
			"the resolver panicked during the lookup of %s: %.200s", name, out.Panic)
		c.bad = true
		return f
	case out.Hung:
		c.viol("lookup_did_not_return", out, "Lookup(%s) had not returned after %v of virtual time (20 s per transport are specified)", name, maxVirtual)
		return f
	}
	if len(l.badQuery) > 0 {
		c.viol("bad_query", out, "the upstream received a query that is not the lookup's own A/AAAA question: %s", l.badQuery[0])
		return f
	}
	tcpOK := func() bool {
		if !v.fuzz {
			// TCP must be tried for every family that got no acceptable UDP answer
			for fi, fam := range []int{4, 6} {
				if v.accUDP[fi] {
					continue
				}
				if l.tcpConns == 0 {
					c.viol("no_tcp_fallback", out, "UDP produced no usable answer for family %d, yet no TCP connection was made (result: %v / %s %s)", fam, out.Err, addrList(out.A), addrList(out.AAAA))
					return false
				}
				if l.tcpQueries > 0 && !l.tcpAsked[fi] {
					c.viol("tcp_fallback_skips_family", out, "UDP produced no usable answer for family %d, but the TCP connection(s) never asked for it", fam)
					return false
				}
			}
		}
		return true
	}
	if out.Err != nil {
		f.failed = true
		if len(out.A)+len(out.AAAA) != 0 {
			c.viol("error_with_addresses", out, "Lookup(%s) returned an error AND addresses", name)
			return f
		}
		switch {
		case stale != nil:
			c.viol("stale_entry_not_served", out, "upstream failed for %s (%v) while the cache still holds an older result %s %s: the stale entry must be served", name, out.Err, addrList(stale.a), addrList(stale.aaaa))
			return f
		case v.mustSucceed:
			c.viol("failed_although_both_answered", out, "Lookup(%s) failed (%v) although both queries were answered acceptably before anything unusable arrived", name, out.Err)
			return f
		}
		f.ok, f.dontCare = tcpOK(), !v.mustFail
		return f
	}
	// success
	if v.fuzz {
		// parser part: the meaning of the mutated bytes is unknown; whatever is returned must at least have been on the wire
		hay := l.sentBytes()
		for _, a := range append(append([]netip.Addr{}, out.A...), out.AAAA...) {
			if stale != nil && (containsA(stale.a, a) || containsA(stale.aaaa, a)) {
				continue
			}
			if !containsAddr(hay, a) {
				k, txt := origin(l, c.w.al, a)
				c.viol(k, out, "Lookup(%s) returned %s, which is in none of the messages the server sent for this lookup: %s", name, a, txt)
				return f
			}
		}
		f.ok, f.dontCare = true, true
		return f
	}
	m4, m6 := matchFamily(v.acc[0], out.A), matchFamily(v.acc[1], out.AAAA)
	if len(m4) > 0 && len(m6) > 0 {
		lt := expiryOf(v, m4, m6, out.End, l)
		f.ok, f.dontCare = tcpOK(), !v.mustSucceed
		f.entry = &entry{name: name, a: out.A, aaaa: out.AAAA, lt: lt, stored: out.End}
		return f
	}
	if stale != nil && sameAddrs(out.A, stale.a) && sameAddrs(out.AAAA, stale.aaaa) {
		f.failed, f.stale = true, true
		if v.mustSucceed {
			c.viol("stale_served_although_upstream_answered", out, "Lookup(%s) served the expired entry %s %s although upstream answered both queries acceptably", name, addrList(stale.a), addrList(stale.aaaa))
			return f
		}
		f.ok, f.dontCare = tcpOK(), !v.mustFail
		return f
	}
	// neither a fresh nor the stale result: say where the addresses come from
	for fi, got := range [][]netip.Addr{out.A, out.AAAA} {
		if len(matchFamily(v.acc[fi], got)) > 0 {
			continue
		}
		for _, a := range got {
			inAcc := false
			for _, s := range v.acc[fi] {
				if containsA(s.R.Addrs, a) {
					inAcc = true
				}
			}
			if !inAcc {
				k, txt := origin(l, c.w.al, a)
				c.viol(k, out, "Lookup(%s) returned %s %s: %s", name, addrList(out.A), addrList(out.AAAA), txt)
				return f
			}
		}
		fam := []int{4, 6}[fi]
		if len(v.acc[fi]) == 0 {
			c.viol("success_without_answer", out, "Lookup(%s) succeeded with %s for family %d although no acceptable answer for that family was ever sent", name, addrList(got), fam)
		} else {
			c.viol("answers_mixed", out, "Lookup(%s) returned %s for family %d, which is not the address list of any single acceptable answer", name, addrList(got), fam)
		}
		return f
	}
	return f
}

func containsA(as []netip.Addr, a netip.Addr) bool {
	for _, x := range as {
		if x == a {
			return true
		}
	}
	return false
}

// checkCachedAPIs: while an entry is certainly fresh, LookupIPs / LookupIP must be served from it without asking.
func (c *caseCtx) checkCachedAPIs(res resolverAPI, name string, en *entry) {
	for _, api := range []string{"LookupIPs", "LookupIP", "Lookup"} {
		out := c.w.call(res, api, name, &script{})
		if out.Panic != "" || out.Hung {
			c.checkAsked(name, out, en)
			return
		}
		if n := out.rec.asked(); n != 0 {
			c.viol("cache_not_used_before_expiry", out, "%s(%s) right after a successful lookup (lifetime not elapsed) asked upstream again (%d queries/connections)", api, name, n)
			return
		}
		switch api {
		case "LookupIP":
			total := len(en.a) + len(en.aaaa)
			switch {
			case total == 0 && out.Err == nil:
				c.viol("lookupip_from_empty_result", out, "LookupIP(%s) returned %s %s from a result without addresses", name, addrList(out.A), addrList(out.AAAA))
				return
			case total > 0 && out.Err != nil:
				c.viol("cached_result_changed", out, "LookupIP(%s) failed (%v) although the cached result has addresses", name, out.Err)
				return
			case total > 0:
				for _, a := range append(append([]netip.Addr{}, out.A...), out.AAAA...) {
					if !containsA(en.a, a) && !containsA(en.aaaa, a) {
						c.viol("cached_result_changed", out, "LookupIP(%s) returned %s, not one of the cached %s %s", name, a, addrList(en.a), addrList(en.aaaa))
						return
					}
				}
			}
		default:
			if out.Err != nil || !sameAddrs(out.A, en.a) || !sameAddrs(out.AAAA, en.aaaa) {
				c.viol("cached_result_changed", out, "%s(%s) returned %s %s (err %v) instead of the cached %s %s", api, name, addrList(out.A), addrList(out.AAAA), out.Err, addrList(en.a), addrList(en.aaaa))
				return
			}
		}
	}
	c.b.Count("cached_api_calls", 3)
}

func fmtKinds(st []udpStep) string {
	var s []string
	for _, x := range st {
		k := "silence"
		if x.Main != nil {
			k = x.Main.R.Kind
		}
		if len(x.Pre) > 0 {
			k = fmt.Sprintf("%dpre+", len(x.Pre)) + k
		}
		if len(x.Post) > 0 {
			k += fmt.Sprintf("+%dpost", len(x.Post))
		}
		s = append(s, k)
	}
	return strings.Join(s, ",")
}
