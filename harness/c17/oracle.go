package c17

import (
	"fmt"
	"net/netip"
	"slices"
	"time"
)

// ---- reading of the statement, single lookup ----
//
// A message is ACCEPTABLE for family f when it came from the configured server address (IP and port), is complete,
// carries f's transaction ID, has QR=1, RA=1 and a known rcode, parses, and - over UDP - is not truncated. Failure
// rcodes and negative answers are answers (with no addresses). Everything else from the server address is a BREAKER
// (unusable / truncated); datagrams from any other address are nothing at all.
//
// Within one transport phase (the UDP exchange; one TCP connection) the first acceptable message per family that
// precedes every breaker is SURELY seen by a resolver that reads in order. An acceptable message that follows a
// breaker may or may not be seen (the resolver may legitimately have left the phase): don't-care.
//
//   - must succeed  <=> both families have a surely seen acceptable message
//   - must fail     <=> some family has no acceptable message at all
//   - returned A (AAAA) list == the address list of ONE acceptable message of that family (never a mixture, never
//     anything from a breaker, a decoy, another lookup)
//   - TCP must be tried for every family that got no acceptable UDP message

func acceptable(s *sentRec) bool {
	r := s.R
	return s.Src == "server" && s.Complete && !r.Fuzz && r.FamID != 0 && r.HeaderOK && r.WellFormed && !r.TC
}

type verdict struct {
	acc         [2][]*sentRec
	accUDP      [2]bool
	sure        [2]bool
	mustSucceed bool
	mustFail    bool
	fuzz        bool
	breakers    int
	decoys      int
	truncKinds  []string
	truncCands  []time.Time // expiry candidates of truncated UDP answers / damaged messages (they may only shorten a lifetime)
	damaged     bool
}

func judge(l *lookupRec) *verdict {
	v := &verdict{}
	brokenUDP := false
	brokenTCP := map[int]bool{}
	for _, s := range l.log {
		if s.R.Fuzz {
			v.fuzz = true
		}
		if s.Src != "server" {
			v.decoys++
			continue
		}
		if acceptable(s) {
			fi := famIdx(s.R.FamID)
			v.acc[fi] = append(v.acc[fi], s)
			broken := brokenUDP
			if s.Tr == "tcp" {
				broken = brokenTCP[s.Conn]
			} else {
				v.accUDP[fi] = true
			}
			if !broken {
				v.sure[fi] = true
			}
			continue
		}
		v.breakers++
		if s.Tr == "tcp" {
			brokenTCP[s.Conn] = true
		} else {
			brokenUDP = true
		}
		// what a damaged or truncated message with the lookup's ID may contribute to the lifetime
		if s.R.FamID != 0 && s.R.HeaderOK {
			if s.R.WellFormed && s.R.Cand >= 0 {
				v.truncCands = append(v.truncCands, addTTL(s.At, s.R.Cand))
				v.truncKinds = append(v.truncKinds, "truncated UDP answer")
			} else if !s.R.WellFormed {
				v.damaged = true
			}
		}
	}
	v.mustSucceed = v.sure[0] && v.sure[1] && !v.fuzz
	v.mustFail = (len(v.acc[0]) == 0 || len(v.acc[1]) == 0) && !v.fuzz
	return v
}

func addTTL(t time.Time, sec int64) time.Time { return t.Add(time.Duration(sec) * time.Second) }

func sameAddrs(a, b []netip.Addr) bool {
	if len(a) != len(b) {
		return false
	}
	x, y := slices.Clone(a), slices.Clone(b)
	slices.SortFunc(x, netip.Addr.Compare)
	slices.SortFunc(y, netip.Addr.Compare)
	return slices.Equal(x, y)
}

// matchFamily returns the acceptable messages whose address list equals got.
func matchFamily(acc []*sentRec, got []netip.Addr) []*sentRec {
	var m []*sentRec
	for _, s := range acc {
		if sameAddrs(s.R.Addrs, got) {
			m = append(m, s)
		}
	}
	return m
}

// origin explains where a returned address came from (for the signature of a violation).
func origin(l *lookupRec, al *addrAlloc, a netip.Addr) (kind, text string) {
	for _, s := range l.log {
		if slices.Contains(s.R.Addrs, a) {
			switch {
			case s.Src == "otherip":
				return "address_from_wrong_source_ip", fmt.Sprintf("%s is from datagram #%d sent from another IP address", a, s.Seq)
			case s.Src == "otherport":
				return "address_from_wrong_source_port", fmt.Sprintf("%s is from datagram #%d sent from the server's IP but another port", a, s.Seq)
			case s.R.FamID == 0:
				return "address_from_foreign_id", fmt.Sprintf("%s is from message #%d with transaction ID %d", a, s.Seq, s.R.ID)
			case s.Tr == "udp" && s.R.TC && s.R.HeaderOK && s.R.WellFormed:
				return "address_from_truncated_udp_answer", fmt.Sprintf("%s is from the truncated UDP answer #%d", a, s.Seq)
			case !s.R.HeaderOK:
				return "address_from_rejected_header", fmt.Sprintf("%s is from message #%d (%s)", a, s.Seq, s.R.Kind)
			case !s.R.WellFormed || !s.Complete:
				return "address_from_damaged_message", fmt.Sprintf("%s is from the damaged/incomplete message #%d (%s)", a, s.Seq, s.R.Kind)
			}
			return "answers_mixed", fmt.Sprintf("%s is from acceptable message #%d, but the list is not that message's list", a, s.Seq)
		}
	}
	if o, ok := al.owner[a]; ok {
		return "address_from_another_lookup", fmt.Sprintf("%s was issued for %s", a, o)
	}
	return "address_from_nowhere", fmt.Sprintf("%s was never sent by the harness", a)
}

// ---- expiry ----
//
// lifetime of a fresh result, as an interval [lo, hi] of instants at which it expires (F15 and friends):
//   - both matched answers positive: the smallest TTL of all their answer records, counted from when each was sent
//   - otherwise (negative / failure answers involved): any value between the smallest and the largest candidate
//     (answer TTLs, SOA TTL, failure time) is accepted; no candidate at all = expires at once
//   - truncated UDP answers to this lookup may shorten (never lengthen) the lifetime; a damaged message with the
//     lookup's ID removes the lower bound
//
// slack covers virtual time that may have passed between a message being sent and the resolver reading it.
type lifetime struct {
	lo, hi   time.Time
	noLower  bool
	dontCare bool // lo != hi
	// discarded names messages of this lookup that were NOT accepted (truncated UDP answer, damaged message with the
	// lookup's ID) but carry TTLs that end later than hi, while an accepted answer is a negative one: if the entry
	// then outlives hi, the TTL of a discarded message has replaced the negative caching time.
	discarded []string
}

// expiredKind is the signature kind for "served from the cache after the lifetime ended".
func (lt lifetime) expiredKind() (kind, extra string) {
	if len(lt.discarded) > 0 {
		return "negative_ttl_replaced_by_ttl_of_discarded_message", fmt.Sprintf(" (an accepted answer of that result is negative with an SOA TTL; a %s of the same lookup, which was not accepted, carries a longer TTL)", lt.discarded[0])
	}
	return "expired_entry_served_without_asking", ""
}

func expiryOf(v *verdict, m4, m6 []*sentRec, end time.Time, l *lookupRec) lifetime {
	var last time.Time
	for _, s := range l.log {
		if s.At.After(last) {
			last = s.At
		}
	}
	slack := time.Duration(0)
	if !last.IsZero() && end.After(last) {
		slack = end.Sub(last)
	}
	var cands []time.Time
	allPositive := true
	// posHi: per family, the latest end among its positive candidates; failure: an RFC 9520 failure rcode is among
	// the candidates (its 30 s replace, rather than bound, what an earlier message set: F15, order-dependent)
	var posHi []time.Time
	failure := false
	perFam := func(m []*sentRec) (lo, hi time.Time, any bool) {
		var ph time.Time
		for _, s := range m {
			if !s.R.Positive {
				allPositive = false
			}
			if rc := s.R.RCode; rc == 1 || rc == 2 || rc == 4 || rc == 5 {
				failure = true
			}
			if s.R.Cand < 0 {
				continue
			}
			c := addTTL(s.At, s.R.Cand)
			if s.R.Positive && c.After(ph) {
				ph = c
			}
			cands = append(cands, c)
			if !any || c.Before(lo) {
				lo = c
			}
			if !any || c.After(hi) {
				hi = c
			}
			any = true
		}
		if !ph.IsZero() {
			posHi = append(posHi, ph)
		}
		return
	}
	lo4, hi4, any4 := perFam(m4)
	lo6, hi6, any6 := perFam(m6)
	var lt lifetime
	switch {
	case len(cands) == 0:
		lt.hi, lt.noLower = end, true
	case allPositive && any4 && any6:
		lt.lo, lt.hi = minT(lo4, lo6), minT(hi4, hi6)
	default:
		lt.lo, lt.hi = cands[0], cands[0]
		for _, c := range cands {
			lt.lo, lt.hi = minT(lt.lo, c), maxT(lt.hi, c)
		}
		// Answers of different nature in one result. Which of the candidates the resolver ends up with depends on
		// the order it read them in (don't-care), but a record is never kept beyond its own TTL: when one family
		// has address records and the other a negative answer, the negative caching time may shorten the lifetime
		// and never extends it past the smallest TTL of the records ("reused only until the smallest TTL").
		if !failure {
			for _, ph := range posHi {
				lt.hi = minT(lt.hi, ph)
			}
		}
	}
	for _, c := range v.truncCands {
		if !lt.noLower && c.Before(lt.lo) {
			lt.lo = c
		}
	}
	if v.damaged {
		lt.noLower = true
	}
	if len(cands) > 0 {
		lt.hi = lt.hi.Add(slack)
	}
	lt.dontCare = lt.noLower || !lt.lo.Equal(lt.hi)
	negative := false
	for _, s := range append(append([]*sentRec{}, m4...), m6...) {
		if !s.R.Positive && s.R.Cand >= 0 && s.R.RCode != 2 && s.R.RCode != 5 && s.R.RCode != 1 && s.R.RCode != 4 {
			negative = true
		}
	}
	if negative {
		for k, c := range v.truncCands {
			if c.After(lt.hi) {
				lt.discarded = append(lt.discarded, v.truncKinds[k])
			}
		}
		if v.damaged {
			lt.discarded = append(lt.discarded, "damaged message (cut inside its answer section)")
		}
	}
	return lt
}

func minT(a, b time.Time) time.Time {
	if b.Before(a) {
		return b
	}
	return a
}

func maxT(a, b time.Time) time.Time {
	if b.After(a) {
		return b
	}
	return a
}

// ---- cache model: least-recently-used, bounded ----

type entry struct {
	name    string
	a, aaaa []netip.Addr
	lt      lifetime
	stored  time.Time
}

type lruModel struct {
	cap   int // <= 0: unbounded
	order []*entry
}

func (m *lruModel) find(name string) *entry {
	for _, e := range m.order {
		if e.name == name {
			return e
		}
	}
	return nil
}

// touch makes e the most recently used entry.
func (m *lruModel) touch(e *entry) {
	i := slices.Index(m.order, e)
	m.order = append(slices.Delete(m.order, i, i+1), e)
}

// store inserts or replaces; a new name evicts the least recently used entry when the cache is full.
func (m *lruModel) store(ne *entry) (evicted *entry) {
	if e := m.find(ne.name); e != nil {
		*e = *ne
		m.touch(e)
		return nil
	}
	if m.cap > 0 && len(m.order) >= m.cap {
		evicted = m.order[0]
		m.order = m.order[1:]
	}
	m.order = append(m.order, ne)
	return evicted
}

func (m *lruModel) names() []string {
	var out []string
	for _, e := range m.order {
		out = append(out, e.name)
	}
	return out
}
