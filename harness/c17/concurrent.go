package c17

// Part "concurrent" (race-detector flavour, real clock): many goroutines use ONE resolver at the same time, as the
// router does when several sessions resolve names at once. The other parts of C17 issue one lookup at a time; here the
// shared state of the resolver (cache, its LRU list, whatever a lookup borrows from a pool) is exercised under the race
// detector, and an oracle that does not depend on time judges every returned result:
//
//   - the upstream hands every name its own, unique address sets with a TTL of a day, so a result must be exactly the
//     name's sets whatever happened in between (hit, miss, eviction, concurrent refresh) - an address of another name is
//     an answer to somebody else's query;
//   - with a cache big enough for every name and every name looked up once, later concurrent lookups must not reach the
//     upstream at all (the upstream counts queries);
//   - with a cache of capacity c the cache never holds more than c names: after the run, looking up c+1 further distinct
//     names and then the first c again must ask upstream for each of them (nothing beyond the capacity is retained).
//
// A lookup error is not judged (the resolver's retransmission timers are wall-clock timers on a loaded machine): the
// run is then inconclusive.

import (
	"context"
	"encoding/binary"
	"fmt"
	"io"
	"net"
	"net/netip"
	"slices"
	"strings"
	"sync"
	"sync/atomic"
	"time"

	"golang.org/x/net/dns/dnsmessage"

	"github.com/database64128/shadowsocks-go/dns"
	"github.com/database64128/shadowsocks-go/netio"
	"github.com/database64128/shadowsocks-go/zerocopy"
	"go.uber.org/zap"

	"verif/core"
	"verif/svx"
)

func init() { core.Register("C17", "concurrent", runConcurrent) }

type cName struct {
	name    string
	a, aaaa []netip.Addr
	mode    string // "udp": answered over UDP; "tc": UDP answers are truncated, TCP answers; "slow": answered after a moment
	queries atomic.Int64
}

type cServer struct {
	uc    *net.UDPConn
	tl    net.Listener
	addr  netip.AddrPort
	mu    sync.RWMutex
	names map[string]*cName
	total atomic.Int64
	wg    sync.WaitGroup
}

func newCServer() (*cServer, error) {
	for try := 0; try < 20; try++ {
		uc, err := net.ListenUDP("udp", &net.UDPAddr{IP: net.IPv4(127, 0, 0, 1)})
		if err != nil {
			return nil, err
		}
		ap := uc.LocalAddr().(*net.UDPAddr).AddrPort()
		tl, err := net.Listen("tcp", ap.String())
		if err != nil {
			uc.Close()
			continue
		}
		s := &cServer{uc: uc, tl: tl, addr: ap, names: map[string]*cName{}}
		s.wg.Add(2)
		go s.serveUDP()
		go s.serveTCP()
		return s, nil
	}
	return nil, fmt.Errorf("no port free for both UDP and TCP")
}

func (s *cServer) close() {
	s.uc.Close()
	s.tl.Close()
	s.wg.Wait()
}

func (s *cServer) add(n *cName) {
	s.mu.Lock()
	s.names[n.name] = n
	s.mu.Unlock()
}

// answer builds the reply to one query; nil = say nothing.
func (s *cServer) answer(q []byte, tcp bool) (reply []byte, delay time.Duration) {
	var p dnsmessage.Parser
	h, err := p.Start(q)
	if err != nil || h.Response {
		return nil, 0
	}
	qu, err := p.Question()
	if err != nil {
		return nil, 0
	}
	name := strings.TrimSuffix(qu.Name.String(), ".")
	fam := 0
	switch qu.Type {
	case dnsmessage.TypeA:
		fam = 4
	case dnsmessage.TypeAAAA:
		fam = 6
	default:
		return nil, 0
	}
	s.total.Add(1)
	s.mu.RLock()
	n := s.names[name]
	s.mu.RUnlock()
	if n == nil {
		raw, _ := buildMsg(msgSpec{name: name, fam: fam, id: h.ID, rcode: dnsmessage.RCodeNameError, soaTTL: 86400, qr: true, ra: true})
		return raw, 0
	}
	n.queries.Add(1)
	if n.mode == "tc" && !tcp {
		raw, _ := buildMsg(msgSpec{name: name, fam: fam, id: h.ID, soaTTL: -1, qr: true, ra: true, tc: true})
		return raw, 0
	}
	addrs := n.a
	if fam == 6 {
		addrs = n.aaaa
	}
	ttls := make([]uint32, len(addrs))
	for i := range ttls {
		ttls[i] = 86400
	}
	soa := int64(-1)
	if len(addrs) == 0 {
		soa = 86400
	}
	raw, _ := buildMsg(msgSpec{name: name, fam: fam, id: h.ID, addrs: addrs, ttls: ttls, soaTTL: soa, qr: true, ra: true})
	if n.mode == "slow" {
		delay = time.Duration(1+len(name)%3) * time.Millisecond
	}
	return raw, delay
}

func (s *cServer) serveUDP() {
	defer s.wg.Done()
	for {
		b := make([]byte, 2048)
		n, from, err := s.uc.ReadFromUDPAddrPort(b)
		if err != nil {
			return
		}
		// every query in its own goroutine: answers overtake one another
		go func() {
			reply, delay := s.answer(b[:n], false)
			if reply == nil {
				return
			}
			if delay > 0 {
				time.Sleep(delay)
			}
			s.uc.WriteToUDPAddrPort(reply, from)
		}()
	}
}

func (s *cServer) serveTCP() {
	defer s.wg.Done()
	for {
		c, err := s.tl.Accept()
		if err != nil {
			return
		}
		go func() {
			defer c.Close()
			c.SetDeadline(time.Now().Add(2 * time.Minute))
			for {
				var l [2]byte
				if _, err := io.ReadFull(c, l[:]); err != nil {
					return
				}
				q := make([]byte, binary.BigEndian.Uint16(l[:]))
				if _, err := io.ReadFull(c, q); err != nil {
					return
				}
				reply, delay := s.answer(q, true)
				if reply == nil {
					return
				}
				if delay > 0 {
					time.Sleep(delay)
				}
				out := make([]byte, 2+len(reply))
				binary.BigEndian.PutUint16(out, uint16(len(reply)))
				copy(out[2:], reply)
				if _, err := c.Write(out); err != nil {
					return
				}
			}
		}()
	}
}

// mkCName gives name number i of case ci its own address sets (1-3 A, 0-3 AAAA; never both empty).
func mkCName(ci, i int, r *core.RNG) *cName {
	n := &cName{name: fmt.Sprintf("n%d-c%d.conc.c17.test", i, ci), mode: r.PickStr("udp", "udp", "tc", "slow")}
	na, n6 := r.Intn(4), r.Intn(4)
	if na == 0 && n6 == 0 {
		na = 1
	}
	for k := 0; k < na; k++ {
		n.a = append(n.a, netip.AddrFrom4([4]byte{10, byte(ci), byte(i), byte(1 + k)}))
	}
	for k := 0; k < n6; k++ {
		var b [16]byte
		b[0], b[1], b[13], b[14], b[15] = 0xfd, 0xc7, byte(ci), byte(i), byte(1+k)
		n.aaaa = append(n.aaaa, netip.AddrFrom16(b))
	}
	return n
}

func sortedAddrs(as []netip.Addr) []netip.Addr {
	out := slices.Clone(as)
	slices.SortFunc(out, func(a, b netip.Addr) int { return a.Compare(b) })
	return out
}

func runConcurrent(e *core.Env) {
	rec := e.Rec
	rec.Rule("concurrent: one real dns.Resolver (real direct UDP/TCP clients, loopback upstream that answers every name with its own unique address sets, some names only over TCP, some late, answers overtaking one another) used by 8-24 goroutines at once through Lookup / LookupIPs / LookupIP, cache capacities 1, 2, 4 and unbounded over 12 names, under the race detector; every returned result must be exactly the name's own sets; with every name cached, concurrent lookups must not reach the upstream; a bounded cache must not retain more names than its capacity; class = (cache capacity, goroutines, check)")
	cases := e.N(6, 48)
	core.Parallel(e, "concurrent", cases, 2, func(ci int) {
		r := core.NewRNG(e.Seed, "c17.concurrent", ci)
		rec.Begin("concurrent", ci, "concurrent lookups")
		rec.Eval()
		concurrentCase(e, ci, r)
	})
}

func concurrentCase(e *core.Env, ci int, r *core.RNG) {
	rec := e.Rec
	srv, err := newCServer()
	if err != nil {
		rec.Inconclusive("concurrent setup: " + err.Error())
		return
	}
	defer srv.close()
	cl, err := svx.NewClient(svx.JSON(svx.Direct("direct")))
	if err != nil {
		rec.Inconclusive("concurrent client: " + err.Error())
		return
	}
	capacity := []int{1, 2, 4, -1, 3, 12}[ci%6]
	G := r.Pick(8, 16, 24)
	const nNames = 12
	names := make([]*cName, nNames)
	for i := range names {
		names[i] = mkCName(ci, i, r)
		srv.add(names[i])
	}
	rc := dns.ResolverConfig{Name: "c17c", Type: "plain", AddrPort: srv.addr, TCPClientName: "direct", UDPClientName: "direct", CacheSize: capacity}
	sr, err := rc.NewSimpleResolver(map[string]netio.StreamClient{"direct": cl.TCP}, map[string]zerocopy.UDPClient{"direct": cl.UDP}, zap.NewNop())
	if err != nil {
		rec.Inconclusive("concurrent resolver: " + err.Error())
		return
	}
	res := sr.(*dns.Resolver)
	viol := func(kind, format string, a ...any) {
		rec.Violate("concurrent", ci, core.Sig("kind", kind, "part", "concurrent"), map[string]any{"cache_capacity": capacity, "goroutines": G}, format, a...)
	}
	var errs atomic.Int64
	var firstErr atomic.Value
	var bad atomic.Bool
	// check judges one result; api LookupIP returns a single member.
	check := func(n *cName, api string, a, aaaa []netip.Addr) {
		switch api {
		case "LookupIP":
			got := append(slices.Clone(a), aaaa...)
			if len(got) != 1 || !(slices.Contains(n.a, got[0]) || slices.Contains(n.aaaa, got[0])) {
				if bad.CompareAndSwap(false, true) {
					viol("foreign_or_missing_address", "LookupIP(%s) returned %v while other lookups were running; upstream answers this name with A=%v AAAA=%v", n.name, got, n.a, n.aaaa)
				}
			}
		default:
			if !slices.Equal(sortedAddrs(a), sortedAddrs(n.a)) || !slices.Equal(sortedAddrs(aaaa), sortedAddrs(n.aaaa)) {
				if bad.CompareAndSwap(false, true) {
					viol("foreign_or_missing_address", "%s(%s) returned A=%v AAAA=%v while other lookups were running; upstream answers this name with A=%v AAAA=%v", api, n.name, a, aaaa, n.a, n.aaaa)
				}
			}
		}
	}
	one := func(r *core.RNG, n *cName) {
		ctx, cancel := context.WithTimeout(context.Background(), 90*time.Second)
		defer cancel()
		api := r.PickStr("Lookup", "Lookup", "LookupIPs", "LookupIP")
		var a, aaaa []netip.Addr
		var err error
		switch api {
		case "Lookup":
			var rr dns.Result
			rr, err = res.Lookup(ctx, n.name)
			if err == nil {
				a, aaaa = slices.Collect(rr.A()), slices.Collect(rr.AAAA())
			}
		case "LookupIPs":
			var ips []netip.Addr
			ips, err = res.LookupIPs(ctx, n.name)
			for _, ip := range ips {
				if ip.Is4() {
					a = append(a, ip)
				} else {
					aaaa = append(aaaa, ip)
				}
			}
		case "LookupIP":
			var ip netip.Addr
			ip, err = res.LookupIP(ctx, n.name)
			if err == nil {
				a = []netip.Addr{ip}
			}
		}
		if err != nil {
			errs.Add(1)
			firstErr.CompareAndSwap(nil, fmt.Sprintf("%s(%s): %v", api, n.name, err))
			return
		}
		check(n, api, a, aaaa)
	}
	per := e.N(40, 150)
	storm := func(tag string) {
		var wg sync.WaitGroup
		for g := 0; g < G; g++ {
			wg.Add(1)
			gr := core.NewRNG(e.Seed, fmt.Sprintf("c17.concurrent.%s.%d", tag, ci), g)
			go func() {
				defer wg.Done()
				for k := 0; k < per && !bad.Load(); k++ {
					// a few hot names and a tail, so that hits, misses and evictions interleave
					i := gr.Intn(nNames)
					if gr.Chance(1, 2) {
						i = gr.Intn(3)
					}
					one(gr, names[i])
				}
			}()
		}
		wg.Wait()
	}
	storm("a")
	if bad.Load() {
		return
	}
	if errs.Load() > 0 {
		rec.Inconclusive(fmt.Sprintf("concurrent: %d lookups failed (first: %v)", errs.Load(), firstErr.Load()))
		return
	}
	rec.Count("concurrent_lookups", int64(G*per))
	rec.Count("concurrent_upstream_queries", srv.total.Load())
	rec.Class("cap=%d/g=%d/results-own", capacity, G)

	sr1 := core.NewRNG(e.Seed, "c17.concurrent.seq", ci)
	if capacity < 0 || capacity >= nNames {
		// every name fits: look each up once more (sequentially), then nothing may reach the upstream any more
		for _, n := range names {
			one(sr1, n)
		}
		before := srv.total.Load()
		storm("b")
		if bad.Load() {
			return
		}
		if errs.Load() > 0 {
			rec.Inconclusive(fmt.Sprintf("concurrent: %d lookups failed (first: %v)", errs.Load(), firstErr.Load()))
			return
		}
		if d := srv.total.Load() - before; d != 0 {
			viol("cached_result_not_reused", "all %d names were cached with a TTL of a day (cache capacity %d), yet %d further queries reached the upstream during %d concurrent lookups", nNames, capacity, d, G*per)
			return
		}
		rec.Count("concurrent_lookups_served_from_cache", int64(G*per))
		rec.Class("cap=%d/g=%d/all-cached-no-upstream", capacity, G)
		return
	}
	// bounded cache: fill it with capacity+1 names nobody has asked for yet (so the capacity oldest entries are gone),
	// then ask for the names of the storm again: each must be fetched from upstream (2 queries), none may have survived.
	extra := make([]*cName, capacity+1)
	for i := range extra {
		extra[i] = mkCName(ci, 100+i, r)
		srv.add(extra[i])
		one(sr1, extra[i])
	}
	if errs.Load() > 0 {
		rec.Inconclusive(fmt.Sprintf("concurrent: %d lookups failed (first: %v)", errs.Load(), firstErr.Load()))
		return
	}
	retained := 0
	var which []string
	for _, n := range names {
		q0 := n.queries.Load()
		one(sr1, n)
		if n.queries.Load() == q0 {
			retained++
			which = append(which, n.name)
		}
	}
	if errs.Load() > 0 {
		rec.Inconclusive(fmt.Sprintf("concurrent: %d lookups failed (first: %v)", errs.Load(), firstErr.Load()))
		return
	}
	// while walking the 12 names the cache legitimately retains up to `capacity` of the names just walked, but each
	// name is asked for once only, so none of them can be a hit
	if retained > 0 {
		viol("cache_exceeds_capacity", "cache capacity %d: after %d other names had been looked up, %d of the earlier names were still answered without asking upstream (%s)", capacity, capacity+1, retained, strings.Join(which, ", "))
		return
	}
	rec.Class("cap=%d/g=%d/capacity-respected", capacity, G)
}
