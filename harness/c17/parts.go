package c17

import (
	"fmt"
	"strings"
	"time"

	"verif/core"
	"verif/vtime"
)

func init() {
	core.Register("C17", "lookup", runLookup)
	core.Register("C17", "history", runHistory)
	core.Register("C17", "parser", runParser)
}

// worldFor creates (or re-creates after a stuck call) the part's world.
func worldFor(e *core.Env, w **world) bool {
	if *w != nil && !(*w).dead {
		return true
	}
	if *w != nil {
		(*w).close()
	}
	nw, err := newWorld(e)
	if err != nil {
		e.Rec.Inconclusive("setup: " + err.Error())
		return false
	}
	*w = nw
	return true
}

func needFaketime(e *core.Env) bool {
	if !vtime.Virtual {
		e.Rec.Inconclusive("C17 parts need the faketime flavour")
		return false
	}
	vtime.Freeze()
	return true
}

// ---------------------------------------------------------------------------------------------------------------
// part lookup: one lookup per case on a fresh resolver
// ---------------------------------------------------------------------------------------------------------------

type lookupJob struct {
	mode   string // udp | tcp | seq
	kA, kB string
	first  int
	lead   string
}

func lookupJobs(e *core.Env) []lookupJob {
	var udpAll, tcpAll []lookupJob
	kinds := append(append(append([]string{}, answerKinds...), breakerKinds...), quietKinds...)
	for _, a := range kinds {
		for _, b := range kinds {
			for _, f := range []int{4, 6} {
				udpAll = append(udpAll, lookupJob{mode: "udp", kA: a, kB: b, first: f})
			}
		}
	}
	for _, a := range tcpKinds {
		for _, b := range tcpKinds {
			for _, f := range []int{4, 6} {
				tcpAll = append(tcpAll, lookupJob{mode: "tcp", kA: a, kB: b, first: f})
			}
		}
	}
	var jobs []lookupJob
	if e.Quick() {
		// a seed-dependent stratified sample of both matrices
		r := core.NewRNG(e.Seed, "c17.lookup.sample", 0)
		off := r.Intn(1 << 20)
		for k := 0; k < 260; k++ {
			jobs = append(jobs, udpAll[(off+k*47)%len(udpAll)])
		}
		for k := 0; k < 160; k++ {
			jobs = append(jobs, tcpAll[(off+k*31)%len(tcpAll)])
		}
	} else {
		jobs = append(jobs, udpAll...)
		jobs = append(jobs, udpAll...) // second pass: other follow-ups, TTLs and TCP scripts
		jobs = append(jobs, tcpAll...)
		jobs = append(jobs, tcpAll...)
	}
	for k := e.N(300, 3000); k > 0; k-- {
		jobs = append(jobs, lookupJob{mode: "seq"})
	}
	// directed: a truncated UDP answer with long TTLs, then a negative answer with a short SOA TTL over TCP
	for k := e.N(6, 40); k > 0; k-- {
		jobs = append(jobs, lookupJob{mode: "truncneg"})
	}
	return jobs
}

func runLookup(e *core.Env) {
	rec := e.Rec
	rec.Rule("lookup: one case = one Lookup on a fresh real resolver (direct UDP + TCP clients, loopback) against a scripted upstream; modes: udp = (reaction to the A query, reaction to the AAAA query, which is answered first) over 19 kinds each (9 complete answers, 7 unusable/truncated, wrong source IP / wrong source port / silence, quiet kinds either persisting for all 10 transmissions or recovering on the first resend) with a random TCP script; tcp = UDP made useless (truncated / unusable / unanswered 20 s / decoys only), then the (A, AAAA) reactions of the first TCP connection over 15 kinds incl. zero length, close before / inside the length prefix / inside the message, hang; seq = random sequences per query with wrong-source and foreign-ID decoys around the answers and up to two TCP connections. Every message carries process-wide unique addresses. class = (mode, kinds, outcome)")
	if !needFaketime(e) {
		return
	}
	jobs := lookupJobs(e)
	var w *world
	defer func() {
		if w != nil {
			w.close()
		}
	}()
	core.Parallel(e, "lookup", len(jobs), 1, func(i int) {
		if !worldFor(e, &w) {
			return
		}
		j := jobs[i]
		rec.Begin("lookup", i, fmt.Sprintf("%+v", j))
		runConfirmed(e, func(b *recBuf) {
			if worldFor(e, &w) {
				lookupCase(e, b, w, i, core.NewRNG(e.Seed, "c17.lookup", i), j)
			}
		})
		rec.Eval()
	})
}

func lookupCase(e *core.Env, rec *recBuf, w *world, ci int, r *core.RNG, j lookupJob) {
	name := fmt.Sprintf("l%d-s%d%s.c17.test", ci, e.Seed, rec.suffix())
	if r.Chance(1, 4) {
		// names up to the 253-byte limit (the two queries of a lookup share one buffer)
		name = padName(name, r.Pick(100, 200, 241, 242, 243, 244, 250, 253))
	}
	g := &gen{r: r, al: w.al, name: name, tag: "lookup", modest: r.Chance(1, 3)}
	var sc *script
	switch j.mode {
	case "udp":
		sc = &script{First: j.first}
		sc.UDP[0] = g.udpMatrixSteps(j.kA, 0, r.Bool())
		sc.UDP[1] = g.udpMatrixSteps(j.kB, 1, r.Bool())
		sc.TCP = g.randomTCP()
	case "tcp":
		sc = &script{First: fam(r.Intn(2))}
		j.lead = r.PickStr("trunc", "trunc", "garbage", "partial", "wrongid", "silence", "decoys")
		g.udpLeadIn(j.lead, sc)
		c0 := g.tcpConn(j.kA, j.kB)
		c0.First = j.first
		// re-apply "nothing behind a breaker" for the forced order
		c0.Items[0], c0.Items[1] = g.tcpItem(j.kA, 4), g.tcpItem(j.kB, 6)
		if k := [2]string{j.kA, j.kB}[famIdx(j.first)]; tcpBreaker(k) {
			c0.Items[1-famIdx(j.first)] = nil
		}
		sc.TCP = append([]connScript{c0}, g.randomTCP()[0])
	case "truncneg":
		sc = &script{First: fam(r.Intn(2))}
		g.fixTTL = int64(r.Pick(20, 60, 300))
		sc.UDP[0] = []udpStep{{Main: g.item("trunc", 4)}}
		sc.UDP[1] = []udpStep{{Main: g.item("trunc", 6)}}
		g.fixTTL = int64(r.Range(1, 5))
		j.kA, j.kB = r.PickStr("nx_soa", "nodata_soa", "nx"), r.PickStr("nx_soa", "nodata_soa")
		sc.TCP = []connScript{g.tcpConn(j.kA, j.kB)}
		sc.TCP[0].Term = "close"
		g.fixTTL = 0
	default:
		sc = g.randomScript()
	}
	c := &caseCtx{w: w, e: e, b: rec, sub: "lookup", ci: ci, desc: map[string]any{"job": fmt.Sprintf("%+v", j), "name": name}}
	res, err := w.newResolver(0)
	if err != nil {
		rec.Inconclusive("resolver: " + err.Error())
		return
	}
	out := w.call(res, "Lookup", name, sc)
	if w.dead {
		c.viol("lookup_did_not_return", out, "Lookup(%s) never returned, not even after its context was cancelled", name)
		return
	}
	if !out.Quiet {
		rec.Inconclusive("upstream not quiet after the call")
		return
	}
	f := c.checkAsked(name, out, nil)
	if !f.ok {
		return
	}
	l := out.rec
	if l.asked() == 0 {
		c.viol("answer_without_asking", out, "first Lookup(%s) on a fresh resolver returned without a single query reaching upstream", name)
		return
	}
	rec.Count("udp_queries_seen", int64(l.udpQueries))
	rec.Count("tcp_connections_seen", int64(l.tcpConns))
	rec.Count("messages_sent_to_resolver", int64(len(l.log)))
	rec.Count("decoy_datagrams", int64(f.v.decoys))
	rec.Count("unusable_messages", int64(f.v.breakers))
	rec.Max("max_virtual_seconds_of_a_lookup", int64(out.End.Sub(out.Start)/time.Second))
	outc := "fail"
	if !f.failed {
		outc = "ok"
	}
	if f.dontCare {
		outc += "(dc)"
		rec.Count("dont_care_outcomes", 1)
	}
	via := "udp"
	if l.tcpConns > 0 {
		via = fmt.Sprintf("tcp%d", l.tcpConns)
	}
	switch j.mode {
	case "udp":
		rec.Class("udp %s|%s first=%d %s/%s", j.kA, j.kB, j.first, via, outc)
	case "tcp":
		rec.Class("tcp %s|%s first=%d lead=%s %s", j.kA, j.kB, j.first, j.lead, outc)
	case "truncneg":
		rec.Class("truncated-udp-long-ttl then tcp %s|%s %s", j.kA, j.kB, outc)
	default:
		rec.Class("seq [%s]|[%s] %s/%s", fmtKinds(sc.UDP[0]), fmtKinds(sc.UDP[1]), via, outc)
	}
	smp := map[string]any{"job": fmt.Sprintf("%+v", j), "events": l.events, "result": out}
	if f.entry != nil {
		smp["lifetime"] = fmt.Sprintf("[+%v, +%v] nolower=%v", f.entry.lt.lo.Sub(out.Start), f.entry.lt.hi.Sub(out.Start), f.entry.lt.noLower)
	}
	if f.entry != nil {
		smp["now_minus_start"] = vtime.Now().Sub(out.Start).String()
		smp["end_minus_start"] = out.End.Sub(out.Start).String()
	}
	rec.Sample(8, smp)
	// a fresh result whose lifetime has certainly not elapsed is served from the cache by every API, without asking
	if en := f.entry; en != nil && !en.lt.noLower && vtime.Now().Before(en.lt.lo) {
		c.desc["first_lookup"] = map[string]any{"events": l.events, "sent": l.log, "result": out, "lifetime_lo": en.lt.lo.Sub(out.Start).String(), "lifetime_hi": en.lt.hi.Sub(out.Start).String()}
		c.checkCachedAPIs(res, name, en)
		if c.bad {
			return
		}
		// and once it has certainly elapsed, upstream is asked again
		if (r.Chance(1, 3) || j.mode == "truncneg") && en.lt.hi.Sub(vtime.Now()) < 400*time.Second {
			vtime.Advance(en.lt.hi.Sub(vtime.Now()) + time.Duration(r.Pick(1, 500, 1000))*time.Millisecond)
			g2 := &gen{r: r, al: w.al, name: name, tag: "lookup-again", modest: true}
			out2 := w.call(res, "Lookup", name, g2.healthy(false))
			if w.dead || !out2.Quiet {
				rec.Inconclusive("upstream not quiet after the call")
				return
			}
			if out2.rec.asked() == 0 {
				kind, extra := en.lt.expiredKind()
				c.viol(kind, out2, "Lookup(%s) %v after the lifetime of the cached result had elapsed returned %s %s without asking upstream%s", name, out2.Start.Sub(en.lt.hi), addrList(out2.A), addrList(out2.AAAA), extra)
				return
			}
			if f2 := c.checkAsked(name, out2, en); f2.ok {
				rec.Count("refreshed_after_expiry", 1)
			}
		}
	}
}

// ---------------------------------------------------------------------------------------------------------------
// part parser: mutated / random messages as UDP and TCP replies, each followed by a genuine lookup
// ---------------------------------------------------------------------------------------------------------------

func runParser(e *core.Env) {
	rec := e.Rec
	rec.Rule("parser: one case = a lookup whose UDP and TCP replies are mutations of genuine answers (bit flips, byte noise, truncation, extension, lying section counts, compression-pointer loops, overlong labels, corrupted type/class/rdlength, random bytes, spliced tails), then a genuine lookup of another name and a re-lookup of the first name on the SAME resolver; judged: no panic, no hang, returned addresses were on the wire in this lookup, the genuine lookups return exactly their own answers; class = (mutation operator, transport reached, outcome)")
	if !needFaketime(e) {
		return
	}
	n := e.N(800, 100000)
	var w *world
	var res resolverAPI
	defer func() {
		if w != nil {
			w.close()
		}
	}()
	core.Parallel(e, "parser", n, 1, func(i int) {
		if w == nil || w.dead || i%512 == 0 {
			res = nil
		}
		if !worldFor(e, &w) {
			return
		}
		if res == nil {
			var err error
			if res, err = w.newResolver([]int{0, -1, 3}[i%3]); err != nil {
				rec.Inconclusive("resolver: " + err.Error())
				return
			}
		}
		rec.Begin("parser", i, "")
		runConfirmed(e, func(b *recBuf) {
			if b.attempt > 0 {
				// a re-execution starts from a clean cache
				res = nil
				if worldFor(e, &w) {
					res, _ = w.newResolver([]int{0, -1, 3}[i%3])
				}
			}
			if res != nil && worldFor(e, &w) {
				parserCase(e, b, w, res, i, core.NewRNG(e.Seed, "c17.parser", i))
			}
		})
		rec.Eval()
	})
}

func parserCase(e *core.Env, rec *recBuf, w *world, res resolverAPI, ci int, r *core.RNG) {
	name := fmt.Sprintf("p%d-s%d%s.c17.test", ci, e.Seed, rec.suffix())
	g := &gen{r: r, al: w.al, name: name, tag: "parser", modest: true}
	var ops []string
	fuzzItem := func(fam int) *item {
		base := g.make(r.PickStr("valid", "cname", "cname", "nx_soa", "nodata_soa", "servfail"), fam)
		raw, op := mutate(r, base.Raw)
		ops = append(ops, op)
		return &item{Src: "server", Cut: -1, R: &resp{Kind: "fuzz:" + op, Fam: fam, Fuzz: true, Raw: raw, Cand: -1, Addrs: base.Addrs}}
	}
	sc := &script{First: fam(r.Intn(2))}
	// UDP: one or both replies mutated (and again on every resend); TCP: likewise on both connections
	both := r.Chance(1, 3)
	victim := r.Intn(2)
	for fi := 0; fi < 2; fi++ {
		// the same reply on every resend (one message per family keeps the memory of GC-less ft children small)
		it := g.item("valid", fam(fi))
		if both || fi == victim {
			it = fuzzItem(fam(fi))
		}
		for k := 0; k < 10; k++ {
			sc.UDP[fi] = append(sc.UDP[fi], udpStep{Main: it})
		}
	}
	for k := 0; k < 2; k++ {
		cs := connScript{First: fam(r.Intn(2)), Term: r.PickStr("close", "close", "hang"), Split: r.Chance(1, 4)}
		for fi := 0; fi < 2; fi++ {
			if r.Chance(2, 3) {
				cs.Items[fi] = fuzzItem(fam(fi))
			} else {
				cs.Items[fi] = g.item("valid", fam(fi))
			}
		}
		sc.TCP = append(sc.TCP, cs)
	}
	c := &caseCtx{w: w, e: e, b: rec, sub: "parser", ci: ci, desc: map[string]any{"name": name, "mutations": ops}}
	out := w.call(res, "Lookup", name, sc)
	if w.dead {
		c.viol("lookup_did_not_return", out, "Lookup(%s) never returned after hostile replies", name)
		return
	}
	if !out.Quiet {
		rec.Inconclusive("upstream not quiet after the call")
		return
	}
	l := out.rec
	l.mu.Lock()
	l.log = append(l.log, &sentRec{Seq: len(l.log), Tr: "none", Src: "none", R: &resp{Kind: "fuzz-marker", Fuzz: true}})
	l.mu.Unlock()
	f := c.checkAsked(name, out, nil)
	if !f.ok {
		return
	}
	rec.Count("mutated_messages_sent", int64(len(l.log)-1))
	via := "udp"
	if l.tcpConns > 0 {
		via = "tcp"
	}
	outc := "ok"
	if f.failed {
		outc = "fail"
	}
	rec.Class("%s via=%s %s", ops[0], via, outc)
	rec.Max("max_virtual_seconds_of_a_lookup", int64(out.End.Sub(out.Start)/time.Second))
	// --- a genuine lookup of another name on the same resolver: exactly its own answers ---
	name2 := fmt.Sprintf("v%d-s%d%s.c17.test", ci, e.Seed, rec.suffix())
	g2 := &gen{r: r, al: w.al, name: name2, tag: "parser-genuine", modest: true}
	var sc2 *script
	if r.Chance(1, 4) {
		sc2 = g2.viaTCP()
	} else {
		sc2 = g2.healthy(r.Chance(1, 3))
	}
	c.desc["genuine_name"] = name2
	out2 := w.call(res, "Lookup", name2, sc2)
	if w.dead || !out2.Quiet {
		rec.Inconclusive("upstream not quiet after the call")
		return
	}
	f2 := c.checkAsked(name2, out2, nil)
	if !f2.ok {
		return
	}
	if out2.rec.asked() == 0 {
		c.viol("answer_without_asking", out2, "first Lookup(%s) returned without asking upstream", name2)
		return
	}
	if f2.failed {
		c.viol("failed_although_both_answered", out2, "genuine Lookup(%s) after a hostile exchange failed: %v", name2, out2.Err)
		return
	}
	// --- the hostile name again, upstream now genuine: either the cache (only what was on the wire before) or fresh answers ---
	if r.Chance(1, 2) {
		vtime.Advance(time.Duration(r.Pick(0, 1, 31, 100)) * time.Second)
		g3 := &gen{r: r, al: w.al, name: name, tag: "parser-again", modest: true}
		out3 := w.call(res, "Lookup", name, g3.healthy(false))
		if w.dead || !out3.Quiet {
			rec.Inconclusive("upstream not quiet after the call")
			return
		}
		if out3.rec.asked() == 0 {
			// served from the cache: must be what the hostile exchange legitimately produced
			if f.failed || !sameAddrs(out3.A, out.A) || !sameAddrs(out3.AAAA, out.AAAA) || out3.Err != nil {
				c.viol("poisoned_cache", out3, "Lookup(%s) after the hostile exchange (which returned err=%v %s %s) was served from the cache with %s %s err=%v", name, out.Err, addrList(out.A), addrList(out.AAAA), addrList(out3.A), addrList(out3.AAAA), out3.Err)
			}
			return
		}
		var st *entry
		if !f.failed {
			st = &entry{name: name, a: out.A, aaaa: out.AAAA}
		}
		if f3 := c.checkAsked(name, out3, st); f3.ok && f3.failed && !f3.stale {
			c.viol("failed_although_both_answered", out3, "genuine re-lookup of %s failed: %v", name, out3.Err)
		}
	}
}

// padName prepends labels of at most 63 bytes until the name is total bytes long.
func padName(base string, total int) string {
	for len(base) < total {
		n := min(63, total-len(base)-1)
		if n < 1 {
			break
		}
		if total-len(base)-1-n == 1 {
			n-- // never leave room for an empty label
		}
		base = strings.Repeat("x", n) + "." + base
	}
	return base
}
